"""C01 - dictable behaves as a rectangular list of records under any operation history.

A case is one history: protocol lines `(tbl <op> ...)` over a heap of handles h0..h5 (see
lean/PygModel/TableDriver.lean for the wire format).  Both sides keep the heap; the reply to every line
carries the outcome of the operation AND a dump of all live tables, so mutation of an operand by an
operation that should return a new table shows up on the very next line.
"""
import datetime, copy as _copy
from .. import proto
from ..proto import enc, hexs, enck, deck, key_name, name_key
from ..engine import Finding, Timeout

ID = 'C01'
TITLE = 'dictable behaves as a rectangular list of records under any operation history'
STATEMENT = ('after any history of public table operations every column has one length, len/shape agree, d[i][c] == d[c][i], '
             'iteration yields the rows, concat appends rows with None fill, operands are never altered and a non-fitting '
             'assignment is rejected with ValueError')
LEAN_FILES = ['Basic', 'Cmp', 'Sort', 'TableBasic', 'Table', 'TableSpec', 'TableDriver', 'TableLemmas', 'TableRect', 'TableRows',
              'TableCons', 'TableNodup', 'SliceLemmas', 'TableAbs', 'TableAbs2', 'TableAbsHeap', 'TableCall', 'TableSpecPlain', 'TableAlias',
              'TableMaskPlain', 'TableRagged', 'TableAliasSim', 'C01']
RULE = ('distinct protocol lines of generated histories on which the implementation returned a value (not an exception); '
        'every line also compares the dump of all live tables')
TRUSTED = ['correspondence harness (pv.engine, pv.proto) and generators / law checks of pv.props.c01',
           'Lean driver parser/printer (PygModel/Basic.lean, TableDriver.lean)']
ASSUMPTIONS = ['CPython dict semantics (insertion order, in-place overwrite), list slicing and negative indexing are as the model defines them (sliceIdx, pyIdx)',
               'column ORDER of results is not modelled (dict_concat builds it from a python set); tables are compared as dicts',
               'callables are drawn from a fixed menu implemented on both sides (identity / is-None / coalesce / constant)',
               'cells are scalars (None, bool, int, quarter floats, NaN, str, datetime); container-valued cells are outside the model',
               'aliasing: `d + None` / `concat([d])` are checked to return d itself (object identity) and can be bound to a handle (`alias`); the model is the reference heap of TableAlias.lean; every reply dumps what ALL handles read']
EXTRA = {}

D = datetime.datetime
NAMES = ['a', 'b', 'c', 'd']
# column names that are also parameter names of dictable.__init__: legal keys of a dict of columns, of records, of
# d[key] = value and targets of relabel - and swallowed wherever the code expands the columns into keywords
RNAMES = ['data', 'columns', 'key', 'self']      # `self`: the first parameter of every method - a column like any other (review 4 v1-A); `key`: Dict.__call__ offers every callable `key = <name of the new column>` as a default
CELLS = [None, None, 0, 1, 2, 3, -1, 7, 1.0, 2.5, -0.25, 0.5, 'x', 'y', 'zz', '', D(2020, 1, 1), D(2021, 6, 30, 12)]
KEYS = [1.5, 2.5, -0.25, None, D(2020, 1, 1), D(2021, 6, 30, 12)]      # column keys that are not strings (1.0 is the dict key 1 / True, NaN keys go by identity: left out)


def tagged(c):
    return c[:1] == '\x00'
MAXH = 6


# ----------------------------------------------------------------------------- implementation runner

COV_RANGES = [(329, 406), (46, 83), (670, 672), (710, 753), (868, 871)]    # __init__..__getitem__, dict_concat, apply, do, concat, __add__
_LINES = set()
_COV = {'on': False}


def start_coverage():
    """line coverage of _dictable.py through sys.monitoring (each location reports once, then disables itself), so
    that a constant generator is visible in the evidence"""
    if _COV['on']:
        return
    import sys
    mon = getattr(sys, 'monitoring', None)
    if mon is None:
        return
    try:
        mon.use_tool_id(mon.COVERAGE_ID, 'pv-c01')
    except ValueError:
        return

    def on_line(code, line):
        if code.co_filename.endswith('_dictable.py'):
            _LINES.add(line)
        return mon.DISABLE
    mon.register_callback(mon.COVERAGE_ID, mon.events.LINE, on_line)
    mon.set_events(mon.COVERAGE_ID, mon.events.LINE)
    _COV['on'] = True


def coverage_report(ranges=None):
    import pyg_base._dictable as m
    import types
    execl = set()

    def walk(code):
        for _, _, ln in code.co_lines():
            if ln:
                execl.add(ln)
        for c in code.co_consts:
            if isinstance(c, types.CodeType):
                walk(c)
    for v in list(vars(m).values()) + list(vars(m.dictable).values()):
        f = getattr(v, '__func__', v)
        if isinstance(f, types.FunctionType) and f.__code__.co_filename.endswith('_dictable.py'):
            walk(f.__code__)
    out = {}
    for a, b in (ranges or COV_RANGES):
        ex = sorted(l for l in execl if a <= l <= b)
        hit = [l for l in ex if l in _LINES]
        out['_dictable.py:%d-%d' % (a, b)] = '%d/%d executable lines hit; not hit: %s' % (len(hit), len(ex), [l for l in ex if l not in _LINES][:12])
    return out


_VOID = set()      # ids of histories that ran into an operation the statement does not pin down (see run_line)


def new_state():
    start_coverage()
    _VOID.clear()
    return []


def _h(a):
    if not (isinstance(a, str) and a.startswith('h')):
        raise ValueError('bad handle %r' % (a,))
    return int(a[1:])


def _colval(x):
    return proto.dec(x)


def _dict(x, f=proto.dec):
    assert x[0] == 'D'
    return {name_key(proto.unhex(kv[0])): f(kv[1]) for kv in x[1:]}


def _ident(name):
    if not name.isidentifier():
        raise proto.Unencodable('column name %r cannot be a parameter' % name)
    return name


def _fn(x):
    kind = x[1]
    if kind == 'idcol':
        a = _ident(proto.dec(x[2]))
        return eval('lambda %s: %s' % (a, a))
    if kind == 'isnone':
        a = _ident(proto.dec(x[2]))
        return eval('lambda %s: %s is None' % (a, a))
    if kind == 'coalesce':
        a, b = _ident(proto.dec(x[2])), _ident(proto.dec(x[3]))
        return eval('lambda %s, %s: %s if %s is None else %s' % (a, b, b, a, a))
    if kind == 'const':
        c = proto.dec(x[2])
        return lambda: c
    raise ValueError(kind)


def _dofn(x):
    kind = x[1]
    if kind == 'isnone':
        return lambda value: value is None
    if kind == 'dflt':
        c = proto.dec(x[2])
        return lambda value: c if value is None else value
    if kind == 'coalesce':
        b = _ident(proto.dec(x[2]))
        return eval('lambda value, %s: %s if value is None else value' % (b, b))
    raise ValueError(kind)


def _callarg(x):
    if isinstance(x, list) and x and x[0] == 'fn':
        return _fn(x)
    return proto.dec(x)


def _slice_arg(a):
    return None if a == 'N' else int(a[2:])


def apply_op(state, sx):
    """returns ('unit'|'val'|'alias', payload); table-producing ops bind their destination"""
    from pyg_base import dictable
    op, args = sx[1], sx[2:]

    def put(dst, t):
        if not isinstance(t, dictable):
            raise AssertionError('operation did not return a dictable: %r' % type(t))
        k = _h(dst)
        if k < len(state):
            state[k] = t
        elif k == len(state):
            state.append(t)
        else:
            raise ValueError('bad destination')
        return ('unit', None)

    if op == 'new':
        data = deck(args[1]) if args[1] != 'N' else None
        columns = deck(args[2]) if args[2] != 'N' else None
        kwargs = _dict(args[3])
        if columns is None:
            t = dictable(data, **kwargs) if data is not None else dictable(**kwargs)
        else:
            t = dictable(data, columns, **kwargs)
        return put(args[0], t)
    if op == 'setitem':
        state[_h(args[0])][deck(args[1])] = _colval(args[2])
        return ('unit', None)
    if op == 'delitem':
        del state[_h(args[0])][deck(args[1])]
        return ('unit', None)
    if op == 'update':
        state[_h(args[0])].update(_dict(args[1]))
        return ('unit', None)
    if op == 'len':
        return ('val', len(state[_h(args[0])]))
    if op == 'shape':
        return ('val', state[_h(args[0])].shape)
    if op == 'row':
        return ('val', state[_h(args[0])][proto.dec(args[1])])
    if op == 'col':
        return ('val', state[_h(args[0])][deck(args[1])])
    if op == 'iter':
        return ('val', list(state[_h(args[0])]))
    if op == 'tup':
        return ('val', state[_h(args[0])][deck(args[1])])
    if op == 'apply':
        return ('val', state[_h(args[0])][_fn(args[1])])
    if op == 'slice':
        t = state[_h(args[1])]
        return put(args[0], t[slice(_slice_arg(args[2]), _slice_arg(args[3]), _slice_arg(args[4]))])
    if op in ('mask', 'take', 'proj'):
        return put(args[0], state[_h(args[1])][deck(args[2])])
    if op == 'sub':
        ks = deck(args[2])
        return put(args[0], state[_h(args[1])] - (ks[0] if len(ks) == 1 else ks))       # one key is passed as a scalar
    if op == 'call':
        return put(args[0], state[_h(args[1])](**_dict(args[2], _callarg)))
    if op == 'relabel':
        t = state[_h(args[1])]
        kw = _dict(args[3])
        return put(args[0], t.relabel(**kw) if args[2] == 'N' else t.relabel(proto.dec(args[2]), **kw))
    if op == 'do':
        t = state[_h(args[1])]
        f = _dofn(args[2])
        return put(args[0], t.do(f) if args[3] == 'N' else t.do(f, deck(args[3])))
    if op == 'concat':
        hs = [_h(a) for a in args[1][1:]]
        res = dictable.concat([state[k] for k in hs])
        if len(hs) == 1 and res is state[hs[0]]:
            return ('alias', hs[0])
        return put(args[0], res)
    if op == 'add':
        return put(args[0], state[_h(args[1])] + state[_h(args[2])])
    if op == 'addrec':
        return put(args[0], state[_h(args[1])] + _dict(args[2]))
    if op == 'addnone':
        k = _h(args[0])
        res = state[k] + proto.dec(args[1])
        if res is state[k]:
            return ('alias', k)
        raise AssertionError('d + None did not return d itself')
    if op == 'alias':
        # dst = d + None / dictable.concat([d]): the SAME object; from now on an assignment through one handle shows in both
        src = state[_h(args[1])]
        res = src + None if _h(args[0]) % 2 == 0 else dictable.concat([src])
        if res is not src:
            raise AssertionError('d + None / concat([d]) did not return d itself')
        put(args[0], res)
        return ('alias', _h(args[1]))
    if op == 'copy':
        return put(args[0], state[_h(args[1])].copy())
    if op == 'inc0':
        return put(args[0], state[_h(args[1])].inc())
    return None


def dump(state):
    return '(L' + ''.join(' ' + enck(dict(t)) for t in state) + ')'


DST_OPS = ('new', 'slice', 'mask', 'take', 'proj', 'sub', 'call', 'relabel', 'do', 'concat', 'add', 'addrec', 'copy', 'inc0', 'alias')


def handles_ok(state, sx):
    """handles must be live; a destination may also be the next free one (same rule as the Lean driver)"""
    op, args = sx[1], sx[2:]
    hs = []
    for a in args:
        if isinstance(a, str) and a[:1] == 'h' and a[1:].isdigit():
            hs.append(int(a[1:]))
    if op == 'concat':
        hs += [int(a[1:]) for a in args[1][1:]]
    if op in DST_OPS:
        if not hs or hs[0] > len(state):
            return False
        hs = hs[1:]
    return all(h < len(state) for h in hs)


def run_line(state, sx):
    if id(state) in _VOID:
        return 'void'
    if sx[1] == 'relabel' and handles_ok(state, sx) and len(sx) == 6 and sx[4] == 'N':
        # renaming ONTO a name the table already has (and does not rename away): which of the two columns survives depends on
        # the column order, which for concatenations / records comes from a python set - outside the statement.  The generator
        # avoids it through its shadow of the column names; this guard looks at the real table, so that a shadow slip can never
        # turn into an alarm.  The rest of the history is not compared.
        try:
            cols = list(state[_h(sx[3])].keys())
            mp = _dict(sx[5])
            new = [mp.get(c, c) for c in cols]
            if len(set(new)) < len(new):
                _VOID.add(id(state))
                EXTRA['colliding_relabel_histories_cut'] = EXTRA.get('colliding_relabel_histories_cut', 0) + 1
                return 'void'
        except Exception:
            pass
    if sx[1] == 'relabel' and handles_ok(state, sx) and len(sx) == 6 and sx[4] != 'N':
        # an affix is concatenated to every column name: a table with a key that is not a string cannot take it (TypeError by construction, not
        # a statement about records).  The generator keeps affixes to string-named tables through its shadow; this guard looks at the real table
        # (the shadow can be off after an operation whose outcome it mispredicted).  The rest of the history is not compared.
        try:
            if any(not isinstance(c, str) for c in state[_h(sx[3])].keys()):
                _VOID.add(id(state))
                EXTRA['affix_on_keyed_table_histories_cut'] = EXTRA.get('affix_on_keyed_table_histories_cut', 0) + 1
                return 'void'
        except Exception:
            pass
    if not handles_ok(state, sx):
        return 'bad-op'
    try:
        r = apply_op(state, sx)
        if r is None:
            return 'bad-op'
        kind, v = r
        out = 'N' if kind == 'unit' else ('(alias I:%d)' % v if kind == 'alias' else enck(v))
    except (Timeout, proto.Unencodable, AssertionError):
        raise
    except Exception as e:
        k = proto.err_reply(e).split()[1]
        EXTRA.setdefault('impl_error_kinds', {})
        EXTRA['impl_error_kinds'][k] = EXTRA['impl_error_kinds'].get(k, 0) + 1
        out = '(E %s)' % k
    EXTRA.setdefault('op_histogram', {})
    EXTRA['op_histogram'][sx[1]] = EXTRA['op_histogram'].get(sx[1], 0) + 1
    return 'ok (T %s %s)' % (out, dump(state))


def compare(case, i, line, ir, mr):
    if ir == 'void':
        return None          # the history ran into a colliding relabel (outside the statement): not compared from there on
    # type-strict: no operation of the table API may turn an int cell into a float (or back); I:1 and F:1.0 differ
    if proto.same_reply(ir, mr, numeric=False):
        return None
    if mr == 'bad-op' or ir == 'bad-op':
        return ('divergence', 'outside the modelled universe: implementation %s, model %s' % (ir[:200], mr[:200]))
    if not (ir.startswith('ok') and mr.startswith('ok')):
        return 'implementation %s, model %s' % (ir[:200], mr[:200])
    a, b = proto.parse(ir[3:]), proto.parse(mr[3:])
    if not (isinstance(a, list) and isinstance(b, list) and len(a) == 3 and len(b) == 3):
        return "malformed reply: implementation %s, model %s" % (ir[:200], mr[:200])
    oa, ob = a[1], b[1]
    try:
        same_heap = proto.canon(a[2], False) == proto.canon(b[2], False)
    except Exception:
        # e.g. a column whose name is the empty string (only produced when cells end up as column names)
        return 'tables differ after the operation (a dump cannot be canonicalised): implementation %s, model %s' % (
            proto.render(a[2])[:300], proto.render(b[2])[:300])
    ea = isinstance(oa, list) and oa and oa[0] == 'E'
    eb = isinstance(ob, list) and ob and ob[0] == 'E'
    if ea and eb and same_heap:
        return ('divergence', 'both raise, kinds differ: implementation %s, model %s' % (oa[1], ob[1]))
    if not same_heap:
        return 'tables differ after the operation: implementation %s, model %s' % (proto.render(a[2])[:300], proto.render(b[2])[:300])
    if proto.canon(oa, False) == proto.canon(ob, False):
        return None
    return 'outcome differs: implementation %s, model %s' % (proto.render(oa)[:200], proto.render(ob)[:200])


def nontrivial(line, reply):
    return reply.startswith('ok') and not reply.startswith('ok (T (E')


# ----------------------------------------------------------------------------- generator

class Shadow(object):
    """shape-level shadow of the heap: per handle (columns, number of rows); enough to generate operations that are
    valid (or invalid in a chosen way) by construction"""

    def __init__(self, rng):
        self.rng = rng
        self.t = []       # list of [cols, n]
        self.lines = []
        self.tags = set()
        # one history in eight works on tables with column KEYS that are not strings (a float, None, a datetime: what xyz / pivot make of y values, or
        # the keys of a dict of columns).  On the wire and in the model such a key is NAMED U+0000 + its atom (proto.key_name); the runner hands the
        # implementation the real key.  Where the API cannot take such a key (keyword arguments, a list of names d[[..]] - read as a mask / int list -,
        # `d - None`, an affix) the generator uses the string columns only.
        self.keyed = rng.random() < 0.125
        self.pool = NAMES + ([key_name(k) for k in rng.sample(KEYS, rng.choice([1, 2, 3]))] if self.keyed else [])
        if self.keyed:
            self.tags.add('keyed-columns')

    # -- values
    def cell(self):
        r = self.rng.random()
        if r < 0.03:
            return self.rng.choice([True, False])
        if r < 0.05:
            return float('nan')
        return self.rng.choice(CELLS)

    def column(self, n):
        if self.rng.random() < 0.15:
            c = self.cell()
            return [c] * n
        return [self.cell() for _ in range(n)]

    def fit(self, n, has_cols=True):
        """a value that fits a table of n rows: (wire value, resulting n)"""
        r = self.rng.random()
        if not has_cols:
            k = self.rng.choice([0, 1, 2, 3])
            if r < 0.3:
                return self.cell(), 1
            return self.column(k), k
        if r < 0.2:
            return self.cell(), n
        if r < 0.3:
            return [self.cell()], n
        if r < 0.4:
            return tuple(self.column(n)), n
        return self.column(n), n

    def misfit(self, n):
        k = self.rng.choice([x for x in (0, 2, 3, 4, 5) if x != n and x != 1])
        return self.column(k)

    def dst(self):
        k = len(self.t)
        if k < MAXH and self.rng.random() < 0.6:
            return k
        return self.rng.randrange(k) if k else 0

    def bind(self, dst, cols, n):
        if dst == len(self.t):
            self.t.append([list(cols), n])
        else:
            self.t[dst] = [list(cols), n]
        if len(cols) and n == 0:
            self.tags.add('empty-with-columns')
        if not len(cols):
            self.tags.add('no-columns')

    def emit(self, fmt, *a):
        self.lines.append(fmt % a)

    def pick(self):
        return self.rng.randrange(len(self.t))

    def names(self, k):
        return self.rng.sample(self.pool, k)


def kv(d, f=enc):
    return '(D' + ''.join(' (%s %s)' % (hexs(k), f(v)) for k, v in d.items()) + ')'


def fn_spec(kind, *a):
    return '(fn %s%s)' % (kind, ''.join(' ' + enc(x) for x in a))


def g_new(S, dst=None, allow_bad=True):
    rng = S.rng
    dst = S.dst() if dst is None else dst
    r = rng.random()
    n = rng.choice([0, 0, 1, 2, 3, 3, 4, 5])
    k = rng.choice([0, 1, 2, 2, 3, 4])
    cols = S.names(k)
    if allow_bad and r < 0.08 and dst < len(S.t):
        # two different lengths other than 1 -> ValueError, handle keeps its table
        a, b = rng.sample([0, 2, 3, 4], 2)
        S.emit('(tbl new h%d N N %s)', dst, kv({'a': S.column(a), 'b': S.column(b), 'c': S.cell()}))
        S.tags.add('new-bad-lengths')
        return
    if allow_bad and 0.08 <= r < 0.13 and dst < len(S.t):
        # rows that do not fit their header -> ValueError, handle keeps its table: several cells under ONE name (the name must not be repeated
        # across the cells: defect C01-H2), or a row whose length is neither the header's nor 1
        width = rng.choice([2, 3])
        nr = rng.choice([1, 2, 3])
        if rng.random() < 0.6:
            hdr = S.names(1)
            rows = [[S.cell() for _ in range(width)] for _ in range(nr)]
            if nr > 1 and rng.random() < 0.3:
                rows[rng.randrange(nr)] = [S.cell()]
            if not any(len(x) > 1 for x in rows):
                rows[0] = [S.cell() for _ in range(width)]
            S.tags.add('rows-under-one-name')
        else:
            hdr = S.names(width)
            rows = [[S.cell() for _ in hdr] for _ in range(nr)]
            rows[rng.randrange(nr)] = [S.cell() for _ in range(width + 1)]
            S.tags.add('rows-misfit-header')
        if rng.random() < 0.5:
            S.emit('(tbl new h%d %s %s (D))', dst, enc(rows), enc(hdr))
        else:
            S.emit('(tbl new h%d %s N (D))', dst, enc([list(hdr)] + rows))
        return
    if r < 0.35 and any(tagged(c) for c in cols):
        r = 0.4         # keyword arguments are strings: a dict of columns instead
    if r < 0.35:        # keyword columns with scalar / length-1 broadcast
        d = {}
        m = n
        if cols and rng.random() < 0.12:
            cols = cols[:-1] + ['self']      # dictable(self = [1, 2]): a keyword column like any other, not the constructor's own first parameter
            S.tags.add('self-column')
        for c in cols:
            d[c], _ = S.fit(n)
        if cols and all(not isinstance(v, (list, tuple)) or len(v) == 1 for v in d.values()):
            m = 1
        if not cols:
            m = 0
        S.emit('(tbl new h%d N N %s)', dst, kv(d))
        S.bind(dst, cols, m)
    elif r < 0.5:       # a dict of columns as data
        if cols and rng.random() < 0.15:
            cols = cols[:-1] + [rng.choice(RNAMES)]
            S.tags.add('reserved-name')
        d = {c: S.column(n) for c in cols}
        S.emit('(tbl new h%d %s N (D))', dst, kv(d))
        S.bind(dst, cols, n if cols else 0)
    elif r < 0.7:       # records, possibly with different key sets
        if cols and rng.random() < 0.15:
            cols = cols[:-1] + [rng.choice(RNAMES)]
            S.tags.add('reserved-name')
        recs = []
        for _ in range(n):
            ks = [c for c in cols if rng.random() < 0.8]
            rng.shuffle(ks)
            recs.append({c: S.cell() for c in ks})
        allk = []
        for rec in recs:
            allk += [c for c in rec if c not in allk]
        S.emit('(tbl new h%d (L%s) N (D))', dst, ''.join(' ' + kv(rec) for rec in recs))
        S.bind(dst, allk, len(recs) if allk else 0)
    elif r < 0.85:      # rows + headers
        if not cols:
            cols = S.names(1)
        rows = [[S.cell() for _ in cols] for _ in range(n)]
        if rows and len(cols) > 1 and rng.random() < 0.15:
            rows[rng.randrange(len(rows))] = [S.cell()]       # a length-1 row is broadcast by zipper
            S.tags.add('rows-broadcast')
        S.emit('(tbl new h%d %s %s (D))', dst, enc(rows), enc(cols))
        S.bind(dst, cols, n)
    elif r < 0.92:      # header row first
        if not cols:
            cols = S.names(1)
        if n == 0:
            S.tags.add('header-only')      # a header and no row: the columns, no rows
        rows = [list(cols)] + [[S.cell() for _ in cols] for _ in range(n)]
        S.emit('(tbl new h%d %s N (D))', dst, enc(rows))
        S.bind(dst, cols, n)
    else:               # columns= restriction of a dict, [None] fill, or columns alone
        want = S.names(rng.choice([1, 2, 3]))
        q = rng.random()
        if q < 0.08:
            # ONE column name given as a string, no data: dictable([], 'ab') / dictable(None, 'ab') is the table with the column 'ab' and no row
            # (review 4 v1-C: the name was iterated into its characters)
            nm = rng.choice(['ab', 'xyz', 'a', 'data'])
            S.emit('(tbl new h%d %s %s (D))', dst, rng.choice(['N', '(L)']), enc(nm))
            S.bind(dst, [nm], 0)
            S.tags.add('new-one-string-column')
        elif q < 0.3:
            S.emit('(tbl new h%d N %s (D))', dst, enc(want))
            S.bind(dst, want, 0)
        elif q < 0.55:      # records with columns=: the records restricted to these columns, None where a record lacks one
            if not cols:
                cols = S.names(2)
            recs = [{c: S.cell() for c in cols if rng.random() < 0.8} for _ in range(n)]
            allk = set(c for rec in recs for c in rec)
            S.emit('(tbl new h%d (L%s) %s (D))', dst, ''.join(' ' + kv(rec) for rec in recs), enc(want))
            S.bind(dst, want, 0 if not allk else (len(recs) if any(c in allk for c in want) else 1))
            S.tags.add('new-records-columns')
        else:
            if not cols:
                cols = S.names(2)
            d = {c: S.column(n) for c in cols}
            if rng.random() < 0.3:
                # an INT among the names asked for: the column str(int) (`str(key) if is_int(key)`), whether the data spells it '1' or not at all
                # (review 4 v1-C: since 89e0380 dictable({'1':[1,2]}, columns=[1]) was {'1':[None]})
                k = rng.choice([1, 2])
                if rng.random() < 0.7:
                    d = dict(list(d.items())[:-1] + [(str(k), S.column(n))])
                want = [w for w in want if w != str(k)]
                want.insert(rng.randrange(len(want) + 1), k)
                S.tags.add('new-columns-int-name')
            names = [str(w) if isinstance(w, int) else w for w in want]
            kept = [len(d[c]) for c in names if c in d] + [1 for c in names if c not in d]
            ls = set(kept) - {1}
            m = list(ls)[0] if ls else 1
            if rng.random() < 0.3 and not any(tagged(c) for c in d):
                S.emit('(tbl new h%d N %s %s)', dst, enc(want), kv(d))      # the columns as KEYWORDS, restricted by columns=
                S.tags.add('new-keywords-columns')
            else:
                S.emit('(tbl new h%d %s %s (D))', dst, kv(d), enc(want))
            S.bind(dst, names, m)
            S.tags.add('new-columns-restriction')


def absent(cols):
    """a column name the table does not have"""
    for c in ('q', 'r', 's', 'u', 'w'):
        if c not in cols:
            return c
    k = 0
    while 'q%d' % k in cols:
        k += 1
    return 'q%d' % k


def g_op(S):
    rng = S.rng
    if not S.t:
        return g_new(S)
    h = S.pick()
    cols, n = S.t[h]
    r = rng.random()
    if r < 0.08:
        return g_new(S)
    if r < 0.22:        # column assignment
        q = rng.random()
        key = rng.choice(S.pool) if q < 0.87 else rng.choice(RNAMES) if q < 0.95 else rng.choice([1, 2])
        name = str(key)
        if key in RNAMES:
            S.tags.add('reserved-name')
        if cols and rng.random() < 0.22:
            S.emit('(tbl setitem h%d %s %s)', h, enc(key), enc(S.misfit(n)))
            S.tags.add('setitem-misfit')
            return
        had = bool(cols)
        v, m = S.fit(n, had)
        S.emit('(tbl setitem h%d %s %s)', h, enc(key), enc(v))
        if name not in cols:
            cols.append(name)
        if not had:
            S.t[h][1] = m          # a table without columns takes any length
        if S.t[h][1] == 0:
            S.tags.add('empty-with-columns')
        return
    if r < 0.27:        # deletion
        if cols and rng.random() < 0.85:
            k = rng.choice(cols)
            S.emit('(tbl delitem h%d %s)', h, enc(k))
            cols.remove(k)
            if not cols:
                S.t[h][1] = 0
                S.tags.add('no-columns')
        else:
            k = absent(cols)
            S.emit('(tbl delitem h%d %s)', h, enc(k))
            S.tags.add('delitem-missing')
        return
    if r < 0.31:        # update: several assignments, the second may not fit
        if not cols:
            return g_new(S)
        ks = S.names(2)
        bad = rng.random() < 0.3
        d = {ks[0]: S.fit(n)[0], ks[1]: (S.misfit(n) if bad else S.fit(n)[0])}
        S.emit('(tbl update h%d %s)', h, kv(d))
        for k in (ks[:1] if bad else ks):
            if k not in cols:
                cols.append(k)
        if bad:
            S.tags.add('update-partial')
        return
    if r < 0.42:        # queries
        q = rng.choice(['len', 'shape', 'iter', 'row', 'row', 'col', 'tup', 'apply'])
        idc = [c for c in cols if c.isidentifier()]
        if q == 'apply':
            if rng.random() < 0.15 or not idc:
                f = fn_spec('idcol', absent(cols)) if rng.random() < 0.6 else fn_spec('const', S.cell())
            elif len(idc) >= 2 and rng.random() < 0.4:
                f = fn_spec('coalesce', *rng.sample(idc, 2))
            else:
                f = fn_spec(rng.choice(['idcol', 'isnone']), rng.choice(idc))
            S.emit('(tbl apply h%d %s)', h, f)
            return
        if q in ('len', 'shape', 'iter'):
            S.emit('(tbl %s h%d)', q, h)
        elif q == 'row':
            i = rng.randrange(-n, n) if n and rng.random() < 0.85 else rng.choice([n, -n - 1, n + 2])
            S.emit('(tbl row h%d I:%d)', h, i)
        elif q == 'col':
            k = rng.choice(cols) if cols and rng.random() < 0.85 else absent(cols)
            S.emit('(tbl col h%d %s)', h, enc(k))
        else:
            ks = [rng.choice(cols) for _ in range(rng.choice([0, 1, 2, 2, 3, 3]))] if cols and rng.random() < 0.9 else ['a', absent(cols)]
            S.emit('(tbl tup h%d %s)', h, enc(tuple(ks)))
        return
    dst = S.dst()
    if r < 0.50:        # slice
        def bound():
            return None if rng.random() < 0.4 else rng.randrange(-n - 2, n + 3)
        a, b = bound(), bound()
        s = rng.choice([None, None, 1, 2, -1, -2, 3, 0])
        if s == 0:
            S.emit('(tbl slice h%d h%d %s %s I:0)', dst, h, enc(a), enc(b))
            if not cols:
                S.bind(dst, [], 0)
            S.tags.add('slice-step0')
            return
        S.emit('(tbl slice h%d h%d %s %s %s)', dst, h, enc(a), enc(b), enc(s))
        S.bind(dst, cols, len(range(n)[slice(a, b, s)]) if cols else 0)
        return
    if r < 0.61:        # boolean mask
        q = rng.random()
        if q < 0.03:
            m = []                     # d[[]]: no rows, all columns
            S.tags.add('mask-empty-list')
        elif q < 0.12:
            m = [False] * n if n else [False]
            S.tags.add('mask-all-false')
        elif q < 0.24:
            m = [True] * n if n else [True]
            S.tags.add('mask-all-true')
        elif q < 0.36:
            m = [rng.random() < 0.5]
            S.tags.add('mask-length-1')
        elif q < 0.44:
            k = rng.choice([x for x in (2, 3, 4, 6) if x != n])
            m = [rng.random() < 0.5 for _ in range(k)]
            S.emit('(tbl mask h%d h%d %s)', dst, h, enc(m))
            # neither one flag per row nor a single flag: ValueError - also for a one-row table (its row used to be
            # repeated once per flag by zipper: defect C01-M1)
            S.tags.add('mask-one-row-longer-mask' if n == 1 else 'mask-bad-length')
            return
        else:
            m = [rng.random() < 0.6 for _ in range(n)] if n else [rng.random() < 0.5]
        S.emit('(tbl mask h%d h%d %s)', dst, h, enc(m))
        if len(m) == 1:
            S.bind(dst, cols, n if m[0] else 0)
        else:
            S.bind(dst, cols, sum(m))
        return
    if r < 0.68:        # integer list
        q = rng.random()
        if q < 0.12:
            S.emit('(tbl take h%d h%d (L))', dst, h)
            S.bind(dst, cols, 0)
            S.tags.add('take-empty-list')
        elif q < 0.24 or n == 0:
            S.emit('(tbl take h%d h%d %s)', dst, h, enc([rng.choice([n, -n - 1, n + 1])]))
            S.tags.add('take-out-of-range')
        else:
            idx = [rng.randrange(-n, n) for _ in range(rng.choice([1, 2, 3, 5]))]
            S.emit('(tbl take h%d h%d %s)', dst, h, enc(idx))
            S.bind(dst, cols, len(idx))
        return
    if r < 0.73:        # projection
        if rng.random() < 0.25:
            # d - key / d - [keys]: a NEW table without these columns (absent keys ignored); a single key goes in as a scalar
            q = rng.random()
            if q < 0.35 or not cols:
                ks = [absent(cols)]                       # nothing to delete: still a new object, never the operand itself
                S.tags.add('sub-absent')
            elif q < 0.7:
                ks = [rng.choice(cols)]
            else:
                ks = list(dict.fromkeys([rng.choice(cols + [absent(cols)]) for _ in range(rng.choice([2, 3]))]))
            # (round l1, review w1 finding 2: `d - None` DOES delete the column None - as_list is not on that path, _dictattr.py:76-79 - the earlier exclusion
            # of the key None rested on a false premise and is gone)
            if any(tagged(k) for k in ks):
                S.tags.add('sub-keyed')
            S.emit('(tbl sub h%d h%d %s)', dst, h, enc(ks))
            rest = [c for c in cols if c not in ks]
            S.bind(dst, rest, n if rest else 0)
            S.tags.add('sub')
            return
        # round l1 (review w1 finding 2, defect C01-P1): a projection names EXISTING column keys, strings or not - d[[1.5]], d[['a', 1.5]], d[[None]] project
        # like d[['a']] (they raised ValueError 'We dont know how to understand this item': is_strs(item) was the test).  Drawn from ALL columns.
        scols = [c for c in cols if not tagged(c)]      # (the missing-column form keeps to strings: a list with a non-string that is no column is no name list)
        if cols and rng.random() < 0.85:
            ks = [rng.choice(cols) for _ in range(rng.choice([1, 2, 2, 3]))]
            if any(tagged(k) for k in ks):
                S.tags.add('proj-keyed')
            S.emit('(tbl proj h%d h%d %s)', dst, h, enc(ks))
            S.bind(dst, [c for i, c in enumerate(ks) if c not in ks[:i]], n)
        else:
            S.emit('(tbl proj h%d h%d %s)', dst, h, enc([absent(cols)] + scols[:1]))
            S.tags.add('proj-missing')
        return
    if r < 0.82:        # derived columns
        idc = [c for c in cols if c.isidentifier()]
        if not cols or not idc:
            v, m = S.fit(n, bool(cols))
            S.emit('(tbl call h%d h%d %s)', dst, h, kv({'a': v}))
            S.bind(dst, cols + (['a'] if 'a' not in cols else []), m if not cols else n)
            return
        q = rng.random()
        items = {}
        newc = list(cols)
        if q < 0.10:    # a parameter that is not a column -> TypeError when there are rows
            items[rng.choice(NAMES)] = fn_spec('idcol', absent(cols))
            S.emit('(tbl call h%d h%d %s)', dst, h, kv(items, str))
            if n == 0:
                S.bind(dst, newc + [k for k in items if k not in newc], 0)
            S.tags.add('call-missing-parameter')
            return
        if q < 0.16:    # circular
            x, y = rng.sample(NAMES, 2)
            items = {x: fn_spec('idcol', y), y: fn_spec('idcol', x)}
            S.emit('(tbl call h%d h%d %s)', dst, h, kv(items, str))
            S.tags.add('call-circular')
            return
        if q < 0.22 and n not in (1,):    # a constant that does not fit
            items = {rng.choice(NAMES): enc(S.misfit(n)), rng.choice(['c', 'd']): fn_spec('const', S.cell())}
            S.emit('(tbl call h%d h%d %s)', dst, h, kv(items, str))
            S.tags.add('call-const-misfit')
            return
        avail = list(idc)
        if 'key' not in avail and rng.random() < 0.12:
            avail.append('key')      # not a column: the callable receives the NAME of the column it defines
            S.tags.add('call-key-default')
        if rng.random() < 0.5:
            k = rng.choice(NAMES)
            items[k] = enc(S.fit(n)[0])
            if k not in avail:
                avail.append(k)
        pend = []
        for _ in range(rng.choice([1, 1, 2, 3])):
            k = rng.choice([c for c in NAMES if c not in items] or ['e'])
            if k in items:
                continue
            kind = rng.choice(['idcol', 'isnone', 'coalesce', 'const'])
            if kind == 'coalesce' and len(avail) >= 2:
                x, y = rng.sample(avail, 2)
                items[k] = fn_spec('coalesce', x, y)
            elif kind == 'const':
                items[k] = fn_spec('const', S.cell())
            else:
                items[k] = fn_spec(kind if kind != 'coalesce' else 'idcol', rng.choice(avail))
            pend.append(k)
        # dependencies between pending callables are allowed as long as they are acyclic: keep only references to
        # columns that exist already or to earlier pending keys (a later key may also overwrite a parameter: still fine)
        order = list(items.items())
        rng.shuffle(order)
        items = dict(order)
        S.emit('(tbl call h%d h%d %s)', dst, h, kv(items, str))
        if circular(items):
            S.tags.add('call-circular')
            return
        S.bind(dst, newc + [k for k in items if k not in newc], n)
        S.tags.add('call')
        return
    if r < 0.86:        # renaming
        q = rng.random()
        scols = [c for c in cols if not tagged(c)]      # an affix is added to strings, keyword arguments are strings: tables of string columns / the string columns only
        if len(scols) < len(cols):
            q = max(q, 0.3)
        if q < 0.3:
            affix = rng.choice(['x_', '_x', 'x'])
            S.emit('(tbl relabel h%d h%d %s (D))', dst, h, enc(affix))
            new = [c + affix if affix.startswith('_') else affix + c if affix.endswith('_') else c for c in cols]
        else:
            pool = [c for c in NAMES + ['e', 'f'] + RNAMES + RNAMES if c not in cols]
            olds = rng.sample(scols, min(len(scols), rng.choice([1, 1, 2]))) if scols else []
            mp = {}
            for o in olds:
                if pool:
                    mp[o] = pool.pop(rng.randrange(len(pool)))
                    pool = [c for c in pool if c != mp[o]]
                    if mp[o] in RNAMES:
                        S.tags.add('reserved-name')
            # NOT generated: renaming onto an existing name. Which of the two columns survives depends on the column ORDER
            # (dict comprehension: later value), and the order of a concatenation / of records comes from a python set:
            # `dictable([dict(d='zz'), dict(b=3)]).relabel(b='d')` keeps either column. Proved on the model (abs_relabel_any).
            if rng.random() < 0.2:
                mp[absent(cols)] = absent(cols + [absent(cols)])      # renaming a column that is not there changes nothing
            if len(scols) >= 2 and rng.random() < 0.1:
                x, y = rng.sample(scols, 2)
                mp = {x: y, y: x}      # a swap
                S.tags.add('relabel-swap')
            S.emit('(tbl relabel h%d h%d N %s)', dst, h, kv(mp))
            new = [mp.get(c, c) for c in cols]
        S.bind(dst, [c for i, c in enumerate(new) if c not in new[:i]], n)
        return
    if r < 0.91:        # per-column transform
        idc = [c for c in cols if c.isidentifier()]
        q = rng.random()
        f = rng.choice([fn_spec('isnone'), fn_spec('dflt', S.cell())] + ([fn_spec('coalesce', rng.choice(idc))] if idc else []))
        if q < 0.12:
            miss = absent(cols)
            S.emit('(tbl do h%d h%d %s %s)', dst, h, f, enc([miss]))
            if n == 0 or not cols:
                S.bind(dst, cols + [miss], 0)
            S.tags.add('do-missing-key')
        elif q < 0.5:
            S.emit('(tbl do h%d h%d %s N)', dst, h, f)
            S.bind(dst, cols, n)
        else:
            ks = [rng.choice(cols) for _ in range(rng.choice([0, 1, 2]))] if cols else []
            S.emit('(tbl do h%d h%d %s %s)', dst, h, f, enc(ks))
            S.bind(dst, cols, n)
        return
    if r < 0.97:        # concatenation
        q = rng.random()
        h2 = S.pick()
        c2, n2 = S.t[h2]
        union = cols + [c for c in c2 if c not in cols]
        if q < 0.4:
            S.emit('(tbl add h%d h%d h%d)', dst, h, h2)
            S.bind(dst, union, (n + n2) if union else 0)
        elif q < 0.6:
            hs = [h, h2] + [S.pick() for _ in range(rng.choice([0, 1, 2]))]
            u, m = [], 0
            for x in hs:
                u += [c for c in S.t[x][0] if c not in u]
                m += S.t[x][1]
            S.emit('(tbl concat h%d (L%s))', dst, ''.join(' h%d' % x for x in hs))
            S.bind(dst, u, m if u else 0)
        elif q < 0.68:
            S.emit('(tbl concat h%d (L h%d))', dst, h)
            S.tags.add('concat-single')
        elif q < 0.72:
            S.emit('(tbl concat h%d (L))', dst)
            S.bind(dst, [], 0)
        elif q < 0.9:
            rec = {c: S.cell() for c in S.names(rng.choice([0, 1, 2, 3]))}
            S.emit('(tbl addrec h%d h%d %s)', dst, h, kv(rec))
            u = cols + [c for c in rec if c not in cols]
            S.bind(dst, u, (n + (1 if rec else 0)) if u else 0)
        else:
            S.emit('(tbl addnone h%d %s)', h, rng.choice(['N', 'I:0', 'F:0']))
            S.tags.add('add-none')
        return
    if rng.random() < 0.45:
        # bind the operand ITSELF to another handle: the shadow shares the entry, so later assignments show in both
        S.emit('(tbl alias h%d h%d)', dst, h)
        if dst == len(S.t):
            S.t.append(S.t[h])
        else:
            S.t[dst] = S.t[h]
        S.tags.add('alias-bound')
        return
    S.emit('(tbl %s h%d h%d)', rng.choice(['copy', 'inc0']), dst, h)
    S.bind(dst, cols, n)


def circular(items):
    """does the `while len(callables) > 1` loop of Dict.__call__ find no independent callable?"""
    pend = {}
    for k, v in items.items():
        if v.startswith('(fn '):
            sx = proto.parse(v)
            pend[k] = [] if sx[1] == 'const' else [proto.dec(a) for a in sx[2:]]
    while len(pend) > 1:
        ind = [k for k, a in pend.items() if not (set(a) & set(pend))]
        if not ind:
            return True
        for k in ind:
            del pend[k]
    return False


def history(rng, nops):
    S = Shadow(rng)
    for _ in range(rng.choice([1, 2, 2, 3])):
        g_new(S, dst=len(S.t), allow_bad=False)
    while len(S.lines) < nops:
        g_op(S)
    return S


def generate(rng, tier):
    nh = 400 if tier == 'quick' else 10000
    for _ in range(nh):
        nops = rng.choice([5, 8, 12, 20, 30, 40])
        S = history(rng, nops)
        tag = 'history'
        for t in ('empty-with-columns', 'setitem-misfit', 'mask-all-false', 'mask-length-1'):
            if t in S.tags:
                tag += '+' + t
        for t in sorted(S.tags):
            EXTRA.setdefault('history_features', {})
            EXTRA['history_features'][t] = EXTRA['history_features'].get(t, 0) + 1
        EXTRA['histories'] = EXTRA.get('histories', 0) + 1
        yield dict(tag=tag, lines=S.lines, atomic=False)


# ----------------------------------------------------------------------------- laws on the implementation alone

def _snap(t):
    return {k: list(v) for k, v in dict.items(t)}


def _same_cell(x, y):
    if isinstance(x, float) and isinstance(y, float) and x != x and y != y:
        return True
    return type(x) == type(y) and x == y


def _same_table(a, b):
    return list(a.keys()) == list(b.keys()) and all(len(a[k]) == len(b[k]) and all(_same_cell(x, y) for x, y in zip(a[k], b[k])) for k in a)


MUTATORS = ('setitem', 'delitem', 'update')
FRESH_OPS = ('new', 'slice', 'mask', 'take', 'proj', 'sub', 'call', 'relabel', 'do', 'concat', 'add', 'addrec', 'copy', 'inc0')


def check_invariants(t):
    """the statement's invariants on one live table; returns None or a message"""
    cols = dict(dict.items(t))
    lens_ = set(len(v) for v in cols.values())
    if not all(isinstance(v, list) for v in cols.values()):
        return 'a column is not a list'
    if len(lens_) > 1:
        return 'columns of different lengths %s' % sorted(lens_)
    n = lens_.pop() if lens_ else 0
    if len(t) != n:
        return 'len() = %d but columns have %d entries' % (len(t), n)
    if tuple(t.shape) != (n, len(cols)):
        return 'shape %s but %d rows x %d columns' % (t.shape, n, len(cols))
    rows = list(t)
    if len(rows) != n:
        return 'iteration yields %d rows, len() = %d' % (len(rows), n)
    for i in range(n):
        ri = t[i]
        if list(ri.keys()) != list(cols.keys()) or list(rows[i].keys()) != list(cols.keys()):
            return 'row %d does not carry the table\'s columns' % i
        for c in cols:
            if not _same_cell(ri[c], t[c][i]):
                return 'd[%d][%r] != d[%r][%d]' % (i, c, c, i)
            if not _same_cell(rows[i][c], cols[c][i]):
                return 'iteration row %d differs from the columns at %r' % (i, c)
    return None


def laws(rng, tier, ctx):
    """the property statement checked directly on the implementation (no model involved)"""
    count = 0
    nh = 150 if tier == 'quick' else 3000
    for _ in range(nh):
        S = history(rng, rng.choice([8, 15, 25]))
        state = new_state()
        for li, line in enumerate(S.lines):
            sx = proto.parse(line)
            op = sx[1]
            if not handles_ok(state, sx):
                continue      # (the shape shadow mispredicted an earlier outcome: nothing to apply)
            before = [_snap(t) for t in state]
            objs = list(state)
            case = dict(tag='law', lines=S.lines[:li + 1], atomic=False)
            raised = None
            try:
                from ..engine import with_timeout
                with_timeout(lambda: apply_op(state, sx), 5)
            except Timeout:
                yield Finding('violation', case, 'operation does not return')
                break
            except Exception as e:
                raised = e
            count += 1
            # every live table is rectangular and consistent with its rows
            bad = None
            for k, t in enumerate(state):
                msg = check_invariants(t)
                if msg:
                    bad = 'h%d after %s: %s' % (k, op, msg)
                    break
            if bad:
                yield Finding('violation', case, bad)
                break
            # operands are never altered by operations that return a new table / a value
            mut = int(sx[2][1:]) if op in MUTATORS else None
            for k, (t, snap) in enumerate(zip(objs, before)):
                if k == mut or (mut is not None and t is objs[mut]):
                    continue      # the assigned table, under each of the handles bound to that very object
                if not _same_table(_snap(t), snap):
                    bad = 'operation %s altered the table h%d it did not assign to' % (op, k)
            if bad:
                yield Finding('violation', case, bad)
                break
            # an operation that returns a NEW table returns a new OBJECT: not one of the tables that existed before the call (the model's `rstep`
            # stipulates a fresh cell for these operations; only `d + None` and `concat([d])` hand back the operand: ops addnone / alias / concat of one)
            if raised is None and op in FRESH_OPS and not (op == 'concat' and len(sx[3]) - 1 == 1):
                res = state[int(sx[2][1:])]
                shared = [k for k, t in enumerate(objs) if t is res]
                if shared:
                    yield Finding('violation', case, 'operation %s returned the very object of h%d instead of a new table: a later assignment through one handle would alter the other' % (op, shared[0]))
                    break
            # a non-fitting assignment is rejected with ValueError and changes nothing
            if op == 'setitem':
                h = int(sx[2][1:])
                snap = before[h]
                v = sx[4]
                ln = (len(v) - 1) if isinstance(v, list) else 1
                n0 = len(list(snap.values())[0]) if snap else 0
                misfit = bool(snap) and ln != n0 and ln != 1
                if misfit and not isinstance(raised, ValueError):
                    yield Finding('violation', case, 'assignment of length %d to a table of %d rows was not rejected with ValueError (%r)' % (ln, n0, raised))
                    break
                if misfit and not _same_table(_snap(state[h]), snap):
                    yield Finding('violation', case, 'rejected assignment changed the table')
                    break
                if not misfit and raised is not None:
                    yield Finding('violation', case, 'fitting assignment raised %r' % (raised,))
                    break
            # concatenation appends the rows in order, absent columns are None
            if op in ('add', 'concat') and raised is None:
                hs = [int(a[1:]) for a in (sx[3:5] if op == 'add' else sx[3][1:])]
                if len(hs) >= 2:
                    dst = int(sx[2][1:])
                    res = state[dst]
                    keys = set(res.keys())
                    want = []
                    for k in hs:
                        src = before[k]
                        nk = len(list(src.values())[0]) if src else 0
                        for i in range(nk):
                            want.append({c: (src[c][i] if c in src else None) for c in keys})
                    got = [dict(r) for r in res]
                    if keys != set(c for k in hs for c in before[k]) or len(got) != len(want) or not all(
                            all(_same_cell(g[c], w[c]) for c in keys) for g, w in zip(got, want)):
                        yield Finding('violation', case, 'concatenation is not the operands\' rows in order with None fill')
                        break
            # renaming: every column is still there under its new name (distinct new names), same cells; a projection
            # carries exactly the requested columns
            if op == 'relabel' and raised is None:
                src = before[int(sx[3][1:])]
                affix = None if sx[4] == 'N' else proto.dec(sx[4])
                mp = _dict(sx[5])

                def newname(c):
                    if c in mp:
                        return mp[c]
                    if affix and affix.startswith('_'):
                        return c + affix
                    if affix and affix.endswith('_'):
                        return affix + c
                    return c
                names = [newname(c) for c in src]
                if len(set(names)) == len(names):
                    res = _snap(state[int(sx[2][1:])])
                    if not _same_table(res, {newname(c): src[c] for c in src}):
                        yield Finding('violation', case, 'relabel by an injective map lost or changed columns: %s -> %s, expected %s' % (
                            list(src), list(res), names))
                        break
            if op == 'proj' and raised is None:
                src = before[int(sx[3][1:])]
                ks = deck(sx[4])      # the names may be tagged keys (round l1)
                if ks:
                    res = _snap(state[int(sx[2][1:])])
                    uniq = [k for i, k in enumerate(ks) if k not in ks[:i]]
                    if not _same_table(res, {k: src[k] for k in uniq}):
                        yield Finding('violation', case, 'd[%r] does not carry exactly the requested columns: %s' % (ks, list(res)))
                        break
            # a mask of the table's length keeps exactly the flagged rows, in order, and all columns
            if op == 'mask' and raised is None:
                src = before[int(sx[3][1:])]
                m = proto.dec(sx[4])
                n0 = len(list(src.values())[0]) if src else 0
                res = _snap(state[int(sx[2][1:])])
                n1 = len(list(res.values())[0]) if res else 0
                if n1 > n0:
                    yield Finding('violation', case, 'd[mask] has %d rows, the table has %d: a mask selects rows, it cannot add any' % (n1, n0))
                    break
                if len(m) == n0:
                    if set(res) != set(src) or not all(len(res[c]) == sum(m) and all(
                            _same_cell(x, y) for x, y in zip(res[c], [v for v, tf in zip(src[c], m) if tf])) for c in src):
                        yield Finding('violation', case, 'd[mask] is not the flagged rows in order with all columns')
                        break
    # rows + header against a PLAIN list-of-rows reading (no zipper involved): every row as long as the header, or a single cell repeated across
    # it, gives exactly those records in order; any other row length is a ValueError - also under a header of ONE name (defect C01-H2)
    from pyg_base import dictable
    nr = 200 if tier == 'quick' else 3000
    for _ in range(nr):
        c = rng.choice([1, 1, 2, 3])
        hdr = rng.sample(NAMES, c)
        nrow = rng.choice([1, 2, 3, 4])
        lens_ = [rng.choice([c, c, c, 1, 2, 3]) for _ in range(nrow)]
        rows = [[rng.choice([None, 1, 2, 0.5, 'p', 'q']) for _ in range(m)] for m in lens_]
        form = rng.choice(['columns', 'header-row'])
        line = '(tbl new h0 %s %s (D))' % ((enc(rows), enc(hdr)) if form == 'columns' else (enc([list(hdr)] + rows), 'N'))
        case = dict(tag='law-rows-header', lines=[line], atomic=False)
        count += 1
        fits = all(m == c or m == 1 for m in lens_)
        want = [dict(zip(hdr, r if len(r) == c else r * c)) for r in rows]
        try:
            from ..engine import with_timeout
            t = with_timeout(lambda: dictable(rows, columns=hdr) if form == 'columns' else dictable([list(hdr)] + rows), 5)
        except Timeout:
            yield Finding('violation', case, 'the constructor does not return')
            continue
        except ValueError:
            if fits:
                yield Finding('violation', case, 'rows that fit their header (each as long as the header, or a single cell) were rejected with ValueError')
            continue
        except Exception as e:
            yield Finding('violation', case, 'the constructor raised %s' % type(e).__name__)
            continue
        got = [dict(r) for r in t]
        if not fits:
            yield Finding('violation', case, 'rows of lengths %s under a header of %d name(s) were accepted: the table holds %r, cells were dropped or invented without an error' % (lens_, c, got))
        elif list(t.keys()) != hdr or len(got) != len(want) or not all(set(g) == set(w) and all(_same_cell(g[k], w[k]) for k in w) for g, w in zip(got, want)):
            yield Finding('violation', case, 'rows + header are not the records of a plain list-of-rows reading: %r, expected %r' % (got, want))
    # an int key beside its str() in a dict of columns (review w1 finding 3, C01-C3): the int names the column str(int), so the two name ONE column and the
    # later replaces the earlier - but every column GIVEN takes part in the length reconciliation: two different lengths (neither 1) are a ValueError and a
    # one-cell column is broadcast to the others' length, exactly as for the same columns under distinct names (the statement's "construction from columns
    # with scalar broadcasting", "two different lengths -> ValueError").  Not on the wire (the model's names are strings): checked on the implementation alone.
    nk = 150 if tier == 'quick' else 2000
    for _ in range(nk):
        k = rng.choice([1, 2, 0, -3, 17])
        n = rng.choice([1, 2, 3])
        cols = [(rng.choice(NAMES), n)] if rng.random() < 0.7 else []
        pair = [(k, rng.choice([n, n, 1, n + 1, n + 2])), (str(k), rng.choice([n, n, 1, n + 1]))]
        rng.shuffle(pair)
        cols = cols + pair if rng.random() < 0.5 else pair + cols
        data = {c: [rng.choice([None, 1, 2, 0.5, 'p']) for _ in range(m)] for c, m in cols}
        if _ < len(INT_BESIDE_STR):      # the two inputs of the review first (the corpus holds wire lines only, and an int key is not on the wire)
            data = INT_BESIDE_STR[_]
            cols = [(c, len(v)) for c, v in data.items()]
        ls = {m for _, m in cols}
        big = ls - {1}
        case = dict(tag='law-int-key-beside-str', lines=['(python: dictable(%r))' % (data,)], atomic=False)
        count += 1
        try:
            from ..engine import with_timeout
            t = with_timeout(lambda: dictable(dict(data)), 5)
        except Timeout:
            yield Finding('violation', case, 'the constructor does not return')
            continue
        except ValueError:
            if len(big) <= 1:
                yield Finding('violation', case, 'columns of lengths %s (one length, or one length and single cells) were rejected with ValueError' % sorted(ls))
            continue
        except Exception as e:
            yield Finding('violation', case, 'the constructor raised %s' % type(e).__name__)
            continue
        want = max(ls)
        if len(big) > 1:
            yield Finding('violation', case, 'columns of lengths %s were accepted (the table is %r): a column given with a misfitting length was dropped without the ValueError of the statement' % ([m for _, m in cols], dict(t)))
        elif check_invariants(t):
            yield Finding('violation', case, check_invariants(t))
        elif len(t) != want or sorted(t.keys()) != sorted({str(c) for c, _ in cols}):
            yield Finding('violation', case, 'columns of lengths %s give a table of %d rows with columns %r: expected %d rows (single cells broadcast) and the columns %r' % (
                [m for _, m in cols], len(t), list(t.keys()), want, sorted({str(c) for c, _ in cols})))
    if _COV['on']:
        EXTRA['line_coverage'] = coverage_report()
    yield count


INT_BESIDE_STR = [{'a': [1, 2], 1: [3, 4, 5], '1': [5, 6]}, {1: [1, 2], '1': [3]}, {'1': [3], 1: [1, 2]}]

MATCHERS = {}
