import PygProofs.Lemmas.Tri
import PygProofs.Lemmas.CmpLemmas
import PygProofs.Props.C07
