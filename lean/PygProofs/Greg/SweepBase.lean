/-
  Helpers for the Gregorian sweeps: a boolean `allFrom p lo k` evaluated by the kernel means `p` holds on
  `[lo, lo+k)`.
-/
import PygModel.Greg

namespace Pyg.Greg

theorem allFrom_spec (p : Nat → Bool) (lo k : Nat) (h : allFrom p lo k = true) :
    ∀ n, lo ≤ n → n < lo + k → p n = true := by
  induction k generalizing lo with
  | zero => intro n h1 h2; omega
  | succ k ih =>
    intro n h1 h2
    simp only [allFrom, Bool.and_eq_true] at h
    by_cases hn : n = lo
    · subst hn; exact h.1
    · exact ih (lo + 1) h.2 n (by omega) (by omega)

/-- what one evaluation of the checker says -/
theorem chkOrd_spec (n : Nat) (h : chkOrd n = true) :
    Valid (fromOrd n).y (fromOrd n).m (fromOrd n).d ∧ ord (fromOrd n).y (fromOrd n).m (fromOrd n).d = n := by
  unfold chkOrd at h
  cases hp : fromOrd n with
  | mk y m d =>
    rw [hp] at h
    simp only [Bool.and_eq_true, Nat.ble_eq] at h
    exact ⟨⟨h.1.1.1.1.1.1, h.1.1.1.1.1.2, h.1.1.1.1.2, h.1.1.1.2, h.1.1.2, h.1.2⟩, Nat.eq_of_beq_eq_true h.2⟩

end Pyg.Greg
