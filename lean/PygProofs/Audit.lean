/-
  Audit: enumerate every theorem in a `Pyg.Props.Cxx` namespace together with the axioms it
  depends on.  Run with `lake env lean PygProofs/Audit.lean`; the harness parses the output.
-/
import Lean
import PygProofs

open Lean Elab Command

run_cmd do
  let env ← getEnv
  let mut names : Array Name := #[]
  for (n, ci) in env.constants.toList do
    if (`Pyg.Props).isPrefixOf n && !n.isInternal then
      match ci with
      | .thmInfo _ => names := names.push n
      | _ => pure ()
  let sorted := names.qsort (fun a b => a.toString < b.toString)
  for n in sorted do
    let axs ← liftCoreM (collectAxioms n)
    let axs := axs.qsort (fun a b => a.toString < b.toString)
    logInfo m!"THEOREM {n} AXIOMS {axs.toList}"
