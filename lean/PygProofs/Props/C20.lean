/-
  C20 — perdictable evaluates a function once per row of the keyed join of its inputs.
-/
import PygModel.PerDict
import PygProofs.Lemmas.JoinLemmas

namespace Pyg.Props.C20
open Pyg

/-- the row loop logs exactly one call per computed row -/
theorem evalRows_length (f : List Cell → Val) (params : List String) (ds : Table) (hasData : Bool)
    (today : Int) (ids : List Nat) :
    (evalRows f params ds hasData today ids).1.length = ids.length := by
  induction ids with
  | nil => rfl
  | cons i is ih =>
    simp only [evalRows]
    split <;> simp [ih]

end Pyg.Props.C20
