/-
  C20 — perdictable evaluates a function once per row of the keyed join of its inputs.
  Property theorems only (helper lemmas: PygProofs/Lemmas/PerDictLemmas.lean, JoinLemmas.lean).

  The lifted function `f : List Cell → Val` is arbitrary; the model returns the result and the log of
  the calls of `f` (argument lists, in call order).
-/
import PygModel.PerDict
import PygProofs.Lemmas.PerDictLemmas
import PygProofs.Lemmas.PerDictJoin
import PygProofs.Lemmas.PerDictTotal
import PygProofs.Lemmas.PerDictRename
import PygProofs.Props.C02

namespace Pyg.Props.C20
open Pyg

/-! ## scalars -/

/-- **scalar passthrough**: when every input (and `expiry`) is a scalar the lifted function returns
`f(...)` itself, after exactly one call of `f` on the given values — whatever `on`, the defaults
and the expiry are -/
theorem scalar_passthrough (f : List Cell → Val) (params on : List String)
    (defaults : List (String × Cell)) (inputs : List (String × Cell)) (e : Cell) (today : Int)
    (ifNone : Bool) :
    let args := params.map (argOf (inputs ++ [("expiry", e)]))
    perdictable f params on defaults (inputs.map fun kv => (kv.1, .scalar kv.2)) (.scalar e) today ifNone
      = some (.ok (.value (f args), [args])) := by
  intro args
  have hm : ((inputs.map fun kv => (kv.1, PInput.scalar kv.2)) ++ [("expiry", PInput.scalar e)])
      = (inputs ++ [("expiry", e)]).map fun kv => (kv.1, PInput.scalar kv.2) := by simp
  have hj : ∀ d, pdJoin ((inputs ++ [("expiry", e)]).map fun kv => (kv.1, PInput.scalar kv.2)) on d
      = some (.ok ((inputs ++ [("expiry", e)]).map fun kv => (kv.1, [kv.2]))) := by
    intro d
    simp only [pdJoin, List.mapM_map]
    have := mapM_ok (fun kv : String × Cell => (kv.1, PInput.scalar kv.2)) (inputs ++ [("expiry", e)])
    simp only [Function.comp_def] at this ⊢
    rw [this]
    simp [List.filterMap_map, Function.comp_def]
  simp only [perdictable, hm, hj]
  have hn : Table.nrows ((inputs ++ [("expiry", e)]).map fun kv => (kv.1, [kv.2])) = 1 := by
    cases inputs <;> simp [Table.nrows]
  have hany : (((inputs ++ [("expiry", e)]).map fun kv => (kv.1, PInput.scalar kv.2)).any
      fun kv => kv.2.isTable) = false := by
    simp [List.any_map, PInput.isTable, Function.comp_def]
  have hargs : rowArgs ((inputs ++ [("expiry", e)]).map fun kv => (kv.1, [kv.2])) params 0 = args := by
    simp only [rowArgs, args]
    apply List.map_congr_left
    intro p _
    exact cellAt_scalars _ p
  generalize ((inputs ++ [("expiry", e)]).map fun kv => (kv.1, [kv.2])) = T at hn hargs ⊢
  generalize (((inputs ++ [("expiry", e)]).map fun kv => (kv.1, PInput.scalar kv.2)).any
      fun kv => kv.2.isTable) = bany at hany ⊢
  subst hany
  simp [hn, hargs]

/-! ## tables: values and the once-per-row contract -/

/-- **values are f, computed once**: when the joined table `ds` has rows and some input is a table,
the result holds the `on` columns of `ds` and, for every row, either `f` of that row's parameter
values or the supplied previous value; the log of calls is exactly the list of rows that are to be
computed — each such row once, in row order, no other call. -/
theorem table_result (f : List Cell → Val) (params on : List String)
    (defaults : List (String × Cell)) (inputs : List (String × PInput)) (expiry : PInput)
    (today : Int) (ds keyCols : Table)
    (hj : pdJoin (inputs ++ [("expiry", expiry)]) on
      (defaults ++ (if (defaults.map (·.1)).contains "data" then [] else [("data", Cell.none)]) ++
        (if (defaults.map (·.1)).contains "expiry" then [] else [("expiry", Cell.none)]))
      = some (.ok ds))
    (hn : ds.nrows ≠ 0) (ht : (inputs ++ [("expiry", expiry)]).any (fun kv => kv.2.isTable) = true)
    (hon : on ≠ []) (hk : ds.select on = .ok keyCols) (ifNone : Bool) :
    let runs := rowRuns ifNone ds (ds.cols.contains "data") today
    perdictable f params on defaults inputs expiry today ifNone = some (.ok (
      .table (keyCols.toV ++ [("data", (List.range ds.nrows).map fun i =>
        if runs i then f (rowArgs ds params i) else .cell (ds.jcellAt "data" i))]),
      ((List.range ds.nrows).filter runs).map (rowArgs ds params))) := by
  intro runs
  have hon' : on.isEmpty = false := by cases on <;> simp_all
  simp only [perdictable, hj, hn, if_false, ht, Bool.not_true, Bool.and_false, Bool.false_eq_true,
    hon', hk]
  rw [← evalRows_values, ← evalRows_log]

/-- a row is *kept* (not computed) exactly when a previous value column exists, the row's expiry
is a date strictly before today — `None` or a date from today on means (re)compute — and, with
`if_none = True`, the previous value is not `None` -/
theorem row_kept_iff (ifNone : Bool) (ds : Table) (hasData : Bool) (today : Int) (i : Nat)
    (hc : ds.jcellAt "expiry" i = .none ∨ ∃ us, ds.jcellAt "expiry" i = .dt us) :
    rowRuns ifNone ds hasData today i = false ↔
      hasData = true ∧ (ifNone = true → ds.jcellAt "data" i ≠ .none) ∧
        ∃ us, ds.jcellAt "expiry" i = .dt us ∧ us < today := by
  have hnone : (ds.jcellAt "data" i).isNone = false ↔ ds.jcellAt "data" i ≠ .none := by
    cases ds.jcellAt "data" i <;> simp [Cell.isNone]
  rcases hc with h | ⟨us, h⟩
  · simp [rowRuns, h, runExpiry]
  · have hr : runExpiry today (Cell.dt us) = decide (us ≥ today) := rfl
    simp only [rowRuns, h, hr, Bool.or_eq_false_iff, Bool.not_eq_false',
      decide_eq_false_iff_not, Int.not_le, Cell.dt.injEq, exists_eq_left', Bool.and_eq_false_imp,
      hnone, and_assoc]

/-- `runExpiry` through the date the cell spells: `None` recomputes, a spelled instant recomputes iff it is not before today -/
theorem runExpiry_none (today : Int) : runExpiry today .none = true := rfl

theorem runExpiry_of_date (today : Int) (c : Cell) (us : Int) (h : expiryDate c = some us) :
    runExpiry today c = decide (us ≥ today) := by
  cases c with
  | none => simp [expiryDate] at h
  | _ => simp only [runExpiry, h]

/-- **`row_kept_iff` for every spelling of the expiry that `dt()` accepts** (review t2 V3; the code reads `dt(value) >= today`
since fix 7ea4860): the expiry cell is `None` or spells an instant - a datetime, a date string such as `'2000-01-01'` /
`'20000101'`, a number such as `20000101` - where "spells" is the INDEPENDENT C03 model of `dt` (`expiryDate` = `DateParse.dtStr`
/ `num2dtQ`, proved about in Props/C03).  The row is kept exactly when a previous value column exists, the spelled instant is
strictly before today and, with `if_none = True`, the previous value is not `None`. -/
theorem row_kept_iff_spelled (ifNone : Bool) (ds : Table) (hasData : Bool) (today : Int) (i : Nat)
    (hc : expiryCovered (ds.jcellAt "expiry" i) = true) :
    rowRuns ifNone ds hasData today i = false ↔
      hasData = true ∧ (ifNone = true → ds.jcellAt "data" i ≠ .none) ∧
        ∃ us, expiryDate (ds.jcellAt "expiry" i) = some us ∧ us < today := by
  have hnone : (ds.jcellAt "data" i).isNone = false ↔ ds.jcellAt "data" i ≠ .none := by
    cases ds.jcellAt "data" i <;> simp [Cell.isNone]
  simp only [expiryCovered, Bool.or_eq_true, beq_iff_eq, Option.isSome_iff_exists] at hc
  rcases hc with (h | h) | ⟨us, h⟩
  · simp [rowRuns, h, runExpiry, expiryDate]
  · have hd : expiryDate (.str "NaT") = none := by decide
    simp [rowRuns, h, runExpiry, hd]
  · simp only [rowRuns, runExpiry_of_date today _ us h, h, Bool.or_eq_false_iff, Bool.not_eq_false',
      decide_eq_false_iff_not, Int.not_le, Option.some.injEq, exists_eq_left', Bool.and_eq_false_imp,
      hnone, and_assoc]

/-- the spellings of review t2 V3 denote 2000-01-01 00:00 (730119 days after 0001-01-01) -/
example : expiryDate (.str "2000-01-01") = some (730119 * 86400000000) ∧ expiryDate (.str "20000101") = some (730119 * 86400000000) ∧
    expiryDate (.int 20000101) = some (730119 * 86400000000) ∧ expiryDate (.int 1) = none ∧ expiryDate (.bool true) = none := by
  decide

/-- **calls once**: a computed row contributes exactly one entry to the log, a kept row none -/
theorem calls_once (ifNone : Bool) (f : List Cell → Val) (params : List String) (ds : Table)
    (hasData : Bool) (today : Int) (n : Nat) :
    (evalRows ifNone f params ds hasData today (List.range n)).2.length =
      ((List.range n).filter (rowRuns ifNone ds hasData today)).length ∧
    (evalRows ifNone f params ds hasData today (List.range n)).1.length = n := by
  rw [evalRows_log, evalRows_values]; simp

/-- no key survives the join: `f` is never called and the supplied `data` (or `None`) is returned -/
theorem no_rows (f : List Cell → Val) (params on : List String)
    (defaults : List (String × Cell)) (inputs : List (String × PInput)) (expiry : PInput)
    (today : Int) (ds : Table)
    (hj : pdJoin (inputs ++ [("expiry", expiry)]) on
      (defaults ++ (if (defaults.map (·.1)).contains "data" then [] else [("data", Cell.none)]) ++
        (if (defaults.map (·.1)).contains "expiry" then [] else [("expiry", Cell.none)]))
      = some (.ok ds))
    (hn : ds.nrows = 0) (ifNone : Bool) :
    perdictable f params on defaults inputs expiry today ifNone =
      some (.ok (.noRows ((inputs.find? (·.1 == "data")).map (·.2)), [])) := by
  simp only [perdictable, hj, hn, if_true]

/-! ## sorted by key -/

/-- **sorted by key**: the final `sort` of `join` returns the rows of its argument permuted so that
the row keys (the dict of the `on` cells) are non-decreasing under `cmp` -/
theorem sorted_by_key (t t' : Table) (on : List String) (hn : t.nrows ≠ 0)
    (h : t.sortOn on = .ok t') :
    ∃ keys : List Val, keys.length = t.nrows ∧
      t' = t.gatherRows (sortIdx keys) ∧
      (sortIdx keys).Perm (List.range t.nrows) ∧
      ((sortIdx keys).map (keyAt keys)).Pairwise (fun a b => cmpLe a b = true) := by
  simp only [Table.sortOn, hn, if_false] at h
  split at h
  · cases h
  · simp only [bind, Except.bind] at h
    split at h
    · cases h
    · rename_i sel _
      simp only [pure, Except.pure, Except.ok.injEq] at h
      refine ⟨_, ?_, h.symm, ?_, ?_⟩
      · simp
      · have := Props.C07.sortIdx_perm ((List.range t.nrows).map fun i =>
          Val.tuple [.dict (sel.map fun c => (c.1, .cell (c.2.getD i .none)))])
        simpa using this
      · rw [sortIdx_gather]; exact Props.C07.sort_sorted _

/-- **the joined table is sorted**: whenever some input is a table, the table `join` returns (the one
the row loop runs over, and whose `on` columns become the key columns of the result) is the output
of the final sort — so by `sorted_by_key` its rows are in non-decreasing key order, for every
combination of inputs, defaults and expiry -/
theorem join_output_sorted (inputs : List (String × PInput)) (on : List String)
    (defaults : List (String × Cell)) (ds : Table)
    (ht : inputs.any (fun kv => kv.2.isTable) = true)
    (h : pdJoin inputs on defaults = some (.ok ds)) :
    ∃ t : Table, t.sortOn on = .ok ds := by
  simp only [pdJoin] at h
  split at h
  · simp at h
  · rename_i seq hseq
    split at h
    · -- no table among the inputs: excluded by `ht`
      rename_i hemp
      exfalso
      -- `_item` keeps tables tables: `seq` has a table wherever `inputs` has one
      have hlen : ∀ (l : List (String × PInput)) (out : List (String × PInput)),
          l.mapM (fun kv => match kv.2 with
            | .table d => (item d kv.1 on).map fun d' => (kv.1, PInput.table d')
            | .scalar c => Except.ok (kv.1, PInput.scalar c)) = .ok out →
          l.any (fun kv => kv.2.isTable) = true → out.any (fun kv => kv.2.isTable) = true := by
        intro l
        induction l with
        | nil => intro out _ h2; simp at h2
        | cons x xs ih =>
          intro out h1 h2
          simp only [List.mapM_cons, bind, Except.bind] at h1
          split at h1
          · cases h1
          · rename_i y hy
            split at h1
            · cases h1
            · rename_i ys hys
              simp only [pure, Except.pure, Except.ok.injEq] at h1
              subst h1
              simp only [List.any_cons, Bool.or_eq_true] at h2 ⊢
              rcases h2 with h2 | h2
              · left
                obtain ⟨k, v⟩ := x
                cases v with
                | scalar c => simp [PInput.isTable] at h2
                | table d =>
                  simp only [Except.map] at hy
                  split at hy
                  · cases hy
                  · simp only [Except.ok.injEq] at hy; subst hy; rfl
              · right; exact ih ys hys h2
      have hany := hlen inputs seq hseq ht
      rw [List.any_eq_true] at hany
      obtain ⟨kv, hkv, hkt⟩ := hany
      obtain ⟨k, v⟩ := kv
      cases v with
      | scalar c => simp [PInput.isTable] at hkt
      | table d =>
        simp only [List.isEmpty_iff, List.filterMap_eq_nil_iff] at hemp
        have := hemp (k, .table d) hkv
        simp at this
    · split at h
      · exact ⟨_, by simpa using h⟩
      · simp at h
      · simp at h
      · simp at h

/-! ## which keys survive: two table inputs -/

/-- **two tables, structurally**: `_join_dictable_with_defaults` of two tables is their inner join,
extended — when the *left* input has defaults — by the rows of the right table whose key the left
table lacks (with the left defaults filled in), and symmetrically.  Which rows those are is pinned
down by C02 (`xor_spec`): exactly the rows whose key matches no row of the other table.
(Formerly `join_keys_two_partial`; the n-ary reduction and the composition with `_item` are now
proved: `join_keys`.) -/
theorem joinDef_two_tables (a b d : Table) (da db : List (String × Cell))
    (ka kb ka' kb' : List Val)
    (hne : linter a.cols b.cols ≠ [])
    (hd : a.mul b = some (.ok d))
    (hkb : b.keysOf ((linter b.cols a.cols).map .col) = .ok kb)
    (hka : a.keysOf ((linter b.cols a.cols).map .col) = .ok ka)
    (hka' : a.keysOf ((linter a.cols b.cols).map .col) = .ok ka')
    (hkb' : b.keysOf ((linter a.cols b.cols).map .col) = .ok kb') :
    ∃ ids1 ids2 : List Nat,
      joinDef (some a, da) (some b, db) = some (.ok (some (
        let d1 := if da.isEmpty then d else d.concat2 ((b.gatherRows ids1).setConsts da)
        if db.isEmpty then d1 else d1.concat2 ((a.gatherRows ids2).setConsts db)),
        updDefaults da db)) ∧
      ids1.Perm ((List.range b.nrows).filter fun i =>
        (List.range a.nrows).all fun j => cmp (keyAt kb i) (keyAt ka j) != .eq) ∧
      ids2.Perm ((List.range a.nrows).filter fun i =>
        (List.range b.nrows).all fun j => cmp (keyAt ka' i) (keyAt kb' j) != .eq) := by
  have hne' : linter b.cols a.cols ≠ [] := by
    intro h
    apply hne
    simp only [linter, List.filter_eq_nil_iff] at h ⊢
    intro x hx hxb
    have hxb' : x ∈ b.cols := by simpa using hxb
    exact h x hxb' (by simpa using hx)
  obtain ⟨ids1, h1, p1⟩ := Props.C02.xor_spec b a _ _ kb ka rfl (by simpa using hne') hkb hka
  obtain ⟨ids2, h2, p2⟩ := Props.C02.xor_spec a b _ _ ka' kb' rfl (by simpa using hne) hka' hkb'
  refine ⟨ids1, ids2, ?_, p1, p2⟩
  have e1 : b.div a = .ok (b.gatherRows ids1) := by
    simpa [Table.div, xor] using h1
  have e2 : a.div b = .ok (a.gatherRows ids2) := by
    simpa [Table.div, xor] using h2
  simp only [joinDef, hd, e1, e2]
  cases da.isEmpty <;> cases db.isEmpty <;> simp [Except.map]

/-- **join_keys (any number of inputs without defaults)**: `tbl1 = reducer(mul, tables)` holds a key
iff every one of the tables holds it (`hasKey t on k`: some row of `t` has a key `cmp`-equal to `k`
on the columns `on`) — "one row per key present in every table input".  `FoldOK`: the tables share
exactly the columns `on` (listed by the first table in the order of `on`), every other column
belongs to one table only — the shape `_item` produces for inputs keyed by all of `on`. -/
theorem join_keys_inner (on : List String) (hon : on ≠ []) (hnd : on.Nodup)
    (d : Table) (ds : List Table) (r : Table) (hok : FoldOK on d ds)
    (h : foldOR Table.mul d ds = some (.ok r)) (k : Val) :
    hasKey r on k ↔ hasKey d on k ∧ ∀ t ∈ ds, hasKey t on k :=
  hasKey_fold on hon hnd ds d r hok h k

/-- **scalars broadcast / defaults filled in**: `d(**{k: v})` sets column `k` to `v` on every row and
leaves every other column alone (this is how scalar inputs enter the joined table and how the rows
of an outer join receive their default) -/
theorem const_column (t : Table) (k : String) (v : Cell) (ht : t ≠ []) :
    (t.setConst k v).col? k = some (List.replicate t.nrows v) ∧
    ∀ c, c ≠ k → (t.setConst k v).col? c = t.col? c :=
  setConst_spec t k v ht

/-- the rows of a product of two tables sharing exactly `on`: the key-equal pairs of rows, each
once, every product row carrying a key `cmp`-equal to the keys of both rows it combines -/
theorem mul_rows_spec (a b d : Table) (on : List String) (hon : on ≠ []) (hnd : on.Nodup)
    (hsh : linter a.cols b.cols = on) (hd : a.mul b = some (.ok d)) :
    ∃ kp : List (Val × Nat × Nat),
      d.nrows = kp.length ∧
      (∀ p (hp : p < kp.length), rowKey d on p = kp[p].1) ∧
      (kp.map (·.2)).Perm ((allPairs a.nrows b.nrows).filter fun q =>
        cmp (rowKey a on q.1) (rowKey b on q.2) == .eq) ∧
      ∀ p ∈ kp, cmp p.1 (rowKey a on p.2.1) = .eq ∧ cmp p.1 (rowKey b on p.2.2) = .eq :=
  mul_rows a b d on hon hnd hsh hd

/-- the inner part: the table `a * b` is the C02 join on the shared columns -/
theorem mul_is_join (a b d : Table) (h : a.mul b = some (.ok d)) :
    ∃ v : VTable, join a b (some ((linter a.cols b.cols).map .col))
        (some ((linter a.cols b.cols).map .col)) .pair = some (.ok v) ∧ v.toTable = some d := by
  simp only [Table.mul] at h
  split at h
  · rename_i v hv
    refine ⟨v, ?_, ?_⟩
    · simpa [join] using hv
    · cases hv' : v.toTable with
      | none => simp [hv'] at h
      | some d' => simp [hv'] at h; rw [h]
  · simp at h
  · simp at h

/-! ## which keys survive, which values they carry: any number of inputs, any subset with defaults -/

/-- **what `_item` keeps of a table input** keyed by all of `on` whose parameter name is not a key
column (and, like every dictable, distinct column names): a rectangular table with exactly the key
columns and the column `key`; it has the rows of
the input — same keys, and under `key` the input's value column (`valueCol`: the column named like
the parameter, else `data`, else the only non-key column). -/
theorem item_spec (d t : Table) (key : String) (on : List String) (hd : d.WF)
    (hdn : d.cols.Nodup) (hon : ∀ c ∈ on, c ∈ d.cols) (hkey : key ∉ on)
    (h : item d key on = .ok t) :
    KeyedSrc on t key ∧ RowsAgree on key t.R (inputRows on key d) :=
  item_rows d t key on hd hdn hon hkey h

/-- what `join(inputs, on, defaults)` returns (`join_keys` proves it for any number of inputs) -/
structure JoinSpec (inputs : List (String × PInput)) (on : List String)
    (defaults : List (String × Cell)) (ds : Table) : Prop where
  /-- rectangular, at least one column -/
  wf : ds.WF
  /-- the key columns and one column per input -/
  cols : ∀ c, c ∈ ds.cols ↔ c ∈ on ∨ (∃ kv ∈ tableInputs inputs, kv.1 = c) ∨
    ∃ kv ∈ scalarInputs inputs, kv.1 = c
  /-- a key is present iff every table input without default holds it; when ALL table inputs have a
  default: iff at least one of them holds it -/
  keys : ∀ k, ds.R.hasK on k ↔
    (∀ kv ∈ tableInputs inputs, dfltOf defaults kv.1 = none → kv.2.R.hasK on k) ∧
    ((∀ kv ∈ tableInputs inputs, (dfltOf defaults kv.1).isSome = true) →
      ∃ kv ∈ tableInputs inputs, kv.2.R.hasK on k)
  /-- in every row the column of a table input holds that input's value at a row with this key, or —
  when it has no such row — its default, which then exists -/
  values : VOK on ds.R ((tableInputs inputs).map (inputSrc on defaults))
  /-- scalars broadcast -/
  scalars : ∀ q, q < ds.nrows → ∀ kv ∈ scalarInputs inputs, ds.jcellAt kv.1 q = kv.2
  /-- one row per key when no table input repeats a key -/
  one_per_key : (∀ kv ∈ tableInputs inputs, kv.2.R.uniq on) → ds.R.uniq on
  /-- rows in non-decreasing order of `dictable.sort`'s key -/
  sorted : ((List.range ds.nrows).map (sortKey ds on)).Pairwise (fun a b => cmpLe a b = true)

/-- **join_keys — the n-ary `join` with defaults, for ANY number of inputs.**
Inputs: a dict of scalars and tables (distinct names, none of them a key column), at least one
table, every table rectangular, with distinct column names (a python dict cannot hold a key twice)
and keyed by all of `on`; any `defaults`.  Whenever
`join(inputs, on, defaults)` returns a table `ds`:
* `ds` is rectangular; its columns are the key columns and one column per input;
* **keys**: a key is present in `ds` iff it is present in every table input that has no default —
  and, when ALL table inputs have a default, iff it is present in at least one of them (union);
* **values** (`VOK`): in every row, the column of a table input holds that input's value at a row
  with this key, or — when the input has no such row — its default, which then exists;
* **scalars broadcast**: every row holds each scalar input under its name;
* **one row per key**: if no table input repeats a key, neither does `ds`;
* **sorted**: the rows are in non-decreasing order of `dictable.sort`'s key (the dict of the key cells). -/
theorem join_keys (inputs : List (String × PInput)) (on : List String)
    (defaults : List (String × Cell)) (ds : Table)
    (hon : on ≠ []) (hnames : (inputs.map (·.1)).Nodup) (hoff : ∀ kv ∈ inputs, kv.1 ∉ on)
    (htab : ∀ kv ∈ tableInputs inputs, kv.2.WF ∧ kv.2.cols.Nodup ∧ ∀ c ∈ on, c ∈ kv.2.cols)
    (hany : tableInputs inputs ≠ [])
    (h : pdJoin inputs on defaults = some (.ok ds)) : JoinSpec inputs on defaults ds := by
  obtain ⟨seq, hseq⟩ := pdJoin_stage h
  obtain ⟨i1, i2, i3⟩ := mapM_item_sem on inputs seq hseq
  rw [pdJoin_unfold inputs seq on defaults hseq, i1, i2] at h
  -- names
  have hTn : ∀ a ∈ tableInputs inputs, a.1 ∈ inputs.map (·.1) := fun a ha =>
    List.mem_map.2 ⟨_, mem_tableInputs.1 ha, rfl⟩
  have hToff : ∀ a ∈ tableInputs inputs, a.1 ∉ on := fun a ha =>
    hoff _ (mem_tableInputs.1 ha)
  have hSoff : OffKeys on (scalarInputs inputs) := fun b hb => hoff _ (mem_scalarInputs.1 hb)
  have hdf : ∀ a ∈ tableInputs inputs,
      dfltOf (defaults.filter fun kv => (inputs.map (·.1)).contains kv.1) a.1 = dfltOf defaults a.1 :=
    fun a ha => dfltOf_filter_names defaults _ a.1 (hTn a ha)
  -- the tables after `_item`
  have hit : ∀ a ∈ tableInputs inputs, KeyedSrc on (itemD a.2 a.1 on) a.1 ∧
      RowsAgree on a.1 (itemD a.2 a.1 on).R (inputRows on a.1 a.2) := fun a ha =>
    item_rows a.2 _ a.1 on (htab a ha).1 (htab a ha).2.1 (htab a ha).2.2 (hToff a ha) (i3 a ha)
  generalize hts : (tableInputs inputs).map (fun a => (a.1, itemD a.2 a.1 on)) = ts at h
  have hmem : ∀ b ∈ ts, ∃ a ∈ tableInputs inputs, b = (a.1, itemD a.2 a.1 on) := by
    intro b hb
    rw [← hts] at hb
    obtain ⟨a, ha, rfl⟩ := List.mem_map.1 hb
    exact ⟨a, ha, rfl⟩
  have hmem' : ∀ a ∈ tableInputs inputs, (a.1, itemD a.2 a.1 on) ∈ ts := by
    intro a ha
    rw [← hts]
    exact List.mem_map.2 ⟨a, ha, rfl⟩
  have hne : ts.isEmpty = false := by
    rw [← hts]
    cases hT : tableInputs inputs with
    | nil => exact absurd hT hany
    | cons a as => rfl
  simp only [hne, Bool.false_eq_true, if_false] at h
  split at h
  · rename_i d hj
    simp only [Option.some.injEq] at h
    have hks : ∀ b ∈ ts, KeyedSrc on b.2 b.1 := by
      intro b hb
      obtain ⟨a, ha, rfl⟩ := hmem b hb
      exact (hit a ha).1
    have hnd : (ts.map (·.1)).Nodup := by
      rw [← hts, List.map_map]
      exact hnames.sublist (tableInputs_names inputs)
    obtain ⟨dw, dc, dv, du, dk⟩ := joinTables_sem on hon ts _ d hks hnd hj
    obtain ⟨sw, sc, sr, ssort⟩ := finish_sem on d ds (scalarInputs inputs) dw h
    refine ⟨sw, ?_, ?_, ?_, ?_, ?_, ssort⟩
    · intro c
      rw [sc c, dc c]
      constructor
      · rintro ((h1 | ⟨b, hb, he⟩) | h1)
        · exact .inl h1
        · obtain ⟨a, ha, rfl⟩ := hmem b hb
          exact .inr (.inl ⟨a, ha, he⟩)
        · exact .inr (.inr h1)
      · rintro (h1 | ⟨a, ha, he⟩ | h1)
        · exact .inl (.inl h1)
        · exact .inl (.inr ⟨_, hmem' a ha, he⟩)
        · exact .inr h1
    · intro k
      rw [sr.hasK hSoff k, dk k]
      have hK : ∀ a ∈ tableInputs inputs, (itemD a.2 a.1 on).R.hasK on k ↔ a.2.R.hasK on k :=
        fun a ha => ((hit a ha).2.hasK k).trans (inputRows_hasK on a.1 a.2 (hToff a ha) k)
      constructor
      · rintro ⟨h1, h2⟩
        refine ⟨fun a ha hd => (hK a ha).1 (h1 _ (hmem' a ha) ((hdf a ha).trans hd)), ?_⟩
        intro hall
        obtain ⟨b, hb, hbk⟩ := h2 (by
          intro b hb
          obtain ⟨a, ha, rfl⟩ := hmem b hb
          rw [hdf a ha]; exact hall a ha)
        obtain ⟨a, ha, rfl⟩ := hmem b hb
        exact ⟨a, ha, (hK a ha).1 hbk⟩
      · rintro ⟨h1, h2⟩
        refine ⟨?_, ?_⟩
        · intro b hb hd
          obtain ⟨a, ha, rfl⟩ := hmem b hb
          exact (hK a ha).2 (h1 a ha ((hdf a ha).symm.trans hd))
        · intro hall
          obtain ⟨a, ha, hak⟩ := h2 (by
            intro a ha
            rw [← hdf a ha]; exact hall (a.1, itemD a.2 a.1 on) (hmem' a ha))
          exact ⟨_, hmem' a ha, (hK a ha).2 hak⟩
    · have hv := sr.vok hSoff (S := ts.map (mkSrc _)) (by
        intro s hs b hb
        obtain ⟨b', hb', rfl⟩ := mem_map_mkSrc hs
        obtain ⟨a, ha, rfl⟩ := hmem b' hb'
        exact table_scalar_names hnames ha hb) dv
      intro q hq s hs
      obtain ⟨a, ha, rfl⟩ := List.mem_map.1 hs
      have := hv q hq (mkSrc _ (a.1, itemD a.2 a.1 on))
        (List.mem_map.2 ⟨_, hmem' a ha, rfl⟩)
      have := (hit a ha).2.vrow this
      simp only [hdf a ha] at this
      exact this
    · intro q hq b hb
      have hn : ((scalarInputs inputs).map (·.1)).Nodup :=
        hnames.sublist (scalarInputs_names inputs)
      exact sr.consts q hq b.1 b.2 (dfltOf_of_nodup hn hb)
    · intro hu
      apply sr.uniq hSoff
      apply du
      intro b hb
      obtain ⟨a, ha, rfl⟩ := hmem b hb
      exact (hit a ha).2.uniq (inputRows_uniq on a.1 a.2 (hToff a ha) (hu a ha))
  · cases h
  · cases h
  · cases h

/-- **one row per key**, as a count: when no table input repeats a key, every key that qualifies
(`JoinSpec.keys`) is carried by exactly one row of the joined table -/
theorem join_one_row_per_key {inputs : List (String × PInput)} {on : List String}
    {defaults : List (String × Cell)} {ds : Table} (hs : JoinSpec inputs on defaults ds)
    (hu : ∀ kv ∈ tableInputs inputs, kv.2.R.uniq on) (k : Row)
    (h1 : ∀ kv ∈ tableInputs inputs, dfltOf defaults kv.1 = none → kv.2.R.hasK on k)
    (h2 : (∀ kv ∈ tableInputs inputs, (dfltOf defaults kv.1).isSome = true) →
      ∃ kv ∈ tableInputs inputs, kv.2.R.hasK on k) :
    ∃ q, q < ds.nrows ∧ keq on (ds.rowF q) k ∧
      ∀ q', q' < ds.nrows → keq on (ds.rowF q') k → q' = q := by
  obtain ⟨q, hq, hk⟩ := (hs.keys k).2 ⟨h1, h2⟩
  refine ⟨q, hq, hk, fun q' hq' hk' => ?_⟩
  exact hs.one_per_key hu q' q hq' hq (keq_trans hk' (keq_symm hk))

/-- **the value cells, in table terms**: in row `q` of the joined table, the column of the table
input `(name, d)` holds `d`'s value column (`valueCol`) at *the* row `j` of `d` carrying the key of
row `q` (`d` without repeated keys) — and when `d` has no such row, the default of `name`, which
then exists -/
theorem join_value_at {inputs : List (String × PInput)} {on : List String}
    {defaults : List (String × Cell)} {ds : Table} (hs : JoinSpec inputs on defaults ds)
    (a : String × Table) (ha : a ∈ tableInputs inputs) (hoff : a.1 ∉ on) (q : Nat)
    (hq : q < ds.nrows) :
    (∀ j, j < a.2.nrows → keq on (a.2.rowF j) (ds.rowF q) → a.2.R.uniq on →
      ds.jcellAt a.1 q = a.2.jcellAt (valueCol a.2 a.1 on) j) ∧
    ((∀ j, j < a.2.nrows → ¬ keq on (a.2.rowF j) (ds.rowF q)) →
      ∃ v, dfltOf defaults a.1 = some v ∧ ds.jcellAt a.1 q = v) := by
  have hv := hs.values q hq (inputSrc on defaults a) (List.mem_map.2 ⟨a, ha, rfl⟩)
  have hag := inputRows_agree on a.1 a.2 hoff
  constructor
  · intro j hj hk hu
    rcases hv with ⟨j', hj', hk', hval⟩ | ⟨hno, _⟩
    · have hk'' : keq on (a.2.rowF j') (ds.rowF q) := keq_trans (keq_symm (hag j')) hk'
      have : j' = j := hu j' j hj' hj (keq_trans hk'' (keq_symm hk))
      subst this
      have : ds.jcellAt a.1 q = (inputRows on a.1 a.2).row j' a.1 := hval
      rw [this]
      simp [inputRows]
    · exact absurd (keq_trans (hag j) hk) (hno j hj)
  · intro hno
    rcases hv with ⟨j', hj', hk', _⟩ | ⟨_, v, hd, hval⟩
    · exact absurd (keq_trans (keq_symm (hag j')) hk') (hno j' hj')
    · exact ⟨v, hd, hval⟩

/-- **`_item` returns** when a value column can be chosen: the input has a column named like the
parameter, or a column `data` that is not a key column, or exactly one non-key column (otherwise the
code raises KeyError — modelled, `item`) -/
theorem item_returns (d : Table) (key : String) (on : List String) (hon : ∀ c ∈ on, c ∈ d.cols)
    (h : key ∈ d.cols ∨ ("data" ∈ d.cols ∧ "data" ∉ on) ∨ ∃ other, lminus d.cols on = [other]) :
    ∃ t, item d key on = .ok t :=
  item_total d key on hon h

/-- **`join` returns a table** — never an error, never the model's "not covered" answer — for every
dict of inputs as in `join_keys` (distinct names that are not key columns, at least one table, every
table rectangular with distinct column names and keyed by all of `on`) whose `_item` succeeds
(`item_returns`).  So `join_keys` describes the result of *every* such call. -/
theorem join_returns (inputs : List (String × PInput)) (on : List String)
    (defaults : List (String × Cell))
    (hon : on ≠ []) (hnames : (inputs.map (·.1)).Nodup) (hoff : ∀ kv ∈ inputs, kv.1 ∉ on)
    (htab : ∀ kv ∈ tableInputs inputs, kv.2.WF ∧ kv.2.cols.Nodup ∧ ∀ c ∈ on, c ∈ kv.2.cols)
    (hany : tableInputs inputs ≠ [])
    (hitem : ∀ kv ∈ tableInputs inputs, ∃ t, item kv.2 kv.1 on = .ok t) :
    ∃ ds, pdJoin inputs on defaults = some (.ok ds) := by
  obtain ⟨seq, hseq⟩ := mapM_item_total on inputs hitem
  obtain ⟨i1, i2, i3⟩ := mapM_item_sem on inputs seq hseq
  rw [pdJoin_unfold inputs seq on defaults hseq, i1, i2]
  have hToff : ∀ a ∈ tableInputs inputs, a.1 ∉ on := fun a ha =>
    hoff _ (mem_tableInputs.1 ha)
  generalize hts : (tableInputs inputs).map (fun a => (a.1, itemD a.2 a.1 on)) = ts
  have hmem : ∀ b ∈ ts, ∃ a ∈ tableInputs inputs, b = (a.1, itemD a.2 a.1 on) := by
    intro b hb
    rw [← hts] at hb
    obtain ⟨a, ha, rfl⟩ := List.mem_map.1 hb
    exact ⟨a, ha, rfl⟩
  have hne : ts ≠ [] := by
    rw [← hts]
    cases hT : tableInputs inputs with
    | nil => exact absurd hT hany
    | cons a as => simp
  have hne' : ts.isEmpty = false := by cases ts <;> simp_all
  have hks : ∀ b ∈ ts, KeyedSrc on b.2 b.1 := by
    intro b hb
    obtain ⟨a, ha, rfl⟩ := hmem b hb
    exact (item_rows a.2 _ a.1 on (htab a ha).1 (htab a ha).2.1 (htab a ha).2.2 (hToff a ha)
      (i3 a ha)).1
  have hnd : (ts.map (·.1)).Nodup := by
    rw [← hts, List.map_map]
    exact hnames.sublist (tableInputs_names inputs)
  obtain ⟨d, hd⟩ := joinTables_total on hon ts
    (defaults.filter fun kv => (inputs.map (·.1)).contains kv.1) hne hks hnd
  obtain ⟨dw, dc, _⟩ := joinTables_sem on hon ts _ d hks hnd hd
  obtain ⟨ds, hds⟩ := finish_total on hon d (scalarInputs inputs) dw
    (fun c hc => (dc c).2 (.inl hc))
  exact ⟨ds, by simp only [hne', Bool.false_eq_true, if_false, hd, hds]⟩

/-! ## end to end -/

/-- **The property, end to end.**  A function lifted with `perdictable(f, on = keys)` is called with
keyword arguments `inputs` (distinct names, none of them a key column or `expiry`), at least one of
them — or `expiry` — a table, every table rectangular with distinct column names and keyed by all of
`on`; `defaults`
arbitrary (`data` and `expiry` always get the default `None`).  Whenever the call returns, there is a
joined table `ds` such that
* `ds = join(inputs + expiry, on, defaults)` and `ds` satisfies `JoinSpec` (`join_keys`): **one row
  per key** present in every table input without default (inputs with defaults contribute their
  default on the keys they lack), **sorted by key**, value columns = each input's value or its
  default, scalars broadcast;
* if no key survives, `f` is never called and the supplied `data` (or `None`) is returned;
* otherwise the result has the key columns of `ds` and, per row, **`f` of that row's values** — or
  the previous value when the row is protected by a past expiry (`row_kept_iff`; with
  `if_none = True` a previous value `None` does not protect) — and the log of
  calls of `f` is exactly the list of the unprotected rows: **each computed exactly once**, in row
  order, no other call. -/
theorem perdictable_end_to_end (f : List Cell → Val) (params on : List String)
    (defaults : List (String × Cell)) (inputs : List (String × PInput)) (expiry : PInput)
    (today : Int) (res : PResult × List (List Cell))
    (hon : on ≠ []) (hnames : ((inputs ++ [("expiry", expiry)]).map (·.1)).Nodup)
    (hoff : ∀ kv ∈ inputs ++ [("expiry", expiry)], kv.1 ∉ on)
    (htab : ∀ kv ∈ tableInputs (inputs ++ [("expiry", expiry)]),
      kv.2.WF ∧ kv.2.cols.Nodup ∧ ∀ c ∈ on, c ∈ kv.2.cols)
    (hany : tableInputs (inputs ++ [("expiry", expiry)]) ≠ [])
    (ifNone : Bool)
    (h : perdictable f params on defaults inputs expiry today ifNone = some (.ok res)) :
    ∃ ds : Table,
      pdJoin (inputs ++ [("expiry", expiry)]) on
        (defaults ++ (if (defaults.map (·.1)).contains "data" then [] else [("data", Cell.none)]) ++
          (if (defaults.map (·.1)).contains "expiry" then [] else [("expiry", Cell.none)]))
        = some (.ok ds) ∧
      JoinSpec (inputs ++ [("expiry", expiry)]) on
        (defaults ++ (if (defaults.map (·.1)).contains "data" then [] else [("data", Cell.none)]) ++
          (if (defaults.map (·.1)).contains "expiry" then [] else [("expiry", Cell.none)])) ds ∧
      ((ds.nrows = 0 ∧ res = (.noRows ((inputs.find? (·.1 == "data")).map (·.2)), [])) ∨
       (ds.nrows ≠ 0 ∧
        let runs := rowRuns ifNone ds (ds.cols.contains "data") today
        res = (.table (Table.toV (on.map fun k => (k, (ds.col? k).getD [])) ++
            [("data", (List.range ds.nrows).map fun i =>
              if runs i then f (rowArgs ds params i) else .cell (ds.jcellAt "data" i))]),
          ((List.range ds.nrows).filter runs).map (rowArgs ds params)))) := by
  cases hj : pdJoin (inputs ++ [("expiry", expiry)]) on
      (defaults ++ (if (defaults.map (·.1)).contains "data" then [] else [("data", Cell.none)]) ++
        (if (defaults.map (·.1)).contains "expiry" then [] else [("expiry", Cell.none)])) with
  | none => simp only [perdictable, hj] at h; cases h
  | some r =>
    cases r with
    | error e => simp only [perdictable, hj] at h; cases h
    | ok ds =>
      have hs := join_keys _ on _ ds hon hnames hoff htab hany hj
      refine ⟨ds, rfl, hs, ?_⟩
      by_cases hn : ds.nrows = 0
      · rw [no_rows f params on defaults inputs expiry today ds hj hn ifNone] at h
        simp only [Option.some.injEq, Except.ok.injEq] at h
        exact .inl ⟨hn, h.symm⟩
      · have ht : (inputs ++ [("expiry", expiry)]).any (fun kv => kv.2.isTable) = true := by
          obtain ⟨a, ha⟩ := List.exists_mem_of_ne_nil _ hany
          rw [List.any_eq_true]
          exact ⟨_, mem_tableInputs.1 ha, rfl⟩
        have hk := select_ok ds on (fun k hk => (hs.cols k).2 (.inl hk))
        have := table_result f params on defaults inputs expiry today ds _ hj hn ht hon hk ifNone
        simp only at this
        rw [this] at h
        simp only [Option.some.injEq, Except.ok.injEq] at h
        exact .inr ⟨hn, h.symm⟩

/-- the statement's "a previously computed value is supplied with an expiry date in the past", read off the joined table WITHOUT
`runExpiry` / `rowRuns`: a `data` column exists, the expiry cell spells an instant (`expiryDate`, the C03 model of `dt`) strictly
before today and, with `if_none = True`, the previous value is not `None` -/
def KeptSpec (ifNone : Bool) (ds : Table) (today : Int) (i : Nat) : Prop :=
  ds.cols.contains "data" = true ∧ (ifNone = true → ds.jcellAt "data" i ≠ .none) ∧
    ∃ us, expiryDate (ds.jcellAt "expiry" i) = some us ∧ us < today

/-- **`perdictable_end_to_end` with the expiry clause stated through `KeptSpec`** (review v2, C20 model fidelity 3): `runExpiry`
answers "recompute" for every cell `expiryDate` does not read (a float, a bool, `'2000'`, `'-1d'` - the code keeps some of
those), so `perdictable_end_to_end`, which speaks through `rowRuns`, says nothing reliable about such calls; the driver refuses
them (`bad-op`).  HERE the restriction is a hypothesis: every expiry cell of the joined table is covered (`expiryCovered`:
`None`, the missing date, or a spelling of an absolute instant).  Then the rows that are NOT computed are exactly the `KeptSpec`
rows - they carry the previous value - every other row carries `f` of its values and is logged exactly once, in row order. -/
theorem perdictable_end_to_end_covered (f : List Cell → Val) (params on : List String)
    (defaults : List (String × Cell)) (inputs : List (String × PInput)) (expiry : PInput)
    (today : Int) (res : PResult × List (List Cell))
    (hon : on ≠ []) (hnames : ((inputs ++ [("expiry", expiry)]).map (·.1)).Nodup)
    (hoff : ∀ kv ∈ inputs ++ [("expiry", expiry)], kv.1 ∉ on)
    (htab : ∀ kv ∈ tableInputs (inputs ++ [("expiry", expiry)]),
      kv.2.WF ∧ kv.2.cols.Nodup ∧ ∀ c ∈ on, c ∈ kv.2.cols)
    (hany : tableInputs (inputs ++ [("expiry", expiry)]) ≠ [])
    (ifNone : Bool)
    (hcov : ∀ ds, pdJoin (inputs ++ [("expiry", expiry)]) on
        (defaults ++ (if (defaults.map (·.1)).contains "data" then [] else [("data", Cell.none)]) ++
          (if (defaults.map (·.1)).contains "expiry" then [] else [("expiry", Cell.none)])) = some (.ok ds) →
      ∀ i, i < ds.nrows → expiryCovered (ds.jcellAt "expiry" i) = true)
    (h : perdictable f params on defaults inputs expiry today ifNone = some (.ok res)) :
    ∃ ds : Table,
      JoinSpec (inputs ++ [("expiry", expiry)]) on
        (defaults ++ (if (defaults.map (·.1)).contains "data" then [] else [("data", Cell.none)]) ++
          (if (defaults.map (·.1)).contains "expiry" then [] else [("expiry", Cell.none)])) ds ∧
      ((ds.nrows = 0 ∧ res = (.noRows ((inputs.find? (·.1 == "data")).map (·.2)), [])) ∨
       (ds.nrows ≠ 0 ∧ ∃ runs : Nat → Bool,
        (∀ i, i < ds.nrows → (runs i = false ↔ KeptSpec ifNone ds today i)) ∧
        res = (.table (Table.toV (on.map fun k => (k, (ds.col? k).getD [])) ++
            [("data", (List.range ds.nrows).map fun i =>
              if runs i then f (rowArgs ds params i) else .cell (ds.jcellAt "data" i))]),
          ((List.range ds.nrows).filter runs).map (rowArgs ds params)))) := by
  obtain ⟨ds, hj, hs, hr⟩ := perdictable_end_to_end f params on defaults inputs expiry today res hon hnames hoff htab hany
    ifNone h
  refine ⟨ds, hs, ?_⟩
  rcases hr with hr | ⟨hn, hr⟩
  · exact .inl hr
  · refine .inr ⟨hn, rowRuns ifNone ds (ds.cols.contains "data") today, ?_, hr⟩
    intro i hi
    exact row_kept_iff_spelled ifNone ds (ds.cols.contains "data") today i (hcov ds hj i hi)

/-- `KeptSpec` on concrete rows: a past date string protects, `None`, the missing date and a future date do not -/
example : KeptSpec false [("k", [.int 1]), ("data", [.str "old"]), ("expiry", [.str "2000-01-01"])] (739000 * 86400000000) 0 :=
  ⟨by decide, by simp, 730119 * 86400000000, by decide, by decide⟩
example : ¬ KeptSpec false [("k", [.int 1]), ("data", [.str "old"]), ("expiry", [.str "NaT"])] (739000 * 86400000000) 0 := by
  rintro ⟨_, _, us, hus, _⟩
  have : expiryDate (Table.jcellAt [("k", [.int 1]), ("data", [.str "old"]), ("expiry", [.str "NaT"])] "expiry" 0) = none := by decide
  rw [this] at hus; cases hus

/-- **the lifted call returns** (no error, no uncovered step) for every call as in
`perdictable_end_to_end` whose tables have distinct column names and a selectable value column — so
the end-to-end statement describes every such call -/
theorem perdictable_returns (f : List Cell → Val) (params on : List String)
    (defaults : List (String × Cell)) (inputs : List (String × PInput)) (expiry : PInput)
    (today : Int)
    (hon : on ≠ []) (hnames : ((inputs ++ [("expiry", expiry)]).map (·.1)).Nodup)
    (hoff : ∀ kv ∈ inputs ++ [("expiry", expiry)], kv.1 ∉ on)
    (htab : ∀ kv ∈ tableInputs (inputs ++ [("expiry", expiry)]),
      kv.2.WF ∧ kv.2.cols.Nodup ∧ ∀ c ∈ on, c ∈ kv.2.cols)
    (hany : tableInputs (inputs ++ [("expiry", expiry)]) ≠ [])
    (hitem : ∀ kv ∈ tableInputs (inputs ++ [("expiry", expiry)]), ∃ t, item kv.2 kv.1 on = .ok t)
    (ifNone : Bool) :
    ∃ res, perdictable f params on defaults inputs expiry today ifNone = some (.ok res) := by
  obtain ⟨ds, hj⟩ := join_returns (inputs ++ [("expiry", expiry)]) on
    (defaults ++ (if (defaults.map (·.1)).contains "data" then [] else [("data", Cell.none)]) ++
      (if (defaults.map (·.1)).contains "expiry" then [] else [("expiry", Cell.none)]))
    hon hnames hoff htab hany hitem
  have hs := join_keys _ on _ ds hon hnames hoff htab hany hj
  by_cases hn : ds.nrows = 0
  · exact ⟨_, no_rows f params on defaults inputs expiry today ds hj hn ifNone⟩
  · have ht : (inputs ++ [("expiry", expiry)]).any (fun kv => kv.2.isTable) = true := by
      obtain ⟨a, ha⟩ := List.exists_mem_of_ne_nil _ hany
      rw [List.any_eq_true]
      exact ⟨_, mem_tableInputs.1 ha, rfl⟩
    have hk := select_ok ds on (fun k hk => (hs.cols k).2 (.inl hk))
    exact ⟨_, table_result f params on defaults inputs expiry today ds _ hj hn ht hon hk ifNone⟩

/-! ## renames -/

/-- **the renaming assignment** of `_item` (`renames` a dict parameter → column): `d[key] =
d[renames[key]]` leaves a rectangular table with the same rows and the same cells in every other
column; when `key` is renamed to `r`, column `r` must exist (else KeyError) and column `key` becomes a
copy of it — so that `_item` then selects it (`rename_value`) -/
theorem rename_spec (d d' : Table) (key : String) (renames : List (String × String)) (hd : d.WF)
    (h : applyRename d key renames = .ok d') :
    d'.WF ∧ d'.nrows = d.nrows ∧ (∀ c, c ∈ d'.cols ↔ c ∈ d.cols ∨ (c = key ∧ c ∈ d'.cols)) ∧
    (d.cols.Nodup → d'.cols.Nodup) ∧
    (∀ c, c ≠ key → ∀ i, d'.jcellAt c i = d.jcellAt c i) ∧
    (∀ kr, renames.find? (·.1 == key) = some kr →
      kr.2 ∈ d.cols ∧ key ∈ d'.cols ∧ ∀ i, d'.jcellAt key i = d.jcellAt kr.2 i) ∧
    (renames.find? (·.1 == key) = none → d' = d) :=
  applyRename_sem d d' key renames hd h

/-- a renamed parameter takes its values from the column it is renamed to -/
theorem rename_value (d d' : Table) (key : String) (on : List String)
    (renames : List (String × String)) (kr : String × String) (hd : d.WF)
    (h : applyRename d key renames = .ok d') (hkr : renames.find? (·.1 == key) = some kr) :
    valueCol d' key on = key ∧ ∀ i, (inputRows on key d').row i key = d.jcellAt kr.2 i := by
  obtain ⟨_, _, _, _, _, h6, _⟩ := applyRename_sem d d' key renames hd h
  obtain ⟨_, hk, hv⟩ := h6 kr hkr
  have : valueCol d' key on = key := by simp [valueCol, hk]
  exact ⟨this, fun i => by simp [inputRows, this, hv i]⟩

/-- **`join` with `renames`**: `join(inputs, on, renames, defaults)` is `join` of the inputs after
the renaming assignments (`rename_spec`), hence satisfies `JoinSpec` (`join_keys`) for them -/
theorem join_keys_renames (inputs : List (String × PInput)) (on : List String)
    (renames : List (String × String)) (defaults : List (String × Cell)) (ds : Table)
    (hon : on ≠ []) (hnames : (inputs.map (·.1)).Nodup) (hoff : ∀ kv ∈ inputs, kv.1 ∉ on)
    (htab : ∀ kv ∈ tableInputs inputs, kv.2.WF ∧ kv.2.cols.Nodup ∧ ∀ c ∈ on, c ∈ kv.2.cols)
    (hany : tableInputs inputs ≠ [])
    (h : pdJoinR inputs on renames defaults = some (.ok ds)) :
    (∀ a ∈ tableInputs inputs, applyRename a.2 a.1 renames = .ok (renamedT a.2 a.1 renames)) ∧
    pdJoin (inputs.map (renamedIn renames)) on defaults = some (.ok ds) ∧
    JoinSpec (inputs.map (renamedIn renames)) on defaults ds := by
  simp only [pdJoinR] at h
  split at h
  · cases h
  · rename_i inputs' hm
    obtain ⟨rfl, i2⟩ := mapM_rename_sem renames inputs inputs' hm
    refine ⟨i2, h, join_keys _ on defaults ds hon ?_ ?_ ?_ ?_ h⟩
    · simpa [List.map_map, Function.comp_def, renamedIn_fst] using hnames
    · intro kv hkv
      obtain ⟨a, ha, rfl⟩ := List.mem_map.1 hkv
      rw [renamedIn_fst]; exact hoff a ha
    · intro kv hkv
      rw [tableInputs_renamed] at hkv
      obtain ⟨a, ha, rfl⟩ := List.mem_map.1 hkv
      obtain ⟨h1, _, h3, h4, _⟩ := applyRename_sem a.2 _ a.1 renames (htab a ha).1 (i2 a ha)
      exact ⟨h1, h4 (htab a ha).2.1, fun c hc => (h3 c).2 (.inl ((htab a ha).2.2 c hc))⟩
    · rw [tableInputs_renamed]
      cases hT : tableInputs inputs with
      | nil => exact absurd hT hany
      | cons a as => simp

/-- **the lifted call with `renames`** is the lifted call on the inputs (and `expiry`) after the
renaming assignments — to which `perdictable_end_to_end` applies -/
theorem perdictable_renames (f : List Cell → Val) (params on : List String)
    (renames : List (String × String)) (defaults : List (String × Cell))
    (inputs : List (String × PInput)) (expiry : PInput) (today : Int)
    (res : PResult × List (List Cell)) (ifNone : Bool)
    (h : perdictableR f params on renames defaults inputs expiry today ifNone = some (.ok res)) :
    (∀ a ∈ tableInputs (inputs ++ [("expiry", expiry)]),
      applyRename a.2 a.1 renames = .ok (renamedT a.2 a.1 renames)) ∧
    perdictable f params on defaults (inputs.map (renamedIn renames))
      (renamedIn renames ("expiry", expiry)).2 today ifNone = some (.ok res) := by
  simp only [perdictableR] at h
  split at h
  · rename_i inputs' e' hm he
    obtain ⟨rfl, i2⟩ := mapM_rename_sem renames inputs inputs' hm
    have hm2 : [("expiry", expiry)].mapM (renameInput renames) = .ok [e'] := by
      simp [List.mapM_cons, he, bind, Except.bind, pure, Except.pure]
    obtain ⟨j1, j2⟩ := mapM_rename_sem renames _ _ hm2
    have he' : e' = renamedIn renames ("expiry", expiry) := by simpa using j1
    refine ⟨?_, by rw [← he']; exact h⟩
    intro a ha
    have : a ∈ tableInputs inputs ∨ a ∈ tableInputs [("expiry", expiry)] := by
      simpa [tableInputs, List.filterMap_append] using ha
    rcases this with h1 | h1
    · exact i2 a h1
    · exact j2 a h1
  · cases h
  · cases h

/-! ## Round h2 (review s2): the per-row reading of "previous value supplied"; the arguments of `f` per parameter -/

/-- **"a previously computed value is supplied" — per ROW** (review r2/s2 clause 7).  `row_kept_iff` speaks of a `data` COLUMN; with
the property's quantifier — an expiry is assigned to previously computed keys only: every row of the `expiry` table with a
non-`None` expiry has its key in the `data` table (`hq`) — a KEPT row really carries a value supplied for its key: there is
a row `j` of the `data` table with the key of row `i`, and the cell kept is that row's value.  (`expiry`'s default is `None`.) -/
theorem kept_has_previous {inputs : List (String × PInput)} {on : List String}
    {defaults : List (String × Cell)} {ds : Table} (hs : JoinSpec inputs on defaults ds)
    (dT eT : Table) (hd : ("data", dT) ∈ tableInputs inputs) (he : ("expiry", eT) ∈ tableInputs inputs)
    (hdoff : "data" ∉ on) (heoff : "expiry" ∉ on) (hde : dfltOf defaults "expiry" = some .none)
    (hud : dT.R.uniq on) (hue : eT.R.uniq on)
    (hq : ∀ j, j < eT.nrows → eT.jcellAt (valueCol eT "expiry" on) j ≠ .none →
      ∃ j', j' < dT.nrows ∧ keq on (dT.rowF j') (eT.rowF j))
    (ifNone : Bool) (hasData : Bool) (today : Int) (i : Nat) (hi : i < ds.nrows)
    (hc : ds.jcellAt "expiry" i = .none ∨ ∃ us, ds.jcellAt "expiry" i = .dt us)
    (hk : rowRuns ifNone ds hasData today i = false) :
    ∃ j, j < dT.nrows ∧ keq on (dT.rowF j) (ds.rowF i) ∧
      ds.jcellAt "data" i = dT.jcellAt (valueCol dT "data" on) j := by
  obtain ⟨_, _, us, hus, _⟩ := (row_kept_iff ifNone ds hasData today i hc).1 hk
  have hve := join_value_at hs ("expiry", eT) he heoff i hi
  have hvd := join_value_at hs ("data", dT) hd hdoff i hi
  by_cases hex : ∃ j, j < eT.nrows ∧ keq on (eT.rowF j) (ds.rowF i)
  · obtain ⟨je, hje, hke⟩ := hex
    have hcell := hve.1 je hje hke hue
    have hne : eT.jcellAt (valueCol eT "expiry" on) je ≠ .none := by
      rw [← hcell]; rw [hus]; simp
    obtain ⟨j', hj', hkj⟩ := hq je hje hne
    have hkd : keq on (dT.rowF j') (ds.rowF i) := keq_trans hkj hke
    exact ⟨j', hj', hkd, hvd.1 j' hj' hkd hud⟩
  · obtain ⟨v, hv, hcell⟩ := hve.2 (fun j hj hk' => hex ⟨j, hj, hk'⟩)
    rw [hde] at hv
    cases hv
    rw [hcell] at hus
    cases hus

/-- `kept_has_previous` for every expiry spelling `dt()` reads (`expiryCovered`: `None`, a datetime, a date string, a yyyymmdd
number - review t2 V3): same statement, the kept row carries the value supplied for its key. -/
theorem kept_has_previous_spelled {inputs : List (String × PInput)} {on : List String}
    {defaults : List (String × Cell)} {ds : Table} (hs : JoinSpec inputs on defaults ds)
    (dT eT : Table) (hd : ("data", dT) ∈ tableInputs inputs) (he : ("expiry", eT) ∈ tableInputs inputs)
    (hdoff : "data" ∉ on) (heoff : "expiry" ∉ on) (hde : dfltOf defaults "expiry" = some .none)
    (hud : dT.R.uniq on) (hue : eT.R.uniq on)
    (hq : ∀ j, j < eT.nrows → eT.jcellAt (valueCol eT "expiry" on) j ≠ .none →
      ∃ j', j' < dT.nrows ∧ keq on (dT.rowF j') (eT.rowF j))
    (ifNone : Bool) (hasData : Bool) (today : Int) (i : Nat) (hi : i < ds.nrows)
    (hc : expiryCovered (ds.jcellAt "expiry" i) = true)
    (hk : rowRuns ifNone ds hasData today i = false) :
    ∃ j, j < dT.nrows ∧ keq on (dT.rowF j) (ds.rowF i) ∧
      ds.jcellAt "data" i = dT.jcellAt (valueCol dT "data" on) j := by
  obtain ⟨_, _, us, hus, _⟩ := (row_kept_iff_spelled ifNone ds hasData today i hc).1 hk
  have hnn : ds.jcellAt "expiry" i ≠ .none := by
    intro h0; rw [h0] at hus; simp [expiryDate] at hus
  have hve := join_value_at hs ("expiry", eT) he heoff i hi
  have hvd := join_value_at hs ("data", dT) hd hdoff i hi
  by_cases hex : ∃ j, j < eT.nrows ∧ keq on (eT.rowF j) (ds.rowF i)
  · obtain ⟨je, hje, hke⟩ := hex
    have hcell := hve.1 je hje hke hue
    have hne : eT.jcellAt (valueCol eT "expiry" on) je ≠ .none := by
      rw [← hcell]; exact hnn
    obtain ⟨j', hj', hkj⟩ := hq je hje hne
    have hkd : keq on (dT.rowF j') (ds.rowF i) := keq_trans hkj hke
    exact ⟨j', hj', hkd, hvd.1 j' hj' hkd hud⟩
  · obtain ⟨v, hv, hcell⟩ := hve.2 (fun j hj hk' => hex ⟨j, hj, hk'⟩)
    rw [hde] at hv
    cases hv
    exact absurd hcell hnn

/-- **clause "whose value is `f` applied to that key's values"**, per parameter: in row `i` of the joined table the argument
handed to `f` for a parameter `p` that is a table input is that input's value at the row carrying row `i`'s key — or, when the
input lacks the key, its default (which then exists); for a scalar input it is the scalar.  (`rowArgs` reads `None` for a
parameter that is no column of the join: the code raises TypeError there — hypothesis `hp` of the callers, not totalised here.) -/
theorem row_args_spec {inputs : List (String × PInput)} {on : List String}
    {defaults : List (String × Cell)} {ds : Table} (hs : JoinSpec inputs on defaults ds)
    (params : List String) (i : Nat) (hi : i < ds.nrows) (n : Nat) (p : String) (hp : params[n]? = some p) :
    (rowArgs ds params i)[n]? = some (ds.jcellAt p i) ∧
    (∀ c, (p, c) ∈ scalarInputs inputs → ds.jcellAt p i = c) ∧
    (∀ d, (p, d) ∈ tableInputs inputs → p ∉ on →
      (∀ j, j < d.nrows → keq on (d.rowF j) (ds.rowF i) → d.R.uniq on →
        ds.jcellAt p i = d.jcellAt (valueCol d p on) j) ∧
      ((∀ j, j < d.nrows → ¬ keq on (d.rowF j) (ds.rowF i)) →
        ∃ v, dfltOf defaults p = some v ∧ ds.jcellAt p i = v)) := by
  refine ⟨by simp [rowArgs, hp], fun c hc => hs.scalars i hi (p, c) hc, fun d hd hoff => ?_⟩
  exact join_value_at hs (p, d) hd hoff i hi

/-! ## non-vacuity and evaluation tests -/

def fEx (args : List Cell) : Val := .tuple (args.map .cell)
def tA : Table := [("k", [.int 3, .int 1, .int 2]), ("a", [.int 30, .int 10, .int 20])]
def tB : Table := [("k", [.int 2, .int 3, .int 4]), ("b", [.str "x", .str "y", .str "z"])]

-- p(a = A, b = B): rows for the keys 2 and 3, sorted, one call each
#guard (match perdictable fEx ["a", "b"] ["k"] [] [("a", .table tA), ("b", .table tB)] (.scalar .none) 0 with
  | some (.ok (.table t, log)) =>
      t == [("k", [.cell (.int 2), .cell (.int 3)]),
            ("data", [.tuple [.cell (.int 20), .cell (.str "x")], .tuple [.cell (.int 30), .cell (.str "y")]])]
      && log == [[.int 20, .str "x"], [.int 30, .str "y"]]
  | _ => false)
-- with a default for b the key 1 survives and receives the default
#guard (match perdictable fEx ["a", "b"] ["k"] [("b", .int 0)] [("a", .table tA), ("b", .table tB)] (.scalar .none) 0 with
  | some (.ok (.table t, log)) => log == [[.int 10, .int 0], [.int 20, .str "x"], [.int 30, .str "y"]] && t.length == 2
  | _ => false)
-- previous value with an expiry in the past is kept, f is not called for it
#guard (match perdictable fEx ["a", "b"] ["k"] [] [("a", .table tA), ("b", .table tB),
      ("data", .table [("k", [.int 2, .int 3]), ("data", [.str "old2", .str "old3"])])]
      (.table [("k", [.int 2, .int 3]), ("expiry", [.dt 5, .dt 50])]) 10 with
  | some (.ok (.table t, log)) =>
      log == [[.int 30, .str "y"]] &&
      t == [("k", [.cell (.int 2), .cell (.int 3)]), ("data", [.cell (.str "old2"), .tuple [.cell (.int 30), .cell (.str "y")]])]
  | _ => false)

/-- the hypotheses of `joinDef_two_tables` are satisfiable -/
example : linter tA.cols tB.cols ≠ [] ∧
    tA.keysOf ((linter tA.cols tB.cols).map .col) = .ok [.tuple [.cell (.int 3)], .tuple [.cell (.int 1)], .tuple [.cell (.int 2)]] := by
  refine ⟨by decide, rfl⟩

/-- the hypotheses of `join_keys` / `join_returns` / `item_returns` / `perdictable_end_to_end` are
satisfiable: two tables (one with a default) and a scalar -/
example : let inputs : List (String × PInput) := [("a", .table tA), ("b", .table tB), ("c", .scalar (.int 7))]
    ["k"] ≠ [] ∧ (inputs.map (·.1)).Nodup ∧ (∀ kv ∈ inputs, kv.1 ∉ ["k"]) ∧
    (∀ kv ∈ tableInputs inputs, kv.2.WF ∧ kv.2.cols.Nodup ∧ (∀ c ∈ ["k"], c ∈ kv.2.cols) ∧
      (kv.1 ∈ kv.2.cols ∨ ("data" ∈ kv.2.cols ∧ "data" ∉ ["k"]) ∨ ∃ other, lminus kv.2.cols ["k"] = [other])) ∧
    tableInputs inputs ≠ [] := by
  refine ⟨by decide, by decide, by decide, ?_, by decide⟩
  intro kv hkv
  simp only [tableInputs, List.filterMap_cons, List.filterMap_nil, List.mem_cons, List.not_mem_nil,
    or_false] at hkv
  rcases hkv with rfl | rfl
  · exact ⟨⟨by decide, by decide⟩, by decide, by decide, .inl (by decide)⟩
  · exact ⟨⟨by decide, by decide⟩, by decide, by decide, .inl (by decide)⟩

-- … and `join` returns a table on them: key 1 (only in `a`) survives with b's default, key 4 (only in
-- `b`, `a` has no default) does not; the scalar is broadcast; rows sorted by key
#guard (match pdJoin [("a", .table tA), ("b", .table tB), ("c", .scalar (.int 7))] ["k"] [("b", .int 0)] with
  | some (.ok t) => t.col? "k" == some [.int 1, .int 2, .int 3] && t.col? "a" == some [.int 10, .int 20, .int 30] &&
      t.col? "b" == some [.int 0, .str "x", .str "y"] && t.col? "c" == some [.int 7, .int 7, .int 7]
  | _ => false)
-- all table inputs with defaults: the union of the keys
#guard (match pdJoin [("a", .table tA), ("b", .table tB)] ["k"] [("a", .none), ("b", .int 0)] with
  | some (.ok t) => t.col? "k" == some [.int 1, .int 2, .int 3, .int 4]
  | _ => false)

-- if_none = True: a previous value None (supplied, or the default for a key `data` lacks) is recomputed although its
-- expiry is in the past; if_none = False keeps it (no call at all here)
#guard (match perdictable fEx ["a"] ["k"] [] [("a", .table tA),
      ("data", .table [("k", [.int 1, .int 2]), ("data", [.none, .str "old2"])])] (.scalar (.dt 5)) 10 true,
    perdictable fEx ["a"] ["k"] [] [("a", .table tA),
      ("data", .table [("k", [.int 1, .int 2]), ("data", [.none, .str "old2"])])] (.scalar (.dt 5)) 10 false with
  | some (.ok (_, log1)), some (.ok (_, log2)) =>
      log1 == [[.int 10], [.int 30]] && log2 == []
  | _, _ => false)
-- renames: parameter `a` takes the column `alt` of a table with two value columns
#guard (match pdJoinR [("a", .table (tA ++ [("alt", [.int 33, .int 11, .int 22])])), ("b", .table tB)] ["k"]
    [("a", "alt")] [] with
  | some (.ok t) => t.col? "k" == some [.int 2, .int 3] && t.col? "a" == some [.int 22, .int 33]
  | _ => false)

/-- the hypotheses of `join_keys_inner` are satisfiable: two inputs keyed by `k` -/
example : FoldOK ["k"] tA [tB] := ⟨by decide, by decide, by decide, by decide⟩

-- an expiry DATE (wire `DT:`, a `datetime.date`) is read as that day: past -> kept, no call (fix 7ea4860 on the code side)
#guard (match perdictable fEx ["a"] ["k"] [] [("a", .table tA),
      ("data", .table [("k", [.int 1, .int 2, .int 3]), ("data", [.str "o1", .str "o2", .str "o3"])])] (.scalar (.dt 5)) 10 false with
  | some (.ok (_, log)) => log == []
  | _ => false)
-- `kept_has_previous`: hypotheses satisfiable — expiry table keyed inside the data table; key 3 has no expiry row and is computed
#guard (match perdictable fEx ["a"] ["k"] [] [("a", .table tA),
      ("data", .table [("k", [.int 1, .int 2]), ("data", [.str "o1", .str "o2"])])]
      (.table [("k", [.int 1]), ("expiry", [.dt 5])]) 10 false with
  | some (.ok (.table t, log)) => log == [[.int 20], [.int 30]] &&
      t == [("k", [.cell (.int 1), .cell (.int 2), .cell (.int 3)]),
            ("data", [.cell (.str "o1"), .tuple [.cell (.int 20)], .tuple [.cell (.int 30)]])]
  | _ => false)
example : let dT : Table := [("k", [.int 1, .int 2]), ("data", [.str "o1", .str "o2"])]
    let eT : Table := [("k", [.int 1]), ("expiry", [.dt 5])]
    ∀ j, j < eT.nrows → eT.jcellAt (valueCol eT "expiry" ["k"]) j ≠ .none →
      ∃ j', j' < dT.nrows ∧ keq ["k"] (dT.rowF j') (eT.rowF j) := by
  intro dT eT j hj _
  have : j = 0 := by simp [eT, Table.nrows] at hj; omega
  subst this
  exact ⟨0, by decide, by intro c hc; simp at hc; subst hc; decide⟩

/-! ### round k2: the coverage hypothesis derived from the expiry INPUT (open since round j2) -/
section round_k2

/-- **the expiry INPUT is covered**: a scalar expiry is `None`, the missing date or a spelling of an absolute instant; an expiry
TABLE holds such a cell in every row of its value column (the column `expiry`, else `data`, else its only non-key column), and the
default that fills the keys it lacks - `None` unless the caller's `defaults` name `expiry` - is covered too.  A statement about
what the caller hands in, not about the joined table. -/
def ExpiryInputCovered (on : List String) (dflts : List (String × Cell)) : PInput → Prop
  | .scalar c => expiryCovered c = true
  | .table t => (∀ j, j < t.nrows → expiryCovered (t.jcellAt (valueCol t "expiry" on) j) = true) ∧
      ∀ v, dfltOf dflts "expiry" = some v → expiryCovered v = true

/-- the defaults `perdictable` hands to `join`: the caller's, then `data → None`, `expiry → None` unless named -/
def fullDefaults (defaults : List (String × Cell)) : List (String × Cell) :=
  defaults ++ (if (defaults.map (·.1)).contains "data" then [] else [("data", Cell.none)]) ++
    (if (defaults.map (·.1)).contains "expiry" then [] else [("expiry", Cell.none)])

/-- the default of `expiry` is the caller's, else `None` -/
theorem dfltOf_fullDefaults_expiry (defaults : List (String × Cell)) (v : Cell)
    (h : dfltOf (fullDefaults defaults) "expiry" = some v) : v = .none ∨ dfltOf defaults "expiry" = some v := by
  unfold fullDefaults at h
  by_cases he : (defaults.map (·.1)).contains "expiry" = true
  · right
    simp only [he, if_true, List.append_nil] at h
    by_cases hd : (defaults.map (·.1)).contains "data" = true
    · rw [if_pos hd, List.append_nil] at h; exact h
    · rw [if_neg hd] at h
      simpa [dfltOf, List.reverse_append, List.find?_append, List.find?_cons] using h
  · left
    simp only [he, if_false, Bool.false_eq_true] at h
    simp [dfltOf, List.reverse_append] at h
    exact h.symm

/-- **`hcov` derived from the expiry input** (open since round j2: the hypothesis of `perdictable_end_to_end_covered` was about the
JOINED table): every expiry cell of the joined table is a cell of the expiry input - the scalar broadcast (`JoinSpec.scalars`), a
cell of the table's value column at a row with that key, or the default (`JoinSpec.values`) - hence covered. -/
theorem expiry_cells_covered {inputs : List (String × PInput)} {on : List String} {dflts : List (String × Cell)} {ds : Table}
    (expiry : PInput) (hs : JoinSpec (inputs ++ [("expiry", expiry)]) on dflts ds)
    (hc : ExpiryInputCovered on dflts expiry) :
    ∀ i, i < ds.nrows → expiryCovered (ds.jcellAt "expiry" i) = true := by
  intro i hi
  cases expiry with
  | scalar c =>
    have := hs.scalars i hi ("expiry", c) (mem_scalarInputs.2 (by simp))
    simp only at this
    rw [this]; exact hc
  | table t =>
    have hv := hs.values i hi (inputSrc on dflts ("expiry", t))
      (List.mem_map.2 ⟨("expiry", t), mem_tableInputs.2 (by simp), rfl⟩)
    rcases hv with ⟨j, hj, _, hval⟩ | ⟨_, v, hd, hval⟩
    · have e : ds.jcellAt "expiry" i = (inputRows on "expiry" t).row j "expiry" := hval
      rw [e]
      simp only [inputRows, if_true]
      exact hc.1 j hj
    · have e : ds.jcellAt "expiry" i = v := hval
      rw [e]; exact hc.2 v hd

/-- **the property end to end, from the inputs alone**: `perdictable_end_to_end_covered` with its hypothesis on the joined table
replaced by `ExpiryInputCovered` on the expiry the caller supplies (scalar or table) and on the caller's default for it. -/
theorem perdictable_end_to_end_input (f : List Cell → Val) (params on : List String)
    (defaults : List (String × Cell)) (inputs : List (String × PInput)) (expiry : PInput)
    (today : Int) (res : PResult × List (List Cell))
    (hon : on ≠ []) (hnames : ((inputs ++ [("expiry", expiry)]).map (·.1)).Nodup)
    (hoff : ∀ kv ∈ inputs ++ [("expiry", expiry)], kv.1 ∉ on)
    (htab : ∀ kv ∈ tableInputs (inputs ++ [("expiry", expiry)]),
      kv.2.WF ∧ kv.2.cols.Nodup ∧ ∀ c ∈ on, c ∈ kv.2.cols)
    (hany : tableInputs (inputs ++ [("expiry", expiry)]) ≠ [])
    (ifNone : Bool)
    (hexp : match expiry with
      | .scalar c => expiryCovered c = true
      | .table t => ∀ j, j < t.nrows → expiryCovered (t.jcellAt (valueCol t "expiry" on) j) = true)
    (hdef : ∀ v, dfltOf defaults "expiry" = some v → expiryCovered v = true)
    (h : perdictable f params on defaults inputs expiry today ifNone = some (.ok res)) :
    ∃ ds : Table,
      JoinSpec (inputs ++ [("expiry", expiry)]) on (fullDefaults defaults) ds ∧
      ((ds.nrows = 0 ∧ res = (.noRows ((inputs.find? (·.1 == "data")).map (·.2)), [])) ∨
       (ds.nrows ≠ 0 ∧ ∃ runs : Nat → Bool,
        (∀ i, i < ds.nrows → (runs i = false ↔ KeptSpec ifNone ds today i)) ∧
        res = (.table (Table.toV (on.map fun k => (k, (ds.col? k).getD [])) ++
            [("data", (List.range ds.nrows).map fun i =>
              if runs i then f (rowArgs ds params i) else .cell (ds.jcellAt "data" i))]),
          ((List.range ds.nrows).filter runs).map (rowArgs ds params)))) := by
  have hc : ExpiryInputCovered on (fullDefaults defaults) expiry := by
    have hd : ∀ v, dfltOf (fullDefaults defaults) "expiry" = some v → expiryCovered v = true := fun v hv => by
      rcases dfltOf_fullDefaults_expiry defaults v hv with rfl | h'
      · rfl
      · exact hdef v h'
    cases expiry with
    | scalar c => exact hexp
    | table t => exact ⟨hexp, hd⟩
  have hcov : ∀ ds, pdJoin (inputs ++ [("expiry", expiry)]) on (fullDefaults defaults) = some (.ok ds) →
      ∀ i, i < ds.nrows → expiryCovered (ds.jcellAt "expiry" i) = true := fun ds hj =>
    expiry_cells_covered expiry (join_keys _ on _ ds hon hnames hoff htab hany hj) hc
  exact perdictable_end_to_end_covered f params on defaults inputs expiry today res hon hnames hoff htab hany ifNone hcov h

/-- the hypothesis on concrete inputs: a scalar date string, and an expiry table keyed by `k` with a past date and a `None` -/
example : ExpiryInputCovered ["k"] (fullDefaults []) (.scalar (.str "2000-01-01")) := by
  show expiryCovered _ = true; decide
example : ExpiryInputCovered ["k"] (fullDefaults [])
    (.table [("k", [.int 1, .int 2]), ("expiry", [.dt (730119 * 86400000000), .none])]) := by
  refine ⟨fun j hj => ?_, fun v hv => ?_⟩
  · have : j = 0 ∨ j = 1 := by simp [Table.nrows] at hj; omega
    rcases this with rfl | rfl <;> decide
  · rcases dfltOf_fullDefaults_expiry [] v hv with rfl | h
    · rfl
    · simp [dfltOf] at h

end round_k2

end Pyg.Props.C20
