/-
  C13 — df_slice keeps exactly the rows in the interval; stitching switches at bounds; df_unslice inverts.
  Property theorems only (helper lemmas: PygProofs.Lemmas.DfSliceLemmas.lean).
-/
import PygModel.Slice
import PygProofs.Lemmas.DfSliceLemmas
import PygProofs.Lemmas.DfSliceNaLemmas
import PygProofs.Lemmas.DfSliceBcastLemmas
import PygProofs.Lemmas.DfSliceFrameLemmas
import PygProofs.Lemmas.DfSliceOpenLemmas

namespace Pyg.Props.C13
open Pyg Pyg.Slice

/-! ### brackets -/

theorem brackets_oo : brackets (some ['(', ')']) = .ok (false, false) := rfl
theorem brackets_oc : brackets (some ['(', ']']) = .ok (false, true) := rfl
theorem brackets_co : brackets (some ['[', ')']) = .ok (true, false) := rfl
theorem brackets_cc : brackets (some ['[', ']']) = .ok (true, true) := rfl
/-- the letter spellings, and the fall-back `'[)'` for an empty / missing `openclose` -/
theorem brackets_letters : brackets (some ['o', 'c']) = .ok (false, true) ∧ brackets (some ['C', 'O']) = .ok (true, false) ∧
    brackets (some []) = .ok (true, false) ∧ brackets Option.none = .ok (true, false) := ⟨rfl, rfl, rfl, rfl⟩

/-- the general table: two characters `a b` parse iff each is one of `()oO` (open) / `[]cC` (closed), and the pair
    is then (is `a` a closing-kind character, is `b` one) - all 64 accepted spellings at once -/
theorem brackets_pair (a b : Char) (l u : Bool) :
    brackets (some [a, b]) = .ok (l, u) ↔
      (if l then a ∈ ['[', ']', 'c', 'C'] else a ∈ ['(', ')', 'o', 'O']) ∧
      (if u then b ∈ ['[', ']', 'c', 'C'] else b ∈ ['(', ')', 'o', 'O']) := by
  have hc : ∀ (c : Char) (v : Bool), closed c = .ok v ↔ (if v then c ∈ ['[', ']', 'c', 'C'] else c ∈ ['(', ')', 'o', 'O']) := by
    intro c v
    unfold closed
    by_cases h1 : c ∈ ['(', ')', 'o', 'O']
    · have h2 : c ∉ ['[', ']', 'c', 'C'] := by
        simp only [List.mem_cons, List.not_mem_nil, or_false] at h1 ⊢
        rcases h1 with rfl | rfl | rfl | rfl <;> decide
      cases v <;> simp [h1, h2]
    · by_cases h2 : c ∈ ['[', ']', 'c', 'C'] <;> cases v <;> simp [h1, h2]
  simp only [brackets, List.isEmpty_cons, Bool.false_eq_true, if_false]
  cases ha : closed a with
  | error e =>
    have h1 := hc a l
    simp only [ha] at h1
    simp only [bind, Except.bind]
    constructor
    · intro h; cases h
    · intro h; exact absurd (h1.mpr h.1) (by simp)
  | ok va =>
    cases hb : closed b with
    | error e =>
      have h1 := hc b u
      simp only [hb] at h1
      simp only [bind, Except.bind]
      constructor
      · intro h; cases h
      · intro h; exact absurd (h1.mpr h.2) (by simp)
    | ok vb =>
      simp only [bind, Except.bind, pure, Except.pure]
      have h1 := hc a l; have h2 := hc b u
      rw [ha] at h1; rw [hb] at h2
      constructor
      · intro h
        simp only [Except.ok.injEq, Prod.mk.injEq] at h
        exact ⟨h1.mp (by rw [h.1]), h2.mp (by rw [h.2])⟩
      · intro h
        have e1 := h1.mpr h.1; have e2 := h2.mpr h.2
        simp only [Except.ok.injEq] at e1 e2
        rw [e1, e2]

/-- anything else is rejected: a character outside `()oO[]cC` (in either place), or not exactly two characters -/
theorem brackets_reject_char (a b : Char) (h : a ∉ ['(', ')', 'o', 'O', '[', ']', 'c', 'C']) :
    brackets (some [a, b]) = .error .value := by
  simp only [List.mem_cons, List.not_mem_nil, or_false, not_or] at h
  simp [brackets, closed, h, bind, Except.bind]

theorem brackets_reject_second (a b : Char) (h : b ∉ ['(', ')', 'o', 'O', '[', ']', 'c', 'C']) :
    brackets (some [a, b]) = .error .value := by
  simp only [List.mem_cons, List.not_mem_nil, or_false, not_or] at h
  simp only [brackets, List.isEmpty_cons, Bool.false_eq_true, if_false]
  have hb : closed b = .error .value := by simp [closed, h]
  cases ha : closed a with
  | error e =>
    have : e = .value := by
      unfold closed at ha
      split at ha
      · cases ha
      · split at ha <;> cases ha; rfl
    simp [bind, Except.bind, this]
  | ok v => simp [bind, Except.bind, hb]

theorem brackets_reject_length (s : List Char) (h0 : s ≠ []) (h : s.length ≠ 2) : brackets (some s) = .error .value := by
  match s, h0, h with
  | [_], _, _ => rfl
  | _ :: _ :: _ :: _, _, _ => rfl

/-! ### one slice -/

/-- the masks spelled out: a closed bracket admits the bound itself, an open one does not; a missing bound
    admits everything; a time of day is compared with the row's time of day -/
theorem lbOk_iff (l : Bool) (lb : Bound) (t : Int) : lbOk l lb t = true ↔
    match lb with
    | .none => True
    | .date x => if l then x ≤ t else x < t
    | .time x => if l then x ≤ tod t else x < tod t := by
  cases lb <;> cases l <;> simp [lbOk]

theorem ubOk_iff (u : Bool) (ub : Bound) (t : Int) : ubOk u ub t = true ↔
    match ub with
    | .none => True
    | .date x => if u then t ≤ x else t < x
    | .time x => if u then tod t ≤ x else tod t < x := by
  cases ub <;> cases u <;> simp [ubOk]

/-- **slice_iff**: `df_slice(ts, lb, ub, openclose)` returns exactly the rows whose timestamp passes both
    bracket tests - rows and values untouched, order kept (it is a `filter` of the input) -/
theorem slice_spec {α} (df : Rows α) (lb ub : Bound) (oc : Option (List Char)) (l u : Bool)
    (h : brackets oc = .ok (l, u)) :
    sliceOne df lb ub oc = .ok (df.filter fun r => lbOk l lb r.1 && ubOk u ub r.1) := sliceOne_eq df lb ub oc l u h

theorem slice_iff {α} (df r : Rows α) (lb ub : Bound) (oc : Option (List Char)) (l u : Bool)
    (h : brackets oc = .ok (l, u)) (hr : sliceOne df lb ub oc = .ok r) (x : Int × α) :
    x ∈ r ↔ x ∈ df ∧ lbOk l lb x.1 = true ∧ ubOk u ub x.1 = true := by
  rw [slice_spec df lb ub oc l u h] at hr
  cases hr
  simp [List.mem_filter]

theorem slice_sublist {α} (df r : Rows α) (lb ub : Bound) (oc : Option (List Char))
    (hr : sliceOne df lb ub oc = .ok r) : r.Sublist df := by
  cases hb : brackets oc with
  | ok lu =>
    rw [sliceOne_eq df lb ub oc lu.1 lu.2 hb] at hr
    cases hr
    exact List.filter_sublist
  | error e =>
    unfold sliceOne at hr
    split at hr
    · cases hr; exact List.Sublist.refl _
    · simp [hb, bind, Except.bind] at hr

/-- **the fast path**: on a non-decreasing index the pandas label slice `df[lb:ub]` the code takes when both
    applicable brackets are closed holds exactly the rows with `lb ≤ t ≤ ub` (a missing label: no test), in order -/
theorem label_slice_spec {α} (df : Rows α) (hs : (df.map (·.1)).Pairwise (· ≤ ·)) (a b : Option Int) :
    labelSlice df a b = df.filter fun r =>
      (match a with | some a => decide (a ≤ r.1) | Option.none => true) &&
      (match b with | some b => decide (r.1 ≤ b) | Option.none => true) := labelSlice_eq_filter df hs a b

theorem label_slice_iff {α} (df : Rows α) (hs : (df.map (·.1)).Pairwise (· ≤ ·)) (a b : Int) (x : Int × α) :
    x ∈ labelSlice df (some a) (some b) ↔ x ∈ df ∧ a ≤ x.1 ∧ x.1 ≤ b := by
  rw [label_slice_spec df hs]; simp [List.mem_filter]

/-- ... and on any other order it is NOT that selection (F13: the unrepaired code took the label slice on every index):
    on the decreasing index `3, 2, 1, 0` the rows with `1 ≤ t ≤ 2` are two, the label slice `[1:2]` is empty, and
    `sliceOne` - which asks `index.is_monotonic_increasing` first - returns the two rows -/
theorem label_slice_needs_sorted :
    labelSlice [((3 : Int), 'a'), (2, 'b'), (1, 'c'), (0, 'd')] (some 1) (some 2) = [] ∧
    sliceOne [((3 : Int), 'a'), (2, 'b'), (1, 'c'), (0, 'd')] (.date 1) (.date 2) (some ['[', ']']) = .ok [(2, 'b'), (1, 'c')] :=
  ⟨rfl, rfl⟩

/-- the four bracket pairs on date bounds, in plain inequalities -/
theorem slice_dates_iff {α} (df : Rows α) (a b : Int) (l u : Bool) (oc : Option (List Char))
    (h : brackets oc = .ok (l, u)) (r : Rows α) (hr : sliceOne df (.date a) (.date b) oc = .ok r) (x : Int × α) :
    x ∈ r ↔ x ∈ df ∧ (if l then a ≤ x.1 else a < x.1) ∧ (if u then x.1 ≤ b else x.1 < b) := by
  rw [slice_iff df r _ _ oc l u h hr, lbOk_iff, ubOk_iff]

example : sliceOne [((0 : Int), 'a'), (5, 'b'), (9, 'c')] (.date 0) (.date 9) (some ['(', ']']) = .ok [(5, 'b'), (9, 'c')] := rfl
example : sliceOne [((0 : Int), 'a'), (5, 'b'), (9, 'c')] (.date 0) (.date 9) (some ['[', ')']) = .ok [(0, 'a'), (5, 'b')] := rfl

/-- a missing bound is unbounded -/
theorem slice_unbounded_below {α} (df : Rows α) (b : Int) (l u : Bool) (oc : Option (List Char))
    (h : brackets oc = .ok (l, u)) (r : Rows α) (hr : sliceOne df .none (.date b) oc = .ok r) (x : Int × α) :
    x ∈ r ↔ x ∈ df ∧ (if u then x.1 ≤ b else x.1 < b) := by
  rw [slice_iff df r _ _ oc l u h hr, lbOk_iff, ubOk_iff]; simp

theorem slice_unbounded_above {α} (df : Rows α) (a : Int) (l u : Bool) (oc : Option (List Char))
    (h : brackets oc = .ok (l, u)) (r : Rows α) (hr : sliceOne df (.date a) .none oc = .ok r) (x : Int × α) :
    x ∈ r ↔ x ∈ df ∧ (if l then a ≤ x.1 else a < x.1) := by
  rw [slice_iff df r _ _ oc l u h hr, lbOk_iff, ubOk_iff]; simp

/-- brackets the code cannot parse are an error, not a silent default (unless there is nothing to cut) -/
theorem slice_rejects {α} (df : Rows α) (lb ub : Bound) (oc : Option (List Char)) (e : Err)
    (h : brackets oc = .error e) (hdf : df ≠ []) (hb : lb ≠ .none ∨ ub ≠ .none) :
    sliceOne df lb ub oc = .error e := sliceOne_reject df lb ub oc e h hdf hb

/-! ### times of day -/

/-- **tod_slice_iff**: time-of-day bounds are compared with each row's time of day (`t mod one day`) -/
theorem tod_slice_iff {α} (df : Rows α) (a b : Int) (hab : a ≤ b) (l u : Bool) (oc : Option (List Char))
    (h : brackets oc = .ok (l, u)) (r : Rows α) (hr : sliceWrap df (.time a) (.time b) oc = .ok r) (x : Int × α) :
    x ∈ r ↔ x ∈ df ∧ (if l then a ≤ tod x.1 else a < tod x.1) ∧ (if u then tod x.1 ≤ b else tod x.1 < b) := by
  have : ¬ b < a := by omega
  simp only [sliceWrap, this, if_false] at hr
  rw [slice_iff df r _ _ oc l u h hr, lbOk_iff, ubOk_iff]

/-- `df_slice` on one frame is the plain slice unless BOTH bounds are times of day with the start later than the end
    (a date mixed with a time of day, or start `≤` end, never wraps) -/
theorem no_wrap {α} (df : Rows α) (lb ub : Bound) (oc : Option (List Char))
    (h : ∀ a b, lb = .time a → ub = .time b → a ≤ b) : sliceWrap df lb ub oc = sliceOne df lb ub oc := by
  unfold sliceWrap
  split
  · rename_i a b
    have := h a b rfl rfl
    have hn : ¬ b < a := by omega
    simp [hn]
  · rfl

/-- **wrap_iff**: a window whose start is later than its end wraps past midnight: the rows at or after the
    start OR at or before the end, each test with its own bracket; rows, values and order untouched -/
theorem wrap_spec {α} (df : Rows α) (hs : df.Pairwise (fun x y => x.1 < y.1)) (a b : Int) (hab : b < a) (l u : Bool)
    (oc : Option (List Char)) (h : brackets oc = .ok (l, u)) :
    sliceWrap df (.time a) (.time b) oc = .ok (df.filter fun r => lbOk l (.time a) r.1 || ubOk u (.time b) r.1) := by
  simp only [sliceWrap, hab, if_true]
  rw [sliceOne_eq df .none (.time b) oc l u h, sliceOne_eq df (.time a) .none oc l u h]
  simp only [bind, Except.bind, pure, Except.pure, inWindow]
  congr 1
  have hd : ∀ x : Int × α, ¬ ((lbOk l Bound.none x.1 && ubOk u (.time b) x.1) = true ∧
      (lbOk l (.time a) x.1 && ubOk u Bound.none x.1) = true) := by
    intro x ⟨h1, h2⟩
    simp only [Bool.and_eq_true] at h1 h2
    have h1' := (ubOk_iff u (.time b) x.1).mp h1.2
    have h2' := (lbOk_iff l (.time a) x.1).mp h2.1
    cases l <;> cases u <;> simp at h1' h2' <;> omega
  rw [sortIndex_disjoint df hs _ _ hd]
  apply List.filter_congr
  intro x _
  simp [lbOk, ubOk]

theorem wrap_iff {α} (df r : Rows α) (hs : df.Pairwise (fun x y => x.1 < y.1)) (a b : Int) (hab : b < a) (l u : Bool)
    (oc : Option (List Char)) (h : brackets oc = .ok (l, u)) (hr : sliceWrap df (.time a) (.time b) oc = .ok r)
    (x : Int × α) :
    x ∈ r ↔ x ∈ df ∧ ((if l then a ≤ tod x.1 else a < tod x.1) ∨ (if u then tod x.1 ≤ b else tod x.1 < b)) := by
  rw [wrap_spec df hs a b hab l u oc h] at hr
  cases hr
  simp only [List.mem_filter, Bool.or_eq_true, lbOk_iff, ubOk_iff]

/-- 18:00 → 06:00 with `'[)'` keeps the 18:00 row and drops the 06:00 row (the unrepaired code did the opposite, F5) -/
example : sliceWrap [((0 : Int), 'a'), (6 * 3600000000, 'b'), (18 * 3600000000, 'c'), (DAY, 'd')]
    (.time (18 * 3600000000)) (.time (6 * 3600000000)) (some ['[', ')']) = .ok [(0, 'a'), (18 * 3600000000, 'c'), (DAY, 'd')] := by
  rw [wrap_spec _ (by decide) _ _ (by decide) true false _ rfl]; rfl

/-! ### stitching a list of series at increasing upper bounds -/

/- `Stitchable dfs ub` (PygProofs.Lemmas.DfSliceLemmas.lean): as many series as bounds, at least two, bounds non-decreasing. -/

example : Stitchable [[(0, some 1), (5, some 2)], [], [(1, some 7), (9, none)]] [4, 6, 10] :=
  ⟨rfl, by decide, rfl⟩

/-- the stitched frame is the concatenation of the pieces `pieces dfs ub n l u`: series `i` (with `n > 1`: the
    series `i .. i+n-1` side by side) cut to `(ub[i-1], ub[i]]` (the brackets as given), missing columns NaN -/
theorem stitch_eq (dfs : List TS) (ub : List Int) (h : Stitchable dfs ub) (oc : Option (List Char)) (n : Nat) (l u : Bool)
    (hb : brackets oc = .ok (l, u)) :
    ∃ F, stitch dfs Option.none (some ub) oc n = .ok (some F) ∧
      F.rows = (pieces dfs ub n l u).flatMap fun f => f.rows.map fun r => (r.1, padRow F.width r.2) := by
  have hne : ub ≠ [] := by intro h0; have := h.two; simp [h0] at this
  rw [stitch_ub_eq dfs ub oc n l u hb h.inc h.len hne,
    assemble_many _ (by rw [pieces_length _ _ _ _ _ h.len hne]; exact h.two)]
  exact ⟨_, rfl, rfl⟩

/-- **stitch_source**: a row `(t, vs)` is in the stitched frame exactly when, for the piece `i` whose interval
    `(ub[i-1], ub[i]]` holds `t` (brackets as given; the first interval is unbounded below), `t` is a timestamp of one
    of the series `i .. i+n-1`, and then column `j` carries series `i+j`'s value at `t` (NaN where it has none;
    columns beyond the last series are NaN) -/
theorem stitch_source (dfs : List TS) (ub : List Int) (h : Stitchable dfs ub) (oc : Option (List Char)) (n : Nat)
    (hn : 1 < n) (l u : Bool) (hb : brackets oc = .ok (l, u)) (F : Frame)
    (hF : stitch dfs Option.none (some ub) oc n = .ok (some F)) (t : Int) (vs : List (Option Int)) :
    (t, vs) ∈ F.rows ↔ ∃ i, ∃ hi : i < ub.length,
      (∃ s ∈ (dfs.drop i).take n, t ∈ s.index) ∧
      lbOk l (loBound ub i) t = true ∧ ubOk u (.date ub[i]) t = true ∧
      vs = padRow F.width (((dfs.drop i).take n).map (·.get t)) := by
  obtain ⟨F', hF', hrows⟩ := stitch_eq dfs ub h oc n l u hb
  rw [hF] at hF'; cases hF'
  have hne : ub ≠ [] := by intro h0; have := h.two; simp [h0] at this
  have hpl := pieces_length dfs ub n l u h.len hne
  have hfl := framesOf_length dfs n
  have hlen := h.len
  rw [hrows]
  simp only [List.mem_flatMap, List.mem_map, Prod.mk.injEq]
  constructor
  · rintro ⟨f, hf, r, hr, rfl, rfl⟩
    obtain ⟨i, hi, rfl⟩ := List.mem_iff_getElem.mp hf
    have hi' : i < ub.length := by omega
    have hfi : i < (framesOf dfs n).length := by omega
    rw [pieces_getElem dfs ub n l u h.len i hi hi' hfi] at hr
    simp only [List.mem_filter, inWindow, Bool.and_eq_true] at hr
    have hfr : (framesOf dfs n)[i] = ⟨((dfs.drop i).take n).length, concatCols ((dfs.drop i).take n)⟩ := by
      simp [framesOf, hn]
    rw [hfr] at hr
    obtain ⟨hmem, hlo, hhi⟩ := hr
    obtain ⟨hex, hval⟩ := mem_concatCols.mp hmem
    exact ⟨i, hi', hex, hlo, hhi, by rw [hval]⟩
  · rintro ⟨i, hi', hex, hlo, hhi, rfl⟩
    have hi : i < (pieces dfs ub n l u).length := by omega
    have hfi : i < (framesOf dfs n).length := by omega
    refine ⟨(pieces dfs ub n l u)[i], List.getElem_mem hi, (t, ((dfs.drop i).take n).map (·.get t)), ?_, rfl, rfl⟩
    rw [pieces_getElem dfs ub n l u h.len i hi hi' hfi]
    have hfr : (framesOf dfs n)[i] = ⟨((dfs.drop i).take n).length, concatCols ((dfs.drop i).take n)⟩ := by
      simp [framesOf, hn]
    rw [hfr]
    simp only [List.mem_filter, inWindow, Bool.and_eq_true]
    exact ⟨mem_concatCols.mpr ⟨hex, rfl⟩, hlo, hhi⟩

/-- the one-column case (`n = 1`, a stitched Series): a row `(t, v)` of series `i` appears exactly when `t` lies in
    the interval of piece `i` -/
theorem stitch_source_series (dfs : List TS) (ub : List Int) (h : Stitchable dfs ub) (oc : Option (List Char)) (n : Nat)
    (hn : n ≤ 1) (l u : Bool) (hb : brackets oc = .ok (l, u)) (F : Frame)
    (hF : stitch dfs Option.none (some ub) oc n = .ok (some F)) (t : Int) (vs : List (Option Int)) :
    (t, vs) ∈ F.rows ↔ ∃ i, ∃ hi : i < ub.length, ∃ v, (t, v) ∈ dfs[i]'(by rw [h.len]; exact hi) ∧
      lbOk l (loBound ub i) t = true ∧ ubOk u (.date ub[i]) t = true ∧ vs = padRow F.width [v] := by
  obtain ⟨F', hF', hrows⟩ := stitch_eq dfs ub h oc n l u hb
  rw [hF] at hF'; cases hF'
  have hne : ub ≠ [] := by intro h0; have := h.two; simp [h0] at this
  have hpl := pieces_length dfs ub n l u h.len hne
  have hfl := framesOf_length dfs n
  have hlen := h.len
  have hn' : ¬ n > 1 := by omega
  rw [hrows]
  simp only [List.mem_flatMap, List.mem_map, Prod.mk.injEq]
  constructor
  · rintro ⟨f, hf, r, hr, rfl, rfl⟩
    obtain ⟨i, hi, rfl⟩ := List.mem_iff_getElem.mp hf
    have hi' : i < ub.length := by omega
    have hfi : i < (framesOf dfs n).length := by omega
    rw [pieces_getElem dfs ub n l u h.len i hi hi' hfi] at hr
    simp only [List.mem_filter, inWindow, Bool.and_eq_true] at hr
    have hfr : (framesOf dfs n)[i] = ⟨1, ofTS (dfs[i]'(by omega))⟩ := by simp [framesOf, hn']
    rw [hfr] at hr
    obtain ⟨hmem, hlo, hhi⟩ := hr
    simp only [ofTS, List.mem_map] at hmem
    obtain ⟨p, hp, rfl⟩ := hmem
    exact ⟨i, hi', p.2, hp, hlo, hhi, rfl⟩
  · rintro ⟨i, hi', v, hv, hlo, hhi, rfl⟩
    have hi : i < (pieces dfs ub n l u).length := by omega
    have hfi : i < (framesOf dfs n).length := by omega
    refine ⟨(pieces dfs ub n l u)[i], List.getElem_mem hi, (t, [v]), ?_, rfl, rfl⟩
    rw [pieces_getElem dfs ub n l u h.len i hi hi' hfi]
    have hfr : (framesOf dfs n)[i] = ⟨1, ofTS (dfs[i]'(by omega))⟩ := by simp [framesOf, hn']
    rw [hfr]
    simp only [List.mem_filter, inWindow, Bool.and_eq_true, ofTS, List.mem_map]
    exact ⟨⟨(t, v), hv, rfl⟩, hlo, hhi⟩

/-- column `j` of such a row is series `i+j` at `t` -/
theorem stitch_column (dfs : List TS) (i j n w : Nat) (t : Int) (hj : j < n) (hij : i + j < dfs.length) :
    (padRow w (((dfs.drop i).take n).map (·.get t)))[j]? = some (dfs[i + j].get t) := by
  have hlen : j < (((dfs.drop i).take n).map (·.get t)).length := by
    simp only [List.length_map, List.length_take, List.length_drop]; omega
  unfold padRow
  rw [List.getElem?_append_left hlen]
  simp [hj, List.getElem?_drop, hij]

/-- **stitch_once**: with brackets that are not closed on both sides (in particular the default `'(]'`) the stitched
    index is strictly increasing: every timestamp is covered at most once, in order.  General form: whenever the
    frames that are cut have strictly increasing indexes. -/
theorem stitch_once_of (dfs : List TS) (ub : List Int) (h : Stitchable dfs ub) (oc : Option (List Char)) (n : Nat) (l u : Bool)
    (hb : brackets oc = .ok (l, u)) (hlu : ¬ (l = true ∧ u = true))
    (hrows : ∀ f ∈ framesOf dfs n, f.rows.Pairwise (fun a b => a.1 < b.1)) (F : Frame)
    (hF : stitch dfs Option.none (some ub) oc n = .ok (some F)) :
    F.rows.Pairwise (fun a b => a.1 < b.1) := by
  obtain ⟨F', hF', hrows'⟩ := stitch_eq dfs ub h oc n l u hb
  rw [hF] at hF'; cases hF'
  have hne : ub ≠ [] := by intro h0; have := h.two; simp [h0] at this
  have hpl := pieces_length dfs ub n l u h.len hne
  have hfl := framesOf_length dfs n
  have hlen := h.len
  have hub := nonDecreasing_pairwise ub h.inc
  rw [hrows', List.pairwise_flatMap]
  constructor
  · intro f hf
    obtain ⟨i, hi, rfl⟩ := List.mem_iff_getElem.mp hf
    rw [pieces_getElem dfs ub n l u h.len i hi (by omega) (by omega)]
    simp only [List.pairwise_map]
    exact (hrows _ (List.getElem_mem _)).sublist List.filter_sublist
  · rw [List.pairwise_iff_getElem]
    intro i j hi hj hij x hx y hy
    rw [pieces_getElem dfs ub n l u h.len i hi (by omega) (by omega)] at hx
    rw [pieces_getElem dfs ub n l u h.len j hj (by omega) (by omega)] at hy
    simp only [List.mem_map, List.mem_filter, inWindow, Bool.and_eq_true] at hx hy
    obtain ⟨rx, ⟨_, _, hxu⟩, rfl⟩ := hx
    obtain ⟨ry, ⟨_, hyl, _⟩, rfl⟩ := hy
    have hj0 : j ≠ 0 := by omega
    have hjm : j - 1 < ub.length := by omega
    have hle : ub[i]'(by omega) ≤ ub[j - 1]'hjm := by
      by_cases he : i = j - 1
      · subst he; exact Int.le_refl _
      · exact (List.pairwise_iff_getElem.mp hub) i (j - 1) (by omega) hjm (by omega)
    have hxu' := (ubOk_iff u (.date (ub[i]'(by omega))) rx.1).mp hxu
    have hyl' : lbOk l (.date (ub[j - 1]'hjm)) ry.1 = true := by
      simpa [loBound, hj0, List.getD_eq_getElem?_getD, hjm] using hyl
    have hyl'' := (lbOk_iff l _ ry.1).mp hyl'
    show rx.1 < ry.1
    cases l <;> cases u <;> simp at hxu' hyl'' hlu <;> omega

theorem stitch_once (dfs : List TS) (ub : List Int) (h : Stitchable dfs ub) (hs : ∀ s ∈ dfs, s.Sorted)
    (oc : Option (List Char)) (n : Nat) (l u : Bool)
    (hb : brackets oc = .ok (l, u)) (hlu : ¬ (l = true ∧ u = true)) (F : Frame)
    (hF : stitch dfs Option.none (some ub) oc n = .ok (some F)) :
    F.rows.Pairwise (fun a b => a.1 < b.1) :=
  stitch_once_of dfs ub h oc n l u hb hlu (framesOf_rows_sorted dfs n hs) F hF

/-- bounds given in decreasing order (with the series in the matching order) stitch to the same frame -/
theorem stitch_decreasing (dfs : List TS) (ub : List Int) (oc : Option (List Char)) (n : Nat)
    (h1 : nonDecreasing ub = false) (h2 : nonDecreasing ub.reverse = true) :
    stitch dfs Option.none (some ub) oc n = stitch dfs.reverse Option.none (some ub.reverse) oc n := by
  simp [stitch, normalise, h1, h2]

/-! ### the other spellings: lower bounds only, both lists -/

/-- **stitch_source for every spelling of the bounds**: once the bound lists are normalised (`normalise`: lower bounds
    only ↦ `(lb[i], lb[i+1]]` with the last interval unbounded above; upper bounds only ↦ `(ub[i-1], ub[i]]`; both lists
    ↦ `(lb[i], ub[i]]`; decreasing lists reversed together with the series), a row appears exactly when its timestamp
    passes the two tests of piece `i` and belongs to one of the series `i .. i+n-1`; column `j` carries series `i+j` -/
theorem stitch_source_general (dfs : List TS) (lb ub : Option (List Int)) (oc : Option (List Char)) (n : Nat) (hn : 1 < n)
    (l u : Bool) (hb : brackets oc = .ok (l, u)) (dfs' : List TS) (lbs ubs : List (Option Int))
    (hnorm : normalise dfs lb ub = .ok (dfs', lbs, ubs)) (h1 : lbs.length = dfs'.length) (h2 : ubs.length = dfs'.length)
    (htwo : 2 ≤ dfs'.length) (F : Frame) (hF : stitch dfs lb ub oc n = .ok (some F)) (t : Int) (vs : List (Option Int)) :
    (t, vs) ∈ F.rows ↔ ∃ i, ∃ hl : i < lbs.length, ∃ hu : i < ubs.length,
      (∃ s ∈ (dfs'.drop i).take n, t ∈ s.index) ∧
      lbOk l (optDate lbs[i]) t = true ∧ ubOk u (optDate ubs[i]) t = true ∧
      vs = padRow F.width (((dfs'.drop i).take n).map (·.get t)) := by
  have hpl := piecesG_length dfs' lbs ubs n l u h1 h2
  have hfl := framesOf_length dfs' n
  rw [stitch_general dfs lb ub oc n l u hb dfs' lbs ubs hnorm h1 h2, assemble_many _ (by omega)] at hF
  cases hF
  simp only [List.mem_flatMap, List.mem_map, Prod.mk.injEq]
  constructor
  · rintro ⟨f, hf, r, hr, rfl, rfl⟩
    obtain ⟨i, hi, rfl⟩ := List.mem_iff_getElem.mp hf
    rw [piecesG_getElem dfs' lbs ubs n l u i hi (by omega) (by omega) (by omega),
      framesOf_getElem_cols dfs' n hn i (by omega)] at hr
    simp only [List.mem_filter, inWindow, Bool.and_eq_true] at hr
    obtain ⟨hmem, hlo, hhi⟩ := hr
    obtain ⟨hex, hval⟩ := mem_concatCols.mp hmem
    exact ⟨i, by omega, by omega, hex, hlo, hhi, by rw [hval]⟩
  · rintro ⟨i, hl, hu, hex, hlo, hhi, rfl⟩
    have hi : i < (piecesG dfs' lbs ubs n l u).length := by omega
    refine ⟨(piecesG dfs' lbs ubs n l u)[i], List.getElem_mem hi, (t, ((dfs'.drop i).take n).map (·.get t)), ?_, rfl, rfl⟩
    rw [piecesG_getElem dfs' lbs ubs n l u i hi (by omega) hl hu, framesOf_getElem_cols dfs' n hn i (by omega)]
    simp only [List.mem_filter, inWindow, Bool.and_eq_true]
    exact ⟨mem_concatCols.mpr ⟨hex, rfl⟩, hlo, hhi⟩

/-- the same for the DEFAULT `n = 1` (a stitched Series), every spelling of the bounds: a row `(t, v)` of series `i`
    (after `normalise`) appears exactly when `t` passes the two tests of piece `i` -/
theorem stitch_source_general_series (dfs : List TS) (lb ub : Option (List Int)) (oc : Option (List Char)) (n : Nat) (hn : n ≤ 1)
    (l u : Bool) (hb : brackets oc = .ok (l, u)) (dfs' : List TS) (lbs ubs : List (Option Int))
    (hnorm : normalise dfs lb ub = .ok (dfs', lbs, ubs)) (h1 : lbs.length = dfs'.length) (h2 : ubs.length = dfs'.length)
    (htwo : 2 ≤ dfs'.length) (F : Frame) (hF : stitch dfs lb ub oc n = .ok (some F)) (t : Int) (vs : List (Option Int)) :
    (t, vs) ∈ F.rows ↔ ∃ i, ∃ hd : i < dfs'.length, ∃ hl : i < lbs.length, ∃ hu : i < ubs.length, ∃ v,
      (t, v) ∈ dfs'[i] ∧ lbOk l (optDate lbs[i]) t = true ∧ ubOk u (optDate ubs[i]) t = true ∧
      vs = padRow F.width [v] := by
  have hpl := piecesG_length dfs' lbs ubs n l u h1 h2
  have hfl := framesOf_length dfs' n
  rw [stitch_general dfs lb ub oc n l u hb dfs' lbs ubs hnorm h1 h2, assemble_many _ (by omega)] at hF
  cases hF
  simp only [List.mem_flatMap, List.mem_map, Prod.mk.injEq]
  constructor
  · rintro ⟨f, hf, r, hr, rfl, rfl⟩
    obtain ⟨i, hi, rfl⟩ := List.mem_iff_getElem.mp hf
    rw [piecesG_getElem dfs' lbs ubs n l u i hi (by omega) (by omega) (by omega),
      framesOf_getElem_series dfs' n hn i (by omega) (by omega)] at hr
    simp only [List.mem_filter, inWindow, Bool.and_eq_true, ofTS, List.mem_map] at hr
    obtain ⟨⟨p, hp, rfl⟩, hlo, hhi⟩ := hr
    exact ⟨i, by omega, by omega, by omega, p.2, hp, hlo, hhi, rfl⟩
  · rintro ⟨i, hd, hl, hu, v, hv, hlo, hhi, rfl⟩
    have hi : i < (piecesG dfs' lbs ubs n l u).length := by omega
    refine ⟨(piecesG dfs' lbs ubs n l u)[i], List.getElem_mem hi, (t, [v]), ?_, rfl, rfl⟩
    rw [piecesG_getElem dfs' lbs ubs n l u i hi (by omega) hl hu, framesOf_getElem_series dfs' n hn i (by omega) hd]
    simp only [List.mem_filter, inWindow, Bool.and_eq_true, ofTS, List.mem_map]
    exact ⟨⟨(t, v), hv, rfl⟩, hlo, hhi⟩

/-- lower bounds only: piece `i` is `(lb[i], lb[i+1]]`, the last one unbounded above -/
theorem normalise_lb_only (dfs : List TS) (lb : List Int) (h : nonDecreasing lb = true) :
    normalise dfs (some lb) Option.none = .ok (dfs, lb.map some, (lb.drop 1).map some ++ [Option.none]) :=
  normalise_lb dfs lb h

/-- both lists: piece `i` is `(lb[i], ub[i]]`; lists running in opposite directions are rejected -/
theorem normalise_both_lists (dfs : List TS) (lb ub : List Int) (h1 : nonDecreasing lb = true) (h2 : nonDecreasing ub = true) :
    normalise dfs (some lb) (some ub) = .ok (dfs, lb.map some, ub.map some) := normalise_both dfs lb ub h1 h2

theorem normalise_rejects_mixed (dfs : List TS) (lb ub : List Int) (h : nonDecreasing ub ≠ nonDecreasing lb) :
    normalise dfs (some lb) (some ub) = .error .value := normalise_mixed dfs lb ub h

example : normalise [[(0, some 1)], [(5, some 2)]] (some [1, 4]) (some [3, 9]) =
    .ok ([[(0, some 1)], [(5, some 2)]], [some 1, some 4], [some 3, some 9]) := rfl

/-! ### df_unslice -/

/-- the first half of the inverse - cutting the stitched frame again at the bounds with `'(]'`, as `df_unslice` does,
    returns exactly the piece each interval was assembled from (rows, values, NaN padding) -/
theorem slices_eq (dfs : List TS) (ub : List Int) (h : Stitchable dfs ub) (n : Nat) (F : Frame)
    (hF : stitch dfs Option.none (some ub) (some ['(', ']']) n = .ok (some F)) (i : Nat) (hi : i < ub.length) :
    (F.rows.filter fun r => inWindow false true (loBound ub i) (.date ub[i]) r.1) =
      ((pieces dfs ub n false true)[i]'(by
          rw [pieces_length _ _ _ _ _ h.len (by intro h0; have := h.two; simp [h0] at this)]; exact hi)
        |>.rows.map fun r => (r.1, padRow F.width r.2)) := by
  obtain ⟨F', hF', hrows⟩ := stitch_eq dfs ub h (some ['(', ']']) n false true rfl
  rw [hF] at hF'; cases hF'
  have hne : ub ≠ [] := by intro h0; have := h.two; simp [h0] at this
  have hpl := pieces_length dfs ub n false true h.len hne
  have hfl := framesOf_length dfs n
  have hlen := h.len
  have hub := nonDecreasing_pairwise ub h.inc
  rw [hrows]
  have hi1 : i < (pieces dfs ub n false true).length := by omega
  rw [List.filter_flatMap]
  conv => lhs; rw [pieces_eq_range dfs ub h.len h.two n false true]
  rw [List.flatMap_map]
  rw [Bitemp.flatMap_single _ i _ List.nodup_range]
  · have hir : i ∈ List.range ub.length := List.mem_range.mpr hi
    have hif : i < (framesOf dfs n).length := by omega
    simp only [hir, if_true, hif, dite_true]
    rw [pieces_getElem dfs ub n false true h.len i hi1 hi hif]
    rw [List.filter_eq_self.mpr]
    · simp [List.getD_eq_getElem?_getD, hi]
    · intro r hr
      simp only [List.mem_map, List.mem_filter] at hr
      obtain ⟨r', ⟨_, hw⟩, rfl⟩ := hr
      simpa [List.getD_eq_getElem?_getD, hi] using hw
  · intro k hk hki
    have hk' : k < ub.length := List.mem_range.mp hk
    have hkf : k < (framesOf dfs n).length := by omega
    simp only [hkf, dite_true]
    rw [List.filter_eq_nil_iff]
    intro r hr hw
    simp only [List.mem_map, List.mem_filter] at hr
    obtain ⟨r', ⟨_, hw'⟩, rfl⟩ := hr
    simp only [inWindow, Bool.and_eq_true, List.getD_eq_getElem?_getD, hk', List.getElem?_eq_getElem,
      Option.getD_some] at hw hw'
    have a1 := (ubOk_iff true (.date ub[k]) r'.1).mp hw'.2
    have a2 := (ubOk_iff true (.date ub[i]) r'.1).mp hw.2
    simp only [if_true] at a1 a2
    rcases Nat.lt_or_gt_of_ne hki with hlt | hgt
    · -- k < i : the row is `≤ ub[k] ≤ ub[i-1]`, so it fails the lower bound of interval i
      have hi0 : i ≠ 0 := by omega
      have hle : ub[k] ≤ ub[i - 1]'(by omega) := by
        by_cases he : k = i - 1
        · subst he; exact Int.le_refl _
        · exact (List.pairwise_iff_getElem.mp hub) k (i - 1) hk' (by omega) (by omega)
      have b := hw.1
      simp only [loBound, hi0, if_false, List.getD_eq_getElem?_getD] at b
      rw [List.getElem?_eq_getElem (by omega)] at b
      have b' := (lbOk_iff false (.date (ub[i - 1]'(by omega))) r'.1).mp (by simpa using b)
      simp at b'; omega
    · -- k > i : the row is `> ub[k-1] ≥ ub[i]`
      have hk0 : k ≠ 0 := by omega
      have hle : ub[i] ≤ ub[k - 1]'(by omega) := by
        by_cases he : i = k - 1
        · subst he; exact Int.le_refl _
        · exact (List.pairwise_iff_getElem.mp hub) i (k - 1) hi (by omega) (by omega)
      have b := hw'.1
      simp only [loBound, hk0, if_false, List.getD_eq_getElem?_getD] at b
      rw [List.getElem?_eq_getElem (by omega)] at b
      have b' := (lbOk_iff false (.date (ub[k - 1]'(by omega))) r'.1).mp (by simpa using b)
      simp at b'; omega

theorem unslice_slices (dfs : List TS) (ub : List Int) (h : Stitchable dfs ub) (n : Nat) (F : Frame)
    (hF : stitch dfs Option.none (some ub) (some ['(', ']']) n = .ok (some F)) (i : Nat) (hi : i < ub.length) :
    sliceWrap F.rows (loBound ub i) (.date ub[i]) (some ['(', ']']) =
      .ok ((pieces dfs ub n false true)[i]'(by
          rw [pieces_length _ _ _ _ _ h.len (by intro h0; have := h.two; simp [h0] at this)]; exact hi)
        |>.rows.map fun r => (r.1, padRow F.width r.2)) := by
  have hsw : sliceWrap F.rows (loBound ub i) (.date ub[i]) (some ['(', ']']) =
      sliceOne F.rows (loBound ub i) (.date ub[i]) (some ['(', ']']) := by
    unfold sliceWrap; split <;> first | rfl | (rename_i h1 h2; cases h2)
  rw [hsw, sliceOne_eq _ _ _ _ false true rfl, slices_eq dfs ub h n F hF i hi]

/-- with `n > 1` the stitched frame has `min n #series` columns -/
theorem stitch_width (dfs : List TS) (ub : List Int) (h : Stitchable dfs ub) (oc : Option (List Char)) (n : Nat)
    (hn : 1 < n) (l u : Bool) (hb : brackets oc = .ok (l, u)) (F : Frame)
    (hF : stitch dfs Option.none (some ub) oc n = .ok (some F)) : F.width = min n ub.length := by
  have hne : ub ≠ [] := by intro h0; have := h.two; simp [h0] at this
  have hpl := pieces_length dfs ub n l u h.len hne
  have hfl := framesOf_length dfs n
  have hlen := h.len
  have htwo := h.two
  rw [stitch_ub_eq dfs ub oc n l u hb h.inc h.len hne, assemble_many _ (by rw [hpl]; exact h.two)] at hF
  cases hF
  show (pieces dfs ub n l u).foldl (fun m f => max m f.width) 0 = min n ub.length
  have hw : ∀ i (hi : i < (pieces dfs ub n l u).length), ((pieces dfs ub n l u)[i]).width = min n (ub.length - i) := by
    intro i hi
    rw [pieces_getElem dfs ub n l u h.len i hi (by omega) (by omega), framesOf_getElem_cols dfs n hn i (by omega)]
    simp only [List.length_take, List.length_drop]; omega
  apply foldl_max_width _ _ _ 0 (by omega)
  · right
    exact ⟨(pieces dfs ub n l u)[0]'(by omega), List.getElem_mem _, by rw [hw 0 (by omega)]; omega⟩
  · intro f hf
    obtain ⟨i, hi, rfl⟩ := List.mem_iff_getElem.mp hf
    rw [hw i hi]; omega

/-- what `df_unslice` returns for bound `k` of a frame stitched from NaN-free series: the values of series `k` on the
    intervals `i` with `i ≤ k < i + width` (those in which series `k` was a column) -/
theorem unslice_series (dfs : List TS) (ub : List Int) (h : Stitchable dfs ub) (hstrict : ub.Pairwise (· < ·))
    (hs : ∀ s ∈ dfs, s.Sorted) (n : Nat) (hn : 1 < n) (F : Frame)
    (hF : stitch dfs Option.none (some ub) (some ['(', ']']) n = .ok (some F))
    (k : Nat) (hk : k < ub.length) (t x : Int) :
    (t, some x) ∈ nona (((rsOf F ub).filter (·.1 == ub[k])).flatMap (·.2)) ↔
      (t, some x) ∈ dfs[k]'(by rw [h.len]; exact hk) ∧
        ∃ i, ∃ hi : i < ub.length, i ≤ k ∧ k < i + F.width ∧ inWindow false true (loBound ub i) (.date ub[i]) t = true := by
  have hne : ub ≠ [] := by intro h0; have := h.two; simp [h0] at this
  have hpl := pieces_length dfs ub n false true h.len hne
  have hfl := framesOf_length dfs n
  have hlen := h.len
  have hW := stitch_width dfs ub h _ n hn false true rfl F hF
  have hkd : k < dfs.length := by omega
  -- the rows of slice `i`
  have hslice : ∀ i (hi : i < ub.length) (vs : List (Option Int)),
      (t, vs) ∈ (F.rows.filter fun r => inWindow false true (loBound ub i) (.date ub[i]) r.1) ↔
        (∃ s ∈ (dfs.drop i).take n, t ∈ s.index) ∧ inWindow false true (loBound ub i) (.date ub[i]) t = true ∧
          vs = padRow F.width (((dfs.drop i).take n).map (·.get t)) := by
    intro i hi vs
    rw [slices_eq dfs ub h n F hF i hi, pieces_getElem dfs ub n false true h.len i (by omega) hi (by omega),
      framesOf_getElem_cols dfs n hn i (by omega)]
    simp only [List.mem_map, List.mem_filter, Prod.mk.injEq]
    constructor
    · rintro ⟨r, ⟨hr, hw⟩, rfl, rfl⟩
      obtain ⟨hex, hval⟩ := mem_concatCols.mp hr
      exact ⟨hex, hw, by rw [hval]⟩
    · rintro ⟨hex, hw, rfl⟩
      exact ⟨(t, ((dfs.drop i).take n).map (·.get t)), ⟨mem_concatCols.mpr ⟨hex, rfl⟩, hw⟩, rfl, rfl⟩
  simp only [nona, List.mem_filter, List.mem_flatMap, Option.isSome_some, and_true, beq_iff_eq, Prod.exists]
  constructor
  · rintro ⟨u, c, ⟨hmem, hu⟩, hc⟩
    obtain ⟨i, j, hi, hj, huj, rfl⟩ := mem_rsOf.mp hmem
    have hij : i + j < ub.length := (List.getElem?_eq_some_iff.mp huj).1
    have hijk : i + j = k := by
      apply getElem_inj_of_sorted hstrict hij hk
      have := (List.getElem?_eq_some_iff.mp huj).2
      rw [this]; exact hu
    obtain ⟨vs, hvs, hval⟩ := mem_column.mp hc
    obtain ⟨_, hw, rfl⟩ := (hslice i hi vs).mp hvs
    rw [stitch_column dfs i j n F.width t (by omega) (by omega)] at hval
    simp only [Option.join_some] at hval
    have hg : (dfs[k]'hkd).get t = some x := by
      have e : dfs[i + j]'(by omega) = dfs[k]'hkd := by congr 1
      rw [← e]; exact hval
    exact ⟨(get_eq_some_iff (hs _ (List.getElem_mem _)) t x).mp hg, i, hi, by omega, by omega, hw⟩
  · rintro ⟨hx, i, hi, hik, hkw, hw⟩
    have hj : k - i < F.width := by omega
    have hjn : k - i < n := by omega
    have hidx : i + (k - i) = k := by omega
    refine ⟨ub[k], column (k - i) (F.rows.filter fun r => inWindow false true (loBound ub i) (.date ub[i]) r.1),
      ⟨mem_rsOf.mpr ⟨i, k - i, hi, hj, by rw [hidx]; exact List.getElem?_eq_getElem hk, rfl⟩, rfl⟩, ?_⟩
    apply mem_column.mpr
    refine ⟨padRow F.width (((dfs.drop i).take n).map (·.get t)), (hslice i hi _).mpr ⟨?_, hw, rfl⟩, ?_⟩
    · refine ⟨dfs[k]'hkd, mem_take_drop.mpr ⟨k - i, hjn, by rw [hidx]; exact List.getElem?_eq_getElem hkd⟩, ?_⟩
      simp only [TS.index, List.mem_map]; exact ⟨_, hx, rfl⟩
    · rw [stitch_column dfs i (k - i) n F.width t hjn (by omega)]
      simp only [Option.join_some]
      have e : dfs[i + (k - i)]'(by omega) = dfs[k]'hkd := by congr 1
      rw [e]
      exact (get_eq_some_iff (hs _ (List.getElem_mem _)) t x).mpr hx

/-- **unslice_restitch, `n > 1` columns**: for NaN-free proper series stitched with `n > 1` columns at strictly
    increasing bounds, `df_unslice` returns one series per bound (in bound order) and stitching those again with the
    same bounds and `n` reproduces the frame exactly. -/
theorem unslice_restitch_cols (dfs : List TS) (ub : List Int) (h : Stitchable dfs ub) (hstrict : ub.Pairwise (· < ·))
    (hs : ∀ s ∈ dfs, s.Sorted) (hnn : ∀ s ∈ dfs, ∀ p ∈ s, p.2.isSome = true) (n : Nat) (hn : 1 < n) :
    ∃ F U, stitch dfs Option.none (some ub) (some ['(', ']']) n = .ok (some F) ∧ unslice F ub = .ok U ∧
      U.map (·.1) = ub ∧ stitch (U.map (·.2)) Option.none (some ub) (some ['(', ']']) n = .ok (some F) := by
  obtain ⟨F, hF, _⟩ := stitch_eq dfs ub h (some ['(', ']']) n false true rfl
  have hlen := h.len
  have htwo := h.two
  have hW := stitch_width dfs ub h _ n hn false true rfl F hF
  -- the keys `df_unslice` groups by are the bounds, in order
  have hkeys : ((rsOf F ub).map (·.1)).eraseDups.mergeSort (fun a b => decide (a ≤ b)) = ub := by
    apply Bitemp.sortedLt_ext (dedupSort_sorted _) hstrict
    intro u
    rw [mem_dedupSort, List.mem_map]
    constructor
    · rintro ⟨⟨u', c⟩, hm, rfl⟩
      obtain ⟨i, j, _, _, huj, _⟩ := mem_rsOf.mp hm
      exact List.mem_of_getElem? huj
    · intro hu
      obtain ⟨k, hk, rfl⟩ := List.mem_iff_getElem.mp hu
      exact ⟨(ub[k], _), mem_rsOf.mpr ⟨k, 0, hk, by omega, by simp [hk], rfl⟩, rfl⟩
  let Us : List TS := ub.map fun u => nona (((rsOf F ub).filter (·.1 == u)).flatMap (·.2))
  refine ⟨F, ub.map fun u => (u, nona (((rsOf F ub).filter (·.1 == u)).flatMap (·.2))), hF, ?_, ?_, ?_⟩
  · rw [unslice_eq _ _ h.inc, hkeys]
  · simp [List.map_map, Function.comp_def]
  · have hmap : (ub.map fun u => (u, nona (((rsOf F ub).filter (·.1 == u)).flatMap (·.2)))).map (·.2) = Us := by
      simp [Us, List.map_map, Function.comp_def]
    rw [hmap]
    have hUlen : Us.length = ub.length := by simp [Us]
    have hU : Stitchable Us ub := ⟨hUlen, h.two, h.inc⟩
    obtain ⟨F', hF', _⟩ := stitch_eq Us ub hU (some ['(', ']']) n false true rfl
    have hW' := stitch_width Us ub hU _ n hn false true rfl F' hF'
    rw [hF']
    -- the recovered series agree with the original ones wherever the stitch looks at them
    have hUk : ∀ k (hk : k < ub.length), Us[k]'(by omega) = nona (((rsOf F ub).filter (·.1 == ub[k])).flatMap (·.2)) := by
      intro k hk; simp [Us]
    have hUnn : ∀ k (hk : k < ub.length), ∀ p ∈ Us[k]'(by omega), p.2.isSome = true := by
      intro k hk p hp
      rw [hUk k hk] at hp
      exact (List.mem_filter.mp hp).2
    have hagree : ∀ i (hi : i < ub.length) (t : Int), inWindow false true (loBound ub i) (.date ub[i]) t = true →
        ∀ j, j < n → ∀ (hij : i + j < ub.length),
          (Us[i + j]'(by omega)).get t = (dfs[i + j]'(by omega)).get t ∧
          (t ∈ (Us[i + j]'(by omega)).index ↔ t ∈ (dfs[i + j]'(by omega)).index) := by
      intro i hi t hw j hj hij
      apply get_agree t (hUnn _ hij) (hnn _ (List.getElem_mem _)) (hs _ (List.getElem_mem _))
      intro x
      rw [hUk _ hij, unslice_series dfs ub h hstrict hs n hn F hF (i + j) hij t x]
      constructor
      · exact fun hh => hh.1
      · intro hh; exact ⟨hh, i, hi, by omega, by omega, hw⟩
    have hcols : ∀ i (hi : i < ub.length) (t : Int), inWindow false true (loBound ub i) (.date ub[i]) t = true →
        ((∃ s ∈ (Us.drop i).take n, t ∈ s.index) ↔ (∃ s ∈ (dfs.drop i).take n, t ∈ s.index)) ∧
        ((Us.drop i).take n).map (·.get t) = ((dfs.drop i).take n).map (·.get t) := by
      intro i hi t hw
      constructor
      · constructor
        · rintro ⟨s, hsm, hts⟩
          obtain ⟨j, hj, hsj⟩ := mem_take_drop.mp hsm
          have hij : i + j < ub.length := by rw [← hUlen]; exact (List.getElem?_eq_some_iff.mp hsj).1
          have e : Us[i + j]'(by omega) = s := (List.getElem?_eq_some_iff.mp hsj).2
          refine ⟨dfs[i + j]'(by omega), mem_take_drop.mpr ⟨j, hj, List.getElem?_eq_getElem _⟩, ?_⟩
          exact ((hagree i hi t hw j hj hij).2).mp (by rw [e]; exact hts)
        · rintro ⟨s, hsm, hts⟩
          obtain ⟨j, hj, hsj⟩ := mem_take_drop.mp hsm
          have hij : i + j < ub.length := by rw [← hlen]; exact (List.getElem?_eq_some_iff.mp hsj).1
          have e : dfs[i + j]'(by omega) = s := (List.getElem?_eq_some_iff.mp hsj).2
          refine ⟨Us[i + j]'(by omega), mem_take_drop.mpr ⟨j, hj, List.getElem?_eq_getElem _⟩, ?_⟩
          exact ((hagree i hi t hw j hj hij).2).mpr (by rw [e]; exact hts)
      · apply List.ext_getElem
        · simp only [List.length_map, List.length_take, List.length_drop]; omega
        · intro j h1 h2
          simp only [List.length_map, List.length_take, List.length_drop] at h1 h2
          simp only [List.getElem_map, List.getElem_take, List.getElem_drop]
          exact (hagree i hi t hw j (by omega) (by omega)).1
    -- both frames are strictly increasing in time and hold the same rows
    have hsort : F.rows.Pairwise (fun a b => a.1 < b.1) :=
      stitch_once_of dfs ub h _ n false true rfl (by simp) (framesOf_rows_sorted_cols dfs n hn) F hF
    have hsort' : F'.rows.Pairwise (fun a b => a.1 < b.1) :=
      stitch_once_of Us ub hU _ n false true rfl (by simp) (framesOf_rows_sorted_cols Us n hn) F' hF'
    have hwidth : F'.width = F.width := by rw [hW, hW']
    have hrows : F'.rows = F.rows := by
      apply rows_ext hsort' hsort
      rintro ⟨t, vs⟩
      rw [stitch_source Us ub hU _ n hn false true rfl F' hF' t vs,
        stitch_source dfs ub h _ n hn false true rfl F hF t vs]
      constructor
      · rintro ⟨i, hi, hex, hlo, hhi, hvs⟩
        have hw : inWindow false true (loBound ub i) (.date ub[i]) t = true := by simp [inWindow, hlo, hhi]
        obtain ⟨h1, h2⟩ := hcols i hi t hw
        exact ⟨i, hi, h1.mp hex, hlo, hhi, by rw [hvs, h2, hwidth]⟩
      · rintro ⟨i, hi, hex, hlo, hhi, hvs⟩
        have hw : inWindow false true (loBound ub i) (.date ub[i]) t = true := by simp [inWindow, hlo, hhi]
        obtain ⟨h1, h2⟩ := hcols i hi t hw
        exact ⟨i, hi, h1.mpr hex, hlo, hhi, by rw [hvs, h2, hwidth]⟩
    cases F; cases F'
    simp only at hwidth hrows
    rw [hwidth, hrows]

def demoSeriesT : List TS := [[(0, some 1), (2, some 2), (5, some 3)], [], [(1, some 7), (2, some 8), (4, some 9), (9, some 6)]]
def demoBoundsT : List Int := [2, 5, 8]

/-- the series `df_unslice` returns are filed under the bounds, in bound order -/
theorem unslice_keys (F : Frame) (ub : List Int) (hstrict : ub.Pairwise (· < ·)) (hpos : 0 < F.width) :
    ((rsOf F ub).map (·.1)).eraseDups.mergeSort (fun a b => decide (a ≤ b)) = ub := by
  apply Bitemp.sortedLt_ext (dedupSort_sorted _) hstrict
  intro u
  rw [mem_dedupSort, List.mem_map]
  constructor
  · rintro ⟨⟨u', c⟩, hm, rfl⟩
    obtain ⟨i, j, _, _, huj, _⟩ := mem_rsOf.mp hm
    exact List.mem_of_getElem? huj
  · intro hu
    obtain ⟨k, hk, rfl⟩ := List.mem_iff_getElem.mp hu
    exact ⟨(ub[k], _), mem_rsOf.mpr ⟨k, 0, hk, hpos, by simp [hk], rfl⟩, rfl⟩

/-- **unslice_restitch, one column** (`n ≤ 1`, the stitched frame is a Series): `df_unslice` returns for bound `k`
    exactly the rows of series `k` inside `(ub[k-1], ub[k]]`, and stitching those again reproduces the frame -/
theorem unslice_restitch_series (dfs : List TS) (ub : List Int) (h : Stitchable dfs ub) (hstrict : ub.Pairwise (· < ·))
    (hnn : ∀ s ∈ dfs, ∀ p ∈ s, p.2.isSome = true) (n : Nat) (hn : n ≤ 1) :
    ∃ F U, stitch dfs Option.none (some ub) (some ['(', ']']) n = .ok (some F) ∧ unslice F ub = .ok U ∧
      U.map (·.1) = ub ∧ stitch (U.map (·.2)) Option.none (some ub) (some ['(', ']']) n = .ok (some F) := by
  obtain ⟨F, hF, _⟩ := stitch_eq dfs ub h (some ['(', ']']) n false true rfl
  have hlen := h.len
  have htwo := h.two
  have hne : ub ≠ [] := by intro h0; simp [h0] at htwo
  have hpl := pieces_length dfs ub n false true h.len hne
  have hfl := framesOf_length dfs n
  -- one column
  have hW : F.width = 1 := by
    have hF2 := hF
    rw [stitch_ub_eq dfs ub (some ['(', ']']) n false true rfl h.inc h.len hne, assemble_many _ (by rw [hpl]; exact h.two)] at hF2
    cases hF2
    show (pieces dfs ub n false true).foldl (fun m f => max m f.width) 0 = 1
    have hw : ∀ i (hi : i < (pieces dfs ub n false true).length), ((pieces dfs ub n false true)[i]).width = 1 := by
      intro i hi
      rw [pieces_getElem dfs ub n false true h.len i hi (by omega) (by omega),
        framesOf_getElem_series dfs n hn i (by omega) (by omega)]
    apply foldl_max_width _ _ _ 0 (by omega)
    · right; exact ⟨(pieces dfs ub n false true)[0]'(by omega), List.getElem_mem _, hw 0 (by omega)⟩
    · intro f hf
      obtain ⟨i, hi, rfl⟩ := List.mem_iff_getElem.mp hf
      rw [hw i hi]; omega
  have hkeys := unslice_keys F ub hstrict (by omega)
  -- what is filed under bound `k`
  have hentry : ∀ k (hk : k < ub.length), nona (((rsOf F ub).filter (·.1 == ub[k])).flatMap (·.2)) =
      (dfs[k]'(by omega)).filter fun p => inWindow false true (loBound ub k) (.date ub[k]) p.1 := by
    intro k hk
    rw [rsOf_series F ub hW, entries_of_map _ _ ub[k] k (List.mem_range.mpr hk) List.nodup_range]
    · simp only [List.getD_eq_getElem?_getD, List.getElem?_eq_getElem hk, Option.getD_some]
      rw [slices_eq dfs ub h n F hF k hk, pieces_getElem dfs ub n false true h.len k (by omega) hk (by omega),
        framesOf_getElem_series dfs n hn k (by omega) (by omega)]
      rw [column_ofTS (dfs[k]'(by omega)) (fun t => inWindow false true (loBound ub k) (.date ub[k]) t) F.width]
      apply nona_of_nanfree
      intro p hp
      exact hnn _ (List.getElem_mem _) p (List.mem_filter.mp hp).1
    · intro i hi
      have hi' : i < ub.length := List.mem_range.mp hi
      simp only [List.getD_eq_getElem?_getD, List.getElem?_eq_getElem hi', Option.getD_some]
      constructor
      · intro e; exact getElem_inj_of_sorted hstrict hi' hk e
      · rintro rfl; rfl
  let Us : List TS := ub.map fun u => nona (((rsOf F ub).filter (·.1 == u)).flatMap (·.2))
  refine ⟨F, ub.map fun u => (u, nona (((rsOf F ub).filter (·.1 == u)).flatMap (·.2))), hF, ?_, ?_, ?_⟩
  · rw [unslice_eq _ _ h.inc, hkeys]
  · simp [List.map_map, Function.comp_def]
  · have hmap : (ub.map fun u => (u, nona (((rsOf F ub).filter (·.1 == u)).flatMap (·.2)))).map (·.2) = Us := by
      simp [Us, List.map_map, Function.comp_def]
    rw [hmap]
    have hUlen : Us.length = ub.length := by simp [Us]
    have hpl' := pieces_length Us ub n false true hUlen hne
    have hfl' := framesOf_length Us n
    -- the pieces cut from the recovered series are the pieces cut from the original ones
    have hpieces : pieces Us ub n false true = pieces dfs ub n false true := by
      apply List.ext_getElem
      · rw [hpl, hpl']
      · intro k h1 h2
        have hk : k < ub.length := by omega
        rw [pieces_getElem Us ub n false true hUlen k h1 hk (by omega),
          pieces_getElem dfs ub n false true h.len k h2 hk (by omega),
          framesOf_getElem_series Us n hn k (by omega) (by omega),
          framesOf_getElem_series dfs n hn k (by omega) (by omega)]
        have hUk : Us[k]'(by omega) = (dfs[k]'(by omega)).filter fun p => inWindow false true (loBound ub k) (.date ub[k]) p.1 := by
          simp only [Us, List.getElem_map]; exact hentry k hk
        simp only [hUk]
        congr 1
        exact ofTS_filter_filter (dfs[k]'(by omega)) (fun t => inWindow false true (loBound ub k) (.date ub[k]) t)
    rw [stitch_ub_eq Us ub (some ['(', ']']) n false true rfl h.inc hUlen hne, hpieces,
      ← stitch_ub_eq dfs ub (some ['(', ']']) n false true rfl h.inc h.len hne, hF]

/-- **unslice_restitch**: for every `n`, NaN-free proper series stitched at strictly increasing bounds are recovered by
    `df_unslice` - one series per bound, in bound order - such that stitching those again reproduces the frame.
    (Series holding NaN values are excluded on purpose: `df_unslice` drops NaN rows, so an all-NaN row cannot
    come back; see docs/notes/C13.md.) -/
theorem unslice_restitch (dfs : List TS) (ub : List Int) (h : Stitchable dfs ub) (hstrict : ub.Pairwise (· < ·))
    (hs : ∀ s ∈ dfs, s.Sorted) (hnn : ∀ s ∈ dfs, ∀ p ∈ s, p.2.isSome = true) (n : Nat) :
    ∃ F U, stitch dfs Option.none (some ub) (some ['(', ']']) n = .ok (some F) ∧ unslice F ub = .ok U ∧
      U.map (·.1) = ub ∧ stitch (U.map (·.2)) Option.none (some ub) (some ['(', ']']) n = .ok (some F) := by
  by_cases hn : 1 < n
  · exact unslice_restitch_cols dfs ub h hstrict hs hnn n hn
  · exact unslice_restitch_series dfs ub h hstrict hnn n (by omega)

theorem unslice_restitch_nan_cols (dfs : List TS) (ub : List Int) (h : Stitchable dfs ub) (hstrict : ub.Pairwise (· < ·))
    (hs : ∀ s ∈ dfs, s.Sorted) (n : Nat) (hn : 1 < n) :
    ∃ F U, stitch dfs Option.none (some ub) (some ['(', ']']) n = .ok (some F) ∧ unslice F ub = .ok U ∧
      U.map (·.1) = ub ∧ stitch (U.map (·.2)) Option.none (some ub) (some ['(', ']']) n =
        stitch (dfs.map nona) Option.none (some ub) (some ['(', ']']) n := by
  obtain ⟨F, hF, _⟩ := stitch_eq dfs ub h (some ['(', ']']) n false true rfl
  have hlen := h.len
  have htwo := h.two
  have hNlen : (dfs.map nona).length = dfs.length := List.length_map _
  have hN : Stitchable (dfs.map nona) ub := ⟨by rw [hNlen]; exact h.len, h.two, h.inc⟩
  obtain ⟨FN, hFN, _⟩ := stitch_eq (dfs.map nona) ub hN (some ['(', ']']) n false true rfl
  have hWN := stitch_width (dfs.map nona) ub hN _ n hn false true rfl FN hFN
  have hW := stitch_width dfs ub h _ n hn false true rfl F hF
  -- the keys `df_unslice` groups by are the bounds, in order
  have hkeys : ((rsOf F ub).map (·.1)).eraseDups.mergeSort (fun a b => decide (a ≤ b)) = ub := by
    apply Bitemp.sortedLt_ext (dedupSort_sorted _) hstrict
    intro u
    rw [mem_dedupSort, List.mem_map]
    constructor
    · rintro ⟨⟨u', c⟩, hm, rfl⟩
      obtain ⟨i, j, _, _, huj, _⟩ := mem_rsOf.mp hm
      exact List.mem_of_getElem? huj
    · intro hu
      obtain ⟨k, hk, rfl⟩ := List.mem_iff_getElem.mp hu
      exact ⟨(ub[k], _), mem_rsOf.mpr ⟨k, 0, hk, by omega, by simp [hk], rfl⟩, rfl⟩
  let Us : List TS := ub.map fun u => nona (((rsOf F ub).filter (·.1 == u)).flatMap (·.2))
  refine ⟨F, ub.map fun u => (u, nona (((rsOf F ub).filter (·.1 == u)).flatMap (·.2))), hF, ?_, ?_, ?_⟩
  · rw [unslice_eq _ _ h.inc, hkeys]
  · simp [List.map_map, Function.comp_def]
  · have hmap : (ub.map fun u => (u, nona (((rsOf F ub).filter (·.1 == u)).flatMap (·.2)))).map (·.2) = Us := by
      simp [Us, List.map_map, Function.comp_def]
    rw [hmap]
    have hUlen : Us.length = ub.length := by simp [Us]
    have hU : Stitchable Us ub := ⟨hUlen, h.two, h.inc⟩
    obtain ⟨F', hF', _⟩ := stitch_eq Us ub hU (some ['(', ']']) n false true rfl
    have hW' := stitch_width Us ub hU _ n hn false true rfl F' hF'
    rw [hF', hFN]
    -- the recovered series agree with the original ones wherever the stitch looks at them
    have hUk : ∀ k (hk : k < ub.length), Us[k]'(by omega) = nona (((rsOf F ub).filter (·.1 == ub[k])).flatMap (·.2)) := by
      intro k hk; simp [Us]
    have hUnn : ∀ k (hk : k < ub.length), ∀ p ∈ Us[k]'(by omega), p.2.isSome = true := by
      intro k hk p hp
      rw [hUk k hk] at hp
      exact (List.mem_filter.mp hp).2
    have hagree : ∀ i (hi : i < ub.length) (t : Int), inWindow false true (loBound ub i) (.date ub[i]) t = true →
        ∀ j, j < n → ∀ (hij : i + j < ub.length),
          (Us[i + j]'(by omega)).get t = ((dfs.map nona)[i + j]'(by omega)).get t ∧
          (t ∈ (Us[i + j]'(by omega)).index ↔ t ∈ ((dfs.map nona)[i + j]'(by omega)).index) := by
      intro i hi t hw j hj hij
      have hNk : (dfs.map nona)[i + j]'(by omega) = nona (dfs[i + j]'(by omega)) := by simp
      have hsN : (nona (dfs[i + j]'(by omega))).Sorted := by
        have := hs _ (List.getElem_mem (by omega : i + j < dfs.length))
        unfold TS.Sorted TS.index at this ⊢
        exact this.sublist (List.Sublist.map _ List.filter_sublist)
      rw [hNk]
      apply get_agree t (hUnn _ hij) (fun p hp => (List.mem_filter.mp hp).2) hsN
      intro x
      rw [hUk _ hij, unslice_series dfs ub h hstrict hs n hn F hF (i + j) hij t x]
      simp only [List.mem_filter, Option.isSome_some, and_true]
      constructor
      · exact fun hh => hh.1
      · intro hh; exact ⟨hh, i, hi, by omega, by omega, hw⟩
    have hcols : ∀ i (hi : i < ub.length) (t : Int), inWindow false true (loBound ub i) (.date ub[i]) t = true →
        ((∃ s ∈ (Us.drop i).take n, t ∈ s.index) ↔ (∃ s ∈ ((dfs.map nona).drop i).take n, t ∈ s.index)) ∧
        ((Us.drop i).take n).map (·.get t) = (((dfs.map nona).drop i).take n).map (·.get t) := by
      intro i hi t hw
      constructor
      · constructor
        · rintro ⟨s, hsm, hts⟩
          obtain ⟨j, hj, hsj⟩ := mem_take_drop.mp hsm
          have hij : i + j < ub.length := by rw [← hUlen]; exact (List.getElem?_eq_some_iff.mp hsj).1
          have e : Us[i + j]'(by omega) = s := (List.getElem?_eq_some_iff.mp hsj).2
          refine ⟨(dfs.map nona)[i + j]'(by omega), mem_take_drop.mpr ⟨j, hj, List.getElem?_eq_getElem _⟩, ?_⟩
          exact ((hagree i hi t hw j hj hij).2).mp (by rw [e]; exact hts)
        · rintro ⟨s, hsm, hts⟩
          obtain ⟨j, hj, hsj⟩ := mem_take_drop.mp hsm
          have hij : i + j < ub.length := by rw [← hlen, ← hNlen]; exact (List.getElem?_eq_some_iff.mp hsj).1
          have e : (dfs.map nona)[i + j]'(by omega) = s := (List.getElem?_eq_some_iff.mp hsj).2
          refine ⟨Us[i + j]'(by omega), mem_take_drop.mpr ⟨j, hj, List.getElem?_eq_getElem _⟩, ?_⟩
          exact ((hagree i hi t hw j hj hij).2).mpr (by rw [e]; exact hts)
      · apply List.ext_getElem
        · simp only [List.length_map, List.length_take, List.length_drop]; omega
        · intro j h1 h2
          simp only [List.length_map, List.length_take, List.length_drop] at h1 h2
          simp only [List.getElem_map, List.getElem_take, List.getElem_drop]
          have hh := (hagree i hi t hw j (by omega) (by omega)).1
          simpa using hh
    -- both frames are strictly increasing in time and hold the same rows
    have hsort : FN.rows.Pairwise (fun a b => a.1 < b.1) :=
      stitch_once_of (dfs.map nona) ub hN _ n false true rfl (by simp) (framesOf_rows_sorted_cols (dfs.map nona) n hn) FN hFN
    have hsort' : F'.rows.Pairwise (fun a b => a.1 < b.1) :=
      stitch_once_of Us ub hU _ n false true rfl (by simp) (framesOf_rows_sorted_cols Us n hn) F' hF'
    have hwidth : F'.width = FN.width := by rw [hWN, hW']
    have hrows : F'.rows = FN.rows := by
      apply rows_ext hsort' hsort
      rintro ⟨t, vs⟩
      rw [stitch_source Us ub hU _ n hn false true rfl F' hF' t vs,
        stitch_source (dfs.map nona) ub hN _ n hn false true rfl FN hFN t vs]
      constructor
      · rintro ⟨i, hi, hex, hlo, hhi, hvs⟩
        have hw : inWindow false true (loBound ub i) (.date ub[i]) t = true := by simp [inWindow, hlo, hhi]
        obtain ⟨h1, h2⟩ := hcols i hi t hw
        exact ⟨i, hi, h1.mp hex, hlo, hhi, by rw [hvs, h2, hwidth]⟩
      · rintro ⟨i, hi, hex, hlo, hhi, hvs⟩
        have hw : inWindow false true (loBound ub i) (.date ub[i]) t = true := by simp [inWindow, hlo, hhi]
        obtain ⟨h1, h2⟩ := hcols i hi t hw
        exact ⟨i, hi, h1.mpr hex, hlo, hhi, by rw [hvs, h2, hwidth]⟩
    cases FN; cases F'
    simp only at hwidth hrows
    rw [hwidth, hrows]


theorem unslice_restitch_nan_series (dfs : List TS) (ub : List Int) (h : Stitchable dfs ub) (hstrict : ub.Pairwise (· < ·))
    (n : Nat) (hn : n ≤ 1) :
    ∃ F U, stitch dfs Option.none (some ub) (some ['(', ']']) n = .ok (some F) ∧ unslice F ub = .ok U ∧
      U.map (·.1) = ub ∧ stitch (U.map (·.2)) Option.none (some ub) (some ['(', ']']) n =
        stitch (dfs.map nona) Option.none (some ub) (some ['(', ']']) n := by
  obtain ⟨F, hF, _⟩ := stitch_eq dfs ub h (some ['(', ']']) n false true rfl
  have hlen := h.len
  have htwo := h.two
  have hNlen : (dfs.map nona).length = dfs.length := List.length_map _
  have hne : ub ≠ [] := by intro h0; simp [h0] at htwo
  have hpl := pieces_length dfs ub n false true h.len hne
  have hfl := framesOf_length dfs n
  -- one column
  have hW : F.width = 1 := by
    have hF2 := hF
    rw [stitch_ub_eq dfs ub (some ['(', ']']) n false true rfl h.inc h.len hne, assemble_many _ (by rw [hpl]; exact h.two)] at hF2
    cases hF2
    show (pieces dfs ub n false true).foldl (fun m f => max m f.width) 0 = 1
    have hw : ∀ i (hi : i < (pieces dfs ub n false true).length), ((pieces dfs ub n false true)[i]).width = 1 := by
      intro i hi
      rw [pieces_getElem dfs ub n false true h.len i hi (by omega) (by omega),
        framesOf_getElem_series dfs n hn i (by omega) (by omega)]
    apply foldl_max_width _ _ _ 0 (by omega)
    · right; exact ⟨(pieces dfs ub n false true)[0]'(by omega), List.getElem_mem _, hw 0 (by omega)⟩
    · intro f hf
      obtain ⟨i, hi, rfl⟩ := List.mem_iff_getElem.mp hf
      rw [hw i hi]; omega
  have hkeys := unslice_keys F ub hstrict (by omega)
  -- what is filed under bound `k`
  have hentry : ∀ k (hk : k < ub.length), nona (((rsOf F ub).filter (·.1 == ub[k])).flatMap (·.2)) =
      (nona (dfs[k]'(by omega))).filter fun p => inWindow false true (loBound ub k) (.date ub[k]) p.1 := by
    intro k hk
    rw [rsOf_series F ub hW, entries_of_map _ _ ub[k] k (List.mem_range.mpr hk) List.nodup_range]
    · simp only [List.getD_eq_getElem?_getD, List.getElem?_eq_getElem hk, Option.getD_some]
      rw [slices_eq dfs ub h n F hF k hk, pieces_getElem dfs ub n false true h.len k (by omega) hk (by omega),
        framesOf_getElem_series dfs n hn k (by omega) (by omega)]
      rw [column_ofTS (dfs[k]'(by omega)) (fun t => inWindow false true (loBound ub k) (.date ub[k]) t) F.width]
      simp only [nona, List.filter_filter]
      congr 1; funext p; exact Bool.and_comm _ _
    · intro i hi
      have hi' : i < ub.length := List.mem_range.mp hi
      simp only [List.getD_eq_getElem?_getD, List.getElem?_eq_getElem hi', Option.getD_some]
      constructor
      · intro e; exact getElem_inj_of_sorted hstrict hi' hk e
      · rintro rfl; rfl
  let Us : List TS := ub.map fun u => nona (((rsOf F ub).filter (·.1 == u)).flatMap (·.2))
  refine ⟨F, ub.map fun u => (u, nona (((rsOf F ub).filter (·.1 == u)).flatMap (·.2))), hF, ?_, ?_, ?_⟩
  · rw [unslice_eq _ _ h.inc, hkeys]
  · simp [List.map_map, Function.comp_def]
  · have hmap : (ub.map fun u => (u, nona (((rsOf F ub).filter (·.1 == u)).flatMap (·.2)))).map (·.2) = Us := by
      simp [Us, List.map_map, Function.comp_def]
    rw [hmap]
    have hUlen : Us.length = ub.length := by simp [Us]
    have hpl' := pieces_length Us ub n false true hUlen hne
    have hfl' := framesOf_length Us n
    -- the pieces cut from the recovered series are the pieces cut from the original ones
    have hplN := pieces_length (dfs.map nona) ub n false true (by rw [hNlen]; exact h.len) hne
    have hflN := framesOf_length (dfs.map nona) n
    have hpieces : pieces Us ub n false true = pieces (dfs.map nona) ub n false true := by
      apply List.ext_getElem
      · rw [hplN, hpl']
      · intro k h1 h2
        have hk : k < ub.length := by omega
        rw [pieces_getElem Us ub n false true hUlen k h1 hk (by omega),
          pieces_getElem (dfs.map nona) ub n false true (by rw [hNlen]; exact h.len) k h2 hk (by omega),
          framesOf_getElem_series Us n hn k (by omega) (by omega),
          framesOf_getElem_series (dfs.map nona) n hn k (by omega) (by omega)]
        have hUk : Us[k]'(by omega) = (nona (dfs[k]'(by omega))).filter fun p => inWindow false true (loBound ub k) (.date ub[k]) p.1 := by
          simp only [Us, List.getElem_map]; exact hentry k hk
        simp only [hUk, List.getElem_map]
        congr 1
        exact ofTS_filter_filter (nona (dfs[k]'(by omega))) (fun t => inWindow false true (loBound ub k) (.date ub[k]) t)
    rw [stitch_ub_eq Us ub (some ['(', ']']) n false true rfl h.inc hUlen hne, hpieces,
      ← stitch_ub_eq (dfs.map nona) ub (some ['(', ']']) n false true rfl h.inc (by rw [hNlen]; exact h.len) hne]


/-- **unslice_restitch_nan** - the round trip WITHOUT the NaN-free hypothesis: whatever values the series hold (NaN
    included), `df_unslice` returns one series per bound, in bound order, and stitching those again gives exactly the
    frame stitched from the series with their NaN rows dropped (`dfs.map nona`).  For NaN-free series that is the frame
    itself (`unslice_restitch`, `nona_of_nanfree`); with NaN values the two differ precisely in the rows that are NaN in
    every column (known finding C13-N1, witness below). -/
theorem unslice_restitch_nan (dfs : List TS) (ub : List Int) (h : Stitchable dfs ub) (hstrict : ub.Pairwise (· < ·))
    (hs : ∀ s ∈ dfs, s.Sorted) (n : Nat) :
    ∃ F U, stitch dfs Option.none (some ub) (some ['(', ']']) n = .ok (some F) ∧ unslice F ub = .ok U ∧
      U.map (·.1) = ub ∧ stitch (U.map (·.2)) Option.none (some ub) (some ['(', ']']) n =
        stitch (dfs.map nona) Option.none (some ub) (some ['(', ']']) n := by
  by_cases hn : 1 < n
  · exact unslice_restitch_nan_cols dfs ub h hstrict hs n hn
  · exact unslice_restitch_nan_series dfs ub h hstrict n (by omega)

/-- the NaN-free round trip is the special case -/
theorem unslice_restitch_of_nan (dfs : List TS) (ub : List Int) (h : Stitchable dfs ub) (hstrict : ub.Pairwise (· < ·))
    (hs : ∀ s ∈ dfs, s.Sorted) (hnn : ∀ s ∈ dfs, ∀ p ∈ s, p.2.isSome = true) (n : Nat) :
    ∃ F U, stitch dfs Option.none (some ub) (some ['(', ']']) n = .ok (some F) ∧ unslice F ub = .ok U ∧
      U.map (·.1) = ub ∧ stitch (U.map (·.2)) Option.none (some ub) (some ['(', ']']) n = .ok (some F) := by
  obtain ⟨F, U, h1, h2, h3, h4⟩ := unslice_restitch_nan dfs ub h hstrict hs n
  have hid : dfs.map nona = dfs := by
    conv => rhs; rw [← List.map_id dfs]
    apply List.map_congr_left
    intro s hsm
    exact nona_of_nanfree s (hnn s hsm)
  rw [hid, h1] at h4
  exact ⟨F, U, h1, h2, h3, h4⟩

/-- witness for C13-N1 (series 0 holds NaN at time 1, no other column covers it): the stitched frame has the row
    `1 ↦ NaN`, the re-stitched frame lacks it - the round trip clause fails on series with NaN values -/
def nanSeries : List TS := [[(0, some 1), (1, none), (2, some 3)], [(3, some 4), (4, some 5)]]

example : Stitchable demoSeriesT demoBoundsT ∧ demoBoundsT.Pairwise (· < ·) ∧ (∀ s ∈ demoSeriesT, s.Sorted) ∧
    (∀ s ∈ demoSeriesT, ∀ p ∈ s, p.2.isSome = true) := ⟨⟨rfl, by decide, rfl⟩, by decide, by decide, by decide⟩

/-! evaluation tests of the full round trip on the model (`List.mergeSort` does not reduce in the kernel) -/

def demoSeries : List TS := [[(0, some 1), (2, some 2), (5, some 3)], [], [(1, some 7), (2, some 8), (4, some 9), (9, some 6)]]
def demoBounds : List Int := [2, 5, 8]
def okEq {α} [BEq α] (r : Res α) (x : α) : Bool := match r with | .ok y => y == x | .error _ => false

#guard okEq (stitch demoSeries Option.none (some demoBounds) (some ['(', ']']) 3)
  (some ⟨3, [(0, [some 1, none, none]), (1, [none, none, some 7]), (2, [some 2, none, some 8]), (4, [none, some 9, none])]⟩)
#guard okEq (do
    let f ← stitch demoSeries Option.none (some demoBounds) (some ['(', ']']) 3
    match f with
    | some f => do
        let u ← unslice f demoBounds
        let g ← stitch (u.map (·.2)) Option.none (some demoBounds) (some ['(', ']']) 3
        pure (g == some f && u.map (·.1) == demoBounds)
    | Option.none => pure false : Res Bool) true
#guard okEq (do
    let f ← stitch demoSeries Option.none (some demoBounds) (some ['(', ']']) 1
    match f with
    | some f => do
        let u ← unslice f demoBounds
        let g ← stitch (u.map (·.2)) Option.none (some demoBounds) (some ['(', ']']) 1
        pure (g == some f)
    | Option.none => pure false : Res Bool) true

#guard okEq (stitch nanSeries Option.none (some [2, 5]) (some ['(', ']']) 1)
  (some ⟨1, [(0, [some 1]), (1, [none]), (2, [some 3]), (3, [some 4]), (4, [some 5])]⟩)
#guard okEq (do
    let f ← stitch nanSeries Option.none (some [2, 5]) (some ['(', ']']) 1
    match f with
    | some f => do
        let u ← unslice f [2, 5]
        stitch (u.map (·.2)) Option.none (some [2, 5]) (some ['(', ']']) 1
    | Option.none => pure Option.none : Res (Option Frame))
  (some ⟨1, [(0, [some 1]), (2, [some 3]), (3, [some 4]), (4, [some 5])]⟩)

/-! ### at most once / decreasing lists for the other spellings of the bounds -/

/-- **stitch_once, every spelling**: after `normalise`, if the intervals are chained - the upper bound of piece `i` is at
    most the lower bound of every later piece `j` - and the brackets are not closed on both sides, the stitched index is
    strictly increasing: every timestamp is covered at most once, in order. -/
theorem stitch_once_general (dfs : List TS) (lb ub : Option (List Int)) (oc : Option (List Char)) (n : Nat)
    (l u : Bool) (hb : brackets oc = .ok (l, u)) (hlu : ¬ (l = true ∧ u = true)) (dfs' : List TS) (lbs ubs : List (Option Int))
    (hnorm : normalise dfs lb ub = .ok (dfs', lbs, ubs)) (h1 : lbs.length = dfs'.length) (h2 : ubs.length = dfs'.length)
    (htwo : 2 ≤ dfs'.length) (hs : ∀ s ∈ dfs', s.Sorted)
    (hchain : ∀ i j (hi : i < ubs.length) (hj : j < lbs.length), i < j → ∃ a b, ubs[i] = some a ∧ lbs[j] = some b ∧ a ≤ b)
    (F : Frame) (hF : stitch dfs lb ub oc n = .ok (some F)) :
    F.rows.Pairwise (fun a b => a.1 < b.1) := by
  have hpl := piecesG_length dfs' lbs ubs n l u h1 h2
  have hfl := framesOf_length dfs' n
  rw [stitch_general dfs lb ub oc n l u hb dfs' lbs ubs hnorm h1 h2, assemble_many _ (by omega)] at hF
  cases hF
  show List.Pairwise _ (List.flatMap _ _)
  rw [List.pairwise_flatMap]
  constructor
  · intro f hf
    obtain ⟨i, hi, rfl⟩ := List.mem_iff_getElem.mp hf
    rw [piecesG_getElem dfs' lbs ubs n l u i hi (by omega) (by omega) (by omega)]
    simp only [List.pairwise_map]
    exact (framesOf_rows_sorted dfs' n hs _ (List.getElem_mem _)).sublist List.filter_sublist
  · rw [List.pairwise_iff_getElem]
    intro i j hi hj hij x hx y hy
    rw [piecesG_getElem dfs' lbs ubs n l u i hi (by omega) (by omega) (by omega)] at hx
    rw [piecesG_getElem dfs' lbs ubs n l u j hj (by omega) (by omega) (by omega)] at hy
    simp only [List.mem_map, List.mem_filter, inWindow, Bool.and_eq_true] at hx hy
    obtain ⟨rx, ⟨_, _, hxu⟩, rfl⟩ := hx
    obtain ⟨ry, ⟨_, hyl, _⟩, rfl⟩ := hy
    obtain ⟨a, b, ha, hb', hab⟩ := hchain i j (by omega) (by omega) hij
    rw [ha] at hxu; rw [hb'] at hyl
    have hxu' := (ubOk_iff u (.date a) rx.1).mp hxu
    have hyl' := (lbOk_iff l (.date b) ry.1).mp hyl
    show rx.1 < ry.1
    cases l <;> cases u <;> simp at hxu' hyl' hlu <;> omega

/-- **stitch_once, lower bounds only**: the intervals `(lb[i], lb[i+1]]` (the last one unbounded above) of a
    non-decreasing list cover each timestamp at most once -/
theorem stitch_once_lb (dfs : List TS) (lb : List Int) (hlen : dfs.length = lb.length) (htwo : 2 ≤ lb.length)
    (hinc : nonDecreasing lb = true) (hs : ∀ s ∈ dfs, s.Sorted) (oc : Option (List Char)) (n : Nat) (l u : Bool)
    (hb : brackets oc = .ok (l, u)) (hlu : ¬ (l = true ∧ u = true)) (F : Frame)
    (hF : stitch dfs (some lb) Option.none oc n = .ok (some F)) : F.rows.Pairwise (fun a b => a.1 < b.1) := by
  have hlb := nonDecreasing_pairwise lb hinc
  refine stitch_once_general dfs (some lb) Option.none oc n l u hb hlu dfs (lb.map some) ((lb.drop 1).map some ++ [Option.none])
    (normalise_lb_only dfs lb hinc) (by simp [hlen]) (by simp [hlen]; omega) (by omega) hs ?_ F hF
  intro i j hi hj hij
  simp only [List.length_map] at hj
  have hi1 : i + 1 < lb.length := by omega
  refine ⟨lb[i + 1], lb[j], ?_, by simp, ?_⟩
  · rw [List.getElem_append_left (by simp; omega)]; simp
  · by_cases he : i + 1 = j
    · subst he; exact Int.le_refl _
    · exact (List.pairwise_iff_getElem.mp hlb) (i + 1) j hi1 hj (by omega)

/-- **stitch_once, both lists**: the intervals `(lb[i], ub[i]]` cover each timestamp at most once PROVIDED they are
    chained, `ub[i] ≤ lb[i+1]` (lower bounds non-decreasing); without that they may overlap (`stitch_both_overlap`) -/
theorem stitch_once_both (dfs : List TS) (lb ub : List Int) (hlen : dfs.length = ub.length) (hlen' : lb.length = ub.length)
    (htwo : 2 ≤ ub.length) (hil : nonDecreasing lb = true) (hiu : nonDecreasing ub = true)
    (hchain : ∀ i (h1 : i < ub.length) (h2 : i + 1 < lb.length), ub[i] ≤ lb[i + 1])
    (hs : ∀ s ∈ dfs, s.Sorted) (oc : Option (List Char)) (n : Nat) (l u : Bool)
    (hb : brackets oc = .ok (l, u)) (hlu : ¬ (l = true ∧ u = true)) (F : Frame)
    (hF : stitch dfs (some lb) (some ub) oc n = .ok (some F)) : F.rows.Pairwise (fun a b => a.1 < b.1) := by
  have hlb := nonDecreasing_pairwise lb hil
  refine stitch_once_general dfs (some lb) (some ub) oc n l u hb hlu dfs (lb.map some) (ub.map some)
    (normalise_both_lists dfs lb ub hil hiu) (by simp [hlen, hlen']) (by simp [hlen]) (by omega) hs ?_ F hF
  intro i j hi hj hij
  simp only [List.length_map] at hi hj
  refine ⟨ub[i], lb[j], by simp, by simp, ?_⟩
  have h1 := hchain i hi (by omega)
  by_cases he : i + 1 = j
  · subst he; exact h1
  · have := (List.pairwise_iff_getElem.mp hlb) (i + 1) j (by omega) hj (by omega)
    omega

/-- ... and the chaining hypothesis is needed: with both lists the intervals `(0, 5]` and `(2, 9]` overlap, the
    timestamp 3 is taken from both series -/
theorem stitch_both_overlap :
    stitch [[(3, some 1)], [(3, some 2)]] (some [0, 2]) (some [5, 9]) (some ['(', ']']) 1 =
      .ok (some ⟨1, [(3, [some 1]), (3, [some 2])]⟩) := by rfl

/-- decreasing lists, the other spellings: reversed together with the series they give the same frame -/
theorem stitch_decreasing_lb (dfs : List TS) (lb : List Int) (oc : Option (List Char)) (n : Nat)
    (h1 : nonDecreasing lb = false) (h2 : nonDecreasing lb.reverse = true) :
    stitch dfs (some lb) Option.none oc n = stitch dfs.reverse (some lb.reverse) Option.none oc n := by
  simp [stitch, normalise, h1, h2]

theorem stitch_decreasing_both (dfs : List TS) (lb ub : List Int) (oc : Option (List Char)) (n : Nat)
    (h1 : nonDecreasing lb = false) (h2 : nonDecreasing lb.reverse = true)
    (h3 : nonDecreasing ub = false) (h4 : nonDecreasing ub.reverse = true) :
    stitch dfs (some lb) (some ub) oc n = stitch dfs.reverse (some lb.reverse) (some ub.reverse) oc n := by
  simp [stitch, normalise, h1, h2, h3, h4]

theorem tod_range (t : Int) : 0 ≤ tod t ∧ tod t < DAY := ⟨tod_nonneg t, tod_lt t⟩

/-! ### the NaN round trip, exactly -/

/-- **stitch_nona**: stitching the series with their NaN rows dropped gives the stitched frame minus the rows that are NaN
    in every column - same width, same order; every spelling of the bound lists, every `n`, parsable brackets -/
theorem stitch_nona (dfs : List TS) (hs : ∀ s ∈ dfs, s.Sorted) (lb ub : Option (List Int)) (oc : Option (List Char))
    (n : Nat) (l u : Bool) (hb : brackets oc = .ok (l, u)) :
    stitch (dfs.map nona) lb ub oc n = (stitch dfs lb ub oc n).map (Option.map Frame.dropNaRows) :=
  stitch_nona_eq dfs hs lb ub oc n l u hb

/-- **unslice_restitch_exact** - the round trip for ANY values: `df_unslice` returns one series per bound, in bound order,
    and stitching those again reproduces the frame up to its all-NaN rows: same width, the rows that hold a value in
    some column, in the same order (`Frame.dropNaRows F = ⟨F.width, F.rows.filter live⟩`). -/
theorem unslice_restitch_exact (dfs : List TS) (ub : List Int) (h : Stitchable dfs ub) (hstrict : ub.Pairwise (· < ·))
    (hs : ∀ s ∈ dfs, s.Sorted) (n : Nat) :
    ∃ F U, stitch dfs Option.none (some ub) (some ['(', ']']) n = .ok (some F) ∧ unslice F ub = .ok U ∧
      U.map (·.1) = ub ∧
      stitch (U.map (·.2)) Option.none (some ub) (some ['(', ']']) n = .ok (some F.dropNaRows) := by
  obtain ⟨F, U, h1, h2, h3, h4⟩ := unslice_restitch_nan dfs ub h hstrict hs n
  refine ⟨F, U, h1, h2, h3, ?_⟩
  rw [h4, stitch_nona dfs hs _ _ _ n false true rfl, h1]
  rfl

/-- hence the round trip reproduces the frame EXACTLY when no row of it is NaN in every column (C13-N1 is the other case) -/
theorem unslice_restitch_iff (dfs : List TS) (ub : List Int) (h : Stitchable dfs ub) (hstrict : ub.Pairwise (· < ·))
    (hs : ∀ s ∈ dfs, s.Sorted) (n : Nat) :
    ∃ F U, stitch dfs Option.none (some ub) (some ['(', ']']) n = .ok (some F) ∧ unslice F ub = .ok U ∧
      (stitch (U.map (·.2)) Option.none (some ub) (some ['(', ']']) n = .ok (some F) ↔ ∀ r ∈ F.rows, live r = true) := by
  obtain ⟨F, U, h1, h2, _, h4⟩ := unslice_restitch_exact dfs ub h hstrict hs n
  refine ⟨F, U, h1, h2, ?_⟩
  rw [h4]
  cases F with
  | mk w rows =>
    simp only [Frame.dropNaRows, Except.ok.injEq, Option.some.injEq, Frame.mk.injEq, true_and, List.filter_eq_self]

/-- a row survives iff some column holds a value -/
theorem live_iff (r : Int × List (Option Int)) : live r = true ↔ ∃ v ∈ r.2, v ≠ Option.none := by
  simp only [live, List.any_eq_true, Option.isSome_iff_ne_none]

example : (⟨1, [(0, [some 1]), (1, [none]), (2, [some 3])]⟩ : Frame).dropNaRows = ⟨1, [(0, [some 1]), (2, [some 3])]⟩ := rfl

/-! ### df_unslice under a DECREASING bound list (the quantifier: "all increasing or decreasing bound lists") -/

/-- **unslice_restitch_decreasing** - the round trip for a strictly decreasing list of upper bounds (series in the matching
    order), ANY values: the stitched frame `F` is the frame of the increasing spelling, `df_unslice(F, ub)` hands back one
    series per bound IN THE ORDER OF THE BOUNDS GIVEN, and `df_slice(list(U.values()), ub = ub, n)` reproduces `F` up to its
    all-NaN rows.  (Repo fix C13-U1: before it `df_unslice` used the decreasing list as it stood - every window but the
    first empty, all rows filed under the first bound; `unsliceInc_decreasing_loses` below is that behaviour.) -/
theorem unslice_restitch_decreasing (dfs : List TS) (ub : List Int) (hlen : dfs.length = ub.length) (htwo : 2 ≤ ub.length)
    (hdec : ub.Pairwise (· > ·)) (hs : ∀ s ∈ dfs, s.Sorted) (n : Nat) :
    ∃ F U, stitch dfs Option.none (some ub) (some ['(', ']']) n = .ok (some F) ∧
      stitch dfs.reverse Option.none (some ub.reverse) (some ['(', ']']) n = .ok (some F) ∧
      unslice F ub = .ok U ∧ U.map (·.1) = ub ∧
      stitch (U.map (·.2)) Option.none (some ub) (some ['(', ']']) n = .ok (some F.dropNaRows) := by
  have hinc : ub.reverse.Pairwise (· < ·) := List.pairwise_reverse.mpr (hdec.imp (fun h => h))
  have hS : Stitchable dfs.reverse ub.reverse :=
    ⟨by simp [hlen], by simpa using htwo, pairwise_nonDecreasing _ (hinc.imp (fun h => Int.le_of_lt h))⟩
  have h1 : nonDecreasing ub = false := decreasing_not_nonDecreasing ub htwo hdec
  obtain ⟨F, U, e1, e2, e3, e4⟩ := unslice_restitch_exact dfs.reverse ub.reverse hS hinc
    (fun s hm => hs s (List.mem_reverse.mp hm)) n
  refine ⟨F, U.reverse, ?_, e1, ?_, ?_, ?_⟩
  · rw [stitch_decreasing dfs ub _ n h1 hS.inc, e1]
  · rw [unslice_dec F ub h1, ← unslice_inc F ub.reverse hS.inc, e2]; rfl
  · rw [List.map_reverse, e3, List.reverse_reverse]
  · rw [stitch_decreasing _ ub _ n h1 hS.inc, List.map_reverse, List.reverse_reverse, e4]

/-- hence, as for increasing bounds, the round trip under a decreasing list reproduces the frame EXACTLY when no row of
    it is NaN in every column -/
theorem unslice_restitch_decreasing_iff (dfs : List TS) (ub : List Int) (hlen : dfs.length = ub.length) (htwo : 2 ≤ ub.length)
    (hdec : ub.Pairwise (· > ·)) (hs : ∀ s ∈ dfs, s.Sorted) (n : Nat) :
    ∃ F U, stitch dfs Option.none (some ub) (some ['(', ']']) n = .ok (some F) ∧ unslice F ub = .ok U ∧
      (stitch (U.map (·.2)) Option.none (some ub) (some ['(', ']']) n = .ok (some F) ↔ ∀ r ∈ F.rows, live r = true) := by
  obtain ⟨F, U, h1, _, h2, _, h4⟩ := unslice_restitch_decreasing dfs ub hlen htwo hdec hs n
  refine ⟨F, U, h1, h2, ?_⟩
  rw [h4]
  cases F with
  | mk w rows =>
    simp only [Frame.dropNaRows, Except.ok.injEq, Option.some.injEq, Frame.mk.injEq, true_and, List.filter_eq_self]

/-- the direction test is what makes it work: the body of `df_unslice` applied to the decreasing list as it stands (the code
    before the fix) files every row under the first bound - witness of finding C13-U1, evaluated below -/
def decSeries : List TS := [[(4, some 9), (6, some 10), (7, some 11)], [(2, some 5), (3, some 6), (4, some 7), (5, some 8)],
  [(0, some 1), (1, some 2), (2, some 3), (3, some 4)]]
def decBounds : List Int := [8, 4, 2]

example : decSeries.length = decBounds.length ∧ 2 ≤ decBounds.length ∧ decBounds.Pairwise (· > ·) ∧ (∀ s ∈ decSeries, s.Sorted) :=
  ⟨rfl, by decide, by decide, by decide⟩

-- df_unslice as repaired: one series per bound in the order given; stitching them again returns the 7-row frame
#guard okEq (do
    let f ← stitch decSeries Option.none (some decBounds) (some ['(', ']']) 2
    match f with
    | some f => do
        let u ← unslice f decBounds
        let g ← stitch (u.map (·.2)) Option.none (some decBounds) (some ['(', ']']) 2
        pure (g == some f && u.map (·.1) == decBounds && f.rows.length == 7)
    | Option.none => pure false : Res Bool) true
-- `unsliceInc_decreasing_loses`: the body on the decreasing list as it stands (before the fix) files all 7 rows under bound 8,
-- nothing under 2, and the re-stitched frame has 4 of the 7 rows (the real code before e2719c8: the same numbers)
#guard okEq (do
    let f ← stitch decSeries Option.none (some decBounds) (some ['(', ']']) 2
    match f with
    | some f => do
        let u ← unsliceInc f decBounds
        let g ← stitch (u.map (·.2)) Option.none (some decBounds) (some ['(', ']']) 2
        pure (u.map (fun p => (p.1, p.2.length)), g.map (·.rows.length))
    | Option.none => pure ([], Option.none) : Res (List (Int × Nat) × Option Nat)) ([(2, 0), (4, 2), (8, 7)], some 4)

/-! ### `zipper`'s broadcasting of length-1 bound lists -/

/-- a lower-bound list of length 1 beside `m ≥ 2` upper bounds is the lower bound of every piece: the same frame as with
    the bound written out `m` times -/
theorem stitch_broadcast_lb (dfs : List TS) (a : Int) (ub : List Int) (hlen : dfs.length = ub.length) (htwo : 2 ≤ ub.length)
    (oc : Option (List Char)) (n : Nat) :
    stitch dfs (some [a]) (some ub) oc n = stitch dfs (some (List.replicate ub.length a)) (some ub) oc n := by
  have hr := nonDecreasing_replicate ub.length a
  have h1 : nonDecreasing [a] = true := rfl
  unfold stitch
  by_cases hu : nonDecreasing ub = true
  · rw [normalise_both_lists dfs [a] ub h1 hu, normalise_both_lists dfs _ ub hr hu]
    simp only [bind, Except.bind]
    have hfl := framesOf_length dfs n
    rw [zipper3_bcast _ _ _ ub.length (by omega) (Or.inl (by omega)) (Or.inr rfl) (Or.inl (by simp)) (Or.inl (by omega)),
      zipper3_eq _ _ _ (by simp; omega) (by simp; omega)]
    rw [bcast_self _ (framesOf dfs n) (by omega), bcast_self _ (ub.map some) (by simp; omega)]
    simp only [List.map_cons, List.map_nil]
    rw [bcast_one _ (by omega), List.map_replicate]
  · rw [normalise_rejects_mixed dfs [a] ub (by simp [h1, hu]), normalise_rejects_mixed dfs _ ub (by simp [hr, hu])]

/-- the same for an upper-bound list of length 1 beside `m ≥ 2` lower bounds -/
theorem stitch_broadcast_ub (dfs : List TS) (lb : List Int) (b : Int) (hlen : dfs.length = lb.length) (htwo : 2 ≤ lb.length)
    (oc : Option (List Char)) (n : Nat) :
    stitch dfs (some lb) (some [b]) oc n = stitch dfs (some lb) (some (List.replicate lb.length b)) oc n := by
  have hr := nonDecreasing_replicate lb.length b
  have h1 : nonDecreasing [b] = true := rfl
  unfold stitch
  by_cases hu : nonDecreasing lb = true
  · rw [normalise_both_lists dfs lb [b] hu h1, normalise_both_lists dfs lb _ hu hr]
    simp only [bind, Except.bind]
    have hfl := framesOf_length dfs n
    rw [zipper3_bcast _ _ _ lb.length (by omega) (Or.inl (by omega)) (Or.inl (by simp)) (Or.inr rfl) (Or.inl (by omega)),
      zipper3_eq _ _ _ (by simp; omega) (by simp; omega)]
    rw [bcast_self _ (framesOf dfs n) (by omega), bcast_self _ (lb.map some) (by simp; omega)]
    simp only [List.map_cons, List.map_nil]
    rw [bcast_one _ (by omega), List.map_replicate]
  · rw [normalise_rejects_mixed dfs lb [b] (by simp [h1, hu]), normalise_rejects_mixed dfs lb _ (by simp [hr, hu])]

/-- so with one lower bound `a` for all pieces (default `n = 1`): a row `(t, v)` of series `i` appears exactly when
    `a </≤ t` and `t </≤ ub[i]` -/
theorem stitch_source_broadcast_lb (dfs : List TS) (a : Int) (ub : List Int) (hlen : dfs.length = ub.length) (htwo : 2 ≤ ub.length)
    (hinc : nonDecreasing ub = true) (oc : Option (List Char)) (n : Nat) (hn : n ≤ 1) (l u : Bool) (hb : brackets oc = .ok (l, u))
    (F : Frame) (hF : stitch dfs (some [a]) (some ub) oc n = .ok (some F)) (t : Int) (vs : List (Option Int)) :
    (t, vs) ∈ F.rows ↔ ∃ i, ∃ hd : i < dfs.length, ∃ hu : i < ub.length, ∃ v,
      (t, v) ∈ dfs[i] ∧ lbOk l (.date a) t = true ∧ ubOk u (.date ub[i]) t = true ∧ vs = padRow F.width [v] := by
  rw [stitch_broadcast_lb dfs a ub hlen htwo] at hF
  rw [stitch_source_general_series dfs _ _ oc n hn l u hb dfs _ _
    (normalise_both_lists dfs _ ub (nonDecreasing_replicate _ a) hinc) (by simp [hlen]) (by simp [hlen]) (by omega) F hF t vs]
  constructor
  · rintro ⟨i, hd, hl, hu, v, h1, h2, h3, h4⟩
    simp only [List.length_map] at hu
    exact ⟨i, hd, hu, v, h1, by simpa [optDate] using h2, by simpa [optDate] using h3, h4⟩
  · rintro ⟨i, hd, hu, v, h1, h2, h3, h4⟩
    exact ⟨i, hd, by simp; omega, by simp; omega, v, h1, by simpa [optDate] using h2, by simpa [optDate] using h3, h4⟩

/-- a list holding ONE series beside `m ≥ 2` upper bounds: the series is cut at every bound (and the pieces concatenated) -
    the same frame as with the series written out `m` times (default `n = 1`) -/
theorem stitch_broadcast_series (s : TS) (ub : List Int) (htwo : 2 ≤ ub.length) (oc : Option (List Char)) (n : Nat) (hn : n ≤ 1) :
    stitch [s] Option.none (some ub) oc n = stitch (List.replicate ub.length s) Option.none (some ub) oc n := by
  have hn' : ¬ n > 1 := by omega
  have key : ∀ v : List Int, v.length = ub.length →
      zipper3 (framesOf [s] n) (Option.none :: v.dropLast.map some) (v.map some) =
        zipper3 (framesOf (List.replicate ub.length s) n) (Option.none :: v.dropLast.map some) (v.map some) := by
    intro v hv
    have hl1 : (Option.none :: v.dropLast.map some).length = ub.length := by simp; omega
    simp only [framesOf, hn', if_false, List.map_cons, List.map_nil, List.map_replicate]
    rw [zipper3_bcast _ _ _ ub.length (by omega) (Or.inr rfl) (Or.inl hl1) (Or.inl (by simp [hv])) (Or.inr (Or.inl hl1)),
      zipper3_eq _ _ _ (by simp; omega) (by simp [hv])]
    rw [bcast_one _ (by omega), bcast_self _ _ (by rw [hl1]; omega), bcast_self _ (v.map some) (by simp; omega)]
  by_cases hu : nonDecreasing ub = true
  · simp only [stitch, normalise, hu, if_true, bind, Except.bind, pure, Except.pure]
    rw [key ub rfl]
  · simp only [stitch, normalise, hu, Bool.false_eq_true, if_false, bind, Except.bind, pure, Except.pure, List.reverse_cons, List.reverse_nil,
      List.nil_append, List.reverse_replicate]
    rw [key ub.reverse (by simp)]

/-- lists of two different lengths, neither of them 1, are rejected (`lens`: `ValueError`) - never zipped short -/
theorem stitch_length_mismatch (dfs : List TS) (ub : List Int) (oc : Option (List Char)) (n : Nat)
    (h1 : dfs.length ≠ 1) (h2 : ub.length ≠ 1) (h3 : dfs.length ≠ ub.length) :
    stitch dfs Option.none (some ub) oc n = .error .value := by
  have key : ∀ (d : List TS) (v : List Int), d.length = dfs.length → v.length = ub.length →
      zipper3 (framesOf d n) (Option.none :: v.dropLast.map some) (v.map some) = .error .value := by
    intro d v hd hv
    unfold zipper3
    rw [lens3_mismatch _ _ _ (Or.inr (Or.inl ⟨by rw [framesOf_length]; omega, by simp; omega, by rw [framesOf_length]; simp; omega⟩))]
    rfl
  by_cases hu : nonDecreasing ub = true
  · simp only [stitch, normalise, hu, if_true, bind, Except.bind, pure, Except.pure]
    rw [key dfs ub rfl rfl]
  · simp only [stitch, normalise, hu, Bool.false_eq_true, if_false, bind, Except.bind, pure, Except.pure]
    rw [key dfs.reverse ub.reverse (by simp) (by simp)]

/-! ### lists holding DataFrames and scalars; bound lists of times of day -/

/-- the window of one piece in plain terms: both bracket tests - or, for two times of day with the start later than the
    end, either of them (the window wraps past midnight, under every bracket pair: repaired code, C13-W2) -/
theorem inWindowW_iff (l u : Bool) (lb ub : Bound) (t : Int) :
    inWindowW l u lb ub t = true ↔
      if wraps lb ub = true then (lbOk l lb t = true ∨ ubOk u ub t = true) else (lbOk l lb t = true ∧ ubOk u ub t = true) := by
  unfold inWindowW
  split <;> simp

theorem wraps_iff (lb ub : Bound) : wraps lb ub = true ↔ ∃ a b, lb = .time a ∧ ub = .time b ∧ b < a := by
  unfold wraps
  split
  · rename_i a b; simp
  · rename_i h
    simp only [Bool.false_eq_true, false_iff]
    rintro ⟨a, b, rfl, rfl, _⟩
    exact h a b rfl rfl

/-- a list of Series with date bounds is the special case: the general model IS the model all theorems on `stitch` speak about -/
theorem stitch_frames_series (dfs : List TS) (lb ub : Option (List Int)) (oc : Option (List Char)) (n : Nat) :
    stitchM (dfs.map Member.series) .date lb ub oc n = stitch dfs lb ub oc n := stitchM_series_eq dfs lb ub oc n

/-- a scalar member is the constant series on the boundaries `sorted(set(lb + ub))` (line 1687) ... -/
theorem scalar_member (v : Option Int) (bs : List Int) :
    Member.toFrame .date bs (.scalar v) = .ok ⟨1, bs.map fun t => (t, [v])⟩ := rfl

/-- ... which are the bounds that occur in either list, each once, in increasing order; beside times of day it is an error -/
theorem boundaries_iff (lbs ubs : List (Option Int)) (t : Int) :
    t ∈ boundariesOf lbs ubs ↔ some t ∈ lbs ∨ some t ∈ ubs := mem_boundariesOf

theorem boundaries_increasing (lbs ubs : List (Option Int)) : (boundariesOf lbs ubs).Pairwise (· < ·) := boundariesOf_sorted lbs ubs

theorem scalar_member_tod (v : Option Int) (bs : List Int) : Member.toFrame .time bs (.scalar v) = .error .other := rfl

/-- **stitch_source_frames** (`n > 1`): for a list of Series / DataFrames / scalars (`fs` = the members as frames, scalars
    made constant series) and bound lists of either kind, a row `(t, vs)` is in the stitched frame exactly when for some piece
    `i` the timestamp passes the window of piece `i` and is a timestamp of one of the members `i .. i+n-1`; the row then
    holds the rows of those members at `t` side by side (NaN for a member without `t`), padded with NaN -/
theorem stitch_source_frames (ms : List Member) (k : BKind) (lb ub : Option (List Int)) (oc : Option (List Char)) (n : Nat)
    (hn : 1 < n) (l u : Bool) (hb : brackets oc = .ok (l, u)) (ms' : List Member) (lbs ubs : List (Option Int))
    (hnorm : normalise ms lb ub = .ok (ms', lbs, ubs)) (fs : List Frame)
    (hfs : ms'.mapM (Member.toFrame k (boundariesOf lbs ubs)) = .ok fs)
    (h1 : lbs.length = fs.length) (h2 : ubs.length = fs.length) (htwo : 2 ≤ fs.length)
    (F : Frame) (hF : stitchM ms k lb ub oc n = .ok (some F)) (t : Int) (vs : List (Option Int)) :
    (t, vs) ∈ F.rows ↔ ∃ i, ∃ hl : i < lbs.length, ∃ hu : i < ubs.length,
      (∃ f ∈ (fs.drop i).take n, t ∈ f.index) ∧
      inWindowW l u (k.bound lbs[i]) (k.bound ubs[i]) t = true ∧
      vs = padRow F.width (((fs.drop i).take n).flatMap (rowAt · t)) := by
  have hpl := piecesM_length fs k lbs ubs n l u h1 h2
  have hfl := framesOfF_length fs n
  rw [stitchM_eq ms k lb ub oc n l u hb ms' lbs ubs hnorm fs hfs h1 h2 (framesOfF_sorted_cols fs n hn),
    assemble_many _ (by omega)] at hF
  cases hF
  simp only [List.mem_flatMap, List.mem_map, Prod.mk.injEq]
  constructor
  · rintro ⟨f, hf, r, hr, rfl, rfl⟩
    obtain ⟨i, hi, rfl⟩ := List.mem_iff_getElem.mp hf
    rw [piecesM_getElem fs k lbs ubs n l u i hi (by omega) (by omega) (by omega),
      framesOfF_getElem_cols fs n hn i (by omega)] at hr
    simp only [List.mem_filter] at hr
    obtain ⟨hmem, hw⟩ := hr
    obtain ⟨hex, hval⟩ := mem_concatFrames.mp hmem
    exact ⟨i, by omega, by omega, hex, hw, by rw [hval]⟩
  · rintro ⟨i, hl, hu, hex, hw, rfl⟩
    have hi : i < (piecesM fs k lbs ubs n l u).length := by omega
    refine ⟨(piecesM fs k lbs ubs n l u)[i], List.getElem_mem hi, (t, ((fs.drop i).take n).flatMap (rowAt · t)), ?_, rfl, rfl⟩
    rw [piecesM_getElem fs k lbs ubs n l u i hi (by omega) hl hu, framesOfF_getElem_cols fs n hn i (by omega)]
    simp only [List.mem_filter]
    exact ⟨mem_concatFrames.mpr ⟨hex, rfl⟩, hw⟩

/-- the default `n = 1`: a row `(t, r)` of member `i` appears exactly when `t` passes the window of piece `i`
    (members with strictly increasing indexes - needed where a time-of-day window wraps: `sort_index`) -/
theorem stitch_source_frames_one (ms : List Member) (k : BKind) (lb ub : Option (List Int)) (oc : Option (List Char)) (n : Nat)
    (hn : n ≤ 1) (l u : Bool) (hb : brackets oc = .ok (l, u)) (ms' : List Member) (lbs ubs : List (Option Int))
    (hnorm : normalise ms lb ub = .ok (ms', lbs, ubs)) (fs : List Frame)
    (hfs : ms'.mapM (Member.toFrame k (boundariesOf lbs ubs)) = .ok fs) (hs : ∀ f ∈ fs, SortedRows f)
    (h1 : lbs.length = fs.length) (h2 : ubs.length = fs.length) (htwo : 2 ≤ fs.length)
    (F : Frame) (hF : stitchM ms k lb ub oc n = .ok (some F)) (t : Int) (vs : List (Option Int)) :
    (t, vs) ∈ F.rows ↔ ∃ i, ∃ hd : i < fs.length, ∃ hl : i < lbs.length, ∃ hu : i < ubs.length, ∃ r,
      (t, r) ∈ fs[i].rows ∧ inWindowW l u (k.bound lbs[i]) (k.bound ubs[i]) t = true ∧ vs = padRow F.width r := by
  have hpl := piecesM_length fs k lbs ubs n l u h1 h2
  have hfl := framesOfF_length fs n
  rw [stitchM_eq ms k lb ub oc n l u hb ms' lbs ubs hnorm fs hfs h1 h2 (framesOfF_sorted fs n hs),
    assemble_many _ (by omega)] at hF
  cases hF
  simp only [List.mem_flatMap, List.mem_map, Prod.mk.injEq]
  constructor
  · rintro ⟨f, hf, r, hr, rfl, rfl⟩
    obtain ⟨i, hi, rfl⟩ := List.mem_iff_getElem.mp hf
    rw [piecesM_getElem fs k lbs ubs n l u i hi (by omega) (by omega) (by omega),
      framesOfF_getElem_one fs n hn i (by omega) (by omega)] at hr
    simp only [List.mem_filter] at hr
    exact ⟨i, by omega, by omega, by omega, r.2, hr.1, hr.2, rfl⟩
  · rintro ⟨i, hd, hl, hu, r, hr, hw, rfl⟩
    have hi : i < (piecesM fs k lbs ubs n l u).length := by omega
    refine ⟨(piecesM fs k lbs ubs n l u)[i], List.getElem_mem hi, (t, r), ?_, rfl, rfl⟩
    rw [piecesM_getElem fs k lbs ubs n l u i hi (by omega) hl hu, framesOfF_getElem_one fs n hn i (by omega) hd]
    simp only [List.mem_filter]
    exact ⟨hr, hw⟩

/-- dates in one bound list and times of day in the other: `TypeError` (after the direction checks) -/
theorem stitch_mixed_kinds (ms : List Member) (l1 l2 : List Int) (oc : Option (List Char)) (n : Nat)
    (h1 : l1 ≠ []) (h2 : l2 ≠ []) (hd : nonDecreasing l2 = nonDecreasing l1) :
    stitchB ms (some (.date, l1)) (some (.time, l2)) oc n = .error .type := by
  cases l1 with
  | nil => exact absurd rfl h1
  | cons a l1 =>
    cases l2 with
    | nil => exact absurd rfl h2
    | cons b l2 =>
      simp only [stitchB, Option.map_some, normalise, hd, bne_self_eq_false, Bool.false_eq_true, if_false]
      split <;> rfl

/-! evaluation tests (`mergeSort` does not reduce in the kernel): a Series, a two-column DataFrame and a scalar; a time-of-day
    list whose second window 18:00 -> 06:00 wraps under the default `'(]'` -/
#guard okEq (stitchM [.series [(0, some 1), (5, some 2)], .frame ⟨2, [(3, [some 7, none]), (6, [some 8, some 9])]⟩, .scalar (some 4)]
    .date Option.none (some [2, 5, 9]) (some ['(', ']']) 1)
  (some ⟨2, [(0, [some 1, none]), (3, [some 7, none]), (9, [some 4, none])]⟩)
#guard okEq (stitchM [.series [(0, some 1), (5, some 2)], .frame ⟨2, [(3, [some 7, none]), (5, [some 8, some 9])]⟩]
    .date Option.none (some [4, 9]) (some ['(', ']']) 2)
  (some ⟨3, [(0, [some 1, none, none]), (3, [none, some 7, none]), (5, [some 8, some 9, none])]⟩)
#guard okEq (stitchM [.series [(0, some 1), (6 * 3600000000, some 2)], .series [(0, some 10), (6 * 3600000000, some 20), (12 * 3600000000, some 30), (18 * 3600000000, some 40)]]
    .time (some [0, 18 * 3600000000]) (some [6 * 3600000000, 6 * 3600000000]) (some ['(', ']']) 1)
  (some ⟨1, [(6 * 3600000000, [some 2]), (0, [some 10]), (6 * 3600000000, [some 20])]⟩)

/-! ### ONE series with bound lists -/

/-- a single (non-list) series with a LIST of upper bounds and one lower bound `b0` (possibly `None`): `zipper` repeats the
    series and the lower bound, the result is a python list holding, for every upper bound, the slice `(b0, ub[i]]` -/
theorem slices_ub_list {α} (df : Rows α) (b0 : Bound) (bs : List Bound) (htwo : 2 ≤ bs.length) (oc : Option (List Char))
    (l u : Bool) (hb : brackets oc = .ok (l, u))
    (hs : ∀ b ∈ bs, wraps b0 b = true → df.Pairwise (fun x y => x.1 < y.1)) :
    slicesOfSeries df (.one b0) (.list bs) oc = .ok (.many (bs.map fun b => df.filter fun r => inWindowW l u b0 b r.1)) := by
  unfold slicesOfSeries
  show (do let dlu ← zipper3 [df] [b0] bs; _) = _
  rw [zipper3_single_left df b0 bs htwo]
  simp only [bind, Except.bind]
  rw [mapM_sliceWrap_eq df oc l u hb _ (by intro x hx; simp only [List.mem_map] at hx; obtain ⟨_, _, rfl⟩ := hx; rfl)
    (by intro x hx; simp only [List.mem_map] at hx; obtain ⟨b, hb', rfl⟩ := hx; exact hs b hb')]
  simp only [List.map_map, Function.comp_def]
  match bs, htwo with
  | _ :: _ :: _, _ => rfl

/-- these slices are NESTED, not a partition: with date bounds `b ≤ b'` the slice up to `b` is contained in the slice up to `b'` -/
theorem slices_nested {α} (df : Rows α) (l u : Bool) (b0 : Bound) (b b' : Int) (hbb : b ≤ b') :
    (df.filter fun r => inWindowW l u b0 (.date b) r.1).Sublist (df.filter fun r => inWindowW l u b0 (.date b') r.1) := by
  have hw : ∀ c, wraps b0 (.date c) = false := by intro c; cases b0 <;> rfl
  have : (df.filter fun r => inWindowW l u b0 (.date b) r.1) =
      (df.filter fun r => inWindowW l u b0 (.date b') r.1).filter fun r => inWindowW l u b0 (.date b) r.1 := by
    rw [List.filter_filter]
    apply List.filter_congr
    intro x _
    simp only [inWindowW, hw, Bool.false_eq_true, if_false]
    cases h1 : lbOk l b0 x.1 <;> cases u <;> simp [ubOk] <;> omega
  rw [this]
  exact List.filter_sublist

/-- the witness: `df_slice(ts, ub = [2, 5])` on the index `0, 3` hands back `[rows ≤ 2, rows ≤ 5]` - the row at `0` is in both
    slices (so "the pieces partition the rows" is FALSE of a single series with an upper-bound list; it holds when both
    bounds are lists and chained, `slices_chained_partition`) -/
theorem slices_not_partition :
    slicesOfSeries [((0 : Int), 'a'), (3, 'b')] (.one .none) (.list [.date 2, .date 5]) (some ['(', ']']) =
      .ok (.many [[(0, 'a')], [(0, 'a'), (3, 'b')]]) := by rfl

/-- with BOTH bounds given as lists of the same length the slices `(lb[i], ub[i]]` are concatenated (line 1699) -/
theorem slices_both_lists {α} (df : Rows α) (as bs : List Bound) (hlen : as.length = bs.length) (htwo : 2 ≤ bs.length)
    (oc : Option (List Char)) (l u : Bool) (hb : brackets oc = .ok (l, u))
    (hs : ∀ x ∈ as.zip bs, wraps x.1 x.2 = true → df.Pairwise (fun x y => x.1 < y.1)) :
    slicesOfSeries df (.list as) (.list bs) oc =
      .ok (.one ((as.zip bs).flatMap fun x => df.filter fun r => inWindowW l u x.1 x.2 r.1)) := by
  unfold slicesOfSeries
  show (do let dlu ← zipper3 [df] as bs; _) = _
  rw [zipper3_single_both df as bs hlen htwo]
  simp only [bind, Except.bind]
  rw [mapM_sliceWrap_eq df oc l u hb _ (by intro x hx; simp only [List.mem_map] at hx; obtain ⟨_, _, rfl⟩ := hx; rfl)
    (by intro x hx; simp only [List.mem_map] at hx; obtain ⟨y, hy, rfl⟩ := hx; exact hs y hy)]
  simp only [List.map_map, Function.comp_def]
  have h2 : 2 ≤ (as.zip bs).length := by simp [hlen]; omega
  generalize as.zip bs = L at h2
  match L, h2 with
  | _ :: _ :: _, _ => rfl

/-- the chain of windows `(b0, ub[0]], (ub[0], ub[1]], ...` of a non-decreasing list partitions `(b0, last ub]`
    (brackets open on one side and closed on the other; non-decreasing index) -/
theorem chain_concat {α} (df : Rows α) (hs : (df.map (·.1)).Pairwise (· ≤ ·)) (l u : Bool) (hlu : l = !u) :
    ∀ (ub : List Int) (b0 : Option Int) (hne : ub ≠ []), ub.Pairwise (· ≤ ·) → (∀ a, b0 = some a → a ≤ ub.head hne) →
      (((optDate b0 :: ub.dropLast.map Bound.date).zip (ub.map Bound.date)).flatMap fun x =>
        df.filter fun r => inWindow l u x.1 x.2 r.1) =
      df.filter fun r => inWindow l u (optDate b0) (.date (ub.getLast hne)) r.1
  | [b], b0, _, _, _ => by simp
  | b :: c :: rest, b0, _, hp, h0 => by
    have hp' := List.pairwise_cons.mp hp
    have ih := chain_concat df hs l u hlu (c :: rest) (some b) (by simp) hp'.2 (by intro a ha; cases ha; exact hp'.1 c (by simp))
    have hlast : b ≤ (c :: rest).getLast (by simp) := hp'.1 _ (List.getLast_mem _)
    simp only [List.dropLast_cons_cons, List.map_cons, List.zip_cons_cons, List.flatMap_cons, List.getLast_cons_cons]
    simp only [List.map_cons, optDate, List.zip_cons_cons, List.flatMap_cons] at ih
    rw [ih, filter_append_ordered _ _ ?_ df hs]
    · apply List.filter_congr
      intro x _
      have h0' := h0
      subst hlu
      cases b0 with
      | none => rw [Bool.eq_iff_iff]; cases u <;> simp [inWindow, lbOk, ubOk, optDate] <;> omega
      | some a =>
        have := h0' a rfl
        simp only [List.head_cons] at this
        rw [Bool.eq_iff_iff]; cases u <;> simp [inWindow, lbOk, ubOk, optDate] <;> omega
    · intro x y hx hy
      subst hlu
      cases u <;> simp [inWindow, lbOk, ubOk] at hx hy <;> omega

/-- **slices_chained_partition**: a single series cut with both bounds as lists, the lower bounds being `b0` followed by the
    upper bounds shifted by one (non-decreasing dates): the pieces `(b0, ub[0]], (ub[0], ub[1]], ...` partition the rows in
    `(b0, last ub]` - their concatenation, which is what `df_slice` returns, is exactly that one slice -/
theorem slices_chained_partition {α} (df : Rows α) (hs : (df.map (·.1)).Pairwise (· ≤ ·)) (b0 : Option Int) (ub : List Int)
    (htwo : 2 ≤ ub.length) (hinc : nonDecreasing ub = true) (hne : ub ≠ []) (h0 : ∀ a, b0 = some a → a ≤ ub.head hne)
    (oc : Option (List Char)) (l u : Bool) (hb : brackets oc = .ok (l, u)) (hlu : l = !u) :
    slicesOfSeries df (.list (optDate b0 :: ub.dropLast.map Bound.date)) (.list (ub.map Bound.date)) oc =
      .ok (.one (df.filter fun r => inWindow l u (optDate b0) (.date (ub.getLast hne)) r.1)) := by
  have hnw : ∀ x ∈ (optDate b0 :: ub.dropLast.map Bound.date).zip (ub.map Bound.date), wraps x.1 x.2 = false := by
    intro x hx
    have := (List.of_mem_zip hx).2
    simp only [List.mem_map] at this
    obtain ⟨c, _, hc⟩ := this
    unfold wraps
    rw [← hc]
    split
    · rename_i h2; cases h2
    · rfl
  rw [slices_both_lists df _ _ (by simp; omega) (by simpa using htwo) oc l u hb (by intro x hx hw; rw [hnw x hx] at hw; cases hw)]
  congr 2
  rw [← chain_concat df hs l u hlu ub b0 hne (nonDecreasing_pairwise ub hinc) h0]
  apply flatMap_congr_mem
  intro x hx
  apply List.filter_congr
  intro r _
  simp only [inWindowW, hnw x hx, Bool.false_eq_true, if_false, inWindow]

example : slicesOfSeries [((0 : Int), 'a'), (3, 'b'), (5, 'c'), (7, 'd')] (.list [.none, .date 2]) (.list [.date 2, .date 5]) (some ['(', ']']) =
    .ok (.one [(0, 'a'), (3, 'b'), (5, 'c')]) := by rfl

/-! ### the hypotheses of the theorems above are satisfiable (non-trivial values) -/

/-- `stitch_once_lb`: lower bounds `[0, 4]`, two proper series - the stitched index is strictly increasing -/
example : ∃ F, stitch [[(0, some 1), (5, some 2)], [(1, some 7), (9, some 3)]] (some [0, 4]) Option.none (some ['(', ']']) 1 = .ok (some F) ∧
    F.rows.Pairwise (fun a b => a.1 < b.1) :=
  ⟨_, rfl, stitch_once_lb [[(0, some 1), (5, some 2)], [(1, some 7), (9, some 3)]] [0, 4] rfl (by decide) rfl (by decide)
    (some ['(', ']']) 1 false true rfl (by simp) _ rfl⟩

/-- `stitch_once_both`: the chained lists `lb = [0, 5]`, `ub = [5, 9]` -/
example : ∀ i (h1 : i < ([5, 9] : List Int).length) (h2 : i + 1 < ([0, 5] : List Int).length),
    ([5, 9] : List Int)[i] ≤ ([0, 5] : List Int)[i + 1] := by
  intro i h1 h2
  have : i = 0 := by simp at h2; omega
  subst this
  simp

/-- `stitch_broadcast_lb` / `stitch_source_broadcast_lb`: one lower bound `1` for both pieces -/
example : stitch [[(0, some 1), (2, some 2)], [(1, some 7), (2, some 8), (9, some 3)]] (some [1]) (some [3, 9]) (some ['(', ']']) 1 =
    .ok (some ⟨1, [(2, [some 2]), (2, [some 8]), (9, [some 3])]⟩) := by
  rw [stitch_broadcast_lb _ 1 [3, 9] rfl (by decide)]; rfl

/-- `stitch_broadcast_series`: one series cut at three bounds comes back whole up to the last bound -/
example : stitch [[(0, some 1), (2, some 2), (7, some 3)]] Option.none (some [1, 2, 5]) (some ['(', ']']) 1 =
    .ok (some ⟨1, [(0, [some 1]), (2, [some 2])]⟩) := by
  rw [stitch_broadcast_series _ [1, 2, 5] (by decide) _ 1 (by decide)]; rfl

/-- `stitch_length_mismatch`: three series, two bounds -/
example : stitch [[], [], []] Option.none (some [1, 2]) (some ['(', ']']) 1 = .error .value :=
  stitch_length_mismatch _ _ _ _ (by decide) (by decide) (by decide)

/-- `stitch_source_frames`: the hypotheses on a Series, a DataFrame and a scalar -/
example : normalise [Member.series [(0, some 1)], .frame ⟨2, [(3, [some 7, none])]⟩, .scalar (some 4)] Option.none (some [2, 5, 9]) =
    .ok ([Member.series [(0, some 1)], .frame ⟨2, [(3, [some 7, none])]⟩, .scalar (some 4)],
      [Option.none, some 2, some 5], [some 2, some 5, some 9]) := rfl

#guard (boundariesOf [Option.none, some 2, some 5] [some 2, some 5, some 9]) == [2, 5, 9]

/-! `unslice_restitch_exact` on the C13-N1 witness: the re-stitched frame is the frame without its all-NaN row -/
#guard okEq (do
    let f ← stitch nanSeries Option.none (some [2, 5]) (some ['(', ']']) 1
    match f with
    | some f => do
        let u ← unslice f [2, 5]
        let g ← stitch (u.map (·.2)) Option.none (some [2, 5]) (some ['(', ']']) 1
        pure (g == some f.dropNaRows && f.dropNaRows != f)
    | Option.none => pure false : Res Bool) true

/-! ### ONE series and ONE bound (review t4 2.2): outside `Stitchable` (which needs two), inside "all n between 1 and the number
of series" -/

/-- `df_slice([s], ub = [u], openclose, n = 1)` is the single slice of `s` up to `u` (no lower bound), as a one-column frame:
nothing is concatenated (`assemble` of one piece is the piece) -/
theorem stitch_single_eq (s : TS) (u : Int) (oc : Option (List Char)) :
    stitch [s] Option.none (some [u]) oc 1 =
      (sliceOne (ofTS s) .none (.date u) oc).map fun rows => some (⟨1, rows⟩ : Frame) := by
  simp only [stitch, normalise, nonDecreasing, framesOf, zipper3, lens3, cutAll, assemble, bcast]
  cases h : sliceOne (ofTS s) Bound.none (Bound.date u) oc <;>
    simp_all [optDate, Except.map, bind, Except.bind, pure, Except.pure, List.eraseDups]

/-- ... so a row is in the result exactly when it is a row of `s` whose timestamp satisfies `t <(=) u` as the closing bracket
says - the clause "every timestamp in (ub[i-1], ub[i]] takes its data from series i" for the only `i`, by membership -/
theorem stitch_single_iff (s : TS) (u : Int) (oc : Option (List Char)) (l r : Bool) (hb : brackets oc = .ok (l, r)) (F : Frame)
    (hF : stitch [s] Option.none (some [u]) oc 1 = .ok (some F)) (t : Int) (vs : List (Option Int)) :
    F.width = 1 ∧ ((t, vs) ∈ F.rows ↔ (∃ v, (t, v) ∈ s ∧ vs = [v]) ∧ ubOk r (.date u) t = true) := by
  rw [stitch_single_eq] at hF
  cases hs : sliceOne (ofTS s) Bound.none (Bound.date u) oc with
  | error e => rw [hs] at hF; cases hF
  | ok rows =>
    rw [hs] at hF
    have hF' : F = ⟨1, rows⟩ := by
      simp only [Except.map] at hF
      cases hF; rfl
    subst hF'
    refine ⟨rfl, ?_⟩
    rw [slice_iff (ofTS s) rows .none (.date u) oc l r hb hs (t, vs)]
    have hl : lbOk l Bound.none t = true := by cases l <;> rfl
    simp only [hl, true_and, ofTS, List.mem_map, Prod.mk.injEq]
    constructor
    · rintro ⟨⟨p, hp, rfl, rfl⟩, h2⟩; exact ⟨⟨p.2, hp, rfl⟩, h2⟩
    · rintro ⟨⟨v, hv, rfl⟩, h2⟩; exact ⟨⟨(t, v), hv, rfl, rfl⟩, h2⟩

example : ∃ F, stitch [[(1, some 5), (3, some 7), (4, some 9)]] Option.none (some [3]) (some ['(', ']']) 1 = .ok (some F) ∧ F.rows = [(1, [some 5]), (3, [some 7])] := by
  rw [stitch_single_eq]; exact ⟨_, rfl, by decide⟩

/-! ### bound lists with an UNBOUNDED end (review v4 2.1): `df_slice(dfs, ub = [u_0 .. u_k, None])` - "a missing bound being
unbounded" inside a bound list.  Model: `directionO`, `normaliseO`, `stitchO`, `unsliceO` (bound lists of `Option Int`). -/

/-- on bound lists of dates the extended model IS the model every other theorem speaks about -/
theorem stitchO_dates (dfs : List TS) (lb ub : Option (List Int)) (oc : Option (List Char)) (n : Nat) :
    stitchO dfs (lb.map (List.map some)) (ub.map (List.map some)) oc n = stitch dfs lb ub oc n := by
  simp only [stitchO, stitch, normaliseO_dates]

/-- the direction test sets a trailing `None` aside; an inner `None` is refused (`TypeError`: `sorted` compares it with a date) -/
theorem direction_open (ubs : List Int) (hne : ubs ≠ []) :
    directionO (ubs.map some ++ [Option.none]) = .ok (nonDecreasing ubs) := directionO_open ubs hne

example : directionO [some 1, Option.none, some 2] = .error .type := rfl
example : directionO [Option.none, some 4, some 2] = .ok false := rfl
example : directionO [some 2, some 4, Option.none] = .ok true := rfl

/-- **stitch_open_eq** - an unbounded last bound behaves as ANY bound beyond every timestamp of the series (and not below the
    other bounds): the two stitched frames are the same frame, so every theorem about increasing upper bounds
    (`stitch_source`, `stitch_once`, `stitch_width`, ...) speaks about the open-ended list too -/
theorem stitch_open_eq (dfs : List TS) (ubs : List Int) (M : Int) (h : Stitchable dfs (ubs ++ [M]))
    (hM : ∀ s ∈ dfs, ∀ t ∈ s.index, t < M) (oc : Option (List Char)) (n : Nat) (l u : Bool) (hb : brackets oc = .ok (l, u)) :
    stitchO dfs Option.none (some (ubs.map some ++ [Option.none])) oc n = stitch dfs Option.none (some (ubs ++ [M])) oc n := by
  have hne : ubs ≠ [] := by intro h0; have := h.two; simp [h0] at this
  have hinc : nonDecreasing ubs = true :=
    pairwise_nonDecreasing _ (List.pairwise_append.mp (nonDecreasing_pairwise _ h.inc)).1
  have hlen : dfs.length = ubs.length + 1 := by have := h.len; simpa using this
  have hn1 : normaliseO dfs Option.none (some (ubs.map some ++ [Option.none])) =
      .ok (dfs, Option.none :: ubs.map some, ubs.map some ++ [Option.none]) := by
    simp [normaliseO, directionO_open ubs hne, hinc, bind, Except.bind, pure, Except.pure]
  have hn2 : normalise dfs Option.none (some (ubs ++ [M])) =
      .ok (dfs, Option.none :: ubs.map some, (ubs ++ [M]).map some) := by
    simp [normalise, h.inc, pure, Except.pure]
  rw [stitchO_general dfs _ _ oc n l u hb dfs _ _ hn1 (by simp [hlen]) (by simp [hlen]),
    stitch_general dfs _ _ oc n l u hb dfs _ _ hn2 (by simp [hlen]) (by simp [hlen]),
    piecesG_open dfs _ ubs n l u M hM]

/-- there is always such a bound -/
theorem exists_beyond (xs : List Int) : ∃ M, ∀ x ∈ xs, x < M := by
  induction xs with
  | nil => exact ⟨0, by simp⟩
  | cons a xs ih =>
    obtain ⟨M, hM⟩ := ih
    refine ⟨max M (a + 1), ?_⟩
    intro x hx
    rcases List.mem_cons.mp hx with rfl | hx
    · omega
    · have := hM x hx; omega

/-- **stitch_source_open** - the row characterisation with the LAST interval unbounded above: a row `(t, vs)` is in
    `df_slice(dfs, ub = [u_0 .. u_{k-1}, None], n)` exactly when, for a piece `i ≤ k` with `t` a timestamp of one of the series
    `i .. i+n-1`, `t` passes the lower test of `u_{i-1}` (none for `i = 0`) and - for `i < k` only - the upper test of `u_i`;
    column `j` then carries series `i+j`'s value at `t`.  Stated without any auxiliary bound. -/
theorem stitch_source_open (dfs : List TS) (ubs : List Int) (hlen : dfs.length = ubs.length + 1) (hne : ubs ≠ [])
    (hinc : nonDecreasing ubs = true) (oc : Option (List Char)) (n : Nat) (hn : 1 < n) (l u : Bool)
    (hb : brackets oc = .ok (l, u)) (F : Frame)
    (hF : stitchO dfs Option.none (some (ubs.map some ++ [Option.none])) oc n = .ok (some F)) (t : Int) (vs : List (Option Int)) :
    (t, vs) ∈ F.rows ↔ ∃ i, i ≤ ubs.length ∧
      (∃ s ∈ (dfs.drop i).take n, t ∈ s.index) ∧
      lbOk l (loBound ubs i) t = true ∧ (∀ hi : i < ubs.length, ubOk u (.date ubs[i]) t = true) ∧
      vs = padRow F.width (((dfs.drop i).take n).map (·.get t)) := by
  obtain ⟨M, hM⟩ := exists_beyond (dfs.flatMap TS.index ++ ubs)
  have hM1 : ∀ s ∈ dfs, ∀ t ∈ s.index, t < M := fun s hs t ht =>
    hM t (List.mem_append_left _ (List.mem_flatMap.mpr ⟨s, hs, ht⟩))
  have hM2 : ∀ b ∈ ubs, b ≤ M := fun b hb' => Int.le_of_lt (hM b (List.mem_append_right _ hb'))
  have hS : Stitchable dfs (ubs ++ [M]) := by
    refine ⟨by simp [hlen], ?_, ?_⟩
    · cases ubs with
      | nil => exact absurd rfl hne
      | cons a t => simp
    · apply pairwise_nonDecreasing
      rw [List.pairwise_append]
      refine ⟨nonDecreasing_pairwise _ hinc, by simp, ?_⟩
      intro a ha b hb'
      rw [List.mem_singleton] at hb'; subst hb'; exact hM2 a ha
  rw [stitch_open_eq dfs ubs M hS hM1 oc n l u hb] at hF
  rw [stitch_source dfs (ubs ++ [M]) hS oc n hn l u hb F hF t vs]
  have hlo : ∀ i, i ≤ ubs.length → loBound (ubs ++ [M]) i = loBound ubs i := by
    intro i hi
    unfold loBound
    by_cases h0 : i = 0
    · simp [h0]
    · have : i - 1 < ubs.length := by omega
      simp [h0, List.getD_eq_getElem?_getD, List.getElem?_append_left this]
  constructor
  · rintro ⟨i, hi, hex, h1, h2, h3⟩
    have hi' : i ≤ ubs.length := by simp at hi; omega
    refine ⟨i, hi', hex, by rw [← hlo i hi']; exact h1, ?_, h3⟩
    intro hlt
    simpa [List.getElem_append_left hlt] using h2
  · rintro ⟨i, hi, hex, h1, h2, h3⟩
    refine ⟨i, by simp; omega, hex, by rw [hlo i hi]; exact h1, ?_, h3⟩
    by_cases hlt : i < ubs.length
    · simpa [List.getElem_append_left hlt] using h2 hlt
    · have hi' : i = ubs.length := by omega
      subst hi'
      obtain ⟨s, hs, ht⟩ := hex
      have : t < M := hM1 s (List.mem_of_mem_drop (List.mem_of_mem_take hs)) t ht
      simp [ubOk]
      cases u <;> simp <;> omega

/-- **unslice_open_eq** - `df_unslice(F, [u_0 .. u_{k-1}, None])` is `df_unslice(F, [u_0 .. u_{k-1}, M])` for any `M` beyond every
    row of the frame (and above the other bounds), with the key `M` read as `None`: same series, same ORDER - the unbounded
    series is filed under `None` in the LAST place (repo fix C13-U2; `listby` used to sort `None` first) -/
theorem unslice_open_eq (F : Frame) (ubs : List Int) (M : Int) (hM : ∀ r ∈ F.rows, r.1 < M) (hne : ubs ≠ [])
    (hstrict : (ubs ++ [M]).Pairwise (· < ·)) (hpos : 0 < F.width) :
    unsliceO F (ubs.map some ++ [Option.none]) =
      (unslice F (ubs ++ [M])).map (List.map fun p => (reopen M p.1, p.2)) := by
  have hMu : M ∉ ubs := fun hm => by
    have := (List.pairwise_append.mp hstrict).2.2 M hm M (by simp); omega
  have hinc' : nonDecreasing (ubs ++ [M]) = true := pairwise_nonDecreasing _ (hstrict.imp (fun h => Int.le_of_lt h))
  have hinc : nonDecreasing ubs = true :=
    pairwise_nonDecreasing _ (List.pairwise_append.mp (nonDecreasing_pairwise _ hinc')).1
  have hnd : ((ubs ++ [M]).map (reopen M)).Nodup :=
    List.Pairwise.map (reopen M) (fun a b hab e => hab (reopen_inj M e)) (hstrict.imp (fun h => Int.ne_of_lt h))
  rw [unslice_eq F _ hinc', unslice_keys F _ hstrict hpos]
  simp only [unsliceO, directionO_open ubs hne, hinc, if_true, handedO_open F ubs M hM hMu, bind, Except.bind, pure,
    Except.pure, Except.map]
  rw [← map_reopen M ubs hMu, eraseDups_of_nodup _ hnd, List.map_map, List.map_map]
  congr 1
  apply List.map_congr_left
  intro u _
  simp only [Function.comp, filter_reopen]

/-- **unslice_restitch_open** - the round trip under an UNBOUNDED last bound, ANY values: for `k ≥ 1` strictly increasing
    dates followed by `None` and `k + 1` proper series, `df_unslice` returns one series per bound IN THE ORDER OF THE BOUNDS
    (the unbounded one last, under `None`), and `df_slice(list(U.values()), ub = ub, n)` reproduces the stitched frame up to its
    all-NaN rows (exactly, when it has none: `unslice_restitch_iff`'s argument).  Review v4 2.1 / repo fix C13-U2. -/
theorem unslice_restitch_open (dfs : List TS) (ubs : List Int) (hlen : dfs.length = ubs.length + 1) (hne : ubs ≠ [])
    (hstrict : ubs.Pairwise (· < ·)) (hs : ∀ s ∈ dfs, s.Sorted) (n : Nat) :
    ∃ F U, stitchO dfs Option.none (some (ubs.map some ++ [Option.none])) (some ['(', ']']) n = .ok (some F) ∧
      unsliceO F (ubs.map some ++ [Option.none]) = .ok U ∧
      U.map (·.1) = ubs.map some ++ [Option.none] ∧
      stitchO (U.map (·.2)) Option.none (some (ubs.map some ++ [Option.none])) (some ['(', ']']) n = .ok (some F.dropNaRows) := by
  obtain ⟨M, hM⟩ := exists_beyond (dfs.flatMap TS.index ++ ubs)
  have hM1 : ∀ s ∈ dfs, ∀ t ∈ s.index, t < M := fun s hs t ht =>
    hM t (List.mem_append_left _ (List.mem_flatMap.mpr ⟨s, hs, ht⟩))
  have hM2 : ∀ b ∈ ubs, b < M := fun b hb' => hM b (List.mem_append_right _ hb')
  have hstrict' : (ubs ++ [M]).Pairwise (· < ·) := by
    rw [List.pairwise_append]
    refine ⟨hstrict, by simp, ?_⟩
    intro a ha b hb'
    rw [List.mem_singleton] at hb'; subst hb'; exact hM2 a ha
  have htwo : 2 ≤ (ubs ++ [M]).length := by
    cases ubs with
    | nil => exact absurd rfl hne
    | cons a t => simp
  have hS : Stitchable dfs (ubs ++ [M]) :=
    ⟨by simp [hlen], htwo, pairwise_nonDecreasing _ (hstrict'.imp (fun h => Int.le_of_lt h))⟩
  obtain ⟨F, U', e1, e2, e3, e4⟩ := unslice_restitch_exact dfs (ubs ++ [M]) hS hstrict' hs n
  -- every row of the stitched frame carries a timestamp of one of the series
  have hFrows : ∀ r ∈ F.rows, r.1 < M := by
    obtain ⟨F', hF', hrows⟩ := stitch_eq dfs (ubs ++ [M]) hS (some ['(', ']']) n false true rfl
    rw [e1] at hF'; cases hF'
    intro r hr
    rw [hrows] at hr
    simp only [List.mem_flatMap, List.mem_map] at hr
    obtain ⟨f, hf, r', hr', rfl⟩ := hr
    simp only [pieces, List.mem_map] at hf
    obtain ⟨x, hx, rfl⟩ := hf
    have hx1 : x.1 ∈ framesOf dfs n := (List.of_mem_zip hx).1
    simp only [cut, List.mem_filter] at hr'
    exact framesOf_rows_lt dfs n M hM1 _ hx1 r' hr'.1
  have hpos : 0 < F.width := by
    rcases Nat.eq_zero_or_pos F.width with h0 | h
    · exfalso
      have hr : rsOf F (ubs ++ [M]) = [] := by simp [rsOf, h0]
      rw [unslice_eq F _ hS.inc, hr] at e2
      cases e2
      simp at e3
    · exact h
  have hU : unsliceO F (ubs.map some ++ [Option.none]) = .ok (U'.map fun p => (reopen M p.1, p.2)) := by
    rw [unslice_open_eq F ubs M hFrows hne hstrict' hpos, e2]; rfl
  have hMu : M ∉ ubs := fun hm => by have := hM2 M hm; omega
  have hsnd : (U'.map fun p => (reopen M p.1, p.2)).map (·.2) = U'.map (·.2) := by
    rw [List.map_map]; rfl
  have hfst : (U'.map fun p => (reopen M p.1, p.2)).map (·.1) = ubs.map some ++ [Option.none] := by
    rw [List.map_map, ← map_reopen M ubs hMu, ← e3, List.map_map]; rfl
  refine ⟨F, _, ?_, hU, hfst, ?_⟩
  · rw [stitch_open_eq dfs ubs M hS hM1 _ n false true rfl, e1]
  · rw [hsnd]
    -- the recovered series hold timestamps of the frame only
    have hU'len : (U'.map (·.2)).length = (ubs ++ [M]).length := by rw [← e3]; simp
    have hS' : Stitchable (U'.map (·.2)) (ubs ++ [M]) := ⟨hU'len, htwo, hS.inc⟩
    have hM' : ∀ s ∈ U'.map (·.2), ∀ t ∈ s.index, t < M := by
      intro s hs' t ht
      rw [unslice_eq F _ hS.inc, unslice_keys F _ hstrict' hpos] at e2
      cases e2
      simp only [List.map_map, List.mem_map, Function.comp] at hs'
      obtain ⟨u, _, rfl⟩ := hs'
      simp only [TS.index, Slice.nona, List.mem_map, List.mem_filter, List.mem_flatMap] at ht
      obtain ⟨p, ⟨⟨c, ⟨hc, _⟩, hp⟩, _⟩, rfl⟩ := ht
      obtain ⟨r, hr, hrt⟩ := rsOf_index_sub F _ c.1 c.2 hc p.1
        (by simp only [TS.index, List.mem_map]; exact ⟨p, hp, rfl⟩)
      rw [← hrt]; exact hFrows r hr
    rw [stitch_open_eq _ ubs M hS' hM' _ n false true rfl, e4]

/-- **unslice_restitch_open_decreasing** - the DECREASING spelling of an unbounded last bound, `ub = [None, u_k-1 .. u_0]` with the
    series in the matching order (`_is_non_decreasing` sets the leading `None` aside and reads the dates as decreasing): the stitched
    frame is the frame of the increasing spelling `[u_0 .. u_k-1, None]`, `df_unslice` hands back one series per bound IN THE ORDER
    GIVEN (the unbounded one FIRST, under `None`), and stitching those again with the same list gives the frame up to its all-NaN
    rows.  At least two dates: `[None, d]` does not spell a direction. -/
theorem unslice_restitch_open_decreasing (dfs : List TS) (ubs : List Int) (hlen : dfs.length = ubs.length + 1)
    (htwo : 2 ≤ ubs.length) (hstrict : ubs.Pairwise (· < ·)) (hs : ∀ s ∈ dfs, s.Sorted) (n : Nat) :
    ∃ F U, stitchO dfs.reverse Option.none (some (Option.none :: ubs.reverse.map some)) (some ['(', ']']) n = .ok (some F) ∧
      stitchO dfs Option.none (some (ubs.map some ++ [Option.none])) (some ['(', ']']) n = .ok (some F) ∧
      unsliceO F (Option.none :: ubs.reverse.map some) = .ok U ∧
      U.map (·.1) = Option.none :: ubs.reverse.map some ∧
      stitchO (U.map (·.2)) Option.none (some (Option.none :: ubs.reverse.map some)) (some ['(', ']']) n = .ok (some F.dropNaRows) := by
  have hne : ubs ≠ [] := by intro h; rw [h] at htwo; simp at htwo
  obtain ⟨F, U, e1, e2, e3, e4⟩ := unslice_restitch_open dfs ubs hlen hne hstrict hs n
  have hD : (ubs.map some ++ [Option.none]).reverse = Option.none :: ubs.reverse.map some := by simp [List.map_reverse]
  have hrne : ubs.reverse ≠ [] := by simpa using hne
  have hdec : nonDecreasing ubs.reverse = false :=
    decreasing_not_nonDecreasing _ (by simpa using htwo) (List.pairwise_reverse.mpr (hstrict.imp (fun h => h)))
  have hinc : nonDecreasing ubs = true := pairwise_nonDecreasing _ (hstrict.imp (fun h => Int.le_of_lt h))
  have h1 : directionO (Option.none :: ubs.reverse.map some) = .ok false := by
    rw [directionO_leading_none _ hrne, hdec]
  have h2 : directionO (Option.none :: ubs.reverse.map some).reverse = .ok true := by
    rw [← hD, List.reverse_reverse, directionO_open ubs hne, hinc]
  have hnd : (Option.none :: ubs.reverse.map some).Nodup := by
    rw [← hD]
    apply nodup_rev
    show (ubs.map some ++ [Option.none]).Nodup
    have : (ubs.map some ++ [Option.none]).Nodup := by
      rw [List.nodup_append]
      refine ⟨?_, by simp, ?_⟩
      · exact List.Pairwise.map some (fun a b hab e => hab (Option.some.inj e)) (hstrict.imp (fun h => Int.ne_of_lt h))
      · intro a ha b hb
        rw [List.mem_singleton] at hb; subst hb
        simp only [List.mem_map] at ha
        obtain ⟨x, _, hx⟩ := ha
        intro e; rw [e] at hx; cases hx
    exact this
  have hrr : (Option.none :: ubs.reverse.map some).reverse = ubs.map some ++ [Option.none] := by rw [← hD, List.reverse_reverse]
  refine ⟨F, U.reverse, ?_, e1, ?_, ?_, ?_⟩
  · rw [stitchO_reverse _ _ h1 h2, List.reverse_reverse, hrr, e1]
  · rw [unsliceO_reverse F _ h1 h2 hnd, hrr, e2]; rfl
  · rw [List.map_reverse, e3, hD]
  · rw [stitchO_reverse _ _ h1 h2, hrr, List.map_reverse, List.reverse_reverse, e4]

/-- the reviewer's input (v4 2.1): three series, bounds `[2, 4, None]`; the extended model stitches 7 rows, `df_unslice` files the
    unbounded series LAST (keys in the order of the bounds) and the re-stitch reproduces the frame; the decreasing spelling too -/
def openSeries : List TS := [[(0, some 1), (1, some 2), (2, some 3), (3, some 4)], [(2, some 10), (3, some 20), (4, some 30), (5, some 40)],
  [(4, some 100), (6, some 200), (7, some 300)]]
def openBounds : List (Option Int) := [some 2, some 4, Option.none]

#guard (match stitchO openSeries Option.none (some openBounds) (some ['(', ']']) 1 with
  | .ok (some F) => F.rows.map (·.1) == [0, 1, 2, 3, 4, 6, 7] &&
      (match unsliceO F openBounds with
       | .ok U => U.map (·.1) == openBounds &&
           okEq (stitchO (U.map (·.2)) Option.none (some openBounds) (some ['(', ']']) 1) (some F)
       | .error _ => false)
  | _ => false)
#guard (match stitchO openSeries Option.none (some openBounds) (some ['(', ']']) 2 with
  | .ok (some F) => (match unsliceO F openBounds with
       | .ok U => U.map (·.1) == openBounds &&
           okEq (stitchO (U.map (·.2)) Option.none (some openBounds) (some ['(', ']']) 2) (some F)
       | .error _ => false)
  | _ => false)
#guard (match stitchO openSeries.reverse Option.none (some openBounds.reverse) (some ['(', ']']) 2 with
  | .ok (some F) => okEq (stitchO openSeries Option.none (some openBounds) (some ['(', ']']) 2) (some F) &&
      (match unsliceO F openBounds.reverse with
       | .ok U => U.map (·.1) == openBounds.reverse &&
           okEq (stitchO (U.map (·.2)) Option.none (some openBounds.reverse) (some ['(', ']']) 2) (some F)
       | .error _ => false)
  | _ => false)

/-! ### the round trip for ONE series and ONE bound (reviews t4 2.2 / v4 2.4: so far only sampled) -/

/-- **unslice_restitch_single** - `df_slice([s], ub = [u], n = 1)` then `df_unslice` then `df_slice` again, ANY values (NaN, gaps,
    unsorted, empty): one series comes back, filed under `u`; it is the rows of `s` up to `u` holding a value (by an independent
    description: a `filter` of `s`, not the model's slices / columns), and stitching it again gives the frame up to its all-NaN rows -/
theorem unslice_restitch_single (s : TS) (u : Int) :
    ∃ F U, stitch [s] Option.none (some [u]) (some ['(', ']']) 1 = .ok (some F) ∧ unslice F [u] = .ok U ∧
      U.map (·.1) = [u] ∧ U.map (·.2) = [nona (s.filter fun p => decide (p.1 ≤ u))] ∧
      stitch (U.map (·.2)) Option.none (some [u]) (some ['(', ']']) 1 = .ok (some F.dropNaRows) := by
  let w : Int → Bool := fun t => lbOk false .none t && ubOk true (.date u) t
  have hw : ∀ t, w t = decide (t ≤ u) := fun t => by simp [w, lbOk, ubOk]
  have hst : ∀ x : TS, stitch [x] Option.none (some [u]) (some ['(', ']']) 1 =
      .ok (some ⟨1, (ofTS x).filter fun r => w r.1⟩) := by
    intro x
    rw [stitch_single_eq, sliceOne_eq _ _ _ _ false true rfl]; rfl
  have hkeys := unslice_keys ⟨1, (ofTS s).filter fun r => w r.1⟩ [u] (by simp) (Nat.one_pos)
  have hrs : rsOf ⟨1, (ofTS s).filter fun r => w r.1⟩ [u] = [(u, s.filter fun p => w p.1)] := by
    rw [rsOf_series _ _ rfl]
    simp only [List.length_cons, List.length_nil, List.range_succ, List.range_zero, List.nil_append, List.map_cons,
      List.map_nil, List.getD_cons_zero, loBound, if_true, List.filter_filter, inWindow]
    have : (fun r : Int × List (Option Int) => (lbOk false Bound.none r.1 && ubOk true (Bound.date u) r.1) && w r.1) =
        fun r => w r.1 := by funext r; simp [w]
    rw [this, column_ofTS_filter]
  refine ⟨_, [(u, nona (s.filter fun p => w p.1))], hst s, ?_, ?_, ?_, ?_⟩
  · rw [unslice_eq _ _ rfl, hkeys]
    simp [hrs]
  · simp
  · simp [hw]
  · simp only [List.map_cons, List.map_nil]
    rw [hst, ofTS_nona]
    simp only [Frame.dropNaRows, List.filter_filter]
    congr 3
    have e1 : ∀ X : Rows (List (Option Int)), X.filter (fun a => w a.1 && live a) = (X.filter (fun a => w a.1)).filter live := by
      intro X; rw [List.filter_filter]; apply List.filter_congr; intro r _; exact Bool.and_comm _ _
    rw [e1, ofTS_filter_filter s w, List.filter_filter]

example : ∃ F U, stitch [[(1, some 5), (2, Option.none), (3, some 7), (4, some 9)]] Option.none (some [3]) (some ['(', ']']) 1 = .ok (some F) ∧
    unslice F [3] = .ok U ∧ U = [(3, [(1, some 5), (3, some 7)])] := by
  obtain ⟨F, U, h1, h2, h3, h4, _⟩ := unslice_restitch_single [(1, some 5), (2, Option.none), (3, some 7), (4, some 9)] 3
  refine ⟨F, U, h1, h2, ?_⟩
  match U, h3, h4 with
  | [(k, v)], h3, h4 =>
    simp only [List.map_cons, List.map_nil, List.cons.injEq, and_true] at h3 h4
    subst h3; subst h4; decide

end Pyg.Props.C13
