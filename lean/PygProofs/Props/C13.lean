/- C13 — df_slice / df_unslice (work in progress) -/
import PygModel.Slice

namespace Pyg.Props.C13
open Pyg Pyg.Slice

theorem brackets_default : brackets (some ['(', ']']) = .ok (false, true) := rfl

end Pyg.Props.C13
