/-
  C11 — listby/unlist, groupby/ungroup and pivot/unpivot are lossless regroupings.
  Property theorems only (helper lemmas: PygProofs/Lemmas/JoinLemmas.lean, GroupLemmas.lean).

  `keys` are the per-row keys `d[by]` (one tuple per row); key equality is `cmp · · = .eq`
  (numeric equality of ints and floats, `None = None`, `NaN = NaN`: C07 / C02).
-/
import PygModel.Group
import PygProofs.Lemmas.GroupLemmas

namespace Pyg.Props.C11
open Pyg

/-! ## the regrouping itself (`_listby`), for all key lists -/

/-- **one group per distinct key**: group keys are pairwise different (strictly increasing under
`cmp`), and every row's key is `cmp`-equal to the key of exactly one group -/
theorem listby_distinct (keys : List Val) :
    (listbyG keys).Pairwise (fun a b => cmp a.1 b.1 = .lt) ∧
    ∀ i, i < keys.length →
      ∃ g ∈ listbyG keys, cmp (keyAt keys i) g.1 = .eq ∧
        ∀ g' ∈ listbyG keys, cmp (keyAt keys i) g'.1 = .eq → g' = g := by
  refine ⟨listbyG_sorted keys, fun i hi => ?_⟩
  obtain ⟨g, hg, hig⟩ := mem_listbyG.2 hi
  have he := ((mem_group_iff hg).1 hig).2
  refine ⟨g, hg, he, fun g' hg' he' => ?_⟩
  exact group_unique (listbyG_sorted keys) hg' hg (cmp_eq_trans (cmp_eq_symm he') he)

/-- **original row order inside a group**: the row ids of a group are exactly the rows whose key
equals the group's key, listed in increasing (= original) order -/
theorem listby_order (keys : List Val) (g : Grp) (hg : g ∈ listbyG keys) :
    g.2 = (List.range keys.length).filter fun i => cmp (keyAt keys i) g.1 == .eq :=
  group_eq_filter hg

/-- **unlist ∘ listby is the stable sort**: reading the groups one after the other visits the rows in
the order of the stable sort of the keys (`dictable.sort`'s row permutation, C07) -/
theorem unlist_listby_ids (keys : List Val) :
    (listbyG keys).flatMap (·.2) = sortIdx keys :=
  listbyG_flat keys

/-- **group sizes add up to `len(d)`**, and no group is empty -/
theorem groupby_sizes (keys : List Val) (h : keys ≠ []) :
    ((listbyG keys).map (·.2.length)).sum = keys.length ∧ ∀ g ∈ listbyG keys, g.2 ≠ [] :=
  ⟨group_sizes keys, listbyG_nonempty h⟩

/-- **ungroup ∘ groupby restores the multiset of rows**: the concatenated row ids of the groups are
a permutation of `0 … n-1` -/
theorem ungroup_groupby_ids (keys : List Val) :
    ((listbyG keys).flatMap (·.2)).Perm (List.range keys.length) :=
  listbyG_perm keys

/-! ## the tables built from the groups -/

/-- `listby` on a non-empty table with explicit keys: key columns hold the group keys, every other
column holds, per group, the list of that group's cells (by `listby_order`: in original row order) -/
theorem listby_table (t : Table) (by_ : List String) (keys : List Val)
    (hn : t.nrows ≠ 0) (hb : by_ ≠ []) (hk : t.keysOf (by_.map .col) = .ok keys) :
    t.listby by_ = .ok (keyColsOf by_ (listbyG keys) ++
      (t.others by_).map fun c => (c.1, (listbyG keys).map fun g => .list (pick c.2 g.2))) := by
  have hb' : by_.isEmpty = false := by cases by_ <;> simp_all
  simp [Table.listby, hn, hb', hk, bind, Except.bind, pure, Except.pure]

/-- `groupby` likewise: one sub-table per group holding that group's rows of the other columns -/
theorem groupby_table (t : Table) (by_ : List String) (grp : String) (keys : List Val)
    (hn : t.nrows ≠ 0) (hb : by_ ≠ []) (hlt : by_.length ≠ t.cols.length)
    (hk : t.keysOf (by_.map .col) = .ok keys) :
    t.groupby by_ grp = .ok (keyColsOf by_ (listbyG keys) ++
      [(grp, (listbyG keys).map fun g => subTable (t.others by_) g.2)]) := by
  have hb' : by_.isEmpty = false := by cases by_ <;> simp_all
  have hl : by_.length ≠ 0 := by cases by_ <;> simp_all
  simp [Table.groupby, hn, hb', hl, hlt, hk, bind, Except.bind, pure, Except.pure]

/-- grouping on all columns is rejected (`ValueError`), as in the code -/
theorem groupby_all_keys (t : Table) (grp : String) (hn : t.nrows ≠ 0) :
    t.groupby t.cols grp = .error .value := by
  have hc : t.cols.length ≠ 0 := by
    cases t with
    | nil => simp [Table.nrows] at hn
    | cons c cs => simp [Table.cols]
  have hc' : t.cols.isEmpty = false := by cases h : t.cols <;> simp_all
  simp [Table.groupby, hn, hc, hc']

/-! ## non-vacuity and evaluation tests -/

def exT : Table := [("a", [.int 2, .flt 4, .int 1, .flt 8, .none]), ("v", [.int 10, .int 11, .int 12, .int 13, .int 14])]

example : exT.nrows ≠ 0 ∧ ["a"] ≠ [] ∧ ["a"].length ≠ exT.cols.length ∧
    exT.keysOf ([("a")].map .col) = .ok [.tuple [.cell (.int 2)], .tuple [.cell (.flt 4)],
      .tuple [.cell (.int 1)], .tuple [.cell (.flt 8)], .tuple [.cell .none]] := by
  refine ⟨by decide, by decide, by decide, rfl⟩

#guard (listbyG [.tuple [.cell (.int 2)], .tuple [.cell (.flt 4)], .tuple [.cell (.int 1)],
    .tuple [.cell (.flt 8)], .tuple [.cell .none]]).map (·.2) == [[4], [1, 2], [0, 3]]
#guard (match exT.listby ["a"] with
  | .ok l => (match l.unlist with
    | .ok u => u == [("a", [.cell .none, .cell (.int 1), .cell (.int 1), .cell (.flt 8), .cell (.flt 8)]),
                     ("v", [.cell (.int 14), .cell (.int 11), .cell (.int 12), .cell (.int 10), .cell (.int 13)])]
    | _ => false)
  | _ => false)

end Pyg.Props.C11
