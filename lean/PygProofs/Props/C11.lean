/-
  C11 — listby/unlist, groupby/ungroup and pivot/unpivot are lossless regroupings.
-/
import PygModel.Group
import PygProofs.Lemmas.JoinLemmas

namespace Pyg.Props.C11
open Pyg

/-- an empty table is returned as it is -/
theorem listby_empty (t : Table) (by_ : List String) (h : t.nrows = 0) : t.listby by_ = .ok t.toV := by
  simp [Table.listby, h]

end Pyg.Props.C11
