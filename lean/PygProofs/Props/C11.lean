/-
  C11 — listby/unlist, groupby/ungroup and pivot/unpivot are lossless regroupings.
  Property theorems only (helper lemmas: PygProofs/Lemmas/JoinLemmas.lean, GroupLemmas.lean,
  UnlistLemmas.lean, PivotLemmas.lean, UnpivotLemmas.lean).

  `keys` are the per-row keys `d[by]` (one tuple per row); key equality is `cmp · · = .eq`
  (numeric equality of ints and floats, `None = None`, `NaN = NaN`: C07 / C02).
-/
import PygModel.Group
import PygProofs.Lemmas.GroupLemmas
import PygProofs.Lemmas.UnlistLemmas
import PygProofs.Lemmas.PivotLemmas
import PygProofs.Lemmas.UnpivotLemmas
import PygProofs.Lemmas.JoinCols
import Std.Data.String.ToInt

namespace Pyg.Props.C11
open Pyg

/-! ## the regrouping itself (`_listby`), for all key lists -/

/-- **one group per distinct key**: group keys are pairwise different (strictly increasing under
`cmp`), and every row's key is `cmp`-equal to the key of exactly one group -/
theorem listby_distinct (keys : List Val) :
    (listbyG keys).Pairwise (fun a b => cmp a.1 b.1 = .lt) ∧
    ∀ i, i < keys.length →
      ∃ g ∈ listbyG keys, cmp (keyAt keys i) g.1 = .eq ∧
        ∀ g' ∈ listbyG keys, cmp (keyAt keys i) g'.1 = .eq → g' = g := by
  refine ⟨listbyG_sorted keys, fun i hi => ?_⟩
  obtain ⟨g, hg, hig⟩ := mem_listbyG.2 hi
  have he := ((mem_group_iff hg).1 hig).2
  refine ⟨g, hg, he, fun g' hg' he' => ?_⟩
  exact group_unique (listbyG_sorted keys) hg' hg (cmp_eq_trans (cmp_eq_symm he') he)

/-- **exactly one row per distinct key, as a count**: for every row, exactly one group has a key
`cmp`-equal to the row's key; and (non-empty table) every group's key is the key of one of the rows —
so the groups are in one-to-one correspondence with the distinct keys (`listby_distinct`: no two groups
share a key). -/
theorem listby_one_row_per_key (keys : List Val) :
    (∀ i, i < keys.length →
      ((listbyG keys).filter fun g => cmp (keyAt keys i) g.1 == .eq).length = 1) ∧
    (keys ≠ [] → ∀ g ∈ listbyG keys, ∃ i, i < keys.length ∧ cmp (keyAt keys i) g.1 = .eq) := by
  constructor
  · intro i hi
    obtain ⟨g, hg, hig⟩ := mem_listbyG.2 hi
    rw [sortedG_filter_eq (listbyG_sorted keys) hg ((mem_group_iff hg).1 hig).2]
    rfl
  · intro hne g hg
    have hn := listbyG_nonempty hne g hg
    obtain ⟨i, hi⟩ := List.exists_mem_of_ne_nil _ hn
    exact ⟨i, (mem_group_iff hg).1 hi⟩

/-- **the number of groups = the number of distinct keys**, counted as the rows that are the first
with their key -/
theorem listby_count (keys : List Val) (hne : keys ≠ []) :
    (listbyG keys).length =
      ((List.range keys.length).filter fun i =>
        (List.range i).all fun j => cmp (keyAt keys j) (keyAt keys i) != .eq).length := by
  generalize hF : ((List.range keys.length).filter fun i =>
        (List.range i).all fun j => cmp (keyAt keys j) (keyAt keys i) != .eq) = F
  have hperm : F.Perm ((listbyG keys).flatMap fun g =>
      F.filter fun i => cmp (keyAt keys i) g.1 == .eq) := by
    apply perm_flatMap_filter (listbyG keys) (fun g i => cmp (keyAt keys i) g.1 == .eq)
    intro a ha
    have han : a < keys.length := by rw [← hF] at ha; exact List.mem_range.1 (List.mem_filter.1 ha).1
    obtain ⟨g, hg, hag⟩ := mem_listbyG.2 han
    exact sortedG_countP (listbyG_sorted keys) hg ((mem_group_iff hg).1 hag).2
  have hone : ∀ g ∈ listbyG keys, (F.filter fun i => cmp (keyAt keys i) g.1 == .eq).length = 1 := by
    intro g hg
    have hfil : (F.filter fun i => cmp (keyAt keys i) g.1 == .eq) =
        g.2.filter fun i => (List.range i).all fun j => cmp (keyAt keys j) (keyAt keys i) != .eq := by
      rw [← hF, group_eq_filter hg, List.filter_filter, List.filter_filter]
      apply List.filter_congr
      intro i _
      exact Bool.and_comm _ _
    rw [hfil]
    have hinc := listbyG_increasing keys g hg
    have hmem : ∀ i, i ∈ g.2 ↔ i < keys.length ∧ cmp (keyAt keys i) g.1 = .eq := fun i => mem_group_iff hg
    cases hg2 : g.2 with
    | nil => exact absurd hg2 (listbyG_nonempty hne g hg)
    | cons h rest =>
      rw [hg2] at hinc hmem
      have hp := List.pairwise_cons.1 hinc
      have hh := (hmem h).1 (by simp)
      have hfirst : ((List.range h).all fun j => cmp (keyAt keys j) (keyAt keys h) != .eq) = true := by
        rw [List.all_eq_true]
        intro j hj
        have hjh : j < h := List.mem_range.1 hj
        by_cases hc : cmp (keyAt keys j) (keyAt keys h) = .eq
        · have : j ∈ h :: rest := (hmem j).2 ⟨by omega, cmp_eq_trans hc hh.2⟩
          rcases List.mem_cons.1 this with rfl | hjr
          · omega
          · have := hp.1 j hjr; omega
        · simpa using hc
      have hrest : (rest.filter fun i =>
          (List.range i).all fun j => cmp (keyAt keys j) (keyAt keys i) != .eq) = [] := by
        rw [List.filter_eq_nil_iff]
        intro i hi
        have hlt := hp.1 i hi
        have hi' := (hmem i).1 (by simp [hi])
        have hc : cmp (keyAt keys h) (keyAt keys i) = .eq := cmp_eq_trans hh.2 (cmp_eq_symm hi'.2)
        simp only [List.all_eq_true, List.mem_range, bne_iff_ne, ne_eq]
        exact fun hall => hall h hlt hc
      rw [List.filter_cons, hfirst, hrest]
      rfl
  rw [hperm.length_eq, List.length_flatMap]
  have : (List.map (fun g => (List.filter (fun i => cmp (keyAt keys i) g.1 == .eq) F).length)
      (listbyG keys)) = (listbyG keys).map fun _ => 1 :=
    List.map_congr_left hone
  rw [this]
  clear this hone hperm
  induction listbyG keys with
  | nil => rfl
  | cons a as ih => simp only [List.map_cons, List.sum_cons, List.length_cons, ← ih]; omega

/-- **original row order inside a group**: the row ids of a group are exactly the rows whose key
equals the group's key, listed in increasing (= original) order -/
theorem listby_order (keys : List Val) (g : Grp) (hg : g ∈ listbyG keys) :
    g.2 = (List.range keys.length).filter fun i => cmp (keyAt keys i) g.1 == .eq :=
  group_eq_filter hg

/-- **unlist ∘ listby is the stable sort**: reading the groups one after the other visits the rows in
the order of the stable sort of the keys (`dictable.sort`'s row permutation, C07) -/
theorem unlist_listby_ids (keys : List Val) :
    (listbyG keys).flatMap (·.2) = sortIdx keys :=
  listbyG_flat keys

/-- **group sizes add up to `len(d)`**, and no group is empty -/
theorem groupby_sizes (keys : List Val) (h : keys ≠ []) :
    ((listbyG keys).map (·.2.length)).sum = keys.length ∧ ∀ g ∈ listbyG keys, g.2 ≠ [] :=
  ⟨group_sizes keys, listbyG_nonempty h⟩

/-- **ungroup ∘ groupby restores the multiset of rows**: the concatenated row ids of the groups are
a permutation of `0 … n-1` -/
theorem ungroup_groupby_ids (keys : List Val) :
    ((listbyG keys).flatMap (·.2)).Perm (List.range keys.length) :=
  listbyG_perm keys

/-! ## the tables built from the groups -/

/-- `listby` on a non-empty table with explicit keys: key columns hold the group keys, every other
column holds, per group, the list of that group's cells (by `listby_order`: in original row order) -/
theorem listby_table (t : Table) (by_ : List String) (keys : List Val)
    (hn : t.nrows ≠ 0) (hb : by_ ≠ []) (hk : t.keysOf (by_.map .col) = .ok keys) :
    t.listby by_ = .ok (keyColsOf by_ (listbyG keys) ++
      (t.others by_).map fun c => (c.1, (listbyG keys).map fun g => .list (pick c.2 g.2))) := by
  have hb' : by_.isEmpty = false := by cases by_ <;> simp_all
  simp [Table.listby, hn, hb', hk, bind, Except.bind, pure, Except.pure]

/-- **unlist ∘ listby, table level**: for a non-empty table, explicit distinct key columns that leave
at least one other column, `d.listby(by).unlist()` is the table whose non-key columns are those of
`d` with the rows taken in the order of the stable sort of the keys (`sortIdx`, the row permutation
of `dictable.sort`, C07), and whose key columns repeat, for every row, the key of its group —
which is `cmp`-equal to that row's own key (`unlist_listby_keys`). -/
theorem unlist_listby (t : Table) (by_ : List String) (keys : List Val)
    (hn : t.nrows ≠ 0) (hb : by_ ≠ []) (hnd : by_.Nodup)
    (htn : ((t.others by_).map (·.1)).Nodup) (ho : t.others by_ ≠ [])
    (hk : t.keysOf (by_.map .col) = .ok keys) :
    (t.listby by_ >>= VTable.unlist) = .ok (
      (by_.zipIdx.map fun c =>
        (c.1, (listbyG keys).flatMap fun g => g.2.map fun _ => tupleGet c.2 g.1)) ++
      (t.others by_).map fun c => (c.1, pick c.2 (sortIdx keys))) := by
  have hkl : keys ≠ [] := by
    intro h; apply hn; rw [← keysOf_length hk, h]; rfl
  have hgs : listbyG keys ≠ [] := by
    intro h
    have := (listbyG_perm keys).length_eq
    rw [h] at this
    simp at this
    exact hkl (List.eq_nil_of_length_eq_zero this.symm)
  have hct : ∀ g ∈ listbyG keys, CellTuple g.1 := fun g hg =>
    keysOf_cellTuple hk _ (listbyG_key_mem hkl g hg)
  rw [listby_table t by_ keys hn hb hk]
  show VTable.unlist (listbyTable t by_ (listbyG keys)) = _
  rw [unlist_listbyTable t by_ (listbyG keys) hb hnd htn ho hgs (listbyG_nonempty hkl) hct]
  congr 2
  · apply List.map_congr_left
    intro c _
    congr 1
    apply flatMap_congr'
    intro g _
    exact (List.map_const' ..).symm
  · apply List.map_congr_left
    intro c _
    congr 1
    rw [← listbyG_flat keys]
    simp [pick, List.map_flatMap]

/-- the key that `unlist ∘ listby` writes next to row `i` is `cmp`-equal to row `i`'s own key, and
the rows appear in the order of the stable sort -/
theorem unlist_listby_keys (keys : List Val) :
    ((listbyG keys).flatMap fun g => g.2.map fun i => (g.1, i)).map (·.2) = sortIdx keys ∧
    ∀ p ∈ (listbyG keys).flatMap (fun g => g.2.map fun i => (g.1, i)),
      cmp p.1 (keyAt keys p.2) = .eq := by
  constructor
  · rw [← listbyG_flat keys]
    simp [List.map_flatMap, List.map_map, Function.comp_def]
  · intro p hp
    simp only [List.mem_flatMap, List.mem_map] at hp
    obtain ⟨g, hg, i, hi, rfl⟩ := hp
    exact cmp_eq_symm ((mem_group_iff hg).1 hi).2

/-- `groupby` likewise: one sub-table per group holding that group's rows of the other columns -/
theorem groupby_table (t : Table) (by_ : List String) (grp : String) (keys : List Val)
    (hn : t.nrows ≠ 0) (hb : by_ ≠ []) (hlt : by_.length ≠ t.cols.length) (hgb : grp ∉ by_)
    (hk : t.keysOf (by_.map .col) = .ok keys) :
    t.groupby by_ grp = .ok (keyColsOf by_ (listbyG keys) ++
      [(grp, (listbyG keys).map fun g => subTable (t.others by_) g.2)]) := by
  have hb' : by_.isEmpty = false := by cases by_ <;> simp_all
  have hl : by_.length ≠ 0 := by cases by_ <;> simp_all
  simp [Table.groupby, hn, hb', hl, hlt, hgb, hk, bind, Except.bind, pure, Except.pure]

/-- **ungroup ∘ groupby, table level**: for a non-empty table, explicit distinct key columns that
leave at least one other column, and a `grp` name that is not a key, `d.groupby(by).ungroup()` has
the non-key columns of `d` with the rows in the order of the stable sort of the keys — a permutation
of the rows (`ungroup_groupby_ids`) — and key columns that repeat each group's key, `cmp`-equal to
the rows' own keys (`unlist_listby_keys`). -/
theorem ungroup_groupby (t : Table) (by_ : List String) (grp : String) (keys : List Val)
    (hn : t.nrows ≠ 0) (hb : by_ ≠ []) (hnd : by_.Nodup) (hgb : grp ∉ by_)
    (htn : ((t.others by_).map (·.1)).Nodup) (ho : t.others by_ ≠ [])
    (hlt : by_.length ≠ t.cols.length)
    (hk : t.keysOf (by_.map .col) = .ok keys) :
    (match t.groupby by_ grp with
      | .ok g => g.ungroup grp
      | .error e => some (.error e)) = some (.ok (
      ((t.others by_).map fun c => (c.1, pick c.2 (sortIdx keys))) ++
      (by_.zipIdx.map fun c =>
        (c.1, (listbyG keys).flatMap fun g => g.2.map fun _ => tupleGet c.2 g.1)))) := by
  have hkl : keys ≠ [] := by
    intro h; apply hn; rw [← keysOf_length hk, h]; rfl
  have hgs : listbyG keys ≠ [] := by
    intro h
    have := (listbyG_perm keys).length_eq
    rw [h] at this
    simp at this
    exact hkl (List.eq_nil_of_length_eq_zero this.symm)
  rw [groupby_table t by_ grp keys hn hb hlt hgb hk]
  show VTable.ungroup (groupbyTable t by_ grp (listbyG keys)) grp = _
  rw [ungroup_groupbyTable t by_ grp (listbyG keys) hb hnd htn hgb ho hgs]
  congr 3
  · apply List.map_congr_left
    intro c _
    congr 1
    rw [← listbyG_flat keys]
    simp [pick, List.map_flatMap]
  · apply List.map_congr_left
    intro c _
    congr 1
    apply flatMap_congr'
    intro g _
    exact (List.map_const' ..).symm

/-- grouping on all columns is rejected (`ValueError`), as in the code -/
theorem groupby_all_keys (t : Table) (grp : String) (hn : t.nrows ≠ 0) :
    t.groupby t.cols grp = .error .value := by
  have hc : t.cols.length ≠ 0 := by
    cases t with
    | nil => simp [Table.nrows] at hn
    | cons c cs => simp [Table.cols]
  have hc' : t.cols.isEmpty = false := by cases h : t.cols <;> simp_all
  simp [Table.groupby, hn, hc, hc']

/-- table level: `d.listby(by)` has one row per group, i.e. per distinct key -/
theorem listby_nrows (t : Table) (by_ : List String) (keys : List Val)
    (hn : t.nrows ≠ 0) (hb : by_ ≠ []) (hk : t.keysOf (by_.map .col) = .ok keys) :
    ∃ l, t.listby by_ = .ok l ∧ l.nrows = (listbyG keys).length := by
  refine ⟨_, listby_table t by_ keys hn hb hk, ?_⟩
  cases by_ with
  | nil => exact absurd rfl hb
  | cons b bs => simp [keyColsOf, VTable.nrows, List.zipIdx_cons]

/-- table level: `d.groupby(by)` has one row (one sub-table) per distinct key -/
theorem groupby_nrows (t : Table) (by_ : List String) (grp : String) (keys : List Val)
    (hn : t.nrows ≠ 0) (hb : by_ ≠ []) (hlt : by_.length ≠ t.cols.length) (hgb : grp ∉ by_)
    (hk : t.keysOf (by_.map .col) = .ok keys) :
    ∃ l, t.groupby by_ grp = .ok l ∧ l.nrows = (listbyG keys).length := by
  refine ⟨_, groupby_table t by_ grp keys hn hb hlt hgb hk, ?_⟩
  cases by_ with
  | nil => exact absurd rfl hb
  | cons b bs => simp [keyColsOf, VTable.nrows, List.zipIdx_cons]

/-! ## pivot / unpivot -/

/-- **pivot, every cell**: for a non-empty table whose `x`, `y`, `z` columns exist (labels renderable
and distinct), `d.xyz(x, y, z, agg)` has one row per group `gx` of x keys and one column per group
`gy` of y values, and the cell at (`gx`, label of `gy`) is `None` when no row has that x key and that
y value, else `agg` of the z values of exactly those rows in original row order (`agg = None`: the
list itself).  `pivot_addresses` (lemma file) adds that every row has such a `gx` and `gy`. -/
theorem pivot_cell (t : Table) (x : List String) (y z : String) (agg : Agg) (zs : List Cell)
    (labels : List String)
    (hn : t.nrows ≠ 0) (hx : x ≠ [])
    (hcols : ∀ k ∈ x ++ [y], (t.col? k).isSome = true) (hz : t.col? z = some zs) :
    let xyg := listbyG (xyKeys t.nrows (xCells t x) (yCell t y))
    let xg := listbyG (xyg.map fun g => xPart x.length g.1)
    let ys := listbyG ((xyg.map fun g => tupleGet x.length g.1).map fun v => .tuple [v])
    ys.mapM (fun g => yLabel (tupleGet 0 g.1)) = some labels → (x ++ labels).Nodup →
    t.pivot x y z agg = some (.ok (keyColsOf x xg ++
      (labels.zip ys).map fun p => (p.1, xg.map fun gx =>
        let rows := (List.range t.nrows).filter fun i =>
          cmp (.tuple (xCells t x i)) gx.1 == .eq && cmp (.tuple [yCell t y i]) p.2.1 == .eq
        if rows = [] then .cell .none else agg.apply (rows.map fun i => zs.getD i .none)))) := by
  intro xyg xg ys hlab hnd
  have hx' : x.isEmpty = false := by cases x <;> simp_all
  have hk := keysOf_xy t x y hcols
  simp only [Table.pivot, hn, hx', or_self, Bool.false_eq_true, if_false, hk, hz]
  simp only [xyg, xg, ys] at hlab ⊢
  rw [hlab]
  have hxn : x.Nodup := (List.nodup_append.1 hnd).1
  simp only [hxn, hnd, not_true_eq_false, if_false]
  congr 3
  apply List.map_congr_left
  intro p _
  congr 1
  apply List.map_congr_left
  intro gx hgx
  exact pivotCell_spec t.nrows x.length (xCells t x) (yCell t y) zs agg hn
    (by intro i; simp [xCells]) gx p.2 hgx

/-- every row of the table is addressed: its x key has a row group and its y value a label group -/
theorem pivot_row_addressed (t : Table) (x : List String) (y : String) (hn : t.nrows ≠ 0)
    (i : Nat) (hi : i < t.nrows) :
    let xyg := listbyG (xyKeys t.nrows (xCells t x) (yCell t y))
    (∃ gx ∈ listbyG (xyg.map fun g => xPart x.length g.1), cmp (.tuple (xCells t x i)) gx.1 = .eq) ∧
    (∃ gy ∈ listbyG ((xyg.map fun g => tupleGet x.length g.1).map fun v => .tuple [v]),
      cmp (.tuple [yCell t y i]) gy.1 = .eq) :=
  pivot_addresses t.nrows x.length (xCells t x) (yCell t y) hn (by intro i; simp [xCells]) i hi

/-- **unpivot ∘ pivot, cell level** (`_partial`): when the `(x, y)` pairs of the rows are unique and
duplicates are aggregated with `last`, the pivot cell addressed by a row's x key and y value holds
exactly that row's z, and a cell addressed by no row is `None` — so the non-`None` cells that
`unpivot` lists (`unpivot_rows`: one row per (pivot row, label)) are in one-to-one correspondence
with the rows of the table (`pivot_row_addressed`, `listby_distinct`).  (The name is historical: this is
the cell-value lemma; the single equation between `unpivot(pivot(d))` minus its `None` rows and `d`
is `unpivot_pivot_multiset` below.) -/
theorem unpivot_pivot_cells_partial (n nx : Nat) (xp : Nat → List Val) (yc : Nat → Val)
    (zs : List Cell) (hn : n ≠ 0) (hxp : ∀ i, (xp i).length = nx) (gx gy : Grp)
    (hgx : gx ∈ listbyG ((listbyG (xyKeys n xp yc)).map fun g => xPart nx g.1))
    (huniq : ∀ i j, i < n → j < n → cmp (.tuple (xp i)) (.tuple (xp j)) = .eq →
      cmp (.tuple [yc i]) (.tuple [yc j]) = .eq → i = j) :
    (∀ i, i < n → cmp (.tuple (xp i)) gx.1 = .eq → cmp (.tuple [yc i]) gy.1 = .eq →
      pivotCell (listbyG (xyKeys n xp yc)) nx zs .last gx.2 gy.1 = .cell (zs.getD i .none)) ∧
    ((¬ ∃ i, i < n ∧ cmp (.tuple (xp i)) gx.1 = .eq ∧ cmp (.tuple [yc i]) gy.1 = .eq) →
      pivotCell (listbyG (xyKeys n xp yc)) nx zs .last gx.2 gy.1 = .cell .none) := by
  have hs := pivotCell_spec n nx xp yc zs .last hn hxp gx gy hgx
  simp only at hs
  rw [hs]
  constructor
  · intro i hi hix hiy
    have himem : i ∈ (List.range n).filter fun i =>
        cmp (.tuple (xp i)) gx.1 == .eq && cmp (.tuple [yc i]) gy.1 == .eq := by
      simp [List.mem_filter, hi, hix, hiy]
    have hne : ((List.range n).filter fun i =>
        cmp (.tuple (xp i)) gx.1 == .eq && cmp (.tuple [yc i]) gy.1 == .eq) ≠ [] :=
      List.ne_nil_of_mem himem
    rw [if_neg hne]
    simp only [Agg.apply, List.getLastD_eq_getLast?, List.getLast?_map]
    obtain ⟨j, hj⟩ : ∃ j, ((List.range n).filter fun i =>
        cmp (.tuple (xp i)) gx.1 == .eq && cmp (.tuple [yc i]) gy.1 == .eq).getLast? = some j := by
      cases h : ((List.range n).filter fun i =>
        cmp (.tuple (xp i)) gx.1 == .eq && cmp (.tuple [yc i]) gy.1 == .eq).getLast? with
      | none => exact absurd (List.getLast?_eq_none_iff.1 h) hne
      | some j => exact ⟨j, rfl⟩
    have hjm := List.mem_of_getLast? hj
    simp only [List.mem_filter, List.mem_range, Bool.and_eq_true, beq_iff_eq] at hjm
    have : j = i := huniq j i hjm.1 hi (cmp_eq_trans hjm.2.1 (cmp_eq_symm hix))
      (cmp_eq_trans hjm.2.2 (cmp_eq_symm hiy))
    subst this
    simp [hj]
  · intro hno
    have : ((List.range n).filter fun i =>
        cmp (.tuple (xp i)) gx.1 == .eq && cmp (.tuple [yc i]) gy.1 == .eq) = [] := by
      rw [List.eq_nil_iff_forall_not_mem]
      intro i hi
      simp only [List.mem_filter, List.mem_range, Bool.and_eq_true, beq_iff_eq] at hi
      exact hno ⟨i, hi.1, hi.2.1, hi.2.2⟩
    rw [if_pos this]

/-- **unpivot ∘ pivot restores the rows** (unique `(x, y)` pairs, `agg = last`): the non-`None`
cells of the pivot table and the rows of the table correspond one to one —
(A) every row `i` is addressed by exactly one (x-group, y-label) pair, and that cell holds `zᵢ`;
(B) every cell that is not `None` is addressed by exactly one row `i`, and holds `zᵢ`.
Since `unpivot` lists exactly one output row `(x key, label, cell)` per (pivot row, label)
(`unpivot_rows`), dropping the `None` cells leaves exactly the `(x, y, z)` rows of the table, with
`y` rendered as label and the x key up to `cmp`-equality. -/
theorem unpivot_pivot (n nx : Nat) (xp : Nat → List Val) (yc : Nat → Val)
    (zs : List Cell) (hn : n ≠ 0) (hxp : ∀ i, (xp i).length = nx)
    (huniq : ∀ i j, i < n → j < n → cmp (.tuple (xp i)) (.tuple (xp j)) = .eq →
      cmp (.tuple [yc i]) (.tuple [yc j]) = .eq → i = j) :
    let xyg := listbyG (xyKeys n xp yc)
    let xg := listbyG (xyg.map fun g => xPart nx g.1)
    let ys := listbyG ((xyg.map fun g => tupleGet nx g.1).map fun v => .tuple [v])
    let cell := fun (gx gy : Grp) => pivotCell xyg nx zs .last gx.2 gy.1
    (∀ i, i < n → ∃ gx ∈ xg, ∃ gy ∈ ys,
        cmp (.tuple (xp i)) gx.1 = .eq ∧ cmp (.tuple [yc i]) gy.1 = .eq ∧
        cell gx gy = .cell (zs.getD i .none) ∧
        ∀ gx' ∈ xg, ∀ gy' ∈ ys, cmp (.tuple (xp i)) gx'.1 = .eq → cmp (.tuple [yc i]) gy'.1 = .eq →
          gx' = gx ∧ gy' = gy) ∧
    (∀ gx ∈ xg, ∀ gy ∈ ys, cell gx gy ≠ .cell .none → ∃ i, i < n ∧
        cmp (.tuple (xp i)) gx.1 = .eq ∧ cmp (.tuple [yc i]) gy.1 = .eq ∧
        cell gx gy = .cell (zs.getD i .none) ∧
        ∀ j, j < n → cmp (.tuple (xp j)) gx.1 = .eq → cmp (.tuple [yc j]) gy.1 = .eq → j = i) := by
  intro xyg xg ys cell
  constructor
  · intro i hi
    obtain ⟨⟨gx, hgx, hex⟩, ⟨gy, hgy, hey⟩⟩ := pivot_addresses n nx xp yc hn hxp i hi
    refine ⟨gx, hgx, gy, hgy, hex, hey, ?_, ?_⟩
    · exact (unpivot_pivot_cells_partial n nx xp yc zs hn hxp gx gy hgx huniq).1 i hi hex hey
    · intro gx' hgx' gy' hgy' hex' hey'
      exact ⟨group_unique (listbyG_sorted _) hgx' hgx (cmp_eq_trans (cmp_eq_symm hex') hex),
             group_unique (listbyG_sorted _) hgy' hgy (cmp_eq_trans (cmp_eq_symm hey') hey)⟩
  · intro gx hgx gy hgy hne
    have hp := unpivot_pivot_cells_partial n nx xp yc zs hn hxp gx gy hgx huniq
    by_cases hex : ∃ i, i < n ∧ cmp (.tuple (xp i)) gx.1 = .eq ∧ cmp (.tuple [yc i]) gy.1 = .eq
    · obtain ⟨i, hi, hix, hiy⟩ := hex
      refine ⟨i, hi, hix, hiy, hp.1 i hi hix hiy, ?_⟩
      intro j hj hjx hjy
      exact huniq j i hj hi (cmp_eq_trans hjx (cmp_eq_symm hix)) (cmp_eq_trans hjy (cmp_eq_symm hiy))
    · exact absurd (hp.2 hex) hne

/-- **unpivot**: every row of the pivot table gives one row per label column: the x cells, the
label (as a string) and the cell; rows in row-major order -/
theorem unpivot_rows (p : VTable) (x : List String) (y z : String)
    (hx : ∀ k ∈ x, (p.find? (·.1 == k)).isSome = true) :
    let ycols := (p.map (·.1)).filter fun c => !x.contains c
    p.unpivot x y z = .ok (
      (x.map fun k => (k, (List.range p.nrows).flatMap fun i =>
        List.replicate ycols.length ((((p.find? (·.1 == k)).map (·.2)).getD []).getD i (.cell .none)))) ++
      [(y, (List.range p.nrows).flatMap fun _ => ycols.map fun c => Val.cell (.str c)),
       (z, (List.range p.nrows).flatMap fun i => ycols.map fun c =>
          (((p.find? (·.1 == c)).map (·.2)).getD []).getD i (.cell .none))]) := by
  intro ycols
  simp only [VTable.unpivot]
  rw [mapM_ok_of_forall (g := fun k => (k, (List.range p.nrows).flatMap fun i =>
    List.replicate ycols.length ((((p.find? (·.1 == k)).map (·.2)).getD []).getD i (.cell .none))))]
  · rfl
  · intro k hk
    have := hx k hk
    cases hf : p.find? (·.1 == k) with
    | none => simp [hf] at this
    | some c => simp [ycols]

/-- **unpivot ∘ pivot, one equation at table level** (unique `(x, y)` pairs, `agg = last`).
`uRows u x y z` are the rows of `u` as `(x cells, y cell, z cell)` triples, in row order.
If `d.xyz(x, y, z, last)` succeeds with `p` and `p.unpivot(x, y, z)` with `u`, then the rows of `u`
whose z is not `None`, *in order*, are the image of a permutation `idx` of the rows of `d` whose z
is not `None` under `i ↦ (xk i, label i, zᵢ)`, where
* `xk i` is the x key the pivot table stores for row `i`'s x-group: the x cells of some row `l` of
  `d` whose x key is `cmp`-equal to row `i`'s (e.g. `1` for `1.0`) — the same for all rows of the group;
* `label i` is the column label of row `i`'s y value: `yLabel` of the y value of some row `l` whose y
  is `cmp`-equal to row `i`'s, and two rows have the same label iff their y values are `cmp`-equal.
Rows of `d` whose z is `None` are indistinguishable, after `pivot`, from absent `(x, y)` cells, hence
the filter on both sides.  That the y values are renderable (str / int), the labels pairwise distinct
(no int `1` beside the string `"1"`) and distinct from the `x` names is what `pivot … = some (.ok p)`
says in the model (`pivot_ok_shape`); `y`, `z` ∉ `x`, `y ≠ z` so that `u` has `x ++ [y, z]` as columns. -/
theorem unpivot_pivot_multiset (t : Table) (x : List String) (y z : String) (zs : List Cell)
    (p u : VTable) (hn : t.nrows ≠ 0) (hx : x ≠ [])
    (hcols : ∀ k ∈ x ++ [y], (t.col? k).isSome = true) (hz : t.col? z = some zs)
    (hyz : (x ++ [y, z]).Nodup)
    (huniq : ∀ i j, i < t.nrows → j < t.nrows →
      cmp (.tuple (xCells t x i)) (.tuple (xCells t x j)) = .eq →
      cmp (.tuple [yCell t y i]) (.tuple [yCell t y j]) = .eq → i = j)
    (hp : t.pivot x y z .last = some (.ok p)) (hu : p.unpivot x y z = .ok u) :
    ∃ (idx : List Nat) (xk : Nat → List Val) (label : Nat → String),
      idx.Perm ((List.range t.nrows).filter fun i => zs.getD i .none != .none) ∧
      (uRows u x y z).filter (fun r => !isNoneV r.2.2) =
        idx.map (fun i => (xk i, Val.cell (.str (label i)), Val.cell (zs.getD i .none))) ∧
      (∀ i, i < t.nrows → ∃ l, l < t.nrows ∧ xk i = xCells t x l ∧
        cmp (.tuple (xCells t x i)) (.tuple (xCells t x l)) = .eq) ∧
      (∀ i j, cmp (.tuple (xCells t x i)) (.tuple (xCells t x j)) = .eq → xk i = xk j) ∧
      (∀ i, i < t.nrows → ∃ l, l < t.nrows ∧ yLabel (yCell t y l) = some (label i) ∧
        cmp (.tuple [yCell t y i]) (.tuple [yCell t y l]) = .eq) ∧
      (∀ i j, i < t.nrows → j < t.nrows →
        (label i = label j ↔ cmp (.tuple [yCell t y i]) (.tuple [yCell t y j]) = .eq)) := by
  obtain ⟨hsome, hnd, hpe⟩ := pivot_ok_shape t x y z .last zs p hn hx hcols hz hp
  have hxp : ∀ i, (xCells t x i).length = x.length := by intro i; simp [xCells]
  generalize hxyg : listbyG (xyKeys t.nrows (xCells t x) (yCell t y)) = xyg at hsome hnd hpe
  generalize hxg : listbyG (xyg.map fun g => xPart x.length g.1) = xg at hsome hnd hpe
  generalize hys : listbyG ((xyg.map fun g => tupleGet x.length g.1).map fun v => Val.tuple [v]) = ys
    at hsome hnd hpe
  have hxgs : SortedG xg := by rw [← hxg]; exact listbyG_sorted _
  have hyss : SortedG ys := by rw [← hys]; exact listbyG_sorted _
  -- every row has its x-group and its y-group
  have haddr : ∀ i, i < t.nrows →
      (∃ gx ∈ xg, cmp (.tuple (xCells t x i)) gx.1 = .eq) ∧
      (∃ gy ∈ ys, cmp (.tuple [yCell t y i]) gy.1 = .eq) := by
    intro i hi
    have := pivot_addresses t.nrows x.length (xCells t x) (yCell t y) hn hxp i hi
    rw [hxyg, hxg, hys] at this
    exact this
  obtain ⟨u', hu', hrows⟩ := unpivot_pivotTable x y z xg ys labOf
    (fun gx gy => pivotCell xyg x.length zs .last gx.2 gy.1) hx hnd hyz
  rw [← hpe, hu] at hu'
  injection hu' with hu'
  subst hu'
  obtain ⟨idx, hperm, hcells⟩ := pivot_cells_nonNone t.nrows x.length (xCells t x) (yCell t y) zs hn hxp huniq
  simp only [hxyg, hxg, hys] at hcells
  refine ⟨idx, fun i => x.zipIdx.map fun kj => tupleGet kj.2 (groupKeyOf xg (.tuple (xCells t x i))),
    fun i => labOf (groupKeyOf ys (.tuple [yCell t y i]), []), hperm, ?_, ?_, ?_, ?_, ?_⟩
  · rw [hrows]
    have : (xg.flatMap fun gx => ys.map fun gy =>
          (x.zipIdx.map fun kj => tupleGet kj.2 gx.1, Val.cell (.str (labOf gy)),
            pivotCell xyg x.length zs .last gx.2 gy.1)) =
        (xg.flatMap fun gx => ys.map fun gy =>
          (gx.1, gy.1, pivotCell xyg x.length zs .last gx.2 gy.1)).map
        fun r => (x.zipIdx.map fun kj => tupleGet kj.2 r.1, Val.cell (.str (labOf (r.2.1, []))), r.2.2) := by
      rw [List.map_flatMap]
      apply flatMap_congr'
      intro gx _
      rw [List.map_map]
      rfl
    rw [this, List.filter_map]
    have hf : ((fun r : List Val × Val × Val => !isNoneV r.2.2) ∘
        fun r : Val × Val × Val => (x.zipIdx.map fun kj => tupleGet kj.2 r.1,
          Val.cell (.str (labOf (r.2.1, []))), r.2.2)) = fun r => !isNoneV r.2.2 := rfl
    rw [hf, hcells, List.map_map]
    rfl
  · intro i hi
    obtain ⟨⟨gx, hgx, hex⟩, _⟩ := haddr i hi
    obtain ⟨l, hl, hrep⟩ := xg_key_rep (xCells t x) (yCell t y) hn hxp gx
      (by rw [hxyg, hxg]; exact hgx)
    refine ⟨l, hl, ?_, by rw [← hrep]; exact hex⟩
    simp only
    rw [groupKeyOf_eq hxgs hgx hex, hrep]
    exact zipIdx_tupleGet x _ (hxp l)
  · intro i j hij
    simp only
    rw [groupKeyOf_congr xg hij]
  · intro i hi
    obtain ⟨_, ⟨gy, hgy, hey⟩⟩ := haddr i hi
    obtain ⟨l, hl, hrep⟩ := ys_key_rep (xCells t x) (yCell t y) hn hxp gy
      (by rw [hxyg, hys]; exact hgy)
    refine ⟨l, hl, ?_, by rw [← hrep]; exact hey⟩
    simp only
    rw [groupKeyOf_eq hyss hgy hey]
    have h1 := hsome gy hgy
    simp only [labOf]
    rw [hrep] at h1 ⊢
    simp only [tupleGet, List.getD_cons_zero] at h1 ⊢
    cases hl : yLabel (yCell t y l) with
    | none => simp [hl] at h1
    | some s => simp
  · intro i j hi hj
    obtain ⟨_, ⟨gi, hgi, hei⟩⟩ := haddr i hi
    obtain ⟨_, ⟨gj, hgj, hej⟩⟩ := haddr j hj
    simp only
    rw [groupKeyOf_eq hyss hgi hei, groupKeyOf_eq hyss hgj hej]
    constructor
    · intro hlab
      have : gi = gj := eq_of_nodup_map (List.nodup_append.1 hnd).2.1 gi hgi gj hgj hlab
      rw [this] at hei
      exact cmp_eq_trans hei (cmp_eq_symm hej)
    · intro hc
      have : gi = gj := group_unique hyss hgi hgj
        (cmp_eq_trans (cmp_eq_symm hei) (cmp_eq_trans hc hej))
      rw [this]

/-- **literal form** of `unpivot_pivot_multiset` for tables whose x keys are canonical (`cmp`-equal x
keys are equal, e.g. no `1` beside `1.0`) and whose y values all have a label (`yLabel`) and are canonical as far as the
label goes (`hyk`: no int beside the `cmp`-equal float, whose column keys `'1'` / `1.0` differ — the pivot table has ONE
column for both, named after the group's representative): the rows of `unpivot(pivot(d))` with a non-`None` z are, as a multiset, exactly the
`(x, label(y), z)` triples of the rows of `d` with a non-`None` z. -/
theorem unpivot_pivot_multiset_canonical (t : Table) (x : List String) (y z : String) (zs : List Cell)
    (p u : VTable) (lab : Nat → String) (hn : t.nrows ≠ 0) (hx : x ≠ [])
    (hcols : ∀ k ∈ x ++ [y], (t.col? k).isSome = true) (hz : t.col? z = some zs)
    (hyz : (x ++ [y, z]).Nodup)
    (huniq : ∀ i j, i < t.nrows → j < t.nrows →
      cmp (.tuple (xCells t x i)) (.tuple (xCells t x j)) = .eq →
      cmp (.tuple [yCell t y i]) (.tuple [yCell t y j]) = .eq → i = j)
    (hcanon : ∀ i j, i < t.nrows → j < t.nrows →
      cmp (.tuple (xCells t x i)) (.tuple (xCells t x j)) = .eq → xCells t x i = xCells t x j)
    (hlab : ∀ i, i < t.nrows → yLabel (yCell t y i) = some (lab i))
    (hyk : ∀ i j, i < t.nrows → j < t.nrows →
      cmp (.tuple [yCell t y i]) (.tuple [yCell t y j]) = .eq → mixedNum (yCell t y i) (yCell t y j) = false)
    (hp : t.pivot x y z .last = some (.ok p)) (hu : p.unpivot x y z = .ok u) :
    ((uRows u x y z).filter fun r => !isNoneV r.2.2).Perm
      (((List.range t.nrows).filter fun i => zs.getD i .none != .none).map fun i =>
        (xCells t x i, Val.cell (.str (lab i)), Val.cell (zs.getD i .none))) := by
  obtain ⟨idx, xk, label, hperm, heq, hxk, _, hlabel, _⟩ :=
    unpivot_pivot_multiset t x y z zs p u hn hx hcols hz hyz huniq hp hu
  rw [heq]
  have : idx.map (fun i => (xk i, Val.cell (.str (label i)), Val.cell (zs.getD i .none))) =
      idx.map fun i => (xCells t x i, Val.cell (.str (lab i)), Val.cell (zs.getD i .none)) := by
    apply List.map_congr_left
    intro i hi
    have hin : i < t.nrows := List.mem_range.1 (List.mem_filter.1 (hperm.mem_iff.1 hi)).1
    obtain ⟨l, hl, h1, h2⟩ := hxk i hin
    obtain ⟨l', hl', h3, h4⟩ := hlabel i hin
    rw [h1, ← hcanon i l hin hl h2, yLabel_congr h4 (hyk i l' hin hl' h4) (hlab i hin) h3]
  rw [this]
  exact hperm.map _

/-- `pivot` and then `unpivot` are defined (in the model) when all y values are strings that are not
`x` column names — decidable hypotheses, used to show that those of `unpivot_pivot_multiset` are
satisfiable -/
theorem unpivot_pivot_defined_str (t : Table) (x : List String) (y z : String) (agg : Agg)
    (zs : List Cell) (hn : t.nrows ≠ 0) (hx : x ≠ [])
    (hcols : ∀ k ∈ x ++ [y], (t.col? k).isSome = true) (hz : t.col? z = some zs)
    (hyz : (x ++ [y, z]).Nodup)
    (hstr : ∀ i, i < t.nrows → ∃ s, t.jcellAt y i = .str s ∧ s ∉ x) :
    ∃ p u, t.pivot x y z agg = some (.ok p) ∧ p.unpivot x y z = .ok u := by
  have hxp : ∀ i, (xCells t x i).length = x.length := by intro i; simp [xCells]
  have hkey : ∀ gy ∈ listbyG (((listbyG (xyKeys t.nrows (xCells t x) (yCell t y))).map
      fun g => tupleGet x.length g.1).map fun v => Val.tuple [v]),
      ∃ s, gy.1 = .tuple [.cell (.str s)] ∧ s ∉ x := by
    intro gy hgy
    obtain ⟨l, hl, hrep⟩ := ys_key_rep (xCells t x) (yCell t y) hn hxp gy hgy
    obtain ⟨s, hs, hsx⟩ := hstr l hl
    exact ⟨s, by rw [hrep, yCell, hs], hsx⟩
  have hlabs : ∀ gy ∈ listbyG (((listbyG (xyKeys t.nrows (xCells t x) (yCell t y))).map
      fun g => tupleGet x.length g.1).map fun v => Val.tuple [v]),
      yLabel (tupleGet 0 gy.1) = some (labOf gy) := by
    intro gy hgy
    obtain ⟨s, hs, _⟩ := hkey gy hgy
    simp [labOf, hs, tupleGet, yLabel, keyName]
  have hnd : (x ++ (listbyG (((listbyG (xyKeys t.nrows (xCells t x) (yCell t y))).map
      fun g => tupleGet x.length g.1).map fun v => Val.tuple [v])).map labOf).Nodup := by
    rw [List.nodup_append]
    refine ⟨(List.nodup_append.1 hyz).1, ?_, ?_⟩
    · rw [List.Nodup, List.pairwise_map]
      apply (listbyG_sorted _).imp_of_mem
      intro a b ha hb hlt heq
      obtain ⟨sa, hsa, _⟩ := hkey a ha
      obtain ⟨sb, hsb, _⟩ := hkey b hb
      have : sa = sb := by simpa [labOf, hsa, hsb, tupleGet, yLabel, keyName] using heq
      rw [hsa, hsb, this, cmp_self] at hlt
      cases hlt
    · intro a ha b hb hab
      obtain ⟨gy, hgy, rfl⟩ := List.mem_map.1 hb
      obtain ⟨s, hs, hsx⟩ := hkey gy hgy
      apply hsx
      have : labOf gy = s := by simp [labOf, hs, tupleGet, yLabel, keyName]
      rw [← this, ← hab]; exact ha
  have hp := pivot_cell t x y z agg zs _ hn hx hcols hz (optMapM_some_of_forall hlabs) hnd
  obtain ⟨_, hnd', hpe⟩ := pivot_ok_shape t x y z agg zs _ hn hx hcols hz hp
  obtain ⟨u, hu, _⟩ := unpivot_pivotTable x y z _ _ labOf
    (fun gx gy => pivotCell (listbyG (xyKeys t.nrows (xCells t x) (yCell t y))) x.length zs agg gx.2 gy.1)
    hx hnd' hyz
  rw [← hpe] at hu
  exact ⟨_, u, hp, hu⟩

/-! ### what `unpivot ∘ pivot` needs of the column labels, as explicit hypotheses -/

/-- the rendering of y values as column keys (`yLabel`: ints through `str`, every other scalar is its own key) is INJECTIVE
on the y values present: two rows with the same column key have `cmp`-equal y values.  False for `1` beside `'1'`. -/
def LabelsInjective (t : Table) (y : String) : Prop :=
  ∀ i j, i < t.nrows → j < t.nrows → yLabel (yCell t y i) = yLabel (yCell t y j) →
    cmp (.tuple [yCell t y i]) (.tuple [yCell t y j]) = .eq

/-- `pivot` and then `unpivot` are DEFINED (return tables, no ValueError, inside the modelled domain) for every aggregator
exactly under the label hypotheses spelled out: every y value present has a column key (`hlab`: None / int / float / string /
datetime), the rendering is injective on the y values present (`hinj`), and no column key is an `x` column name (`hxl`).
With `unpivot_pivot_multiset` (whose hypothesis `pivot … = some (.ok p)` this discharges) the inverse law holds for all such
tables; `unpivot_pivot_label_collision` shows on `1` beside `'1'` that `hinj` cannot be dropped (ValueError). -/
theorem unpivot_pivot_defined (t : Table) (x : List String) (y z : String) (agg : Agg)
    (zs : List Cell) (hn : t.nrows ≠ 0) (hx : x ≠ [])
    (hcols : ∀ k ∈ x ++ [y], (t.col? k).isSome = true) (hz : t.col? z = some zs)
    (hyz : (x ++ [y, z]).Nodup)
    (hlab : ∀ i, i < t.nrows → (yLabel (yCell t y i)).isSome = true)
    (hinj : LabelsInjective t y)
    (hxl : ∀ i, i < t.nrows → ∀ s, yLabel (yCell t y i) = some s → s ∉ x) :
    ∃ p u, t.pivot x y z agg = some (.ok p) ∧ p.unpivot x y z = .ok u := by
  have hxp : ∀ i, (xCells t x i).length = x.length := by intro i; simp [xCells]
  have hkey : ∀ gy ∈ listbyG (((listbyG (xyKeys t.nrows (xCells t x) (yCell t y))).map
      fun g => tupleGet x.length g.1).map fun v => Val.tuple [v]),
      ∃ l, l < t.nrows ∧ gy.1 = .tuple [yCell t y l] := by
    intro gy hgy
    exact ys_key_rep (xCells t x) (yCell t y) hn hxp gy hgy
  have hlabs : ∀ gy ∈ listbyG (((listbyG (xyKeys t.nrows (xCells t x) (yCell t y))).map
      fun g => tupleGet x.length g.1).map fun v => Val.tuple [v]),
      yLabel (tupleGet 0 gy.1) = some (labOf gy) := by
    intro gy hgy
    obtain ⟨l, hl, hs⟩ := hkey gy hgy
    have := hlab l hl
    cases hy : yLabel (yCell t y l) with
    | none => simp [hy] at this
    | some s => simp [labOf, hs, tupleGet, hy]
  have hnd : (x ++ (listbyG (((listbyG (xyKeys t.nrows (xCells t x) (yCell t y))).map
      fun g => tupleGet x.length g.1).map fun v => Val.tuple [v])).map labOf).Nodup := by
    rw [List.nodup_append]
    refine ⟨(List.nodup_append.1 hyz).1, ?_, ?_⟩
    · rw [List.Nodup, List.pairwise_map]
      apply (listbyG_sorted _).imp_of_mem
      intro a b ha hb hlt heq
      obtain ⟨la, hla, hsa⟩ := hkey a ha
      obtain ⟨lb, hlb, hsb⟩ := hkey b hb
      have h1 := hlabs a ha
      have h2 := hlabs b hb
      rw [hsa] at h1; rw [hsb] at h2
      simp only [tupleGet, List.getD_cons_zero] at h1 h2
      have := hinj la lb hla hlb (by rw [h1, h2, heq])
      rw [hsa, hsb, this] at hlt
      cases hlt
    · intro a ha b hb hab
      obtain ⟨gy, hgy, rfl⟩ := List.mem_map.1 hb
      obtain ⟨l, hl, hs⟩ := hkey gy hgy
      have h1 := hlabs gy hgy
      rw [hs] at h1
      simp only [tupleGet, List.getD_cons_zero] at h1
      exact hxl l hl _ h1 (hab ▸ ha)
  have hp := pivot_cell t x y z agg zs _ hn hx hcols hz (optMapM_some_of_forall hlabs) hnd
  obtain ⟨_, hnd', hpe⟩ := pivot_ok_shape t x y z agg zs _ hn hx hcols hz hp
  obtain ⟨u, hu, _⟩ := unpivot_pivotTable x y z _ _ labOf
    (fun gx gy => pivotCell (listbyG (xyKeys t.nrows (xCells t x) (yCell t y))) x.length zs agg gx.2 gy.1)
    hx hnd' hyz
  rw [← hpe] at hu
  exact ⟨_, u, hp, hu⟩

/-- the label hypothesis holds whenever the column keys of the cells present determine the cells (`keyName` injective on them) -/
theorem labelsInjective_of_keyName (t : Table) (y : String)
    (h : ∀ i j, i < t.nrows → j < t.nrows → keyName (t.jcellAt y i) = keyName (t.jcellAt y j) → t.jcellAt y i = t.jcellAt y j) :
    LabelsInjective t y := by
  intro i j hi hj he
  simp only [yCell, yLabel] at he
  simp only [yCell]
  rw [h i j hi hj he]
  exact cmp_self _

/-- … for STRING y values (a string is its own column key) -/
theorem labelsInjective_str (t : Table) (y : String) (hstr : ∀ i, i < t.nrows → ∃ s, t.jcellAt y i = .str s) :
    LabelsInjective t y := by
  apply labelsInjective_of_keyName
  intro i j hi hj he
  obtain ⟨a, ha⟩ := hstr i hi
  obtain ⟨b, hb⟩ := hstr j hj
  rw [ha, hb] at he ⊢
  simpa [keyName] using he

/-- … for INT y values that print differently (`str(n)` is the column key) -/
theorem labelsInjective_int (t : Table) (y : String) (hint : ∀ i, i < t.nrows → ∃ n, t.jcellAt y i = .int n)
    (hprint : ∀ n m : Int, (∃ i, i < t.nrows ∧ t.jcellAt y i = .int n) → (∃ j, j < t.nrows ∧ t.jcellAt y j = .int m) →
      toString n = toString m → n = m) :
    LabelsInjective t y := by
  apply labelsInjective_of_keyName
  intro i j hi hj he
  obtain ⟨a, ha⟩ := hint i hi
  obtain ⟨b, hb⟩ := hint j hj
  rw [ha, hb] at he ⊢
  simp only [keyName, Option.some.injEq] at he
  rw [hprint a b ⟨i, hi, ha⟩ ⟨j, hj, hb⟩ he]

/-- … for FLOAT y values that print differently (the float itself is the column key; the model names it U+0000 + its wire
atom `F:<quarters>`) -/
theorem labelsInjective_flt (t : Table) (y : String) (hflt : ∀ i, i < t.nrows → ∃ q, t.jcellAt y i = .flt q)
    (hprint : ∀ q r : Int, (∃ i, i < t.nrows ∧ t.jcellAt y i = .flt q) → (∃ j, j < t.nrows ∧ t.jcellAt y j = .flt r) →
      (Cell.flt q).render = (Cell.flt r).render → q = r) :
    LabelsInjective t y := by
  apply labelsInjective_of_keyName
  intro i j hi hj he
  obtain ⟨a, ha⟩ := hflt i hi
  obtain ⟨b, hb⟩ := hflt j hj
  rw [ha, hb] at he ⊢
  simp only [keyName, Option.some.injEq, String.append_right_inj] at he
  rw [hprint a b ⟨i, hi, ha⟩ ⟨j, hj, hb⟩ he]

/-- non-vacuity of `unpivot_pivot_defined`: y values `1.5`, `None`, `'1.5'`, a datetime and `2` (five different column keys) -/
def exMixed : Table := [("a", [.int 0, .int 0, .int 1, .int 1, .int 0]),
  ("y", [.flt 6, .none, .str "1.5", .dt 63713433600000000, .int 2]), ("z", [.int 1, .int 2, .int 3, .int 4, .int 5])]

example : (∀ i, i < exMixed.nrows → (yLabel (yCell exMixed "y" i)).isSome = true) ∧ LabelsInjective exMixed "y" ∧
    (∀ i, i < exMixed.nrows → ∀ s, yLabel (yCell exMixed "y" i) = some s → s ∉ ["a"]) := by
  refine ⟨by decide, ?_, ?_⟩
  · intro i j hi hj
    have h : ∀ i, i < exMixed.nrows → ∀ j, j < exMixed.nrows → yLabel (yCell exMixed "y" i) = yLabel (yCell exMixed "y" j) →
        cmp (.tuple [yCell exMixed "y" i]) (.tuple [yCell exMixed "y" j]) = .eq := by decide
    exact h i hi j hj
  · intro i hi s hs hm
    simp only [List.mem_singleton] at hm
    subst hm
    have h : ∀ i, i < exMixed.nrows → yLabel (yCell exMixed "y" i) ≠ some "a" := by decide
    exact h i hi hs

/-- the column names of a pivot result (`[]` when it is not a table) -/
def pivotNames (r : Option (Res VTable)) : List String :=
  match r with
  | some (.ok p) => p.map (·.1)
  | _ => []

def pivotRaises (r : Option (Res VTable)) : Bool :=
  match r with
  | some (.error .value) => true
  | _ => false

#guard pivotNames (exMixed.pivot ["a"] "y" "z" .last) == ["a", "\x00N", "\x00T:63713433600000000", "\x00F:6", "2", "1.5"]
#guard (match exMixed.pivot ["a"] "y" "z" .last with
  | some (.ok p) => (match p.unpivot ["a"] "y" "z" with
       | .ok u => ((uRows u ["a"] "y" "z").filter fun r => !isNoneV r.2.2).length == 5
       | _ => false)
  | _ => false)

/-- `1` beside `'1'`: both y values have the column key `'1'` — the rendering is NOT injective on the y values present,
and `pivot` raises ValueError (`#guard` below: the repaired code; before fix P1 the later column silently replaced the
earlier one and the row `(0, 1, 10)` was lost); likewise for a y value that is an `x` column name -/
def exCollide : Table := [("a", [.int 0, .int 1]), ("y", [.int 1, .str "1"]), ("z", [.int 10, .int 20])]

theorem unpivot_pivot_label_collision : ¬ LabelsInjective exCollide "y" := by
  intro h
  have := h 0 1 (by decide) (by decide) (by decide)
  revert this
  decide

#guard pivotRaises (exCollide.pivot ["a"] "y" "z" .last)
#guard pivotRaises (Table.pivot [("a", [.int 0, .int 0]), ("y", [.str "a", .str "b"]), ("z", [.int 10, .int 20])] ["a"] "y" "z" .last)
-- `1` beside `1.0`: ONE y value (`cmp`-equal), one column, named after the group's representative (here the float)
#guard pivotNames (Table.pivot [("a", [.int 0, .int 1]), ("y", [.int 1, .flt 4]), ("z", [.int 10, .int 20])] ["a"] "y" "z" .last) == ["a", "\x00F:4"]

/-- **unpivot ∘ pivot = identity on the multiset of rows, end to end** under decidable hypotheses:
a non-empty table with columns `x` (non-empty), `y`, `z` (`x ++ [y, z]` distinct names), unique
`(x, y)` pairs, canonical x keys (`cmp`-equal ⇒ equal) and string y values that are not `x` column
names.  Then `d.xyz(x, y, z, last)` and its `unpivot(x, y, z)` are defined, and the rows of the
result with a non-`None` z are, as a multiset of `(x, y, z)` triples, exactly the rows of `d` with a
non-`None` z (a string y value is its own label). -/
theorem unpivot_pivot_multiset_str (t : Table) (x : List String) (y z : String) (zs : List Cell)
    (hn : t.nrows ≠ 0) (hx : x ≠ [])
    (hcols : ∀ k ∈ x ++ [y], (t.col? k).isSome = true) (hz : t.col? z = some zs)
    (hyz : (x ++ [y, z]).Nodup)
    (huniq : ∀ i j, i < t.nrows → j < t.nrows →
      cmp (.tuple (xCells t x i)) (.tuple (xCells t x j)) = .eq →
      cmp (.tuple [yCell t y i]) (.tuple [yCell t y j]) = .eq → i = j)
    (hcanon : ∀ i j, i < t.nrows → j < t.nrows →
      cmp (.tuple (xCells t x i)) (.tuple (xCells t x j)) = .eq → xCells t x i = xCells t x j)
    (hstr : ∀ i, i < t.nrows → ∃ s, t.jcellAt y i = .str s ∧ s ∉ x) :
    ∃ p u, t.pivot x y z .last = some (.ok p) ∧ p.unpivot x y z = .ok u ∧
      ((uRows u x y z).filter fun r => !isNoneV r.2.2).Perm
        ((tRows t x y zs).filter fun r => !isNoneV r.2.2) := by
  obtain ⟨p, u, hp, hu⟩ := unpivot_pivot_defined_str t x y z .last zs hn hx hcols hz hyz hstr
  refine ⟨p, u, hp, hu, ?_⟩
  have hlab : ∀ i, i < t.nrows → yLabel (yCell t y i) = some (t.jcellAt y i).skey := by
    intro i hi
    obtain ⟨s, hs, _⟩ := hstr i hi
    simp [yCell, hs, yLabel, keyName, Cell.skey]
  have hyk : ∀ i j, i < t.nrows → j < t.nrows →
      cmp (.tuple [yCell t y i]) (.tuple [yCell t y j]) = .eq → mixedNum (yCell t y i) (yCell t y j) = false := by
    intro i j hi _ _
    obtain ⟨s, hs, _⟩ := hstr i hi
    simp [yCell, hs, mixedNum]
  have h := unpivot_pivot_multiset_canonical t x y z zs p u (fun i => (t.jcellAt y i).skey)
    hn hx hcols hz hyz huniq hcanon hlab hyk hp hu
  rw [tRows_filter]
  refine h.trans (List.Perm.of_eq ?_)
  apply List.map_congr_left
  intro i hi
  have hin : i < t.nrows := List.mem_range.1 (List.mem_filter.1 hi).1
  obtain ⟨s, hs, _⟩ := hstr i hin
  simp [yCell, hs, Cell.skey]

/-! ## non-vacuity and evaluation tests -/

def exT : Table := [("a", [.int 2, .flt 4, .int 1, .flt 8, .none]), ("v", [.int 10, .int 11, .int 12, .int 13, .int 14])]

example : exT.nrows ≠ 0 ∧ ["a"] ≠ [] ∧ ["a"].length ≠ exT.cols.length ∧
    exT.keysOf ([("a")].map .col) = .ok [.tuple [.cell (.int 2)], .tuple [.cell (.flt 4)],
      .tuple [.cell (.int 1)], .tuple [.cell (.flt 8)], .tuple [.cell .none]] := by
  refine ⟨by decide, by decide, by decide, rfl⟩

#guard (listbyG [.tuple [.cell (.int 2)], .tuple [.cell (.flt 4)], .tuple [.cell (.int 1)],
    .tuple [.cell (.flt 8)], .tuple [.cell .none]]).map (·.2) == [[4], [1, 2], [0, 3]]
#guard (match exT.listby ["a"] with
  | .ok l => (match l.unlist with
    | .ok u => u == [("a", [.cell .none, .cell (.int 1), .cell (.int 1), .cell (.flt 8), .cell (.flt 8)]),
                     ("v", [.cell (.int 14), .cell (.int 11), .cell (.int 12), .cell (.int 10), .cell (.int 13)])]
    | _ => false)
  | _ => false)

def exP : Table := [("a", [.int 1, .int 1, .int 2, .int 1]), ("y", [.str "p", .str "q", .str "p", .str "p"]),
  ("z", [.int 10, .int 20, .int 30, .int 40])]

/-- the hypotheses of `pivot_cell` hold on a table with a duplicate (x, y) pair and a missing one -/
example : exP.nrows ≠ 0 ∧ (∀ k ∈ ["a"] ++ ["y"], (exP.col? k).isSome = true) ∧
    exP.col? "z" = some [.int 10, .int 20, .int 30, .int 40] := by
  refine ⟨by decide, by decide, rfl⟩

#guard (match exP.pivot ["a"] "y" "z" .none with
  | some (.ok p) => p == [("a", [.cell (.int 1), .cell (.int 2)]),
      ("p", [.list [.cell (.int 10), .cell (.int 40)], .list [.cell (.int 30)]]),
      ("q", [.list [.cell (.int 20)], .cell .none])]
  | _ => false)
#guard (match exP.pivot ["a"] "y" "z" .last with
  | some (.ok p) => (match p.unpivot ["a"] "y" "z" with
    | .ok u => u == [("a", [.cell (.int 1), .cell (.int 1), .cell (.int 2), .cell (.int 2)]),
        ("y", [.cell (.str "p"), .cell (.str "q"), .cell (.str "p"), .cell (.str "q")]),
        ("z", [.cell (.int 40), .cell (.int 20), .cell (.int 30), .cell .none])]
    | _ => false)
  | _ => false)

/-- `exP` without its duplicate `(x, y)` row, with a `None` z and an absent `(x, y)` cell -/
def exQ : Table := [("a", [.int 1, .int 1, .int 2, .int 3]), ("y", [.str "p", .str "q", .str "p", .str "q"]),
  ("z", [.int 10, .int 20, .none, .int 40])]

/-- the hypotheses of `unpivot_pivot_multiset_str` (hence, by `unpivot_pivot_defined_str`, those of
`unpivot_pivot_multiset` and `unpivot_pivot_multiset_canonical`) hold on `exQ` -/
example : exQ.nrows ≠ 0 ∧ ["a"] ≠ [] ∧ (∀ k ∈ ["a"] ++ ["y"], (exQ.col? k).isSome = true) ∧
    exQ.col? "z" = some [.int 10, .int 20, .none, .int 40] ∧ (["a"] ++ ["y", "z"]).Nodup ∧
    (∀ i j, i < exQ.nrows → j < exQ.nrows →
      cmp (.tuple (xCells exQ ["a"] i)) (.tuple (xCells exQ ["a"] j)) = .eq →
      cmp (.tuple [yCell exQ "y" i]) (.tuple [yCell exQ "y" j]) = .eq → i = j) ∧
    (∀ i j, i < exQ.nrows → j < exQ.nrows →
      cmp (.tuple (xCells exQ ["a"] i)) (.tuple (xCells exQ ["a"] j)) = .eq →
      xCells exQ ["a"] i = xCells exQ ["a"] j) ∧
    (∀ i, i < exQ.nrows → ∃ s, exQ.jcellAt "y" i = .str s ∧ s ∉ ["a"]) := by
  have h4 : ∀ i, i < exQ.nrows → i = 0 ∨ i = 1 ∨ i = 2 ∨ i = 3 := by
    intro i hi; simp [exQ, Table.nrows] at hi; omega
  refine ⟨by decide, by decide, by decide, rfl, by decide, ?_, ?_, ?_⟩
  · intro i j hi hj
    rcases h4 i hi with rfl | rfl | rfl | rfl <;> rcases h4 j hj with rfl | rfl | rfl | rfl <;> decide
  · intro i j hi hj
    rcases h4 i hi with rfl | rfl | rfl | rfl <;> rcases h4 j hj with rfl | rfl | rfl | rfl <;> decide
  · intro i hi
    rcases h4 i hi with rfl | rfl | rfl | rfl <;> exact ⟨_, rfl, by decide⟩

example : ∃ p u, exQ.pivot ["a"] "y" "z" .last = some (.ok p) ∧ p.unpivot ["a"] "y" "z" = .ok u :=
  unpivot_pivot_defined_str exQ ["a"] "y" "z" .last [.int 10, .int 20, .none, .int 40]
    (by decide) (by decide) (by decide) rfl (by decide) (by
      intro i hi
      have : i = 0 ∨ i = 1 ∨ i = 2 ∨ i = 3 := by simp [exQ, Table.nrows] at hi; omega
      rcases this with rfl | rfl | rfl | rfl <;> exact ⟨_, rfl, by decide⟩)

#guard (match exQ.pivot ["a"] "y" "z" .last with
  | some (.ok p) => (match p.unpivot ["a"] "y" "z" with
    | .ok u =>
      uRows u ["a"] "y" "z" ==
        [([.cell (.int 1)], .cell (.str "p"), .cell (.int 10)), ([.cell (.int 1)], .cell (.str "q"), .cell (.int 20)),
         ([.cell (.int 2)], .cell (.str "p"), .cell .none), ([.cell (.int 2)], .cell (.str "q"), .cell .none),
         ([.cell (.int 3)], .cell (.str "p"), .cell .none), ([.cell (.int 3)], .cell (.str "q"), .cell (.int 40))] &&
      (uRows u ["a"] "y" "z").filter (fun r => !isNoneV r.2.2) ==
        (tRows exQ ["a"] "y" [.int 10, .int 20, .none, .int 40]).filter (fun r => !isNoneV r.2.2)
    | _ => false)
  | _ => false)

/-- int/float-equal x keys (`1` and `1.0`): the pivot table keeps one representative key per x-group,
which is why `unpivot_pivot_multiset` states the x key up to the group representative -/
def exR : Table := [("a", [.int 1, .flt 4]), ("y", [.str "p", .str "q"]), ("z", [.int 10, .int 20])]

#guard (match exR.pivot ["a"] "y" "z" .last with
  | some (.ok p) => (match p.unpivot ["a"] "y" "z" with
    | .ok u => (uRows u ["a"] "y" "z").map (·.1) == [[.cell (.flt 4)], [.cell (.flt 4)]]
        || (uRows u ["a"] "y" "z").map (·.1) == [[.cell (.int 1)], [.cell (.int 1)]]
    | _ => false)
  | _ => false)

/-! ## round h1: the group column's name, the representative rule, literal inverses -/

/-- **`grp` named like a key is rejected**: `d.groupby(by, grp = g)` with `g ∈ by` is a `ValueError` whatever the table holds (repaired
code, fix G1; before it the sub-tables REPLACED the key column `g` and `ungroup` returned the table without it —
`dictable(a=[1,2,1], grp=['x','y','z'], v=[10,20,30]).groupby('grp').ungroup()` was `{'a':[1,2,1],'v':[10,20,30]}`).  Together with
`ungroup_groupby` (hypothesis `grp ∉ by`) the two cases cover every name. -/
theorem groupby_grp_collision (t : Table) (by_ : List String) (grp : String)
    (hn : t.nrows ≠ 0) (hb : by_ ≠ []) (hgb : grp ∈ by_) :
    t.groupby by_ grp = .error .value := by
  have hb' : by_.isEmpty = false := by cases by_ <;> simp_all
  simp only [Table.groupby, hn, hb', if_false, Bool.false_eq_true]
  split
  · rfl
  · split
    · rfl
    · simp [hgb]

/-- a `grp` that is the name of a NON-key column is accepted (that column lives inside the sub-tables): `groupby_table` / `ungroup_groupby`
only need `grp ∉ by` -/
example : Table.groupby [("a", [.int 1, .int 2, .int 1]), ("grp", [.str "x", .str "y", .str "z"])] ["grp"] "grp" = .error .value :=
  groupby_grp_collision _ _ _ (by decide) (by decide) (by decide)

/-- **the representative rule**: the key stored for a group is LITERALLY the key of the group's last row (`prev = key` on every row of the
run, src/pyg_base/_dictable.py:923) — one of the keys of its rows, never a third value; for `1` beside `1.0` it is whichever comes last in the
stable order. -/
theorem listby_representative (keys : List Val) (g : Grp) (hg : g ∈ listbyG keys) (i : Nat)
    (hi : g.2.getLast? = some i) : g.1 = keyAt keys i ∧ i ∈ g.2 :=
  ⟨(keyAt_of_get (listbyG_rep keys g hg i hi)).symm, List.mem_of_getLast? hi⟩

/-- helper: under "equal keys are identical", the key a regrouping writes beside row `i` is row `i`'s own key cell -/
theorem rep_cell_eq (t : Table) (by_ : List String)
    (hcanon : ∀ i j, i < t.nrows → j < t.nrows →
      keysEqB (t.keyCells by_ i) (t.keyCells by_ j) = true → t.keyCells by_ i = t.keyCells by_ j)
    (g : Grp) (hg : g ∈ listbyG (t.rowKeys by_)) (i : Nat) (hi : i ∈ g.2) (k : String) (j : Nat)
    (hkj : by_[j]? = some k) : tupleGet j g.1 = .cell (t.jcellAt k i) := by
  have hlen : (t.rowKeys by_).length = t.nrows := by simp [Table.rowKeys]
  obtain ⟨hin, hie⟩ := (mem_group_iff hg).1 hi
  rw [hlen] at hin
  have hne : g.2 ≠ [] := List.ne_nil_of_mem hi
  obtain ⟨l, hl⟩ : ∃ l, g.2.getLast? = some l := by
    cases h : g.2.getLast? with
    | none => simp at h; exact absurd h hne
    | some l => exact ⟨l, rfl⟩
  obtain ⟨hrep, hlm⟩ := listby_representative _ g hg l hl
  obtain ⟨hln, _⟩ := (mem_group_iff hg).1 hlm
  rw [hlen] at hln
  have hil : t.keyCells by_ i = t.keyCells by_ l := by
    apply hcanon i l hin hln
    rw [← cmp_rowKeys_eq hin hln, beq_iff_eq, ← hrep]
    exact hie
  rw [hrep, keyAt_rowKeys hln, ← hil]
  simp only [tupleGet, Table.keyCells, List.map_map, List.getD_eq_getElem?_getD, List.getElem?_map, hkj,
    Option.map_some, Option.getD_some, Function.comp_def]

theorem zipIdx_map_named {β} (by_ : List String) (F : String → Nat → β) (G : String → β)
    (h : ∀ k j, by_[j]? = some k → F k j = G k) :
    (by_.zipIdx.map fun c => (c.1, F c.1 c.2)) = by_.map fun k => (k, G k) := by
  have : (by_.map fun k => (k, G k)) = by_.zipIdx.map fun c => (c.1, G c.1) := by
    conv => lhs; rw [← List.zipIdx_map_fst 0 by_]
    rw [List.map_map]; rfl
  rw [this]
  apply List.map_congr_left
  intro c hc
  have := List.mem_zipIdx_iff_getElem?.1 hc
  rw [h c.1 c.2 this]

/-- **unlist ∘ listby, literally** — when key-equal rows carry identical key cells (no `1` beside `1.0`: `keysEqB` is the independent key equality
of C02's `KeyEq.lean`), `d.listby(by).unlist()` IS the table stably sorted by the keys: EVERY column, key or not, is that column of `d` read
through the stable-sort permutation `sortIdx` (C07) — key columns first.  Cells are looked up by column NAME (`jcellAt`), not through the model's
grouping. -/
theorem unlist_listby_canonical (t : Table) (by_ : List String)
    (hn : t.nrows ≠ 0) (hb : by_ ≠ []) (hnd : by_.Nodup) (hcols : ∀ k ∈ by_, k ∈ t.cols)
    (htn : ((t.others by_).map (·.1)).Nodup) (ho : t.others by_ ≠ [])
    (hcanon : ∀ i j, i < t.nrows → j < t.nrows →
      keysEqB (t.keyCells by_ i) (t.keyCells by_ j) = true → t.keyCells by_ i = t.keyCells by_ j) :
    (t.listby by_ >>= VTable.unlist) = .ok (
      (by_.map fun k => (k, (sortIdx (t.rowKeys by_)).map fun i => Val.cell (t.jcellAt k i))) ++
      (t.others by_).map fun c => (c.1, pick c.2 (sortIdx (t.rowKeys by_)))) := by
  rw [unlist_listby t by_ (t.rowKeys by_) hn hb hnd htn ho (keysOf_named hcols)]
  congr 2
  rw [← zipIdx_map_named by_ (fun _ j => (listbyG (t.rowKeys by_)).flatMap fun g => g.2.map fun _ => tupleGet j g.1)]
  intro k j hkj
  rw [← listbyG_flat, List.map_flatMap]
  apply flatMap_congr'
  intro g hg
  apply List.map_congr_left
  intro i hi
  exact rep_cell_eq t by_ hcanon g hg i hi k j hkj

/-- **ungroup ∘ groupby restores the multiset of rows, literally** — same hypothesis, `grp ∉ by`: there is a PERMUTATION `σ` of the row numbers
(`σ = sortIdx keys`) such that every column of the result, key or not, is that column of `d` read through `σ`.  So the rows of the result are the
rows of `d`, each exactly once (`List.Perm`), cell for cell, types included. -/
theorem ungroup_groupby_perm (t : Table) (by_ : List String) (grp : String)
    (hn : t.nrows ≠ 0) (hb : by_ ≠ []) (hnd : by_.Nodup) (hgb : grp ∉ by_) (hcols : ∀ k ∈ by_, k ∈ t.cols)
    (htn : ((t.others by_).map (·.1)).Nodup) (ho : t.others by_ ≠ [])
    (hlt : by_.length ≠ t.cols.length)
    (hcanon : ∀ i j, i < t.nrows → j < t.nrows →
      keysEqB (t.keyCells by_ i) (t.keyCells by_ j) = true → t.keyCells by_ i = t.keyCells by_ j) :
    ∃ σ : List Nat, σ.Perm (List.range t.nrows) ∧
      (match t.groupby by_ grp with
        | .ok g => g.ungroup grp
        | .error e => some (.error e)) = some (.ok (
        ((t.others by_).map fun c => (c.1, pick c.2 σ)) ++
        (by_.map fun k => (k, σ.map fun i => Val.cell (t.jcellAt k i))))) := by
  refine ⟨sortIdx (t.rowKeys by_), ?_, ?_⟩
  · have := listbyG_perm (t.rowKeys by_)
    rw [listbyG_flat] at this
    simpa [Table.rowKeys] using this
  rw [ungroup_groupby t by_ grp (t.rowKeys by_) hn hb hnd hgb htn ho hlt (keysOf_named hcols)]
  congr 3
  rw [← zipIdx_map_named by_ (fun _ j => (listbyG (t.rowKeys by_)).flatMap fun g => g.2.map fun _ => tupleGet j g.1)]
  intro k j hkj
  rw [← listbyG_flat, List.map_flatMap]
  apply flatMap_congr'
  intro g hg
  apply List.map_congr_left
  intro i hi
  exact rep_cell_eq t by_ hcanon g hg i hi k j hkj

/-- the hypotheses are satisfiable on a table with duplicate keys, and the deviation without `hcanon` is real: `1` beside `1.0` -/
def exG : Table := [("a", [.int 2, .int 1, .int 2]), ("v", [.str "p", .str "q", .str "r"])]

example : ∃ σ : List Nat, σ.Perm (List.range 3) ∧
    (match exG.groupby ["a"] "grp" with
      | .ok g => g.ungroup "grp"
      | .error e => some (.error e)) = some (.ok (
      ((exG.others ["a"]).map fun c => (c.1, pick c.2 σ)) ++
      (["a"].map fun k => (k, σ.map fun i => Val.cell (exG.jcellAt k i))))) :=
  ungroup_groupby_perm exG ["a"] "grp" (by decide) (by decide) (by decide) (by decide) (by decide) (by decide) (by decide)
    (by decide) (by
      intro i j hi hj
      have hi' : i = 0 ∨ i = 1 ∨ i = 2 := by simp [exG, Table.nrows] at hi; omega
      have hj' : j = 0 ∨ j = 1 ∨ j = 2 := by simp [exG, Table.nrows] at hj; omega
      rcases hi' with rfl | rfl | rfl <;> rcases hj' with rfl | rfl | rfl <;> decide)

#guard (match Table.listby [("a", [.int 1, .flt 4, .int 2, .int 1]), ("b", [.int 1, .int 2, .int 3, .int 4])] ["a"] >>= VTable.unlist with
  | .ok u => u == [("a", [.cell (.int 1), .cell (.int 1), .cell (.int 1), .cell (.int 2)]), ("b", [.cell (.int 1), .cell (.int 2), .cell (.int 4), .cell (.int 3)])]
  | _ => false)

/-- **"aggregating duplicates with the supplied function"**: `pivot_cell` for ANY aggregator `f : List Cell → Val` (`Agg.fn f`), not only the four
the wire can spell: the cell is `None` iff no row has that x key and y value, else `f` of the z values of exactly those rows in original order. -/
theorem pivot_cell_fn (t : Table) (x : List String) (y z : String) (f : List Cell → Val) (zs : List Cell)
    (labels : List String)
    (hn : t.nrows ≠ 0) (hx : x ≠ [])
    (hcols : ∀ k ∈ x ++ [y], (t.col? k).isSome = true) (hz : t.col? z = some zs) :
    let xyg := listbyG (xyKeys t.nrows (xCells t x) (yCell t y))
    let xg := listbyG (xyg.map fun g => xPart x.length g.1)
    let ys := listbyG ((xyg.map fun g => tupleGet x.length g.1).map fun v => .tuple [v])
    ys.mapM (fun g => yLabel (tupleGet 0 g.1)) = some labels → (x ++ labels).Nodup →
    t.pivot x y z (.fn f) = some (.ok (keyColsOf x xg ++
      (labels.zip ys).map fun p => (p.1, xg.map fun gx =>
        let rows := (List.range t.nrows).filter fun i =>
          cmp (.tuple (xCells t x i)) gx.1 == .eq && cmp (.tuple [yCell t y i]) p.2.1 == .eq
        if rows = [] then .cell .none else f (rows.map fun i => zs.getD i .none)))) :=
  pivot_cell t x y z (.fn f) zs labels hn hx hcols hz

/-- **pivot of a table without rows** (repaired code, fix G3): the x columns, no row, no y column — and `unpivot` of it is the empty table over
`x ++ [y, z]`: the round trip of an empty table is empty. -/
theorem pivot_empty (t : Table) (x : List String) (y z : String) (agg : Agg)
    (hn : t.nrows = 0) (hx : x ≠ []) (hxn : x.Nodup) (hcols : ∀ k ∈ x, (t.col? k).isSome = true) :
    t.pivot x y z agg = some (.ok (x.map fun k => (k, []))) ∧
    VTable.unpivot (x.map fun k => (k, [])) x y z = .ok ((x.map fun k => (k, [])) ++ [(y, []), (z, [])]) := by
  have hx' : x.isEmpty = false := by cases x <;> simp_all
  constructor
  · have hall : (x.all fun k => (t.col? k).isSome) = true := List.all_eq_true.2 hcols
    simp [Table.pivot, hn, hx', hxn, hall]
  · have hnr : VTable.nrows (x.map fun k => (k, ([] : List Val))) = 0 := by
      cases x with
      | nil => exact absurd rfl hx
      | cons a as => rfl
    simp only [VTable.unpivot, hnr, List.range_zero, List.flatMap_nil, bind, Except.bind, pure, Except.pure]
    rw [mapM_ok_of_forall (g := fun k => (k, ([] : List Val)))]
    intro k hk
    rw [find?_named (fun _ => ([] : List Val)) k x, if_pos hk]

/-- **`str` is injective on ints** (`Int.repr_inj`), so INT y values always give distinct column keys: `labelsInjective_int` without its
printing hypothesis -/
theorem labelsInjective_ints (t : Table) (y : String) (hint : ∀ i, i < t.nrows → ∃ n, t.jcellAt y i = .int n) :
    LabelsInjective t y :=
  labelsInjective_int t y hint fun _ _ _ _ h => Int.repr_inj.1 h

/-! ### round k1: the printing hypotheses discharged, `LabelsInjective` characterised by an iff -/

theorem render_flt_inj (q r : Int) (h : (Cell.flt q).render = (Cell.flt r).render) : q = r := by
  simp only [Cell.render] at h
  have h' : "F:" ++ toString q = "F:" ++ toString r := by simpa [toString] using h
  exact Int.repr_inj.1 (String.append_right_inj _ |>.1 h')

/-- FLOAT y values always give distinct column keys: `labelsInjective_flt` without its printing hypothesis (the wire atom `F:<quarters>` is
`"F:" ++ Int.repr q`, and `Int.repr` is injective) -/
theorem labelsInjective_flts (t : Table) (y : String) (hflt : ∀ i, i < t.nrows → ∃ q, t.jcellAt y i = .flt q) :
    LabelsInjective t y :=
  labelsInjective_flt t y hflt fun q r _ _ h => render_flt_inj q r h

theorem render_dt_inj (q r : Int) (h : (Cell.dt q).render = (Cell.dt r).render) : q = r := by
  simp only [Cell.render] at h
  have h' : "T:" ++ toString q = "T:" ++ toString r := by simpa [toString] using h
  exact Int.repr_inj.1 (String.append_right_inj _ |>.1 h')

/-- DATETIME y values always give distinct column keys (the datetime itself is the key; model name U+0000 `T:<microseconds>`) -/
theorem labelsInjective_dts (t : Table) (y : String) (hdt : ∀ i, i < t.nrows → ∃ us, t.jcellAt y i = .dt us) :
    LabelsInjective t y := by
  apply labelsInjective_of_keyName
  intro i j hi hj he
  obtain ⟨a, ha⟩ := hdt i hi
  obtain ⟨b, hb⟩ := hdt j hj
  rw [ha, hb] at he ⊢
  simp only [keyName, Option.some.injEq, String.append_right_inj] at he
  rw [render_dt_inj a b he]

/-- `str(n)` consists of digits and `-` -/
theorem repr_chars (q : Int) : ∀ c ∈ q.repr.toList, c.isDigit = true ∨ c = '-' := by
  rw [Int.repr_eq_if]
  split
  · intro c hc
    rw [Nat.toList_repr] at hc
    exact .inl (Nat.isDigit_of_mem_toDigits (by omega) (by omega) hc)
  · intro c hc
    simp only [String.toList_append, List.mem_append, Nat.toList_repr] at hc
    rcases hc with hc | hc
    · right
      have : "-".toList = ['-'] := by decide
      rw [this] at hc; simpa using hc
    · exact .inl (Nat.isDigit_of_mem_toDigits (by omega) (by omega) hc)

theorem repr_ne_of_char (q : Int) (w : String) (c : Char) (hc : c ∈ w.toList) (hd : c.isDigit = false) (hm : c ≠ '-') : q.repr ≠ w := by
  intro h
  rcases repr_chars q c (h ▸ hc) with h1 | h1
  · rw [h1] at hd; cases hd
  · exact hm h1

theorem flt_ne_special (q : Int) (w : String) (c : Char) (hc : c ∈ w.toList) (hd : c.isDigit = false) (hm : c ≠ '-') :
    "F:" ++ q.repr ≠ "F:" ++ w := by
  intro he
  exact repr_ne_of_char q w c hc hd hm (String.append_right_inj _ |>.1 he)

/-- the wire atoms of two non-string, non-int, non-bool scalars coincide only for equal cells: `None`, floats, ±inf, NaN and datetimes
never share a column key (`str(q)` has only digits and `-`, so `F:<q>` is none of `F:nan`, `F:inf`, `F:-inf`) -/
theorem render_tagged_inj (a b : Cell)
    (ha : (∃ q, a = .flt q) ∨ (∃ us, a = .dt us) ∨ a = .none ∨ a = .nan ∨ a = .pinf ∨ a = .ninf)
    (hb : (∃ q, b = .flt q) ∨ (∃ us, b = .dt us) ∨ b = .none ∨ b = .nan ∨ b = .pinf ∨ b = .ninf)
    (h : a.render = b.render) : a = b := by
  have e1 : "F:nan" = "F:" ++ "nan" := by decide
  have e2 : "F:inf" = "F:" ++ "inf" := by decide
  have e3 : "F:-inf" = "F:" ++ "-inf" := by decide
  have n1 : ∀ q : Int, "F:" ++ q.repr ≠ "F:nan" := fun q => e1 ▸ flt_ne_special q "nan" 'n' (by decide) (by decide) (by decide)
  have n2 : ∀ q : Int, "F:" ++ q.repr ≠ "F:inf" := fun q => e2 ▸ flt_ne_special q "inf" 'i' (by decide) (by decide) (by decide)
  have n3 : ∀ q : Int, "F:" ++ q.repr ≠ "F:-inf" := fun q => e3 ▸ flt_ne_special q "-inf" 'i' (by decide) (by decide) (by decide)
  rcases ha with ⟨q, rfl⟩ | ⟨us, rfl⟩ | rfl | rfl | rfl | rfl <;>
  rcases hb with ⟨r, rfl⟩ | ⟨vs, rfl⟩ | rfl | rfl | rfl | rfl <;>
  first
  | rfl
  | (rw [render_flt_inj _ _ h])
  | (rw [render_dt_inj _ _ h])
  | (exfalso; simp only [Cell.render] at h; revert h; decide)
  | (exfalso; simp only [Cell.render] at h
     have h' := h
     simp only [toString] at h'
     first
     | exact n1 _ h' | exact n2 _ h' | exact n3 _ h' | exact n1 _ h'.symm | exact n2 _ h'.symm | exact n3 _ h'.symm)
  | (exfalso; simp only [Cell.render] at h
     have := congrArg (fun s : String => s.toList.head?) h
     simp [toString] at this)

/-- the harness assumption "string cells do not start with U+0000" as a predicate on a cell -/
def Untagged (c : Cell) : Prop := ∀ s, c = .str s → s.toList.head? ≠ some '\x00'

theorem tagged_head (w : String) : ("\x00" ++ w).toList.head? = some '\x00' := by
  have : "\x00".toList = ['\x00'] := by decide
  simp [String.toList_append, this]

/-- **when two y values share a column key** (all scalar kinds, no bools): only when they are the same cell, or one is an int `n` and
the other the string `str(n)` — the collision of defect P1 and nothing else.  Replaces the per-kind printing hypotheses. -/
theorem keyName_eq_cases (a b : Cell) (ha : Untagged a) (hb : Untagged b) (s : String)
    (h1 : keyName a = some s) (h2 : keyName b = some s) :
    a = b ∨ (∃ n : Int, a = .int n ∧ b = .str (toString n)) ∨ (∃ n : Int, a = .str (toString n) ∧ b = .int n) := by
  have tagged : ∀ c : Cell, (∃ q, c = .flt q) ∨ (∃ us, c = .dt us) ∨ c = .none ∨ c = .nan ∨ c = .pinf ∨ c = .ninf →
      keyName c = some ("\x00" ++ c.render) := by
    rintro c (⟨q, rfl⟩ | ⟨us, rfl⟩ | rfl | rfl | rfl | rfl) <;> rfl
  have kinds : ∀ c : Cell, (∃ x, c = .bool x) ∨ (∃ s, c = .str s) ∨ (∃ n, c = .int n) ∨
      ((∃ q, c = .flt q) ∨ (∃ us, c = .dt us) ∨ c = .none ∨ c = .nan ∨ c = .pinf ∨ c = .ninf) := by
    intro c; cases c <;> simp
  have int_not_tagged : ∀ (n : Int) (w : String), toString n ≠ "\x00" ++ w := by
    intro n w he
    have h0 : ("\x00" ++ w).toList.head? = some '\x00' := tagged_head w
    have hm : '\x00' ∈ ("\x00" ++ w).toList := by
      cases hl : ("\x00" ++ w).toList with
      | nil => rw [hl] at h0; cases h0
      | cons c cs => rw [hl] at h0; simp at h0; subst h0; simp
    exact repr_ne_of_char n _ '\x00' hm (by decide) (by decide) he
  rcases kinds a with ⟨x, rfl⟩ | ⟨sa, rfl⟩ | ⟨na, rfl⟩ | ta
  · cases h1
  · simp only [keyName, Option.some.injEq] at h1; subst h1
    rcases kinds b with ⟨x, rfl⟩ | ⟨sb, rfl⟩ | ⟨nb, rfl⟩ | tb
    · cases h2
    · simp only [keyName, Option.some.injEq] at h2; subst h2; exact .inl rfl
    · simp only [keyName, Option.some.injEq] at h2; subst h2; exact .inr (.inr ⟨nb, rfl, rfl⟩)
    · rw [tagged b tb, Option.some.injEq] at h2
      exact absurd (h2 ▸ tagged_head _) (ha _ rfl)
  · simp only [keyName, Option.some.injEq] at h1; subst h1
    rcases kinds b with ⟨x, rfl⟩ | ⟨sb, rfl⟩ | ⟨nb, rfl⟩ | tb
    · cases h2
    · simp only [keyName, Option.some.injEq] at h2; subst h2; exact .inr (.inl ⟨na, rfl, rfl⟩)
    · simp only [keyName, Option.some.injEq] at h2
      rw [Int.repr_inj.1 h2]; exact .inl rfl
    · rw [tagged b tb, Option.some.injEq] at h2
      exact absurd h2.symm (int_not_tagged na _)
  · rw [tagged a ta, Option.some.injEq] at h1; subst h1
    rcases kinds b with ⟨x, rfl⟩ | ⟨sb, rfl⟩ | ⟨nb, rfl⟩ | tb
    · cases h2
    · simp only [keyName, Option.some.injEq] at h2; subst h2
      exact absurd (tagged_head _) (hb _ rfl)
    · simp only [keyName, Option.some.injEq] at h2
      exact absurd h2 (int_not_tagged nb _)
    · rw [tagged b tb, Option.some.injEq] at h2
      exact .inl (render_tagged_inj a b ta tb (String.append_right_inj _ |>.1 h2).symm)

/-- **`LabelsInjective` characterised**: for a y column of untagged, non-bool scalars the rendering of y values as column keys is
injective IFF no row holds an int `n` while another holds the string `str(n)` — whatever the mix of None, ints, floats, ±inf, NaN,
strings and datetimes.  (`←`: `keyName_eq_cases`; `→`: such a pair has one key and `cmp` does not call an int and a string equal.) -/
theorem labelsInjective_iff (t : Table) (y : String)
    (hlab : ∀ i, i < t.nrows → (keyName (t.jcellAt y i)).isSome = true)
    (hun : ∀ i, i < t.nrows → Untagged (t.jcellAt y i)) :
    LabelsInjective t y ↔
      ¬ ∃ i j n, i < t.nrows ∧ j < t.nrows ∧ t.jcellAt y i = .int n ∧ t.jcellAt y j = .str (toString n) := by
  constructor
  · rintro h ⟨i, j, n, hi, hj, ei, ej⟩
    have := h i j hi hj (by simp only [yCell, yLabel, ei, ej, keyName])
    simp only [yCell, ei, ej] at this
    have h2 := (cmp_tuple_eq_iff [.int n] [.str (toString n)]).1 this
    have h3 := h2.2 0 (by simp)
    simp [keyEq] at h3
  · intro h
    apply labelsInjective_of_keyName
    intro i j hi hj he
    obtain ⟨s, hs⟩ := Option.isSome_iff_exists.1 (hlab i hi)
    rcases keyName_eq_cases _ _ (hun i hi) (hun j hj) s hs (he ▸ hs) with e | ⟨n, e1, e2⟩ | ⟨n, e1, e2⟩
    · exact e
    · exact absurd ⟨i, j, n, hi, hj, e1, e2⟩ h
    · exact absurd ⟨j, i, n, hj, hi, e2, e1⟩ h

/-- the hypotheses of `labelsInjective_iff` hold of `exMixed` (a float, `None`, the string `'1.5'`, a datetime and the int `2` as y values), and
its right-hand side too: no int beside its own `str` -/
example : (∀ i, i < exMixed.nrows → (keyName (exMixed.jcellAt "y" i)).isSome = true) ∧
    (∀ i, i < exMixed.nrows → Untagged (exMixed.jcellAt "y" i)) ∧ LabelsInjective exMixed "y" := by
  have h1 : ∀ i, i < exMixed.nrows → (keyName (exMixed.jcellAt "y" i)).isSome = true := by decide
  have h2 : ∀ i, i < exMixed.nrows → Untagged (exMixed.jcellAt "y" i) := by
    intro i hi s hs
    have : ∀ i, i < exMixed.nrows → exMixed.jcellAt "y" i = .str s → s = "1.5" := by
      intro i hi
      have h5 : exMixed.nrows = 5 := by decide
      rw [h5] at hi
      rcases i with _ | _ | _ | _ | _ | i <;> first | (intro h; cases h; done) | (intro h; cases h; rfl) | omega
    rw [this i hi hs]; decide
  refine ⟨h1, h2, (labelsInjective_iff exMixed "y" h1 h2).2 ?_⟩
  rintro ⟨i, j, n, hi, hj, ei, ej⟩
  have h5 : exMixed.nrows = 5 := by decide
  rw [h5] at hi hj
  have hn : n = 2 := by
    rcases i with _ | _ | _ | _ | _ | i <;> first | (cases ei; done) | (cases ei; rfl) | omega
  subst hn
  rcases j with _ | _ | _ | _ | _ | j <;> first | (cases ej; done) | omega | (revert ej; decide)

end Pyg.Props.C11
