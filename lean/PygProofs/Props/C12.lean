/-
  C12 — df_fillna / nona fill or drop exactly the missing cells, arrays and pandas alike.
-/
import PygModel.Fill

namespace Pyg.Props.C12
open Pyg Pyg.Fill

theorem fillna_nil (lim : Option Nat) (f : Frame) : fillna [] lim f = .ok f := rfl

end Pyg.Props.C12
