/-
  C12 — df_fillna / nona fill or drop exactly the missing cells, arrays and pandas alike.
  Property theorems only; helper lemmas live in PygProofs/Lemmas/FillLemmas.lean.
  Columns are `List (Option Int)` (`none` = NaN); `xs[i]? = some none` reads "position i exists and is NaN".
-/
import PygModel.Fill
import PygProofs.Lemmas.FillLemmas
import PygProofs.Lemmas.FillIndep
import PygProofs.Lemmas.FillRows
import PygProofs.Lemmas.FillEdge
import PygProofs.Lemmas.FillAliasLemmas

namespace Pyg.Props.C12
open Pyg Pyg.Fill

/-! ### ffill / bfill: the nearest earlier / later observation, within `limit` consecutive positions -/

/-- no fill method ever changes a non-NaN cell or the length of a column -/
theorem ffill_keeps (lim : Option Nat) (xs : Col) (i : Nat) (v : Int) (h : xs[i]? = some (some v)) :
    (ffill lim xs)[i]? = some (some v) ∧ (ffill lim xs).length = xs.length :=
  ⟨ffillAux_keep _ _ _ _ _ _ h, ffill_length _ _⟩

theorem bfill_keeps (lim : Option Nat) (xs : Col) (i : Nat) (v : Int) (h : xs[i]? = some (some v)) :
    (bfill lim xs)[i]? = some (some v) ∧ (bfill lim xs).length = xs.length :=
  ⟨bfill_keep _ _ _ _ h, bfill_length _ _⟩

/-- `ffill` without limit: a NaN at `i` whose nearest earlier observation is `v` at `j` becomes `v` -/
theorem ffill_nolimit (xs : Col) (j i : Nat) (v : Int) (hji : j < i) (hj : xs[j]? = some (some v))
    (hnan : ∀ m, j < m → m ≤ i → xs[m]? = some Option.none) :
    (ffill Option.none xs)[i]? = some (some v) := by
  unfold ffill; rw [ffillAux_after _ _ _ xs j i v hji hj hnan]; simp [within]

/-- `ffill(limit = l)`: the NaN at `i` is filled with the nearest earlier observation (at `j`) iff it lies
within `l` positions of it, otherwise it stays NaN -/
theorem ffill_limit (l : Nat) (xs : Col) (j i : Nat) (v : Int) (hji : j < i) (hj : xs[j]? = some (some v))
    (hnan : ∀ m, j < m → m ≤ i → xs[m]? = some Option.none) :
    (ffill (some l) xs)[i]? = some (if i - j ≤ l then some v else Option.none) := by
  unfold ffill; rw [ffillAux_after _ _ _ xs j i v hji hj hnan]
  by_cases h : i - j ≤ l
  · have : i - j - 1 < l := by omega
    simp [within, h, this]
  · have : ¬ i - j - 1 < l := by omega
    simp [within, h, this]

/-- NaNs before the first observation are never forward-filled -/
theorem ffill_leading (lim : Option Nat) (xs : Col) (i : Nat) (h : ∀ m, m ≤ i → xs[m]? = some Option.none) :
    (ffill lim xs)[i]? = some Option.none := ffill_prefix lim xs i h

theorem bfill_nolimit (xs : Col) (i j : Nat) (v : Int) (hij : i < j) (hj : xs[j]? = some (some v))
    (hnan : ∀ m, i ≤ m → m < j → xs[m]? = some Option.none) :
    (bfill Option.none xs)[i]? = some (some v) := by
  rw [bfill_before _ xs i j v hij hj hnan]; simp [within]

/-- the mirror image for `bfill(limit = l)`: nearest later observation, within `l` positions -/
theorem bfill_limit (l : Nat) (xs : Col) (i j : Nat) (v : Int) (hij : i < j) (hj : xs[j]? = some (some v))
    (hnan : ∀ m, i ≤ m → m < j → xs[m]? = some Option.none) :
    (bfill (some l) xs)[i]? = some (if j - i ≤ l then some v else Option.none) := by
  rw [bfill_before _ xs i j v hij hj hnan]
  by_cases h : j - i ≤ l
  · have : j - i - 1 < l := by omega
    simp [within, h, this]
  · have : ¬ j - i - 1 < l := by omega
    simp [within, h, this]

/-- NaNs after the last observation are never back-filled -/
theorem bfill_trailing (lim : Option Nat) (xs : Col) (i : Nat) (hi : i < xs.length)
    (h : ∀ m, i ≤ m → m < xs.length → xs[m]? = some Option.none) :
    (bfill lim xs)[i]? = some Option.none := bfill_suffix lim xs i hi h

/-! ### a numeric method -/

/-- a constant replaces every NaN and nothing else -/
theorem const_fill (c : Int) (xs : Col) :
    fillConst c Option.none xs = xs.map fun o => some (o.getD c) := fillConst_nolimit c xs

theorem const_keeps (c : Int) (lim : Option Nat) (xs : Col) (i : Nat) (v : Int) (h : xs[i]? = some (some v)) :
    (fillConst c lim xs)[i]? = some (some v) ∧ (fillConst c lim xs).length = xs.length :=
  ⟨fillConst_keep _ _ _ _ _ h, fillConst_length _ _ _⟩

/-- with `limit = l` (pandas `fillna(value, limit)`) exactly the first `l` NaNs of the column are replaced -/
theorem const_fill_limit (c : Int) (l : Nat) (xs : Col) (i : Nat) (h : xs[i]? = some Option.none) :
    (fillConst c (some l) xs)[i]? = some (if nanBefore xs i < l then some c else Option.none) :=
  fillConst_limit c l xs i h

/-! ### a list of methods is applied in sequence -/

theorem fillna_nil (lim : Option Nat) (f : Frame) : fillna [] lim f = .ok f := rfl

theorem fillna_single (m : Method) (lim : Option Nat) (f : Frame) : fillna [m] lim f = step lim f m := by
  simp [fillna, List.foldlM]

/-- `df_fillna(x, ms₁ ++ ms₂) = df_fillna(df_fillna(x, ms₁), ms₂)`, errors included -/
theorem seq_fold (ms₁ ms₂ : List Method) (lim : Option Nat) (f : Frame) :
    fillna (ms₁ ++ ms₂) lim f = (fillna ms₁ lim f).bind (fillna ms₂ lim) := by
  simp [fillna, List.foldlM_append]
  rfl

theorem seq_cons (m : Method) (ms : List Method) (lim : Option Nat) (f : Frame) :
    fillna (m :: ms) lim f = (step lim f m).bind (fillna ms lim) := rfl

/-! ### 'nona' and 'fnna' -/

/-- `'nona'`: the rows of the result are exactly the rows of the input that hold a non-NaN cell, in order,
each with its timestamp and cells unchanged; the columns stay -/
theorem nona_rows (lim : Option Nat) (f : Frame) :
    ∃ g, step lim f .nona = .ok g ∧ g.rows = f.rows.filter (fun r => r.2.any (·.isSome)) ∧
      g.names = f.names ∧ g.Rect :=
  ⟨_, rfl, Frame.rows_gather_valid f, Frame.names_gather _ _, Frame.rect_gather _ _⟩

/-- `nona(x)` (the function, `edge=None`) does the same -/
theorem nona_fn_rows (f : Frame) :
    ∃ g, nona Option.none f = .ok g ∧ g.rows = f.rows.filter (fun r => r.2.any (·.isSome)) ∧ g.names = f.names :=
  ⟨_, rfl, Frame.rows_gather_valid f, Frame.names_gather _ _⟩

/-- `'fnna'` on a sorted index: only the leading all-NaN rows go — the result is the input from its first
row holding a non-NaN cell (position `p0`) on; nothing is left when no such row exists (`p0 = nrows`) -/
theorem fnna_rows (lim : Option Nat) (f : Frame) (hs : f.Sorted) :
    ∃ g p0, step lim f .fnna = .ok g ∧ g.rows = f.rows.drop p0 ∧ g.names = f.names ∧ p0 ≤ f.nrows ∧
      (∀ j, j < p0 → f.rowValid j = false) ∧ (p0 < f.nrows → f.rowValid p0 = true) := by
  unfold step Frame.firstValidRowTime
  cases hfind : (List.range f.nrows).find? f.rowValid with
  | none =>
    refine ⟨_, f.nrows, rfl, ?_, Frame.names_gather _ _, Nat.le_refl _, ?_, by omega⟩
    · rw [Frame.rows_gather]; simp [Frame.rows]
    · intro j hj
      rw [List.find?_eq_none] at hfind
      simpa using hfind j (by simpa using hj)
  | some p0 =>
    have h1 := List.find?_some hfind
    rw [List.find?_eq_some_iff_getElem] at hfind
    obtain ⟨_, i, hi, hpi, hbefore⟩ := hfind
    have hi' : i < f.nrows := by simpa using hi
    have : p0 = i := by simpa using hpi.symm
    subst this
    refine ⟨_, p0, rfl, ?_, Frame.names_gather _ _, by omega, ?_, fun _ => h1⟩
    · rw [Frame.filter_label_ge f hs p0 hi', Frame.rows_gather_drop]
    · intro j hj
      have := hbefore j hj
      simpa using this


/-! ### `nona(x, edge = ±1)`: only the all-NaN rows at ONE end go, interior all-NaN rows stay -/

/-- `edge = -1` ("cut only historic values") is exactly the method 'fnna': `df_slice(df, lb = first surviving label, '[]')` -/
theorem nona_edge_first_eq_fnna (lim : Option Nat) (f : Frame) : nona (some (-1)) f = step lim f .fnna := by
  have hhead : ((List.range f.nrows).filter f.rowValid).head? = (List.range f.nrows).find? f.rowValid := List.head?_filter ..
  simp only [nona, step, Frame.firstValidRowTime, Frame.gather]
  cases hfind : (List.range f.nrows).find? f.rowValid with
  | none =>
    rw [hfind] at hhead
    have : (List.range f.nrows).filter f.rowValid = [] := List.head?_eq_none_iff.mp hhead
    simp [this]
  | some p0 =>
    rw [hfind] at hhead
    obtain ⟨tl, htl⟩ : ∃ tl, (List.range f.nrows).filter f.rowValid = p0 :: tl := by
      cases hl : (List.range f.nrows).filter f.rowValid with
      | nil => rw [hl] at hhead; cases hhead
      | cons a tl => rw [hl] at hhead; simp at hhead; exact ⟨tl, by rw [hhead]⟩
    simp [htl]

/-- `edge = -1` on a sorted index: the result is the input from its first row holding a non-NaN cell (position `p0`) on -
the leading all-NaN rows are dropped, every later row (all-NaN or not) is kept; nothing is left when no row is valid -/
theorem nona_edge_first (f : Frame) (hs : f.Sorted) :
    ∃ g p0, nona (some (-1)) f = .ok g ∧ g.rows = f.rows.drop p0 ∧ g.names = f.names ∧ p0 ≤ f.nrows ∧
      (∀ j, j < p0 → f.rowValid j = false) ∧ (p0 < f.nrows → f.rowValid p0 = true) := by
  rw [nona_edge_first_eq_fnna Option.none f]
  exact fnna_rows Option.none f hs

/-- `edge = 1` ("cut only latest values") on a sorted index: the result is the first `q` rows of the input, where row `q - 1`
is the LAST row holding a non-NaN cell - the trailing all-NaN rows are dropped, every earlier row (all-NaN or not) is kept;
nothing is left (`q = 0`) when no row is valid -/
theorem nona_edge_last (f : Frame) (hs : f.Sorted) :
    ∃ g q, nona (some 1) f = .ok g ∧ g.rows = f.rows.take q ∧ g.names = f.names ∧ q ≤ f.nrows ∧
      (∀ j, q ≤ j → j < f.nrows → f.rowValid j = false) ∧ (0 < q → f.rowValid (q - 1) = true) := by
  by_cases hne : (List.range f.nrows).filter f.rowValid = []
  · refine ⟨f.gather [], 0, by simp [nona, hne, Frame.gather], by simp [Frame.rows_gather], Frame.names_gather _ _,
      Nat.zero_le _, ?_, by omega⟩
    intro j _ hj
    cases hv : f.rowValid j with
    | false => rfl
    | true =>
      have : j ∈ (List.range f.nrows).filter f.rowValid := List.mem_filter.mpr ⟨by simpa using hj, hv⟩
      rw [hne] at this; cases this
  · obtain ⟨hq1, hq2, hq3⟩ := Frame.getLast_filter_range f.nrows f.rowValid hne
    generalize hp : ((List.range f.nrows).filter f.rowValid).getLast hne = p at hq1 hq2 hq3
    have hub : ((f.gather ((List.range f.nrows).filter f.rowValid)).idx).getLastD 0 = f.idx.getD p 0 := by
      simp only [Frame.gather, List.getLastD_eq_getLast?, List.getLast?_map, List.getLast?_eq_some_getLast hne, hp]
      rfl
    have hnemp : (f.gather ((List.range f.nrows).filter f.rowValid)).idx.isEmpty = false := by
      simp [Frame.gather, hne]
    refine ⟨f.gather ((List.range f.nrows).take (p + 1)), p + 1, ?_, Frame.rows_gather_take f (p + 1),
      Frame.names_gather _ _, by omega, fun j hj hjn => hq3 j (by omega) hjn, fun _ => by simpa using hq2⟩
    simp only [nona, hnemp, hub]
    rw [Frame.filter_label_le f hs p hq1]
    simp

/-- any other `edge` on an object with a valid row: the code falls off the end of `_nona` (returns `None`); the model answers
`err Other` (not generated) -/
theorem nona_edge_unknown (f : Frame) (e : Int) (he : e ≠ 1 ∧ e ≠ -1)
    (hne : (List.range f.nrows).filter f.rowValid ≠ []) : nona (some e) f = .error .other := by
  have : (f.gather ((List.range f.nrows).filter f.rowValid)).idx.isEmpty = false := by simp [Frame.gather, hne]
  simp [nona, this, he.1, he.2]

/-! ### 'ffill_na' / 'ffill_0' -/

/-- on a sorted index: forward fill (with the limit) up to the last valid observation (position `p`),
then NaN (`ffill_na`, `inv = none`) or 0 (`ffill_0`, `inv = some 0`) -/
theorem ffill_tail (inv : Option Int) (lim : Option Nat) (idx : List Int) (xs : Col) (p : Nat) (v : Int)
    (hs : idx.Pairwise (· < ·)) (hl : idx.length = xs.length)
    (hp : xs[p]? = some (some v)) (hlast : ∀ m, p < m → m < xs.length → xs[m]? = some Option.none)
    (i : Nat) (hi : i < xs.length) :
    (ffillTail inv lim idx xs)[i]? = if i ≤ p then (ffill lim xs)[i]? else some inv :=
  ffillTail_get inv lim idx xs p v hs hl hp hlast i hi

/-- a column without any observation is returned as it is -/
theorem ffill_tail_allnan (inv : Option Int) (lim : Option Nat) (idx : List Int) (xs : Col)
    (h : ∀ m, m < xs.length → xs[m]? = some Option.none) : ffillTail inv lim idx xs = xs :=
  ffillTail_allnan inv lim idx xs h

/-- the frame-level step is this column function on every column (`pd.concat(axis=1)` of the per-column results) -/
theorem step_ffill_na (lim : Option Nat) (f : Frame) (hl : limOk lim = true) :
    step lim f .ffillNa = .ok (f.mapCols (ffillTail Option.none lim f.idx)) ∧
    step lim f .ffill0 = .ok (f.mapCols (ffillTail (some 0) lim f.idx)) := by
  simp [step, hl]

/-! ### no method changes a non-NaN cell (frame level) -/

/-- cell of column number `j` at row position `i` -/
def cell (f : Frame) (j i : Nat) : Option (Option Int) := (f.cols[j]?).bind fun c => c.2[i]?

theorem mapCols_keeps (k : Col → Col) (f : Frame)
    (hk : ∀ c : String × Col, c ∈ f.cols → ∀ (i : Nat) (v : Int), c.2[i]? = some (some v) → (k c.2)[i]? = some (some v))
    (j i : Nat) (v : Int) (h : cell f j i = some (some v)) : cell (f.mapCols k) j i = some (some v) := by
  unfold cell at h ⊢
  cases hc : f.cols[j]? with
  | none => rw [hc] at h; cases h
  | some c =>
    rw [hc] at h
    simp only [Frame.mapCols, List.getElem?_map, hc, Option.map_some, Option.bind_some] at h ⊢
    exact hk c (List.mem_of_getElem? hc) i v h

/-- the filling methods (constant, ffill, bfill, ffill_na, ffill_0) keep the index, the columns and every
non-NaN cell of a frame; the removing methods are covered by `nona_rows` / `fnna_rows` (surviving rows unchanged) -/
theorem fill_keeps_values (lim : Option Nat) (m : Method) (f g : Frame) (hm : m ≠ .fnna ∧ m ≠ .nona)
    (hs : f.Sorted) (hr : f.Rect) (h : step lim f m = .ok g) :
    g.idx = f.idx ∧ g.names = f.names ∧ ∀ j i v, cell f j i = some (some v) → cell g j i = some (some v) := by
  have names_map : ∀ k : Col → Col, (f.mapCols k).names = f.names := fun k => by
    simp [Frame.names, Frame.mapCols, List.map_map, Function.comp_def]
  cases m with
  | fnna => exact (hm.1 rfl).elim
  | nona => exact (hm.2 rfl).elim
  | const c =>
    simp only [step] at h; split at h
    · cases h; exact ⟨rfl, names_map _, mapCols_keeps _ f fun _ _ i v hv => fillConst_keep _ _ _ i v hv⟩
    · cases h
  | ffill =>
    simp only [step] at h; split at h
    · cases h; exact ⟨rfl, names_map _, mapCols_keeps _ f fun _ _ i v hv => ffillAux_keep _ _ _ _ i v hv⟩
    · cases h
  | bfill =>
    simp only [step] at h; split at h
    · cases h; exact ⟨rfl, names_map _, mapCols_keeps _ f fun _ _ i v hv => bfill_keep _ _ i v hv⟩
    · cases h
  | ffillNa =>
    simp only [step] at h; split at h
    · cases h
      exact ⟨rfl, names_map _, mapCols_keeps _ f fun c hc i v hv => ffillTail_keep _ _ _ _ hs (hr c hc).symm i v hv⟩
    · cases h
  | ffill0 =>
    simp only [step] at h; split at h
    · cases h
      exact ⟨rfl, names_map _, mapCols_keeps _ f fun c hc i v hv => ffillTail_keep _ _ _ _ hs (hr c hc).symm i v hv⟩
    · cases h

/-- the methods that never look at labels (a number, ffill, bfill): the same, for ANY index (decreasing, shuffled, repeated
labels) and any column lengths - the hypothesis `f.Sorted` of `fill_keeps_values` is needed by 'ffill_na' / 'ffill_0' only -/
theorem fill_keeps_values_any_index (lim : Option Nat) (m : Method) (f g : Frame)
    (hm : m = .ffill ∨ m = .bfill ∨ ∃ c, m = .const c) (h : step lim f m = .ok g) :
    g.idx = f.idx ∧ g.names = f.names ∧ ∀ j i v, cell f j i = some (some v) → cell g j i = some (some v) := by
  have names_map : ∀ k : Col → Col, (f.mapCols k).names = f.names := fun k => by
    simp [Frame.names, Frame.mapCols, List.map_map, Function.comp_def]
  rcases hm with rfl | rfl | ⟨c, rfl⟩
  · simp only [step] at h; split at h
    · cases h; exact ⟨rfl, names_map _, mapCols_keeps _ f fun _ _ i v hv => ffillAux_keep _ _ _ _ i v hv⟩
    · cases h
  · simp only [step] at h; split at h
    · cases h; exact ⟨rfl, names_map _, mapCols_keeps _ f fun _ _ i v hv => bfill_keep _ _ i v hv⟩
    · cases h
  · simp only [step] at h; split at h
    · cases h; exact ⟨rfl, names_map _, mapCols_keeps _ f fun _ _ i v hv => fillConst_keep _ _ _ i v hv⟩
    · cases h

/-- ... and for a LIST of such methods -/
theorem fillna_keeps_any_index (ms : List Method) (lim : Option Nat) (f g : Frame)
    (hms : ∀ m ∈ ms, m = .ffill ∨ m = .bfill ∨ ∃ c, m = .const c) (h : fillna ms lim f = .ok g) :
    g.idx = f.idx ∧ g.names = f.names ∧ ∀ j i v, cell f j i = some (some v) → cell g j i = some (some v) := by
  induction ms generalizing f with
  | nil => simp [fillna, List.foldlM, pure, Except.pure] at h; subst h; exact ⟨rfl, rfl, fun _ _ _ h => h⟩
  | cons m ms ih =>
    rw [seq_cons] at h
    cases h1 : step lim f m with
    | error e => rw [h1] at h; cases h
    | ok f1 =>
      rw [h1] at h
      obtain ⟨a1, a2, a3⟩ := fill_keeps_values_any_index lim m f f1 (hms m (by simp)) h1
      obtain ⟨b1, b2, b3⟩ := ih f1 (fun m' hm' => hms m' (by simp [hm'])) h
      exact ⟨b1.trans a1, b2.trans a2, fun j i v hv => b3 j i v (a3 j i v hv)⟩

/-- **the sortedness hypothesis is needed**: on a decreasing index 'ffill_0' overwrites a value - `res[res.index > last_valid] = 0`
compares LABELS, and the rows whose label is later than the last valid row's label stand BEFORE it.  The real code does the same
(`df_fillna(pd.Series([2., 1., nan], [d3, d2, d1]), 'ffill_0')` is `[0, 1, 1]`).  The property's quantifier ranges over values and
NaN patterns, not over index orders; the strictly increasing index is a declared assumption of this check (`ASSUMPTIONS`). -/
theorem ffill_tail_needs_sorted : ∃ (idx : List Int) (xs : Col) (i : Nat) (v : Int), idx.length = xs.length ∧
    xs[i]? = some (some v) ∧ (ffillTail (some 0) Option.none idx xs)[i]? ≠ some (some v) :=
  ⟨[3, 2, 1], [some 2, some 1, Option.none], 0, 2, by decide⟩

/-- the same at frame level: without `f.Sorted` the conclusion of `fill_keeps_values` fails for 'ffill_0' -/
theorem fill_keeps_values_needs_sorted : ∃ (f g : Frame) (v : Int), f.Rect ∧ step Option.none f .ffill0 = .ok g ∧
    cell f 0 0 = some (some v) ∧ cell g 0 0 ≠ some (some v) :=
  ⟨{ idx := [3, 2, 1], cols := [("a", [some 2, some 1, Option.none])] },
   { idx := [3, 2, 1], cols := [("a", [some 0, some 1, some 1])] }, 2, by decide, rfl, by decide, by decide⟩

/-- every step, hence every method list, keeps the index strictly increasing and the frame rectangular -/
theorem fillna_wellformed (ms : List Method) (lim : Option Nat) (f g : Frame) (hs : f.Sorted) (hr : f.Rect)
    (h : fillna ms lim f = .ok g) : g.Sorted ∧ g.Rect := by
  have := fillna_same lim ms (f := f) (g := f) ⟨rfl, rfl, hs, hs, hr⟩
  rw [h] at this
  exact ⟨this.sf, this.rf⟩


/-! ### "the input object is not modified": the object store under `_df_fillna` (PygModel/FillAlias.lean)

Cell 0 of the store is the caller's object, `res = df` points to it; pandas calls that return new objects append a cell and
rebind `res`; the one item assignment of the code, `res[res.index>last_valid] = invalid`, writes INTO the cell `res` points to. -/

/-- whatever the method list: the caller's object (cell 0) holds at the end what it held at the start, and EVERY item
assignment went into a cell allocated during this call (`0 < w`: never the caller's object) - the object written is always
the copy `res.ffill()` made just before -/
theorem input_not_modified (series : Bool) (ms : List Method) (lim : Option Nat) (df : Frame) (s : FillAlias.Store)
    (h : FillAlias.call series ms lim df = .ok s) :
    s.cells[0]? = some df ∧ (∀ w ∈ s.writes, 0 < w ∧ w < s.cells.length) ∧ s.res < s.cells.length :=
  let i := FillAlias.inv_run series lim ms _ s (FillAlias.inv_init df) h
  ⟨i.input, i.fresh, i.bound⟩

/-- the store refines the pure model: the object the function returns (`res`) holds exactly `fillna ms lim df`, and the two
fail together.  (`series`: the 1-d branch with the in-place tail assignment; a Series has one column.) -/
theorem store_value (series : Bool) (ms : List Method) (lim : Option Nat) (df : Frame)
    (h1 : series = true → ∃ c, df.cols = [c]) :
    match FillAlias.call series ms lim df, fillna ms lim df with
    | .ok s, .ok g => FillAlias.cur s = g
    | .error e, .error e' => e = e'
    | _, _ => False := by
  have := FillAlias.run_sim series lim ms { cells := [df], res := 0, writes := [] } (by simp) h1
  simp only [FillAlias.call]
  have hc : FillAlias.cur { cells := [df], res := 0, writes := [] } = df := rfl
  rw [hc] at this
  cases hr : List.foldlM (FillAlias.runStep series lim) { cells := [df], res := 0, writes := [] } ms <;>
    cases hf : fillna ms lim df <;> rw [hr, hf] at this <;> simp [FillAlias.Sim] at this ⊢
  · exact this
  · exact this.1

/-- no method: the function returns THE INPUT OBJECT itself (`df_fillna(x, None) is x`), nothing is allocated or written -/
theorem no_method_returns_input (series : Bool) (lim : Option Nat) (df : Frame) :
    FillAlias.call series [] lim df = .ok { cells := [df], res := 0, writes := [] } := rfl

/-! ### method LISTS never change a non-NaN cell -/

/-- a list of FILLING methods (no 'nona' / 'fnna'): the index and the columns stay and every non-NaN cell of the input
is still there, at the same place, after the whole list -/
theorem fillna_keeps (ms : List Method) (lim : Option Nat) (f g : Frame) (hms : ∀ m ∈ ms, m ≠ .fnna ∧ m ≠ .nona)
    (hs : f.Sorted) (hr : f.Rect) (h : fillna ms lim f = .ok g) :
    g.idx = f.idx ∧ g.names = f.names ∧ ∀ j i v, cell f j i = some (some v) → cell g j i = some (some v) := by
  induction ms generalizing f with
  | nil => simp [fillna, List.foldlM, pure, Except.pure] at h; subst h; exact ⟨rfl, rfl, fun _ _ _ h => h⟩
  | cons m ms ih =>
    rw [seq_cons] at h
    cases h1 : step lim f m with
    | error e => rw [h1] at h; cases h
    | ok f1 =>
      rw [h1] at h
      have hw := fillna_wellformed [m] lim f f1 hs hr (by rw [fillna_single]; exact h1)
      obtain ⟨a1, a2, a3⟩ := fill_keeps_values lim m f f1 (hms m (by simp)) hs hr h1
      obtain ⟨b1, b2, b3⟩ := ih f1 (fun m' hm' => hms m' (by simp [hm'])) hw.1 hw.2 h
      exact ⟨b1.trans a1, b2.trans a2, fun j i v hv => b3 j i v (a3 j i v hv)⟩

theorem row_cell (f : Frame) (i j : Nat) (v : Int) (hi : i < f.nrows) (hr : f.Rect) :
    (f.row i).2[j]? = some (some v) ↔ cell f j i = some (some v) := by
  simp only [Frame.row, cell, List.getElem?_map]
  cases hc : f.cols[j]? with
  | none => simp
  | some c =>
    have hl : i < c.2.length := by rw [hr c (List.mem_of_getElem? hc)]; exact hi
    simp [List.getD_eq_getElem?_getD, List.getElem?_eq_getElem hl]

/-- ONE step of any method: rows are only removed (never added, reordered or relabelled), the columns stay, and every
row of the result is a row of the input with all its non-NaN cells intact -/
theorem step_rows_kept (lim : Option Nat) (m : Method) (f g : Frame) (hs : f.Sorted) (hr : f.Rect)
    (h : step lim f m = .ok g) :
    g.idx.Sublist f.idx ∧ g.names = f.names ∧ ∀ r ∈ g.rows, ∃ r0 ∈ f.rows, RowKept r0 r := by
  by_cases hm : m ≠ .fnna ∧ m ≠ .nona
  · obtain ⟨a1, a2, a3⟩ := fill_keeps_values lim m f g hm hs hr h
    have hw := fillna_wellformed [m] lim f g hs hr (by rw [fillna_single]; exact h)
    refine ⟨by rw [a1]; exact List.Sublist.refl _, a2, ?_⟩
    intro r hrr
    obtain ⟨i, hi, rfl⟩ := List.mem_map.mp hrr
    have hi' : i < f.nrows := by simpa [Frame.nrows, a1] using hi
    refine ⟨f.row i, List.mem_map.mpr ⟨i, by simpa using hi', rfl⟩, ?_, ?_, ?_⟩
    · simp [Frame.row, a1]
    · have := congrArg List.length a2; simpa [Frame.row, Frame.names] using this
    · intro j v hv
      rw [row_cell f i j v hi' hr] at hv
      rw [row_cell g i j v (by simpa [Frame.nrows, a1] using hi') hw.2]
      exact a3 j i v hv
  · have key : ∀ pos, pos.Sublist (List.range f.nrows) → g = f.gather pos →
        g.idx.Sublist f.idx ∧ g.names = f.names ∧ ∀ r ∈ g.rows, ∃ r0 ∈ f.rows, RowKept r0 r := by
      intro pos hp e; subst e
      obtain ⟨k1, k2⟩ := gather_rows_kept f pos hp
      exact ⟨k1, Frame.names_gather _ _, fun r hr' => ⟨r, k2 r hr', RowKept.refl r⟩⟩
    cases m with
    | fnna =>
      simp only [step] at h
      split at h
      · cases h; exact key _ List.filter_sublist rfl
      · cases h; exact key [] (List.nil_sublist _) rfl
    | nona => simp only [step] at h; cases h; exact key _ List.filter_sublist rfl
    | const c => exact (hm ⟨by simp, by simp⟩).elim
    | ffill => exact (hm ⟨by simp, by simp⟩).elim
    | bfill => exact (hm ⟨by simp, by simp⟩).elim
    | ffillNa => exact (hm ⟨by simp, by simp⟩).elim
    | ffill0 => exact (hm ⟨by simp, by simp⟩).elim

/-- ANY method list (removing methods included): "df_fillna never changes a non-NaN cell", tracked by row.  The
timestamps of the result are a sub-sequence of the input's, the columns stay, and every row of the result is the row of
the input with that timestamp (unique: the index is strictly increasing) with all its non-NaN cells intact. -/
theorem fillna_rows_kept (ms : List Method) (lim : Option Nat) (f g : Frame) (hs : f.Sorted) (hr : f.Rect)
    (h : fillna ms lim f = .ok g) :
    g.idx.Sublist f.idx ∧ g.names = f.names ∧ ∀ r ∈ g.rows, ∃ r0 ∈ f.rows, RowKept r0 r := by
  induction ms generalizing f with
  | nil =>
    simp [fillna, List.foldlM, pure, Except.pure] at h; subst h
    exact ⟨List.Sublist.refl _, rfl, fun r hr' => ⟨r, hr', RowKept.refl r⟩⟩
  | cons m ms ih =>
    rw [seq_cons] at h
    cases h1 : step lim f m with
    | error e => rw [h1] at h; cases h
    | ok f1 =>
      rw [h1] at h
      have hw := fillna_wellformed [m] lim f f1 hs hr (by rw [fillna_single]; exact h1)
      obtain ⟨a1, a2, a3⟩ := step_rows_kept lim m f f1 hs hr h1
      obtain ⟨b1, b2, b3⟩ := ih f1 hw.1 hw.2 h
      refine ⟨b1.trans a1, b2.trans a2, ?_⟩
      intro r hr'
      obtain ⟨r1, hr1, k1⟩ := b3 r hr'
      obtain ⟨r0, hr0, k0⟩ := a3 r1 hr1
      exact ⟨r0, hr0, k0.trans k1⟩

/-! ### arrays -/

/-- Given a numpy array (the column values alone) the result equals the values of the result for ANY
Series / DataFrame that carries those values over a strictly increasing index: the array path goes through a
`RangeIndex` (lines 211-212) and no method's values depend on the labels.  Errors agree as well. -/
theorem array_agrees (ms : List Method) (lim : Option Nat) (f : Frame) (hs : f.Sorted) (hr : f.Rect)
    (hne : f.cols ≠ []) : fillnaArr ms lim f.vals = (fillna ms lim f).map Frame.vals := by
  cases ms with
  | nil => rfl
  | cons m ms =>
    have h := fillna_same lim (m :: ms) (same_ofArr f hs hr hne)
    show (fillna (m :: ms) lim (ofArr f.vals)).map Frame.vals = _
    cases h1 : fillna (m :: ms) lim f <;> cases h2 : fillna (m :: ms) lim (ofArr f.vals) <;> rw [h1, h2] at h
    · show Except.error _ = Except.error _
      rw [show _ = _ from h]
    · exact h.elim
    · exact h.elim
    · show Except.ok _ = Except.ok _
      rw [(show Same _ _ from h).vals]

/-- the same for the function `nona` with `edge = None`: the array result is the values of the pandas result (every `edge`: `nona_edge_array_agrees`) -/
theorem nona_array_agrees (f g : Frame) (hs : f.Sorted) (hr : f.Rect) (hne : f.cols ≠ [])
    (h : nona Option.none f = .ok g) : nonaArr f.vals = g.vals := by
  have hsame := same_ofArr f hs hr hne
  simp only [nona] at h; cases h
  unfold nonaArr
  rw [hsame.rowValid.symm, hsame.nrows.symm, vals_gather, vals_gather, vals_ofArr]

/-- **nona_edge_array_agrees** - the clause "given a numpy array the result equals the values of the result for the
corresponding Series/DataFrame" for `nona(x, edge)`, every `edge`: the array is cut by POSITION (`nonaArrE`: `take` / `drop` at
the last / first row holding a value), the pandas object by LABEL (`nona`: `df_slice(df, ub = last surviving label, '[]')`);
over a strictly increasing index the two agree (errors too).  True of the code since repo fix C12-E1; before it the array
ignored `edge` (`nona_edge_array_ignored` below is that behaviour). -/
theorem nona_edge_array_agrees (e : Option Int) (f : Frame) (hs : f.Sorted) (hr : f.Rect) (hne : f.cols ≠ []) :
    nonaArrE e f.vals = (nona e f).map Frame.vals := by
  have hsame := same_ofArr f hs hr hne
  have hV : (List.range (ofArr f.vals).nrows).filter (ofArr f.vals).rowValid = (List.range f.nrows).filter f.rowValid := by
    rw [hsame.rowValid.symm, hsame.nrows.symm]
  have h0 : nonaArr f.vals = (f.gather ((List.range f.nrows).filter f.rowValid)).vals :=
    nona_array_agrees f _ hs hr hne rfl
  cases e with
  | none => simp only [nonaArrE, nona]; rw [h0]; rfl
  | some e =>
    by_cases hV0 : (List.range f.nrows).filter f.rowValid = []
    · simp only [nonaArrE, nona, hV, hV0, h0]; simp [Frame.gather]; rfl
    · have hemp : (f.gather ((List.range f.nrows).filter f.rowValid)).idx.isEmpty = false := by simp [Frame.gather, hV0]
      have hemp' : ((List.range f.nrows).filter f.rowValid).isEmpty = false := by simpa using hV0
      obtain ⟨hq1, hq2, hq3⟩ := Frame.getLast_filter_range f.nrows f.rowValid hV0
      generalize hp : ((List.range f.nrows).filter f.rowValid).getLast hV0 = p at hq1 hq2 hq3
      have hlast : ((List.range f.nrows).filter f.rowValid).getLastD 0 = p := by
        rw [List.getLastD_eq_getLast?, List.getLast?_eq_some_getLast hV0, hp]; rfl
      have hub : ((f.gather ((List.range f.nrows).filter f.rowValid)).idx).getLastD 0 = f.idx.getD p 0 := by
        simp only [Frame.gather, List.getLastD_eq_getLast?, List.getLast?_map, List.getLast?_eq_some_getLast hV0, hp]
        rfl
      obtain ⟨p0, tl, hcons⟩ : ∃ p0 tl, (List.range f.nrows).filter f.rowValid = p0 :: tl := by
        cases hl : (List.range f.nrows).filter f.rowValid with
        | nil => exact absurd hl hV0
        | cons a tl => exact ⟨a, tl, rfl⟩
      have hp0 : p0 < f.nrows := by
        have : p0 ∈ (List.range f.nrows).filter f.rowValid := by rw [hcons]; simp
        simpa using (List.mem_filter.mp this).1
      have hlb : ((f.gather ((List.range f.nrows).filter f.rowValid)).idx).headD 0 = f.idx.getD p0 0 := by
        simp [Frame.gather, hcons]
      have hhead : ((List.range f.nrows).filter f.rowValid).headD 0 = p0 := by simp [hcons]
      simp only [nonaArrE, nona, hV, hemp, hemp', hlast, hub, hlb, hhead]
      by_cases h1 : e = 1
      · subst h1
        simp only [beq_self_eq_true, if_true, Bool.false_eq_true, if_false]
        rw [Frame.filter_label_le f hs p hq1]
        simp only [Except.map]
        rw [Frame.vals_gather_take f hr]
      · by_cases h2 : e = -1
        · subst h2
          simp only [show ((-1 : Int) == 1) = false from rfl, beq_self_eq_true, if_true, Bool.false_eq_true, if_false]
          rw [Frame.filter_label_ge f hs p0 hp0]
          simp only [Except.map]
          rw [Frame.vals_gather_drop f hr]
        · simp [h1, h2]; rfl

/-! ### non-vacuity and evaluation checks -/

/-- `nona_edge_array_agrees` on an array with a leading, an interior and a trailing NaN, both edges; and the behaviour
before the fix (`nonaArr`: the interior NaN goes as well) differs from the pandas values - the witness of finding C12-E1 -/
example : let f : Frame := { idx := [3, 5, 9, 10, 12], cols := [("a", [Option.none, some 1, Option.none, some 5, Option.none])] }
    f.Sorted ∧ f.Rect ∧ f.cols ≠ [] ∧
    (nonaArrE (some 1) f.vals).toOption = some [[Option.none, some 1, Option.none, some 5]] ∧
    (nonaArrE (some (-1)) f.vals).toOption = some [[some 1, Option.none, some 5, Option.none]] ∧
    (nona (some (-1)) f).toOption.map Frame.vals = some [[some 1, Option.none, some 5, Option.none]] := by decide
theorem nona_edge_array_ignored : ∃ f : Frame, f.Sorted ∧ f.Rect ∧ f.cols ≠ [] ∧
    (nona (some (-1)) f).toOption.map Frame.vals ≠ some (nonaArr f.vals) :=
  ⟨{ idx := [3, 5, 9, 10, 12], cols := [("a", [Option.none, some 1, Option.none, some 5, Option.none])] }, by decide⟩

example : ffill (some 1) [Option.none, some 1, Option.none, Option.none, some 5, Option.none] =
    [Option.none, some 1, some 1, Option.none, some 5, some 5] := by decide
example : bfill (some 1) [Option.none, Option.none, some 1, Option.none] =
    [Option.none, some 1, some 1, Option.none] := by decide
example : fillConst 7 (some 1) [Option.none, some 1, Option.none] = [some 7, some 1, Option.none] := by decide
example : ffillTail (some 0) Option.none [10, 20, 30, 40] [some 1, Option.none, some 3, Option.none] =
    [some 1, some 1, some 3, some 0] := by decide
/-- the hypotheses of `ffill_limit` hold on a non-trivial column (j = 1, i = 3, limit 2) -/
example : let xs : Col := [Option.none, some 4, Option.none, Option.none, some 9]
    (1 < 3) ∧ xs[1]? = some (some 4) ∧ (∀ m, 1 < m → m ≤ 3 → xs[m]? = some Option.none) ∧
    (ffill (some 2) xs)[3]? = some (some 4) ∧ (ffill (some 1) xs)[3]? = some Option.none := by
  refine ⟨by decide, by decide, ?_, by decide, by decide⟩
  intro m h1 h2
  have : m = 2 ∨ m = 3 := by omega
  rcases this with rfl | rfl <;> decide
/-- `fnna_rows` / `nona_rows` on a 2-column frame with a leading and an interior all-NaN row -/
example : let f : Frame := { idx := [1, 2, 3, 4], cols := [("a", [Option.none, some 1, Option.none, some 2]),
                                                           ("b", [Option.none, Option.none, Option.none, some 5])] }
    f.Sorted ∧ f.Rect ∧
    (step Option.none f .nona).toOption.map (·.idx) = some [2, 4] ∧
    (step Option.none f .fnna).toOption.map (·.idx) = some [2, 3, 4] := by decide

/-- `fillna_rows_kept` / `fillna_keeps` on a list that fills and removes -/
example : let f : Frame := { idx := [1, 2, 3, 4], cols := [("a", [Option.none, some 1, Option.none, some 2]),
                                                           ("b", [Option.none, Option.none, Option.none, some 5])] }
    f.Sorted ∧ f.Rect ∧
    (fillna [.fnna, .ffill, .const 7] (some 1) f).toOption =
      some { idx := [2, 3, 4], cols := [("a", [some 1, some 1, some 2]), ("b", [some 7, Option.none, some 5])] } := by decide

/-- `array_agrees` on a frame with gaps in its index and a method list that drops and fills -/
example : let f : Frame := { idx := [3, 5, 9, 10], cols := [("a", [Option.none, some 1, Option.none, Option.none])] }
    f.Sorted ∧ f.Rect ∧ f.cols ≠ [] ∧
    (fillnaArr [.fnna, .ffill0] Option.none f.vals).toOption = some [[some 1, some 0, some 0]] := by decide

/-- `nona_edge_last` / `nona_edge_first`: an interior all-NaN row (label 3) stays, only the trailing / leading ones go -/
example : let f : Frame := { idx := [1, 2, 3, 4, 5], cols := [("a", [Option.none, some 1, Option.none, some 2, Option.none]),
                                                              ("b", [Option.none, Option.none, Option.none, some 5, Option.none])] }
    f.Sorted ∧
    (nona (some 1) f).toOption.map (·.idx) = some [1, 2, 3, 4] ∧
    (nona (some (-1)) f).toOption.map (·.idx) = some [2, 3, 4, 5] ∧
    (nona Option.none f).toOption.map (·.idx) = some [2, 4] := by decide

/-- `input_not_modified` / `store_value` on the in-place branch: 'ffill_0' on a Series writes into cell 1 (the `ffill` copy) -/
example : let df : Frame := { idx := [1, 2, 3, 4], cols := [("", [some 1, Option.none, some 3, Option.none])] }
    (FillAlias.call true [.ffill0] Option.none df).toOption.map (fun s => s.cells[0]?) = some (some df) ∧
    (FillAlias.call true [.ffill0] Option.none df).toOption.map (fun s => (s.res, s.writes)) = some (1, [1]) ∧
    (FillAlias.call true [.ffill0] Option.none df).toOption.map (fun s => (FillAlias.cur s).cols) =
      some [("", [some 1, some 1, some 3, some 0])] := by decide

section NonaStore
open Pyg.FillAlias

/-! ### "the input object is not modified" for `nona` (reviews t4 / v4: the store model covered `_df_fillna` only)

`FillAlias.nonaPd` / `nonaArrS`: `_nona` on a store whose cells record whose buffer they share (a numpy basic slice is a view). -/

/-- **nona_input_not_modified** (Series / DataFrame, every `edge`): the caller's object (cell 0) holds what it held, nothing was
written, the object returned is NOT the caller's object and shares no buffer with it (`aliasesInput`: following the view links
from the returned cell never reaches cell 0), and it holds exactly the pure model's `nona edge f` (the two fail together) -/
theorem nona_input_not_modified (edge : Option Int) (f : Frame) (s : NStore Frame) (h : nonaPd edge f = .ok s) :
    s.cells[0]? = some ⟨f, Option.none⟩ ∧ s.writes = [] ∧ s.ret ≠ 0 ∧ s.aliasesInput = false ∧
      (nona edge f).toOption = s.result := by
  unfold nonaPd at h
  cases edge with
  | none =>
    simp only at h
    cases h
    simp [NStore.alloc, NStore.aliasesInput, reachesInput, NStore.result, nona, Except.toOption]
  | some e =>
    simp only at h
    split at h
    · cases h
      rename_i he
      simp [NStore.alloc, NStore.aliasesInput, reachesInput, NStore.result, nona, Except.toOption, he]
    · split at h
      · cases h
        rename_i he he1
        simp [NStore.alloc, NStore.aliasesInput, reachesInput, NStore.result, nona, Except.toOption, he, he1]
      · split at h
        · cases h
          rename_i he he1 he2
          simp [NStore.alloc, NStore.aliasesInput, reachesInput, NStore.result, nona, Except.toOption, he, he1, he2]
        · cases h

/-- **nona_array_input_not_modified** (numpy array, every `edge`, the repaired code `df[:k].copy()`): the same five facts; the
value is `nonaArrE` (the array path of the statement: cut by position) -/
theorem nona_array_input_not_modified (edge : Option Int) (cols : List Col) (s : NStore (List Col))
    (h : nonaArrS true edge cols = .ok s) :
    s.cells[0]? = some ⟨cols, Option.none⟩ ∧ s.writes = [] ∧ s.ret ≠ 0 ∧ s.aliasesInput = false ∧
      (nonaArrE edge cols).toOption = s.result := by
  unfold nonaArrS at h
  cases edge with
  | none =>
    simp only at h
    cases h
    simp [NStore.alloc, NStore.aliasesInput, reachesInput, NStore.result, nonaArrE, Except.toOption]
  | some e =>
    simp only at h
    split at h
    · cases h
      rename_i he
      simp [NStore.alloc, NStore.aliasesInput, reachesInput, NStore.result, nonaArrE, Except.toOption, he]
    · split at h
      · cases h
        rename_i he he1
        simp [NStore.alloc, NStore.aliasesInput, reachesInput, NStore.result, nonaArrE, Except.toOption, he, he1]
      · split at h
        · cases h
          rename_i he he1 he2
          simp [NStore.alloc, NStore.aliasesInput, reachesInput, NStore.result, nonaArrE, Except.toOption, he, he1, he2]
        · cases h

/-- the `.copy()` is what makes it true: without it (the code before repo fix C12-E2) `nona(array, edge = 1 / -1)` returns the
basic slice, a VIEW of the argument - same value, but writing into the result writes into the caller's array -/
theorem nona_array_view_without_copy (e : Int) (he : e = 1 ∨ e = -1) (cols : List Col) (s : NStore (List Col))
    (hv : ((List.range (ofArr cols).nrows).filter (ofArr cols).rowValid).isEmpty = false)
    (h : nonaArrS false (some e) cols = .ok s) : s.aliasesInput = true ∧ (nonaArrE (some e) cols).toOption = s.result := by
  unfold nonaArrS at h
  simp only [hv] at h
  rcases he with rfl | rfl
  · simp at h; cases h
    simp [NStore.alloc, NStore.aliasesInput, reachesInput, NStore.result, nonaArrE, Except.toOption, hv]
  · simp at h; cases h
    simp [NStore.alloc, NStore.aliasesInput, reachesInput, NStore.result, nonaArrE, Except.toOption, hv]

end NonaStore

example : (FillAlias.nonaArrS false (some 1) [[some 1, Option.none, some 5, Option.none]]).toOption.map (·.aliasesInput) = some true ∧
    (FillAlias.nonaArrS true (some 1) [[some 1, Option.none, some 5, Option.none]]).toOption.map (·.aliasesInput) = some false ∧
    (FillAlias.nonaArrS true (some 1) [[some 1, Option.none, some 5, Option.none]]).toOption.bind (·.result) =
      some [[some 1, Option.none, some 5]] := by decide

end Pyg.Props.C12
