/-
  C03 — alignment puts all timeseries on the prescribed common index, values intact.
  Property theorems only; helper lemmas live in PygProofs/Lemmas/AlignLemmas.lean (and FillLemmas.lean).
-/
import PygModel.Align
import PygProofs.Lemmas.AlignLemmas
import PygProofs.Lemmas.AlignAsOf
import PygProofs.Lemmas.FillIndep

namespace Pyg.Props.C03
open Pyg Pyg.Fill Pyg.Align

/-! ### the common index: intersection, union, first, last -/

/-- inner join: exactly the timestamps present in EVERY input index; sorted -/
theorem index_inner (ix : List Int) (ixs : List (List Int)) (hs : SortedL ix) :
    ∃ r, joinIndex .inner (ix :: ixs) = some r ∧ SortedL r ∧ ∀ t, t ∈ r ↔ ∀ j ∈ ix :: ixs, t ∈ j :=
  ⟨_, rfl, sorted_foldl_inter ix ixs hs, fun t => by rw [mem_foldl_inter]; simp⟩

/-- outer join: exactly the timestamps present in SOME input index; sorted -/
theorem index_outer (ix : List Int) (ixs : List (List Int)) (hs : SortedL ix) :
    ∃ r, joinIndex .outer (ix :: ixs) = some r ∧ SortedL r ∧ ∀ t, t ∈ r ↔ ∃ j ∈ ix :: ixs, t ∈ j :=
  ⟨_, rfl, sorted_foldl_union ix ixs hs, fun t => by rw [mem_foldl_union]; simp⟩

/-- left / right join: the first / the last input index -/
theorem index_left (ix : List Int) (ixs : List (List Int)) : joinIndex .left (ix :: ixs) = some ix := rfl

theorem index_right (ix : List Int) (ixs : List (List Int)) : joinIndex .right (ix :: ixs) = (ix :: ixs).getLast? := by
  simp only [joinIndex, List.getLastD_eq_getLast?]
  cases h : (ix :: ixs).getLast? with
  | none => simp at h
  | some r => rfl

/-- nothing to align on: no index -/
theorem index_none (how : How) : joinIndex how [] = Option.none := rfl

/-! ### reindexing one timeseries -/

/-- the result sits on the requested index, keeps its columns and is rectangular -/
theorem reindex_index (f : Frame) (idx : List Int) (m : Option Dir) :
    (reindexFrame f idx m).idx = idx ∧ (reindexFrame f idx m).names = f.names ∧ (reindexFrame f idx m).Rect := by
  refine ⟨reindexFrame_idx f idx m, ?_, ?_⟩
  · cases m with
    | none => simp [reindexFrame, gatherOpt, Frame.names, List.map_map, Function.comp_def]
    | some d => simp [reindexFrame, Frame.names, List.map_map, Function.comp_def]
  · intro c hc
    rw [reindexFrame_idx]
    cases m with
    | none => simp only [reindexFrame, gatherOpt, List.mem_map] at hc; obtain ⟨c', _, rfl⟩ := hc; simp
    | some d => simp only [reindexFrame, List.mem_map] at hc; obtain ⟨c', _, rfl⟩ := hc; simp [asofCol]

/-- no fill method: every column is looked up label by label -/
theorem reindex_values (f : Frame) (idx : List Int) :
    (reindexFrame f idx Option.none).cols = f.cols.map fun c => (c.1, idx.map (valueAt f.idx c.2)) := by
  simp [reindexFrame, gatherOpt, valueAt, List.map_map, Function.comp_def]

/-- ... so at a timestamp the series has (position `i` of its sorted index) it keeps exactly its value -/
theorem reindex_keep (ix : List Int) (c : Col) (hs : SortedL ix) (i : Nat) (t : Int) (h : ix[i]? = some t) :
    valueAt ix c t = (c[i]?).join := by
  unfold valueAt
  obtain ⟨j, hj⟩ := posOf_of_mem ix t (List.mem_of_getElem? h)
  rw [hj]
  obtain ⟨h1, _⟩ := posOf_some ix t j hj
  have hi := getElem?_some_lt h; have hjl := getElem?_some_lt h1
  rw [List.getElem?_eq_getElem hi] at h; rw [List.getElem?_eq_getElem hjl] at h1
  have hp := List.pairwise_iff_getElem.mp hs
  have : j = i := by
    rcases Nat.lt_trichotomy j i with h' | h' | h'
    · have := hp j i hjl hi h'; simp at h h1; omega
    · exact h'
    · have := hp i j hi hjl h'; simp at h h1; omega
  subst this; rfl

/-- ... and a timestamp it lacked is NaN -/
theorem reindex_missing (ix : List Int) (c : Col) (t : Int) (h : t ∉ ix) : valueAt ix c t = Option.none := by
  unfold valueAt; rw [(posOf_none ix t).mpr h]; rfl

/-- ffill (an as-of join, column by column): on a strictly increasing index every requested label `t` takes, in
every column, `lastObs` = the cell at the right-most position whose label is `≤ t` and whose cell is not NaN
(`last_observation` says so by positions); NaN when the column has no such observation.  `lastObs` is an independent
reference (one scan over labels and cells, no NaN removal, no positions); the model removes the NaN cells of the
column first (`obs`) and then looks up the as-of position (`asof_position`). -/
theorem reindex_ffill (f : Frame) (idx : List Int) (hs : f.Sorted) :
    (reindexFrame f idx (some .ffill)).cols = f.cols.map fun c => (c.1, idx.map (lastObs f.idx c.2)) := by
  simp only [reindexFrame, asofCol_eq]
  apply List.map_congr_left
  intro c _
  congr 1
  apply List.map_congr_left
  intro t _
  exact asofAt_ffill f.idx c.2 t hs

/-- bfill: the cell at the left-most position whose label is `≥ t` and whose cell is not NaN (`next_observation`) -/
theorem reindex_bfill (f : Frame) (idx : List Int) :
    (reindexFrame f idx (some .bfill)).cols = f.cols.map fun c => (c.1, idx.map (firstObs f.idx c.2)) := by
  simp only [reindexFrame, asofCol_eq]
  apply List.map_congr_left
  intro c _
  congr 1
  apply List.map_congr_left
  intro t _
  exact asofAt_bfill f.idx c.2 t

/-- what `lastObs` is, by positions: `v` sits at a position `i` with label `≤ t`, and no later position with a label
`≤ t` holds a value -/
theorem last_observation (ix : List Int) (c : Col) (t v : Int) :
    lastObs ix c t = some v ↔
      ∃ (i : Nat) (s : Int), ix[i]? = some s ∧ s ≤ t ∧ c[i]? = some (some v) ∧
        ∀ (j : Nat) (s' w : Int), i < j → ix[j]? = some s' → s' ≤ t → c[j]? ≠ some (some w) :=
  lastObs_iff ix c t v

theorem next_observation (ix : List Int) (c : Col) (t v : Int) :
    firstObs ix c t = some v ↔
      ∃ (i : Nat) (s : Int), ix[i]? = some s ∧ t ≤ s ∧ c[i]? = some (some v) ∧
        ∀ (j : Nat) (s' w : Int), j < i → ix[j]? = some s' → t ≤ s' → c[j]? ≠ some (some w) :=
  firstObs_iff ix c t v

/-- the composed statement for ONE cell of the result: column number `j`, requested label `idx[k] = t`.  The cell is
the value `v` iff `v` is the column's last non-NaN observation at or before `t`; it is NaN iff there is none. -/
theorem reindex_ffill_cell (f : Frame) (idx : List Int) (hs : f.Sorted) (j k : Nat) (c : String × Col) (t : Int)
    (hc : f.cols[j]? = some c) (hk : idx[k]? = some t) :
    ∃ r, (reindexFrame f idx (some .ffill)).cols[j]? = some (c.1, r) ∧ r.length = idx.length ∧
      (∀ v, r[k]? = some (some v) ↔
        ∃ (i : Nat) (s : Int), f.idx[i]? = some s ∧ s ≤ t ∧ c.2[i]? = some (some v) ∧
          ∀ (j' : Nat) (s' w : Int), i < j' → f.idx[j']? = some s' → s' ≤ t → c.2[j']? ≠ some (some w)) ∧
      (r[k]? = some Option.none ↔ lastObs f.idx c.2 t = Option.none) := by
  refine ⟨idx.map (lastObs f.idx c.2), ?_, by simp, ?_, ?_⟩
  · rw [reindex_ffill f idx hs]; simp [hc]
  · intro v; rw [← lastObs_iff]; simp [hk]
  · simp [hk]

theorem reindex_bfill_cell (f : Frame) (idx : List Int) (j k : Nat) (c : String × Col) (t : Int)
    (hc : f.cols[j]? = some c) (hk : idx[k]? = some t) :
    ∃ r, (reindexFrame f idx (some .bfill)).cols[j]? = some (c.1, r) ∧ r.length = idx.length ∧
      (∀ v, r[k]? = some (some v) ↔
        ∃ (i : Nat) (s : Int), f.idx[i]? = some s ∧ t ≤ s ∧ c.2[i]? = some (some v) ∧
          ∀ (j' : Nat) (s' w : Int), j' < i → f.idx[j']? = some s' → t ≤ s' → c.2[j']? ≠ some (some w)) ∧
      (r[k]? = some Option.none ↔ firstObs f.idx c.2 t = Option.none) := by
  refine ⟨idx.map (firstObs f.idx c.2), ?_, by simp, ?_, ?_⟩
  · rw [reindex_bfill f idx]; simp [hc]
  · intro v; rw [← firstObs_iff]; simp [hk]
  · simp [hk]

/-- with a fill method, too, a non-NaN cell at a timestamp the series has is kept (it is its own last and next
observation) -/
theorem reindex_fill_keeps (ix : List Int) (c : Col) (hs : SortedL ix) (i : Nat) (t v : Int)
    (hi : ix[i]? = some t) (hv : c[i]? = some (some v)) :
    lastObs ix c t = some v ∧ firstObs ix c t = some v := by
  have hp := List.pairwise_iff_getElem.mp hs
  have hil := getElem?_some_lt hi
  constructor
  · refine (lastObs_iff ix c t v).mpr ⟨i, t, hi, Int.le_refl _, hv, ?_⟩
    intro j s' w hj hjs hle
    have hjl := getElem?_some_lt hjs
    have := hp i j hil hjl hj
    rw [List.getElem?_eq_getElem hil] at hi; rw [List.getElem?_eq_getElem hjl] at hjs
    simp at hi hjs; omega
  · refine (firstObs_iff ix c t v).mpr ⟨i, t, hi, Int.le_refl _, hv, ?_⟩
    intro j s' w hj hjs hle
    have hjl := getElem?_some_lt hjs
    have := hp j i hjl hil hj
    rw [List.getElem?_eq_getElem hil] at hi; rw [List.getElem?_eq_getElem hjl] at hjs
    simp at hi hjs; omega

/-- as-of position on a sorted index: the LAST label `≤ t`; none iff every label is later than `t` -/
theorem asof_position (ix : List Int) (hs : SortedL ix) (t : Int) :
    (∀ p, posAsOf ix t = some p → (∃ s, ix[p]? = some s ∧ s ≤ t) ∧ ∀ q s, p < q → ix[q]? = some s → t < s) ∧
    (posAsOf ix t = Option.none → ∀ s ∈ ix, t < s) :=
  ⟨fun p h => posAsOf_some ix hs t p h, posAsOf_none ix hs t⟩

/-- bfill position: the FIRST label `≥ t`; none iff every label is earlier than `t` -/
theorem next_position (ix : List Int) (t : Int) :
    (∀ p, posNext ix t = some p → (∃ s, ix[p]? = some s ∧ t ≤ s) ∧ ∀ q s, q < p → ix[q]? = some s → s < t) ∧
    (posNext ix t = Option.none → ∀ s ∈ ix, s < t) :=
  ⟨fun p h => posNext_some ix t p h, posNext_none ix t⟩

/-! ### bare numpy arrays: aligned at the end -/

theorem arr_align (n : Nat) (xs : Col) :
    (alignArr n xs).length = n ∧
    (∀ k, k < n → k < xs.length → (alignArr n xs)[n - 1 - k]? = xs[xs.length - 1 - k]?) ∧
    (∀ i, i + xs.length < n → (alignArr n xs)[i]? = some Option.none) :=
  ⟨alignArr_length n xs, alignArr_suffix n xs, alignArr_pad n xs⟩

/-- the common length: min / max / first / last of the lengths -/
theorem arr_len_inner (n : Nat) (ns : List Nat) :
    ∃ r, joinLen .inner (n :: ns) = some r ∧ (∀ k ∈ n :: ns, r ≤ k) ∧ r ∈ n :: ns := by
  refine ⟨_, rfl, ?_, ?_⟩
  · induction ns generalizing n with
    | nil => simp
    | cons x xs ih =>
      intro k hk
      simp only [List.foldl_cons]
      have h1 := ih (min n x)
      rcases List.mem_cons.mp hk with rfl | hk
      · have := h1 (min k x) (by simp); omega
      · rcases List.mem_cons.mp hk with rfl | hk
        · have := h1 (min n k) (by simp); omega
        · exact h1 k (by simp [hk])
  · induction ns generalizing n with
    | nil => simp
    | cons x xs ih =>
      simp only [List.foldl_cons]
      have := ih (min n x)
      rcases List.mem_cons.mp this with h | h
      · rw [h]; rcases Nat.le_total n x with h' | h'
        · simp [Nat.min_eq_left h']
        · simp [Nat.min_eq_right h']
      · simp [h]

/-! ### containers: structure kept, non-timeseries passed through, one common index -/

/-- `df_sync` keeps container types, keys, order and sizes, the kind of every member, and every member that is
not a timeseries / array exactly as it was -/
theorem sync_shape (how : How) (m : Option Dir) (ch : Option How) (t t' : Tree)
    (h : sync how m ch t = .ok t') : t'.skel = t.skel := by
  cases t with
  | leaf l => simp [sync] at h; subst h; rfl
  | node tag kids =>
    simp only [sync] at h
    have key : ∀ ix t1, reindexTree ix m (.node tag kids) = .ok t1 → t1.skel = (Tree.node tag kids).skel := by
      intro ix t1 h1
      cases ix with
      | none => simp [reindexTree] at h1; subst h1; rfl
      | times idx => exact skel_mapM _ (reindexLeaf_skel _ m) _ _ h1
      | len n => exact skel_mapM _ (reindexLeaf_skel _ m) _ _ h1
    split at h
    · cases h
    · rename_i t1 h1
      cases ch with
      | none => simp at h; subst h; exact key _ _ h1
      | some c =>
        simp only at h
        rw [skel_mapM _ (recolumnLeaf_skel _) _ _ h]
        exact key _ _ h1

/-- a non-timeseries member is returned unchanged by both passes -/
theorem other_passthrough (ix : Index) (m : Option Dir) (cols : Option (List String)) (v : Val) :
    reindexLeaf ix m (.other v) = .ok (.other v) ∧ recolumnLeaf cols (.other v) = .ok (.other v) :=
  ⟨rfl, rfl⟩

/-- after `df_sync` EVERY timeseries anywhere in the container sits on the joint index -/
theorem sync_common_index (how : How) (m : Option Dir) (ch : Option How) (tag : Tag) (kids : List (String × Tree))
    (t' : Tree) (ix : List Int) (hix : dfIndex how (Tree.node tag kids).flatTop = .times ix)
    (h : sync how m ch (.node tag kids) = .ok t') :
    ∀ l ∈ t'.leaves, ∀ s f, l = .ts s f → f.idx = ix := by
  simp only [sync, hix, reindexTree] at h
  split at h
  · cases h
  · rename_i t1 h1
    have step1 : ∀ l ∈ t1.leaves, ∀ s f, l = .ts s f → f.idx = ix := by
      intro l hl s f e
      obtain ⟨l0, _, h0⟩ := leaves_mapM _ _ _ h1 l hl
      subst e; exact reindexLeaf_ts ix m l0 s f h0
    cases ch with
    | none => simp at h; subst h; exact step1
    | some c =>
      simp only at h
      intro l hl s f e
      obtain ⟨l1, hl1, h2⟩ := leaves_mapM _ _ _ h l hl
      subst e
      obtain ⟨f0, e0, hidx⟩ := recolumnLeaf_ts _ l1 s f h2
      rw [← hidx]; exact step1 l1 hl1 s f0 e0

/-- the same for the arguments a `presync`-decorated function receives -/
theorem presync_common_index (how : How) (m : Option Dir) (args t' : Tree) (ix : List Int)
    (hix : dfIndex how args.flatTop = .times ix) (h : presyncArgs how m args = .ok t') :
    (∀ l ∈ t'.leaves, ∀ s f, l = .ts s f → f.idx = ix) ∧ t'.skel = args.skel := by
  simp only [presyncArgs, hix, reindexTree] at h
  refine ⟨?_, skel_mapM _ (reindexLeaf_skel _ m) _ _ h⟩
  intro l hl s f e
  obtain ⟨l0, _, h0⟩ := leaves_mapM _ _ _ h l hl
  subst e; exact reindexLeaf_ts ix m l0 s f h0

/-! ### columns -/

/-- a multi-column frame is put onto the common column set: its own columns keep their values, the others are NaN;
Series and one-column frames are left alone -/
theorem recolumn_spec (cs : List String) (f : Frame) (hm : isMulti f = true) :
    ∃ g, recolumnLeaf (some cs) (.ts false f) = .ok (.ts false g) ∧ g.idx = f.idx ∧ g.names = cs ∧
      ∀ c ∈ cs, ∀ col, g.cols.find? (·.1 == c) = some col →
        col.2 = match f.cols.find? (·.1 == c) with
                | some fc => fc.2
                | Option.none => List.replicate f.idx.length Option.none := by
  refine ⟨{ idx := f.idx, cols := cs.map fun c => (c, match f.cols.find? (·.1 == c) with
                                                      | some col => col.2
                                                      | Option.none => List.replicate f.idx.length Option.none) },
    by simp only [recolumnLeaf, hm]; rfl, rfl, by simp [Frame.names, List.map_map, Function.comp_def], ?_⟩
  intro c _ col hcol
  have h1 := List.find?_some hcol
  have h2 := List.mem_of_find?_eq_some hcol
  simp only [List.mem_map] at h2
  obtain ⟨c', _, rfl⟩ := h2
  simp at h1; subst h1; rfl

theorem recolumn_single (cols : Option (List String)) (s : Bool) (f : Frame) (h : s = true ∨ isMulti f = false) :
    recolumnLeaf cols (.ts s f) = .ok (.ts s f) := by
  cases s with
  | true => simp [recolumnLeaf]
  | false =>
    have hm : isMulti f = false := by rcases h with h | h; cases h; exact h
    cases cols <;> simp [recolumnLeaf, hm]

/-! ### non-vacuity -/

example : joinIndex .inner [[1, 2, 4, 7], [2, 3, 4], [0, 2, 4, 9]] = some [2, 4] := by decide
example : joinIndex .outer [[1, 4], [2, 3, 4], []] = some [1, 2, 3, 4] := by decide
example : joinIndex .right [[1, 4], [2, 3, 4], [9]] = some [9] := by decide
/-- ffill as-of across a NaN and across gaps; bfill; plain lookup -/
example : let f : Frame := { idx := [1, 2, 5], cols := [("", [some 10, Option.none, some 30])] }
    f.Sorted ∧
    (reindexFrame f [0, 1, 2, 3, 5, 9] (some .ffill)).cols = [("", [Option.none, some 10, some 10, some 10, some 30, some 30])] ∧
    (reindexFrame f [0, 1, 2, 3, 5, 9] (some .bfill)).cols = [("", [some 10, some 10, some 30, some 30, some 30, Option.none])] ∧
    (reindexFrame f [0, 1, 2, 3, 5, 9] Option.none).cols = [("", [Option.none, some 10, Option.none, Option.none, some 30, Option.none])] := by
  decide
/-- the as-of join is per column: a frame whose rows are only partly NaN (C03-A2: the unrepaired code joined whole rows
and returned `a = [1, NaN, NaN]`) -/
example : let f : Frame := { idx := [0, 1], cols := [("a", [some 1, Option.none]), ("b", [Option.none, some 2])] }
    (reindexFrame f [0, 1, 2] (some .ffill)).cols = [("a", [some 1, some 1, some 1]), ("b", [Option.none, some 2, some 2])] ∧
    (reindexFrame f [0, 1, 2] (some .bfill)).cols = [("a", [some 1, Option.none, Option.none]), ("b", [some 2, some 2, Option.none])] := by
  decide
example : alignArr 2 [some 1, some 2, some 3] = [some 2, some 3] ∧
    alignArr 4 [some 1, some 2] = [Option.none, Option.none, some 1, some 2] ∧ alignArr 0 [some 1] = [] := by decide

end Pyg.Props.C03
