/-
  C03 — alignment puts all timeseries on the prescribed common index, values intact.
-/
import PygModel.Align

namespace Pyg.Props.C03
open Pyg Pyg.Fill Pyg.Align

theorem sync_leaf (how : How) (m : Option Dir) (ch : Option How) (l : Leaf) :
    sync how m ch (.leaf l) = .ok (.leaf l) := rfl

end Pyg.Props.C03
