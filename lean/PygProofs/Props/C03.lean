/-
  C03 — alignment puts all timeseries on the prescribed common index, values intact.
  Property theorems only; helper lemmas live in PygProofs/Lemmas/AlignLemmas.lean (and FillLemmas.lean).
-/
import PygModel.Align
import PygProofs.Lemmas.AlignLemmas
import PygProofs.Lemmas.AlignAsOf
import PygProofs.Lemmas.AlignTree
import PygProofs.Lemmas.FillIndep
import PygProofs.Lemmas.AlignLimit
import PygProofs.Lemmas.AlignFill
import PygProofs.Props.C12

namespace Pyg.Props.C03
open Pyg Pyg.Fill Pyg.Align

/-! ### the common index: intersection, union, first, last -/

/-- inner join: exactly the timestamps present in EVERY input index; sorted -/
theorem index_inner (ix : List Int) (ixs : List (List Int)) (hs : SortedL ix) :
    ∃ r, joinIndex .inner (ix :: ixs) = some r ∧ SortedL r ∧ ∀ t, t ∈ r ↔ ∀ j ∈ ix :: ixs, t ∈ j :=
  ⟨_, rfl, sorted_foldl_inter ix ixs hs, fun t => by rw [mem_foldl_inter]; simp⟩

/-- outer join: exactly the timestamps present in SOME input index; sorted -/
theorem index_outer (ix : List Int) (ixs : List (List Int)) (hs : SortedL ix) :
    ∃ r, joinIndex .outer (ix :: ixs) = some r ∧ SortedL r ∧ ∀ t, t ∈ r ↔ ∃ j ∈ ix :: ixs, t ∈ j :=
  ⟨_, rfl, sorted_foldl_union ix ixs hs, fun t => by rw [mem_foldl_union]; simp⟩

/-- left / right join: the first / the last input index -/
theorem index_left (ix : List Int) (ixs : List (List Int)) : joinIndex .left (ix :: ixs) = some ix := rfl

theorem index_right (ix : List Int) (ixs : List (List Int)) : joinIndex .right (ix :: ixs) = (ix :: ixs).getLast? := by
  simp only [joinIndex, List.getLastD_eq_getLast?]
  cases h : (ix :: ixs).getLast? with
  | none => simp at h
  | some r => rfl

/-- nothing to align on: no index -/
theorem index_none (how : How) : joinIndex how [] = Option.none := rfl

/-! ### reindexing one timeseries -/

/-- the result sits on the requested index, keeps its columns and is rectangular -/
theorem reindex_index (f : Frame) (idx : List Int) (m : Option Dir) :
    (reindexFrame f idx m).idx = idx ∧ (reindexFrame f idx m).names = f.names ∧ (reindexFrame f idx m).Rect := by
  refine ⟨reindexFrame_idx f idx m, ?_, ?_⟩
  · cases m with
    | none => simp [reindexFrame, gatherOpt, Frame.names, List.map_map, Function.comp_def]
    | some d => simp [reindexFrame, Frame.names, List.map_map, Function.comp_def]
  · intro c hc
    rw [reindexFrame_idx]
    cases m with
    | none => simp only [reindexFrame, gatherOpt, List.mem_map] at hc; obtain ⟨c', _, rfl⟩ := hc; simp
    | some d => simp only [reindexFrame, List.mem_map] at hc; obtain ⟨c', _, rfl⟩ := hc; simp [asofCol]

/-- no fill method: every column is looked up label by label -/
theorem reindex_values (f : Frame) (idx : List Int) :
    (reindexFrame f idx Option.none).cols = f.cols.map fun c => (c.1, idx.map (valueAt f.idx c.2)) := by
  simp [reindexFrame, gatherOpt, valueAt, List.map_map, Function.comp_def]

/-- ... so at a timestamp the series has (position `i` of its sorted index) it keeps exactly its value -/
theorem reindex_keep (ix : List Int) (c : Col) (hs : SortedL ix) (i : Nat) (t : Int) (h : ix[i]? = some t) :
    valueAt ix c t = (c[i]?).join := by
  unfold valueAt
  obtain ⟨j, hj⟩ := posOf_of_mem ix t (List.mem_of_getElem? h)
  rw [hj]
  obtain ⟨h1, _⟩ := posOf_some ix t j hj
  have hi := getElem?_some_lt h; have hjl := getElem?_some_lt h1
  rw [List.getElem?_eq_getElem hi] at h; rw [List.getElem?_eq_getElem hjl] at h1
  have hp := List.pairwise_iff_getElem.mp hs
  have : j = i := by
    rcases Nat.lt_trichotomy j i with h' | h' | h'
    · have := hp j i hjl hi h'; simp at h h1; omega
    · exact h'
    · have := hp i j hi hjl h'; simp at h h1; omega
  subst this; rfl

/-- ... and a timestamp it lacked is NaN -/
theorem reindex_missing (ix : List Int) (c : Col) (t : Int) (h : t ∉ ix) : valueAt ix c t = Option.none := by
  unfold valueAt; rw [(posOf_none ix t).mpr h]; rfl

/-- ffill (an as-of join, column by column): on a strictly increasing index every requested label `t` takes, in
every column, `lastObs` = the cell at the right-most position whose label is `≤ t` and whose cell is not NaN
(`last_observation` says so by positions); NaN when the column has no such observation.  `lastObs` is an independent
reference (one scan over labels and cells, no NaN removal, no positions); the model removes the NaN cells of the
column first (`obs`) and then looks up the as-of position (`asof_position`). -/
theorem reindex_ffill (f : Frame) (idx : List Int) (hs : f.Sorted) :
    (reindexFrame f idx (some .ffill)).cols = f.cols.map fun c => (c.1, idx.map (lastObs f.idx c.2)) := by
  simp only [reindexFrame, asofCol_eq]
  apply List.map_congr_left
  intro c _
  congr 1
  apply List.map_congr_left
  intro t _
  exact asofAt_ffill f.idx c.2 t hs

/-- bfill: the cell at the left-most position whose label is `≥ t` and whose cell is not NaN (`next_observation`) -/
theorem reindex_bfill (f : Frame) (idx : List Int) :
    (reindexFrame f idx (some .bfill)).cols = f.cols.map fun c => (c.1, idx.map (firstObs f.idx c.2)) := by
  simp only [reindexFrame, asofCol_eq]
  apply List.map_congr_left
  intro c _
  congr 1
  apply List.map_congr_left
  intro t _
  exact asofAt_bfill f.idx c.2 t

/-- what `lastObs` is, by positions: `v` sits at a position `i` with label `≤ t`, and no later position with a label
`≤ t` holds a value -/
theorem last_observation (ix : List Int) (c : Col) (t v : Int) :
    lastObs ix c t = some v ↔
      ∃ (i : Nat) (s : Int), ix[i]? = some s ∧ s ≤ t ∧ c[i]? = some (some v) ∧
        ∀ (j : Nat) (s' w : Int), i < j → ix[j]? = some s' → s' ≤ t → c[j]? ≠ some (some w) :=
  lastObs_iff ix c t v

theorem next_observation (ix : List Int) (c : Col) (t v : Int) :
    firstObs ix c t = some v ↔
      ∃ (i : Nat) (s : Int), ix[i]? = some s ∧ t ≤ s ∧ c[i]? = some (some v) ∧
        ∀ (j : Nat) (s' w : Int), j < i → ix[j]? = some s' → t ≤ s' → c[j]? ≠ some (some w) :=
  firstObs_iff ix c t v

/-- the composed statement for ONE cell of the result: column number `j`, requested label `idx[k] = t`.  The cell is
the value `v` iff `v` is the column's last non-NaN observation at or before `t`; it is NaN iff there is none. -/
theorem reindex_ffill_cell (f : Frame) (idx : List Int) (hs : f.Sorted) (j k : Nat) (c : String × Col) (t : Int)
    (hc : f.cols[j]? = some c) (hk : idx[k]? = some t) :
    ∃ r, (reindexFrame f idx (some .ffill)).cols[j]? = some (c.1, r) ∧ r.length = idx.length ∧
      (∀ v, r[k]? = some (some v) ↔
        ∃ (i : Nat) (s : Int), f.idx[i]? = some s ∧ s ≤ t ∧ c.2[i]? = some (some v) ∧
          ∀ (j' : Nat) (s' w : Int), i < j' → f.idx[j']? = some s' → s' ≤ t → c.2[j']? ≠ some (some w)) ∧
      (r[k]? = some Option.none ↔ lastObs f.idx c.2 t = Option.none) := by
  refine ⟨idx.map (lastObs f.idx c.2), ?_, by simp, ?_, ?_⟩
  · rw [reindex_ffill f idx hs]; simp [hc]
  · intro v; rw [← lastObs_iff]; simp [hk]
  · simp [hk]

theorem reindex_bfill_cell (f : Frame) (idx : List Int) (j k : Nat) (c : String × Col) (t : Int)
    (hc : f.cols[j]? = some c) (hk : idx[k]? = some t) :
    ∃ r, (reindexFrame f idx (some .bfill)).cols[j]? = some (c.1, r) ∧ r.length = idx.length ∧
      (∀ v, r[k]? = some (some v) ↔
        ∃ (i : Nat) (s : Int), f.idx[i]? = some s ∧ t ≤ s ∧ c.2[i]? = some (some v) ∧
          ∀ (j' : Nat) (s' w : Int), j' < i → f.idx[j']? = some s' → t ≤ s' → c.2[j']? ≠ some (some w)) ∧
      (r[k]? = some Option.none ↔ firstObs f.idx c.2 t = Option.none) := by
  refine ⟨idx.map (firstObs f.idx c.2), ?_, by simp, ?_, ?_⟩
  · rw [reindex_bfill f idx]; simp [hc]
  · intro v; rw [← firstObs_iff]; simp [hk]
  · simp [hk]

/-- with a fill method, too, a non-NaN cell at a timestamp the series has is kept (it is its own last and next
observation) -/
theorem reindex_fill_keeps (ix : List Int) (c : Col) (hs : SortedL ix) (i : Nat) (t v : Int)
    (hi : ix[i]? = some t) (hv : c[i]? = some (some v)) :
    lastObs ix c t = some v ∧ firstObs ix c t = some v := by
  have hp := List.pairwise_iff_getElem.mp hs
  have hil := getElem?_some_lt hi
  constructor
  · refine (lastObs_iff ix c t v).mpr ⟨i, t, hi, Int.le_refl _, hv, ?_⟩
    intro j s' w hj hjs hle
    have hjl := getElem?_some_lt hjs
    have := hp i j hil hjl hj
    rw [List.getElem?_eq_getElem hil] at hi; rw [List.getElem?_eq_getElem hjl] at hjs
    simp at hi hjs; omega
  · refine (firstObs_iff ix c t v).mpr ⟨i, t, hi, Int.le_refl _, hv, ?_⟩
    intro j s' w hj hjs hle
    have hjl := getElem?_some_lt hjs
    have := hp j i hjl hil hj
    rw [List.getElem?_eq_getElem hil] at hi; rw [List.getElem?_eq_getElem hjl] at hjs
    simp at hi hjs; omega

/-- as-of position on a sorted index: the LAST label `≤ t`; none iff every label is later than `t` -/
theorem asof_position (ix : List Int) (hs : SortedL ix) (t : Int) :
    (∀ p, posAsOf ix t = some p → (∃ s, ix[p]? = some s ∧ s ≤ t) ∧ ∀ q s, p < q → ix[q]? = some s → t < s) ∧
    (posAsOf ix t = Option.none → ∀ s ∈ ix, t < s) :=
  ⟨fun p h => posAsOf_some ix hs t p h, posAsOf_none ix hs t⟩

/-- bfill position: the FIRST label `≥ t`; none iff every label is earlier than `t` -/
theorem next_position (ix : List Int) (t : Int) :
    (∀ p, posNext ix t = some p → (∃ s, ix[p]? = some s ∧ t ≤ s) ∧ ∀ q s, q < p → ix[q]? = some s → s < t) ∧
    (posNext ix t = Option.none → ∀ s ∈ ix, s < t) :=
  ⟨fun p h => posNext_some ix t p h, posNext_none ix t⟩

/-! ### bare numpy arrays: aligned at the end -/

theorem arr_align (n : Nat) (xs : Col) :
    (alignArr n xs).length = n ∧
    (∀ k, k < n → k < xs.length → (alignArr n xs)[n - 1 - k]? = xs[xs.length - 1 - k]?) ∧
    (∀ i, i + xs.length < n → (alignArr n xs)[i]? = some Option.none) :=
  ⟨alignArr_length n xs, alignArr_suffix n xs, alignArr_pad n xs⟩

/-- the common length: min / max / first / last of the lengths -/
theorem arr_len_inner (n : Nat) (ns : List Nat) :
    ∃ r, joinLen .inner (n :: ns) = some r ∧ (∀ k ∈ n :: ns, r ≤ k) ∧ r ∈ n :: ns := by
  refine ⟨_, rfl, ?_, ?_⟩
  · induction ns generalizing n with
    | nil => simp
    | cons x xs ih =>
      intro k hk
      simp only [List.foldl_cons]
      have h1 := ih (min n x)
      rcases List.mem_cons.mp hk with rfl | hk
      · have := h1 (min k x) (by simp); omega
      · rcases List.mem_cons.mp hk with rfl | hk
        · have := h1 (min n k) (by simp); omega
        · exact h1 k (by simp [hk])
  · induction ns generalizing n with
    | nil => simp
    | cons x xs ih =>
      simp only [List.foldl_cons]
      have := ih (min n x)
      rcases List.mem_cons.mp this with h | h
      · rw [h]; rcases Nat.le_total n x with h' | h'
        · simp [Nat.min_eq_left h']
        · simp [Nat.min_eq_right h']
      · simp [h]

/-- outer join of bare arrays: the common length is the maximum of the lengths -/
theorem arr_len_outer (n : Nat) (ns : List Nat) :
    ∃ r, joinLen .outer (n :: ns) = some r ∧ (∀ k ∈ n :: ns, k ≤ r) ∧ r ∈ n :: ns := by
  refine ⟨_, rfl, ?_, ?_⟩
  · induction ns generalizing n with
    | nil => simp
    | cons x xs ih =>
      intro k hk
      simp only [List.foldl_cons]
      have h1 := ih (max n x)
      rcases List.mem_cons.mp hk with rfl | hk
      · have := h1 (max k x) (by simp); omega
      · rcases List.mem_cons.mp hk with rfl | hk
        · have := h1 (max n k) (by simp); omega
        · exact h1 k (by simp [hk])
  · induction ns generalizing n with
    | nil => simp
    | cons x xs ih =>
      simp only [List.foldl_cons]
      have := ih (max n x)
      rcases List.mem_cons.mp this with h | h
      · rw [h]; rcases Nat.le_total n x with h' | h'
        · simp [Nat.max_eq_right h']
        · simp [Nat.max_eq_left h']
      · simp [h]

theorem arr_len_left (n : Nat) (ns : List Nat) : joinLen .left (n :: ns) = some n := rfl

/-! ### containers: structure kept, non-timeseries passed through, one common index -/

/-- `df_sync` keeps container types, keys, order and sizes, the kind of every member, and every member that is
not a timeseries / array exactly as it was -/
theorem sync_shape (how : How) (m : Option Dir) (ch : Option How) (t t' : Tree)
    (h : sync how m ch t = .ok t') : t'.skel = t.skel := by
  cases t with
  | leaf l => simp [sync] at h; subst h; rfl
  | node tag kids =>
    simp only [sync] at h
    have key : ∀ ix t1, reindexTree ix m (.node tag kids) = .ok t1 → t1.skel = (Tree.node tag kids).skel := by
      intro ix t1 h1
      cases ix with
      | none => simp [reindexTree] at h1; subst h1; rfl
      | times idx => exact skel_mapM _ (reindexLeaf_skel _ m) _ _ h1
      | len n => exact skel_mapM _ (reindexLeaf_skel _ m) _ _ h1
    split at h
    · cases h
    · rename_i t1 h1
      cases ch with
      | none => simp at h; subst h; exact key _ _ h1
      | some c =>
        simp only at h
        rw [skel_mapM _ (recolumnLeaf_skel _) _ _ h]
        exact key _ _ h1

/-- a non-timeseries member is returned unchanged by both passes -/
theorem other_passthrough (ix : Index) (m : Option Dir) (cols : Option (List String)) (v : Val) :
    reindexLeaf ix m (.other v) = .ok (.other v) ∧ recolumnLeaf cols (.other v) = .ok (.other v) :=
  ⟨rfl, rfl⟩

/-- after `df_sync` EVERY timeseries anywhere in the container sits on the joint index -/
theorem sync_common_index (how : How) (m : Option Dir) (ch : Option How) (tag : Tag) (kids : List (String × Tree))
    (t' : Tree) (ix : List Int) (hix : dfIndex how (Tree.node tag kids).flatTop = .times ix)
    (h : sync how m ch (.node tag kids) = .ok t') :
    ∀ l ∈ t'.leaves, ∀ s f, l = .ts s f → f.idx = ix := by
  simp only [sync, hix, reindexTree] at h
  split at h
  · cases h
  · rename_i t1 h1
    have step1 : ∀ l ∈ t1.leaves, ∀ s f, l = .ts s f → f.idx = ix := by
      intro l hl s f e
      obtain ⟨l0, _, h0⟩ := leaves_mapM _ _ _ h1 l hl
      subst e; exact reindexLeaf_ts ix m l0 s f h0
    cases ch with
    | none => simp at h; subst h; exact step1
    | some c =>
      simp only at h
      intro l hl s f e
      obtain ⟨l1, hl1, h2⟩ := leaves_mapM _ _ _ h l hl
      subst e
      obtain ⟨f0, e0, hidx⟩ := recolumnLeaf_ts _ l1 s f h2
      rw [← hidx]; exact step1 l1 hl1 s f0 e0

/-- the same for the arguments a `presync`-decorated function receives -/
theorem presync_common_index (how : How) (m : Option Dir) (args t' : Tree) (ix : List Int)
    (hix : dfIndex how args.flatTop = .times ix) (h : presyncArgs how m args = .ok t') :
    (∀ l ∈ t'.leaves, ∀ s f, l = .ts s f → f.idx = ix) ∧ t'.skel = args.skel := by
  simp only [presyncArgs, hix, reindexTree] at h
  refine ⟨?_, skel_mapM _ (reindexLeaf_skel _ m) _ _ h⟩
  intro l hl s f e
  obtain ⟨l0, _, h0⟩ := leaves_mapM _ _ _ h l hl
  subst e; exact reindexLeaf_ts ix m l0 s f h0

/-! ### columns -/

/-- the common column set: inner = the names present in EVERY multi-column header (no name twice), outer = present in
SOME header, left / right = the first / last header -/
theorem joinCols_inner (c : List String) (cs : List (List String)) (hn : c.Nodup) :
    ∃ r, joinCols .inner (c :: cs) = some r ∧ r.Nodup ∧ ∀ x, x ∈ r ↔ ∀ h ∈ c :: cs, x ∈ h := by
  refine ⟨_, rfl, ?_, fun x => by rw [mem_foldl_interS]; simp⟩
  induction cs generalizing c with
  | nil => exact hn
  | cons y ys ih => exact ih _ (nodup_interS c y hn)

theorem joinCols_outer (c : List String) (cs : List (List String)) (hn : ∀ h ∈ c :: cs, h.Nodup) :
    ∃ r, joinCols .outer (c :: cs) = some r ∧ r.Nodup ∧ ∀ x, x ∈ r ↔ ∃ h ∈ c :: cs, x ∈ h := by
  refine ⟨_, rfl, ?_, fun x => by rw [mem_foldl_unionS]; simp⟩
  induction cs generalizing c with
  | nil => exact hn c (by simp)
  | cons y ys ih =>
    refine ih _ ?_
    intro h hh
    rcases List.mem_cons.mp hh with rfl | hh
    · exact nodup_unionS c y (hn c (by simp)) (hn y (by simp))
    · exact hn h (by simp [hh])

theorem joinCols_left (c : List String) (cs : List (List String)) : joinCols .left (c :: cs) = some c := rfl

theorem joinCols_right (c : List String) (cs : List (List String)) : joinCols .right (c :: cs) = (c :: cs).getLast? := by
  simp only [joinCols, List.getLastD_eq_getLast?]
  cases h : (c :: cs).getLast? with
  | none => simp at h
  | some r => rfl

/-- a multi-column frame is put onto the common column set: its own columns keep their values, the others are NaN;
Series and one-column frames are left alone -/
theorem recolumn_spec (cs : List String) (f : Frame) (hm : isMulti f = true) :
    ∃ g, recolumnLeaf (some cs) (.ts false f) = .ok (.ts false g) ∧ g.idx = f.idx ∧ g.names = cs ∧
      ∀ c ∈ cs, ∀ col, g.cols.find? (·.1 == c) = some col →
        col.2 = match f.cols.find? (·.1 == c) with
                | some fc => fc.2
                | Option.none => List.replicate f.idx.length Option.none := by
  refine ⟨{ idx := f.idx, cols := cs.map fun c => (c, match f.cols.find? (·.1 == c) with
                                                      | some col => col.2
                                                      | Option.none => List.replicate f.idx.length Option.none) },
    by simp only [recolumnLeaf, hm]; rfl, rfl, by simp [Frame.names, List.map_map, Function.comp_def], ?_⟩
  intro c _ col hcol
  have h1 := List.find?_some hcol
  have h2 := List.mem_of_find?_eq_some hcol
  simp only [List.mem_map] at h2
  obtain ⟨c', _, rfl⟩ := h2
  simp at h1; subst h1; rfl

theorem recolumn_single (cols : Option (List String)) (s : Bool) (f : Frame) (h : s = true ∨ isMulti f = false) :
    recolumnLeaf cols (.ts s f) = .ok (.ts s f) := by
  cases s with
  | true => simp [recolumnLeaf]
  | false =>
    have hm : isMulti f = false := by rcases h with h | h; cases h; exact h
    cases cols <;> simp [recolumnLeaf, hm]

/-! ### containers, position by position: member `k` of the result is the aligned member `k` of the input -/

/-- `df_sync` works member by member: the result has as many members as the input, and member `k` of the result is
member `k` of the input reindexed onto the joint index and then (with a column policy) put on the common column set.
A model that permuted, dropped or blanked members would not satisfy this. -/
theorem sync_pointwise (how : How) (m : Option Dir) (ch : Option How) (tag : Tag) (kids : List (String × Tree)) (t' : Tree)
    (h : sync how m ch (.node tag kids) = .ok t') :
    t'.leaves.length = (Tree.node tag kids).leaves.length ∧
    ∀ (k : Nat) (l : Leaf), (Tree.node tag kids).leaves[k]? = some l →
      ∃ l1 l', reindexLeaf (dfIndex how (Tree.node tag kids).flatTop) m l = .ok l1 ∧
        colPass ch (multiCols (Tree.node tag kids).flatTop) l1 = .ok l' ∧ t'.leaves[k]? = some l' := by
  simp only [sync] at h
  split at h
  · cases h
  · rename_i t1 h1
    have p1 := pairs_reindexTree _ m _ _ h1
    cases ch with
    | none =>
      simp at h; subst h
      refine ⟨p1.length_eq, fun k l hk => ?_⟩
      obtain ⟨l1, hl1, hr⟩ := p1.get k l hk
      exact ⟨l1, l1, hr, rfl, hl1⟩
    | some c =>
      simp only at h
      have p2 := pairs_mapM _ _ _ h
      have p := p1.comp p2
      refine ⟨p.length_eq, fun k l hk => ?_⟩
      obtain ⟨l', hl', l1, hr, hc⟩ := p.get k l hk
      exact ⟨l1, l', hr, hc, hl'⟩

/-- a timeseries member: member `k` of the result is that series / frame reindexed onto the joint index (its values
are then given by `reindex_values` / `reindex_ffill` / `reindex_bfill`), on the common column set when it has several columns -/
theorem sync_member (how : How) (m : Option Dir) (ch : Option How) (tag : Tag) (kids : List (String × Tree)) (t' : Tree)
    (ix : List Int) (hix : dfIndex how (Tree.node tag kids).flatTop = .times ix)
    (h : sync how m ch (.node tag kids) = .ok t') (k : Nat) (s : Bool) (f : Frame)
    (hk : (Tree.node tag kids).leaves[k]? = some (.ts s f)) :
    ∃ l', t'.leaves[k]? = some l' ∧
      colPass ch (multiCols (Tree.node tag kids).flatTop) (.ts s (reindexFrame f ix m)) = .ok l' := by
  obtain ⟨_, hp⟩ := sync_pointwise how m ch tag kids t' h
  obtain ⟨l1, l', h1, h2, h3⟩ := hp k _ hk
  rw [hix] at h1
  simp [reindexLeaf] at h1; subst h1
  exact ⟨l', h3, h2⟩

/-- ... in particular a Series (or any member when no column policy applies) is EXACTLY its reindexed self -/
theorem sync_member_series (how : How) (m : Option Dir) (ch : Option How) (tag : Tag) (kids : List (String × Tree)) (t' : Tree)
    (ix : List Int) (hix : dfIndex how (Tree.node tag kids).flatTop = .times ix)
    (h : sync how m ch (.node tag kids) = .ok t') (k : Nat) (s : Bool) (f : Frame)
    (hk : (Tree.node tag kids).leaves[k]? = some (.ts s f)) (hs : ch = Option.none ∨ s = true ∨ isMulti f = false) :
    t'.leaves[k]? = some (.ts s (reindexFrame f ix m)) := by
  obtain ⟨l', h1, h2⟩ := sync_member how m ch tag kids t' ix hix h k s f hk
  cases ch with
  | none => simp [colPass] at h2; rw [h1, h2]
  | some c =>
    simp only [colPass] at h2
    have hm : s = true ∨ isMulti (reindexFrame f ix m) = false := by
      rcases hs with hs | hs | hs
      · cases hs
      · exact Or.inl hs
      · refine Or.inr ?_
        have := (reindex_index f ix m).2.1
        simp only [Frame.names] at this
        have hl : (reindexFrame f ix m).cols.length = f.cols.length := by
          have := congrArg List.length this; simpa using this
        simpa [isMulti, hl] using hs
    rw [recolumn_single _ s _ hm] at h2
    cases h2; exact h1

/-- a frame with several columns comes out on the joint index AND on the common column set, each of its own columns
with the reindexed values, the others NaN -/
theorem sync_member_frame (how : How) (m : Option Dir) (c : How) (tag : Tag) (kids : List (String × Tree)) (t' : Tree)
    (ix : List Int) (cs : List String) (hix : dfIndex how (Tree.node tag kids).flatTop = .times ix)
    (hcs : joinCols c (multiCols (Tree.node tag kids).flatTop) = some cs)
    (h : sync how m (some c) (.node tag kids) = .ok t') (k : Nat) (f : Frame)
    (hk : (Tree.node tag kids).leaves[k]? = some (.ts false f)) (hm : isMulti f = true) :
    ∃ g, t'.leaves[k]? = some (.ts false g) ∧ g.idx = ix ∧ g.names = cs ∧
      ∀ c ∈ cs, ∀ col, g.cols.find? (·.1 == c) = some col →
        col.2 = match (reindexFrame f ix m).cols.find? (·.1 == c) with
                | some fc => fc.2
                | Option.none => List.replicate ix.length Option.none := by
  obtain ⟨l', h1, h2⟩ := sync_member how m (some c) tag kids t' ix hix h k false f hk
  simp only [colPass, hcs] at h2
  have hm' : isMulti (reindexFrame f ix m) = true := by
    have := (reindex_index f ix m).2.1
    simp only [Frame.names] at this
    have hl : (reindexFrame f ix m).cols.length = f.cols.length := by
      have := congrArg List.length this; simpa using this
    simpa [isMulti, hl] using hm
  obtain ⟨g, hg, gi, gn, gv⟩ := recolumn_spec cs (reindexFrame f ix m) hm'
  rw [hg] at h2; cases h2
  refine ⟨g, h1, by rw [gi]; exact (reindex_index f ix m).1, gn, ?_⟩
  intro c hc col hcol
  have := gv c hc col hcol
  rw [(reindex_index f ix m).1] at this
  exact this

/-- a bare array in an all-array container: member `k` of the result is that array aligned at the end to the joint length -/
theorem sync_member_arr (how : How) (ch : Option How) (tag : Tag) (kids : List (String × Tree)) (t' : Tree)
    (n : Nat) (hix : dfIndex how (Tree.node tag kids).flatTop = .len n)
    (h : sync how Option.none ch (.node tag kids) = .ok t') (k : Nat) (xs : Col)
    (hk : (Tree.node tag kids).leaves[k]? = some (.arr xs)) :
    t'.leaves[k]? = some (.arr (alignArr n xs)) := by
  obtain ⟨_, hp⟩ := sync_pointwise how Option.none ch tag kids t' h
  obtain ⟨l1, l', h1, h2, h3⟩ := hp k _ hk
  rw [hix] at h1
  have : l1 = .arr (alignArr n xs) := by
    simp [reindexLeaf, fillMethods, fillnaArr] at h1; exact h1.symm
  subst this
  cases ch with
  | none => simp [colPass] at h2; rw [h3, h2]
  | some c => simp [colPass, recolumnLeaf] at h2; rw [h3, ← h2]

/-- a member that is no timeseries and no array is, at its position, returned as it is -/
theorem sync_member_other (how : How) (m : Option Dir) (ch : Option How) (tag : Tag) (kids : List (String × Tree)) (t' : Tree)
    (h : sync how m ch (.node tag kids) = .ok t') (k : Nat) (v : Val)
    (hk : (Tree.node tag kids).leaves[k]? = some (.other v)) : t'.leaves[k]? = some (.other v) := by
  obtain ⟨_, hp⟩ := sync_pointwise how m ch tag kids t' h
  obtain ⟨l1, l', h1, h2, h3⟩ := hp k _ hk
  have : l1 = .other v := by cases hd : dfIndex how (Tree.node tag kids).flatTop <;> rw [hd] at h1 <;> simp [reindexLeaf] at h1 <;> exact h1.symm
  subst this
  cases ch with
  | none => simp [colPass] at h2; rw [h3, h2]
  | some c => simp [colPass, recolumnLeaf] at h2; rw [h3, ← h2]

/-- the arguments a `presync`-decorated function receives, position by position -/
theorem presync_pointwise (how : How) (m : Option Dir) (args t' : Tree) (h : presyncArgs how m args = .ok t') :
    t'.leaves.length = args.leaves.length ∧
    ∀ (k : Nat) (l : Leaf), args.leaves[k]? = some l →
      ∃ l', reindexLeaf (dfIndex how args.flatTop) m l = .ok l' ∧ t'.leaves[k]? = some l' := by
  have p := pairs_reindexTree _ m _ _ h
  refine ⟨p.length_eq, fun k l hk => ?_⟩
  obtain ⟨l', h1, h2⟩ := p.get k l hk
  exact ⟨l', h2, h1⟩

theorem presync_member (how : How) (m : Option Dir) (args t' : Tree) (ix : List Int)
    (hix : dfIndex how args.flatTop = .times ix) (h : presyncArgs how m args = .ok t') (k : Nat) (s : Bool) (f : Frame)
    (hk : args.leaves[k]? = some (.ts s f)) : t'.leaves[k]? = some (.ts s (reindexFrame f ix m)) := by
  obtain ⟨l', h1, h2⟩ := (presync_pointwise how m args t' h).2 k _ hk
  rw [hix] at h1; simp [reindexLeaf] at h1; subst h1; exact h2

/-! ### the joint index is taken over EVERY timeseries of the container -/

/-- in a container without tuples (the statement: nested lists / dicts) the members the joint index is computed from
are ALL members, at any depth, in order -/
theorem flatTop_covers (tag : Tag) (kids : List (String × Tree)) (h : kidsTupleFree kids = true) :
    (Tree.node tag kids).flatTop = (Tree.node tag kids).leaves := by
  simp only [Tree.flatTop, Tree.leaves]; exact flatKids_eq_leaves kids h

/-- inner join over a nested container: after `df_sync` every timeseries anywhere in the result sits on ONE index `r`,
and `t ∈ r` iff EVERY timeseries anywhere in the input has `t` -/
theorem sync_index_inner (m : Option Dir) (ch : Option How) (tag : Tag) (kids : List (String × Tree)) (t' : Tree)
    (hf : kidsTupleFree kids = true)
    (hsorted : ∀ l ∈ (Tree.node tag kids).leaves, ∀ s f, l = .ts s f → f.Sorted)
    (hne : ∃ s f, Leaf.ts s f ∈ (Tree.node tag kids).leaves)
    (h : sync .inner m ch (.node tag kids) = .ok t') :
    ∃ r, SortedL r ∧ (∀ l ∈ t'.leaves, ∀ s f, l = .ts s f → f.idx = r) ∧
      ∀ t, t ∈ r ↔ ∀ s f, Leaf.ts s f ∈ (Tree.node tag kids).leaves → t ∈ f.idx := by
  have hcov := flatTop_covers tag kids hf
  have hmem : ∀ ix, ix ∈ tsIndexes (Tree.node tag kids).leaves ↔ ∃ s f, Leaf.ts s f ∈ (Tree.node tag kids).leaves ∧ f.idx = ix := by
    intro ix
    simp only [tsIndexes, List.mem_filterMap]
    constructor
    · rintro ⟨l, hl, e⟩
      cases l with
      | ts s f => simp at e; exact ⟨s, f, hl, e⟩
      | arr _ => simp at e
      | other _ => simp at e
    · rintro ⟨s, f, hl, e⟩; exact ⟨_, hl, by simp [e]⟩
  cases hixs : tsIndexes (Tree.node tag kids).leaves with
  | nil =>
    obtain ⟨s, f, hl⟩ := hne
    have := (hmem f.idx).mpr ⟨s, f, hl, rfl⟩
    rw [hixs] at this; cases this
  | cons i0 is =>
    have hs0 : SortedL i0 := by
      obtain ⟨s, f, hl, e⟩ := (hmem i0).mp (by rw [hixs]; simp)
      rw [← e]; exact hsorted _ hl s f rfl
    obtain ⟨r, hr, hsr, hmr⟩ := index_inner i0 is hs0
    have hix : dfIndex .inner (Tree.node tag kids).flatTop = .times r := by
      rw [hcov]; simp only [dfIndex, hixs, hr]
    refine ⟨r, hsr, sync_common_index .inner m ch tag kids t' r hix h, ?_⟩
    intro t
    rw [hmr, ← hixs]
    constructor
    · intro hall s f hl; exact hall f.idx ((hmem _).mpr ⟨s, f, hl, rfl⟩)
    · intro hall j hj
      obtain ⟨s, f, hl, e⟩ := (hmem j).mp hj
      rw [← e]; exact hall s f hl

/-- outer join: `t ∈ r` iff SOME timeseries anywhere in the input has `t` -/
theorem sync_index_outer (m : Option Dir) (ch : Option How) (tag : Tag) (kids : List (String × Tree)) (t' : Tree)
    (hf : kidsTupleFree kids = true)
    (hsorted : ∀ l ∈ (Tree.node tag kids).leaves, ∀ s f, l = .ts s f → f.Sorted)
    (hne : ∃ s f, Leaf.ts s f ∈ (Tree.node tag kids).leaves)
    (h : sync .outer m ch (.node tag kids) = .ok t') :
    ∃ r, SortedL r ∧ (∀ l ∈ t'.leaves, ∀ s f, l = .ts s f → f.idx = r) ∧
      ∀ t, t ∈ r ↔ ∃ s f, Leaf.ts s f ∈ (Tree.node tag kids).leaves ∧ t ∈ f.idx := by
  have hcov := flatTop_covers tag kids hf
  have hmem : ∀ ix, ix ∈ tsIndexes (Tree.node tag kids).leaves ↔ ∃ s f, Leaf.ts s f ∈ (Tree.node tag kids).leaves ∧ f.idx = ix := by
    intro ix
    simp only [tsIndexes, List.mem_filterMap]
    constructor
    · rintro ⟨l, hl, e⟩
      cases l with
      | ts s f => simp at e; exact ⟨s, f, hl, e⟩
      | arr _ => simp at e
      | other _ => simp at e
    · rintro ⟨s, f, hl, e⟩; exact ⟨_, hl, by simp [e]⟩
  cases hixs : tsIndexes (Tree.node tag kids).leaves with
  | nil =>
    obtain ⟨s, f, hl⟩ := hne
    have := (hmem f.idx).mpr ⟨s, f, hl, rfl⟩
    rw [hixs] at this; cases this
  | cons i0 is =>
    have hs0 : SortedL i0 := by
      obtain ⟨s, f, hl, e⟩ := (hmem i0).mp (by rw [hixs]; simp)
      rw [← e]; exact hsorted _ hl s f rfl
    obtain ⟨r, hr, hsr, hmr⟩ := index_outer i0 is hs0
    have hix : dfIndex .outer (Tree.node tag kids).flatTop = .times r := by
      rw [hcov]; simp only [dfIndex, hixs, hr]
    refine ⟨r, hsr, sync_common_index .outer m ch tag kids t' r hix h, ?_⟩
    intro t
    rw [hmr, ← hixs]
    constructor
    · rintro ⟨j, hj, ht⟩
      obtain ⟨s, f, hl, e⟩ := (hmem j).mp hj
      exact ⟨s, f, hl, by rw [e]; exact ht⟩
    · rintro ⟨s, f, hl, ht⟩; exact ⟨f.idx, (hmem _).mpr ⟨s, f, hl, rfl⟩, ht⟩

/-! ### left / right join over a nested container: the index of the FIRST / LAST timeseries in depth-first order -/

theorem tsIndexes_append (a b : List Leaf) : tsIndexes (a ++ b) = tsIndexes a ++ tsIndexes b := by
  simp [tsIndexes, List.filterMap_append]

theorem tsIndexes_none (pre : List Leaf) (h : ∀ l ∈ pre, ∀ s f, l ≠ .ts s f) : tsIndexes pre = [] := by
  simp only [tsIndexes, List.filterMap_eq_nil_iff]
  intro l hl
  cases l with
  | ts s f => exact absurd rfl (h _ hl s f)
  | arr _ => rfl
  | other _ => rfl

/-- `'lj'`: every timeseries of the result carries the index of the FIRST timeseries met when the members (at any depth,
list / dict order) are read from the left - bare arrays and other objects before it do not count -/
theorem sync_index_left (m : Option Dir) (ch : Option How) (tag : Tag) (kids : List (String × Tree)) (t' : Tree)
    (hf : kidsTupleFree kids = true) (pre post : List Leaf) (s0 : Bool) (f0 : Frame)
    (hsplit : (Tree.node tag kids).leaves = pre ++ .ts s0 f0 :: post) (hpre : ∀ l ∈ pre, ∀ s f, l ≠ .ts s f)
    (h : sync .left m ch (.node tag kids) = .ok t') :
    ∀ l ∈ t'.leaves, ∀ s f, l = .ts s f → f.idx = f0.idx := by
  have hix : dfIndex .left (Tree.node tag kids).flatTop = .times f0.idx := by
    rw [flatTop_covers tag kids hf, hsplit]
    have e : tsIndexes (pre ++ Leaf.ts s0 f0 :: post) = f0.idx :: tsIndexes post := by
      rw [tsIndexes_append, tsIndexes_none pre hpre]; rfl
    simp only [dfIndex, e, joinIndex]
  exact sync_common_index .left m ch tag kids t' f0.idx hix h

/-- `'rj'`: ... the index of the LAST timeseries -/
theorem sync_index_right (m : Option Dir) (ch : Option How) (tag : Tag) (kids : List (String × Tree)) (t' : Tree)
    (hf : kidsTupleFree kids = true) (pre post : List Leaf) (s0 : Bool) (f0 : Frame)
    (hsplit : (Tree.node tag kids).leaves = pre ++ .ts s0 f0 :: post) (hpost : ∀ l ∈ post, ∀ s f, l ≠ .ts s f)
    (h : sync .right m ch (.node tag kids) = .ok t') :
    ∀ l ∈ t'.leaves, ∀ s f, l = .ts s f → f.idx = f0.idx := by
  have hix : dfIndex .right (Tree.node tag kids).flatTop = .times f0.idx := by
    rw [flatTop_covers tag kids hf, hsplit]
    have e : tsIndexes (pre ++ Leaf.ts s0 f0 :: post) = tsIndexes pre ++ [f0.idx] := by
      rw [tsIndexes_append]
      show tsIndexes pre ++ tsIndexes ([Leaf.ts s0 f0] ++ post) = _
      rw [tsIndexes_append, tsIndexes_none post hpost]; simp [tsIndexes]
    simp only [dfIndex, e]
    cases hp : tsIndexes pre with
    | nil => simp [joinIndex]
    | cons i0 is =>
      have hl : (i0 :: (is ++ [f0.idx])).getLast? = some f0.idx := by
        rw [← List.cons_append, List.getLast?_concat]
      simp [joinIndex, List.getLastD_eq_getLast?, hl]
  exact sync_common_index .right m ch tag kids t' f0.idx hix h

/-! ### a container of bare arrays only: the joint LENGTH is taken over every array, each array aligned at the end -/

/-- **sync_arrays**: no timeseries anywhere in a tuple-free container holding arrays - the joint length `n` is the
inner / outer / left / right join of the lengths of ALL arrays at any depth (`joinLen`; `arr_len_inner/outer/left`: min / max /
first), and member `k` of the result is array `k` aligned AT THE END to `n` (`arr_align`) and then, if a fill method is given,
filled (`fillnaArr` of C12).  No assumed index (`sync_member_arr` took `dfIndex .. = .len n` as a hypothesis), any method. -/
theorem sync_arrays (how : How) (m : Option Dir) (ch : Option How) (tag : Tag) (kids : List (String × Tree)) (t' : Tree)
    (hf : kidsTupleFree kids = true) (hts : tsIndexes (Tree.node tag kids).leaves = [])
    (n : Nat) (hn : joinLen how (arrLens (Tree.node tag kids).leaves) = some n)
    (h : sync how m ch (.node tag kids) = .ok t') (k : Nat) (xs : Col)
    (hk : (Tree.node tag kids).leaves[k]? = some (.arr xs)) :
    ∃ c, fillnaArr (fillMethods m) Option.none [alignArr n xs] = .ok [c] ∧ t'.leaves[k]? = some (.arr c) := by
  have hix : dfIndex how (Tree.node tag kids).flatTop = .len n := by
    rw [flatTop_covers tag kids hf]; simp [dfIndex, hts, joinIndex, hn]
  obtain ⟨_, hp⟩ := sync_pointwise how m ch tag kids t' h
  obtain ⟨l1, l', h1, h2, h3⟩ := hp k _ hk
  rw [hix] at h1
  simp only [reindexLeaf] at h1
  split at h1
  · rename_i c hc
    cases h1
    refine ⟨c, hc, ?_⟩
    cases ch with
    | none => simp [colPass] at h2; rw [h3, h2]
    | some c' => simp [colPass, recolumnLeaf] at h2; rw [h3, ← h2]
  · cases h1
  · cases h1

/-- without a fill method that is the aligned array itself; with `'ffill'` / `'bfill'` the aligned array forward / backward
filled BY POSITION (the NaN padding in front stays NaN under ffill, is filled from the first value under bfill) -/
theorem sync_arrays_value (m : Option Dir) (n : Nat) (xs : Col) :
    fillnaArr (fillMethods m) Option.none [alignArr n xs] =
      .ok [match m with | Option.none => alignArr n xs | some .ffill => Fill.ffill Option.none (alignArr n xs)
                        | some .bfill => Fill.bfill Option.none (alignArr n xs)] := by
  cases m with
  | none => rfl
  | some d =>
    cases d <;>
      simp [fillMethods, fillnaArr, fillna, List.foldlM, step, limOk, Frame.mapCols, Frame.vals, ofArr, Except.map, bind, Except.bind, pure, Except.pure]

/-! ### an explicit index as join policy; keyword arguments of a presync-decorated function -/

/-- with a policy word `syncJ` is `sync`: all theorems above apply -/
theorem syncJ_how (h : How) (m : Option Dir) (ch : Option How) (t : Tree) : syncJ (.how h) m ch t = sync h m ch t := rfl

/-- `df_sync(dfs, join=<explicit index>)`: as soon as the container holds a timeseries, member `k` of the result is
member `k` of the input reindexed onto EXACTLY the supplied index (then put on the common column set), the number of
members is kept and the container structure too -/
theorem sync_explicit_member (ix : List Int) (m : Option Dir) (ch : Option How) (tag : Tag) (kids : List (String × Tree))
    (t' : Tree) (hts : tsIndexes (Tree.node tag kids).flatTop ≠ [])
    (h : syncJ (.explicit ix) m ch (.node tag kids) = .ok t') :
    t'.skel = (Tree.node tag kids).skel ∧ t'.leaves.length = (Tree.node tag kids).leaves.length ∧
    ∀ (k : Nat) (s : Bool) (f : Frame), (Tree.node tag kids).leaves[k]? = some (.ts s f) →
      ∃ l', t'.leaves[k]? = some l' ∧
        colPass ch (multiCols (Tree.node tag kids).flatTop) (.ts s (reindexFrame f ix m)) = .ok l' := by
  have hne : (tsIndexes (Tree.node tag kids).flatTop).isEmpty = false := by
    cases hl : tsIndexes (Tree.node tag kids).flatTop with
    | nil => exact (hts hl).elim
    | cons _ _ => rfl
  have hix : dfIndexJ (.explicit ix) (Tree.node tag kids).flatTop = .ok (.times ix) := by simp [dfIndexJ, hne]
  simp only [syncJ, hix] at h
  split at h
  · cases h
  · rename_i t1 h1
    simp only [reindexTree] at h1
    have p1 := pairs_mapM _ _ _ h1
    have s1 := skel_mapM _ (reindexLeaf_skel _ m) _ _ h1
    cases ch with
    | none =>
      simp at h; subst h
      refine ⟨s1, p1.length_eq, fun k s f hk => ?_⟩
      obtain ⟨l1, hl1, hr⟩ := p1.get k _ hk
      simp [reindexLeaf] at hr; subst hr
      exact ⟨_, hl1, rfl⟩
    | some c =>
      simp only at h
      have p2 := pairs_mapM _ _ _ h
      have p := p1.comp p2
      refine ⟨by rw [skel_mapM _ (recolumnLeaf_skel _) _ _ h]; exact s1, p.length_eq, fun k s f hk => ?_⟩
      obtain ⟨l', hl', l1, hr, hc⟩ := p.get k _ hk
      simp [reindexLeaf] at hr; subst hr
      exact ⟨l', hl', hc⟩

/-- a `presync`-decorated function called with positional AND keyword arguments: both the tuple of positional arguments
and the dict of keyword arguments keep their structure, and member `k` of either is that member reindexed onto the ONE
joint index computed over `list(args) + list(kwargs.values())` -/
theorem presync_call_member (j : Join) (m : Option Dir) (args kwargs : List (String × Tree)) (a k : Tree)
    (h : presyncCall j m args kwargs = .ok (a, k)) :
    ∃ ix, dfIndexJ j (flatKids (args ++ kwargs)) = .ok ix ∧
      a.skel = (Tree.node .tuple args).skel ∧ k.skel = (Tree.node .dict kwargs).skel ∧
      (∀ (i : Nat) (l : Leaf), (Tree.node .tuple args).leaves[i]? = some l →
        ∃ l', reindexLeaf ix m l = .ok l' ∧ a.leaves[i]? = some l') ∧
      (∀ (i : Nat) (l : Leaf), (Tree.node .dict kwargs).leaves[i]? = some l →
        ∃ l', reindexLeaf ix m l = .ok l' ∧ k.leaves[i]? = some l') := by
  simp only [presyncCall] at h
  split at h
  · cases h
  · rename_i ix hix
    split at h
    · cases h
    · rename_i a' ha
      split at h
      · cases h
      · rename_i k' hk
        cases h
        have skel_of : ∀ t t1, reindexTree ix m t = .ok t1 → t1.skel = t.skel := by
          intro t t1 h1
          cases ix with
          | none => simp [reindexTree] at h1; subst h1; rfl
          | times idx => exact skel_mapM _ (reindexLeaf_skel _ m) _ _ h1
          | len n => exact skel_mapM _ (reindexLeaf_skel _ m) _ _ h1
        refine ⟨ix, hix, skel_of _ _ ha, skel_of _ _ hk, ?_, ?_⟩
        · intro i l hl
          obtain ⟨l', h1, h2⟩ := (pairs_reindexTree ix m _ _ ha).get i l hl
          exact ⟨l', h2, h1⟩
        · intro i l hl
          obtain ⟨l', h1, h2⟩ := (pairs_reindexTree ix m _ _ hk).get i l hl
          exact ⟨l', h2, h1⟩

/-- the joint index of a call: with a policy word the join of the indices of the timeseries among ALL arguments,
positional and keyword; with an explicit index that index (as soon as one argument is a timeseries) -/
theorem presync_call_index (j : Join) (ls : List Leaf) :
    dfIndexJ j ls = match j with
      | .how h => .ok (dfIndex h ls)
      | .explicit ix => if tsIndexes ls = [] then (if arrLens ls = [] then .ok .none else .error .other) else .ok (.times ix) := by
  cases j with
  | how h => rfl
  | explicit ix => simp [dfIndexJ, List.isEmpty_iff]


/-! ### `limit` on the as-of join (`df_reindex(ts, index, method, limit)`; `df_sync` / `presync` pass no limit on)

pandas' `reindex(index, method, limit)` is modelled by a walk along the requested labels with a counter (`limAux`).  The
theorems say what that walk computes without a counter: the requested label `t` gets the column's last (next) non-NaN
observation `(s, v)` iff `s = t` - the timestamp survives - or FEWER THAN `limit` REQUESTED labels lie strictly between `s` and
`t`.  The limit counts requested labels, not days and not rows of the source. -/

/-- without a limit the walk is the as-of join of `reindex_ffill` / `reindex_bfill` -/
theorem reindex_limit_none (f : Frame) (idx : List Int) (d : Dir) :
    reindexFrameL f idx d Option.none = reindexFrame f idx (some d) := reindexFrameL_nolimit f idx d

/-- ffill with a limit, every column, against the independent reference `lastObsAt` (label and value of the last non-NaN
observation at or before `t`, characterised by `last_observation_at`) -/
theorem reindex_ffill_limit (f : Frame) (idx : List Int) (lim : Option Nat) (hs : f.Sorted) (hi : SortedL idx) :
    (reindexFrameL f idx .ffill lim).cols = f.cols.map fun c => (c.1, idx.map (ffillLim lim idx f.idx c.2)) := by
  simp only [reindexFrameL]
  apply List.map_congr_left
  intro c _
  rw [asofColLim_ffill lim f.idx c.2 idx hs hi]

theorem reindex_bfill_limit (f : Frame) (idx : List Int) (lim : Option Nat) (hi : SortedL idx) :
    (reindexFrameL f idx .bfill lim).cols = f.cols.map fun c => (c.1, idx.map (bfillLim lim idx f.idx c.2)) := by
  simp only [reindexFrameL]
  apply List.map_congr_left
  intro c _
  rw [asofColLim_bfill lim f.idx c.2 idx hi]

/-- the cells by cases (`ffillLim` / `bfillLim` unfolded) -/
theorem limit_cell (lim : Option Nat) (idx ix : List Int) (c : Col) (t : Int) :
    ffillLim lim idx ix c t = (match lastObsAt ix c t with
      | Option.none => Option.none
      | some (s, v) => if s = t ∨ within lim (between idx s t) = true then some v else Option.none) ∧
    bfillLim lim idx ix c t = (match firstObsAt ix c t with
      | Option.none => Option.none
      | some (s, v) => if s = t ∨ within lim (between idx t s) = true then some v else Option.none) := by
  constructor
  · cases h : lastObsAt ix c t with
    | none => rw [ffillLim_none h]
    | some sv => obtain ⟨s, v⟩ := sv; rw [ffillLim_some h]
  · cases h : firstObsAt ix c t with
    | none => rw [bfillLim_none h]
    | some sv => obtain ⟨s, v⟩ := sv; rw [bfillLim_some h]

/-- what the pair references are, by positions -/
theorem last_observation_at (ix : List Int) (c : Col) (t s v : Int) :
    lastObsAt ix c t = some (s, v) ↔
      ∃ i, ix[i]? = some s ∧ s ≤ t ∧ c[i]? = some (some v) ∧
        ∀ (j : Nat) (s' w : Int), i < j → ix[j]? = some s' → s' ≤ t → c[j]? ≠ some (some w) :=
  lastObsAt_iff ix c t s v

theorem next_observation_at (ix : List Int) (c : Col) (t s v : Int) :
    firstObsAt ix c t = some (s, v) ↔
      ∃ i, ix[i]? = some s ∧ t ≤ s ∧ c[i]? = some (some v) ∧
        ∀ (j : Nat) (s' w : Int), j < i → ix[j]? = some s' → t ≤ s' → c[j]? ≠ some (some w) :=
  firstObsAt_iff ix c t s v

/-- the composed statement for ONE cell under `limit = l`: column `j`, requested label `idx[k] = t`.  The cell is the value
`v` iff `v` is the column's last non-NaN observation at or before `t`, sitting at label `s`, AND (`s = t` or fewer than `l`
requested labels lie strictly between `s` and `t`). -/
theorem reindex_ffill_limit_cell (f : Frame) (idx : List Int) (l : Nat) (hs : f.Sorted) (hi : SortedL idx) (j k : Nat)
    (c : String × Col) (t : Int) (hc : f.cols[j]? = some c) (hk : idx[k]? = some t) :
    ∃ r, (reindexFrameL f idx .ffill (some l)).cols[j]? = some (c.1, r) ∧ r.length = idx.length ∧
      ∀ v, r[k]? = some (some v) ↔
        ∃ (i : Nat) (s : Int), f.idx[i]? = some s ∧ s ≤ t ∧ c.2[i]? = some (some v) ∧
          (∀ (j' : Nat) (s' w : Int), i < j' → f.idx[j']? = some s' → s' ≤ t → c.2[j']? ≠ some (some w)) ∧
          (s = t ∨ between idx s t < l) := by
  refine ⟨idx.map (ffillLim (some l) idx f.idx c.2), by rw [reindex_ffill_limit f idx (some l) hs hi]; simp [hc], by simp, ?_⟩
  intro v
  simp only [List.getElem?_map, hk, Option.map_some, Option.some.injEq]
  cases ho : lastObsAt f.idx c.2 t with
  | none =>
    rw [ffillLim_none ho]
    constructor
    · intro h; cases h
    · rintro ⟨i, s, h1, h2, h3, h4, _⟩
      have := (lastObsAt_iff f.idx c.2 t s v).mpr ⟨i, h1, h2, h3, h4⟩
      rw [ho] at this; cases this
  | some sv =>
    obtain ⟨s0, v0⟩ := sv
    rw [ffillLim_some ho]
    simp only [within, decide_eq_true_eq]
    constructor
    · intro h
      split at h
      · rename_i hcond
        cases h
        obtain ⟨i, h1, h2, h3, h4⟩ := (lastObsAt_iff f.idx c.2 t s0 v).mp ho
        exact ⟨i, s0, h1, h2, h3, h4, hcond⟩
      · cases h
    · rintro ⟨i, s, h1, h2, h3, h4, h5⟩
      have := (lastObsAt_iff f.idx c.2 t s v).mpr ⟨i, h1, h2, h3, h4⟩
      rw [ho] at this; cases this
      simp [h5]

theorem reindex_bfill_limit_cell (f : Frame) (idx : List Int) (l : Nat) (hi : SortedL idx) (j k : Nat)
    (c : String × Col) (t : Int) (hc : f.cols[j]? = some c) (hk : idx[k]? = some t) :
    ∃ r, (reindexFrameL f idx .bfill (some l)).cols[j]? = some (c.1, r) ∧ r.length = idx.length ∧
      ∀ v, r[k]? = some (some v) ↔
        ∃ (i : Nat) (s : Int), f.idx[i]? = some s ∧ t ≤ s ∧ c.2[i]? = some (some v) ∧
          (∀ (j' : Nat) (s' w : Int), j' < i → f.idx[j']? = some s' → t ≤ s' → c.2[j']? ≠ some (some w)) ∧
          (s = t ∨ between idx t s < l) := by
  refine ⟨idx.map (bfillLim (some l) idx f.idx c.2), by rw [reindex_bfill_limit f idx (some l) hi]; simp [hc], by simp, ?_⟩
  intro v
  simp only [List.getElem?_map, hk, Option.map_some, Option.some.injEq]
  cases ho : firstObsAt f.idx c.2 t with
  | none =>
    rw [bfillLim_none ho]
    constructor
    · intro h; cases h
    · rintro ⟨i, s, h1, h2, h3, h4, _⟩
      have := (firstObsAt_iff f.idx c.2 t s v).mpr ⟨i, h1, h2, h3, h4⟩
      rw [ho] at this; cases this
  | some sv =>
    obtain ⟨s0, v0⟩ := sv
    rw [bfillLim_some ho]
    simp only [within, decide_eq_true_eq]
    constructor
    · intro h
      split at h
      · rename_i hcond
        cases h
        obtain ⟨i, h1, h2, h3, h4⟩ := (firstObsAt_iff f.idx c.2 t s0 v).mp ho
        exact ⟨i, s0, h1, h2, h3, h4, hcond⟩
      · cases h
    · rintro ⟨i, s, h1, h2, h3, h4, h5⟩
      have := (firstObsAt_iff f.idx c.2 t s v).mpr ⟨i, h1, h2, h3, h4⟩
      rw [ho] at this; cases this
      simp [h5]

/-- "at each surviving timestamp a series keeps exactly its original value" holds under every limit: a non-NaN cell at a
requested timestamp the series has is its own last and next observation with `s = t` -/
theorem reindex_limit_keeps (f : Frame) (idx : List Int) (lim : Option Nat) (hs : f.Sorted)
    (c : String × Col) (i : Nat) (t v : Int) (hfi : f.idx[i]? = some t) (hv : c.2[i]? = some (some v)) :
    ffillLim lim idx f.idx c.2 t = some v ∧ bfillLim lim idx f.idx c.2 t = some v := by
  have hp := List.pairwise_iff_getElem.mp hs
  have hil := getElem?_some_lt hfi
  have h1 : lastObsAt f.idx c.2 t = some (t, v) := by
    refine (lastObsAt_iff f.idx c.2 t t v).mpr ⟨i, hfi, Int.le_refl _, hv, ?_⟩
    intro j s' w hj hjs hle
    have hjl := getElem?_some_lt hjs
    have := hp i j hil hjl hj
    rw [List.getElem?_eq_getElem hil] at hfi; rw [List.getElem?_eq_getElem hjl] at hjs
    simp at hfi hjs; omega
  have h2 : firstObsAt f.idx c.2 t = some (t, v) := by
    refine (firstObsAt_iff f.idx c.2 t t v).mpr ⟨i, hfi, Int.le_refl _, hv, ?_⟩
    intro j s' w hj hjs hle
    have hjl := getElem?_some_lt hjs
    have := hp j i hjl hil hj
    rw [List.getElem?_eq_getElem hil] at hfi; rw [List.getElem?_eq_getElem hjl] at hjs
    simp at hfi hjs; omega
  rw [ffillLim_some h1, bfillLim_some h2]; simp

/-- a limit only blanks cells: whatever the limited as-of join puts into a cell is what the unlimited one (`reindex_ffill` /
`reindex_bfill`: `lastObs` / `firstObs`) puts there -/
theorem reindex_limit_sub (ix : List Int) (c : Col) (idx : List Int) (lim : Option Nat) (t v : Int) :
    (ffillLim lim idx ix c t = some v → lastObs ix c t = some v) ∧
    (bfillLim lim idx ix c t = some v → firstObs ix c t = some v) := by
  constructor
  · rw [← lastObsAt_snd]
    cases h : lastObsAt ix c t with
    | none => rw [ffillLim_none h]; simp
    | some sv => obtain ⟨s, w⟩ := sv; rw [ffillLim_some h]; simp only [Option.map_some]; intro h'; split at h' <;> simp_all
  · rw [← firstObsAt_snd]
    cases h : firstObsAt ix c t with
    | none => rw [bfillLim_none h]; simp
    | some sv => obtain ⟨s, w⟩ := sv; rw [bfillLim_some h]; simp only [Option.map_some]; intro h'; split at h' <;> simp_all

/-! ### method lists and numeric methods: the first method decides the kind of join, the TAIL goes through `df_fillna` (C12) -/

/-- a list that starts with ffill / bfill: as-of join (with the limit), then C12's `fillna` of the REST of the list with the
same limit.  All C12 theorems (`ffill_limit`, `const_fill`, `fillna_keeps`, `fillna_rows_kept`, ...) apply to that second stage. -/
theorem reindex_then_fill (f : Frame) (idx : List Int) (rest : List Method) (lim : Option Nat) (hl : limOk lim = true) :
    reindexFill f idx (.ffill :: rest) lim = fillna rest lim (reindexFrameL f idx .ffill lim) ∧
    reindexFill f idx (.bfill :: rest) lim = fillna rest lim (reindexFrameL f idx .bfill lim) := by
  simp [reindexFill, hl]

/-- any other list (a number, 'ffill_na', ['nona', ...], nothing): plain label lookup, then the WHOLE list through `fillna` -/
theorem reindex_other_then_fill (f : Frame) (idx : List Int) (ms : List Method) (lim : Option Nat)
    (h : ms.head? ≠ some .ffill ∧ ms.head? ≠ some .bfill) :
    reindexFill f idx ms lim = fillna ms lim (reindexFrame f idx Option.none) := by
  cases ms with
  | nil => rfl
  | cons m rest => cases m <;> simp_all [reindexFill]

/-- `limit = 0` with ffill / bfill in front is rejected (pandas: "Limit must be greater than 0") -/
theorem reindex_limit_zero (f : Frame) (idx : List Int) (rest : List Method) :
    reindexFill f idx (.ffill :: rest) (some 0) = .error .value ∧ reindexFill f idx (.bfill :: rest) (some 0) = .error .value := by
  simp [reindexFill, limOk]

theorem reindexFrameL_wf (f : Frame) (idx : List Int) (d : Dir) (lim : Option Nat) :
    (reindexFrameL f idx d lim).idx = idx ∧ (reindexFrameL f idx d lim).names = f.names ∧ (reindexFrameL f idx d lim).Rect := by
  refine ⟨rfl, by simp [reindexFrameL, Frame.names, List.map_map, Function.comp_def], ?_⟩
  intro c hc
  simp only [reindexFrameL, List.mem_map] at hc
  obtain ⟨c', _, rfl⟩ := hc
  exact asofColLim_length d lim f.idx c'.2 idx

/-- a list of FILLING methods (no 'nona' / 'fnna'; the statement's None / ffill / bfill are the lists `[]`, `[ffill]`,
`[bfill]`): the result sits on the requested index with the columns of the input, and every non-NaN cell the join stage
produced - in particular every original value at a surviving timestamp (`reindex_limit_keeps`, `reindex_keep`) - is still there -/
theorem reindex_fill_list (f g : Frame) (idx : List Int) (ms : List Method) (lim : Option Nat)
    (hms : ∀ m ∈ ms, m ≠ .fnna ∧ m ≠ .nona) (hi : SortedL idx) (h : reindexFill f idx ms lim = .ok g) :
    ∃ g0 rest, fillna rest lim g0 = .ok g ∧
      ((ms = .ffill :: rest ∧ g0 = reindexFrameL f idx .ffill lim) ∨ (ms = .bfill :: rest ∧ g0 = reindexFrameL f idx .bfill lim) ∨
       (ms = rest ∧ g0 = reindexFrame f idx Option.none)) ∧
      g.idx = idx ∧ g.names = f.names ∧
      ∀ j i v, C12.cell g0 j i = some (some v) → C12.cell g j i = some (some v) := by
  have fin : ∀ g0 rest, (∀ m ∈ rest, m ≠ .fnna ∧ m ≠ .nona) → g0.idx = idx → g0.names = f.names → g0.Rect →
      fillna rest lim g0 = .ok g →
      g.idx = idx ∧ g.names = f.names ∧ ∀ j i v, C12.cell g0 j i = some (some v) → C12.cell g j i = some (some v) := by
    intro g0 rest hr h1 h2 h3 h4
    obtain ⟨a, b, c⟩ := C12.fillna_keeps rest lim g0 g hr (by unfold Frame.Sorted; rw [h1]; exact hi) h3 h4
    exact ⟨a.trans h1, b.trans h2, c⟩
  cases ms with
  | nil =>
    have h' : fillna [] lim (reindexFrame f idx Option.none) = .ok g := h
    obtain ⟨w1, w2, w3⟩ := reindex_index f idx Option.none
    exact ⟨_, [], h', Or.inr (Or.inr ⟨rfl, rfl⟩), fin _ [] (by simp) w1 w2 w3 h'⟩
  | cons m rest =>
    have hrest : ∀ m' ∈ rest, m' ≠ .fnna ∧ m' ≠ .nona := fun m' hm' => hms m' (by simp [hm'])
    by_cases hf : m = .ffill
    · subst hf
      simp only [reindexFill] at h
      split at h
      · obtain ⟨w1, w2, w3⟩ := reindexFrameL_wf f idx .ffill lim
        exact ⟨_, rest, h, Or.inl ⟨rfl, rfl⟩, fin _ rest hrest w1 w2 w3 h⟩
      · cases h
    · by_cases hb : m = .bfill
      · subst hb
        simp only [reindexFill] at h
        split at h
        · obtain ⟨w1, w2, w3⟩ := reindexFrameL_wf f idx .bfill lim
          exact ⟨_, rest, h, Or.inr (Or.inl ⟨rfl, rfl⟩), fin _ rest hrest w1 w2 w3 h⟩
        · cases h
      · have h' : fillna (m :: rest) lim (reindexFrame f idx Option.none) = .ok g := by
          rw [← reindex_other_then_fill f idx (m :: rest) lim (by simp [hf, hb])]; exact h
        obtain ⟨w1, w2, w3⟩ := reindex_index f idx Option.none
        exact ⟨_, m :: rest, h', Or.inr (Or.inr ⟨rfl, rfl⟩), fin _ (m :: rest) hms w1 w2 w3 h'⟩

/-! ### method lists inside `df_sync` / `df_reindex` / `presync`: containers -/

/-- one direction given as a WORD (the statement's None / ffill / bfill): the general functions are the ones every theorem
above speaks about -/
theorem syncM_single (j : Join) (m : Option Dir) (ch : Option How) (t : Tree) :
    syncJM j true (fillMethods m) ch t = syncJ j m ch t := syncJM_single j m ch t

theorem presyncM_single (j : Join) (m : Option Dir) (args kwargs : List (String × Tree)) :
    presyncCallM j true (fillMethods m) args kwargs = presyncCall j m args kwargs := presyncCallM_single j m args kwargs

theorem reindexM_single (ix : Index) (m : Option Dir) (t : Tree) :
    reindexTreeM ix true (fillMethods m) Option.none t = reindexTree ix m t := reindexTreeM_single ix m t

/-- the container structure and every non-timeseries member survive whatever the method (list) -/
theorem syncM_shape (j : Join) (bare : Bool) (ms : List Method) (ch : Option How) (t t' : Tree)
    (h : syncJM j bare ms ch t = .ok t') : t'.skel = t.skel := by
  cases t with
  | leaf l => simp [syncJM] at h; subst h; rfl
  | node tag kids =>
    simp only [syncJM] at h
    split at h
    · cases h
    · split at h
      · cases h
      · rename_i ix _ t1 h1
        cases ch with
        | none => simp at h; subst h; exact skel_reindexTreeM _ _ _ _ _ _ h1
        | some c =>
          simp only at h
          rw [skel_mapM _ (recolumnLeaf_skel _) _ _ h]
          exact skel_reindexTreeM _ _ _ _ _ _ h1

/-- `df_sync` / `df_reindex` with a method LIST, position by position: member `k` of the result is member `k` of the input
reindexed onto the joint index with the whole list - or, where `loops` hands the list out over a list / tuple container of the
same length (`_loop.py:_item_by_i`), with ONE method of the list (`SplitImage`) - and then put on the common column set -/
theorem syncM_pointwise (j : Join) (bare : Bool) (ms : List Method) (ch : Option How) (tag : Tag) (kids : List (String × Tree))
    (t' : Tree) (h : syncJM j bare ms ch (.node tag kids) = .ok t') :
    ∃ ix, dfIndexJ j (Tree.node tag kids).flatTop = .ok ix ∧
    t'.leaves.length = (Tree.node tag kids).leaves.length ∧
    ∀ (k : Nat) (l : Leaf), (Tree.node tag kids).leaves[k]? = some l →
      ∃ l1 l', SplitImage (fun ms' => reindexLeafM ix ms' Option.none) ms l l1 ∧
        colPass ch (multiCols (Tree.node tag kids).flatTop) l1 = .ok l' ∧ t'.leaves[k]? = some l' := by
  simp only [syncJM] at h
  split at h
  · cases h
  · rename_i ix hix
    split at h
    · cases h
    · rename_i t1 h1
      have p1 := pairs_reindexTreeM _ _ _ _ _ _ h1
      refine ⟨ix, hix, ?_⟩
      cases ch with
      | none =>
        simp at h; subst h
        refine ⟨p1.length_eq, fun k l hk => ?_⟩
        obtain ⟨l1, hl1, hr⟩ := p1.get k l hk
        exact ⟨l1, l1, hr, rfl, hl1⟩
      | some c =>
        simp only at h
        have p2 := pairs_mapM _ _ _ h
        have p := p1.comp p2
        refine ⟨p.length_eq, fun k l hk => ?_⟩
        obtain ⟨l', hl', l1, hr, hc⟩ := p.get k l hk
        exact ⟨l1, l', hr, hc, hl'⟩

/-- a BARE method (a word, a number - never handed out): a timeseries member comes out as `reindexFill` of itself onto the
joint index, i.e. (by `reindex_then_fill`) the as-of join followed by C12's `fillna` of the rest -/
theorem syncM_member (j : Join) (ms : List Method) (ch : Option How) (tag : Tag) (kids : List (String × Tree)) (t' : Tree)
    (h : syncJM j true ms ch (.node tag kids) = .ok t') (k : Nat) (s : Bool) (f : Frame) (idx : List Int)
    (hix : dfIndexJ j (Tree.node tag kids).flatTop = .ok (.times idx))
    (hk : (Tree.node tag kids).leaves[k]? = some (.ts s f)) :
    ∃ g l', reindexFill f idx ms Option.none = .ok g ∧
      colPass ch (multiCols (Tree.node tag kids).flatTop) (.ts s g) = .ok l' ∧ t'.leaves[k]? = some l' := by
  obtain ⟨ix, hix', _, hp⟩ := syncM_pointwise j true ms ch tag kids t' h
  rw [hix] at hix'; cases hix'
  obtain ⟨l1, l', ⟨ms', hms', hr⟩, h2, h3⟩ := hp k _ hk
  -- with a bare method the image is taken with the whole list: re-derive it from the plain recursion
  simp only [syncJM, hix] at h
  split at h
  · cases h
  · rename_i t1 h1
    have p1 := pairs_reindexTreeM_bare _ _ _ _ _ h1
    cases hrf : reindexFill f idx ms Option.none with
    | error e =>
      obtain ⟨l1', _, hr'⟩ := p1.get k _ hk
      simp [reindexLeafM, hrf, Except.map] at hr'
    | ok g =>
      cases ch with
      | none =>
        simp at h; subst h
        obtain ⟨l1', hl1', hr'⟩ := p1.get k _ hk
        simp [reindexLeafM, hrf, Except.map] at hr'; subst hr'
        exact ⟨g, _, rfl, rfl, hl1'⟩
      | some c =>
        simp only at h
        have p := p1.comp (pairs_mapM _ _ _ h)
        obtain ⟨l'', hl'', l1', hr', hc⟩ := p.get k _ hk
        simp [reindexLeafM, hrf, Except.map] at hr'; subst hr'
        exact ⟨g, l'', rfl, hc, hl''⟩

/-! ### `presync(f)(..., join = <name of a parameter of f>)`: the index of that argument (lines 1026-1028) -/

/-- the index an argument provides: a timeseries its own index, a `pd.Index` itself, an array its length, `dict(index = x)` the
index of `x`; a scalar / string / None raises `ValueError` -/
theorem named_index (s : Bool) (f : Frame) (xs : Col) (v : Val) (kids : List (String × Tree)) (k : String) :
    indexOfArg (.leaf (.ts s f)) = .ok (.times f.idx) ∧
    indexOfArg (.leaf (.arr xs)) = .ok (.len xs.length) ∧
    (asPdIndex v = Option.none → indexOfArg (.leaf (.other v)) = .error .value) ∧
    (kids.find? (·.1 == "index") = some (k, .leaf (.ts s f)) → indexOfArg (.node .dict kids) = .ok (.times f.idx)) := by
  refine ⟨rfl, rfl, fun h => by simp [indexOfArg, h], fun h => by simp [indexOfArg, h]⟩

/-- when `join` names a supplied argument, the positional arguments (a tuple) and the keyword arguments (a dict) keep their
structure, and member `k` of either is that member reindexed onto THE INDEX OF THE NAMED ARGUMENT - whatever indices the
other arguments have (no intersection / union is taken) -/
theorem presync_named_member (name : String) (ms : List Method) (pnames : List String) (args kwargs : List (String × Tree))
    (a k : Tree) (h : presyncNamed name true ms pnames args kwargs = some (.ok (a, k))) :
    ∃ key v ix, ((pnames.zip (args.map (·.2))) ++ kwargs).find? (·.1 == name) = some (key, v) ∧ indexOfArg v = .ok ix ∧
      a.skel = (Tree.node .tuple args).skel ∧ k.skel = (Tree.node .dict kwargs).skel ∧
      (∀ (i : Nat) (l : Leaf), (Tree.node .tuple args).leaves[i]? = some l →
        ∃ l', reindexLeafM ix ms Option.none l = .ok l' ∧ a.leaves[i]? = some l') ∧
      (∀ (i : Nat) (l : Leaf), (Tree.node .dict kwargs).leaves[i]? = some l →
        ∃ l', reindexLeafM ix ms Option.none l = .ok l' ∧ k.leaves[i]? = some l') := by
  simp only [presyncNamed] at h
  split at h
  · cases h
  · rename_i key v hfind
    simp only [Option.some.injEq] at h
    split at h
    · cases h
    · rename_i ix hix
      simp only [presyncOnto] at h
      split at h
      · cases h
      · rename_i a' ha
        split at h
        · cases h
        · rename_i k' hk
          cases h
          refine ⟨key, v, ix, hfind, hix, skel_reindexTreeM _ _ _ _ _ _ ha, skel_reindexTreeM _ _ _ _ _ _ hk, ?_, ?_⟩
          · intro i l hl
            obtain ⟨l', h1, h2⟩ := (pairs_reindexTreeM_bare ix ms Option.none _ _ ha).get i l hl
            exact ⟨l', h2, h1⟩
          · intro i l hl
            obtain ⟨l', h1, h2⟩ := (pairs_reindexTreeM_bare ix ms Option.none _ _ hk).get i l hl
            exact ⟨l', h2, h1⟩

/-- `join` names no supplied argument: the branch is not taken (the policy-word / explicit-index path `presyncCallM` applies) -/
theorem presync_named_absent (name : String) (bare : Bool) (ms : List Method) (pnames : List String)
    (args kwargs : List (String × Tree)) (h : ∀ p ∈ (pnames.zip (args.map (·.2))) ++ kwargs, p.1 ≠ name) :
    presyncNamed name bare ms pnames args kwargs = Option.none := by
  have : ((pnames.zip (args.map (·.2))) ++ kwargs).find? (·.1 == name) = Option.none := by
    rw [List.find?_eq_none]; intro p hp; simpa using h p hp
  simp [presyncNamed, this]

/-! ### dict members keyed 'index' -/

/-- the key of a dict member plays no role in what the joint index sees: `_list` opens every dict (so `df_index`'s test
`_is_dict_indexed(member)` never fires on a member), a dict keyed 'index' inside a container is an ordinary dict whose values
- a timeseries under 'index' included - are members like any other; `sync_shape` / `syncM_shape` keep the keys -/
theorem index_key_ordinary (g : String → String) (tag : Tag) (kids : List (String × Tree)) :
    (Tree.node tag (kids.map fun k => (g k.1, k.2))).flatTop = (Tree.node tag kids).flatTop ∧
    (tag ≠ .tuple → (Tree.node tag (kids.map fun k => (g k.1, k.2))).flat = (Tree.node tag kids).flat) := by
  refine ⟨flatKids_rekey g kids, fun ht => ?_⟩
  cases tag with
  | tuple => exact (ht rfl).elim
  | list => exact flatKids_rekey g kids
  | dict => exact flatKids_rekey g kids

/-! ### non-vacuity -/

example : joinIndex .inner [[1, 2, 4, 7], [2, 3, 4], [0, 2, 4, 9]] = some [2, 4] := by decide
example : joinIndex .outer [[1, 4], [2, 3, 4], []] = some [1, 2, 3, 4] := by decide
example : joinIndex .right [[1, 4], [2, 3, 4], [9]] = some [9] := by decide
/-- ffill as-of across a NaN and across gaps; bfill; plain lookup -/
example : let f : Frame := { idx := [1, 2, 5], cols := [("", [some 10, Option.none, some 30])] }
    f.Sorted ∧
    (reindexFrame f [0, 1, 2, 3, 5, 9] (some .ffill)).cols = [("", [Option.none, some 10, some 10, some 10, some 30, some 30])] ∧
    (reindexFrame f [0, 1, 2, 3, 5, 9] (some .bfill)).cols = [("", [some 10, some 10, some 30, some 30, some 30, Option.none])] ∧
    (reindexFrame f [0, 1, 2, 3, 5, 9] Option.none).cols = [("", [Option.none, some 10, Option.none, Option.none, some 30, Option.none])] := by
  decide
/-- the as-of join is per column: a frame whose rows are only partly NaN (C03-A2: the unrepaired code joined whole rows
and returned `a = [1, NaN, NaN]`) -/
example : let f : Frame := { idx := [0, 1], cols := [("a", [some 1, Option.none]), ("b", [Option.none, some 2])] }
    (reindexFrame f [0, 1, 2] (some .ffill)).cols = [("a", [some 1, some 1, some 1]), ("b", [Option.none, some 2, some 2])] ∧
    (reindexFrame f [0, 1, 2] (some .bfill)).cols = [("a", [some 1, Option.none, Option.none]), ("b", [some 2, some 2, Option.none])] := by
  decide
/-- `sync_member` / `sync_index_inner` on a nested, tuple-free container: the hypotheses hold and the members come out in place -/
example : let t : Tree := .node .list [("", .leaf (.ts true { idx := [1, 2, 4], cols := [("", [some 1, Option.none, some 3])] })),
                                       ("", .node .dict [("k", .leaf (.ts true { idx := [2, 3, 4], cols := [("", [some 5, some 6, Option.none])] })),
                                                         ("j", .leaf (.other (.cell (.int 7))))])]
    kidsTupleFree (match t with | .node _ ks => ks | _ => []) = true ∧
    dfIndex .inner t.flatTop = .times [2, 4] ∧
    (match sync .inner (some .ffill) Option.none t with
     | .ok t' => t'.leaves.map fun l => match l with | .ts _ f => some f | _ => Option.none
     | .error _ => []) =
      [some { idx := [2, 4], cols := [("", [some 1, some 3])] }, some { idx := [2, 4], cols := [("", [some 5, some 6])] }, Option.none] := by
  decide
/-- `sync_explicit_member` / `presync_call_member`: an explicit index, a keyword argument -/
example : let s1 : Frame := { idx := [1, 2, 4], cols := [("", [some 1, Option.none, some 3])] }
    let s2 : Frame := { idx := [2, 3], cols := [("", [some 5, some 6])] }
    tsIndexes (Tree.node .list [("", .leaf (.ts true s1))]).flatTop ≠ [] ∧
    (match presyncCall (.explicit [0, 2, 3]) (some .ffill) [("", .leaf (.ts true s1))] [("k", .leaf (.ts true s2))] with
     | .ok (a, k) => (a.leaves ++ k.leaves).map fun l => match l with | .ts _ f => some f | _ => Option.none
     | .error _ => []) =
      [some { idx := [0, 2, 3], cols := [("", [Option.none, some 1, some 1])] },
       some { idx := [0, 2, 3], cols := [("", [Option.none, some 5, some 6])] }] := by
  decide
example : alignArr 2 [some 1, some 2, some 3] = [some 2, some 3] ∧
    alignArr 4 [some 1, some 2] = [Option.none, Option.none, some 1, some 2] ∧ alignArr 0 [some 1] = [] := by decide

/-- `limit`: requested labels 1,3 land on the observation at 0, labels 5,6,7 on the one at 4; with `limit = 1` only the first
of each group (from the observation outwards) is filled, bfill counts from the right; an exact match is never counted -/
example : let f : Frame := { idx := [0, 2, 4, 8], cols := [("", [some 1, Option.none, some 3, some 4])] }
    f.Sorted ∧ SortedL [1, 3, 4, 5, 6, 7, 9, 11] ∧
    (reindexFrameL f [1, 3, 4, 5, 6, 7, 9, 11] .ffill (some 1)).cols =
      [("", [some 1, Option.none, some 3, some 3, Option.none, Option.none, some 4, Option.none])] ∧
    (reindexFrameL f [1, 3, 4, 5, 6, 7, 9, 11] .bfill (some 2)).cols =
      [("", [some 3, some 3, some 3, Option.none, some 4, some 4, Option.none, Option.none])] ∧
    between [1, 3, 4, 5, 6, 7, 9, 11] 4 7 = 2 := by
  decide
/-- a method list: as-of ffill, then bfill of what is left, then the constant 0 (values are 4·x) -/
example : let f : Frame := { idx := [2, 4], cols := [("", [some 1, some 3])] }
    (reindexFill f [0, 1, 2, 3, 5] [.ffill, .const 0] (some 1)).toOption =
      some { idx := [0, 1, 2, 3, 5], cols := [("", [some 0, Option.none, some 1, some 1, some 3])] } ∧
    (reindexFill f [0, 1, 2, 3, 5] [.const 0] Option.none).toOption =
      some { idx := [0, 1, 2, 3, 5], cols := [("", [some 0, some 0, some 1, some 0, some 0])] } := by
  decide
/-- `loops` hands `['ffill', 'bfill']` out over a LIST of two series (first ffill, second bfill), not over a dict -/
example : let s1 : Frame := { idx := [0, 4], cols := [("", [some 1, some 3])] }
    let s2 : Frame := { idx := [2], cols := [("", [some 5])] }
    (match reindexTreeM (.times [0, 2, 4]) false [.ffill, .bfill] Option.none (.node .list [("", .leaf (.ts true s1)), ("", .leaf (.ts true s2))]) with
     | .ok t' => t'.leaves.map fun l => match l with | .ts _ f => f.cols | _ => []
     | .error _ => []) = [[("", [some 1, some 1, some 3])], [("", [some 5, some 5, Option.none])]] ∧
    (match reindexTreeM (.times [0, 2, 4]) false [.ffill, .bfill] Option.none (.node .dict [("a", .leaf (.ts true s1)), ("b", .leaf (.ts true s2))]) with
     | .ok t' => t'.leaves.map fun l => match l with | .ts _ f => f.cols | _ => []
     | .error _ => []) = [[("", [some 1, some 1, some 3])], [("", [some 5, some 5, some 5])]] := by
  decide
/-- `presync(f)(a, b, join='p1')`: both arguments on the index of the second, no intersection taken -/
example : let s1 : Frame := { idx := [0, 4], cols := [("", [some 1, some 3])] }
    let s2 : Frame := { idx := [2, 4, 6], cols := [("", [some 5, Option.none, some 7])] }
    (match presyncNamed "p1" true [] ["p0", "p1"] [("", .leaf (.ts true s1)), ("", .leaf (.ts true s2))] [] with
     | some (.ok (a, _)) => a.leaves.map fun l => match l with | .ts _ f => some f | _ => Option.none
     | _ => []) =
      [some { idx := [2, 4, 6], cols := [("", [Option.none, some 3, Option.none])] }, some s2] := by
  decide
/-- `sync_arrays` / `sync_arrays_value`: a nested, tuple-free container of bare arrays of lengths 3, 1, 2 (one inside a dict) and a
string: the hypotheses hold; outer join = length 3, every array NaN-padded in front, `'bfill'` fills the padding, inner join = length 1 -/
example : let t : Tree := .node .list [("", .leaf (.arr [some 1, Option.none, some 3])),
                                       ("", .node .dict [("k", .leaf (.arr [some 5])), ("j", .leaf (.other (.cell (.int 7))))]),
                                       ("", .leaf (.arr [some 8, some 9]))]
    kidsTupleFree (match t with | .node _ ks => ks | _ => []) = true ∧ tsIndexes t.leaves = [] ∧
    joinLen .outer (arrLens t.leaves) = some 3 ∧ joinLen .inner (arrLens t.leaves) = some 1 ∧
    (match sync .outer (some .bfill) Option.none t with
     | .ok t' => t'.leaves.map fun l => match l with | .arr c => some c | _ => Option.none
     | .error _ => []) =
      [some [some 1, some 3, some 3], some [some 5, some 5, some 5], Option.none, some [some 8, some 8, some 9]] ∧
    (match sync .inner Option.none Option.none t with
     | .ok t' => t'.leaves.map fun l => match l with | .arr c => some c | _ => Option.none
     | .error _ => []) = [some [some 3], some [some 5], Option.none, some [some 9]] := by
  decide
/-- `sync_index_left` / `sync_index_right`: the first timeseries in depth-first order sits inside a dict behind a string and an array
is not counted; `'lj'` puts everything on ITS index, `'rj'` on the last one's -/
example : let s1 : Frame := { idx := [1, 2, 4], cols := [("", [some 1, Option.none, some 3])] }
    let s2 : Frame := { idx := [2, 3], cols := [("", [some 5, some 6])] }
    let t : Tree := .node .list [("", .leaf (.other (.cell (.int 7)))), ("", .node .dict [("k", .leaf (.ts true s1))]), ("", .leaf (.ts true s2))]
    kidsTupleFree (match t with | .node _ ks => ks | _ => []) = true ∧
    t.leaves = [.other (.cell (.int 7))] ++ .ts true s1 :: [.ts true s2] ∧
    (match sync .left Option.none Option.none t with
     | .ok t' => t'.leaves.map fun l => match l with | .ts _ f => some f.idx | _ => Option.none
     | .error _ => []) = [Option.none, some [1, 2, 4], some [1, 2, 4]] ∧
    (match sync .right Option.none Option.none t with
     | .ok t' => t'.leaves.map fun l => match l with | .ts _ f => some f.idx | _ => Option.none
     | .error _ => []) = [Option.none, some [2, 3], some [2, 3]] := by
  refine ⟨by decide, rfl, by decide, by decide⟩

/-! ### a NaN the series HOLDS at a surviving timestamp (review t4 2.1; the declared reading of clause 2)

The statement's "at each surviving timestamp a series keeps exactly its original value" is read for VALUES: a NaN cell is
not an observation.  With a fill method a NaN held at a timestamp the series has is filled exactly like a timestamp it
lacked - the as-of join runs over the non-NaN observations (`_nona(ts).reindex(index, method)`).  Without a fill method
the NaN stays (`reindex_keep`).  The theorems below pin that reading against C12's independent `ffill` / `bfill`. -/

/-- **own NaN, ffill**: the cell of column `c` at a timestamp `t = f.idx[i]` the frame HAS, where the column holds NaN,
becomes the column's last non-NaN observation before `t` (`lastObs`; positional reading: `last_observation`) -/
theorem reindex_fill_own_nan (f : Frame) (idx : List Int) (hs : f.Sorted) (j k : Nat) (c : String × Col) (t : Int)
    (hc : f.cols[j]? = some c) (hk : idx[k]? = some t) :
    ∃ r, (reindexFrame f idx (some .ffill)).cols[j]? = some (c.1, r) ∧ r[k]? = some (lastObs f.idx c.2 t) := by
  refine ⟨idx.map (lastObs f.idx c.2), ?_, by simp [hk]⟩
  rw [reindex_ffill f idx hs]; simp [hc]

/-- the reading made visible: the series `[5, NaN]` on the days `0, 1`, reindexed with ffill onto ITS OWN index, is `[5, 5]` -
the NaN it held on day 1 is gone although day 1 "survives" -/
example : reindexFrame ⟨[0, 1], [("a", [some 5, Option.none])]⟩ [0, 1] (some .ffill) = ⟨[0, 1], [("a", [some 5, some 5])]⟩ := by decide
example : reindexFrame ⟨[0, 1], [("a", [Option.none, some 5])]⟩ [0, 1] (some .bfill) = ⟨[0, 1], [("a", [some 5, some 5])]⟩ := by decide
example : reindexFrame ⟨[0, 1], [("a", [some 5, Option.none])]⟩ [0, 1] Option.none = ⟨[0, 1], [("a", [some 5, Option.none])]⟩ := by decide

/-- **`df_reindex(x, x.index, 'ffill')` IS `df_fillna(x, 'ffill')`** (and `bfill`): reindexing a frame with a strictly
increasing index onto its own index with a fill method is C12's plain forward / backward fill without limit, column by
column - an independent definition (`Fill.ffill`: one left-to-right pass carrying the last value; no labels, no NaN removal,
no as-of position).  So under a fill method exactly the NaN cells change, each to the nearest earlier / later value
(C12 `ffill_keeps`, `ffill_nolimit`, `ffill_leading`), and a model that filled only LACKED timestamps could not satisfy this. -/
theorem reindex_own_index_ffill (f : Frame) (hs : f.Sorted) (hr : f.Rect) :
    reindexFrame f f.idx (some .ffill) = f.mapCols (ffill Option.none) := by
  have h := reindex_ffill f f.idx hs
  simp only [reindexFrame, Frame.mapCols] at h ⊢
  congr 1
  rw [h]
  apply List.map_congr_left
  intro c hc
  rw [ffill_eq_lastObs f.idx c.2 hs (hr c hc)]

theorem reindex_own_index_bfill (f : Frame) (hs : f.Sorted) (hr : f.Rect) :
    reindexFrame f f.idx (some .bfill) = f.mapCols (bfill Option.none) := by
  have h := reindex_bfill f f.idx
  simp only [reindexFrame, Frame.mapCols] at h ⊢
  congr 1
  rw [h]
  apply List.map_congr_left
  intro c hc
  rw [bfill_eq_firstObs f.idx c.2 hs (hr c hc)]

/-- ... hence, cell by cell: a non-NaN cell is kept, a NaN cell takes the nearest earlier value with only NaN in between,
a NaN before the first value stays NaN (C12's theorems, now about `df_reindex`) -/
theorem reindex_own_index_cells (f : Frame) (hs : f.Sorted) (hr : f.Rect) (j : Nat) (c : String × Col) (hc : f.cols[j]? = some c) :
    ∃ r, (reindexFrame f f.idx (some .ffill)).cols[j]? = some (c.1, r) ∧ r.length = c.2.length ∧
      (∀ (i : Nat) (v : Int), c.2[i]? = some (some v) → r[i]? = some (some v)) ∧
      (∀ (i' i : Nat) (v : Int), i' < i → c.2[i']? = some (some v) → (∀ m : Nat, i' < m → m ≤ i → c.2[m]? = some Option.none) → r[i]? = some (some v)) ∧
      (∀ i : Nat, (∀ m : Nat, m ≤ i → c.2[m]? = some Option.none) → r[i]? = some Option.none) := by
  refine ⟨ffill Option.none c.2, ?_, ffill_length _ _, ?_, ?_, ?_⟩
  · rw [reindex_own_index_ffill f hs hr]; simp [Frame.mapCols, hc]
  · intro i v h; exact ffillAux_keep _ _ _ _ _ _ h
  · intro i' i v h1 h2 h3
    unfold ffill; rw [ffillAux_after _ _ _ c.2 i' i v h1 h2 h3]; simp [within]
  · intro i h; exact ffill_prefix _ _ i h


end Pyg.Props.C03
