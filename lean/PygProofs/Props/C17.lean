/- C17 — bitemporal store (work in progress) -/
import PygModel.Bitemp

namespace Pyg.Props.C17
open Pyg Pyg.Bitemp

theorem history_nil : history [] = Option.none := rfl

end Pyg.Props.C17
