/-
  C17 — bitemporal store: reading as of T sees exactly what had been published by T.
  Property theorems only (helper lemmas: PygProofs/Lemmas/BitempLemmas.lean).

  `history log` is the store after `bi_merge`-ing the versions of `log` one by one from `None`;
  `specRead log T` is the fold of the FULL publication log: per date, the publications stamped `≤ T` in
  merge order, a non-NaN value overriding, a NaN changing nothing.
-/
import PygModel.Bitemp
import PygProofs.Lemmas.BitempLemmas

namespace Pyg.Props.C17
open Pyg Pyg.Bitemp

/- `Ordered log` (PygProofs/Lemmas/BitempLemmas.lean): the histories the property speaks about - non-empty, every version
   a proper series (strictly increasing dates), stamps non-decreasing in merge order. -/

/-- **refinement**: the compressed store answers every as-of read exactly as the full publication log
    would: latest value stamped `≤ T`, merge order breaking ties, NaN never overriding, and a row only
    for dates published by `T`. -/
theorem read_spec (log : List Version) (h : Ordered log) (T : Option Int) :
    ∃ st, history log = some st ∧ biRead st T (-1) = specRead log T := by
  obtain ⟨st, hst, hg, he, _⟩ := history_inv log h.ne h.wf h.stamps
  exact ⟨st, hst, by rw [biRead_last st hg, specRead_eq, specRows_congr he]⟩

example : Ordered [⟨10, [(1, some 5), (2, none)]⟩, ⟨10, [(1, some 6)]⟩, ⟨12, [(2, some 7), (3, none)]⟩] :=
  ⟨by simp, by decide, by decide⟩

/-- **first read**: `what = 0` returns, per date published by `T`, the first published value - the fold of the
    publications sharing the date's first stamp (a same-stamp version merged later overrides, as for every
    read; this is the only reading under which the clause is true of the code, see docs/notes/C17.md). -/
theorem read_first (log : List Version) (h : Ordered log) (T : Option Int) :
    ∃ st, history log = some st ∧ biRead st T 0 = specFirst log T := by
  obtain ⟨st, hst, hg, he, _⟩ := history_inv log h.ne h.wf h.stamps
  refine ⟨st, hst, ?_⟩
  rw [biRead_first st hg, specFirst_eq]
  exact firstRows_congr he (fun d => (hg d).1.le)
    (fun d => (logRows_sorted log h.stamps).sublist List.filter_sublist) T

/-- the dates an as-of read returns are exactly the dates with a publication stamped `≤ T`:
    no row for dates first published after `T` -/
theorem read_dates (log : List Version) (h : Ordered log) (T : Int) (st : Store) (hst : history log = some st)
    (d : Int) :
    d ∈ (biRead st (some T) (-1)).index ↔ ∃ v ∈ log, v.stamp ≤ T ∧ d ∈ v.ts.index := by
  obtain ⟨st', hst', hr⟩ := read_spec log h (some T)
  rw [hst] at hst'; cases hst'
  rw [hr]
  simp only [specRead, TS.index, List.map_map, List.mem_map, mem_dates, List.mem_filter, logRows,
    List.mem_flatMap, Bi, decide_eq_true_eq, Function.comp]
  constructor
  · rintro ⟨_, ⟨r, ⟨⟨v, hv, p, hp, rfl⟩, hT⟩, rfl⟩, rfl⟩
    exact ⟨v, hv, hT, p, hp, rfl⟩
  · rintro ⟨v, hv, hT, p, hp, rfl⟩
    exact ⟨p.1, ⟨⟨p.1, v.stamp, p.2⟩, ⟨⟨v, hv, p, hp, rfl⟩, hT⟩, rfl⟩, rfl⟩

/-- **no look-ahead**: versions stamped later than `T` never change an as-of-`T` read -/
theorem no_lookahead (log later : List Version) (h : Ordered (log ++ later)) (hl : log ≠ []) (T : Int)
    (hT : ∀ v ∈ later, T < v.stamp) (st st' : Store)
    (hst : history log = some st) (hst' : history (log ++ later) = some st') :
    biRead st' (some T) (-1) = biRead st (some T) (-1) := by
  have h0 : Ordered log :=
    ⟨hl, fun v hv => h.wf v (List.mem_append_left _ hv), (List.pairwise_append.mp h.stamps).1⟩
  obtain ⟨s1, e1, r1⟩ := read_spec log h0 (some T)
  obtain ⟨s2, e2, r2⟩ := read_spec _ h (some T)
  rw [hst] at e1; cases e1
  rw [hst'] at e2; cases e2
  rw [r1, r2]
  have : (logRows later).filter (fun r => decide (r.stamp ≤ T)) = [] := by
    rw [List.filter_eq_nil_iff]
    intro r hr
    simp only [logRows, List.mem_flatMap, Bi, List.mem_map] at hr
    obtain ⟨v, hv, _, _, rfl⟩ := hr
    have := hT v hv
    simp only [decide_eq_true_eq]; omega
  simp only [specRead, logRows_append, List.filter_append, this, List.append_nil]

/-- two logs that agree on what was published by `T` are read alike as of `T` -/
theorem no_lookahead_logs (log₁ log₂ : List Version) (h₁ : Ordered log₁) (h₂ : Ordered log₂) (T : Int)
    (hT : (logRows log₁).filter (fun r => decide (r.stamp ≤ T)) = (logRows log₂).filter (fun r => decide (r.stamp ≤ T)))
    (st₁ st₂ : Store) (e₁ : history log₁ = some st₁) (e₂ : history log₂ = some st₂) :
    biRead st₁ (some T) (-1) = biRead st₂ (some T) (-1) := by
  obtain ⟨s1, e1, r1⟩ := read_spec log₁ h₁ (some T)
  obtain ⟨s2, e2, r2⟩ := read_spec log₂ h₂ (some T)
  rw [e₁] at e1; cases e1
  rw [e₂] at e2; cases e2
  rw [r1, r2]
  simp only [specRead, hT]

/-- **idempotence**: merging (again) a version whose values are the values the store shows as of that version's
    stamp - NaN entries allowed, they never override - leaves every as-of read and every first read unchanged.
    This covers re-merging the version merged last, and every earlier version that no later version sharing
    its stamp has overridden (for an overridden one the clause is false of the code, see docs/notes/C17.md). -/
theorem merge_idem (log : List Version) (h : Ordered log) (st : Store) (hst : history log = some st) (w : Version)
    (hvis : ∀ p ∈ w.ts, ∃ y, (p.1, y) ∈ biRead st (some w.stamp) (-1) ∧ (p.2 = Option.none ∨ p.2 = y))
    (T : Option Int) :
    biRead (biMerge (some st) (Bi w.ts w.stamp)) T (-1) = biRead st T (-1) ∧
    biRead (biMerge (some st) (Bi w.ts w.stamp)) T 0 = biRead st T 0 := by
  obtain ⟨st', hst', hg, _, _⟩ := history_inv log h.ne h.wf h.stamps
  rw [hst] at hst'; cases hst'
  have he := remerge_specEq st hg w hvis
  have hg' := mergeFrames_good st (Bi w.ts w.stamp)
  constructor
  · show biRead (mergeFrames _) T (-1) = _
    rw [biRead_last _ hg', biRead_last _ hg, specRows_congr he]
  · show biRead (mergeFrames _) T 0 = _
    rw [biRead_first _ hg', biRead_first _ hg]
    exact firstRows_congr he (fun d => (hg' d).1.le) (fun d => (hg d).1.le) T

/-- the version merged last is always such a version: its non-NaN values are what the store shows as of its stamp -/
theorem last_version_visible (log : List Version) (w : Version) (h : Ordered (log ++ [w])) (st : Store)
    (hst : history (log ++ [w]) = some st) :
    ∀ p ∈ w.ts, ∃ y, (p.1, y) ∈ biRead st (some w.stamp) (-1) ∧ (p.2 = Option.none ∨ p.2 = y) := by
  intro p hp
  obtain ⟨st', hst', hr⟩ := read_spec _ h (some w.stamp)
  rw [hst] at hst'; cases hst'
  rw [hr, specRead_eq]
  have hrow : (⟨p.1, w.stamp, p.2⟩ : Row) ∈ group p.1 (logRows (log ++ [w])) := by
    rw [mem_group]
    refine ⟨?_, rfl⟩
    rw [logRows_append, logRows_single]
    exact List.mem_append_right _ (by simp only [Bi, List.mem_map]; exact ⟨p, hp, rfl⟩)
  refine ⟨lastVal ((group p.1 (logRows (log ++ [w]))).filter (vis (some w.stamp))), ?_, ?_⟩
  · simp only [specRows, List.mem_map, Prod.mk.injEq]
    refine ⟨p.1, ?_, rfl, rfl⟩
    rw [mem_dates]
    exact ⟨⟨p.1, w.stamp, p.2⟩, List.mem_filter.mpr ⟨(mem_group.mp hrow).1, by simp [vis]⟩, rfl⟩
  · -- the rows of `w` for this date close the visible log column; fold them last
    have hall : (group p.1 (logRows (log ++ [w]))).filter (vis (some w.stamp)) = group p.1 (logRows (log ++ [w])) := by
      rw [List.filter_eq_self]
      intro r hr
      have hsorted := logRows_sorted _ h.stamps
      rw [logRows_append, logRows_single] at hsorted hr
      have hr' := (mem_group.mp hr).1
      simp only [vis, decide_eq_true_eq]
      rcases List.mem_append.mp hr' with h1 | h1
      · exact (List.pairwise_append.mp hsorted).2.2 r h1 ⟨p.1, w.stamp, p.2⟩ (by simp only [Bi, List.mem_map]; exact ⟨p, hp, rfl⟩)
      · simp only [Bi, List.mem_map] at h1; obtain ⟨_, _, rfl⟩ := h1; exact Int.le_refl _
    rw [hall, logRows_append, logRows_single, group_append]
    have hsingle : group p.1 (Bi w.ts w.stamp) = [⟨p.1, w.stamp, p.2⟩] := by
      have hgd := (good_Bi w.ts w.stamp (h.wf w (by simp)) p.1).1
      have hm : (⟨p.1, w.stamp, p.2⟩ : Row) ∈ group p.1 (Bi w.ts w.stamp) :=
        mem_group.mpr ⟨by simp only [Bi, List.mem_map]; exact ⟨p, hp, rfl⟩, rfl⟩
      match hgrp : group p.1 (Bi w.ts w.stamp), hgd, hm with
      | [], _, hm => simp at hm
      | [a], _, hm => simp only [List.mem_singleton] at hm; rw [hm]
      | a :: b :: rest, hgd, _ =>
        exfalso
        have hab := List.rel_of_pairwise_cons hgd (List.mem_cons_self (a := b) (l := rest))
        have ha : a ∈ group p.1 (Bi w.ts w.stamp) := by rw [hgrp]; simp
        have hb : b ∈ group p.1 (Bi w.ts w.stamp) := by rw [hgrp]; simp
        have e1 : a.stamp = w.stamp := by
          have := (mem_group.mp ha).1; simp only [Bi, List.mem_map] at this; obtain ⟨_, _, rfl⟩ := this; rfl
        have e2 : b.stamp = w.stamp := by
          have := (mem_group.mp hb).1; simp only [Bi, List.mem_map] at this; obtain ⟨_, _, rfl⟩ := this; rfl
        omega
    rw [hsingle, lastVal_snoc]
    cases hv : p.2 with
    | none => exact Or.inl rfl
    | some x => right; simp

/-- **batches**: `bi_merge` also takes a LIST of new versions in one call.  However a stamp-ordered history is cut
    into such calls, the store answers as-of reads and first reads as the full publication log does. -/
theorem read_spec_batches (batches : List (List Version)) (h : Ordered batches.flatten) (T : Option Int) :
    ∃ st, historyL batches = some st ∧ biRead st T (-1) = specRead batches.flatten T ∧
      biRead st T 0 = specFirst batches.flatten T := by
  obtain ⟨st, hst, hg, he, _⟩ := historyL_inv batches h.ne h.wf h.stamps
  refine ⟨st, hst, by rw [biRead_last st hg, specRead_eq, specRows_congr he], ?_⟩
  rw [biRead_first st hg, specFirst_eq]
  exact firstRows_congr he (fun d => (hg d).1.le)
    (fun d => (logRows_sorted _ h.stamps).sublist List.filter_sublist) T

/-- merging one version at a time is the special case of one-element batches -/
theorem history_eq_batches (log : List Version) : history log = historyL (log.map fun v => [v]) := by
  unfold history historyL
  rw [List.foldl_map]
  congr 1
  funext st v
  cases st <;> rfl

/-- the store never holds anything that was not published -/
theorem store_rows_published (log : List Version) (h : Ordered log) (st : Store) (hst : history log = some st)
    (r : Row) (hr : r ∈ st) : ∃ v ∈ log, r.stamp = v.stamp ∧ (r.date, r.val) ∈ v.ts := by
  obtain ⟨st', hst', _, _, hm⟩ := history_inv log h.ne h.wf h.stamps
  rw [hst] at hst'; cases hst'
  have := hm r hr
  simp only [logRows, List.mem_flatMap, Bi, List.mem_map] at this
  obtain ⟨v, hv, p, hp, rfl⟩ := this
  exact ⟨v, hv, rfl, hp⟩

/-! `lastVal` (the fold used by `specRead`) is determined by three equations: nothing published gives NaN,
    a later non-NaN publication overrides, a later NaN publication changes nothing. -/

theorem lastVal_nil : lastVal [] = Option.none := rfl

theorem lastVal_override (rows : Store) (r : Row) (x : Int) (h : r.val = some x) :
    lastVal (rows ++ [r]) = some x := by rw [lastVal_snoc, h]; rfl

theorem lastVal_nan_keeps (rows : Store) (r : Row) (h : r.val = Option.none) :
    lastVal (rows ++ [r]) = lastVal rows := by rw [lastVal_snoc, h]; rfl

/-! ### evaluation tests (`List.mergeSort` does not reduce in the kernel, so these are `#guard`s):
    the hypotheses of the theorems above are met by non-trivial histories and the conclusions are not vacuous -/

/-- same-stamp override, NaN that must not override, a revert, a date that appears late -/
def demo : List Version :=
  [⟨10, [(1, some 5), (2, none), (3, some 1)]⟩, ⟨10, [(1, some 6), (2, none)]⟩,
   ⟨12, [(1, none), (2, some 7), (3, some 2), (4, none)]⟩, ⟨12, [(3, some 1)]⟩]

#guard (history demo).map (fun st => biRead st (some 9) (-1)) == some []
#guard (history demo).map (fun st => biRead st (some 10) (-1)) == some [(1, some 6), (2, none), (3, some 1)]
#guard (history demo).map (fun st => biRead st (some 11) (-1)) == some (specRead demo (some 11))
#guard (history demo).map (fun st => biRead st Option.none (-1)) == some [(1, some 6), (2, some 7), (3, some 1), (4, none)]
#guard (history demo).map (fun st => biRead st Option.none 0) == some [(1, some 6), (2, none), (3, some 1), (4, none)]
#guard (history demo).map (fun st => biRead st Option.none 0) == some (specFirst demo Option.none)
-- the hypothesis of `merge_idem` holds for the last version and for the (not overridden) second one ...
#guard (history demo).map (fun st => [demo[3]!, demo[1]!].all fun w => w.ts.all fun p =>
    (biRead st (some w.stamp) (-1)).any fun q => q.1 == p.1 && (p.2 == Option.none || p.2 == q.2)) == some true
-- ... and fails for the first version, which the second one (same stamp) has overridden: re-merging it changes a read
#guard (history demo).map (fun st => demo[0]!.ts.all fun p =>
    (biRead st (some 10) (-1)).any fun q => q.1 == p.1 && (p.2 == Option.none || p.2 == q.2)) == some false
#guard (history demo).map (fun st => biRead (biMerge (some st) (Bi demo[0]!.ts 10)) (some 10) (-1)) ==
    some [(1, some 5), (2, none), (3, some 1)]

-- the same history handed over in batches (one call with two versions, an empty call, one call with two more)
#guard (historyL [[demo[0]!, demo[1]!], [], [demo[2]!, demo[3]!]]).map (fun st => biRead st Option.none (-1)) ==
    some (specRead demo Option.none)
#guard (historyL [demo]).map (fun st => biRead st (some 10) 0) == some (specFirst demo (some 10))

end Pyg.Props.C17
