/-
  C17 — bitemporal store: reading as of T sees exactly what had been published by T.
  Property theorems only (helper lemmas: PygProofs/Lemmas/BitempLemmas.lean).

  `history log` is the store after `bi_merge`-ing the versions of `log` one by one from `None`;
  `specRead log T` is the fold of the FULL publication log: per date, the publications stamped `≤ T` in
  merge order, a non-NaN value overriding, a NaN changing nothing.
-/
import PygModel.Bitemp
import PygProofs.Lemmas.BitempLemmas

namespace Pyg.Props.C17
open Pyg Pyg.Bitemp

/-- a publication history the property speaks about: non-empty, every version a proper series,
    merged in non-decreasing stamp order -/
structure Ordered (log : List Version) : Prop where
  ne : log ≠ []
  wf : ∀ v ∈ log, v.ts.Sorted
  stamps : log.Pairwise (fun a b => a.stamp ≤ b.stamp)

/-- **refinement**: the compressed store answers every as-of read exactly as the full publication log
    would: latest value stamped `≤ T`, merge order breaking ties, NaN never overriding, and a row only
    for dates published by `T`. -/
theorem read_spec (log : List Version) (h : Ordered log) (T : Option Int) :
    ∃ st, history log = some st ∧ biRead st T (-1) = specRead log T := by
  obtain ⟨st, hst, hg, he, _⟩ := history_inv log h.ne h.wf h.stamps
  exact ⟨st, hst, by rw [biRead_last st hg, specRead_eq, specRows_congr he]⟩

example : Ordered [⟨10, [(1, some 5), (2, none)]⟩, ⟨10, [(1, some 6)]⟩, ⟨12, [(2, some 7), (3, none)]⟩] :=
  ⟨by simp, by decide, by decide⟩

/-- **first read**: `what = 0` returns, per date published by `T`, the first published value - the fold of the
    publications sharing the date's first stamp (a same-stamp version merged later overrides, as for every
    read; this is the only reading under which the clause is true of the code, see docs/notes/C17.md). -/
theorem read_first (log : List Version) (h : Ordered log) (T : Option Int) :
    ∃ st, history log = some st ∧ biRead st T 0 = specFirst log T := by
  obtain ⟨st, hst, hg, he, _⟩ := history_inv log h.ne h.wf h.stamps
  refine ⟨st, hst, ?_⟩
  rw [biRead_first st hg, specFirst_eq]
  exact firstRows_congr he (fun d => (hg d).1.le)
    (fun d => (logRows_sorted log h.stamps).sublist List.filter_sublist) T

/-- the dates an as-of read returns are exactly the dates with a publication stamped `≤ T`:
    no row for dates first published after `T` -/
theorem read_dates (log : List Version) (h : Ordered log) (T : Int) (st : Store) (hst : history log = some st)
    (d : Int) :
    d ∈ (biRead st (some T) (-1)).index ↔ ∃ v ∈ log, v.stamp ≤ T ∧ d ∈ v.ts.index := by
  obtain ⟨st', hst', hr⟩ := read_spec log h (some T)
  rw [hst] at hst'; cases hst'
  rw [hr]
  simp only [specRead, TS.index, List.map_map, List.mem_map, mem_dates, List.mem_filter, logRows,
    List.mem_flatMap, Bi, decide_eq_true_eq, Function.comp]
  constructor
  · rintro ⟨_, ⟨r, ⟨⟨v, hv, p, hp, rfl⟩, hT⟩, rfl⟩, rfl⟩
    exact ⟨v, hv, hT, p, hp, rfl⟩
  · rintro ⟨v, hv, hT, p, hp, rfl⟩
    exact ⟨p.1, ⟨⟨p.1, v.stamp, p.2⟩, ⟨⟨v, hv, p, hp, rfl⟩, hT⟩, rfl⟩, rfl⟩

/-- **no look-ahead**: versions stamped later than `T` never change an as-of-`T` read -/
theorem no_lookahead (log later : List Version) (h : Ordered (log ++ later)) (hl : log ≠ []) (T : Int)
    (hT : ∀ v ∈ later, T < v.stamp) (st st' : Store)
    (hst : history log = some st) (hst' : history (log ++ later) = some st') :
    biRead st' (some T) (-1) = biRead st (some T) (-1) := by
  have h0 : Ordered log :=
    ⟨hl, fun v hv => h.wf v (List.mem_append_left _ hv), (List.pairwise_append.mp h.stamps).1⟩
  obtain ⟨s1, e1, r1⟩ := read_spec log h0 (some T)
  obtain ⟨s2, e2, r2⟩ := read_spec _ h (some T)
  rw [hst] at e1; cases e1
  rw [hst'] at e2; cases e2
  rw [r1, r2]
  have : (logRows later).filter (fun r => decide (r.stamp ≤ T)) = [] := by
    rw [List.filter_eq_nil_iff]
    intro r hr
    simp only [logRows, List.mem_flatMap, Bi, List.mem_map] at hr
    obtain ⟨v, hv, _, _, rfl⟩ := hr
    have := hT v hv
    simp only [decide_eq_true_eq]; omega
  simp only [specRead, logRows_append, List.filter_append, this, List.append_nil]

/-- two logs that agree on what was published by `T` are read alike as of `T` -/
theorem no_lookahead_logs (log₁ log₂ : List Version) (h₁ : Ordered log₁) (h₂ : Ordered log₂) (T : Int)
    (hT : (logRows log₁).filter (fun r => decide (r.stamp ≤ T)) = (logRows log₂).filter (fun r => decide (r.stamp ≤ T)))
    (st₁ st₂ : Store) (e₁ : history log₁ = some st₁) (e₂ : history log₂ = some st₂) :
    biRead st₁ (some T) (-1) = biRead st₂ (some T) (-1) := by
  obtain ⟨s1, e1, r1⟩ := read_spec log₁ h₁ (some T)
  obtain ⟨s2, e2, r2⟩ := read_spec log₂ h₂ (some T)
  rw [e₁] at e1; cases e1
  rw [e₂] at e2; cases e2
  rw [r1, r2]
  simp only [specRead, hT]

/-- the store never holds anything that was not published -/
theorem store_rows_published (log : List Version) (h : Ordered log) (st : Store) (hst : history log = some st)
    (r : Row) (hr : r ∈ st) : ∃ v ∈ log, r.stamp = v.stamp ∧ (r.date, r.val) ∈ v.ts := by
  obtain ⟨st', hst', _, _, hm⟩ := history_inv log h.ne h.wf h.stamps
  rw [hst] at hst'; cases hst'
  have := hm r hr
  simp only [logRows, List.mem_flatMap, Bi, List.mem_map] at this
  obtain ⟨v, hv, p, hp, rfl⟩ := this
  exact ⟨v, hv, rfl, hp⟩

/-! `lastVal` (the fold used by `specRead`) is determined by three equations: nothing published gives NaN,
    a later non-NaN publication overrides, a later NaN publication changes nothing. -/

theorem lastVal_nil : lastVal [] = Option.none := rfl

theorem lastVal_override (rows : Store) (r : Row) (x : Int) (h : r.val = some x) :
    lastVal (rows ++ [r]) = some x := by rw [lastVal_snoc, h]; rfl

theorem lastVal_nan_keeps (rows : Store) (r : Row) (h : r.val = Option.none) :
    lastVal (rows ++ [r]) = lastVal rows := by rw [lastVal_snoc, h]; rfl

end Pyg.Props.C17
