/-
  C17 — bitemporal store: reading as of T sees exactly what had been published by T.
  Property theorems only (helper lemmas: PygProofs/Lemmas/BitempLemmas.lean).

  `history log` is the store after `bi_merge`-ing the versions of `log` one by one from `None`;
  `specRead log T` is the fold of the FULL publication log: per date, the publications stamped `≤ T` in
  merge order, a non-NaN value overriding, a NaN changing nothing.
-/
import PygModel.Bitemp
import PygProofs.Lemmas.BitempLemmas
import PygProofs.Lemmas.BitempInv
import PygProofs.Lemmas.BitempFrames
import PygProofs.Lemmas.BitempCols
import PygProofs.Lemmas.BitempFirstS
import PygProofs.Lemmas.BitempEmb
import PygProofs.Lemmas.BitempH5

namespace Pyg.Props.C17
open Pyg Pyg.Bitemp

/- `Ordered log` (PygProofs/Lemmas/BitempLemmas.lean): the histories the property speaks about - non-empty, every version
   a proper series (strictly increasing dates), stamps non-decreasing in merge order. -/

/-- **refinement**: the compressed store answers every as-of read exactly as the full publication log
    would: latest value stamped `≤ T`, merge order breaking ties, NaN never overriding, and a row only
    for dates published by `T`. -/
theorem read_spec (log : List Version) (h : Ordered log) (T : Option Int) :
    ∃ st, history log = some st ∧ biRead st T (-1) = specRead log T := by
  obtain ⟨st, hst, hg, he, _⟩ := history_inv log h.ne h.wf h.stamps
  exact ⟨st, hst, by rw [biRead_last st hg, specRead_eq, specRows_congr he]⟩

example : Ordered [⟨10, [(1, some 5), (2, none)]⟩, ⟨10, [(1, some 6)]⟩, ⟨12, [(2, some 7), (3, none)]⟩] :=
  ⟨by simp, by decide, by decide⟩

/-- **first read**: `what = 0` returns, per date published by `T`, the first published value - the fold of the
    publications sharing the date's first stamp (a same-stamp version merged later overrides, as for every
    read; this is the only reading under which the clause is true of the code, see docs/notes/C17.md). -/
theorem read_first (log : List Version) (h : Ordered log) (T : Option Int) :
    ∃ st, history log = some st ∧ biRead st T 0 = specFirst log T := by
  obtain ⟨st, hst, hg, he, _⟩ := history_inv log h.ne h.wf h.stamps
  refine ⟨st, hst, ?_⟩
  rw [biRead_first st hg, specFirst_eq]
  exact firstRows_congr he (fun d => (hg d).1.le)
    (fun d => (logRows_sorted log h.stamps).sublist List.filter_sublist) T

/-- the dates an as-of read returns are exactly the dates with a publication stamped `≤ T`:
    no row for dates first published after `T` -/
theorem read_dates (log : List Version) (h : Ordered log) (T : Int) (st : Store) (hst : history log = some st)
    (d : Int) :
    d ∈ (biRead st (some T) (-1)).index ↔ ∃ v ∈ log, v.stamp ≤ T ∧ d ∈ v.ts.index := by
  obtain ⟨st', hst', hr⟩ := read_spec log h (some T)
  rw [hst] at hst'; cases hst'
  rw [hr]
  simp only [specRead, TS.index, List.map_map, List.mem_map, mem_dates, List.mem_filter, logRows,
    List.mem_flatMap, Bi, decide_eq_true_eq, Function.comp]
  constructor
  · rintro ⟨_, ⟨r, ⟨⟨v, hv, p, hp, rfl⟩, hT⟩, rfl⟩, rfl⟩
    exact ⟨v, hv, hT, p, hp, rfl⟩
  · rintro ⟨v, hv, hT, p, hp, rfl⟩
    exact ⟨p.1, ⟨⟨p.1, v.stamp, p.2⟩, ⟨⟨v, hv, p, hp, rfl⟩, hT⟩, rfl⟩, rfl⟩

/-- **no look-ahead**: versions stamped later than `T` never change an as-of-`T` read -/
theorem no_lookahead (log later : List Version) (h : Ordered (log ++ later)) (hl : log ≠ []) (T : Int)
    (hT : ∀ v ∈ later, T < v.stamp) (st st' : Store)
    (hst : history log = some st) (hst' : history (log ++ later) = some st') :
    biRead st' (some T) (-1) = biRead st (some T) (-1) := by
  have h0 : Ordered log :=
    ⟨hl, fun v hv => h.wf v (List.mem_append_left _ hv), (List.pairwise_append.mp h.stamps).1⟩
  obtain ⟨s1, e1, r1⟩ := read_spec log h0 (some T)
  obtain ⟨s2, e2, r2⟩ := read_spec _ h (some T)
  rw [hst] at e1; cases e1
  rw [hst'] at e2; cases e2
  rw [r1, r2]
  have : (logRows later).filter (fun r => decide (r.stamp ≤ T)) = [] := by
    rw [List.filter_eq_nil_iff]
    intro r hr
    simp only [logRows, List.mem_flatMap, Bi, List.mem_map] at hr
    obtain ⟨v, hv, _, _, rfl⟩ := hr
    have := hT v hv
    simp only [decide_eq_true_eq]; omega
  simp only [specRead, logRows_append, List.filter_append, this, List.append_nil]

/-- two logs that agree on what was published by `T` are read alike as of `T` -/
theorem no_lookahead_logs (log₁ log₂ : List Version) (h₁ : Ordered log₁) (h₂ : Ordered log₂) (T : Int)
    (hT : (logRows log₁).filter (fun r => decide (r.stamp ≤ T)) = (logRows log₂).filter (fun r => decide (r.stamp ≤ T)))
    (st₁ st₂ : Store) (e₁ : history log₁ = some st₁) (e₂ : history log₂ = some st₂) :
    biRead st₁ (some T) (-1) = biRead st₂ (some T) (-1) := by
  obtain ⟨s1, e1, r1⟩ := read_spec log₁ h₁ (some T)
  obtain ⟨s2, e2, r2⟩ := read_spec log₂ h₂ (some T)
  rw [e₁] at e1; cases e1
  rw [e₂] at e2; cases e2
  rw [r1, r2]
  simp only [specRead, hT]


/-- **no look-ahead for first reads**: versions stamped later than `T` never change an as-of-`T` read with `what = 0` either -/
theorem no_lookahead_first (log later : List Version) (h : Ordered (log ++ later)) (hl : log ≠ []) (T : Int)
    (hT : ∀ v ∈ later, T < v.stamp) (st st' : Store)
    (hst : history log = some st) (hst' : history (log ++ later) = some st') :
    biRead st' (some T) 0 = biRead st (some T) 0 := by
  have h0 : Ordered log :=
    ⟨hl, fun v hv => h.wf v (List.mem_append_left _ hv), (List.pairwise_append.mp h.stamps).1⟩
  obtain ⟨s1, e1, r1⟩ := read_first log h0 (some T)
  obtain ⟨s2, e2, r2⟩ := read_first _ h (some T)
  rw [hst] at e1; cases e1
  rw [hst'] at e2; cases e2
  rw [r1, r2]
  have : (logRows later).filter (fun r => decide (r.stamp ≤ T)) = [] := by
    rw [List.filter_eq_nil_iff]
    intro r hr
    simp only [logRows, List.mem_flatMap, Bi, List.mem_map] at hr
    obtain ⟨v, hv, _, _, rfl⟩ := hr
    have := hT v hv
    simp only [decide_eq_true_eq]; omega
  simp only [specFirst, logRows_append, List.filter_append, this, List.append_nil]

/-- two logs that agree on what was published by `T` have the same first reads as of `T` -/
theorem no_lookahead_first_logs (log₁ log₂ : List Version) (h₁ : Ordered log₁) (h₂ : Ordered log₂) (T : Int)
    (hT : (logRows log₁).filter (fun r => decide (r.stamp ≤ T)) = (logRows log₂).filter (fun r => decide (r.stamp ≤ T)))
    (st₁ st₂ : Store) (e₁ : history log₁ = some st₁) (e₂ : history log₂ = some st₂) :
    biRead st₁ (some T) 0 = biRead st₂ (some T) 0 := by
  obtain ⟨s1, e1, r1⟩ := read_first log₁ h₁ (some T)
  obtain ⟨s2, e2, r2⟩ := read_first log₂ h₂ (some T)
  rw [e₁] at e1; cases e1
  rw [e₂] at e2; cases e2
  rw [r1, r2]
  simp only [specFirst, hT]

/-- **idempotence**: merging (again) a version whose values are the values the store shows as of that version's
    stamp - NaN entries allowed, they never override - leaves every as-of read and every first read unchanged.
    This covers re-merging the version merged last, and every earlier version that no later version sharing
    its stamp has overridden (for an overridden one the clause is false of the code, see docs/notes/C17.md). -/
theorem merge_idem (log : List Version) (h : Ordered log) (st : Store) (hst : history log = some st) (w : Version)
    (hvis : ∀ p ∈ w.ts, ∃ y, (p.1, y) ∈ biRead st (some w.stamp) (-1) ∧ (p.2 = Option.none ∨ p.2 = y))
    (T : Option Int) :
    biRead (biMerge (some st) (Bi w.ts w.stamp)) T (-1) = biRead st T (-1) ∧
    biRead (biMerge (some st) (Bi w.ts w.stamp)) T 0 = biRead st T 0 := by
  obtain ⟨st', hst', hg, _, _⟩ := history_inv log h.ne h.wf h.stamps
  rw [hst] at hst'; cases hst'
  have he := remerge_specEq st hg w hvis
  have hg' := mergeFrames_good st (Bi w.ts w.stamp)
  constructor
  · show biRead (mergeFrames _) T (-1) = _
    rw [biRead_last _ hg', biRead_last _ hg, specRows_congr he]
  · show biRead (mergeFrames _) T 0 = _
    rw [biRead_first _ hg', biRead_first _ hg]
    exact firstRows_congr he (fun d => (hg' d).1.le) (fun d => (hg d).1.le) T

/-- the version merged last is always such a version: its non-NaN values are what the store shows as of its stamp -/
theorem last_version_visible (log : List Version) (w : Version) (h : Ordered (log ++ [w])) (st : Store)
    (hst : history (log ++ [w]) = some st) :
    ∀ p ∈ w.ts, ∃ y, (p.1, y) ∈ biRead st (some w.stamp) (-1) ∧ (p.2 = Option.none ∨ p.2 = y) := by
  intro p hp
  obtain ⟨st', hst', hr⟩ := read_spec _ h (some w.stamp)
  rw [hst] at hst'; cases hst'
  rw [hr, specRead_eq]
  have hrow : (⟨p.1, w.stamp, p.2⟩ : Row) ∈ group p.1 (logRows (log ++ [w])) := by
    rw [mem_group]
    refine ⟨?_, rfl⟩
    rw [logRows_append, logRows_single]
    exact List.mem_append_right _ (by simp only [Bi, List.mem_map]; exact ⟨p, hp, rfl⟩)
  refine ⟨lastVal ((group p.1 (logRows (log ++ [w]))).filter (vis (some w.stamp))), ?_, ?_⟩
  · simp only [specRows, List.mem_map, Prod.mk.injEq]
    refine ⟨p.1, ?_, rfl, rfl⟩
    rw [mem_dates]
    exact ⟨⟨p.1, w.stamp, p.2⟩, List.mem_filter.mpr ⟨(mem_group.mp hrow).1, by simp [vis]⟩, rfl⟩
  · -- the rows of `w` for this date close the visible log column; fold them last
    have hall : (group p.1 (logRows (log ++ [w]))).filter (vis (some w.stamp)) = group p.1 (logRows (log ++ [w])) := by
      rw [List.filter_eq_self]
      intro r hr
      have hsorted := logRows_sorted _ h.stamps
      rw [logRows_append, logRows_single] at hsorted hr
      have hr' := (mem_group.mp hr).1
      simp only [vis, decide_eq_true_eq]
      rcases List.mem_append.mp hr' with h1 | h1
      · exact (List.pairwise_append.mp hsorted).2.2 r h1 ⟨p.1, w.stamp, p.2⟩ (by simp only [Bi, List.mem_map]; exact ⟨p, hp, rfl⟩)
      · simp only [Bi, List.mem_map] at h1; obtain ⟨_, _, rfl⟩ := h1; exact Int.le_refl _
    rw [hall, logRows_append, logRows_single, group_append]
    have hsingle : group p.1 (Bi w.ts w.stamp) = [⟨p.1, w.stamp, p.2⟩] := by
      have hgd := (good_Bi w.ts w.stamp (h.wf w (by simp)) p.1).1
      have hm : (⟨p.1, w.stamp, p.2⟩ : Row) ∈ group p.1 (Bi w.ts w.stamp) :=
        mem_group.mpr ⟨by simp only [Bi, List.mem_map]; exact ⟨p, hp, rfl⟩, rfl⟩
      match hgrp : group p.1 (Bi w.ts w.stamp), hgd, hm with
      | [], _, hm => simp at hm
      | [a], _, hm => simp only [List.mem_singleton] at hm; rw [hm]
      | a :: b :: rest, hgd, _ =>
        exfalso
        have hab := List.rel_of_pairwise_cons hgd (List.mem_cons_self (a := b) (l := rest))
        have ha : a ∈ group p.1 (Bi w.ts w.stamp) := by rw [hgrp]; simp
        have hb : b ∈ group p.1 (Bi w.ts w.stamp) := by rw [hgrp]; simp
        have e1 : a.stamp = w.stamp := by
          have := (mem_group.mp ha).1; simp only [Bi, List.mem_map] at this; obtain ⟨_, _, rfl⟩ := this; rfl
        have e2 : b.stamp = w.stamp := by
          have := (mem_group.mp hb).1; simp only [Bi, List.mem_map] at this; obtain ⟨_, _, rfl⟩ := this; rfl
        omega
    rw [hsingle, lastVal_snoc]
    cases hv : p.2 with
    | none => exact Or.inl rfl
    | some x => right; simp

/-- **batches**: `bi_merge` also takes a LIST of new versions in one call.  However a stamp-ordered history is cut
    into such calls, the store answers as-of reads and first reads as the full publication log does. -/
theorem read_spec_batches (batches : List (List Version)) (h : Ordered batches.flatten) (T : Option Int) :
    ∃ st, historyL batches = some st ∧ biRead st T (-1) = specRead batches.flatten T ∧
      biRead st T 0 = specFirst batches.flatten T := by
  obtain ⟨st, hst, hg, he, _⟩ := historyL_inv batches h.ne h.wf h.stamps
  refine ⟨st, hst, by rw [biRead_last st hg, specRead_eq, specRows_congr he], ?_⟩
  rw [biRead_first st hg, specFirst_eq]
  exact firstRows_congr he (fun d => (hg d).1.le)
    (fun d => (logRows_sorted _ h.stamps).sublist List.filter_sublist) T

/-- merging one version at a time is the special case of one-element batches -/
theorem history_eq_batches (log : List Version) : history log = historyL (log.map fun v => [v]) := by
  unfold history historyL
  rw [List.foldl_map]
  congr 1
  funext st v
  cases st <;> rfl

/-- the store never holds anything that was not published -/
theorem store_rows_published (log : List Version) (h : Ordered log) (st : Store) (hst : history log = some st)
    (r : Row) (hr : r ∈ st) : ∃ v ∈ log, r.stamp = v.stamp ∧ (r.date, r.val) ∈ v.ts := by
  obtain ⟨st', hst', _, _, hm⟩ := history_inv log h.ne h.wf h.stamps
  rw [hst] at hst'; cases hst'
  have := hm r hr
  simp only [logRows, List.mem_flatMap, Bi, List.mem_map] at this
  obtain ⟨v, hv, p, hp, rfl⟩ := this
  exact ⟨v, hv, rfl, hp⟩


/-! ### the clauses as they are written (review r5): first value published, re-merging a stored version -/

/-- **first read, exact**: `bi_read(what=0)` is the first value published per date (the clause as written) exactly when, for
    every date, the publications sharing the date's first stamp fold to the first of them. -/
theorem read_first_literal_iff (log : List Version) (h : Ordered log) (T : Option Int) :
    ∃ st, history log = some st ∧
      (biRead st T 0 = specFirstLiteral log T ↔
        ∀ d ∈ dates (pubs log T), firstVal (group d (pubs log T)) = (group d (pubs log T)).head?.bind (·.val)) := by
  obtain ⟨st, hst, hr⟩ := read_first log h T
  refine ⟨st, hst, ?_⟩
  rw [hr, specFirst_eq_pubs, specFirstLiteral_eq, List.map_inj_left]
  constructor
  · intro hh d hd; exact (Prod.mk.inj (hh d hd)).2
  · intro hh d hd; rw [hh d hd]

/-- **first read, literal**: if no date has two publications (visible as of `T`) with the same stamp - in particular if all
    stamps of the history are distinct - `bi_read(what=0)` returns the first value published per date. -/
theorem read_first_literal (log : List Version) (h : Ordered log) (T : Option Int)
    (hd : ∀ d, ((group d (pubs log T)).map (·.stamp)).Nodup) :
    ∃ st, history log = some st ∧ biRead st T 0 = specFirstLiteral log T := by
  obtain ⟨st, hst, hiff⟩ := read_first_literal_iff log h T
  refine ⟨st, hst, hiff.2 ?_⟩
  intro d _
  have := hd d
  match hg : group d (pubs log T), this with
  | [], _ => rfl
  | r :: rest, hn =>
    have hf : (r :: rest).filter (·.stamp == r.stamp) = [r] := by
      simp only [List.filter_cons, beq_self_eq_true, if_true, List.cons.injEq, true_and]
      rw [List.filter_eq_nil_iff]
      intro x hx
      simp only [List.map_cons, List.nodup_cons, List.mem_map, not_exists, not_and] at hn
      have := hn.1 x hx
      simp only [beq_iff_eq]; exact this
    simp [firstVal, hf, lastVal]

/-- it is enough that the stamps of the versions are pairwise distinct -/
theorem read_first_literal_distinct (log : List Version) (h : Ordered log) (T : Option Int)
    (hs : log.Pairwise (fun a b => a.stamp ≠ b.stamp)) :
    ∃ st, history log = some st ∧ biRead st T 0 = specFirstLiteral log T := by
  apply read_first_literal log h T
  intro d
  have hsub : (group d (pubs log T)).Sublist (group d (logRows log)) :=
    List.Sublist.filter _ List.filter_sublist
  refine List.Nodup.sublist (hsub.map _) ?_
  -- per date, each version contributes at most one row
  have hg := fun v (hv : v ∈ log) => (good_Bi v.ts v.stamp (h.wf v hv) d).1
  clear hsub
  induction log with
  | nil => simp [logRows, group]
  | cons v rest ih =>
    have e : logRows (v :: rest) = Bi v.ts v.stamp ++ logRows rest := by simp [logRows]
    rw [e, group_append, List.map_append]
    have hrest : Ordered rest ∨ rest = [] := by
      by_cases hr : rest = []
      · exact Or.inr hr
      · exact Or.inl ⟨hr, fun w hw => h.wf w (by simp [hw]), (List.pairwise_cons.mp h.stamps).2⟩
    have hv1 : ∀ r ∈ group d (Bi v.ts v.stamp), r.stamp = v.stamp := by
      intro r hr
      have := (mem_group.mp hr).1
      simp only [Bi, List.mem_map] at this
      obtain ⟨_, _, rfl⟩ := this; rfl
    have h1 : ((group d (Bi v.ts v.stamp)).map (·.stamp)).Nodup := by
      have := hg v (by simp)
      exact (List.Pairwise.map _ (fun a b (hab : a.stamp < b.stamp) => (by omega : a.stamp ≠ b.stamp)) this)
    have h2 : ((group d (logRows rest)).map (·.stamp)).Nodup := by
      rcases hrest with hr | hr
      · exact ih hr (List.pairwise_cons.mp hs).2 (fun w hw => hg w (by simp [hw]))
      · subst hr; simp [logRows, group]
    refine List.nodup_append.mpr ⟨h1, h2, ?_⟩
    intro a ha b hb
    simp only [List.mem_map] at ha hb
    obtain ⟨ra, hra, rfl⟩ := ha
    obtain ⟨rb, hrb, rfl⟩ := hb
    rw [hv1 ra hra]
    have := (mem_group.mp hrb).1
    simp only [logRows, List.mem_flatMap, Bi, List.mem_map] at this
    obtain ⟨w, hw, _, _, rfl⟩ := this
    exact (List.pairwise_cons.mp hs).1 w hw

/-- two versions with one stamp: `5` then `6` for the same date -/
def sameStamp : List Version := [⟨10, [(1, some 5)]⟩, ⟨10, [(1, some 6)]⟩]

theorem sameStamp_ordered : Ordered sameStamp := ⟨by simp [sameStamp], by decide, by decide⟩

/-- **known finding C17-K1 (witness)**: the clause "what=0 returns the first value published per date" is false of the model (and
    of the code, `law-read-first-literal`) when a second version shares the first stamp: `5@10` then `6@10` is read as `6`. -/
theorem read_first_literal_fails :
    ∃ log, Ordered log ∧ ∃ st, history log = some st ∧ biRead st Option.none 0 ≠ specFirstLiteral log Option.none ∧
      (1, some 6) ∈ biRead st Option.none 0 ∧ (1, some 5) ∈ specFirstLiteral log Option.none := by
  obtain ⟨st, hst, hr⟩ := read_first sameStamp sameStamp_ordered Option.none
  have hp : pubs sameStamp Option.none = [⟨1, 10, some 5⟩, ⟨1, 10, some 6⟩] := by
    simp [pubs, sameStamp, logRows, Bi, filter_vis_none]
  have hd : (1 : Int) ∈ dates (pubs sameStamp Option.none) := by
    rw [hp, mem_dates]; exact ⟨⟨1, 10, some 5⟩, by simp, rfl⟩
  have h6 : (1, some 6) ∈ biRead st Option.none 0 := by
    rw [hr, specFirst_eq_pubs, List.mem_map]
    exact ⟨1, hd, by rw [hp]; decide⟩
  have h5 : (1, some 5) ∈ specFirstLiteral sameStamp Option.none := by
    rw [specFirstLiteral_eq, List.mem_map]
    exact ⟨1, hd, by rw [hp]; decide⟩
  refine ⟨sameStamp, sameStamp_ordered, st, hst, ?_, h6, h5⟩
  intro he
  rw [he, specFirstLiteral_eq, List.mem_map] at h6
  obtain ⟨d, _, hd6⟩ := h6
  rw [hp] at hd6
  have hd1 : d = 1 := (Prod.mk.inj hd6).1
  subst hd1
  revert hd6; decide

/-- **idempotence, as written**: merging a version that is already in the store - every row of it (date, stamp, value) is a
    row of the store - leaves every as-of read and every first read unchanged. -/
theorem merge_idem_rows (log : List Version) (h : Ordered log) (st : Store) (hst : history log = some st) (w : Version)
    (hin : ∀ p ∈ w.ts, (⟨p.1, w.stamp, p.2⟩ : Row) ∈ st) (T : Option Int) :
    biRead (biMerge (some st) (Bi w.ts w.stamp)) T (-1) = biRead st T (-1) ∧
    biRead (biMerge (some st) (Bi w.ts w.stamp)) T 0 = biRead st T 0 := by
  obtain ⟨st', hst', hg, _, _⟩ := history_inv log h.ne h.wf h.stamps
  rw [hst] at hst'; cases hst'
  exact merge_idem log h st hst w (rows_in_store_visible st hg w hin) T

/-- a version merged earlier whose rows a same-stamp successor has replaced is NOT "in the store": merging it again makes it the
    version merged last among those sharing its stamp, and the first clause of the property ("of several sharing a stamp the one
    merged last") then demands the read to change.  Witness: `5@10`, `6@10`, again `5@10` - the log fold and the store both read
    `5`, before the re-merge both read `6`.  So "already in the store" cannot mean "merged before". -/
theorem remerge_overridden_changes_read :
    ∃ log w, Ordered log ∧ w ∈ log ∧ Ordered (log ++ [w]) ∧ ∃ st, history log = some st ∧
      ¬ (∀ p ∈ w.ts, (⟨p.1, w.stamp, p.2⟩ : Row) ∈ st) ∧
      specRead (log ++ [w]) (some w.stamp) ≠ specRead log (some w.stamp) ∧
      biRead (biMerge (some st) (Bi w.ts w.stamp)) (some w.stamp) (-1) ≠ biRead st (some w.stamp) (-1) := by
  have ho : Ordered (sameStamp ++ [⟨10, [(1, some 5)]⟩]) := ⟨by simp [sameStamp], by decide, by decide⟩
  obtain ⟨st, hst, hr⟩ := read_spec sameStamp sameStamp_ordered (some 10)
  obtain ⟨st', hst', hr'⟩ := read_spec _ ho (some 10)
  have hst'' : st' = biMerge (some st) (Bi [(1, some 5)] 10) := by
    have : history (sameStamp ++ [⟨10, [(1, some 5)]⟩]) = some (biMerge (history sameStamp) (Bi [(1, some 5)] 10)) := by
      simp [history, List.foldl_append]
    rw [hst] at this; rw [this] at hst'; exact (Option.some.inj hst').symm
  have hp : (logRows sameStamp).filter (fun r => decide (r.stamp ≤ 10)) = [⟨1, 10, some 5⟩, ⟨1, 10, some 6⟩] := by
    simp [sameStamp, logRows, Bi]
  have hp' : (logRows (sameStamp ++ [⟨10, [(1, some 5)]⟩])).filter (fun r => decide (r.stamp ≤ 10)) =
      [⟨1, 10, some 5⟩, ⟨1, 10, some 6⟩, ⟨1, 10, some 5⟩] := by
    simp [sameStamp, logRows, Bi]
  have h5 : (1, some 5) ∈ specRead (sameStamp ++ [⟨10, [(1, some 5)]⟩]) (some 10) := by
    simp only [specRead, hp', List.mem_map]
    exact ⟨1, mem_dates.mpr ⟨⟨1, 10, some 5⟩, by simp, rfl⟩, by decide⟩
  have h5' : (1, some 5) ∉ specRead sameStamp (some 10) := by
    simp only [specRead, hp, List.mem_map, not_exists, not_and]
    intro d _ hd
    have hd1 : d = 1 := (Prod.mk.inj hd).1
    subst hd1
    revert hd; decide
  have hne : specRead (sameStamp ++ [⟨10, [(1, some 5)]⟩]) (some 10) ≠ specRead sameStamp (some 10) := by
    intro he; rw [he] at h5; exact h5' h5
  refine ⟨sameStamp, ⟨10, [(1, some 5)]⟩, sameStamp_ordered, by simp [sameStamp], ho, st, hst, ?_, hne, ?_⟩
  · intro hall
    -- a store holding the row (1, 10, 5) would show 5 as of 10 (`rows_in_store_visible`), but it shows 6
    obtain ⟨st2, hst2, hg, _, _⟩ := history_inv sameStamp sameStamp_ordered.ne sameStamp_ordered.wf sameStamp_ordered.stamps
    rw [hst] at hst2; cases hst2
    obtain ⟨y, hy, hy'⟩ := rows_in_store_visible st hg ⟨10, [(1, some 5)]⟩ hall (1, some 5) (by simp)
    rcases hy' with hy' | hy'
    · cases hy'
    · rw [← hy', hr] at hy; exact h5' hy
  · rw [← hst'', hr', hr]; exact hne

/-! ### what an as-of read returns, said without the fold (review r5): the value of the version merged last among those stamped
    `≤ T` that publish a non-NaN value for the date -/

/-- **as-of value, declaratively**: the as-of-`T` read shows `x` for date `d` iff some version stamped `≤ T` publishes `x` for
    `d` and no version merged after it and stamped `≤ T` publishes a non-NaN value for `d` - "the latest value published with
    stamp `≤ T`, of several sharing a stamp the one merged last, a NaN never overrides", with no fold in the statement. -/
theorem read_value (log : List Version) (h : Ordered log) (T : Int) (st : Store) (hst : history log = some st)
    (d x : Int) :
    (d, some x) ∈ biRead st (some T) (-1) ↔
      ∃ before v after, log = before ++ v :: after ∧ v.stamp ≤ T ∧ (d, some x) ∈ v.ts ∧
        ∀ u ∈ after, u.stamp ≤ T → ∀ y, (d, some y) ∉ u.ts := by
  obtain ⟨st', hst', hr⟩ := read_spec log h (some T)
  rw [hst] at hst'; cases hst'
  rw [hr, ← lastVal_col_some d T x log h.wf]
  simp only [specRead, List.mem_map, Prod.mk.injEq]
  constructor
  · rintro ⟨d', _, rfl, hv⟩; exact hv
  · intro hv
    refine ⟨d, ?_, rfl, hv⟩
    obtain ⟨r, hr, _⟩ := lastVal_some_mem hv
    exact mem_dates.mpr ⟨r, (mem_group.mp hr).1, (mem_group.mp hr).2⟩

/-- the same with positions: version `i` publishes `x`, no version `j > i` stamped `≤ T` publishes a non-NaN value -/
theorem read_value_idx (log : List Version) (h : Ordered log) (T : Int) (st : Store) (hst : history log = some st)
    (d x : Int) :
    (d, some x) ∈ biRead st (some T) (-1) ↔
      ∃ i, ∃ hi : i < log.length, log[i].stamp ≤ T ∧ (d, some x) ∈ log[i].ts ∧
        ∀ j, ∀ hj : j < log.length, i < j → log[j].stamp ≤ T → ∀ y, (d, some y) ∉ log[j].ts := by
  rw [read_value log h T st hst]
  constructor
  · rintro ⟨before, v, after, rfl, h1, h2, h3⟩
    refine ⟨before.length, by simp, by simpa using h1, by simpa using h2, ?_⟩
    intro j hj hij hjT y
    have hmem : (before ++ v :: after)[j] ∈ after := by
      have hd : (before ++ v :: after).drop (before.length + 1) = after := by simp
      have := List.mem_drop_iff_getElem (l := before ++ v :: after) (i := before.length + 1)
        (a := (before ++ v :: after)[j]) |>.mpr ⟨j - (before.length + 1), by omega, by congr 1; omega⟩
      rwa [hd] at this
    exact h3 _ hmem hjT y
  · rintro ⟨i, hi, h1, h2, h3⟩
    refine ⟨log.take i, log[i], log.drop (i + 1), ?_, h1, h2, ?_⟩
    · rw [List.getElem_cons_drop, List.take_append_drop]
    · intro u hu huT y
      obtain ⟨k, hk, rfl⟩ := List.mem_iff_getElem.mp hu
      simp only [List.length_drop] at hk
      rw [List.getElem_drop] at huT ⊢
      exact h3 (i + 1 + k) (by omega) (by omega) huT y

/-- **NaN row, declaratively**: the as-of-`T` read shows NaN for date `d` iff `d` was published by `T` and every publication of
    `d` stamped `≤ T` is NaN -/
theorem read_nan (log : List Version) (h : Ordered log) (T : Int) (st : Store) (hst : history log = some st) (d : Int) :
    (d, Option.none) ∈ biRead st (some T) (-1) ↔
      (∃ v ∈ log, v.stamp ≤ T ∧ d ∈ v.ts.index) ∧ ∀ v ∈ log, v.stamp ≤ T → ∀ y, (d, some y) ∉ v.ts := by
  obtain ⟨st', hst', hr⟩ := read_spec log h (some T)
  rw [hst] at hst'; cases hst'
  rw [← read_dates log h T st hst d, hr]
  simp only [specRead, TS.index, List.mem_map, Prod.mk.injEq, List.map_map, Function.comp]
  have hcol : ∀ d', group d' (List.filter (fun r => decide (r.stamp ≤ T)) (logRows log)) = col d' T log := fun _ => rfl
  constructor
  · rintro ⟨d', hd', rfl, hv⟩
    refine ⟨⟨d', hd', rfl⟩, ?_⟩
    intro v hv' hvT y hy
    rw [hcol, lastVal_eq_none_iff] at hv
    have := hv ⟨d', v.stamp, some y⟩ (mem_col.mpr ⟨v, hv', hvT, rfl, rfl, hy⟩)
    simp at this
  · rintro ⟨⟨d', hd', rfl⟩, hall⟩
    refine ⟨d', hd', rfl, ?_⟩
    rw [hcol, lastVal_eq_none_iff]
    intro r hr
    obtain ⟨w, hw, hwT, _, _, hp⟩ := mem_col.mp hr
    cases hv : r.val with
    | none => rfl
    | some y => rw [hv] at hp; exact absurd hp (hall w hw hwT y)

/-! ### histories as the code runs them: `bi_merge` of two empty frames raises (review r5: `history` is total) -/

/-- **when a history returns**: `historyE` is an error exactly for a history whose first two versions are both empty (the second
    `bi_merge` call concatenates no group); every other history returns the store `history` describes. -/
theorem historyE_eq (log : List Version) :
    historyE log = if 2 ≤ log.length ∧ ∀ v ∈ log.take 2, v.ts = [] then .error .value else .ok (history log) := by
  match log with
  | [] => rfl
  | [v] => simp [historyE, mergeStepE, biMergeE, history, biMerge]
  | v1 :: v2 :: rest =>
    by_cases hboth : v1.ts = [] ∧ v2.ts = []
    · have hcond : 2 ≤ (v1 :: v2 :: rest).length ∧ ∀ v ∈ (v1 :: v2 :: rest).take 2, v.ts = [] := by
        refine ⟨by simp, ?_⟩
        intro v hv
        simp only [List.take_succ_cons, List.take_zero, List.mem_cons, List.not_mem_nil, or_false] at hv
        rcases hv with rfl | rfl
        · exact hboth.1
        · exact hboth.2
      rw [if_pos hcond]
      have e : mergeStepE (mergeStepE (.ok Option.none) v1) v2 = .error .value := by
        simp [mergeStepE, biMergeE, Bi, hboth.1, hboth.2]
      have herr : ∀ l : List Version, l.foldl mergeStepE (.error .value) = .error .value := by
        intro l; induction l with
        | nil => rfl
        | cons a l ih => simpa [List.foldl_cons, mergeStepE] using ih
      simp only [historyE, List.foldl_cons, e, herr]
    · have hcond : ¬ (2 ≤ (v1 :: v2 :: rest).length ∧ ∀ v ∈ (v1 :: v2 :: rest).take 2, v.ts = []) := by
        rintro ⟨_, hall⟩
        exact hboth ⟨hall v1 (by simp), hall v2 (by simp)⟩
      rw [if_neg hcond]
      have hne : Bi v1.ts v1.stamp ++ Bi v2.ts v2.stamp ≠ [] := by
        intro he
        simp only [List.append_eq_nil_iff, Bi, List.map_eq_nil_iff] at he
        exact hboth he
      have e : mergeStepE (mergeStepE (.ok Option.none) v1) v2 =
          .ok (some (mergeFrames [Bi v1.ts v1.stamp, Bi v2.ts v2.stamp])) := by
        simp only [mergeStepE, biMergeE, biMerge]
        rw [if_neg (by simpa [List.isEmpty_iff] using hne)]
      have := (historyE_foldl_ok rest _ (mergeFrames_ne_nil _ _ hne)).1
      simp only [historyE, history_eq, List.foldl_cons, e, this]
      rfl

/-- **refinement for the histories that return**: for every `Ordered` log whose first two versions are not both empty the code's
    history returns a store, and that store answers as-of reads and first reads as the publication log does. -/
theorem read_spec_returns (log : List Version) (h : Ordered log) (hne : log.length < 2 ∨ ∃ v ∈ log.take 2, v.ts ≠ [])
    (T : Option Int) :
    ∃ st, historyE log = .ok (some st) ∧ biRead st T (-1) = specRead log T ∧ biRead st T 0 = specFirst log T := by
  obtain ⟨st, hst, hr⟩ := read_spec log h T
  obtain ⟨st', hst', hr'⟩ := read_first log h T
  rw [hst] at hst'; cases hst'
  refine ⟨st, ?_, hr, hr'⟩
  rw [historyE_eq, if_neg, hst]
  rintro ⟨h2, hall⟩
  rcases hne with hlt | ⟨v, hv, hvne⟩
  · omega
  · exact hvne (hall v hv)

/-- ... and the other `Ordered` histories raise: the theorems about `history` do not speak about them -/
theorem historyE_raises (log : List Version) (h2 : 2 ≤ log.length) (hall : ∀ v ∈ log.take 2, v.ts = []) :
    historyE log = .error .value := by
  rw [historyE_eq, if_pos ⟨h2, hall⟩]

example : Ordered [⟨10, []⟩, ⟨11, []⟩] ∧ historyE [⟨10, []⟩, ⟨11, []⟩] = .error .value :=
  ⟨⟨by simp, by decide, by decide⟩, historyE_raises _ (by simp) (by simp)⟩

/-! `lastVal` (the fold used by `specRead`) is determined by three equations: nothing published gives NaN,
    a later non-NaN publication overrides, a later NaN publication changes nothing. -/

theorem lastVal_nil : lastVal [] = Option.none := rfl

theorem lastVal_override (rows : Store) (r : Row) (x : Int) (h : r.val = some x) :
    lastVal (rows ++ [r]) = some x := by rw [lastVal_snoc, h]; rfl

theorem lastVal_nan_keeps (rows : Store) (r : Row) (h : r.val = Option.none) :
    lastVal (rows ++ [r]) = lastVal rows := by rw [lastVal_snoc, h]; rfl

/-! ### evaluation tests (`List.mergeSort` does not reduce in the kernel, so these are `#guard`s):
    the hypotheses of the theorems above are met by non-trivial histories and the conclusions are not vacuous -/

/-- same-stamp override, NaN that must not override, a revert, a date that appears late -/
def demo : List Version :=
  [⟨10, [(1, some 5), (2, none), (3, some 1)]⟩, ⟨10, [(1, some 6), (2, none)]⟩,
   ⟨12, [(1, none), (2, some 7), (3, some 2), (4, none)]⟩, ⟨12, [(3, some 1)]⟩]

#guard (history demo).map (fun st => biRead st (some 9) (-1)) == some []
#guard (history demo).map (fun st => biRead st (some 10) (-1)) == some [(1, some 6), (2, none), (3, some 1)]
#guard (history demo).map (fun st => biRead st (some 11) (-1)) == some (specRead demo (some 11))
#guard (history demo).map (fun st => biRead st Option.none (-1)) == some [(1, some 6), (2, some 7), (3, some 1), (4, none)]
#guard (history demo).map (fun st => biRead st Option.none 0) == some [(1, some 6), (2, none), (3, some 1), (4, none)]
#guard (history demo).map (fun st => biRead st Option.none 0) == some (specFirst demo Option.none)
-- the hypothesis of `merge_idem` holds for the last version and for the (not overridden) second one ...
#guard (history demo).map (fun st => [demo[3]!, demo[1]!].all fun w => w.ts.all fun p =>
    (biRead st (some w.stamp) (-1)).any fun q => q.1 == p.1 && (p.2 == Option.none || p.2 == q.2)) == some true
-- ... and fails for the first version, which the second one (same stamp) has overridden: re-merging it changes a read
#guard (history demo).map (fun st => demo[0]!.ts.all fun p =>
    (biRead st (some 10) (-1)).any fun q => q.1 == p.1 && (p.2 == Option.none || p.2 == q.2)) == some false
#guard (history demo).map (fun st => biRead (biMerge (some st) (Bi demo[0]!.ts 10)) (some 10) (-1)) ==
    some [(1, some 5), (2, none), (3, some 1)]

-- no look-ahead is a statement about `what = -1` (`no_lookahead`) and `what = 0` (`no_lookahead_first`) only.  For the other
-- selectors it is false of the store design: a revert merged under the stamp of the version it reverts (`6@12` then `5@12` after
-- `5@11`) leaves the row (12, 5) that repeats its predecessor; the NEXT merge - whatever its stamp - drops it (`_drop_repeats`
-- line 148-152), so "the one before last as of 12" (`what = -2`) changes from 5 to 3 when a version stamped 14 arrives.  The
-- statement of C17 names `bi_read(store, asof=T)` and `what=0` only; the implementation agrees with the model on these lines.
def revertDemo : List Version := [⟨10, [(1, some 3)]⟩, ⟨11, [(1, some 5)]⟩, ⟨12, [(1, some 6)]⟩, ⟨12, [(1, some 5)]⟩]
#guard (history revertDemo).map (fun st => biRead st (some 13) (-2)) == some [(1, some 5)]
#guard (history (revertDemo ++ [⟨14, [(1, some 9)]⟩])).map (fun st => biRead st (some 13) (-2)) == some [(1, some 3)]
#guard (history (revertDemo ++ [⟨14, [(1, some 9)]⟩])).map (fun st => (biRead st (some 13) (-1), biRead st (some 13) 0)) ==
    (history revertDemo).map (fun st => (biRead st (some 13) (-1), biRead st (some 13) 0))

-- the same history handed over in batches (one call with two versions, an empty call, one call with two more)
#guard (historyL [[demo[0]!, demo[1]!], [], [demo[2]!, demo[3]!]]).map (fun st => biRead st Option.none (-1)) ==
    some (specRead demo Option.none)
#guard (historyL [demo]).map (fun st => biRead st (some 10) 0) == some (specFirst demo (some 10))


/-! ## g4: the state-machine view.  The concrete state is the stored frame, the abstract state the list of all published rows in
    merge order; `bi_store_invariant` is the shape every merge leaves, `Refines` the abstraction relation; `refines_init`,
    `refines_merge`, `refines_read` are the three obligations of a refinement proof, and the history theorems are their fold. -/

/-- **the store invariant**: per observation date the stored rows are strictly increasing in stamp - stamps in order and ONE row
    per (date, stamp) - and NaN rows come first (once a value has been published for a date no later row of the date is NaN).
    ("No two consecutive equal values" is NOT part of it: it is false of the store, `no_consecutive_repeats_fails`.) -/
structure bi_store_invariant (st : Store) : Prop where
  stamps_increasing : ∀ d, (group d st).Pairwise (fun a b => a.stamp < b.stamp)
  nan_first : ∀ d, (group d st).Pairwise (fun a b => b.val = Option.none → a.val = Option.none)

theorem bi_store_invariant_iff_good (st : Store) : bi_store_invariant st ↔ Good st :=
  ⟨fun h d => ⟨h.1 d, h.2 d⟩, fun h => ⟨fun d => (h d).1, fun d => (h d).2⟩⟩

/-- one row per (date, stamp) -/
theorem invariant_one_row_per_date_stamp (st : Store) (h : bi_store_invariant st) (a b : Row) (ha : a ∈ st) (hb : b ∈ st)
    (hd : a.date = b.date) (hs : a.stamp = b.stamp) : a = b := by
  have hp := h.stamps_increasing a.date
  have ha' : a ∈ group a.date st := mem_group.mpr ⟨ha, rfl⟩
  have hb' : b ∈ group a.date st := mem_group.mpr ⟨hb, hd.symm⟩
  generalize group a.date st = l at hp ha' hb'
  obtain ⟨i, hi, ei⟩ := List.mem_iff_getElem.mp ha'
  obtain ⟨j, hj, ej⟩ := List.mem_iff_getElem.mp hb'
  rw [List.pairwise_iff_getElem] at hp
  rcases Nat.lt_trichotomy i j with hij | hij | hij
  · have := hp i j hi hj hij; rw [ei, ej] at this; omega
  · subst hij; rw [← ei, ← ej]
  · have := hp j i hj hi hij; rw [ei, ej] at this; omega

/-- stamps non-decreasing per date (the weak form the read uses) -/
theorem invariant_stamps_nondecreasing (st : Store) (h : bi_store_invariant st) (d : Int) :
    (group d st).Pairwise (fun a b => a.stamp ≤ b.stamp) :=
  (h.stamps_increasing d).imp (by intro a b hab; omega)

/-- **init**: a frame with one row per date (`Bi` of a series, with a date, a bump or `'shift'`) has the invariant -/
theorem invariant_init (f : Store) (h : (f.map (·.date)).Nodup) : bi_store_invariant f :=
  (bi_store_invariant_iff_good f).mpr (good_of_nodup f h)

/-- **every merge establishes the invariant** - whatever the two frames are, in whatever stamp order -/
theorem invariant_merge (old new : Store) : bi_store_invariant (biMerge (some old) new) :=
  (bi_store_invariant_iff_good _).mpr (mergeFrames_good old new)

/-- **the invariant is sufficient for the reads**: a store with the invariant answers the default read, the first read and
    `what='last'` as the fold of its OWN visible rows - no reference to how it was built -/
theorem invariant_read (st : Store) (h : bi_store_invariant st) (T : Option Int) :
    biRead st T (-1) = specReadR st T ∧ biRead st T 0 = specFirstR st T ∧ biReadS st T .last = specReadR st T := by
  have hg := (bi_store_invariant_iff_good st).mp h
  refine ⟨by rw [biRead_last st hg, specReadR_eq], ?_, by rw [biReadS_last st (fun d => (hg d).1.le), specReadR_eq]⟩
  rw [biRead_first st hg, specFirstR_eq]

/-- the abstraction relation: the store has the invariant, holds published rows only, and per date every as-of cut of the store
    folds to what the same cut of the publication log folds to; the log is in stamp order per date -/
def Refines (st rows : Store) : Prop := Inv st rows ∧ ∀ d, SortedLe (group d rows)

/-- **refinement, init**: the first frame is returned as it is (`bi_merge(None, new)`) and refines itself -/
theorem refines_init (f : Store) (h : bi_store_invariant f) : Refines f f :=
  ⟨⟨(bi_store_invariant_iff_good f).mp h, SpecEq.refl _, fun _ hr => hr⟩,
   fun d => ((bi_store_invariant_iff_good f).mp h d).1.le⟩

/-- **refinement, step**: merging a frame whose rows are, per date, stamped no earlier than what was published for that date
    before (and in stamp order among themselves) corresponds to appending its rows to the log -/
theorem refines_merge (st rows new : Store) (h : Refines st rows)
    (hs : ∀ d, (group d (rows ++ new)).Pairwise (fun a b => a.stamp ≤ b.stamp)) :
    Refines (biMerge (some st) new) (rows ++ new) :=
  ⟨inv_merge_cols h.1 hs, hs⟩

/-- **refinement, observation**: a store that refines a log reads as the log folds, and has the invariant -/
theorem refines_read (st rows : Store) (h : Refines st rows) (T : Option Int) :
    bi_store_invariant st ∧ biRead st T (-1) = specReadR rows T ∧ biRead st T 0 = specFirstR rows T ∧
      biReadS st T .last = specReadR rows T := by
  obtain ⟨⟨hg, he, _⟩, hr⟩ := h
  have hi := (bi_store_invariant_iff_good st).mpr hg
  obtain ⟨r1, r2, r3⟩ := invariant_read st hi T
  refine ⟨hi, ?_, ?_, ?_⟩
  · rw [r1, specReadR_eq, specReadR_eq, specRows_congr he]
  · rw [r2, specFirstR_eq, specFirstR_eq]
    exact firstRows_congr he (fun d => (hg d).1.le) hr T
  · rw [r3, specReadR_eq, specReadR_eq, specRows_congr he]

/-- a history of stamped frames the (widened) property speaks about: non-empty, the first frame has one row per date, and per
    date the stamps are non-decreasing in merge order.  Later frames may hold a date twice (read as two publications). -/
structure OrderedF (fs : List Store) : Prop where
  ne : fs ≠ []
  first : ∀ f ∈ fs.head?, (f.map (·.date)).Nodup
  cols : ∀ d, (group d fs.flatten).Pairwise (fun a b => a.stamp ≤ b.stamp)

/-- the fold of the three obligations over a history -/
theorem refines_history (fs : List Store) (h : OrderedF fs) : ∃ st, historyF fs = some st ∧ Refines st fs.flatten := by
  match fs, h with
  | [], h => exact absurd rfl h.ne
  | f :: rest, h =>
    have h0 := refines_init f (invariant_init f (h.first f (by simp)))
    have key : ∀ (rest : List Store) (st rows : Store), Refines st rows →
        (∀ d, SortedLe (group d (rows ++ rest.flatten))) →
        ∃ st', rest.foldl (fun st f => some (biMerge st f)) (some st) = some st' ∧ Refines st' (rows ++ rest.flatten) := by
      intro rest
      induction rest with
      | nil => intro st rows hr _; exact ⟨st, rfl, by simpa using hr⟩
      | cons g rest ih =>
        intro st rows hr hs
        have e : rows ++ (g :: rest).flatten = (rows ++ g) ++ rest.flatten := by simp
        rw [e] at hs ⊢
        have hs1 : ∀ d, SortedLe (group d (rows ++ g)) := by
          intro d
          have := hs d
          rw [group_append] at this
          exact (List.pairwise_append.mp this).1
        exact ih _ _ (refines_merge st rows g hr hs1) hs
    have := key rest f f h0 (fun d => by have := h.cols d; simp only [List.flatten_cons] at this; exact this)
    simpa [historyF, List.foldl_cons, biMerge] using this

/-- **refinement for stamped frames**: whatever stamps the rows of the versions carry (`Bi` with a date, a bump, `'shift'`), if per
    date the stamps are non-decreasing in merge order the store reads as the fold of all published rows - default read, first
    read and `what='last'`. -/
theorem read_spec_frames (fs : List Store) (h : OrderedF fs) (T : Option Int) :
    ∃ st, historyF fs = some st ∧ bi_store_invariant st ∧ biRead st T (-1) = specReadR fs.flatten T ∧
      biRead st T 0 = specFirstR fs.flatten T ∧ biReadS st T .last = specReadR fs.flatten T := by
  obtain ⟨st, hst, hr⟩ := refines_history fs h
  exact ⟨st, hst, refines_read st _ hr T⟩

/-- per-date order from frame-wise facts -/
theorem cols_of_pairwise (fs : List Store) (h1 : ∀ f ∈ fs, ∀ d, SortedLe (group d f))
    (h2 : fs.Pairwise (fun f g => ∀ a ∈ f, ∀ b ∈ g, a.date = b.date → a.stamp ≤ b.stamp)) (d : Int) :
    SortedLe (group d fs.flatten) := by
  have e : group d fs.flatten = (fs.map (group d)).flatten := by simp only [group, List.filter_flatten]; rfl
  rw [e]
  unfold SortedLe
  rw [List.pairwise_flatten]
  refine ⟨?_, ?_⟩
  · intro l hl
    obtain ⟨f, hf, rfl⟩ := List.mem_map.mp hl
    exact h1 f hf d
  · rw [List.pairwise_map]
    refine h2.imp ?_
    intro f g hfg a ha b hb
    exact hfg a (mem_group.mp ha).1 b (mem_group.mp hb).1 (by rw [(mem_group.mp ha).2, (mem_group.mp hb).2])

/-- **unsorted / repeated dates inside a version** (g4, item 3): `read_spec` needs neither sorted dates nor - after the first
    version - distinct dates.  For every non-empty log in stamp order whose FIRST version has no date twice, the store reads as
    the log folds (a date held twice by a later version counts as two publications, the later row winning). -/
theorem read_spec_any_index (log : List Version) (hne : log ≠ [])
    (hfirst : ∀ v ∈ log.head?, v.ts.index.Nodup) (hs : log.Pairwise (fun a b => a.stamp ≤ b.stamp)) (T : Option Int) :
    ∃ st, history log = some st ∧ bi_store_invariant st ∧ biRead st T (-1) = specRead log T ∧
      biRead st T 0 = specFirst log T ∧ biReadS st T .last = specRead log T := by
  have hfl : (log.map fun v => Bi v.ts v.stamp).flatten = logRows log := frames_flatten log
  have ho : OrderedF (log.map fun v => Bi v.ts v.stamp) := by
    refine ⟨by simpa using hne, ?_, ?_⟩
    · intro f hf
      cases log with
      | nil => simp at hf
      | cons v rest =>
        simp only [List.map_cons, List.head?_cons, Option.mem_def, Option.some.injEq] at hf
        subst hf
        have := hfirst v (by simp)
        simpa [Bi, TS.index, List.map_map, Function.comp_def] using this
    · intro d
      rw [hfl]
      exact (logRows_sorted log hs).sublist List.filter_sublist
  obtain ⟨st, hst, hi, r1, r2, r3⟩ := read_spec_frames _ ho T
  rw [hfl] at r1 r2 r3
  exact ⟨st, by rw [history_eq_historyF]; exact hst, hi, r1, r2, r3⟩

example : ∃ st, history [⟨10, [(3, some 1), (1, some 2)]⟩, ⟨11, [(1, some 5), (1, none), (1, some 6)]⟩] = some st :=
  (read_spec_any_index _ (by simp) (by decide) (by decide) Option.none).imp fun _ h => h.1

/-- **string selector 'last'**: on every store built by a stamp-ordered history `what='last'` is the default read -/
theorem read_str_last (log : List Version) (h : Ordered log) (T : Option Int) :
    ∃ st, history log = some st ∧ biReadS st T .last = biRead st T (-1) ∧ biReadS st T .last = specRead log T := by
  obtain ⟨st, hst, _, r1, _, r3⟩ := read_spec_any_index log h.ne
    (by
      intro v hv
      have hm : v ∈ log := List.mem_of_mem_head? hv
      exact (h.wf v hm).imp (by intro a b hab; omega))
    h.stamps T
  exact ⟨st, hst, by rw [r3, r1], r3⟩

/-- **string selector 'first'** = the integer selector `what = k`, `k` the number of leading NaN rows of the date (clamped as
    `_nth` clamps): the first non-NaN value the store holds for the date, NaN if it holds none.  For every store. -/
theorem read_str_first (st : Store) (T : Option Int) :
    biReadS st T .first = (dates (sortStamp (st.filter (vis T)))).map fun d =>
      (d, nthVal (leadingNan (group d (sortStamp (st.filter (vis T))))) (group d (sortStamp (st.filter (vis T))))) := by
  rw [biReadS_eq]
  apply List.map_congr_left
  intro d _
  simp only [Sel.apply, firstNonNan_nanFirst]

/-- in particular every entry of a `'first'` read is an entry of some integer read `what = k ≥ 0` -/
theorem read_str_first_is_int (st : Store) (T : Option Int) (d : Int) (y : Option Int)
    (h : (d, y) ∈ biReadS st T .first) : ∃ k : Nat, (d, y) ∈ biRead st T k := by
  rw [read_str_first, List.mem_map] at h
  obtain ⟨d', hd', he⟩ := h
  refine ⟨leadingNan (group d' (sortStamp (st.filter (vis T)))), ?_⟩
  rw [biRead_eq, List.mem_map]
  exact ⟨d', hd', he⟩

/-! ### `Bi` with a bump or `'shift'`: what is published is the series, only the stamps differ -/

theorem BiBump_rows (ts : TS) (delta now : Int) (r : Row) :
    r ∈ BiBump ts delta now ↔ ∃ p ∈ ts, r.date = p.1 ∧ r.val = p.2 ∧ r.stamp = min (p.1 + delta) now := by
  rw [mem_BiBump]
  constructor
  · rintro ⟨p, hp, rfl⟩; exact ⟨p, hp, rfl, rfl, rfl⟩
  · rintro ⟨p, hp, h1, h2, h3⟩; exact ⟨p, hp, by cases r; simp_all⟩

/-- no row is stamped in the future -/
theorem BiBump_capped (ts : TS) (delta now : Int) (r : Row) (h : r ∈ BiBump ts delta now) : r.stamp ≤ now := by
  obtain ⟨p, _, rfl⟩ := mem_BiBump.mp h
  exact Int.min_le_right _ _

/-- **a publisher that stamps with a bump**: versions `Bi(ts_i, bump)` created at times `now_1 ≤ now_2 ≤ ...` and merged in that
    order need no further hypothesis - per date the stamps `min(date + bump, now_i)` are automatically in order - so the store
    reads as the fold of all published rows. -/
theorem read_spec_bump (delta : Int) (log : List (TS × Int)) (hne : log ≠ [])
    (hfirst : ∀ v ∈ log.head?, v.1.index.Nodup) (hnow : log.Pairwise (fun a b => a.2 ≤ b.2)) (T : Option Int) :
    ∃ st, historyF (log.map fun v => BiBump v.1 delta v.2) = some st ∧ bi_store_invariant st ∧
      biRead st T (-1) = specReadR (log.map fun v => BiBump v.1 delta v.2).flatten T ∧
      biRead st T 0 = specFirstR (log.map fun v => BiBump v.1 delta v.2).flatten T := by
  have ho : OrderedF (log.map fun v => BiBump v.1 delta v.2) := by
    refine ⟨by simpa using hne, ?_, ?_⟩
    · intro f hf
      cases log with
      | nil => simp at hf
      | cons v rest =>
        simp only [List.map_cons, List.head?_cons, Option.mem_def, Option.some.injEq] at hf
        subst hf
        rw [BiBump_dates]
        exact hfirst v (by simp)
    · apply cols_of_pairwise
      · intro f hf d
        obtain ⟨v, _, rfl⟩ := List.mem_map.mp hf
        apply List.Pairwise.imp_of_mem (R := fun _ _ => True)
        · intro a b ha hb _
          obtain ⟨p, _, rfl⟩ := mem_BiBump.mp (mem_group.mp ha).1
          obtain ⟨q, _, rfl⟩ := mem_BiBump.mp (mem_group.mp hb).1
          have e1 := (mem_group.mp ha).2
          have e2 := (mem_group.mp hb).2
          simp only at e1 e2
          show min (p.1 + delta) v.2 ≤ min (q.1 + delta) v.2
          rw [e1, e2]; exact Int.le_refl _
        · exact List.pairwise_of_forall (fun _ _ => trivial)
      · rw [List.pairwise_map]
        refine hnow.imp ?_
        intro v w hvw a ha b hb hab
        obtain ⟨p, _, rfl⟩ := mem_BiBump.mp ha
        obtain ⟨q, _, rfl⟩ := mem_BiBump.mp hb
        simp only at hab
        show min (p.1 + delta) v.2 ≤ min (q.1 + delta) w.2
        rw [hab]; omega
  obtain ⟨st, hst, hi, r1, r2, _⟩ := read_spec_frames _ ho T
  exact ⟨st, hst, hi, r1, r2⟩

theorem BiShift_dates (ts : TS) (now : Int) : (BiShift ts now).map (·.date) = ts.index := by
  unfold BiShift TS.index
  generalize hn : [now] = tl
  have hl : ∀ (ts : TS) (ss : List Int), ts.length ≤ ss.length →
      (List.zipWith (fun (p : Int × Option Int) s => (⟨p.1, s, p.2⟩ : Row)) ts ss).map (·.date) = ts.map (·.1) := by
    intro ts
    induction ts with
    | nil => intro ss _; simp
    | cons p ts ih =>
      intro ss hss
      cases ss with
      | nil => simp at hss
      | cons s ss => simp [List.zipWith_cons_cons, ih ss (by simpa using hss)]
  apply hl
  subst hn
  simp; omega

/-- `'shift'`: every row but the last is stamped with the NEXT date of the series, the last with `now`; the published (date,
    value) pairs are those of the series - so `read_spec_frames` applies to histories of shifted versions under its per-date
    order hypothesis -/
theorem BiShift_rows (p q : Int × Option Int) (rest : TS) (now : Int) :
    BiShift (p :: q :: rest) now = ⟨p.1, q.1, p.2⟩ :: BiShift (q :: rest) now ∧ BiShift [p] now = [⟨p.1, now, p.2⟩] := by
  constructor <;> simp [BiShift]

example : OrderedF [BiShift [(1, some 5), (2, some 6)] 3, BiShift [(1, some 5), (2, some 7), (3, none)] 4] :=
  ⟨by simp, by decide, by
    apply cols_of_pairwise
    · intro f hf d
      refine List.Pairwise.sublist List.filter_sublist ?_
      simp only [List.mem_cons, List.not_mem_nil, or_false] at hf
      rcases hf with rfl | rfl <;> decide
    · simp [BiShift]⟩


/-! ### what is NOT an invariant of the store: "no two consecutive equal values" -/

theorem revertDemo_store :
    history revertDemo = some [⟨1, 10, some 3⟩, ⟨1, 11, some 5⟩, ⟨1, 12, some 5⟩] := by
  have e1 : mergeFrames [[(⟨1, 10, some 3⟩ : Row)], [⟨1, 11, some 5⟩]] = [⟨1, 10, some 3⟩, ⟨1, 11, some 5⟩] := by
    rw [mergeFrames_single 1 _ _ (by decide) (by decide) (by unfold SortedLe; decide)]; decide
  have e2 : mergeFrames [[(⟨1, 10, some 3⟩ : Row), ⟨1, 11, some 5⟩], [⟨1, 12, some 6⟩]] =
      [⟨1, 10, some 3⟩, ⟨1, 11, some 5⟩, ⟨1, 12, some 6⟩] := by
    rw [mergeFrames_single 1 _ _ (by decide) (by decide) (by unfold SortedLe; decide)]; decide
  have e3 : mergeFrames [[(⟨1, 10, some 3⟩ : Row), ⟨1, 11, some 5⟩, ⟨1, 12, some 6⟩], [⟨1, 12, some 5⟩]] =
      [⟨1, 10, some 3⟩, ⟨1, 11, some 5⟩, ⟨1, 12, some 5⟩] := by
    rw [mergeFrames_single 1 _ _ (by decide) (by decide) (by unfold SortedLe; decide)]; decide
  simp only [history, revertDemo, List.foldl_cons, List.foldl_nil, biMerge, Bi, List.map_cons, List.map_nil, e1, e2, e3]

/-- **"no two consecutive equal visible values" is not an invariant** (g4, item 4): after `3@10, 5@11, 6@12, 5@12` - a revert
    merged under the stamp of the version it reverts - the store holds `5@11` directly followed by `5@12`:
    `drop_duplicates(keep='last')` runs AFTER the repeat test and removes the `6@12` that separated them.  The reads the
    property names are unaffected (`read_spec`); `what=-2` sees the difference. -/
theorem no_consecutive_repeats_fails :
    ∃ log, Ordered log ∧ ∃ st, history log = some st ∧ bi_store_invariant st ∧
      ∃ pre a b post, group 1 st = pre ++ a :: b :: post ∧ a.val = b.val ∧ a.val ≠ Option.none := by
  have ho : Ordered revertDemo := ⟨by simp [revertDemo], by decide, by decide⟩
  refine ⟨revertDemo, ho, _, revertDemo_store, ?_, ?_⟩
  · obtain ⟨st', hst', hi, _⟩ := read_spec_frames _ (by
      refine ⟨by simp [revertDemo], by decide, ?_⟩
      intro d
      exact (logRows_sorted revertDemo ho.stamps).sublist
        (by rw [← frames_flatten]; exact List.filter_sublist) : OrderedF (revertDemo.map fun v => Bi v.ts v.stamp)) Option.none
    rw [← history_eq_historyF, revertDemo_store] at hst'
    cases hst'; exact hi
  · exact ⟨[⟨1, 10, some 3⟩], ⟨1, 11, some 5⟩, ⟨1, 12, some 5⟩, [], by decide, rfl, by simp⟩


/-! ## g4: frames with several value columns.  `_drop_repeats` works per ROW: the mask is `repeats.min(axis=1)` (a row is dropped
    only if EVERY column repeats its forward-filled predecessor) and the rows kept are the RAW rows, not the forward-filled ones.
    So the per-column restatement of `read_spec` is FALSE for frames (model and code, probes in docs/notes/C17.md): the theorems
    below are the witnesses, and `frame_one_column` ties the frame model to the series model for width 1. -/

/-- `_drop_repeats` is per row: the row after the first is kept iff SOME column's forward-filled value differs from (or is NaN
    like) the forward-filled value above it - stated on two rows -/
theorem frame_mask_per_row (a b : RowF) (h : a.stamp ≠ b.stamp) :
    dropRepeatsF [a, b] = if allRepeat (List.zipWith Option.or b.vals a.vals) a.vals then [a] else [a, b] := by
  have h' : (b.stamp == a.stamp) = false := by simpa using fun e => h e.symm
  by_cases hr : allRepeat (List.zipWith Option.or b.vals a.vals) a.vals = true
  · simp [dropRepeatsF, ffillF, ffillFromF, hr, keepLastF]
  · simp only [Bool.not_eq_true] at hr
    simp [dropRepeatsF, ffillF, ffillFromF, hr, keepLastF, h']

/-- two-column history: `(a, b) = (1, 1)` stamped 10, then `(NaN, 2)` stamped 11 -/
def frameDemo : List (Int × TSF) := [(10, [(1, [some 1, some 1])]), (11, [(1, [Option.none, some 2])])]

theorem frameDemo_store : historyFF frameDemo = some [⟨1, 10, [some 1, some 1]⟩, ⟨1, 11, [Option.none, some 2]⟩] := by
  have e1 : mergeFramesF [[(⟨1, 10, [some 1, some 1]⟩ : RowF)], [⟨1, 11, [Option.none, some 2]⟩]] =
      [⟨1, 10, [some 1, some 1]⟩, ⟨1, 11, [Option.none, some 2]⟩] := by
    rw [mergeFramesF_single 1 _ _ (by decide) (by decide) (by decide)]; decide
  simp only [historyFF, frameDemo, List.foldl_cons, List.foldl_nil, biMergeF, BiF, List.map_cons, List.map_nil, e1]

/-- **the per-column `read_spec` fails on frames (default read)**: column `a` published `1` and then NaN - under a later stamp, in a
    row whose column `b` changed.  The row is kept RAW, so the default read shows NaN for `a`: "a NaN never overrides an earlier
    value" does not hold column by column.  The per-column log fold is `1`; `what='last'` does return `(1, 2)`. -/
theorem frame_default_read_nan_overrides :
    ∃ st, historyFF frameDemo = some st ∧
      biReadF st Option.none (-1) = [(1, [Option.none, some 2])] ∧
      specReadR (colF 0 (logRowsF frameDemo)) Option.none = [(1, some 1)] ∧
      biReadFS 2 st Option.none .last = [(1, [some 1, some 2])] := by
  refine ⟨_, frameDemo_store, ?_, ?_, ?_⟩
  · rw [biReadF_single 1 _ (by decide) (by decide) (by decide)]; decide
  · rw [specReadR_single 1 _ (by decide) (by decide)]; decide
  · rw [biReadFS_single 2 1 _ (by decide) (by decide) (by decide)]; decide

/-- `(1, 1)` stamped 10, `(5, 1)` stamped 11, `(NaN, 2)` stamped 11 again -/
def frameDemo2 : List (Int × TSF) :=
  [(10, [(1, [some 1, some 1])]), (11, [(1, [some 5, some 1])]), (11, [(1, [Option.none, some 2])])]

theorem frameDemo2_store : historyFF frameDemo2 = some [⟨1, 10, [some 1, some 1]⟩, ⟨1, 11, [Option.none, some 2]⟩] := by
  have e1 : mergeFramesF [[(⟨1, 10, [some 1, some 1]⟩ : RowF)], [⟨1, 11, [some 5, some 1]⟩]] =
      [⟨1, 10, [some 1, some 1]⟩, ⟨1, 11, [some 5, some 1]⟩] := by
    rw [mergeFramesF_single 1 _ _ (by decide) (by decide) (by decide)]; decide
  have e2 : mergeFramesF [[(⟨1, 10, [some 1, some 1]⟩ : RowF), ⟨1, 11, [some 5, some 1]⟩], [⟨1, 11, [Option.none, some 2]⟩]] =
      [⟨1, 10, [some 1, some 1]⟩, ⟨1, 11, [Option.none, some 2]⟩] := by
    rw [mergeFramesF_single 1 _ _ (by decide) (by decide) (by decide)]; decide
  simp only [historyFF, frameDemo2, List.foldl_cons, List.foldl_nil, biMergeF, BiF, List.map_cons, List.map_nil, e1, e2]

/-- **... and `what='last'` loses a published value when two versions share a stamp**: `a = 5` was published under stamp 11, the
    same-stamp successor `(NaN, 2)` replaces the whole ROW (`drop_duplicates(keep='last')`), and `5` is gone from the store:
    `what='last'` reads `a = 1`, the per-column log fold is `5`. -/
theorem frame_last_loses_value :
    ∃ st, historyFF frameDemo2 = some st ∧
      biReadFS 2 st Option.none .last = [(1, [some 1, some 2])] ∧
      specReadR (colF 0 (logRowsF frameDemo2)) Option.none = [(1, some 5)] := by
  refine ⟨_, frameDemo2_store, ?_, ?_⟩
  · rw [biReadFS_single 2 1 _ (by decide) (by decide) (by decide)]; decide
  · rw [specReadR_single 1 _ (by decide) (by decide)]; decide


/-! ### what DOES hold column by column: histories in which, per date, every version carries a NEW stamp -/

/-- a frame history with `w` value columns in which, per observation date, the stamps strictly increase in merge order (no two
    versions holding a date share a stamp) -/
structure OrderedFF (w : Nat) (log : List (Int × TSF)) : Prop where
  ne : log ≠ []
  width : ∀ r ∈ logRowsF log, r.vals.length = w
  cols : ∀ d, (groupF d (logRowsF log)).Pairwise (fun a b => a.stamp < b.stamp)

/-- **frames, column by column (`what='last'`)**: if per date every version carries a new stamp, `bi_read(store, asof=T,
    what='last')` is, in EVERY column, the fold of that column's publications stamped `≤ T` - the per-column `read_spec`.
    (With a shared stamp it fails: `frame_last_loses_value`; for the default read it fails anyway:
    `frame_default_read_nan_overrides`.) -/
theorem frame_read_last_columns (w : Nat) (log : List (Int × TSF)) (h : OrderedFF w log) (T : Option Int) :
    ∃ st, historyFF log = some st ∧ ∀ c, c < w →
      (biReadFS w st T .last).map (fun p => (p.1, (p.2[c]?).join)) = specReadR (colF c (logRowsF log)) T := by
  match log, h with
  | [], h => exact absurd rfl h.ne
  | v :: rest, h =>
    obtain ⟨st, hst⟩ := historyFF_some v rest
    refine ⟨st, hst, ?_⟩
    intro c hc
    obtain ⟨st', hst', hg, he, _⟩ := historyFF_invC c w hc v rest h.width h.cols
    rw [hst] at hst'; cases hst'
    have hs : ∀ d, SortedLe (group d (colF c st)) := by
      intro d; rw [← colF_groupF]; exact sortedLe_colF c (hg d)
    have := biReadFS_col c w hc st T .last
    simp only [cell] at this
    rw [this, biReadS_last _ hs, specReadR_eq, specRows_congr he]

/-- **frames, default read**: under the same hypothesis every non-NaN cell of the default read is the per-column fold; a NaN
    cell may hide an earlier value of its column (`frame_default_read_nan_overrides`) -/
theorem frame_default_read_cells (w : Nat) (log : List (Int × TSF)) (h : OrderedFF w log) (T : Option Int) :
    ∃ st, historyFF log = some st ∧ ∀ c, c < w → ∀ d vs x, (d, vs) ∈ biReadF st T (-1) → (vs[c]?).join = some x →
      (d, some x) ∈ specReadR (colF c (logRowsF log)) T := by
  match log, h with
  | [], h => exact absurd rfl h.ne
  | v :: rest, h =>
    obtain ⟨st, hst⟩ := historyFF_some v rest
    refine ⟨st, hst, ?_⟩
    intro c hc d vs x hmem hx
    obtain ⟨st', hst', hg, he, _⟩ := historyFF_invC c w hc v rest h.width h.cols
    rw [hst] at hst'; cases hst'
    have hs : ∀ d, SortedLe (group d (colF c st)) := by
      intro d; rw [← colF_groupF]; exact sortedLe_colF c (hg d)
    have hm : (d, some x) ∈ biRead (colF c st) T (-1) := by
      rw [← biReadF_col, List.mem_map]
      exact ⟨(d, vs), hmem, by simp only [cell, hx]⟩
    have := mem_biRead_some_specRows _ hs T d x hm
    rwa [specReadR_eq, ← specRows_congr he]

example : OrderedFF 2 frameDemo :=
  ⟨by simp [frameDemo], by decide, fun d => List.Pairwise.sublist List.filter_sublist (by decide)⟩


/-! ### `what='first'` against the publication log (`specFirstS`, `firstNonNanSpec`: Lemmas/BitempFirstS.lean) -/

/-- **string selector 'first'**: on every stamp-ordered history `bi_read(store, asof=T, what='first')` is, per date published by
    `T`, NaN if nothing non-NaN was published by `T`, and otherwise the fold of the publications stamped no later than the date's
    first non-NaN publication - with distinct stamps literally the first non-NaN value published (`firstNonNanSpec_sortedLt`);
    versions sharing that stamp override each other as they do for every read (cf. C17-K1). -/
theorem read_str_first_spec (log : List Version) (h : Ordered log) (T : Option Int) :
    ∃ st, history log = some st ∧ biReadS st T .first = specFirstS (logRows log) T := by
  obtain ⟨st, hst, hg, he, _⟩ := history_inv log h.ne h.wf h.stamps
  refine ⟨st, hst, ?_⟩
  rw [biReadS_first st (fun d => (hg d).1.le) T]
  exact firstS_congr he (fun d => (hg d).1)
    (fun d => (logRows_sorted log h.stamps).sublist List.filter_sublist) T

/-- the same for stamped frames (`Bi` with bumps / `'shift'`, dates in any order) -/
theorem read_str_first_frames (fs : List Store) (h : OrderedF fs) (T : Option Int) :
    ∃ st, historyF fs = some st ∧ biReadS st T .first = specFirstS fs.flatten T := by
  obtain ⟨st, hst, ⟨hg, he, _⟩, hr⟩ := refines_history fs h
  refine ⟨st, hst, ?_⟩
  rw [biReadS_first st (fun d => (hg d).1.le) T]
  exact firstS_congr he (fun d => (hg d).1) hr T

#guard (history demo).map (fun st => biReadS st Option.none .first) == some (specFirstS (logRows demo) Option.none)
#guard (history demo).map (fun st => biReadS st Option.none .first) == some [(1, some 6), (2, some 7), (3, some 1), (4, none)]
#guard (history demo).map (fun st => biReadS st (some 11) .last) == some (specRead demo (some 11))


/-! ### a frame with ONE value column is the series model: every theorem above transfers to one-column frames -/

/-- the one-column frame version of a series version -/
def embVersion (v : Version) : Int × TSF := (v.stamp, v.ts.map fun p => (p.1, [p.2]))

/-- **one-column frames**: the frame model run on one-column versions builds exactly the image of the series store, and every
    integer read of it is the series read with each value wrapped in a one-cell row - for all histories, read times, selectors -/
theorem frame_one_column (log : List Version) :
    historyFF (log.map embVersion) = (history log).map emb ∧
    ∀ (st : Store) (T : Option Int) (n : Int), biReadF (emb st) T n = (biRead st T n).map fun p => (p.1, [p.2]) := by
  refine ⟨?_, fun st T n => biReadF_emb st T n⟩
  have hBi : ∀ v : Version, BiF (embVersion v).2 (embVersion v).1 = emb (Bi v.ts v.stamp) := by
    intro v; simp [BiF, Bi, emb, embVersion, embRow, List.map_map, Function.comp_def]
  have key : ∀ (l : List Version) (acc : Option Store),
      (l.map embVersion).foldl (fun st v => some (biMergeF st (BiF v.2 v.1))) (acc.map emb) =
        (l.foldl (fun st v => some (biMerge st (Bi v.ts v.stamp))) acc).map emb := by
    intro l
    induction l with
    | nil => intro acc; rfl
    | cons v l ih =>
      intro acc
      simp only [List.map_cons, List.foldl_cons, hBi, biMergeF_emb]
      exact ih (some (biMerge acc (Bi v.ts v.stamp)))
  exact key log Option.none

/-! ## round h5 (review s5): idempotence for the REST of the history, the sharp literal-first condition, reads without an as-of time -/

/-- **idempotence, as a statement about the future**: after merging a version that is already in the store (every row of it is a row of
    the store - it may be stamped EARLIER than the last version, so that `log ++ [w]` is not a stamp-ordered log and no other theorem of
    this file would apply to what follows) the history goes on exactly as if the re-merge had not happened: whatever stamp-ordered
    versions `later` are merged afterwards, every as-of read and every first read of the resulting store equals the read of the history
    without the re-merge, i.e. the fold of the publication log `log ++ later`. -/
theorem merge_idem_future (log : List Version) (h : Ordered log) (st : Store) (hst : history log = some st) (w : Version)
    (hin : ∀ p ∈ w.ts, (⟨p.1, w.stamp, p.2⟩ : Row) ∈ st)
    (later : List Version) (hl : Ordered (log ++ later)) (T : Option Int) :
    ∃ st₁ st₂, later.foldl (fun s v => some (biMerge s (Bi v.ts v.stamp))) (some (biMerge (some st) (Bi w.ts w.stamp))) = some st₁ ∧
      history (log ++ later) = some st₂ ∧
      biRead st₁ T (-1) = biRead st₂ T (-1) ∧ biRead st₁ T 0 = biRead st₂ T 0 ∧
      biRead st₁ T (-1) = specRead (log ++ later) T ∧ biRead st₁ T 0 = specFirst (log ++ later) T := by
  obtain ⟨st', hst', hinv⟩ := history_inv log h.ne h.wf h.stamps
  rw [hst] at hst'; cases hst'
  have hs := logRows_sorted _ hl.stamps
  obtain ⟨st₁, e1, i1⟩ := inv_foldl later _ log (inv_remerge hinv w hin) hs
  obtain ⟨st₂, e2, i2⟩ := inv_foldl later st log hinv hs
  have hsl : ∀ d, SortedLe (group d (logRows (log ++ later))) := fun d => hs.sublist List.filter_sublist
  have r1 : biRead st₁ T (-1) = specRead (log ++ later) T := by
    rw [biRead_last st₁ i1.1, specRead_eq, specRows_congr i1.2.1]
  have r2 : biRead st₂ T (-1) = specRead (log ++ later) T := by
    rw [biRead_last st₂ i2.1, specRead_eq, specRows_congr i2.2.1]
  have f1 : biRead st₁ T 0 = specFirst (log ++ later) T := by
    rw [biRead_first st₁ i1.1, specFirst_eq]
    exact firstRows_congr i1.2.1 (fun d => (i1.1 d).1.le) hsl T
  have f2 : biRead st₂ T 0 = specFirst (log ++ later) T := by
    rw [biRead_first st₂ i2.1, specFirst_eq]
    exact firstRows_congr i2.2.1 (fun d => (i2.1 d).1.le) hsl T
  refine ⟨st₁, st₂, e1, ?_, r1.trans r2.symm, f1.trans f2.symm, r1, f1⟩
  rw [history_append, hst]; exact e2

-- the hypotheses are satisfiable with a version stamped EARLIER than the last one and a non-trivial continuation (reviewer's probe):
-- `3@10 (dates 1,2), 5@11, 3@12`, re-merge the first version (stamp 10), then continue with stamps 13, 13, 14
example : Ordered ([⟨10, [(1, some 3), (2, some 1)]⟩, ⟨11, [(1, some 5)]⟩, ⟨12, [(1, some 3)]⟩] ++
    [⟨13, [(1, some 3), (2, Option.none)]⟩, ⟨13, [(1, some 5)]⟩, ⟨14, [(2, some 1)]⟩]) :=
  ⟨by simp, by decide, by decide⟩
#guard (history [⟨10, [(1, some 3), (2, some 1)]⟩, ⟨11, [(1, some 5)]⟩, ⟨12, [(1, some 3)]⟩]).map
    (fun st => ([(1, some 3), (2, some 1)] : TS).all fun p => st.contains ⟨p.1, 10, p.2⟩) = some true

/-- **first read, literal - the sharp sufficient condition**: only the date's FIRST stamp matters.  If, for every date, each later
    publication (visible as of `T`) that shares the stamp of the date's first publication is NaN or repeats the first value, then
    `bi_read(what=0)` returns the first value published per date - the clause as it is written.  (`5@10, 6@11, 7@11` and
    `5@10, NaN@10, 5@10` satisfy this; `read_first_literal`'s hypothesis - all stamps of the date distinct - excludes both.)
    The exact condition is `read_first_literal_iff`; it is not "no second publication shares the first stamp" (that is sufficient,
    `read_first_literal_first_stamp`, not necessary). -/
theorem read_first_literal_sharp (log : List Version) (h : Ordered log) (T : Option Int)
    (hd : ∀ d r rest, group d (pubs log T) = r :: rest →
      ∀ r' ∈ rest, r'.stamp = r.stamp → r'.val = Option.none ∨ r'.val = r.val) :
    ∃ st, history log = some st ∧ biRead st T 0 = specFirstLiteral log T := by
  obtain ⟨st, hst, hiff⟩ := read_first_literal_iff log h T
  refine ⟨st, hst, hiff.2 ?_⟩
  intro d _
  match hg : group d (pubs log T) with
  | [] => rfl
  | r :: rest =>
    have hB : ∀ b ∈ rest.filter (·.stamp == r.stamp), b.val = Option.none ∨ b.val = r.val := by
      intro b hb
      obtain ⟨hb1, hb2⟩ := List.mem_filter.mp hb
      exact hd d r rest hg b hb1 (by simpa using hb2)
    have hf : (r :: rest).filter (·.stamp == r.stamp) = r :: rest.filter (·.stamp == r.stamp) := by
      simp
    simp only [firstVal, hf, lastVal_cons, List.head?_cons, Option.bind_some]
    rcases lastVal_noop r.val _ hB with e | e <;> rw [e]
    · rfl
    · cases r.val <;> rfl

/-- the simplest useful form: no later publication of the date shares the stamp of its first publication -/
theorem read_first_literal_first_stamp (log : List Version) (h : Ordered log) (T : Option Int)
    (hd : ∀ d r rest, group d (pubs log T) = r :: rest → ∀ r' ∈ rest, r'.stamp ≠ r.stamp) :
    ∃ st, history log = some st ∧ biRead st T 0 = specFirstLiteral log T :=
  read_first_literal_sharp log h T (fun d r rest hg r' hr' he => absurd he (hd d r rest hg r' hr'))

/-- the two histories of the review: the hypothesis of `read_first_literal_sharp` holds, that of `read_first_literal` does not -/
def lateTie : List Version := [⟨10, [(1, some 5)]⟩, ⟨11, [(1, some 6)]⟩, ⟨11, [(1, some 7)]⟩]
def firstTieNan : List Version := [⟨10, [(1, some 5)]⟩, ⟨10, [(1, Option.none)]⟩, ⟨10, [(1, some 5)]⟩]
#guard (history lateTie).map (fun st => (biRead st Option.none 0, specFirstLiteral lateTie Option.none)) = some ([(1, some 5)], [(1, some 5)])
#guard ((group 1 (pubs lateTie Option.none)).map (·.stamp)) = [10, 11, 11]
#guard (history firstTieNan).map (fun st => (biRead st Option.none 0, specFirstLiteral firstTieNan Option.none)) = some ([(1, some 5)], [(1, some 5)])
#guard ((group 1 (pubs firstTieNan Option.none)).map (fun r => (r.stamp, r.val))) = [(10, some 5), (10, Option.none), (10, some 5)]

/-- **"no asof" is "as of any time after all stamps"**: `bi_read(store)` without an as-of time returns what `bi_read(store, asof=M)`
    returns for every `M` that no stamp exceeds - for the default read and the first read. -/
theorem read_noasof (log : List Version) (h : Ordered log) (st : Store) (hst : history log = some st) (M : Int)
    (hM : ∀ v ∈ log, v.stamp ≤ M) :
    biRead st Option.none (-1) = biRead st (some M) (-1) ∧ biRead st Option.none 0 = biRead st (some M) 0 := by
  obtain ⟨s1, e1, r1⟩ := read_spec log h Option.none
  obtain ⟨s2, e2, r2⟩ := read_spec log h (some M)
  obtain ⟨s3, e3, r3⟩ := read_first log h Option.none
  obtain ⟨s4, e4, r4⟩ := read_first log h (some M)
  rw [hst] at e1 e2 e3 e4; cases e1; cases e2; cases e3; cases e4
  rw [r1, r2, r3, r4]
  simp only [specRead, specFirst, pubs_none_eq log M hM, and_self]

/-- **value of the read without as-of time, declaratively** (`read_value` for `bi_read(store)`): `x` is shown for `d` iff some
    version publishes `x` for `d` and no version merged after it publishes a non-NaN value for `d`. -/
theorem read_value_noasof (log : List Version) (h : Ordered log) (st : Store) (hst : history log = some st) (d x : Int) :
    (d, some x) ∈ biRead st Option.none (-1) ↔
      ∃ before v after, log = before ++ v :: after ∧ (d, some x) ∈ v.ts ∧ ∀ u ∈ after, ∀ y, (d, some y) ∉ u.ts := by
  obtain ⟨M, hM⟩ := exists_stamp_bound log
  rw [(read_noasof log h st hst M hM).1, read_value log h M st hst]
  constructor
  · rintro ⟨b, v, a, e, _, h2, h3⟩
    exact ⟨b, v, a, e, h2, fun u hu => h3 u hu (hM u (by rw [e]; simp [hu]))⟩
  · rintro ⟨b, v, a, e, h2, h3⟩
    exact ⟨b, v, a, e, hM v (by rw [e]; simp), h2, fun u hu _ => h3 u hu⟩

/-- **NaN row of the read without as-of time**: NaN is shown for `d` iff `d` was published and every publication of `d` is NaN -/
theorem read_nan_noasof (log : List Version) (h : Ordered log) (st : Store) (hst : history log = some st) (d : Int) :
    (d, Option.none) ∈ biRead st Option.none (-1) ↔
      (∃ v ∈ log, d ∈ v.ts.index) ∧ ∀ v ∈ log, ∀ y, (d, some y) ∉ v.ts := by
  obtain ⟨M, hM⟩ := exists_stamp_bound log
  rw [(read_noasof log h st hst M hM).1, read_nan log h M st hst]
  constructor
  · rintro ⟨⟨v, hv, _, hd⟩, hall⟩
    exact ⟨⟨v, hv, hd⟩, fun u hu => hall u hu (hM u hu)⟩
  · rintro ⟨⟨v, hv, hd⟩, hall⟩
    exact ⟨⟨v, hv, hM v hv, hd⟩, fun u hu _ => hall u hu⟩

/-- the dates of the read without as-of time: exactly the dates some version contains -/
theorem read_dates_noasof (log : List Version) (h : Ordered log) (st : Store) (hst : history log = some st) (d : Int) :
    d ∈ (biRead st Option.none (-1)).index ↔ ∃ v ∈ log, d ∈ v.ts.index := by
  obtain ⟨M, hM⟩ := exists_stamp_bound log
  rw [(read_noasof log h st hst M hM).1, read_dates log h M st hst]
  constructor
  · rintro ⟨v, hv, _, hd⟩; exact ⟨v, hv, hd⟩
  · rintro ⟨v, hv, hd⟩; exact ⟨v, hv, hM v hv, hd⟩

/-! ### the dates of the FIRST read (review t5): "no row for dates first published after T" for `what = 0`, stated on the read itself
    (so far only implied by `read_first` and the definition of `specFirst`) -/

/-- the first read and the default read return the same dates, for every read time (with or without as-of) -/
theorem read_first_index (log : List Version) (h : Ordered log) (T : Option Int) (st : Store) (hst : history log = some st) :
    (biRead st T 0).index = (biRead st T (-1)).index := by
  obtain ⟨s1, e1, r1⟩ := read_spec log h T
  obtain ⟨s2, e2, r2⟩ := read_first log h T
  rw [hst] at e1 e2; cases e1; cases e2
  rw [r1, r2]
  simp [specRead, specFirst, TS.index, List.map_map, Function.comp_def]

/-- the dates a first read (`what = 0`) as of `T` returns are exactly the dates with a publication stamped `≤ T`: no row for dates
    first published after `T` (mirror of `read_dates`) -/
theorem read_first_dates (log : List Version) (h : Ordered log) (T : Int) (st : Store) (hst : history log = some st) (d : Int) :
    d ∈ (biRead st (some T) 0).index ↔ ∃ v ∈ log, v.stamp ≤ T ∧ d ∈ v.ts.index := by
  rw [read_first_index log h (some T) st hst, read_dates log h T st hst]

/-- the dates of the first read without as-of time: exactly the dates some version contains -/
theorem read_first_dates_noasof (log : List Version) (h : Ordered log) (st : Store) (hst : history log = some st) (d : Int) :
    d ∈ (biRead st Option.none 0).index ↔ ∃ v ∈ log, d ∈ v.ts.index := by
  rw [read_first_index log h Option.none st hst, read_dates_noasof log h st hst]

/-- every date is read once: the index of an as-of read (default or first) has no repeated date - together with `read_dates` /
    `read_first_dates` this fixes the index of the read as a SET and its multiplicity, independently of `specRead` -/
theorem read_index_nodup (log : List Version) (h : Ordered log) (T : Option Int) (st : Store) (hst : history log = some st) :
    (biRead st T (-1)).index.Nodup ∧ (biRead st T 0).index.Nodup := by
  rw [read_first_index log h T st hst, and_self]
  obtain ⟨s1, e1, r1⟩ := read_spec log h T
  rw [hst] at e1; cases e1
  rw [r1]
  simp only [specRead, TS.index, List.map_map, Function.comp_def, List.map_id']
  exact dates_nodup _

/-! ### re-merging SEVERAL stored versions (review t5): `merge_idem_future` speaks of one re-merge -/

/-- `Remerged st ws st'`: starting from the store `st` the versions `ws` are merged again one after the other, each of them being in
    the store AT THAT MOMENT (every row of it is a row of the current store); `st'` is the store after the last of them -/
inductive Remerged : Store → List Version → Store → Prop
  | nil (st : Store) : Remerged st [] st
  | cons {st st' : Store} (w : Version) {ws : List Version} (hin : ∀ p ∈ w.ts, (⟨p.1, w.stamp, p.2⟩ : Row) ∈ st)
      (rest : Remerged (biMerge (some st) (Bi w.ts w.stamp)) ws st') : Remerged st (w :: ws) st'

theorem inv_remerged {st st' : Store} {log : List Version} {ws : List Version} (hr : Remerged st ws st')
    (h : Inv st (logRows log)) : Inv st' (logRows log) := by
  induction hr with
  | nil => exact h
  | cons w hin _ ih => exact ih (inv_remerge h w hin)

/-- **idempotence, n-fold**: after re-merging ANY NUMBER of stored versions, in any order (each one in the store when it is merged again;
    stamps in any order, the same version several times), no as-of read and no first read has changed, and the history goes on as if
    none of the re-merges had happened: with any stamp-ordered continuation `later` every read is the fold of `log ++ later`. -/
theorem merge_idem_many (log : List Version) (h : Ordered log) (st : Store) (hst : history log = some st)
    (ws : List Version) (st' : Store) (hws : Remerged st ws st')
    (later : List Version) (hl : Ordered (log ++ later)) (T : Option Int) :
    ∃ st₁, later.foldl (fun s v => some (biMerge s (Bi v.ts v.stamp))) (some st') = some st₁ ∧
      biRead st₁ T (-1) = specRead (log ++ later) T ∧ biRead st₁ T 0 = specFirst (log ++ later) T := by
  obtain ⟨st0, hst0, hinv⟩ := history_inv log h.ne h.wf h.stamps
  rw [hst] at hst0; cases hst0
  have hs := logRows_sorted _ hl.stamps
  obtain ⟨st₁, e1, i1⟩ := inv_foldl later _ log (inv_remerged hws hinv) hs
  have hsl : ∀ d, SortedLe (group d (logRows (log ++ later))) := fun d => hs.sublist List.filter_sublist
  refine ⟨st₁, e1, ?_, ?_⟩
  · rw [biRead_last st₁ i1.1, specRead_eq, specRows_congr i1.2.1]
  · rw [biRead_first st₁ i1.1, specFirst_eq]
    exact firstRows_congr i1.2.1 (fun d => (i1.1 d).1.le) hsl T

/-- the case without continuation: the store after the re-merges reads as the store before them -/
theorem merge_idem_many_reads (log : List Version) (h : Ordered log) (st : Store) (hst : history log = some st)
    (ws : List Version) (st' : Store) (hws : Remerged st ws st') (T : Option Int) :
    biRead st' T (-1) = biRead st T (-1) ∧ biRead st' T 0 = biRead st T 0 := by
  obtain ⟨st₁, e1, r1, f1⟩ := merge_idem_many log h st hst ws st' hws [] (by simpa using h) T
  obtain ⟨s2, e2, r2⟩ := read_spec log h T
  obtain ⟨s3, e3, r3⟩ := read_first log h T
  rw [hst] at e2 e3; cases e2; cases e3
  simp only [List.foldl_nil, Option.some.injEq] at e1; subst e1
  simp only [List.append_nil] at r1 f1
  exact ⟨r1.trans r2.symm, f1.trans r3.symm⟩

/-- the chain of re-merges as a computation (for `#guard`: `history` sorts with `List.mergeSort`, which the kernel does not unfold) -/
def remergeChain (st : Store) : List Version → Option Store
  | [] => some st
  | w :: ws => if w.ts.all (fun p => decide ((⟨p.1, w.stamp, p.2⟩ : Row) ∈ st)) then remergeChain (biMerge (some st) (Bi w.ts w.stamp)) ws
      else Option.none

theorem remerged_of_chain (st : Store) (ws : List Version) (st' : Store) (h : remergeChain st ws = some st') : Remerged st ws st' := by
  induction ws generalizing st with
  | nil => simp only [remergeChain, Option.some.injEq] at h; subst h; exact .nil _
  | cons w ws ih =>
    simp only [remergeChain] at h
    split at h
    · rename_i hall
      exact .cons w (fun p hp => by simpa using List.all_eq_true.mp hall p hp) (ih _ h)
    · cases h

-- satisfiable, non-trivially: `3@10 (dates 1,2), 5@11, 3@12`; re-merge the version stamped 12, then the one stamped 10, then 12 again
#guard ((history [⟨10, [(1, some 3), (2, some 1)]⟩, ⟨11, [(1, some 5)]⟩, ⟨12, [(1, some 3)]⟩]).bind fun st =>
    remergeChain st [⟨12, [(1, some 3)]⟩, ⟨10, [(1, some 3), (2, some 1)]⟩, ⟨12, [(1, some 3)]⟩]).isSome
-- and a version that was overridden under its own stamp is NOT re-mergeable in this sense (`5@10, 6@10`: the row `5@10` is gone)
#guard ((history [⟨10, [(1, some 5)]⟩, ⟨10, [(1, some 6)]⟩]).bind fun st => remergeChain st [⟨10, [(1, some 5)]⟩]).isNone

/-! ### batches as the code runs them (review s5): `read_spec_batches` is about the total `historyL`; `historyLE` folds the raising
    `biMergeLE` that the driver compares with the code -/

/-- some `bi_merge` call of the batch history raises: a non-empty batch `b` brings the number of versions to two or more while all
    of them - those of the earlier calls `pre` and those of `b` - are empty series (`pd.concat([])`, `_bitemporal.py:288`) -/
def BatchRaises (batches : List (List Version)) : Prop :=
  ∃ pre b post, batches = pre ++ b :: post ∧ b ≠ [] ∧ 2 ≤ (pre.flatten ++ b).length ∧ ∀ v ∈ pre.flatten ++ b, v.ts = []

theorem batchRaises_iff (batches : List (List Version)) : BatchRaises batches ↔ RaisesFrom [] batches := by
  simp only [BatchRaises, RaisesFrom, CallRaises, List.nil_append]

/-- **when a history of batches returns**: `historyLE` is the `ValueError` exactly when some call raises (`BatchRaises`: the call
    that makes it two or more versions, all empty); every other history returns the store `historyL` describes. -/
theorem historyLE_eq (batches : List (List Version)) :
    (BatchRaises batches → historyLE batches = .error .value) ∧
    (¬ BatchRaises batches → historyLE batches = .ok (historyL batches)) := by
  rw [batchRaises_iff, historyLE_eq_foldl, historyL_eq]
  exact historyLE_foldl batches Option.none [] ⟨by simp, by intro s hs; cases hs⟩

/-- a history of batches whose very first version is not empty never raises -/
theorem not_batchRaises_of_first (batches : List (List Version)) (v : Version) (hv : batches.flatten.head? = some v)
    (hne : v.ts ≠ []) : ¬ BatchRaises batches := by
  rintro ⟨pre, b, post, rfl, hb, _, hall⟩
  have hp : pre.flatten ++ b ≠ [] := by simp [hb]
  have e : (pre ++ b :: post).flatten = (pre.flatten ++ b) ++ post.flatten := by simp
  rw [e, List.head?_append] at hv
  cases hh : (pre.flatten ++ b).head? with
  | none => exact hp (List.head?_eq_none_iff.mp hh)
  | some u =>
    rw [hh, Option.some_or, Option.some.injEq] at hv
    subst hv
    exact hne (hall u (List.mem_of_mem_head? (by rw [hh]; rfl)))

/-- **refinement for the batch histories that return**: for every stamp-ordered history, however it is cut into `bi_merge` calls,
    if no call raises the code's history returns a store, and that store answers as-of reads and first reads as the publication log
    does.  (`read_spec_batches` says the same of the total `historyL`, also on histories on which the code raises.) -/
theorem read_spec_batches_returns (batches : List (List Version)) (h : Ordered batches.flatten) (hne : ¬ BatchRaises batches)
    (T : Option Int) :
    ∃ st, historyLE batches = .ok (some st) ∧ biRead st T (-1) = specRead batches.flatten T ∧
      biRead st T 0 = specFirst batches.flatten T := by
  obtain ⟨st, hst, hr⟩ := read_spec_batches batches h T
  exact ⟨st, by rw [(historyLE_eq batches).2 hne, hst], hr⟩

/-- ... and the other `Ordered` batch histories raise: `[[10: empty, 11: empty], [12: ...]]` is `Ordered`, `read_spec_batches` yields a
    store for it, the code (and `historyLE`) raise -/
theorem historyLE_raises : ∃ batches, Ordered batches.flatten ∧ historyLE batches = .error .value ∧
    ∃ st, historyL batches = some st := by
  refine ⟨[[⟨10, []⟩, ⟨11, []⟩], [⟨12, [(1, some 5)]⟩]], ⟨by simp, by decide, by decide⟩, ?_, ?_⟩
  · exact (historyLE_eq _).1 ⟨[], [⟨10, []⟩, ⟨11, []⟩], [[⟨12, [(1, some 5)]⟩]], rfl, by simp, by simp, by simp⟩
  · obtain ⟨st, hst, _⟩ := read_spec_batches [[⟨10, []⟩, ⟨11, []⟩], [⟨12, [(1, some 5)]⟩]] ⟨by simp, by decide, by decide⟩ Option.none
    exact ⟨st, hst⟩

-- the hypotheses of `read_spec_batches_returns` on a history with an empty version inside a later batch
example : Ordered ([[⟨10, [(1, some 5)]⟩], [⟨11, []⟩, ⟨11, [(1, Option.none), (2, some 7)]⟩], []] : List (List Version)).flatten ∧
    ¬ BatchRaises [[⟨10, [(1, some 5)]⟩], [⟨11, []⟩, ⟨11, [(1, Option.none), (2, some 7)]⟩], []] :=
  ⟨⟨by simp, by decide, by decide⟩, not_batchRaises_of_first _ ⟨10, [(1, some 5)]⟩ rfl (by simp)⟩

/-- **which earlier versions can be re-merged**: a version `w` of a stamp-ordered history shows, as of its stamp, exactly its own
    non-NaN values - the hypothesis `hvis` of `merge_idem` - provided no version merged after it under the SAME stamp publishes a
    different non-NaN value for one of its dates.  (The comment of `merge_idem` said this in prose; `last_version_visible` is the case
    `after = []`.)  Such a version need not be "in the store" row by row: a row that repeats the value before it is compressed away. -/
theorem earlier_version_visible (before : List Version) (w : Version) (after : List Version)
    (h : Ordered (before ++ w :: after)) (st : Store) (hst : history (before ++ w :: after) = some st)
    (hno : ∀ u ∈ after, u.stamp = w.stamp → ∀ p ∈ w.ts, ∀ x, p.2 = some x → ∀ y, (p.1, some y) ∈ u.ts → y = x) :
    ∀ p ∈ w.ts, ∃ y, (p.1, y) ∈ biRead st (some w.stamp) (-1) ∧ (p.2 = Option.none ∨ p.2 = y) := by
  intro p hp
  obtain ⟨st', hst', hr⟩ := read_spec _ h (some w.stamp)
  rw [hst] at hst'; cases hst'
  have hwf : w.ts.Sorted := h.wf w (by simp)
  have hW : col p.1 w.stamp [w] = [⟨p.1, w.stamp, p.2⟩] := by
    rw [col_cons, if_pos (Int.le_refl _), group_Bi_single w.ts w.stamp hwf p hp]
    simp [col, logRows, group]
  have hsplit : col p.1 w.stamp (before ++ w :: after) =
      col p.1 w.stamp before ++ ([⟨p.1, w.stamp, p.2⟩] ++ col p.1 w.stamp after) := by
    have e : before ++ w :: after = before ++ ([w] ++ after) := by simp
    rw [e, col_append, col_append, hW]
  refine ⟨lastVal (col p.1 w.stamp (before ++ w :: after)), ?_, ?_⟩
  · rw [hr, specRead_eq]
    simp only [specRows, List.mem_map, Prod.mk.injEq]
    refine ⟨p.1, ?_, rfl, by simp only [col, group_filter]⟩
    rw [mem_dates]
    refine ⟨⟨p.1, w.stamp, p.2⟩, List.mem_filter.mpr ⟨?_, by simp [vis]⟩, rfl⟩
    simp only [logRows, List.mem_flatMap, Bi, List.mem_map]
    exact ⟨w, by simp, p, hp, rfl⟩
  · cases hx : p.2 with
    | none => exact Or.inl rfl
    | some x =>
      right
      have hB : ∀ r ∈ col p.1 w.stamp after, r.val = Option.none ∨ r.val = some x := by
        intro r hr'
        obtain ⟨u, hu, huT, _, _, hpu⟩ := mem_col.mp hr'
        have hge : w.stamp ≤ u.stamp := by
          have hs := h.stamps
          rw [List.pairwise_append] at hs
          exact List.rel_of_pairwise_cons hs.2.1 hu
        cases hv : r.val with
        | none => exact Or.inl rfl
        | some y =>
          right
          rw [hv] at hpu
          rw [hno u hu (by omega) p hp x hx y hpu]
      rw [hsplit, lastVal_append, lastVal_append, hx]
      rcases lastVal_noop (some x) _ hB with e | e <;> rw [e] <;> simp [lastVal]

/-- **idempotence for the rest of the history, for every such version**: `merge_idem_future` with the hypothesis of `merge_idem`
    instead of "rows of the store": the re-merged `w` is a version of the log whose values are NaN or the values visible as of its
    stamp (by `earlier_version_visible`: every version that no same-stamp successor contradicts).  Whatever stamp-ordered versions
    follow, all as-of reads and first reads are those of the history without the re-merge. -/
theorem merge_idem_future_visible (log : List Version) (h : Ordered log) (st : Store) (hst : history log = some st) (w : Version)
    (hw : w ∈ log)
    (hvis : ∀ p ∈ w.ts, ∃ y, (p.1, y) ∈ biRead st (some w.stamp) (-1) ∧ (p.2 = Option.none ∨ p.2 = y))
    (later : List Version) (hl : Ordered (log ++ later)) (T : Option Int) :
    ∃ st₁ st₂, later.foldl (fun s v => some (biMerge s (Bi v.ts v.stamp))) (some (biMerge (some st) (Bi w.ts w.stamp))) = some st₁ ∧
      history (log ++ later) = some st₂ ∧
      biRead st₁ T (-1) = biRead st₂ T (-1) ∧ biRead st₁ T 0 = biRead st₂ T 0 ∧
      biRead st₁ T (-1) = specRead (log ++ later) T ∧ biRead st₁ T 0 = specFirst (log ++ later) T := by
  obtain ⟨st', hst', hinv⟩ := history_inv log h.ne h.wf h.stamps
  rw [hst] at hst'; cases hst'
  have hs := logRows_sorted _ hl.stamps
  have hsub : ∀ p ∈ w.ts, (⟨p.1, w.stamp, p.2⟩ : Row) ∈ logRows log := by
    intro p hp
    simp only [logRows, List.mem_flatMap, Bi, List.mem_map]
    exact ⟨w, hw, p, hp, rfl⟩
  obtain ⟨st₁, e1, i1⟩ := inv_foldl later _ log (inv_remerge_visible hinv w hsub hvis) hs
  obtain ⟨st₂, e2, i2⟩ := inv_foldl later st log hinv hs
  have hsl : ∀ d, SortedLe (group d (logRows (log ++ later))) := fun d => hs.sublist List.filter_sublist
  have r1 : biRead st₁ T (-1) = specRead (log ++ later) T := by
    rw [biRead_last st₁ i1.1, specRead_eq, specRows_congr i1.2.1]
  have r2 : biRead st₂ T (-1) = specRead (log ++ later) T := by
    rw [biRead_last st₂ i2.1, specRead_eq, specRows_congr i2.2.1]
  have f1 : biRead st₁ T 0 = specFirst (log ++ later) T := by
    rw [biRead_first st₁ i1.1, specFirst_eq]
    exact firstRows_congr i1.2.1 (fun d => (i1.1 d).1.le) hsl T
  have f2 : biRead st₂ T 0 = specFirst (log ++ later) T := by
    rw [biRead_first st₂ i2.1, specFirst_eq]
    exact firstRows_congr i2.2.1 (fun d => (i2.1 d).1.le) hsl T
  refine ⟨st₁, st₂, e1, ?_, r1.trans r2.symm, f1.trans f2.symm, r1, f1⟩
  rw [history_append, hst]; exact e2

-- `earlier_version_visible` on a version in the middle whose row is NOT a row of the store (`5@11` repeats `5@10` and is compressed away)
example : Ordered ([⟨10, [(1, some 5)]⟩] ++ ⟨11, [(1, some 5)]⟩ :: [⟨11, [(1, Option.none)]⟩, ⟨12, [(1, some 7)]⟩]) :=
  ⟨by simp, by decide, by decide⟩
#guard (history [⟨10, [(1, some 5)]⟩, ⟨11, [(1, some 5)]⟩, ⟨11, [(1, Option.none)]⟩, ⟨12, [(1, some 7)]⟩]) =
  some [⟨1, 10, some 5⟩, ⟨1, 12, some 7⟩]

/-! ## k5: re-merges INTERLEAVED with new versions (the form left open in i5) -/

/-- one `bi_merge` call of an interleaved history: a NEW version, or a version merged AGAIN -/
inductive Step
  | new (v : Version)
  | again (w : Version)

def Step.version : Step → Version
  | .new v => v
  | .again w => w

/-- the publications of an interleaved history: the new versions, in merge order (the re-merges publish nothing) -/
def news : List Step → List Version
  | [] => []
  | .new v :: ss => v :: news ss
  | .again _ :: ss => news ss

/-- the store after the calls: every step, new or again, is the same call `bi_merge(store, Bi(ts, stamp))` -/
def runSteps (st : Store) (ss : List Step) : Store :=
  ss.foldl (fun s x => biMerge (some s) (Bi x.version.ts x.version.stamp)) st

/-- `Interleaved pub st ss`: from the store `st` (publications so far: `pub`) every `again w` step of `ss` merges a version that is in the
    store AT THAT MOMENT - all its rows are rows of the current store - or a version published so far whose values are NaN or the
    values visible as of its stamp in the current store. -/
def Interleaved (pub : List Version) (st : Store) : List Step → Prop
  | [] => True
  | .new v :: ss => Interleaved (pub ++ [v]) (biMerge (some st) (Bi v.ts v.stamp)) ss
  | .again w :: ss =>
      ((∀ p ∈ w.ts, (⟨p.1, w.stamp, p.2⟩ : Row) ∈ st) ∨
        (w ∈ pub ∧ ∀ p ∈ w.ts, ∃ y, (p.1, y) ∈ biRead st (some w.stamp) (-1) ∧ (p.2 = Option.none ∨ p.2 = y))) ∧
      Interleaved pub (biMerge (some st) (Bi w.ts w.stamp)) ss

theorem inv_interleaved (ss : List Step) : ∀ (pub : List Version) (st : Store), Inv st (logRows pub) →
    SortedLe (logRows (pub ++ news ss)) → Interleaved pub st ss → Inv (runSteps st ss) (logRows (pub ++ news ss)) := by
  induction ss with
  | nil => intro pub st h _ _; simpa [news, runSteps] using h
  | cons s ss ih =>
    intro pub st h hs hi
    cases s with
    | new v =>
      simp only [news] at hs ⊢
      have e : pub ++ v :: news ss = (pub ++ [v]) ++ news ss := by simp
      rw [e] at hs ⊢
      have hs1 : SortedLe (logRows (pub ++ [v])) := by
        rw [logRows_append] at hs; exact (List.pairwise_append.mp hs).1
      have h1 : Inv (mergeFrames [st, Bi v.ts v.stamp]) (logRows (pub ++ [v])) := by
        rw [logRows_append, logRows_single] at hs1 ⊢
        exact inv_merge h hs1
      exact ih _ _ h1 hs hi
    | again w =>
      simp only [news] at hs ⊢
      obtain ⟨hw, hi'⟩ := hi
      refine ih pub _ ?_ hs hi'
      rcases hw with hin | ⟨hmem, hvis⟩
      · exact inv_remerge h w hin
      · refine inv_remerge_visible h w ?_ hvis
        intro p hp
        simp only [logRows, List.mem_flatMap, Bi, List.mem_map]
        exact ⟨w, hmem, p, hp, rfl⟩

/-- **idempotence, fully interleaved** (k5; open since round i5): in a history that goes on after `log`, ANY call may be the merge of a
    version that is already there - `again w`, at any position BETWEEN the new versions, any number of them, stamps in any order, also
    versions that were themselves published after `log` - as long as each is in the store when it is merged again (all its rows are rows
    of the current store, or it was published and its values are NaN or the values visible as of its stamp).  Then the final store reads -
    default read and first read, every `T` - exactly as the history in which none of these calls was made, i.e. as the fold of the
    publications `log ++ news ss`.  (`merge_idem_future` / `merge_idem_many` are the cases `again* new*`.) -/
theorem merge_idem_interleaved (log : List Version) (h : Ordered log) (st : Store) (hst : history log = some st)
    (ss : List Step) (hi : Interleaved log st ss) (hl : Ordered (log ++ news ss)) (T : Option Int) :
    ∃ st₂, history (log ++ news ss) = some st₂ ∧
      biRead (runSteps st ss) T (-1) = biRead st₂ T (-1) ∧ biRead (runSteps st ss) T 0 = biRead st₂ T 0 ∧
      biRead (runSteps st ss) T (-1) = specRead (log ++ news ss) T ∧ biRead (runSteps st ss) T 0 = specFirst (log ++ news ss) T := by
  obtain ⟨st', hst', hinv⟩ := history_inv log h.ne h.wf h.stamps
  rw [hst] at hst'; cases hst'
  have hs := logRows_sorted _ hl.stamps
  have i1 := inv_interleaved ss log st hinv hs hi
  obtain ⟨st₂, e2, r2⟩ := read_spec _ hl T
  obtain ⟨st₃, e3, f2⟩ := read_first _ hl T
  rw [e2] at e3; cases e3
  have hsl : ∀ d, SortedLe (group d (logRows (log ++ news ss))) := fun d => hs.sublist List.filter_sublist
  have r1 : biRead (runSteps st ss) T (-1) = specRead (log ++ news ss) T := by
    rw [biRead_last _ i1.1, specRead_eq, specRows_congr i1.2.1]
  have f1 : biRead (runSteps st ss) T 0 = specFirst (log ++ news ss) T := by
    rw [biRead_first _ i1.1, specFirst_eq]
    exact firstRows_congr i1.2.1 (fun d => (i1.1 d).1.le) hsl T
  exact ⟨st₂, e2, r1.trans r2.symm, f1.trans f2.symm, r1, f1⟩


/-- the hypothesis as a computation (for `#guard`s; `history` sorts with `List.mergeSort`, which the kernel does not unfold) -/
def interleavedChk (pub : List Version) (st : Store) : List Step → Bool
  | [] => true
  | .new v :: ss => interleavedChk (pub ++ [v]) (biMerge (some st) (Bi v.ts v.stamp)) ss
  | .again w :: ss =>
      (w.ts.all (fun p => decide ((⟨p.1, w.stamp, p.2⟩ : Row) ∈ st)) ||
        (pub.any (fun v => v.stamp == w.stamp && v.ts == w.ts) && w.ts.all fun p => (biRead st (some w.stamp) (-1)).any fun q => q.1 == p.1 && (p.2 == Option.none || p.2 == q.2))) &&
      interleavedChk pub (biMerge (some st) (Bi w.ts w.stamp)) ss

theorem interleaved_of_chk (ss : List Step) : ∀ (pub : List Version) (st : Store), interleavedChk pub st ss = true → Interleaved pub st ss := by
  induction ss with
  | nil => intros; trivial
  | cons s ss ih =>
    intro pub st h
    cases s with
    | new v => exact ih _ _ h
    | again w =>
      simp only [interleavedChk, Bool.and_eq_true, Bool.or_eq_true] at h
      refine ⟨?_, ih _ _ h.2⟩
      rcases h.1 with h1 | ⟨hc, h2⟩
      · exact Or.inl fun p hp => by simpa using List.all_eq_true.mp h1 p hp
      · have hmem : w ∈ pub := by
          obtain ⟨v, hv, he⟩ := List.any_eq_true.mp hc
          simp only [Bool.and_eq_true, beq_iff_eq] at he
          cases v; cases w; simp only at he; obtain ⟨rfl, rfl⟩ := he; exact hv
        refine Or.inr ⟨hmem, fun p hp => ?_⟩
        obtain ⟨q, hq, hqp⟩ := List.any_eq_true.mp (List.all_eq_true.mp h2 p hp)
        simp only [Bool.and_eq_true, Bool.or_eq_true, beq_iff_eq] at hqp
        exact ⟨q.2, by rw [← hqp.1]; exact hq, hqp.2⟩

-- satisfiable, non-trivially: `3@10 (dates 1,2), 5@11`; then 10 again, NEW `3@12`, 12 again (rows in the store), NEW `3@13` (a repeat: compressed away),
-- 13 again (published and visible, its row is NOT in the store), 10 again, NEW `7@13`
def ilDemo : List Step := [.again ⟨10, [(1, some 3), (2, some 1)]⟩, .new ⟨12, [(1, some 3)]⟩, .again ⟨12, [(1, some 3)]⟩, .new ⟨13, [(1, some 3)]⟩,
  .again ⟨13, [(1, some 3)]⟩, .again ⟨10, [(1, some 3), (2, some 1)]⟩, .new ⟨13, [(1, some 7)]⟩]
#guard ((history [⟨10, [(1, some 3), (2, some 1)]⟩, ⟨11, [(1, some 5)]⟩]).map fun st => interleavedChk [⟨10, [(1, some 3), (2, some 1)]⟩, ⟨11, [(1, some 5)]⟩] st ilDemo) = some true
example : Ordered ([⟨10, [(1, some 3), (2, some 1)]⟩, ⟨11, [(1, some 5)]⟩] ++ news ilDemo) := ⟨by simp [news, ilDemo], by decide, by decide⟩
#guard ((history [⟨10, [(1, some 3), (2, some 1)]⟩, ⟨11, [(1, some 5)]⟩]).map fun st => biRead (runSteps st ilDemo) Option.none (-1)) = some [(1, some 7), (2, some 1)]
-- not satisfiable for a version overridden under its own stamp (`5@10, 6@10`, again `5@10`): neither in the store nor visible
#guard ((history [⟨10, [(1, some 5)]⟩, ⟨10, [(1, some 6)]⟩]).map fun st =>
    interleavedChk [⟨10, [(1, some 5)]⟩, ⟨10, [(1, some 6)]⟩] st [.again ⟨10, [(1, some 5)]⟩]) = some false

end Pyg.Props.C17
