/-
  C10 — drange enumerates exactly t0, t0+bump, ... up to t1 for every kind of bump.
  Property theorems only (helper lemmas: PygProofs/Lemmas/DRangeLemmas.lean).

  Vocabulary: instants are microseconds (`Int`); `iter step i t0` is `step` applied `i` times;
  `IsRangeUp step t0 t1 l` says `l[i] = iter step i t0` for every index, every element is `≤ t1` and the next
  iterate is `> t1` (so `l` is exactly "start at t0 and repeatedly apply the bump while staying within [t0, t1]");
  `IsRangeDown` is the mirror image.  The generic theorems are stated for an abstract `step` that moves strictly
  forward (backward); they are instantiated — as theorems — for integer, timedelta, day/week/hour/minute/second and
  business-day bumps and their compounds.  For month-based units (m, q, y) the hypothesis "the bump moves strictly
  forward" is *not* proved of the Gregorian model (Civil.lean); those instances are only sampled by the
  correspondence check.
-/
import PygModel.DRange
import PygProofs.Lemmas.DRangeLemmas

namespace Pyg.Props.C10
open Pyg Pyg.DRange

/-- `t0 == t1` gives `[t0]` whatever the bump -/
theorem singleton (t : Int) (b : Bump) : drange t t b = .ok [t] := by
  simp [drange]

/-! ### the iteration branches over an abstract bump -/

/-- forward: the list is `t0, step t0, step (step t0), …` while `≤ t1`; it starts at `t0`, is strictly
increasing, stays within `[t0, t1]` and cannot be extended -/
theorem loop_forward (step : Int → Int) (hinc : ∀ t, t < step t) (t0 t1 : Int) (h : t0 < t1) :
    ∃ l, loopBranch step t0 t1 = .ok l ∧ IsRangeUp step t0 t1 l ∧ l.head? = some t0 ∧
      l.Pairwise (· < ·) ∧ ∀ x ∈ l, t0 ≤ x ∧ x ≤ t1 := by
  refine ⟨upTo step t0 t1, ?_, upTo_spec step hinc t1 t0, ?_, upTo_pairwise step hinc t1 t0, upTo_mem step hinc t1 t0⟩
  · have := hinc t0
    have h1 : t1 > t0 := h
    have h2 : ¬ step t0 ≤ t0 := by omega
    simp [loopBranch, h1, h2]
  · exact IsRangeUp.head (upTo_spec step hinc t1 t0) (by omega)

theorem loop_backward (step : Int → Int) (hdec : ∀ t, step t < t) (t0 t1 : Int) (h : t1 < t0) :
    ∃ l, loopBranch step t0 t1 = .ok l ∧ IsRangeDown step t0 t1 l ∧ l.head? = some t0 ∧
      l.Pairwise (· > ·) ∧ ∀ x ∈ l, t1 ≤ x ∧ x ≤ t0 := by
  refine ⟨downTo step t0 t1, ?_, downTo_spec step hdec t1 t0, ?_, downTo_pairwise step hdec t1 t0, downTo_mem step hdec t1 t0⟩
  · have := hdec t0
    have h1 : ¬ t1 > t0 := by omega
    have h2 : ¬ step t0 ≥ t0 := by omega
    simp [loopBranch, h1, h, h2]
  · exact IsRangeDown.head (downTo_spec step hdec t1 t0) (by omega)

/-- a bump pointing away from `t1` (or standing still) raises `ValueError` -/
theorem loop_away (step : Int → Int) (t0 t1 : Int)
    (h : (t0 < t1 ∧ step t0 ≤ t0) ∨ (t1 < t0 ∧ t0 ≤ step t0)) : loopBranch step t0 t1 = .error .value := by
  rcases h with ⟨h1, h2⟩ | ⟨h1, h2⟩
  · have : t1 > t0 := h1
    simp [loopBranch, this, h2]
  · have a : ¬ t1 > t0 := by omega
    have b : step t0 ≥ t0 := h2
    simp [loopBranch, a, h1, b]

/-! ### timedelta bumps (incl. intraday) -/

theorem iter_add (us : Int) : ∀ (i : Nat) (t : Int), iter (· + us) i t = t + us * i
  | 0, t => by simp [iter]
  | i + 1, t => by
    rw [iterate_succ', iter_add us i (t + us)]
    rw [Int.natCast_succ, Int.mul_add, Int.mul_one]; omega

theorem td_forward (t0 t1 us : Int) (hus : 0 < us) (h : t0 < t1) :
    ∃ l, drange t0 t1 (.td us) = .ok l ∧ IsRangeUp (· + us) t0 t1 l ∧ l.head? = some t0 ∧
      (∀ i, i < l.length → l[i]? = some (t0 + us * i)) := by
  obtain ⟨l, h1, h2, h3, _⟩ := loop_forward (· + us) (fun t => by omega) t0 t1 h
  refine ⟨l, ?_, h2, h3, fun i hi => ?_⟩
  · have : t0 ≠ t1 := by omega
    simp [drange, this, h1]
  · rw [← iter_add us i t0]; exact (h2.1 i hi).1

theorem td_backward (t0 t1 us : Int) (hus : us < 0) (h : t1 < t0) :
    ∃ l, drange t0 t1 (.td us) = .ok l ∧ IsRangeDown (· + us) t0 t1 l ∧ l.head? = some t0 ∧
      (∀ i, i < l.length → l[i]? = some (t0 + us * i)) := by
  obtain ⟨l, h1, h2, h3, _⟩ := loop_backward (· + us) (fun t => by omega) t0 t1 h
  refine ⟨l, ?_, h2, h3, fun i hi => ?_⟩
  · have : t0 ≠ t1 := by omega
    simp [drange, this, h1]
  · rw [← iter_add us i t0]; exact (h2.1 i hi).1

theorem td_away (t0 t1 us : Int) (h : (t0 < t1 ∧ us ≤ 0) ∨ (t1 < t0 ∧ 0 ≤ us)) :
    drange t0 t1 (.td us) = .error .value := by
  have hne : t0 ≠ t1 := by omega
  have := loop_away (· + us) t0 t1 (by rcases h with ⟨a, b⟩ | ⟨a, b⟩; exact Or.inl ⟨a, by omega⟩; exact Or.inr ⟨a, by omega⟩)
  simp [drange, hne, this]

/-! ### integer bumps: `n`, `timedelta(n)` and `'nd'` give identical lists -/

/-- the integer branch (rrule over the daily grid, reversed, strided) is the iteration by `n` days -/
theorem int_eq_iterate (t0 t1 n : Int) (hne : t0 ≠ t1) (hn : n ≠ 0) (hal : (t1 - t0) % DAY = 0) :
    drange t0 t1 (.int n) = loopBranch (· + DAY * n) t0 t1 := by
  simp only [drange, hne, if_false, drangeInt]
  by_cases hlt : t0 < t1
  · have hd := tdDays_pos (t1 - t0) (by omega) hal
    by_cases hpos : 0 < n
    · have : ¬ tdDays (t1 - t0) * n ≤ 0 := by have := Int.mul_pos hd hpos; omega
      have h1 : t1 > t0 := hlt
      have h2 : ¬ (t0 + DAY * n ≤ t0) := by unfold DAY; omega
      simp only [this, if_false, loopBranch, h1, if_true, h2]
      rw [show min t0 t1 = t0 by omega, show max t0 t1 = t1 by omega, orient_pos n hpos]
    · have hneg : n < 0 := by omega
      have : tdDays (t1 - t0) * n ≤ 0 := by have := Int.mul_neg_of_pos_of_neg hd hneg; omega
      have h1 : t1 > t0 := hlt
      have h2 : t0 + DAY * n ≤ t0 := by unfold DAY; omega
      simp only [this, if_true, loopBranch, h1, h2]
  · have hgt : t1 < t0 := by omega
    have hd := tdDays_neg (t1 - t0) (by omega)
    have h1 : ¬ t1 > t0 := by omega
    by_cases hpos : 0 < n
    · have : tdDays (t1 - t0) * n ≤ 0 := by have := Int.mul_neg_of_neg_of_pos hd hpos; omega
      have h2 : t0 + DAY * n ≥ t0 := by unfold DAY; omega
      simp only [this, if_true, loopBranch, h1, if_false, hgt, h2]
    · have hneg : n < 0 := by omega
      have : ¬ tdDays (t1 - t0) * n ≤ 0 := by have := Int.mul_pos_of_neg_of_neg hd hneg; omega
      have h2 : ¬ (t0 + DAY * n ≥ t0) := by unfold DAY; omega
      simp only [this, if_false, loopBranch, h1, hgt, if_true, h2]
      rw [show min t0 t1 = t1 by omega, show max t0 t1 = t0 by omega,
        orient_neg n hneg t1 t0 (by unfold DAY at *; omega)]

theorem int_td_str_agree (t0 t1 n : Int) (hn : n ≠ 0) (hal : (t1 - t0) % DAY = 0) :
    drange t0 t1 (.int n) = drange t0 t1 (.td (DAY * n)) ∧
    drange t0 t1 (.int n) = drange t0 t1 (.period [(n, .d)]) := by
  by_cases hne : t0 = t1
  · subst hne; simp [singleton]
  · rw [int_eq_iterate t0 t1 n hne hn hal]
    refine ⟨by simp [drange, hne], ?_⟩
    have hstep : dtBump [(n, Per.d)] = (· + DAY * n) := by funext t; rfl
    have hr : rruleStep n Per.d = (· + DAY * n) := by funext t; rfl
    simp only [drange, hne, if_false]
    by_cases hpos : 0 < n
    · have hn' : n > 0 := hpos
      have hq : ¬ (Per.d = Per.q) := by decide
      have hb : ¬ (Per.d = Per.b) := by decide
      simp only [hb, false_or, hn', if_true, hq, if_false, Int.mul_one, hr]
      by_cases hlt : t0 < t1
      · have hd := tdDays_pos (t1 - t0) (by omega) hal
        have : ¬ tdDays (t1 - t0) * n < 0 := by have := Int.mul_pos hd hpos; omega
        have h1 : t1 > t0 := hlt
        have h2 : ¬ (t0 + DAY * n ≤ t0) := by unfold DAY; omega
        simp only [this, if_false, loopBranch, h1, if_true, h2]
      · have hd := tdDays_neg (t1 - t0) (by omega)
        have : tdDays (t1 - t0) * n < 0 := Int.mul_neg_of_neg_of_pos hd hpos
        have h1 : ¬ t1 > t0 := by omega
        have h3 : t1 < t0 := by omega
        have h2 : t0 + DAY * n ≥ t0 := by unfold DAY; omega
        simp only [this, if_true, loopBranch, h1, if_false, h3, h2]
    · have hn' : ¬ n > 0 := by omega
      have hb : ¬ (Per.d = Per.b) := by decide
      simp only [hb, false_or, hn', if_false, hstep]

/-- whole days apart, an integer bump of the wrong sign raises `ValueError` -/
theorem int_away (t0 t1 n : Int) (hal : (t1 - t0) % DAY = 0)
    (h : (t0 < t1 ∧ n ≤ 0) ∨ (t1 < t0 ∧ 0 ≤ n)) : drange t0 t1 (.int n) = .error .value := by
  have hne : t0 ≠ t1 := by omega
  by_cases hn : n = 0
  · subst hn; simp [drange, hne, drangeInt]
  · rw [int_eq_iterate t0 t1 n hne hn hal]
    apply loop_away
    rcases h with ⟨a, b⟩ | ⟨a, b⟩
    · exact Or.inl ⟨a, by unfold DAY; omega⟩
    · exact Or.inr ⟨a, by unfold DAY; omega⟩

/-- no bump given: one day per step towards `t1` -/
theorem none_default (t0 t1 : Int) :
    drange t0 t1 .none = drange t0 t1 (.int (if t0 < t1 then 1 else -1)) := by
  simp [drange]

/-! ### period strings -/

/-- compound period strings (two or more parts) are iterated with `dt_bump`; stated for any bump that moves
strictly forward -/
theorem compound_forward (p q : Int × Per) (rest : List (Int × Per)) (t0 t1 : Int) (h : t0 < t1)
    (hinc : ∀ t, t < dtBump (p :: q :: rest) t) :
    ∃ l, drange t0 t1 (.period (p :: q :: rest)) = .ok l ∧ IsRangeUp (dtBump (p :: q :: rest)) t0 t1 l ∧
      l.head? = some t0 ∧ l.Pairwise (· < ·) ∧ ∀ x ∈ l, t0 ≤ x ∧ x ≤ t1 := by
  obtain ⟨l, h1, h2⟩ := loop_forward _ hinc t0 t1 h
  refine ⟨l, ?_, h2⟩
  have : t0 ≠ t1 := by omega
  simp [drange, this, h1]

theorem compound_backward (p q : Int × Per) (rest : List (Int × Per)) (t0 t1 : Int) (h : t1 < t0)
    (hdec : ∀ t, dtBump (p :: q :: rest) t < t) :
    ∃ l, drange t0 t1 (.period (p :: q :: rest)) = .ok l ∧ IsRangeDown (dtBump (p :: q :: rest)) t0 t1 l ∧
      l.head? = some t0 ∧ l.Pairwise (· > ·) ∧ ∀ x ∈ l, t1 ≤ x ∧ x ≤ t0 := by
  obtain ⟨l, h1, h2⟩ := loop_backward _ hdec t0 t1 h
  refine ⟨l, ?_, h2⟩
  have : t0 ≠ t1 := by omega
  simp [drange, this, h1]

/-- the hypothesis of `compound_forward` is a theorem for parts made of d, w, h, n, s, b with positive counts
(and `dtBump_dec` for negative counts) -/
theorem fixed_parts_move_forward (parts : List (Int × Per)) (hne : parts ≠ [])
    (hp : ∀ p ∈ parts, p.2.fixed = true ∧ 1 ≤ p.1) : ∀ t, t < dtBump parts t :=
  fun t => dtBump_inc parts t hne hp

theorem fixed_parts_move_backward (parts : List (Int × Per)) (hne : parts ≠ [])
    (hp : ∀ p ∈ parts, p.2.fixed = true ∧ p.1 ≤ -1) : ∀ t, dtBump parts t < t :=
  fun t => dtBump_dec parts t hne hp

/-- a single period with a positive count (the rrule branch): the list obtained by iterating the period -/
theorem single_forward (n : Int) (u : Per) (hu : u ≠ .b) (hn : 0 < n) (t0 t1 : Int) (h : t0 < t1)
    (hinc : ∀ t, t < rruleStep n u t) :
    ∃ l, drange t0 t1 (.period [(n, u)]) = .ok l ∧ IsRangeUp (rruleStep n u) t0 t1 l ∧ l.head? = some t0 ∧
      l.Pairwise (· < ·) ∧ ∀ x ∈ l, t0 ≤ x ∧ x ≤ t1 := by
  refine ⟨upTo (rruleStep n u) t0 t1, ?_, upTo_spec _ hinc t1 t0, IsRangeUp.head (upTo_spec _ hinc t1 t0) (by omega),
    upTo_pairwise _ hinc t1 t0, upTo_mem _ hinc t1 t0⟩
  have hne : t0 ≠ t1 := by omega
  have hn' : n > 0 := hn
  have hd := tdDays_nonneg (t1 - t0) (by omega)
  have hi : 0 < n * (if u = Per.q then 3 else 1) := by split <;> omega
  have : ¬ tdDays (t1 - t0) * (n * (if u = Per.q then 3 else 1)) < 0 := by
    have := Int.mul_nonneg hd (Int.le_of_lt hi); omega
  simp only [drange, hne, if_false, hu, false_or, hn', if_true, this]

/-- a single period with a negative count (the repaired branch, F3): iterated backwards with `dt_bump` -/
theorem single_backward (n : Int) (u : Per) (hu : u ≠ .b) (hn : n < 0) (t0 t1 : Int) (h : t1 < t0)
    (hdec : ∀ t, dtBump [(n, u)] t < t) :
    ∃ l, drange t0 t1 (.period [(n, u)]) = .ok l ∧ IsRangeDown (dtBump [(n, u)]) t0 t1 l ∧ l.head? = some t0 ∧
      l.Pairwise (· > ·) ∧ ∀ x ∈ l, t1 ≤ x ∧ x ≤ t0 := by
  obtain ⟨l, h1, h2⟩ := loop_backward _ hdec t0 t1 h
  refine ⟨l, ?_, h2⟩
  have hne : t0 ≠ t1 := by omega
  have hn' : ¬ n > 0 := by omega
  simp only [drange, hne, if_false, hu, false_or, hn', h1]

/-- single period strings give the list obtained by iterating `dt_bump`: for units of fixed length always, for
month-based units from midnight (the rrule step keeps the time of day, `dt_bump` drops it) -/
theorem single_eq_iter_dtbump (n : Int) (u : Per) (hu : u ≠ .b) (hn : 0 < n) (t0 t1 : Int) (h : t0 < t1)
    (hmid : u.fixed = false → t0 % DAY = 0) (hfwd : t0 < dtBump [(n, u)] t0) :
    drange t0 t1 (.period [(n, u)]) = loopBranch (dtBump [(n, u)]) t0 t1 := by
  have hne : t0 ≠ t1 := by omega
  have hn' : n > 0 := hn
  have hd := tdDays_nonneg (t1 - t0) (by omega)
  have hi : 0 < n * (if u = Per.q then 3 else 1) := by split <;> omega
  have : ¬ tdDays (t1 - t0) * (n * (if u = Per.q then 3 else 1)) < 0 := by
    have := Int.mul_nonneg hd (Int.le_of_lt hi); omega
  have h1 : t1 > t0 := h
  have h2 : ¬ dtBump [(n, u)] t0 ≤ t0 := by omega
  simp only [drange, hne, if_false, hu, false_or, hn', if_true, this, loopBranch, h1, h2]
  congr 1
  unfold upTo
  have hstep : dtBump [(n, u)] = fun t => bump1 t n u := by funext t; rfl
  rw [hstep]
  by_cases hf : u.fixed = true
  · congr 1
    funext t
    cases u <;> simp [Per.fixed] at hf <;> rfl
  · have hf' : u.fixed = false := by simpa using hf
    have hm := hmid hf'
    apply iterUp_congr _ _ (fun t => t % DAY = 0) _ t1 _ t0 hm
    intro t ht
    have e : rruleStep n u t = bump1 t n u := by
      cases u <;> simp [Per.fixed] at hf' <;> simp [rruleStep, ht]
    refine ⟨e, ?_⟩
    cases u <;> simp [Per.fixed] at hf' <;> simp [bump1, monthBump, yearBump, Int.mul_emod_left]

/-- period strings pointing away from `t1`: a positive count with `t1 < t0` -/
theorem single_away_pos (n : Int) (u : Per) (hn : 0 < n) (t0 t1 : Int) (h : t1 < t0) :
    drange t0 t1 (.period [(n, u)]) = .error .value := by
  have hne : t0 ≠ t1 := by omega
  have hn' : n > 0 := hn
  have hd := tdDays_neg (t1 - t0) (by omega)
  have hi : 0 < n * (if u = Per.q then 3 else 1) := by split <;> omega
  have : tdDays (t1 - t0) * (n * (if u = Per.q then 3 else 1)) < 0 := Int.mul_neg_of_neg_of_pos hd hi
  simp only [drange, hne, if_false, hn', or_true, if_true, this]

/-- …and a negative count of a fixed-length unit with `t0 < t1` (on the pinned tree this returned `[]` whenever
`t1` was less than a day ahead) -/
theorem single_away_neg (n : Int) (u : Per) (hu : u ≠ .b) (hf : u.fixed = true) (hn : n < 0) (t0 t1 : Int) (h : t0 < t1) :
    drange t0 t1 (.period [(n, u)]) = .error .value := by
  have hne : t0 ≠ t1 := by omega
  have hn' : ¬ n > 0 := by omega
  have hdec := dtBump_dec [(n, u)] t0 (by simp) (fun p hp => by simp at hp; subst hp; exact ⟨hf, by omega⟩)
  have := loop_away (dtBump [(n, u)]) t0 t1 (Or.inl ⟨h, by omega⟩)
  simp only [drange, hne, if_false, hu, false_or, hn', this]

/-! ### business-day bumps -/

theorem mem_daily (lo hi : Int) : ∀ x, x ∈ daily lo hi ↔ lo ≤ x ∧ x ≤ hi ∧ (x - lo) % DAY = 0 := by
  have hinc1 : ∀ t : Int, t < t + DAY := by intro t; unfold DAY; omega
  unfold daily
  apply upTo_induction (· + DAY) hinc1 hi (fun t l => ∀ x, x ∈ l ↔ t ≤ x ∧ x ≤ hi ∧ (x - t) % DAY = 0)
  · intro t h x; simp; omega
  · intro t hle ih x
    rw [List.mem_cons, ih x]
    unfold DAY at *
    omega

/-- `'1b'` lists exactly the weekdays of the daily grid between the endpoints, in increasing order -/
theorem b_is_weekday_list (t0 t1 : Int) (h : t0 < t1) :
    ∃ l, drange t0 t1 (.period [(1, .b)]) = .ok l ∧ l.Pairwise (· < ·) ∧
      ∀ x, x ∈ l ↔ t0 ≤ x ∧ x ≤ t1 ∧ (x - t0) % DAY = 0 ∧ wdT x < 5 := by
  have hinc1 : ∀ t : Int, t < t + DAY := by intro t; unfold DAY; omega
  refine ⟨(daily t0 t1).filter fun t => wdT t < 5, ?_, (upTo_pairwise _ hinc1 t1 t0).filter _, ?_⟩
  · have hne : t0 ≠ t1 := by omega
    have hd := tdDays_nonneg (t1 - t0) (by omega)
    have : ¬ tdDays (t1 - t0) * (1 * 1) < 0 := by omega
    have hq : ¬ (Per.b = Per.q) := by decide
    simp only [drange, hne, if_false, true_or, if_true, hq, this]
    rw [show min t0 t1 = t0 by omega, show max t0 t1 = t1 by omega]
    simp [orient]
  · intro x
    rw [List.mem_filter, mem_daily]
    simp only [decide_eq_true_eq]
    omega

/-- `'kb'` (k ≥ 1) is every k-th element of the `'1b'` list, `'-kb'` every k-th of the reversed list -/
theorem kb_stride (k : Int) (hk : 1 ≤ k) (t0 t1 : Int) (h : t0 < t1) :
    drange t0 t1 (.period [(k, .b)]) =
      .ok (if k.natAbs > 1 then stride k.natAbs ((daily t0 t1).filter fun t => wdT t < 5)
           else (daily t0 t1).filter fun t => wdT t < 5) := by
  have hne : t0 ≠ t1 := by omega
  have hd := tdDays_nonneg (t1 - t0) (by omega)
  have : ¬ tdDays (t1 - t0) * (k * 1) < 0 := by
    have := Int.mul_nonneg hd (show (0 : Int) ≤ k * 1 by omega); omega
  have hq : ¬ (Per.b = Per.q) := by decide
  have hk0 : ¬ k * 1 < 0 := by omega
  simp only [drange, hne, if_false, true_or, if_true, hq, this, orient, hk0]
  rw [show min t0 t1 = t0 by omega, show max t0 t1 = t1 by omega, Int.mul_one]

theorem kb_stride_backward (k : Int) (hk : k ≤ -1) (t0 t1 : Int) (h : t1 < t0) :
    drange t0 t1 (.period [(k, .b)]) =
      .ok (if k.natAbs > 1 then stride k.natAbs ((daily t1 t0).filter fun t => wdT t < 5).reverse
           else ((daily t1 t0).filter fun t => wdT t < 5).reverse) := by
  have hne : t0 ≠ t1 := by omega
  have hd := tdDays_neg (t1 - t0) (by omega)
  have : ¬ tdDays (t1 - t0) * (k * 1) < 0 := by
    have := Int.mul_pos_of_neg_of_neg hd (show k * 1 < 0 by omega); omega
  have hq : ¬ (Per.b = Per.q) := by decide
  have hk0 : k * 1 < 0 := by omega
  simp only [drange, hne, if_false, true_or, if_true, hq, this, orient, hk0]
  rw [show min t0 t1 = t1 by omega, show max t0 t1 = t0 by omega, Int.mul_one]

/-- what "every k-th" means: element `i` of `l[::k]` is element `k*i` of `l` -/
theorem stride_getElem? {α} (k : Nat) (hk : 1 ≤ k) (l : List α) (i : Nat) : (stride k l)[i]? = l[k * i]? := by
  have go : ∀ (l : List α) (j i : Nat), (strideGo k l j)[i]? = l[j + k * i]? := by
    intro l
    induction l with
    | nil => intro j i; simp [strideGo_nil]
    | cons x xs ih =>
      intro j i
      cases j with
      | zero =>
        cases i with
        | zero => simp [strideGo]
        | succ i =>
          simp only [strideGo, List.getElem?_cons_succ, ih]
          have : 0 + k * (i + 1) = (k - 1 + k * i) + 1 := by rw [Nat.mul_succ]; omega
          rw [this, List.getElem?_cons_succ]
      | succ j =>
        simp only [strideGo, ih]
        have : j + 1 + k * i = (j + k * i) + 1 := by omega
        rw [this, List.getElem?_cons_succ]
  have := go l 0 i
  simpa [stride] using this

/-- a business-day bump pointing away from `t1` raises `ValueError` -/
theorem b_away (k : Int) (t0 t1 : Int) (hal : (t1 - t0) % DAY = 0)
    (h : (t0 < t1 ∧ k ≤ -1) ∨ (t1 < t0 ∧ 1 ≤ k)) : drange t0 t1 (.period [(k, .b)]) = .error .value := by
  have hne : t0 ≠ t1 := by omega
  have hq : ¬ (Per.b = Per.q) := by decide
  have : tdDays (t1 - t0) * (k * 1) < 0 := by
    rcases h with ⟨a, b⟩ | ⟨a, b⟩
    · exact Int.mul_neg_of_pos_of_neg (tdDays_pos _ (by omega) hal) (by omega)
    · exact Int.mul_neg_of_neg_of_pos (tdDays_neg _ (by omega)) (by omega)
  simp only [drange, hne, if_false, true_or, if_true, hq, this]

/-! ### non-vacuity (2000-01-01 00:00 = 63082281600000000 µs, a Saturday) -/

example : drange 63082281600000000 (63082281600000000 + 9 * DAY) (.int 3)
    = .ok [63082281600000000, 63082281600000000 + 3 * DAY, 63082281600000000 + 6 * DAY, 63082281600000000 + 9 * DAY] := by rfl
example : drange (63082281600000000 + 9 * DAY) 63082281600000000 (.period [(-3, .d)])
    = .ok [63082281600000000 + 9 * DAY, 63082281600000000 + 6 * DAY, 63082281600000000 + 3 * DAY, 63082281600000000] := by rfl
example : drange 63082281600000000 (63082281600000000 + 4 * DAY) (.period [(1, .b)])
    = .ok [63082281600000000 + 2 * DAY, 63082281600000000 + 3 * DAY, 63082281600000000 + 4 * DAY] := by rfl
/-- the hypotheses of `int_td_str_agree`, `fixed_parts_move_forward` and `single_eq_iter_dtbump` are satisfiable -/
example : (3 : Int) ≠ 0 ∧ ((63082281600000000 + 9 * DAY) - 63082281600000000) % DAY = 0 := by decide
example : ∀ p ∈ [((1 : Int), Per.w), (2, Per.b), (12, Per.h)], p.2.fixed = true ∧ 1 ≤ p.1 := by decide
example : (63082281600000000 : Int) % DAY = 0 ∧ 63082281600000000 < dtBump [(1, .m)] 63082281600000000 := by decide

end Pyg.Props.C10
