/-
  C10 — drange enumerates exactly t0, t0+bump, ... up to t1 for every kind of bump.
-/
import PygModel.DRange

namespace Pyg.Props.C10
open Pyg Pyg.DRange

/-- `t0 == t1` gives `[t0]` whatever the bump -/
theorem singleton (t : Int) (b : Bump) : drange t t b = .ok [t] := by
  simp [drange]

end Pyg.Props.C10
