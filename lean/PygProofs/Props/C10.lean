/-
  C10 — drange enumerates exactly t0, t0+bump, ... up to t1 for every kind of bump.
  Property theorems only (helper lemmas: PygProofs/Lemmas/DRangeLemmas.lean).

  Vocabulary: instants are microseconds (`Int`); `iter step i t0` is `step` applied `i` times;
  `IsRangeUp step t0 t1 l` says `l[i] = iter step i t0` for every index, every element is `≤ t1` and the next
  iterate is `> t1` (so `l` is exactly "start at t0 and repeatedly apply the bump while staying within [t0, t1]");
  `IsRangeDown` is the mirror image.  The generic theorems are stated for an abstract `step` that moves strictly
  forward (backward); they are instantiated — as theorems — for integer, timedelta, day/week/hour/minute/second and
  business-day bumps, and — since the Gregorian arithmetic of Civil.lean is proved (CivilLemmas.lean: round trips for
  every day number, months contiguous; CivilGreg.lean: equal to CPython's algorithms `Pyg.Greg`) — also for month,
  quarter and year bumps and every compound of same-sign parts (`month_step_strict`, `single_forward_month`,
  `single_backward_month`, `compound_forward_all`, `compound_backward_all`): no sampled hypothesis is left.
  The step the ranges are specified with is the C09 model of `dt_bump` (`Pyg.Bump`): `dtbump_is_c09`,
  `single_eq_iter_dtbump`, `compound_c09`.
-/
import PygModel.DRange
import PygProofs.Lemmas.DRangeLemmas
import PygProofs.Lemmas.DRangeMonth
import PygProofs.Lemmas.DRangeBump
import PygProofs.Lemmas.DRangeBday
import PygProofs.Props.C09
import PygModel.DateRange
import PygProofs.Lemmas.ResDec

namespace Pyg.Props.C10
open Pyg Pyg.DRange

/-- `t0 == t1` gives `[t0]` whatever the bump -/
theorem singleton (t : Int) (b : Bump) : drange t t b = .ok [t] := by
  simp [drange]

/-! ### the iteration branches over an abstract bump -/

/-- forward: the list is `t0, step t0, step (step t0), …` while `≤ t1`; it starts at `t0`, is strictly
increasing, stays within `[t0, t1]` and cannot be extended -/
theorem loop_forward (step : Int → Int) (hinc : ∀ t, t < step t) (t0 t1 : Int) (h : t0 < t1) :
    ∃ l, loopBranch step t0 t1 = .ok l ∧ IsRangeUp step t0 t1 l ∧ l.head? = some t0 ∧
      l.Pairwise (· < ·) ∧ ∀ x ∈ l, t0 ≤ x ∧ x ≤ t1 := by
  refine ⟨upTo step t0 t1, ?_, upTo_spec step hinc t1 t0, ?_, upTo_pairwise step hinc t1 t0, upTo_mem step hinc t1 t0⟩
  · have := hinc t0
    have h1 : t1 > t0 := h
    have h2 : ¬ step t0 ≤ t0 := by omega
    simp [loopBranch, h1, h2]
  · exact IsRangeUp.head (upTo_spec step hinc t1 t0) (by omega)

theorem loop_backward (step : Int → Int) (hdec : ∀ t, step t < t) (t0 t1 : Int) (h : t1 < t0) :
    ∃ l, loopBranch step t0 t1 = .ok l ∧ IsRangeDown step t0 t1 l ∧ l.head? = some t0 ∧
      l.Pairwise (· > ·) ∧ ∀ x ∈ l, t1 ≤ x ∧ x ≤ t0 := by
  refine ⟨downTo step t0 t1, ?_, downTo_spec step hdec t1 t0, ?_, downTo_pairwise step hdec t1 t0, downTo_mem step hdec t1 t0⟩
  · have := hdec t0
    have h1 : ¬ t1 > t0 := by omega
    have h2 : ¬ step t0 ≥ t0 := by omega
    simp [loopBranch, h1, h, h2]
  · exact IsRangeDown.head (downTo_spec step hdec t1 t0) (by omega)

/-- a bump pointing away from `t1` (or standing still) raises `ValueError` -/
theorem loop_away (step : Int → Int) (t0 t1 : Int)
    (h : (t0 < t1 ∧ step t0 ≤ t0) ∨ (t1 < t0 ∧ t0 ≤ step t0)) : loopBranch step t0 t1 = .error .value := by
  rcases h with ⟨h1, h2⟩ | ⟨h1, h2⟩
  · have : t1 > t0 := h1
    simp [loopBranch, this, h2]
  · have a : ¬ t1 > t0 := by omega
    have b : step t0 ≥ t0 := h2
    simp [loopBranch, a, h1, b]

/-- the same for the checked `dt_bump` loops -/
theorem loopC_away (step : Int → Int) (t0 t1 : Int)
    (h : (t0 < t1 ∧ step t0 ≤ t0) ∨ (t1 < t0 ∧ t0 ≤ step t0)) : loopBranchC step t0 t1 = .error .value := by
  unfold loopBranchC
  rcases h with ⟨h1, h2⟩ | ⟨h1, h2⟩
  · have a : t1 > t0 := h1
    have b : t0 ≤ t1 := by omega
    rw [if_pos a]; unfold iterUpC; rw [if_pos b, if_pos h2]
  · have a : ¬ t1 > t0 := by omega
    have b : t0 ≥ t1 := by omega
    have c : step t0 ≥ t0 := h2
    rw [if_neg a, if_pos h1]; unfold iterDownC; rw [if_pos b, if_pos c]

/-! ### timedelta bumps (incl. intraday) -/

theorem iter_add (us : Int) : ∀ (i : Nat) (t : Int), iter (· + us) i t = t + us * i
  | 0, t => by simp [iter]
  | i + 1, t => by
    rw [iterate_succ', iter_add us i (t + us)]
    rw [Int.natCast_succ, Int.mul_add, Int.mul_one]; omega

theorem td_forward (t0 t1 us : Int) (hus : 0 < us) (h : t0 < t1) :
    ∃ l, drange t0 t1 (.td us) = .ok l ∧ IsRangeUp (· + us) t0 t1 l ∧ l.head? = some t0 ∧
      (∀ i, i < l.length → l[i]? = some (t0 + us * i)) := by
  obtain ⟨l, h1, h2, h3, _⟩ := loop_forward (· + us) (fun t => by omega) t0 t1 h
  refine ⟨l, ?_, h2, h3, fun i hi => ?_⟩
  · have : t0 ≠ t1 := by omega
    simp [drange, this, h1]
  · rw [← iter_add us i t0]; exact (h2.1 i hi).1

theorem td_backward (t0 t1 us : Int) (hus : us < 0) (h : t1 < t0) :
    ∃ l, drange t0 t1 (.td us) = .ok l ∧ IsRangeDown (· + us) t0 t1 l ∧ l.head? = some t0 ∧
      (∀ i, i < l.length → l[i]? = some (t0 + us * i)) := by
  obtain ⟨l, h1, h2, h3, _⟩ := loop_backward (· + us) (fun t => by omega) t0 t1 h
  refine ⟨l, ?_, h2, h3, fun i hi => ?_⟩
  · have : t0 ≠ t1 := by omega
    simp [drange, this, h1]
  · rw [← iter_add us i t0]; exact (h2.1 i hi).1

theorem td_away (t0 t1 us : Int) (h : (t0 < t1 ∧ us ≤ 0) ∨ (t1 < t0 ∧ 0 ≤ us)) :
    drange t0 t1 (.td us) = .error .value := by
  have hne : t0 ≠ t1 := by omega
  have := loop_away (· + us) t0 t1 (by rcases h with ⟨a, b⟩ | ⟨a, b⟩; exact Or.inl ⟨a, by omega⟩; exact Or.inr ⟨a, by omega⟩)
  simp [drange, hne, this]

/-! ### integer bumps: `n`, `timedelta(n)` and `'nd'` give identical lists -/

/-- the integer branch (rrule over the daily grid, reversed, strided) is the iteration by `n` days -/
theorem int_eq_iterate (t0 t1 n : Int) (hne : t0 ≠ t1) (hn : n ≠ 0) (hal : (t1 - t0) % DAY = 0) :
    drange t0 t1 (.int n) = loopBranch (· + DAY * n) t0 t1 := by
  simp only [drange, hne, if_false, drangeInt]
  by_cases hlt : t0 < t1
  · have hd := tdDays_pos (t1 - t0) (by omega) hal
    by_cases hpos : 0 < n
    · have : ¬ tdDays (t1 - t0) * n ≤ 0 := by have := Int.mul_pos hd hpos; omega
      have h1 : t1 > t0 := hlt
      have h2 : ¬ (t0 + DAY * n ≤ t0) := by unfold DAY; omega
      simp only [this, if_false, loopBranch, h1, if_true, h2]
      rw [show min t0 t1 = t0 by omega, show max t0 t1 = t1 by omega, orient_pos n hpos]
    · have hneg : n < 0 := by omega
      have : tdDays (t1 - t0) * n ≤ 0 := by have := Int.mul_neg_of_pos_of_neg hd hneg; omega
      have h1 : t1 > t0 := hlt
      have h2 : t0 + DAY * n ≤ t0 := by unfold DAY; omega
      simp only [this, if_true, loopBranch, h1, h2]
  · have hgt : t1 < t0 := by omega
    have hd := tdDays_neg (t1 - t0) (by omega)
    have h1 : ¬ t1 > t0 := by omega
    by_cases hpos : 0 < n
    · have : tdDays (t1 - t0) * n ≤ 0 := by have := Int.mul_neg_of_neg_of_pos hd hpos; omega
      have h2 : t0 + DAY * n ≥ t0 := by unfold DAY; omega
      simp only [this, if_true, loopBranch, h1, if_false, hgt, h2]
    · have hneg : n < 0 := by omega
      have : ¬ tdDays (t1 - t0) * n ≤ 0 := by have := Int.mul_pos_of_neg_of_neg hd hneg; omega
      have h2 : ¬ (t0 + DAY * n ≥ t0) := by unfold DAY; omega
      simp only [this, if_false, loopBranch, h1, hgt, if_true, h2]
      rw [show min t0 t1 = t1 by omega, show max t0 t1 = t0 by omega,
        orient_neg n hneg t1 t0 (by unfold DAY at *; omega)]

theorem int_td_str_agree (t0 t1 n : Int) (hn : n ≠ 0) (hal : (t1 - t0) % DAY = 0) :
    drange t0 t1 (.int n) = drange t0 t1 (.td (DAY * n)) ∧
    drange t0 t1 (.int n) = drange t0 t1 (.period [(n, .d)]) := by
  by_cases hne : t0 = t1
  · subst hne; simp [singleton]
  · rw [int_eq_iterate t0 t1 n hne hn hal]
    refine ⟨by simp [drange, hne], ?_⟩
    have hstep : dtBump [(n, Per.d)] = (· + DAY * n) := by funext t; rfl
    have hr : rruleStep n Per.d = (· + DAY * n) := by funext t; rfl
    simp only [drange, hne, if_false]
    by_cases hpos : 0 < n
    · have hn' : n > 0 := hpos
      have hq : ¬ (Per.d = Per.q) := by decide
      have hb : ¬ (Per.d = Per.b) := by decide
      simp only [hb, false_or, hn', if_true, hq, if_false, Int.mul_one, hr]
      by_cases hlt : t0 < t1
      · have hd := tdDays_pos (t1 - t0) (by omega) hal
        have : ¬ tdDays (t1 - t0) * n < 0 := by have := Int.mul_pos hd hpos; omega
        have h1 : t1 > t0 := hlt
        have h2 : ¬ (t0 + DAY * n ≤ t0) := by unfold DAY; omega
        simp only [this, hn, or_self, if_false, loopBranch, h1, if_true, h2]
      · have hd := tdDays_neg (t1 - t0) (by omega)
        have : tdDays (t1 - t0) * n < 0 := Int.mul_neg_of_neg_of_pos hd hpos
        have h1 : ¬ t1 > t0 := by omega
        have h3 : t1 < t0 := by omega
        have h2 : t0 + DAY * n ≥ t0 := by unfold DAY; omega
        simp only [this, true_or, if_true, loopBranch, h1, if_false, h3, h2]
    · have hn' : ¬ n > 0 := by omega
      have hb : ¬ (Per.d = Per.b) := by decide
      simp only [hb, false_or, hn', if_false, hstep]
      exact (loopBranchC_eq _ (Or.inr fun t => by show t + DAY * n < t; unfold DAY; omega) t0 t1).symm

/-- whole days apart, an integer bump of the wrong sign raises `ValueError` -/
theorem int_away (t0 t1 n : Int) (hal : (t1 - t0) % DAY = 0)
    (h : (t0 < t1 ∧ n ≤ 0) ∨ (t1 < t0 ∧ 0 ≤ n)) : drange t0 t1 (.int n) = .error .value := by
  have hne : t0 ≠ t1 := by omega
  by_cases hn : n = 0
  · subst hn; simp [drange, hne, drangeInt]
  · rw [int_eq_iterate t0 t1 n hne hn hal]
    apply loop_away
    rcases h with ⟨a, b⟩ | ⟨a, b⟩
    · exact Or.inl ⟨a, by unfold DAY; omega⟩
    · exact Or.inr ⟨a, by unfold DAY; omega⟩

/-- no bump given: one day per step towards `t1` -/
theorem none_default (t0 t1 : Int) :
    drange t0 t1 .none = drange t0 t1 (.int (if t0 < t1 then 1 else -1)) := by
  simp [drange]

/-- integer bumps as one statement: `n > 0`, endpoints a whole number of days apart: the list is exactly
`t0, t0 + n days, t0 + 2n days, …` while `≤ t1` -/
theorem int_forward (t0 t1 n : Int) (hn : 0 < n) (h : t0 < t1) (hal : (t1 - t0) % DAY = 0) :
    ∃ l, drange t0 t1 (.int n) = .ok l ∧ IsRangeUp (· + DAY * n) t0 t1 l ∧ l.head? = some t0 ∧
      l.Pairwise (· < ·) ∧ (∀ x ∈ l, t0 ≤ x ∧ x ≤ t1) ∧ ∀ i, i < l.length → l[i]? = some (t0 + DAY * n * i) := by
  obtain ⟨l, h1, h2, h3, h4, h5⟩ := loop_forward (· + DAY * n) (fun t => by unfold DAY; omega) t0 t1 h
  refine ⟨l, by rw [int_eq_iterate t0 t1 n (by omega) (by omega) hal]; exact h1, h2, h3, h4, h5, fun i hi => ?_⟩
  rw [(h2.1 i hi).1, iter_add]

theorem int_backward (t0 t1 n : Int) (hn : n < 0) (h : t1 < t0) (hal : (t1 - t0) % DAY = 0) :
    ∃ l, drange t0 t1 (.int n) = .ok l ∧ IsRangeDown (· + DAY * n) t0 t1 l ∧ l.head? = some t0 ∧
      l.Pairwise (· > ·) ∧ (∀ x ∈ l, t1 ≤ x ∧ x ≤ t0) ∧ ∀ i, i < l.length → l[i]? = some (t0 + DAY * n * i) := by
  obtain ⟨l, h1, h2, h3, h4, h5⟩ := loop_backward (· + DAY * n) (fun t => by unfold DAY; omega) t0 t1 h
  refine ⟨l, by rw [int_eq_iterate t0 t1 n (by omega) (by omega) hal]; exact h1, h2, h3, h4, h5, fun i hi => ?_⟩
  rw [(h2.1 i hi).1, iter_add]

/-- no bump given, as a specification: one day per step from `t0` towards `t1`, whichever side `t1` is on -/
theorem none_is_daily (t0 t1 : Int) (hne : t0 ≠ t1) (hal : (t1 - t0) % DAY = 0) :
    ∃ l, drange t0 t1 .none = .ok l ∧ l.head? = some t0 ∧
      (∀ i, i < l.length → l[i]? = some (if t0 < t1 then t0 + DAY * i else t0 - DAY * i)) ∧
      (∀ x ∈ l, min t0 t1 ≤ x ∧ x ≤ max t0 t1) ∧ (l.length : Int) = (max t0 t1 - min t0 t1) / DAY + 1 := by
  rw [none_default]
  by_cases hlt : t0 < t1
  · simp only [hlt, if_true]
    obtain ⟨l, h1, h2, h3, _, h5, h6⟩ := int_forward t0 t1 1 (by omega) hlt hal
    refine ⟨l, h1, h3, fun i hi => by rw [h6 i hi, Int.mul_one], fun x hx => by have := h5 x hx; omega, ?_⟩
    have hlen := h2.2
    rw [iter_add] at hlen
    have hpos : 0 < l.length := by
      cases l with
      | nil => simp at h3
      | cons _ _ => simp
    have hlast := (h2.1 (l.length - 1) (by omega)).2
    rw [iter_add] at hlast
    have e : ((l.length - 1 : Nat) : Int) = (l.length : Int) - 1 := by omega
    rw [e] at hlast
    rw [show max t0 t1 = t1 by omega, show min t0 t1 = t0 by omega]
    unfold DAY at *; omega
  · have hgt : t1 < t0 := by omega
    simp only [hlt, if_false]
    obtain ⟨l, h1, h2, h3, _, h5, h6⟩ := int_backward t0 t1 (-1) (by omega) hgt hal
    refine ⟨l, h1, h3, fun i hi => by rw [h6 i hi]; exact congrArg some (by unfold DAY; omega), fun x hx => by have := h5 x hx; omega, ?_⟩
    have hlen := h2.2
    rw [iter_add] at hlen
    have hpos : 0 < l.length := by
      cases l with
      | nil => simp at h3
      | cons _ _ => simp
    have hlast := (h2.1 (l.length - 1) (by omega)).2
    rw [iter_add] at hlast
    have e : ((l.length - 1 : Nat) : Int) = (l.length : Int) - 1 := by omega
    rw [e] at hlast
    rw [show max t0 t1 = t0 by omega, show min t0 t1 = t1 by omega]
    unfold DAY at *; omega

/-! ### period strings -/

/-- compound period strings (two or more parts) are iterated with `dt_bump`; stated for any bump that moves
strictly forward -/
theorem compound_forward (p q : Int × Per) (rest : List (Int × Per)) (t0 t1 : Int) (h : t0 < t1)
    (hinc : ∀ t, t < dtBump (p :: q :: rest) t) :
    ∃ l, drange t0 t1 (.period (p :: q :: rest)) = .ok l ∧ IsRangeUp (dtBump (p :: q :: rest)) t0 t1 l ∧
      l.head? = some t0 ∧ l.Pairwise (· < ·) ∧ ∀ x ∈ l, t0 ≤ x ∧ x ≤ t1 := by
  obtain ⟨l, h1, h2⟩ := loop_forward _ hinc t0 t1 h
  refine ⟨l, ?_, h2⟩
  have : t0 ≠ t1 := by omega
  rw [← h1, ← loopBranchC_eq _ (Or.inl hinc)]
  simp [drange, this]

theorem compound_backward (p q : Int × Per) (rest : List (Int × Per)) (t0 t1 : Int) (h : t1 < t0)
    (hdec : ∀ t, dtBump (p :: q :: rest) t < t) :
    ∃ l, drange t0 t1 (.period (p :: q :: rest)) = .ok l ∧ IsRangeDown (dtBump (p :: q :: rest)) t0 t1 l ∧
      l.head? = some t0 ∧ l.Pairwise (· > ·) ∧ ∀ x ∈ l, t1 ≤ x ∧ x ≤ t0 := by
  obtain ⟨l, h1, h2⟩ := loop_backward _ hdec t0 t1 h
  refine ⟨l, ?_, h2⟩
  have : t0 ≠ t1 := by omega
  rw [← h1, ← loopBranchC_eq _ (Or.inr hdec)]
  simp [drange, this]

/-- the hypothesis of `compound_forward` is a theorem for parts made of d, w, h, n, s, b with positive counts
(and `dtBump_dec` for negative counts) -/
theorem fixed_parts_move_forward (parts : List (Int × Per)) (hne : parts ≠ [])
    (hp : ∀ p ∈ parts, p.2.fixed = true ∧ 1 ≤ p.1) : ∀ t, t < dtBump parts t :=
  fun t => dtBump_inc parts t hne hp

theorem fixed_parts_move_backward (parts : List (Int × Per)) (hne : parts ≠ [])
    (hp : ∀ p ∈ parts, p.2.fixed = true ∧ p.1 ≤ -1) : ∀ t, dtBump parts t < t :=
  fun t => dtBump_dec parts t hne hp

/-- a single period with a positive count (the rrule branch): the list obtained by iterating the period -/
theorem single_forward (n : Int) (u : Per) (hu : u ≠ .b) (hn : 0 < n) (t0 t1 : Int) (h : t0 < t1)
    (hinc : ∀ t, t < rruleStep n u t) :
    ∃ l, drange t0 t1 (.period [(n, u)]) = .ok l ∧ IsRangeUp (rruleStep n u) t0 t1 l ∧ l.head? = some t0 ∧
      l.Pairwise (· < ·) ∧ ∀ x ∈ l, t0 ≤ x ∧ x ≤ t1 := by
  refine ⟨upTo (rruleStep n u) t0 t1, ?_, upTo_spec _ hinc t1 t0, IsRangeUp.head (upTo_spec _ hinc t1 t0) (by omega),
    upTo_pairwise _ hinc t1 t0, upTo_mem _ hinc t1 t0⟩
  have hne : t0 ≠ t1 := by omega
  have hn' : n > 0 := hn
  have hd := tdDays_nonneg (t1 - t0) (by omega)
  have hi : 0 < n * (if u = Per.q then 3 else 1) := by split <;> omega
  have : ¬ tdDays (t1 - t0) * (n * (if u = Per.q then 3 else 1)) < 0 := by
    have := Int.mul_nonneg hd (Int.le_of_lt hi); omega
  have hz : ¬ (n * (if u = Per.q then 3 else 1) = 0) := by omega
  simp only [drange, hne, if_false, hu, false_or, hn', if_true, this, hz, or_self]

/-- a single period with a negative count (the repaired branch, F3): iterated backwards with `dt_bump` -/
theorem single_backward (n : Int) (u : Per) (hu : u ≠ .b) (hn : n < 0) (t0 t1 : Int) (h : t1 < t0)
    (hdec : ∀ t, dtBump [(n, u)] t < t) :
    ∃ l, drange t0 t1 (.period [(n, u)]) = .ok l ∧ IsRangeDown (dtBump [(n, u)]) t0 t1 l ∧ l.head? = some t0 ∧
      l.Pairwise (· > ·) ∧ ∀ x ∈ l, t1 ≤ x ∧ x ≤ t0 := by
  obtain ⟨l, h1, h2⟩ := loop_backward _ hdec t0 t1 h
  refine ⟨l, ?_, h2⟩
  have hne : t0 ≠ t1 := by omega
  have hn' : ¬ n > 0 := by omega
  simp only [drange, hne, if_false, hu, false_or, hn', loopBranchC_eq _ (Or.inr hdec), h1]

/-! ### month, quarter, year bumps: strict monotonicity is a theorem of the Gregorian arithmetic -/

/-- **the month step is strictly monotone**: `k > 0` months later is strictly later (by more than 27 days), `k < 0`
months strictly earlier — for EVERY instant and every day of month; quarters are 3 and years 12 months -/
theorem month_step_strict (t k : Int) :
    (0 < k → t < bump1 t k .m ∧ t < bump1 t k .q ∧ t < bump1 t k .y) ∧
    (k < 0 → bump1 t k .m < t ∧ bump1 t k .q < t ∧ bump1 t k .y < t) :=
  ⟨fun h => ⟨bump1_inc_all t k .m (by omega), bump1_inc_all t k .q (by omega), bump1_inc_all t k .y (by omega)⟩,
   fun h => ⟨bump1_dec_all t k .m (by omega), bump1_dec_all t k .q (by omega), bump1_dec_all t k .y (by omega)⟩⟩

/-- every unit, every instant: a positive count moves strictly forward, a negative one strictly backward
(generalises `fixed_parts_move_forward/backward` to m, q, y) -/
theorem all_parts_move_forward (parts : List (Int × Per)) (hne : parts ≠ []) (hp : ∀ p ∈ parts, 1 ≤ p.1) :
    ∀ t, t < dtBump parts t := fun t => dtBump_inc_all parts t hne hp

theorem all_parts_move_backward (parts : List (Int × Per)) (hne : parts ≠ []) (hp : ∀ p ∈ parts, p.1 ≤ -1) :
    ∀ t, dtBump parts t < t := fun t => dtBump_dec_all parts t hne hp

/-- a single period with a positive count, ANY unit but `b` — in particular months, quarters, years — without a
monotonicity hypothesis: the list is `t0, step t0, step² t0, …` while `≤ t1`, strictly increasing, inside `[t0,t1]`.
(The model's rrule step is the real rrule only from a day of month ≤ 28 — "a day of month that exists in every
month"; the theorem about the model needs no such restriction.) -/
theorem single_forward_all (n : Int) (u : Per) (hu : u ≠ .b) (hn : 0 < n) (t0 t1 : Int) (h : t0 < t1) :
    ∃ l, drange t0 t1 (.period [(n, u)]) = .ok l ∧ IsRangeUp (rruleStep n u) t0 t1 l ∧ l.head? = some t0 ∧
      l.Pairwise (· < ·) ∧ ∀ x ∈ l, t0 ≤ x ∧ x ≤ t1 :=
  single_forward n u hu hn t0 t1 h (rruleStep_inc n u (by omega))

/-- months / quarters / years forward; from a day of month ≤ 28 the `i`-th element is `t0` plus `i·n` units exactly
(the day of month and the time of day never drift) -/
theorem single_forward_month (n : Int) (u : Per) (hu : u.fixed = false) (hn : 0 < n) (t0 t1 : Int) (h : t0 < t1) :
    ∃ l, drange t0 t1 (.period [(n, u)]) = .ok l ∧ IsRangeUp (rruleStep n u) t0 t1 l ∧ l.head? = some t0 ∧
      l.Pairwise (· < ·) ∧ (∀ x ∈ l, t0 ≤ x ∧ x ≤ t1) ∧
      (t0 % DAY = 0 → Civil.day (dayOf t0) ≤ 28 → ∀ i, i < l.length → l[i]? = some (bump1 t0 (i * n) u)) := by
  have hb : u ≠ .b := by intro e; subst e; simp [Per.fixed] at hu
  obtain ⟨l, h1, h2, h3, h4, h5⟩ := single_forward_all n u hb hn t0 t1 h
  refine ⟨l, h1, h2, h3, h4, h5, fun hm hd i hi => ?_⟩
  rw [(h2.1 i hi).1, ← iter_bump1_month n u hu i t0 hm hd]
  congr 1
  exact iter_congr_inv _ _ (fun t => t % DAY = 0) (fun t ht => by
    refine ⟨?_, ?_⟩
    · cases u <;> simp [Per.fixed] at hu <;> simp [rruleStep, ht]
    · cases u <;> simp [Per.fixed] at hu <;> simp [bump1, monthBump, yearBump, Int.mul_emod_left]) i t0 hm

/-- months / quarters / years backward (the repaired branch, F3), without a monotonicity hypothesis -/
theorem single_backward_all (n : Int) (u : Per) (hu : u ≠ .b) (hn : n < 0) (t0 t1 : Int) (h : t1 < t0) :
    ∃ l, drange t0 t1 (.period [(n, u)]) = .ok l ∧ IsRangeDown (dtBump [(n, u)]) t0 t1 l ∧ l.head? = some t0 ∧
      l.Pairwise (· > ·) ∧ ∀ x ∈ l, t1 ≤ x ∧ x ≤ t0 :=
  single_backward n u hu hn t0 t1 h (all_parts_move_backward [(n, u)] (by simp) (fun p hp => by
    simp at hp; subst hp; show n ≤ -1; omega))

theorem single_backward_month (n : Int) (u : Per) (hu : u.fixed = false) (hn : n < 0) (t0 t1 : Int) (h : t1 < t0) :
    ∃ l, drange t0 t1 (.period [(n, u)]) = .ok l ∧ IsRangeDown (dtBump [(n, u)]) t0 t1 l ∧ l.head? = some t0 ∧
      l.Pairwise (· > ·) ∧ (∀ x ∈ l, t1 ≤ x ∧ x ≤ t0) ∧
      (t0 % DAY = 0 → Civil.day (dayOf t0) ≤ 28 → ∀ i, i < l.length → l[i]? = some (bump1 t0 (i * n) u)) := by
  have hb : u ≠ .b := by intro e; subst e; simp [Per.fixed] at hu
  obtain ⟨l, h1, h2, h3, h4, h5⟩ := single_backward_all n u hb hn t0 t1 h
  refine ⟨l, h1, h2, h3, h4, h5, fun hm hd i hi => ?_⟩
  rw [(h2.1 i hi).1, ← iter_bump1_month n u hu i t0 hm hd]
  rfl

/-- compound periods whose parts all have positive counts, any units (m, q, y, b included): no hypothesis -/
theorem compound_forward_all (p q : Int × Per) (rest : List (Int × Per)) (t0 t1 : Int) (h : t0 < t1)
    (hp : ∀ x ∈ p :: q :: rest, 1 ≤ x.1) :
    ∃ l, drange t0 t1 (.period (p :: q :: rest)) = .ok l ∧ IsRangeUp (dtBump (p :: q :: rest)) t0 t1 l ∧
      l.head? = some t0 ∧ l.Pairwise (· < ·) ∧ ∀ x ∈ l, t0 ≤ x ∧ x ≤ t1 :=
  compound_forward p q rest t0 t1 h (all_parts_move_forward _ (by simp) hp)

theorem compound_backward_all (p q : Int × Per) (rest : List (Int × Per)) (t0 t1 : Int) (h : t1 < t0)
    (hp : ∀ x ∈ p :: q :: rest, x.1 ≤ -1) :
    ∃ l, drange t0 t1 (.period (p :: q :: rest)) = .ok l ∧ IsRangeDown (dtBump (p :: q :: rest)) t0 t1 l ∧
      l.head? = some t0 ∧ l.Pairwise (· > ·) ∧ ∀ x ∈ l, t1 ≤ x ∧ x ≤ t0 :=
  compound_backward p q rest t0 t1 h (all_parts_move_backward _ (by simp) hp)

/-- a negative count of ANY unit but `b` with `t0 < t1` raises `ValueError` (extends `single_away_neg` to m, q, y) -/
theorem single_away_neg_all (n : Int) (u : Per) (hu : u ≠ .b) (hn : n < 0) (t0 t1 : Int) (h : t0 < t1) :
    drange t0 t1 (.period [(n, u)]) = .error .value := by
  have hne : t0 ≠ t1 := by omega
  have hn' : ¬ n > 0 := by omega
  have hdec := all_parts_move_backward [(n, u)] (by simp) (fun p hp => by simp at hp; subst hp; show n ≤ -1; omega) t0
  have := loopC_away (dtBump [(n, u)]) t0 t1 (Or.inl ⟨h, by omega⟩)
  simp only [drange, hne, if_false, hu, false_or, hn', this]

/-- single period strings (the rrule branch) give the list obtained by iterating the period step: for units of fixed
length always, for month-based units from midnight (the rrule step keeps the time of day, `dt_bump` drops it).
No monotonicity hypothesis. -/
theorem single_eq_iter_step (n : Int) (u : Per) (hu : u ≠ .b) (hn : 0 < n) (t0 t1 : Int) (h : t0 < t1)
    (hmid : u.fixed = false → t0 % DAY = 0) :
    drange t0 t1 (.period [(n, u)]) = loopBranch (dtBump [(n, u)]) t0 t1 := by
  have hfwd : t0 < dtBump [(n, u)] t0 :=
    all_parts_move_forward [(n, u)] (by simp) (fun p hp => by simp at hp; subst hp; show 1 ≤ n; omega) t0
  have hne : t0 ≠ t1 := by omega
  have hn' : n > 0 := hn
  have hd := tdDays_nonneg (t1 - t0) (by omega)
  have hi : 0 < n * (if u = Per.q then 3 else 1) := by split <;> omega
  have : ¬ tdDays (t1 - t0) * (n * (if u = Per.q then 3 else 1)) < 0 := by
    have := Int.mul_nonneg hd (Int.le_of_lt hi); omega
  have h1 : t1 > t0 := h
  have h2 : ¬ dtBump [(n, u)] t0 ≤ t0 := by omega
  have hz : ¬ (n * (if u = Per.q then 3 else 1) = 0) := by omega
  simp only [drange, hne, if_false, hu, false_or, hn', if_true, this, hz, or_self, loopBranch, h1, h2]
  congr 1
  unfold upTo
  have hstep : dtBump [(n, u)] = fun t => bump1 t n u := by funext t; rfl
  rw [hstep]
  by_cases hf : u.fixed = true
  · congr 1
    funext t
    cases u <;> simp [Per.fixed] at hf <;> rfl
  · have hf' : u.fixed = false := by simpa using hf
    have hm := hmid hf'
    apply iterUp_congr _ _ (fun t => t % DAY = 0) _ t1 _ t0 hm
    intro t ht
    have e : rruleStep n u t = bump1 t n u := by
      cases u <;> simp [Per.fixed] at hf' <;> simp [rruleStep, ht]
    refine ⟨e, ?_⟩
    cases u <;> simp [Per.fixed] at hf' <;> simp [bump1, monthBump, yearBump, Int.mul_emod_left]

/-! ### compound tenors of ANY signs and units: never an empty or unbounded list (repair F15) -/

/-- the checked `dt_bump` loop, for an arbitrary step and `t0 < t1`: EITHER the exact range — `l[i] = step^i t0`, all
inside `[t0,t1]`, the next iterate beyond `t1`, starts at `t0`, strictly increasing — OR `ValueError`, and then some
iterate reached inside the range failed to move strictly forward.  No hypothesis on the step. -/
theorem loopC_forward (step : Int → Int) (t0 t1 : Int) (h : t0 < t1) :
    (∃ l, loopBranchC step t0 t1 = .ok l ∧ IsRangeUp step t0 t1 l ∧ l.head? = some t0 ∧ l.Pairwise (· < ·) ∧
      ∀ x ∈ l, t0 ≤ x ∧ x ≤ t1) ∨
    (loopBranchC step t0 t1 = .error .value ∧
      ∃ i, (∀ j, j ≤ i → iter step j t0 ≤ t1) ∧ step (iter step i t0) ≤ iter step i t0) := by
  have h1 : t1 > t0 := h
  unfold loopBranchC
  rw [if_pos h1]
  rcases iterUpC_spec step t1 ((t1 - t0).toNat + 1) t0 (by omega) with ⟨l, e, hr, hp, hm⟩ | hbad
  · exact Or.inl ⟨l, e, hr, hr.head (by omega), hp, hm⟩
  · exact Or.inr hbad

theorem loopC_backward (step : Int → Int) (t0 t1 : Int) (h : t1 < t0) :
    (∃ l, loopBranchC step t0 t1 = .ok l ∧ IsRangeDown step t0 t1 l ∧ l.head? = some t0 ∧ l.Pairwise (· > ·) ∧
      ∀ x ∈ l, t1 ≤ x ∧ x ≤ t0) ∨
    (loopBranchC step t0 t1 = .error .value ∧
      ∃ i, (∀ j, j ≤ i → t1 ≤ iter step j t0) ∧ iter step i t0 ≤ step (iter step i t0)) := by
  have h1 : ¬ t1 > t0 := by omega
  unfold loopBranchC
  rw [if_neg h1, if_pos h]
  rcases iterDownC_spec step t1 ((t0 - t1).toNat + 1) t0 (by omega) with ⟨l, e, hr, hp, hm⟩ | hbad
  · exact Or.inl ⟨l, e, hr, hr.head (by omega), hp, hm⟩
  · exact Or.inr hbad

/-- every compound period string — mixed signs, any units — takes that loop -/
theorem compound_is_loopC (p q : Int × Per) (rest : List (Int × Per)) (t0 t1 : Int) (h : t0 ≠ t1) :
    drange t0 t1 (.period (p :: q :: rest)) = loopBranchC (dtBump (p :: q :: rest)) t0 t1 := by
  simp [drange, h]

/-- so a compound tenor gives the exact strictly increasing range or raises `ValueError` — it never returns an empty
list and never runs on for ever -/
theorem compound_never_unbounded (p q : Int × Per) (rest : List (Int × Per)) (t0 t1 : Int) (h : t0 < t1) :
    (∃ l, drange t0 t1 (.period (p :: q :: rest)) = .ok l ∧ IsRangeUp (dtBump (p :: q :: rest)) t0 t1 l ∧
      l.head? = some t0 ∧ l.Pairwise (· < ·) ∧ ∀ x ∈ l, t0 ≤ x ∧ x ≤ t1) ∨
    drange t0 t1 (.period (p :: q :: rest)) = .error .value := by
  rw [compound_is_loopC p q rest t0 t1 (by omega)]
  rcases loopC_forward (dtBump (p :: q :: rest)) t0 t1 h with hl | ⟨e, _⟩
  · exact Or.inl hl
  · exact Or.inr e

/-- the witness of F15: `'1m-30d'` from 2001-01-28 (a day of month every month has) towards 2001-06-01 -/
def f15Step : Int → Int := dtBump [(1, .m), (-30, .d)]
def f15T0 : Int := (Civil.ord 2001 1 28 - 1) * DAY
def f15T1 : Int := (Civil.ord 2001 6 1 - 1) * DAY

/-- **the monotonicity hypothesis is false for a tenor inside the quantifier**: `'1m-30d'` passes the direction test
at `t0` (01-28 → 01-29), walks 01-29, 01-30, 01-31, 02-01 and then steps BACK to 01-30: the orbit is periodic and
never passes `t1`, so the `while t <= t1` loop of the pinned code, which tests the direction at `t0` only, never
exits (no result, unbounded list).  The repaired loop raises `ValueError`. -/
theorem mixed_sign_not_monotone :
    f15T0 < f15Step f15T0 ∧ f15Step (iter f15Step 4 f15T0) < iter f15Step 4 f15T0 ∧
    iter f15Step 5 f15T0 = iter f15Step 2 f15T0 ∧ (∀ i, iter f15Step i f15T0 ≤ f15T1) ∧
    drange f15T0 f15T1 (.period [(1, .m), (-30, .d)]) = .error .value := by
  have e1 : f15Step f15T0 = f15T0 + DAY := by decide +kernel
  have e2 : f15Step (f15T0 + DAY) = f15T0 + 2 * DAY := by decide +kernel
  have e3 : f15Step (f15T0 + 2 * DAY) = f15T0 + 3 * DAY := by decide +kernel
  have e4 : f15Step (f15T0 + 3 * DAY) = f15T0 + 4 * DAY := by decide +kernel
  have e5 : f15Step (f15T0 + 4 * DAY) = f15T0 + 2 * DAY := by decide +kernel
  have hD : f15T0 + 4 * DAY ≤ f15T1 := by decide +kernel
  have i1 : iter f15Step 1 f15T0 = f15T0 + DAY := e1
  have i2 : iter f15Step 2 f15T0 = f15T0 + 2 * DAY := by rw [iter_succ_outer, i1, e2]
  have i3 : iter f15Step 3 f15T0 = f15T0 + 3 * DAY := by rw [iter_succ_outer, i2, e3]
  have i4 : iter f15Step 4 f15T0 = f15T0 + 4 * DAY := by rw [iter_succ_outer, i3, e4]
  have i5 : iter f15Step 5 f15T0 = f15T0 + 2 * DAY := by rw [iter_succ_outer, i4, e5]
  have orbit : ∀ i, iter f15Step i f15T0 = f15T0 ∨ iter f15Step i f15T0 = f15T0 + DAY ∨
      iter f15Step i f15T0 = f15T0 + 2 * DAY ∨ iter f15Step i f15T0 = f15T0 + 3 * DAY ∨
      iter f15Step i f15T0 = f15T0 + 4 * DAY := by
    intro i
    induction i with
    | zero => exact Or.inl rfl
    | succ i ih =>
      rw [iter_succ_outer]
      rcases ih with h | h | h | h | h <;> rw [h]
      · exact Or.inr (Or.inl e1)
      · exact Or.inr (Or.inr (Or.inl e2))
      · exact Or.inr (Or.inr (Or.inr (Or.inl e3)))
      · exact Or.inr (Or.inr (Or.inr (Or.inr e4)))
      · exact Or.inr (Or.inr (Or.inl e5))
  refine ⟨by rw [e1]; unfold DAY; omega, by rw [i4, e5]; unfold DAY; omega, by rw [i5, i2], fun i => ?_, by rfl⟩
  have := orbit i
  unfold DAY at *
  omega

/-! ### the step is the C09 model of `dt_bump` (`Pyg.Bump`, generated kernels + `Pyg.Greg`), not a local copy -/

/-- `DRange.dtBump` refines the C09 model: for a tenor written as tokens `ks` (sign, digits, unit letter) standing
for the parts, from any instant `t ≥ 0` (0001-01-01 or later), whenever `Bump.bumpCs` — the tokenizer loop of
`dt_bump` — returns a value, that value is `dtBump parts t`; and for a single part it returns a value exactly when
`dtBump` lands in the representable range `[0, MAXUS)` (for a business-day part: when the three datetimes the code
constructs on the way are representable too - it raises OverflowError otherwise, `Pyg.Props.C09.b_intermediate_overflow`) -/
theorem dtbump_is_c09 (ks : List Bump.Tok) (wf : ∀ k ∈ ks, k.WF) (parts : List (Int × Per)) (hks : TokParts ks parts)
    (t : Int) (ht : 0 ≤ t) :
    (∀ t', Bump.bumpCs (ks.flatMap Bump.Tok.text) t = .ok t' → t' = dtBump parts t) ∧
    (∀ k n u, ks = [k] → parts = [(n, u)] → 0 ≤ dtBump parts t → dtBump parts t < Bump.MAXUS →
      (u = Per.b → ∀ j ∈ Gen.bOffPath (Bump.wdOf t) n, Bump.InRange (t + j * Bump.DAYUS)) →
      Bump.bumpCs (ks.flatMap Bump.Tok.text) t = .ok (dtBump parts t)) := by
  rw [Pyg.Props.C09.tenor_left_to_right ks wf t]
  refine ⟨fun t' h => runToks_refines ks parts hks t t' ht h, ?_⟩
  intro k n u hk hp h0 h1 hb
  subst hk; subst hp
  simp only [TokParts, and_true] at hks
  exact runToks_single_defined k n u hks t ht h0 h1 hb

/-- **single periods enumerate `t0, dt_bump(t0), dt_bump(dt_bump(t0)), …` with the C09 model's `dt_bump`**:
for the token `k` = `<n><unit>` (n > 0, unit ≠ b) and `0 ≤ t0 < t1 < MAXUS` (both endpoints representable), month-based
units from midnight: the list starts at `t0`, every element is the C09 `dt_bump` of its predecessor, all lie in
`[t0, t1]`, and the C09 `dt_bump` of the last element — if it does not overflow — is beyond `t1` -/
theorem single_eq_iter_dtbump (k : Bump.Tok) (wf : k.WF) (n : Int) (u : Per) (hk : k.value = n ∧ k.unit = u.letter)
    (hu : u ≠ .b) (hn : 0 < n) (t0 t1 : Int) (h0 : 0 ≤ t0) (h : t0 < t1) (h1 : t1 < Bump.MAXUS)
    (hmid : u.fixed = false → t0 % DAY = 0) :
    ∃ l, drange t0 t1 (.period [(n, u)]) = .ok l ∧ l.head? = some t0 ∧
      (∀ i x y, l[i]? = some x → l[i + 1]? = some y → Bump.bumpCs k.text x = .ok y) ∧
      (∀ x, l.getLast? = some x → ∀ y, Bump.bumpCs k.text x = .ok y → t1 < y) ∧
      (∀ x ∈ l, t0 ≤ x ∧ x ≤ t1) ∧ l.Pairwise (· < ·) := by
  have hinc := all_parts_move_forward [(n, u)] (by simp) (fun p hp => by simp at hp; subst hp; show 1 ≤ n; omega)
  obtain ⟨l, e1, e2, e3, e4, e5⟩ := loop_forward (dtBump [(n, u)]) hinc t0 t1 h
  have htext : [k].flatMap Bump.Tok.text = k.text := by simp
  have hc09 := fun t ht => dtbump_is_c09 [k] (fun x hx => by simp at hx; subst hx; exact wf) [(n, u)]
    (by simp only [TokParts, and_true]; exact hk) t ht
  simp only [htext] at hc09
  refine ⟨l, by rw [single_eq_iter_step n u hu hn t0 t1 h hmid]; exact e1, e3, ?_, ?_, e5, e4⟩
  · intro i x y hx hy
    have hi : i + 1 < l.length := by
      rcases Nat.lt_or_ge (i + 1) l.length with hlt | hge
      · exact hlt
      · rw [List.getElem?_eq_none hge] at hy; cases hy
    have a := (e2.1 i (by omega)).1
    have b := (e2.1 (i + 1) hi).1
    rw [hx] at a; rw [hy] at b
    cases a; cases b
    have hy1 := (e2.1 (i + 1) hi).2
    have hx0 := (e5 _ (List.mem_of_getElem? hx)).1
    have hyy : iter (dtBump [(n, u)]) (i + 1) t0 = dtBump [(n, u)] (iter (dtBump [(n, u)]) i t0) :=
      iter_succ_outer _ i t0
    rw [hyy] at hy1 ⊢
    have hlt := hinc (iter (dtBump [(n, u)]) i t0)
    exact (hc09 _ (by omega)).2 k n u rfl rfl (by omega) (by omega) (fun hb => absurd hb hu)
  · intro x hx y hy
    have hlen : l ≠ [] := by intro e; subst e; simp at hx
    have hpos : 0 < l.length := by cases l with | nil => exact absurd rfl hlen | cons _ _ => simp
    have hlast : l[l.length - 1]? = some x := by rw [← List.getLast?_eq_getElem?]; exact hx
    have a := (e2.1 (l.length - 1) (by omega)).1
    rw [hlast] at a; cases a
    have hx0 := (e5 _ (List.mem_of_getElem? hlast)).1
    have := (hc09 _ (by omega)).1 y hy
    rw [this, ← iter_succ_outer (dtBump [(n, u)]) (l.length - 1) t0]
    have e : l.length - 1 + 1 = l.length := by omega
    rw [e]; exact e2.2

/-- compound tenors (any parts of one sign) against the C09 model: whenever the C09 `dt_bump` of an element of the
list returns a value, that value is the next element — or, after the last element, lies beyond `t1` -/
theorem compound_c09 (ks : List Bump.Tok) (wf : ∀ k ∈ ks, k.WF) (p q : Int × Per) (rest : List (Int × Per))
    (hks : TokParts ks (p :: q :: rest)) (t0 t1 : Int) (h0 : 0 ≤ t0) (h : t0 < t1)
    (hp : ∀ x ∈ p :: q :: rest, 1 ≤ x.1) :
    ∃ l, drange t0 t1 (.period (p :: q :: rest)) = .ok l ∧ l.head? = some t0 ∧
      (∀ i x y, l[i]? = some x → Bump.bumpCs (ks.flatMap Bump.Tok.text) x = .ok y →
        (l[i + 1]? = some y ∨ (i + 1 = l.length ∧ t1 < y))) ∧
      (∀ x ∈ l, t0 ≤ x ∧ x ≤ t1) ∧ l.Pairwise (· < ·) := by
  obtain ⟨l, e1, e2, e3, e4, e5⟩ := compound_forward_all p q rest t0 t1 h hp
  refine ⟨l, e1, e3, ?_, e5, e4⟩
  intro i x y hx hy
  have hi : i < l.length := by
    rcases Nat.lt_or_ge i l.length with hlt | hge
    · exact hlt
    · rw [List.getElem?_eq_none hge] at hx; cases hx
  have a := (e2.1 i hi).1
  rw [hx] at a; cases a
  have hx0 := (e5 _ (List.mem_of_getElem? hx)).1
  have hy' := (dtbump_is_c09 ks wf _ hks _ (by omega)).1 y hy
  rw [← iter_succ_outer (dtBump (p :: q :: rest)) i t0] at hy'
  by_cases hl : i + 1 < l.length
  · exact Or.inl (by rw [(e2.1 (i + 1) hl).1, hy'])
  · refine Or.inr ⟨by omega, ?_⟩
    have e : i + 1 = l.length := by omega
    rw [hy', e]; exact e2.2

/-- period strings pointing away from `t1`: a positive count with `t1 < t0` -/
theorem single_away_pos (n : Int) (u : Per) (hn : 0 < n) (t0 t1 : Int) (h : t1 < t0) :
    drange t0 t1 (.period [(n, u)]) = .error .value := by
  have hne : t0 ≠ t1 := by omega
  have hn' : n > 0 := hn
  have hd := tdDays_neg (t1 - t0) (by omega)
  have hi : 0 < n * (if u = Per.q then 3 else 1) := by split <;> omega
  have : tdDays (t1 - t0) * (n * (if u = Per.q then 3 else 1)) < 0 := Int.mul_neg_of_neg_of_pos hd hi
  simp only [drange, hne, if_false, hn', or_true, if_true, this, true_or]

/-- …and a negative count of a fixed-length unit with `t0 < t1` (on the pinned tree this returned `[]` whenever
`t1` was less than a day ahead) -/
theorem single_away_neg (n : Int) (u : Per) (hu : u ≠ .b) (hf : u.fixed = true) (hn : n < 0) (t0 t1 : Int) (h : t0 < t1) :
    drange t0 t1 (.period [(n, u)]) = .error .value := by
  have hne : t0 ≠ t1 := by omega
  have hn' : ¬ n > 0 := by omega
  have hdec := dtBump_dec [(n, u)] t0 (by simp) (fun p hp => by simp at hp; subst hp; exact ⟨hf, by omega⟩)
  have := loopC_away (dtBump [(n, u)]) t0 t1 (Or.inl ⟨h, by omega⟩)
  simp only [drange, hne, if_false, hu, false_or, hn', this]

/-! ### business-day bumps -/

theorem mem_daily (lo hi : Int) : ∀ x, x ∈ daily lo hi ↔ lo ≤ x ∧ x ≤ hi ∧ (x - lo) % DAY = 0 := by
  have hinc1 : ∀ t : Int, t < t + DAY := by intro t; unfold DAY; omega
  unfold daily
  apply upTo_induction (· + DAY) hinc1 hi (fun t l => ∀ x, x ∈ l ↔ t ≤ x ∧ x ≤ hi ∧ (x - t) % DAY = 0)
  · intro t h x; simp; omega
  · intro t hle ih x
    rw [List.mem_cons, ih x]
    unfold DAY at *
    omega

/-- `'1b'` lists exactly the weekdays of the daily grid between the endpoints, in increasing order -/
theorem b_is_weekday_list (t0 t1 : Int) (h : t0 < t1) :
    ∃ l, drange t0 t1 (.period [(1, .b)]) = .ok l ∧ l.Pairwise (· < ·) ∧
      ∀ x, x ∈ l ↔ t0 ≤ x ∧ x ≤ t1 ∧ (x - t0) % DAY = 0 ∧ wdT x < 5 := by
  have hinc1 : ∀ t : Int, t < t + DAY := by intro t; unfold DAY; omega
  refine ⟨(daily t0 t1).filter fun t => wdT t < 5, ?_, (upTo_pairwise _ hinc1 t1 t0).filter _, ?_⟩
  · have hne : t0 ≠ t1 := by omega
    have hd := tdDays_nonneg (t1 - t0) (by omega)
    have : ¬ tdDays (t1 - t0) * (1 * 1) < 0 := by omega
    have hq : ¬ (Per.b = Per.q) := by decide
    simp only [drange, hne, if_false, true_or, if_true, hq, this]
    rw [show min t0 t1 = t0 by omega, show max t0 t1 = t1 by omega]
    simp [orient]
  · intro x
    rw [List.mem_filter, mem_daily]
    simp only [decide_eq_true_eq]
    omega

/-- `'kb'` (k ≥ 1) is every k-th element of the `'1b'` list, `'-kb'` every k-th of the reversed list -/
theorem kb_stride (k : Int) (hk : 1 ≤ k) (t0 t1 : Int) (h : t0 < t1) :
    drange t0 t1 (.period [(k, .b)]) =
      .ok (if k.natAbs > 1 then stride k.natAbs ((daily t0 t1).filter fun t => wdT t < 5)
           else (daily t0 t1).filter fun t => wdT t < 5) := by
  have hne : t0 ≠ t1 := by omega
  have hd := tdDays_nonneg (t1 - t0) (by omega)
  have : ¬ tdDays (t1 - t0) * (k * 1) < 0 := by
    have := Int.mul_nonneg hd (show (0 : Int) ≤ k * 1 by omega); omega
  have hq : ¬ (Per.b = Per.q) := by decide
  have hk0 : ¬ k * 1 < 0 := by omega
  have hz : ¬ (k * 1 = 0) := by omega
  simp only [drange, hne, if_false, true_or, if_true, hq, this, hz, or_self, orient, hk0]
  rw [show min t0 t1 = t0 by omega, show max t0 t1 = t1 by omega, Int.mul_one]

theorem kb_stride_backward (k : Int) (hk : k ≤ -1) (t0 t1 : Int) (h : t1 < t0) :
    drange t0 t1 (.period [(k, .b)]) =
      .ok (if k.natAbs > 1 then stride k.natAbs ((daily t1 t0).filter fun t => wdT t < 5).reverse
           else ((daily t1 t0).filter fun t => wdT t < 5).reverse) := by
  have hne : t0 ≠ t1 := by omega
  have hd := tdDays_neg (t1 - t0) (by omega)
  have : ¬ tdDays (t1 - t0) * (k * 1) < 0 := by
    have := Int.mul_pos_of_neg_of_neg hd (show k * 1 < 0 by omega); omega
  have hq : ¬ (Per.b = Per.q) := by decide
  have hk0 : k * 1 < 0 := by omega
  have hz : ¬ (k * 1 = 0) := by omega
  simp only [drange, hne, if_false, true_or, if_true, hq, this, hz, or_self, orient, hk0]
  rw [show min t0 t1 = t1 by omega, show max t0 t1 = t0 by omega, Int.mul_one]

/-- what "every k-th" means: element `i` of `l[::k]` is element `k*i` of `l` -/
theorem stride_getElem? {α} (k : Nat) (hk : 1 ≤ k) (l : List α) (i : Nat) : (stride k l)[i]? = l[k * i]? := by
  have go : ∀ (l : List α) (j i : Nat), (strideGo k l j)[i]? = l[j + k * i]? := by
    intro l
    induction l with
    | nil => intro j i; simp [strideGo_nil]
    | cons x xs ih =>
      intro j i
      cases j with
      | zero =>
        cases i with
        | zero => simp [strideGo]
        | succ i =>
          simp only [strideGo, List.getElem?_cons_succ, ih]
          have : 0 + k * (i + 1) = (k - 1 + k * i) + 1 := by rw [Nat.mul_succ]; omega
          rw [this, List.getElem?_cons_succ]
      | succ j =>
        simp only [strideGo, ih]
        have : j + 1 + k * i = (j + k * i) + 1 := by omega
        rw [this, List.getElem?_cons_succ]
  have := go l 0 i
  simpa [stride] using this

/-- `'kb'` against the specification of `'1b'`: with `l1` = every weekday of the daily grid from `t0` up to `t1` in
increasing order (the `'1b'` list, characterised by its members), the `'kb'` list is `l1[0], l1[k], l1[2k], …` -/
theorem kb_every_kth (k : Int) (hk : 1 ≤ k) (t0 t1 : Int) (h : t0 < t1) :
    ∃ l1 lk, drange t0 t1 (.period [(1, .b)]) = .ok l1 ∧ drange t0 t1 (.period [(k, .b)]) = .ok lk ∧
      l1.Pairwise (· < ·) ∧ (∀ x, x ∈ l1 ↔ t0 ≤ x ∧ x ≤ t1 ∧ (x - t0) % DAY = 0 ∧ wdT x < 5) ∧
      ∀ i, lk[i]? = l1[k.natAbs * i]? := by
  obtain ⟨l1, e1, hp, hm⟩ := b_is_weekday_list t0 t1 h
  have e1' := kb_stride 1 (by omega) t0 t1 h
  have ek := kb_stride k hk t0 t1 h
  simp only [show ¬ (1 : Int).natAbs > 1 by decide, if_false] at e1'
  rw [e1] at e1'
  cases e1'
  refine ⟨_, _, e1, ek, hp, hm, fun i => ?_⟩
  by_cases hgt : k.natAbs > 1
  · simp only [hgt, if_true]; exact stride_getElem? k.natAbs (by omega) _ i
  · simp only [hgt, if_false]
    have : k.natAbs = 1 := by omega
    rw [this, Nat.one_mul]

/-- `'-1b'` as a specification: exactly the weekdays of the daily grid (anchored at the lower endpoint `t1`, i.e. at
`t0` as well when the endpoints are whole days apart) between the endpoints, in DEcreasing order -/
theorem b_backward_list (t0 t1 : Int) (h : t1 < t0) :
    ∃ l, drange t0 t1 (.period [(-1, .b)]) = .ok l ∧ l.Pairwise (· > ·) ∧
      ∀ x, x ∈ l ↔ t1 ≤ x ∧ x ≤ t0 ∧ (x - t1) % DAY = 0 ∧ wdT x < 5 := by
  have hinc1 : ∀ t : Int, t < t + DAY := by intro t; unfold DAY; omega
  have e := kb_stride_backward (-1) (by omega) t0 t1 h
  simp only [show ¬ (-1 : Int).natAbs > 1 by decide, if_false] at e
  refine ⟨_, e, ?_, fun x => ?_⟩
  · rw [List.pairwise_reverse]
    exact (upTo_pairwise _ hinc1 t0 t1).filter _
  · rw [List.mem_reverse, List.mem_filter, mem_daily]
    simp only [decide_eq_true_eq]
    omega

/-- `'-kb'`: every k-th element of the `'-1b'` list -/
theorem kb_every_kth_backward (k : Int) (hk : k ≤ -1) (t0 t1 : Int) (h : t1 < t0) :
    ∃ l1 lk, drange t0 t1 (.period [(-1, .b)]) = .ok l1 ∧ drange t0 t1 (.period [(k, .b)]) = .ok lk ∧
      l1.Pairwise (· > ·) ∧ (∀ x, x ∈ l1 ↔ t1 ≤ x ∧ x ≤ t0 ∧ (x - t1) % DAY = 0 ∧ wdT x < 5) ∧
      ∀ i, lk[i]? = l1[k.natAbs * i]? := by
  obtain ⟨l1, e1, hp, hm⟩ := b_backward_list t0 t1 h
  have e1' := kb_stride_backward (-1) (by omega) t0 t1 h
  have ek := kb_stride_backward k hk t0 t1 h
  simp only [show ¬ (-1 : Int).natAbs > 1 by decide, if_false] at e1'
  rw [e1] at e1'
  cases e1'
  refine ⟨_, _, e1, ek, hp, hm, fun i => ?_⟩
  by_cases hgt : k.natAbs > 1
  · simp only [hgt, if_true]; exact stride_getElem? k.natAbs (by omega) _ i
  · simp only [hgt, if_false]
    have : k.natAbs = 1 := by omega
    rw [this, Nat.one_mul]

/-- a business-day bump pointing away from `t1` raises `ValueError` -/
theorem b_away (k : Int) (t0 t1 : Int) (hal : (t1 - t0) % DAY = 0)
    (h : (t0 < t1 ∧ k ≤ -1) ∨ (t1 < t0 ∧ 1 ≤ k)) : drange t0 t1 (.period [(k, .b)]) = .error .value := by
  have hne : t0 ≠ t1 := by omega
  have hq : ¬ (Per.b = Per.q) := by decide
  have : tdDays (t1 - t0) * (k * 1) < 0 := by
    rcases h with ⟨a, b⟩ | ⟨a, b⟩
    · exact Int.mul_neg_of_pos_of_neg (tdDays_pos _ (by omega) hal) (by omega)
    · exact Int.mul_neg_of_neg_of_pos (tdDays_neg _ (by omega)) (by omega)
  simp only [drange, hne, if_false, true_or, if_true, hq, this]

/-! ### non-vacuity (2000-01-01 00:00 = 63082281600000000 µs, a Saturday) -/

example : drange 63082281600000000 (63082281600000000 + 9 * DAY) (.int 3)
    = .ok [63082281600000000, 63082281600000000 + 3 * DAY, 63082281600000000 + 6 * DAY, 63082281600000000 + 9 * DAY] := by rfl
example : drange (63082281600000000 + 9 * DAY) 63082281600000000 (.period [(-3, .d)])
    = .ok [63082281600000000 + 9 * DAY, 63082281600000000 + 6 * DAY, 63082281600000000 + 3 * DAY, 63082281600000000] := by rfl
example : drange 63082281600000000 (63082281600000000 + 4 * DAY) (.period [(1, .b)])
    = .ok [63082281600000000 + 2 * DAY, 63082281600000000 + 3 * DAY, 63082281600000000 + 4 * DAY] := by rfl
/-- the hypotheses of `int_td_str_agree`, `fixed_parts_move_forward`, `single_eq_iter_step`, `single_eq_iter_dtbump`,
`single_forward_month` and `compound_c09` are satisfiable -/
example : (3 : Int) ≠ 0 ∧ ((63082281600000000 + 9 * DAY) - 63082281600000000) % DAY = 0 := by decide
example : ∀ p ∈ [((1 : Int), Per.w), (2, Per.b), (12, Per.h)], p.2.fixed = true ∧ 1 ≤ p.1 := by decide
example : (63082281600000000 : Int) % DAY = 0 ∧ Civil.day (dayOf 63082281600000000) ≤ 28 := by decide
example : (⟨.none, ['3'], 'm'⟩ : Bump.Tok).WF ∧ (⟨.none, ['3'], 'm'⟩ : Bump.Tok).value = 3 ∧
    (⟨.none, ['3'], 'm'⟩ : Bump.Tok).unit = Per.m.letter ∧ (0 : Int) ≤ 63082281600000000 ∧
    (63082281600000000 : Int) + 400 * DAY < Bump.MAXUS := by decide
example : TokParts [⟨.none, ['1'], 'm'⟩, ⟨.plus, ['2'], 'd'⟩] [(1, .m), (2, .d)] :=
  ⟨⟨by decide, rfl⟩, ⟨by decide, rfl⟩, trivial⟩
/-- months forward from 2000-01-01 (a Saturday): 01-01, 04-01, 07-01, 10-01 -/
example : drange 63082281600000000 (63082281600000000 + 300 * DAY) (.period [(3, .m)])
    = .ok [63082281600000000, 63082281600000000 + 91 * DAY, 63082281600000000 + 182 * DAY,
      63082281600000000 + 274 * DAY] := by rfl

/-! ### round h3: the away clause for compound tenors and for every spelling of a ZERO bump (F16: `'0b'`) -/

/-- a compound tenor whose parts all point backwards, asked to go forwards (and the mirror image): `ValueError` -/
theorem compound_away_neg (p q : Int × Per) (rest : List (Int × Per)) (t0 t1 : Int) (h : t0 < t1)
    (hp : ∀ x ∈ p :: q :: rest, x.1 ≤ -1) : drange t0 t1 (.period (p :: q :: rest)) = .error .value := by
  rw [compound_is_loopC p q rest t0 t1 (by omega)]
  have := all_parts_move_backward (p :: q :: rest) (by simp) hp t0
  exact loopC_away _ t0 t1 (Or.inl ⟨h, by omega⟩)

theorem compound_away_pos (p q : Int × Per) (rest : List (Int × Per)) (t0 t1 : Int) (h : t1 < t0)
    (hp : ∀ x ∈ p :: q :: rest, 1 ≤ x.1) : drange t0 t1 (.period (p :: q :: rest)) = .error .value := by
  rw [compound_is_loopC p q rest t0 t1 (by omega)]
  have := all_parts_move_forward (p :: q :: rest) (by simp) hp t0
  exact loopC_away _ t0 t1 (Or.inr ⟨h, by omega⟩)

example : drange 63082281600000000 (63082281600000000 + 9 * DAY) (.period [(-1, .m), (-2, .d)]) = .error .value :=
  compound_away_neg _ _ _ _ _ (by decide) (by decide)

/-- `'0b'` (also `'+0b'`, `'-0b'`: the count is 0) stands still: `ValueError`, whichever side `t1` is on and whatever the
weekday of `t0` (F16: the pinned code returned the ascending '1b' list, which for `t1 < t0` does not even start at `t0`) -/
theorem zero_b_away (t0 t1 : Int) (h : t0 ≠ t1) : drange t0 t1 (.period [(0, .b)]) = .error .value := by
  simp [drange, h]

/-- a zero count of ANY unit raises `ValueError` when `t0 ≠ t1` (month-based units at midnight, as the property claims them):
`0`, `timedelta(0)`, `'0d'`, `'0w'`, `'0h'`, `'0n'`, `'0s'`, `'0b'`, `'0m'`, `'0q'`, `'0y'` never return an empty or unbounded list -/
theorem period_zero_away (u : Per) (t0 t1 : Int) (h : t0 ≠ t1) (hm : u.fixed = false → u ≠ .b → t0 % DAY = 0) :
    drange t0 t1 (.period [(0, u)]) = .error .value := by
  by_cases hu : u = .b
  · subst hu; exact zero_b_away t0 t1 h
  · have hs : dtBump [(0, u)] t0 = t0 := by
      cases u
      case b => exact absurd rfl hu
      case m => exact DRange.monthBump_zero t0 (hm rfl (by decide))
      case q => exact DRange.monthBump_zero t0 (hm rfl (by decide))
      case y =>
        show yearBump t0 0 = t0
        rw [DRange.yearBump_eq]; exact DRange.monthBump_zero t0 (hm rfl (by decide))
      all_goals (simp [dtBump, bump1])
    have := loopC_away (dtBump [(0, u)]) t0 t1 (by
      rcases Int.lt_or_gt_of_ne h with h1 | h1
      · exact Or.inl ⟨h1, by omega⟩
      · exact Or.inr ⟨h1, by omega⟩)
    simp [drange, h, hu, this]

theorem int_zero_away (t0 t1 : Int) (h : t0 ≠ t1) : drange t0 t1 (.int 0) = .error .value := by
  simp [drange, h, drangeInt]

theorem td_zero_away (t0 t1 : Int) (h : t0 ≠ t1) : drange t0 t1 (.td 0) = .error .value := by
  have := loop_away (· + 0) t0 t1 (by
    rcases Int.lt_or_gt_of_ne h with h1 | h1
    · exact Or.inl ⟨h1, by omega⟩
    · exact Or.inr ⟨h1, by omega⟩)
  simpa [drange, h] using this

-- 2020-01-15 (Wed) back to 2020-01-06 with '0b': the pinned code answered [01-06, …, 01-15]
example : drange (63082281600000000 + 9 * DAY) 63082281600000000 (.period [(0, .b)]) = .error .value := zero_b_away _ _ (by decide)
example : drange 63082281600000000 (63082281600000000 + 9 * DAY) (.period [(0, .q)]) = .error .value :=
  period_zero_away .q _ _ (by decide) (fun _ _ => by decide)

/-! ### the C09 link for the backward lists and for tenors of mixed signs (review s3, improvement 3) -/

/-- mirror image of `single_eq_iter_dtbump`: a single period with a negative count (`n < 0`, unit ≠ b) from `t0` back to
`t1`, `0 ≤ t1 < t0 < MAXUS`: every element of the list is the C09 `dt_bump` (`Bump.bumpCs` on the token text) of its
predecessor, and the C09 `dt_bump` of the last element, if it returns a value, is before `t1` -/
theorem single_backward_c09 (k : Bump.Tok) (wf : k.WF) (n : Int) (u : Per) (hk : k.value = n ∧ k.unit = u.letter)
    (hu : u ≠ .b) (hn : n < 0) (t0 t1 : Int) (h1 : 0 ≤ t1) (h : t1 < t0) (h0 : t0 < Bump.MAXUS) :
    ∃ l, drange t0 t1 (.period [(n, u)]) = .ok l ∧ l.head? = some t0 ∧
      (∀ i x y, l[i]? = some x → l[i + 1]? = some y → Bump.bumpCs k.text x = .ok y) ∧
      (∀ x, l.getLast? = some x → ∀ y, Bump.bumpCs k.text x = .ok y → y < t1) ∧
      (∀ x ∈ l, t1 ≤ x ∧ x ≤ t0) ∧ l.Pairwise (· > ·) := by
  have hdec := all_parts_move_backward [(n, u)] (by simp) (fun p hp => by simp at hp; subst hp; show n ≤ -1; omega)
  obtain ⟨l, e1, e2, e3, e4, e5⟩ := single_backward_all n u hu hn t0 t1 h
  have htext : [k].flatMap Bump.Tok.text = k.text := by simp
  have hc09 := fun t ht => dtbump_is_c09 [k] (fun x hx => by simp at hx; subst hx; exact wf) [(n, u)]
    (by simp only [TokParts, and_true]; exact hk) t ht
  simp only [htext] at hc09
  refine ⟨l, e1, e3, ?_, ?_, e5, e4⟩
  · intro i x y hx hy
    have hi : i + 1 < l.length := by
      rcases Nat.lt_or_ge (i + 1) l.length with hlt | hge
      · exact hlt
      · rw [List.getElem?_eq_none hge] at hy; cases hy
    have a := (e2.1 i (by omega)).1
    have b := (e2.1 (i + 1) hi).1
    rw [hx] at a; rw [hy] at b
    cases a; cases b
    have hy1 := (e2.1 (i + 1) hi).2
    have hx0 := (e5 _ (List.mem_of_getElem? hx))
    have hyy : iter (dtBump [(n, u)]) (i + 1) t0 = dtBump [(n, u)] (iter (dtBump [(n, u)]) i t0) :=
      iter_succ_outer _ i t0
    rw [hyy] at hy1 ⊢
    have hlt := hdec (iter (dtBump [(n, u)]) i t0)
    exact (hc09 _ (by omega)).2 k n u rfl rfl (by omega) (by omega) (fun hb => absurd hb hu)
  · intro x hx y hy
    have hlen : l ≠ [] := by intro e; subst e; simp at hx
    have hpos : 0 < l.length := by cases l with | nil => exact absurd rfl hlen | cons _ _ => simp
    have hlast : l[l.length - 1]? = some x := by rw [← List.getLast?_eq_getElem?]; exact hx
    have a := (e2.1 (l.length - 1) (by omega)).1
    rw [hlast] at a; cases a
    have hx0 := (e5 _ (List.mem_of_getElem? hlast)).1
    have := (hc09 _ (by omega)).1 y hy
    rw [this, ← iter_succ_outer (dtBump [(n, u)]) (l.length - 1) t0]
    have e : l.length - 1 + 1 = l.length := by omega
    rw [e]; exact e2.2

/-- mirror image of `compound_c09`: compound tenors whose counts are all ≤ -1 -/
theorem compound_backward_c09 (ks : List Bump.Tok) (wf : ∀ k ∈ ks, k.WF) (p q : Int × Per) (rest : List (Int × Per))
    (hks : TokParts ks (p :: q :: rest)) (t0 t1 : Int) (h1 : 0 ≤ t1) (h : t1 < t0)
    (hp : ∀ x ∈ p :: q :: rest, x.1 ≤ -1) :
    ∃ l, drange t0 t1 (.period (p :: q :: rest)) = .ok l ∧ l.head? = some t0 ∧
      (∀ i x y, l[i]? = some x → Bump.bumpCs (ks.flatMap Bump.Tok.text) x = .ok y →
        (l[i + 1]? = some y ∨ (i + 1 = l.length ∧ y < t1))) ∧
      (∀ x ∈ l, t1 ≤ x ∧ x ≤ t0) ∧ l.Pairwise (· > ·) := by
  obtain ⟨l, e1, e2, e3, e4, e5⟩ := compound_backward_all p q rest t0 t1 h hp
  refine ⟨l, e1, e3, ?_, e5, e4⟩
  intro i x y hx hy
  have hi : i < l.length := by
    rcases Nat.lt_or_ge i l.length with hlt | hge
    · exact hlt
    · rw [List.getElem?_eq_none hge] at hx; cases hx
  have a := (e2.1 i hi).1
  rw [hx] at a; cases a
  have hx0 := (e5 _ (List.mem_of_getElem? hx)).1
  have hy' := (dtbump_is_c09 ks wf _ hks _ (by omega)).1 y hy
  rw [← iter_succ_outer (dtBump (p :: q :: rest)) i t0] at hy'
  by_cases hl : i + 1 < l.length
  · exact Or.inl (by rw [(e2.1 (i + 1) hl).1, hy'])
  · refine Or.inr ⟨by omega, ?_⟩
    have e : i + 1 = l.length := by omega
    rw [hy', e]; exact e2.2

/-- compound tenors of ANY signs and units: if `drange` returns a list (it raises ValueError otherwise,
`compound_never_unbounded`), then from every element the C09 `dt_bump`, whenever it returns a value, returns the next
element — after the last one a value outside `[min t0 t1, max t0 t1]`.  Needs `0 ≤ min t0 t1` only (no definedness:
the first half of `dtbump_is_c09`) -/
theorem compound_mixed_c09 (ks : List Bump.Tok) (wf : ∀ k ∈ ks, k.WF) (p q : Int × Per) (rest : List (Int × Per))
    (hks : TokParts ks (p :: q :: rest)) (t0 t1 : Int) (h0 : 0 ≤ min t0 t1) (l : List Int)
    (hl : drange t0 t1 (.period (p :: q :: rest)) = .ok l) :
    l.head? = some t0 ∧
      (∀ i x y, l[i]? = some x → l[i + 1]? = some y →
        ∀ y', Bump.bumpCs (ks.flatMap Bump.Tok.text) x = .ok y' → y' = y) ∧
      (∀ x, l.getLast? = some x → ∀ y', Bump.bumpCs (ks.flatMap Bump.Tok.text) x = .ok y' → t0 ≠ t1 →
        y' < min t0 t1 ∨ max t0 t1 < y') ∧
      (∀ x ∈ l, min t0 t1 ≤ x ∧ x ≤ max t0 t1) := by
  have key : ∀ l' : List Int, (∀ i, i < l'.length → l'[i]? = some (iter (dtBump (p :: q :: rest)) i t0)) →
      (∀ x ∈ l', 0 ≤ x) →
      (∀ i x y, l'[i]? = some x → l'[i + 1]? = some y →
        ∀ y', Bump.bumpCs (ks.flatMap Bump.Tok.text) x = .ok y' → y' = y) ∧
      (∀ x, l'.getLast? = some x → ∀ y', Bump.bumpCs (ks.flatMap Bump.Tok.text) x = .ok y' →
        y' = iter (dtBump (p :: q :: rest)) l'.length t0) := by
    intro l' hit hnn
    refine ⟨fun i x y hx hy y' hy' => ?_, fun x hx y' hy' => ?_⟩
    · have hi : i + 1 < l'.length := by
        rcases Nat.lt_or_ge (i + 1) l'.length with hlt | hge
        · exact hlt
        · rw [List.getElem?_eq_none hge] at hy; cases hy
      have a := hit i (by omega)
      have b := hit (i + 1) hi
      rw [hx] at a; rw [hy] at b
      cases a; cases b
      have := (dtbump_is_c09 ks wf _ hks _ (hnn _ (List.mem_of_getElem? hx))).1 y' hy'
      rw [this, iter_succ_outer]
    · have hlen : l' ≠ [] := by intro e; subst e; simp at hx
      have hpos : 0 < l'.length := by cases l' with | nil => exact absurd rfl hlen | cons _ _ => simp
      have hlast : l'[l'.length - 1]? = some x := by rw [← List.getLast?_eq_getElem?]; exact hx
      have a := hit (l'.length - 1) (by omega)
      rw [hlast] at a; cases a
      have := (dtbump_is_c09 ks wf _ hks _ (hnn _ (List.mem_of_getElem? hlast))).1 y' hy'
      rw [this, ← iter_succ_outer (dtBump (p :: q :: rest)) (l'.length - 1) t0]
      have e : l'.length - 1 + 1 = l'.length := by omega
      rw [e]
  rcases Int.lt_trichotomy t0 t1 with hlt | heq | hgt
  · rw [compound_is_loopC p q rest t0 t1 (by omega)] at hl
    rcases loopC_forward (dtBump (p :: q :: rest)) t0 t1 hlt with ⟨l', e1, e2, e3, _, e5⟩ | ⟨e, _⟩
    · rw [e1] at hl; cases hl
      obtain ⟨k1, k2⟩ := key l (fun i hi => (e2.1 i hi).1) (fun x hx => by have := e5 x hx; omega)
      refine ⟨e3, k1, fun x hx y' hy' _ => Or.inr ?_, fun x hx => by have := e5 x hx; omega⟩
      rw [k2 x hx y' hy']; have := e2.2; omega
    · rw [e] at hl; cases hl
  · subst heq
    rw [singleton] at hl; cases hl
    refine ⟨rfl, fun i x y hx hy => by simp at hy, fun _ _ _ _ hne => absurd rfl hne, fun x hx => by simp at hx; omega⟩
  · rw [compound_is_loopC p q rest t0 t1 (by omega)] at hl
    rcases loopC_backward (dtBump (p :: q :: rest)) t0 t1 hgt with ⟨l', e1, e2, e3, _, e5⟩ | ⟨e, _⟩
    · rw [e1] at hl; cases hl
      obtain ⟨k1, k2⟩ := key l (fun i hi => (e2.1 i hi).1) (fun x hx => by have := e5 x hx; omega)
      refine ⟨e3, k1, fun x hx y' hy' _ => Or.inl ?_, fun x hx => by have := e5 x hx; omega⟩
      rw [k2 x hx y' hy']; have := e2.2; omega
    · rw [e] at hl; cases hl

-- hypotheses satisfiable: '-2m' from day 400 back to day 0
example : ∃ l, drange (400 * DAY) 0 (.period [(-2, .m)]) = .ok l ∧ l.head? = some (400 * DAY) :=
  let ⟨l, h1, h2, _⟩ := single_backward_c09 (Bump.numTok (-2) 'm') (Bump.numTok_wf _ _ (by decide)) (-2) .m
    ⟨Bump.numTok_value _ _, rfl⟩ (by decide) (by decide) (400 * DAY) 0 (by decide) (by decide) (by decide)
  ⟨l, h1, h2⟩

-- '-1m-1d'
example : ∃ l, drange (400 * DAY) 0 (.period [(-1, .m), (-1, .d)]) = .ok l ∧ l.head? = some (400 * DAY) :=
  let ⟨l, h1, h2, _⟩ := compound_backward_c09 [Bump.numTok (-1) 'm', Bump.numTok (-1) 'd']
    (by intro k hk; simp at hk; rcases hk with rfl | rfl <;> exact Bump.numTok_wf _ _ (by decide))
    (-1, .m) (-1, .d) [] ⟨⟨Bump.numTok_value _ _, rfl⟩, ⟨Bump.numTok_value _ _, rfl⟩, trivial⟩
    (400 * DAY) 0 (by decide) (by decide) (by decide)
  ⟨l, h1, h2⟩

-- a mixed tenor that does return a list: '2d-1d' over three days
example : drange 0 (3 * DAY) (.period [(2, .d), (-1, .d)]) = .ok [0, DAY, 2 * DAY, 3 * DAY] := by rfl
example : TokParts [Bump.numTok 2 'd', Bump.numTok (-1) 'd'] [(2, .d), (-1, .d)] :=
  ⟨⟨Bump.numTok_value _ _, rfl⟩, ⟨Bump.numTok_value _ _, rfl⟩, trivial⟩

/-! ### the driver's tokenizer `parsePeriod` reads the C09 tenor text back (review s3, improvement 4)

`String.toNat?` of a run of digits is the C09 `digitsVal` (proved here from `String.Slice.isNat` / `foldl`; the lemmas of
`Std.Data.String.ToNat` are not imported), so `parsePeriod (Bump.tenors ps)` are the parts the text was written from. -/

theorem isNat_loop : ∀ (ds : List Char), (∀ c ∈ ds, c.isDigit = true) → ∀ b : Bool,
    (forIn (m := Id) ds ((none : Option Bool), b) fun c __s =>
              if c = '_' then
                if (!__s.snd) = true then pure (ForInStep.done (some false, __s.snd))
                else pure (ForInStep.yield (none, false))
              else
                if c.isDigit = true then pure (ForInStep.yield (none, true))
                else pure (ForInStep.done (some false, __s.snd))) = pure (none, if ds = [] then b else true)
  | [], _, b => by simp
  | c :: cs, h, b => by
    have hc : c.isDigit = true := h c (by simp)
    have hu : c ≠ '_' := by intro e; subst e; revert hc; decide
    rw [List.forIn_cons]
    simp only [hu, if_false, hc, if_true]
    simp only [pure_bind]
    rw [isNat_loop cs (fun x hx => h x (by simp [hx])) true]
    by_cases e : cs = [] <;> simp [e]

theorem isNat_digits (ds : List Char) (hne : ds ≠ []) (hd : ∀ c ∈ ds, c.isDigit = true) :
    (String.ofList ds).toSlice.isNat = true := by
  unfold String.Slice.isNat
  simp only [String.Slice.forIn_eq_forIn_toList, String.copy_toSlice, String.toList_ofList]
  rw [isNat_loop ds hd false]
  simp [hne]

theorem toNat?_digits (ds : List Char) (hne : ds ≠ []) (hd : ∀ c ∈ ds, c.isDigit = true) :
    (String.ofList ds).toNat? = some (Pyg.Bump.digitsVal ds) := by
  unfold String.toNat? String.Slice.toNat?
  rw [if_pos (isNat_digits ds hne hd)]
  simp only [String.Slice.foldl_eq_foldl_toList, String.copy_toSlice, String.toList_ofList]
  congr 1
  unfold Pyg.Bump.digitsVal
  generalize (0 : Nat) = a
  induction ds generalizing a with
  | nil => rfl
  | cons c cs ih =>
    have hc : c.isDigit = true := hd c (by simp)
    have hu : c ≠ '_' := by intro e; subst e; revert hc; decide
    simp only [List.foldl_cons, hu, if_false]
    by_cases e : cs = []
    · subst e; simp only [List.foldl_nil]; rw [Nat.mul_comm]; rfl
    · rw [ih e (fun x hx => hd x (by simp [hx]))]
      congr 1
      rw [Nat.mul_comm]; rfl

theorem takeWhile_run (ds : List Char) (u : Char) (rest : List Char) (hd : ∀ c ∈ ds, c.isDigit = true)
    (hu : u.isDigit = false) :
    (ds ++ u :: rest).takeWhile Char.isDigit = ds ∧ (ds ++ u :: rest).dropWhile Char.isDigit = u :: rest := by
  induction ds with
  | nil => simp [hu]
  | cons c cs ih =>
    have hc : c.isDigit = true := hd c (by simp)
    have := ih (fun x hx => hd x (by simp [hx]))
    simp [hc, this]

theorem go_neg (ds : List Char) (u : Per) (rest : List Char) (fuel : Nat) (acc : List (Int × Per))
    (hne : ds ≠ []) (hd : ∀ c ∈ ds, c.isDigit = true) :
    parsePeriod.go ('-' :: (ds ++ u.letter :: rest)) (fuel + 1) acc =
      parsePeriod.go rest fuel ((-(Bump.digitsVal ds : Int), u) :: acc) := by
  have hl : u.letter.isDigit = false := by cases u <;> rfl
  obtain ⟨h1, h2⟩ := takeWhile_run ds u.letter rest hd hl
  rw [parsePeriod.go]
  simp only [h1, h2, unitOf_letter, toNat?_digits ds hne hd]
  obtain ⟨d0, ds', rfl⟩ : ∃ d0 ds', ds = d0 :: ds' := by
    cases ds with
    | nil => exact absurd rfl hne
    | cons a b => exact ⟨a, b, rfl⟩
  simp

theorem go_pos (ds : List Char) (u : Per) (rest : List Char) (fuel : Nat) (acc : List (Int × Per))
    (hne : ds ≠ []) (hd : ∀ c ∈ ds, c.isDigit = true) :
    parsePeriod.go (ds ++ u.letter :: rest) (fuel + 1) acc =
      parsePeriod.go rest fuel (((Bump.digitsVal ds : Int), u) :: acc) := by
  have hl : u.letter.isDigit = false := by cases u <;> rfl
  obtain ⟨h1, h2⟩ := takeWhile_run ds u.letter rest hd hl
  obtain ⟨d0, ds', rfl⟩ : ∃ d0 ds', ds = d0 :: ds' := by
    cases ds with
    | nil => exact absurd rfl hne
    | cons a b => exact ⟨a, b, rfl⟩
  have hd0 : d0.isDigit = true := hd d0 (by simp)
  have hs := Bump.digit_not_sign d0 hd0
  rw [List.cons_append] at h1 h2
  rw [List.cons_append, parsePeriod.go]
  · simp only [h1, h2, unitOf_letter, toNat?_digits _ hne hd]
    simp
  · intro e; cases e
  · intro r e; simp only [List.cons.injEq] at e; exact hs.1 e.1
  · intro r e; simp only [List.cons.injEq] at e; exact hs.2 e.1

theorem go_tenor (n : Int) (u : Per) (rest : List Char) (fuel : Nat) (acc : List (Int × Per)) :
    parsePeriod.go (Bump.tenorCs n u.letter ++ rest) (fuel + 1) acc = parsePeriod.go rest fuel ((n, u) :: acc) := by
  have hv := Bump.digitsVal_repr n.natAbs
  unfold Bump.tenorCs Bump.numText
  by_cases h : n < 0
  · simp only [h, if_true, List.append_assoc, List.cons_append, List.nil_append]
    rw [go_neg _ u rest fuel acc (Bump.repr_ne_nil _) (Bump.repr_digits _), hv]
    congr 3; omega
  · simp only [h, if_false, List.append_assoc, List.cons_append, List.nil_append]
    rw [go_pos _ u rest fuel acc (Bump.repr_ne_nil _) (Bump.repr_digits _), hv]
    congr 3; omega

theorem go_tenors : ∀ (ps : List (Int × Per)) (fuel : Nat) (acc : List (Int × Per)), ps.length + 1 ≤ fuel →
    parsePeriod.go (ps.flatMap fun p => Bump.tenorCs p.1 p.2.letter) fuel acc = some (acc.reverse ++ ps)
  | [], fuel + 1, acc, _ => by simp [parsePeriod.go]
  | p :: ps, fuel + 1, acc, h => by
    rw [List.flatMap_cons, go_tenor, go_tenors ps fuel _ (by simpa using h)]
    simp
theorem tenors_length_ge : ∀ (ps : List (Int × Per)),
    ps.length ≤ (ps.flatMap fun p => Bump.tenorCs p.1 p.2.letter).length
  | [] => by simp
  | p :: ps => by
    have := tenors_length_ge ps
    simp only [List.flatMap_cons, List.length_append, List.length_cons]
    have : 1 ≤ (Bump.tenorCs p.1 p.2.letter).length := by simp [Bump.tenorCs]
    omega

/-- the text of a tenor written from parts: `'%d%s' % (n, letter)` for each part -/
def partsText (ps : List (Int × Per)) : String := Bump.tenors (ps.map fun p => (p.1, p.2.letter))

theorem parsePeriod_tenors_letters (ps : List (Int × Per)) : parsePeriod (partsText ps) = some ps := by
  have hl : ∀ p ∈ ps.map (fun p : Int × Per => (p.1, p.2.letter)), p.2.toLower = p.2 := by
    intro p hp
    simp only [List.mem_map] at hp
    obtain ⟨q, _, rfl⟩ := hp
    cases q.2 <;> rfl
  have h1 : (partsText ps).toLower.toList = ps.flatMap fun p => Bump.tenorCs p.1 p.2.letter := by
    unfold String.toLower partsText
    rw [String.toList_map]
    have := Bump.lower_tenors _ hl
    unfold Bump.lower at this
    rw [this, List.flatMap_map]
  have h2 : (partsText ps).length = (ps.flatMap fun p => Bump.tenorCs p.1 p.2.letter).length := by
    unfold partsText Bump.tenors
    rw [String.length_ofList, List.flatMap_map]
  unfold parsePeriod
  rw [h1, h2, go_tenors ps _ [] (by have := tenors_length_ge ps; omega)]
  rfl

theorem lowerUnit_letter : ∀ c ∈ Gen.periodUnits, c.toLower = c → (unitOf c).map Per.letter = some c := by decide

/-- the `Per` of a unit letter (`d` for anything else) -/
def perOf (c : Char) : Per := (unitOf c).getD .d

theorem parsePeriod_tenors (ps : List (Int × Char)) (hu : ∀ p ∈ ps, Bump.LowerUnit p.2) :
    parsePeriod (Bump.tenors ps) = some (ps.map fun p => (p.1, perOf p.2)) := by
  have e : ps = (ps.map fun p => (p.1, perOf p.2)).map fun p => (p.1, p.2.letter) := by
    rw [List.map_map]
    conv => lhs; rw [← List.map_id ps]
    apply List.map_congr_left
    intro p hp
    have := lowerUnit_letter p.2 (hu p hp).1 (hu p hp).2
    unfold perOf
    cases h : unitOf p.2 with
    | none => rw [h] at this; cases this
    | some u =>
      rw [h] at this; simp only [Option.map_some, Option.some.injEq] at this
      show p = (p.1, ((unitOf p.2).getD Per.d).letter)
      rw [h, Option.getD_some, this]
  conv => lhs; rw [e]
  exact parsePeriod_tenors_letters _

theorem parsePeriod_tenor (n : Int) (c : Char) (hu : Bump.LowerUnit c) :
    parsePeriod (Bump.tenor n c) = some [(n, perOf c)] := by
  have := parsePeriod_tenors [(n, c)] (fun p hp => by simp at hp; subst hp; exact hu)
  simpa [Bump.tenors, Bump.tenor] using this

example : parsePeriod (Bump.tenors [(1, 'y'), (-3, 'm'), (2, 'd')]) = some [(1, .y), (-3, .m), (2, .d)] :=
  parsePeriod_tenors _ (by decide)
example : parsePeriod (Bump.tenor (-3) 'b') = some [(-3, .b)] := parsePeriod_tenor _ _ (by decide)
example : (String.ofList ['5', '8', '7']).toNat? = some 587 := toNat?_digits _ (by decide) (by decide)

/-- the tokens `'%d%s' % (n, letter)` stand for the parts they were written from: `TokParts` is discharged for every
text the harness sends -/
theorem tokParts_numToks : ∀ ps : List (Int × Per), TokParts (ps.map fun p => Bump.numTok p.1 p.2.letter) ps
  | [] => trivial
  | _ :: ps => ⟨⟨Bump.numTok_value _ _, rfl⟩, tokParts_numToks ps⟩

theorem numToks_wf (ps : List (Int × Per)) : ∀ k ∈ ps.map (fun p => Bump.numTok p.1 p.2.letter), k.WF := by
  intro k hk
  simp only [List.mem_map] at hk
  obtain ⟨p, _, rfl⟩ := hk
  exact Bump.numTok_wf _ _ (by cases p.2 <;> decide)

theorem numToks_text (ps : List (Int × Per)) :
    (ps.map fun p => Bump.numTok p.1 p.2.letter).flatMap Bump.Tok.text =
      ps.flatMap fun p => Bump.tenorCs p.1 p.2.letter := by
  rw [List.flatMap_map]
  congr 1; funext p; exact Bump.numTok_text _ _

theorem period_text_c09 (ps : List (Int × Per)) (t : Int) (ht : 0 ≤ t) :
    parsePeriod (partsText ps) = some ps ∧
    ∀ t', Bump.bumpStr t (partsText ps) = .ok t' → t' = dtBump ps t := by
  refine ⟨parsePeriod_tenors_letters ps, fun t' h => ?_⟩
  have hl : ∀ p ∈ ps.map (fun p : Int × Per => (p.1, p.2.letter)), p.2.toLower = p.2 := by
    intro p hp
    simp only [List.mem_map] at hp
    obtain ⟨q, _, rfl⟩ := hp
    cases q.2 <;> rfl
  unfold Bump.bumpStr partsText at h
  rw [Bump.lower_tenors _ hl, Bump.resolveNamed_parts, List.flatMap_map, ← numToks_text] at h
  exact (dtbump_is_c09 _ (numToks_wf ps) ps (tokParts_numToks ps) t ht).1 t' h

/-! ### round i3 (review t3 §C10.2): the 'b' instance of "single period strings give the list obtained by iterating dt_bump"

Every iterate-`dt_bump` theorem above carries `u ≠ .b`: the business-day branch of the code is not a loop but
"rrule(DAILY), keep the weekdays, take every k-th".  From a WEEKDAY `t0` the two descriptions coincide — that is the
content of `kb_eq_iter_dtbump` (the closed-form offset `bOff` of `dt_bump(·,'kb')` IS the k-th next weekday of the grid);
from a weekend `t0` they do not, and the statement's second sentence ("for business-day bumps it lists weekdays only")
is the one the code follows: `kb_weekend_grids_differ`. -/

/-- `'kb'` (k ≥ 1) from a weekday `t0`: the list is exactly the `dt_bump(·, 'kb')` loop `t0, dt_bump(t0), …` while `≤ t1` -/
theorem kb_eq_iter_dtbump (k : Int) (hk : 1 ≤ k) (t0 t1 : Int) (h : t0 < t1) (hwd : wdT t0 < 5) :
    drange t0 t1 (.period [(k, .b)]) = loopBranch (dtBump [(k, .b)]) t0 t1 := by
  rw [kb_stride k hk t0 t1 h, dtBump_b]
  have hinc := bStep_inc k hk
  have h1 : t1 > t0 := h
  have h2 : ¬ bStep k t0 ≤ t0 := by have := hinc t0; omega
  simp only [loopBranch, h1, if_true, h2, if_false]
  have key := strideGo_weekdays k.natAbs (by omega) t1 _ t0 0 (Nat.le_refl _) hwd
  have ek : ((k.natAbs : Nat) : Int) = k := by omega
  rw [ek, show ((0 : Nat) : Int) = 0 from rfl, bOff_zero _ hwd, Int.mul_zero, Int.add_zero] at key
  congr 1
  by_cases hgt : k.natAbs > 1
  · simp only [hgt, if_true]; exact key
  · simp only [hgt, if_false]
    have e1 : k.natAbs = 1 := by omega
    rw [e1] at key
    rw [← key]; exact (stride_one _).symm

/-- `'kb'` (k ≤ -1) from a weekday `t0` down to `t1`, endpoints a whole number of days apart (the quantifier's condition
for business-day bumps: the code anchors the daily grid at the LOWER endpoint): the `dt_bump(·, 'kb')` loop while `≥ t1` -/
theorem kb_eq_iter_dtbump_backward (k : Int) (hk : k ≤ -1) (t0 t1 : Int) (h : t1 < t0) (hal : (t1 - t0) % DAY = 0)
    (hwd : wdT t0 < 5) :
    drange t0 t1 (.period [(k, .b)]) = loopBranch (dtBump [(k, .b)]) t0 t1 := by
  rw [kb_stride_backward k hk t0 t1 h, dtBump_b]
  have hdec := bStep_dec k hk
  have h1 : ¬ t1 > t0 := by omega
  have h2 : ¬ bStep k t0 ≥ t0 := by have := hdec t0; omega
  simp only [loopBranch, h1, if_false, h, if_true, h2]
  have hrev : ((daily t1 t0).filter fun t => wdT t < 5).reverse = (dailyDown t0 t1).filter isWd := by
    rw [← List.filter_reverse, reverse_daily t1 t0 (by unfold DAY at *; omega)]; rfl
  have key := strideGo_weekdays_down k.natAbs (by omega) t1 _ t0 0 (Nat.le_refl _) hwd
  have ek : -((k.natAbs : Nat) : Int) = k := by omega
  rw [ek, show (-((0 : Nat) : Int)) = 0 from rfl, bOff_zero _ hwd, Int.mul_zero, Int.add_zero] at key
  rw [hrev]
  congr 1
  by_cases hgt : k.natAbs > 1
  · simp only [hgt, if_true]; exact key
  · simp only [hgt, if_false]
    have e1 : k.natAbs = 1 := by omega
    rw [e1] at key
    rw [← key]; exact (stride_one _).symm

/-- hence the first sentence of the statement holds for `'kb'` from a weekday: the list is `iter (dt_bump 'kb') i t0`
at every index, starts at `t0`, is strictly increasing, inside `[t0, t1]`, and the next iterate is beyond `t1` -/
theorem kb_forward_range (k : Int) (hk : 1 ≤ k) (t0 t1 : Int) (h : t0 < t1) (hwd : wdT t0 < 5) :
    ∃ l, drange t0 t1 (.period [(k, .b)]) = .ok l ∧ IsRangeUp (dtBump [(k, .b)]) t0 t1 l ∧ l.head? = some t0 ∧
      l.Pairwise (· < ·) ∧ ∀ x ∈ l, t0 ≤ x ∧ x ≤ t1 := by
  rw [kb_eq_iter_dtbump k hk t0 t1 h hwd]
  exact loop_forward _ (by rw [dtBump_b]; exact bStep_inc k hk) t0 t1 h

theorem kb_backward_range (k : Int) (hk : k ≤ -1) (t0 t1 : Int) (h : t1 < t0) (hal : (t1 - t0) % DAY = 0)
    (hwd : wdT t0 < 5) :
    ∃ l, drange t0 t1 (.period [(k, .b)]) = .ok l ∧ IsRangeDown (dtBump [(k, .b)]) t0 t1 l ∧ l.head? = some t0 ∧
      l.Pairwise (· > ·) ∧ ∀ x ∈ l, t1 ≤ x ∧ x ≤ t0 := by
  rw [kb_eq_iter_dtbump_backward k hk t0 t1 h hal hwd]
  exact loop_backward _ (by rw [dtBump_b]; exact bStep_dec k hk) t0 t1 h

/-- the hypotheses are satisfiable: Mon 2000-01-03 → Fri 2000-01-14, `'2b'`; and back, `'-2b'` -/
example : (1 : Int) ≤ 2 ∧ (63082281600000000 + 2 * DAY : Int) < 63082281600000000 + 13 * DAY ∧
    wdT (63082281600000000 + 2 * DAY) < 5 := by decide
example : drange (63082281600000000 + 2 * DAY) (63082281600000000 + 13 * DAY) (.period [(2, .b)])
    = .ok [63082281600000000 + 2 * DAY, 63082281600000000 + 4 * DAY, 63082281600000000 + 6 * DAY,
           63082281600000000 + 10 * DAY, 63082281600000000 + 12 * DAY] := by rfl

/-- **`wdT t0 < 5` is necessary** (review t3 §C10 2.1): from Saturday 2020-01-11 down to Wednesday 2020-01-08 with `'-2b'`
the code lists "every 2nd weekday in reverse" = [Fri 10, Wed 08], iterating `dt_bump(·,'-2b')` gives [Sat 11, Thu 09]:
no common element.  The statement's sentence on business-day bumps ("lists weekdays only") is the one that applies. -/
theorem kb_weekend_grids_differ :
    wdT (737434 * DAY) = 5 ∧
    drange (737434 * DAY) (737431 * DAY) (.period [(-2, .b)]) = .ok [737433 * DAY, 737431 * DAY] ∧
    loopBranch (dtBump [(-2, .b)]) (737434 * DAY) (737431 * DAY) = .ok [737434 * DAY, 737432 * DAY] := by
  refine ⟨by decide, by rfl, by rfl⟩

/-- forward the difference is the head only: `'2b'` from Saturday 2000-01-01: [Mon 3, Wed 5, Fri 7] against [Sat 1, Wed 5, Fri 7] -/
example : drange 63082281600000000 (63082281600000000 + 6 * DAY) (.period [(2, .b)])
      = .ok [63082281600000000 + 2 * DAY, 63082281600000000 + 4 * DAY, 63082281600000000 + 6 * DAY] ∧
    loopBranch (dtBump [(2, .b)]) 63082281600000000 (63082281600000000 + 6 * DAY)
      = .ok [63082281600000000, 63082281600000000 + 4 * DAY, 63082281600000000 + 6 * DAY] := ⟨by rfl, by rfl⟩

/-- the two sentences "t0 == t1 gives [t0]" and "business-day bumps list weekdays only" conflict on a weekend `t0 == t1`: the code (and
`singleton`, and the law `equal-*`) follow the FIRST — `drange(Sat, Sat, '1b') == [Sat]`, a weekend day in a 'b' list — while one day
further `drange(Sat, Sun, '1b') == []`.  Recorded reading (review4 v3 §C10.1): the singleton sentence governs; `b_is_weekday_list` has
`t0 < t1`.  day 737434 is the Saturday of `kb_weekend_grids_differ`. -/
theorem b_list_singleton_weekend :
    wdT (737434 * DAY) = 5 ∧ drange (737434 * DAY) (737434 * DAY) (.period [(1, .b)]) = .ok [737434 * DAY]
    ∧ drange (737434 * DAY) (737435 * DAY) (.period [(1, .b)]) = .ok [] := by
  refine ⟨by decide, singleton _ _, by rfl⟩

/-! ### round i3 (review t3 §C10 improvements 3-5) -/

/-- `timedelta(n)` and `'nd'` give identical lists for ANY endpoints (no whole-day condition: intraday endpoints are inside the
quantifier for these two spellings; `int_td_str_agree` needs `hal` only for the integer spelling) -/
theorem td_str_agree_any (t0 t1 n : Int) (hn : n ≠ 0) :
    drange t0 t1 (.td (DAY * n)) = drange t0 t1 (.period [(n, .d)]) := by
  by_cases hne : t0 = t1
  · subst hne; simp [singleton]
  · have hstep : dtBump [(n, Per.d)] = (· + DAY * n) := by funext t; rfl
    have hr : rruleStep n Per.d = (· + DAY * n) := by funext t; rfl
    simp only [drange, hne, if_false]
    by_cases hpos : 0 < n
    · have hn' : n > 0 := hpos
      have hq : ¬ (Per.d = Per.q) := by decide
      have hb : ¬ (Per.d = Per.b) := by decide
      simp only [hb, false_or, hn', if_true, hq, if_false, Int.mul_one, hr]
      by_cases hlt : t0 < t1
      · have hd := tdDays_nonneg (t1 - t0) (by omega)
        have : ¬ tdDays (t1 - t0) * n < 0 := by have := Int.mul_nonneg hd (show (0 : Int) ≤ n by omega); omega
        have h1 : t1 > t0 := hlt
        have h2 : ¬ (t0 + DAY * n ≤ t0) := by unfold DAY; omega
        simp only [this, hn, or_self, if_false, loopBranch, h1, if_true, h2]
      · have hd := tdDays_neg (t1 - t0) (by omega)
        have : tdDays (t1 - t0) * n < 0 := Int.mul_neg_of_neg_of_pos hd hpos
        have h1 : ¬ t1 > t0 := by omega
        have h3 : t1 < t0 := by omega
        have h2 : t0 + DAY * n ≥ t0 := by unfold DAY; omega
        simp only [this, true_or, if_true, loopBranch, h1, if_false, h3, h2]
    · have hn' : ¬ n > 0 := by omega
      have hb : ¬ (Per.d = Per.b) := by decide
      simp only [hb, false_or, hn', if_false, hstep]
      exact (loopBranchC_eq _ (Or.inr fun t => by show t + DAY * n < t; unfold DAY; omega) t0 t1).symm

/-- intraday endpoints, not a whole number of days apart: 2000-01-01 00:00 → 2000-01-03 12:00 -/
example : drange 63082281600000000 (63082281600000000 + 2 * DAY + 12 * HOUR) (.td (DAY * 1))
    = drange 63082281600000000 (63082281600000000 + 2 * DAY + 12 * HOUR) (.period [(1, .d)]) :=
  td_str_agree_any _ _ 1 (by decide)

/-- mirror image of `compound_never_unbounded` for `t1 < t0`: a compound tenor of any signs and units gives the exact strictly
decreasing range or raises `ValueError` — never an empty list, never an unbounded one -/
theorem compound_never_unbounded_backward (p q : Int × Per) (rest : List (Int × Per)) (t0 t1 : Int) (h : t1 < t0) :
    (∃ l, drange t0 t1 (.period (p :: q :: rest)) = .ok l ∧ IsRangeDown (dtBump (p :: q :: rest)) t0 t1 l ∧
      l.head? = some t0 ∧ l.Pairwise (· > ·) ∧ ∀ x ∈ l, t1 ≤ x ∧ x ≤ t0) ∨
    drange t0 t1 (.period (p :: q :: rest)) = .error .value := by
  rw [compound_is_loopC p q rest t0 t1 (by omega)]
  rcases loopC_backward (dtBump (p :: q :: rest)) t0 t1 h with hl | ⟨e, _⟩
  · exact Or.inl hl
  · exact Or.inr e

/-! #### the ends of the datetime range as an EXPLICIT hypothesis (review t3 §C10 2.3)

The model's instants are unbounded integers; python's `datetime` ends at `MAXUS` = 10000-01-01 (and starts at 0 = 0001-01-01).
Every loop branch of the code computes ONE iterate beyond `t1` before it stops (`t = t + bump` / `dt_bump(t, bump)`), so within one
bump of `datetime.max` / `datetime.min` the real code raises `OverflowError` where `td_forward`, `td_away`, `int_td_str_agree` … give
a list / `ValueError`.  The range theorems describe the code exactly when every instant the loop constructs is representable;
`loop_forward_representable` / `loop_backward_representable` state when that is: `0 ≤ t0` and `t1 + B < MAXUS` for a step that
advances by at most `B` (mirror: `t0 < MAXUS`, `0 ≤ t1 - B`). -/

theorem loop_forward_representable (step : Int → Int) (B : Int) (hstep : ∀ t, t < step t ∧ step t ≤ t + B) (t0 t1 : Int)
    (h : t0 < t1) (h0 : 0 ≤ t0) (hb : t1 + B < Bump.MAXUS) :
    ∃ l, loopBranch step t0 t1 = .ok l ∧ IsRangeUp step t0 t1 l ∧
      ∀ i, i ≤ l.length → 0 ≤ iter step i t0 ∧ iter step i t0 < Bump.MAXUS := by
  obtain ⟨l, e1, e2, _, _, _⟩ := loop_forward step (fun t => (hstep t).1) t0 t1 h
  refine ⟨l, e1, e2, fun i hi => ?_⟩
  have hge := iterate_inc step (fun t => (hstep t).1) i t0
  refine ⟨by omega, ?_⟩
  rcases Nat.lt_or_ge i l.length with hlt | hge'
  · have := (e2.1 i hlt).2
    have := (hstep t0).1; have := (hstep t0).2
    omega
  · have ei : i = l.length := by omega
    cases i with
    | zero => simp only [iter]; have := (hstep t0).1; have := (hstep t0).2; omega
    | succ j =>
      rw [iter_succ_outer]
      have := (e2.1 j (by omega)).2
      have := (hstep (iter step j t0)).2
      omega

theorem loop_backward_representable (step : Int → Int) (B : Int) (hstep : ∀ t, step t < t ∧ t - B ≤ step t) (t0 t1 : Int)
    (h : t1 < t0) (h0 : t0 < Bump.MAXUS) (hb : 0 ≤ t1 - B) :
    ∃ l, loopBranch step t0 t1 = .ok l ∧ IsRangeDown step t0 t1 l ∧
      ∀ i, i ≤ l.length → 0 ≤ iter step i t0 ∧ iter step i t0 < Bump.MAXUS := by
  obtain ⟨l, e1, e2, _, _, _⟩ := loop_backward step (fun t => (hstep t).1) t0 t1 h
  refine ⟨l, e1, e2, fun i hi => ?_⟩
  have hle := iterate_dec step (fun t => (hstep t).1) i t0
  refine ⟨?_, by omega⟩
  rcases Nat.lt_or_ge i l.length with hlt | hge'
  · have := (e2.1 i hlt).2
    have := (hstep t0).1; have := (hstep t0).2
    omega
  · have ei : i = l.length := by omega
    cases i with
    | zero => simp only [iter]; have := (hstep t0).1; have := (hstep t0).2; omega
    | succ j =>
      rw [iter_succ_outer]
      have := (e2.1 j (by omega)).2
      have := (hstep (iter step j t0)).2
      omega

/-- instance: a timedelta bump `us > 0` with `0 ≤ t0 < t1` and `t1 + us < MAXUS` — every instant the loop computes, the final
overshooting one included, is a representable datetime (so the code returns the list of `td_forward` and cannot overflow) -/
theorem td_forward_representable (t0 t1 us : Int) (hus : 0 < us) (h : t0 < t1) (h0 : 0 ≤ t0) (hb : t1 + us < Bump.MAXUS) :
    ∃ l, drange t0 t1 (.td us) = .ok l ∧ ∀ i, i ≤ l.length → 0 ≤ t0 + us * i ∧ t0 + us * i < Bump.MAXUS := by
  obtain ⟨l, e1, _, e3⟩ := loop_forward_representable (· + us) us (fun t => ⟨by omega, by omega⟩) t0 t1 h h0 hb
  refine ⟨l, ?_, fun i hi => ?_⟩
  · have : t0 ≠ t1 := by omega
    simp [drange, this, e1]
  · rw [← iter_add us i t0]; exact e3 i hi

/-- the bound is needed: 9999-12-25 → 9999-12-31 in steps of one day passes `td_forward`, but the iterate after the last element
is 10000-01-01 = `MAXUS`, which python cannot represent (`drange(dt(9999,12,25), dt(9999,12,31), timedelta(1))` raises
OverflowError on the real code) -/
example : (Bump.MAXUS - 7 * DAY) + DAY * 7 = Bump.MAXUS ∧
    drange (Bump.MAXUS - 7 * DAY) (Bump.MAXUS - DAY) (.td DAY) = .ok [Bump.MAXUS - 7 * DAY, Bump.MAXUS - 6 * DAY,
      Bump.MAXUS - 5 * DAY, Bump.MAXUS - 4 * DAY, Bump.MAXUS - 3 * DAY, Bump.MAXUS - 2 * DAY, Bump.MAXUS - DAY] := ⟨by decide, by rfl⟩

/-! ### round k3: `date_range`, the endpoint resolution `drange` begins with (anchor _drange.py:210-264; model PygModel/DateRange.lean)

An endpoint is `None`, a bump or a date.  The theorems say, through the returned PAIR, which instant each endpoint denotes: a bump
at the END is applied to the START when that is a date and to today otherwise; a bump at the START is applied to the END when that is
a date and to today otherwise; only an open end (`t1 = None`) sorts the pair; `today` matters exactly when one of these rules names it.
`bumpOne` is the C09 model of a single `dt_bump` argument. -/

open Pyg.DateRange Pyg.Bump in
/-- two dates: the pair AS GIVEN (not sorted: `drange` decides the direction from it), whatever today is -/
theorem dateRange_dates (today a b : Int) : dateRange today (.date a) (.date b) = .ok (a, b) := rfl

open Pyg.DateRange Pyg.Bump in
/-- … so `drange(t0, t1, bump)` with two dates is the enumeration from these instants: all the `drange` theorems of this file are
about the function the caller calls -/
theorem drangeE_dates (today a b : Int) (bump : DRange.Bump) : drangeE today (.date a) (.date b) bump = drange a b bump := rfl

open Pyg.DateRange Pyg.Bump in
/-- a date and a bump (`drange(2000, '10b', ..)`): the range runs from the date to the bump applied TO THE DATE, whatever today is -/
theorem dateRange_date_bump (today t0 : Int) (b : BumpArg) (p : Int × Int) :
    dateRange today (.date t0) (.bump b) = .ok p ↔ p.1 = t0 ∧ bumpOne t0 b = .ok p.2 := by
  unfold dateRange
  simp only []
  rw [C09.dtBump_single]
  cases h : bumpOne t0 b with
  | error e => simp [Except.map]
  | ok r =>
    simp only [Except.map, Except.ok.injEq]
    constructor
    · intro h; subst h; exact ⟨rfl, rfl⟩
    · intro ⟨h1, h2⟩; cases p; simp_all

open Pyg.DateRange Pyg.Bump in
/-- a bump and a date (`drange('-10b', t1, ..)`): the range runs from the bump applied TO THE END DATE to that date -/
theorem dateRange_bump_date (today t1 : Int) (b : BumpArg) (p : Int × Int) :
    dateRange today (.bump b) (.date t1) = .ok p ↔ bumpOne t1 b = .ok p.1 ∧ p.2 = t1 := by
  unfold dateRange
  simp only []
  rw [C09.dtBump_single]
  cases h : bumpOne t1 b with
  | error e => simp [Except.map]
  | ok r =>
    simp only [Except.map, Except.ok.injEq]
    constructor
    · intro h; subst h; exact ⟨rfl, rfl⟩
    · intro ⟨h1, h2⟩; cases p; simp_all

open Pyg.DateRange Pyg.Bump in
/-- two bumps (`drange('-10b', '10b', ..)`): both applied to today, the pair not sorted -/
theorem dateRange_bump_bump (today : Int) (b0 b1 : BumpArg) (p : Int × Int) :
    dateRange today (.bump b0) (.bump b1) = .ok p ↔ bumpOne today b0 = .ok p.1 ∧ bumpOne today b1 = .ok p.2 := by
  unfold dateRange
  simp only []
  rw [C09.dtBump_single, C09.dtBump_single]
  cases h0 : bumpOne today b0 with
  | error e => simp [Except.bind]
  | ok r0 =>
    cases h1 : bumpOne today b1 with
    | error e => simp [Except.bind, Except.map]
    | ok r1 =>
      simp only [Except.bind, Except.map, Except.ok.injEq]
      constructor
      · intro h; subst h; exact ⟨rfl, rfl⟩
      · intro ⟨h1, h2⟩; cases p; simp_all

open Pyg.DateRange Pyg.Bump in
/-- the docstring's `date_range(-100, 100) == [dt_bump(t, -100), dt_bump(t, 100)]`: integers below 1500 are day offsets from today -/
theorem dateRange_int_int (today m n : Int) (hm : 0 ≤ today + m * DAYUS ∧ today + m * DAYUS < MAXUS)
    (hn : 0 ≤ today + n * DAYUS ∧ today + n * DAYUS < MAXUS) :
    dateRange today (.bump (.int m)) (.bump (.int n)) = .ok (today + m * DAYUS, today + n * DAYUS) := by
  rw [dateRange_bump_bump]
  simp only [bumpOne]
  exact ⟨(checkRange_ok _ _).2 ⟨hm, rfl⟩, (checkRange_ok _ _).2 ⟨hn, rfl⟩⟩

open Pyg.DateRange Pyg.Bump in
/-- an open end (`t1 = None`): one member of the pair is today, the other is `TMIN` (no start either), the date, or the bump applied to
today; with a start the pair is SORTED as `(min, max)` (so `drange(-10)` and `drange(10)` both run forward) -/
theorem dateRange_open_end (today : Int) (e0 : Endpoint) (p : Int × Int) (h : dateRange today e0 .none = .ok p) :
    match e0 with
    | .none => p = (TMINUS, today)
    | .date t0 => p = (min today t0, max today t0)
    | .bump b0 => ∃ r, bumpOne today b0 = .ok r ∧ p = (min today r, max today r) := by
  cases e0 with
  | none => simp only [dateRange] at h; cases h; rfl
  | date t0 =>
    simp only [dateRange, sorted2] at h
    split at h <;> cases h <;> simp only [Prod.mk.injEq] <;> omega
  | bump b0 =>
    simp only [dateRange] at h
    rw [C09.dtBump_single] at h
    cases hb : bumpOne today b0 with
    | error e => rw [hb] at h; cases h
    | ok r =>
      rw [hb] at h
      simp only [Except.map, sorted2] at h
      split at h <;> cases h <;> refine ⟨r, hb, ?_⟩ <;> simp only [Prod.mk.injEq] <;> omega

open Pyg.DateRange Pyg.Bump in
/-- … hence ordered, with today as one end, whenever a start is given or today is not before 1900 -/
theorem dateRange_open_end_sorted (today : Int) (e0 : Endpoint) (p : Int × Int) (h : dateRange today e0 .none = .ok p)
    (hs : e0 ≠ .none ∨ TMINUS ≤ today) : p.1 ≤ p.2 ∧ (p.1 = today ∨ p.2 = today) := by
  have h' := dateRange_open_end today e0 p h
  cases e0 with
  | none =>
    simp only at h'; subst h'
    rcases hs with hs | hs
    · exact absurd rfl hs
    · exact ⟨hs, Or.inr rfl⟩
  | date t0 => simp only at h'; subst h'; simp only; omega
  | bump b0 => obtain ⟨r, _, rfl⟩ := h'; simp only; omega

open Pyg.DateRange Pyg.Bump in
/-- `today` matters only where the rules above name it: with an end DATE, or with a start date and an end bump, the range is the same
on every day it is asked for -/
theorem dateRange_today_irrelevant (today today' : Int) (e0 e1 : Endpoint)
    (h : (∃ t1, e1 = .date t1) ∨ ((∃ b1, e1 = .bump b1) ∧ ∃ t0, e0 = .date t0)) :
    dateRange today e0 e1 = dateRange today' e0 e1 := by
  rcases h with ⟨t1, rfl⟩ | ⟨⟨b1, rfl⟩, ⟨t0, rfl⟩⟩
  · cases e0 <;> rfl
  · rfl

open Pyg.DateRange Pyg.Bump in
/-- `date_range` fails only when a bump does (an instant outside years 1..9999, a malformed text): dates and `None` always resolve -/
theorem dateRange_total_dates (today : Int) (e0 e1 : Endpoint) (h0 : ∀ b, e0 ≠ .bump b) (h1 : ∀ b, e1 ≠ .bump b) :
    ∃ p, dateRange today e0 e1 = .ok p := by
  cases e0 with
  | bump b => exact absurd rfl (h0 b)
  | none => cases e1 with
    | bump b => exact absurd rfl (h1 b)
    | none => exact ⟨_, rfl⟩
    | date t => exact ⟨_, rfl⟩
  | date t0 => cases e1 with
    | bump b => exact absurd rfl (h1 b)
    | none => exact ⟨_, rfl⟩
    | date t => exact ⟨_, rfl⟩

open Pyg.DateRange Pyg.Bump in
/-- the docstring's own examples: `date_range(2000, '10b') == [dt(2000,1,1), dt(2000,1,17)]` on any day, and
`drange(2000, '10b', '1b')` = the eleven weekdays of 3 … 17 January 2000 (1 January 2000 is a Saturday) -/
example : dateRange 0 (.date (mkDate 2000 1 1)) (.bump (.str "10b")) = .ok (mkDate 2000 1 1, mkDate 2000 1 17) := by decide +kernel

/-! ### round k3: `'kb'` = iterate `dt_bump` against the C09 TOKEN model (notes i3 / v3: "still not against the C09 token model") -/

/-- the datetimes the code constructs on the way of a forward business-day step lie between the start and the result -/
theorem bOffPath_forward (w n : Int) (hw : 0 ≤ w ∧ w < 7) (hn : 1 ≤ n) :
    ∀ j ∈ Gen.bOffPath w n, 0 ≤ j ∧ j ≤ Gen.bOff w n := by
  intro j hj
  unfold Gen.bOffPath at hj
  unfold Gen.bOff
  simp only [List.mem_cons, List.not_mem_nil, or_false] at hj ⊢
  rcases hj with rfl | rfl | rfl <;> (repeat' split) <;> omega

/-- … of a backward step from a weekday: not above the start, at most six days below the result (the week count is applied first) -/
theorem bOffPath_backward (w n : Int) (hw : 0 ≤ w ∧ w < 5) (hn : n ≤ -1) :
    ∀ j ∈ Gen.bOffPath w n, Gen.bOff w n - 6 ≤ j ∧ j ≤ 0 := by
  intro j hj
  unfold Gen.bOffPath at hj
  unfold Gen.bOff
  simp only [List.mem_cons, List.not_mem_nil, or_false] at hj ⊢
  rcases hj with rfl | rfl | rfl <;> (repeat' split) <;> omega

/-- **`'kb'` (k ≥ 1) from a weekday, against the C09 model's `dt_bump`** (`Bump.bumpCs` on the token text `'<k>b'`, i.e. through the
tokenizer, `int(…)`, the generated business-day block and the range checks): for `0 ≤ t0 < t1 < MAXUS`, `t0` a weekday, the list
starts at `t0`, EVERY element is the C09 `dt_bump(·, 'kb')` of its predecessor — the bump is defined there, no hypothesis on it —, all
lie in `[t0, t1]`, strictly increasing, and the C09 bump of the last element, if it does not overflow, is beyond `t1` -/
theorem kb_c09 (k : Bump.Tok) (wf : k.WF) (n : Int) (hk : k.value = n ∧ k.unit = Per.b.letter) (hn : 1 ≤ n)
    (t0 t1 : Int) (h0 : 0 ≤ t0) (h : t0 < t1) (h1 : t1 < Bump.MAXUS) (hwd : wdT t0 < 5) :
    ∃ l, drange t0 t1 (.period [(n, .b)]) = .ok l ∧ l.head? = some t0 ∧
      (∀ i x y, l[i]? = some x → l[i + 1]? = some y → Bump.bumpCs k.text x = .ok y) ∧
      (∀ x, l.getLast? = some x → ∀ y, Bump.bumpCs k.text x = .ok y → t1 < y) ∧
      (∀ x ∈ l, t0 ≤ x ∧ x ≤ t1) ∧ l.Pairwise (· < ·) := by
  obtain ⟨l, e1, e2, e3, e4, e5⟩ := kb_forward_range n hn t0 t1 h hwd
  have htext : [k].flatMap Bump.Tok.text = k.text := by simp
  have hc09 := fun t ht => dtbump_is_c09 [k] (fun x hx => by simp at hx; subst hx; exact wf) [(n, .b)]
    (by simp only [TokParts, and_true]; exact hk) t ht
  simp only [htext] at hc09
  have hinc : ∀ t, t < dtBump [(n, Per.b)] t := by rw [dtBump_b]; exact bStep_inc n hn
  refine ⟨l, e1, e3, ?_, ?_, e5, e4⟩
  · intro i x y hx hy
    have hi : i + 1 < l.length := by
      rcases Nat.lt_or_ge (i + 1) l.length with hlt | hge
      · exact hlt
      · rw [List.getElem?_eq_none hge] at hy; cases hy
    have a := (e2.1 i (by omega)).1
    have b := (e2.1 (i + 1) hi).1
    rw [hx] at a; rw [hy] at b
    cases a; cases b
    have hy1 := (e2.1 (i + 1) hi).2
    have hx0 := (e5 _ (List.mem_of_getElem? hx)).1
    have hyy : iter (dtBump [(n, Per.b)]) (i + 1) t0 = dtBump [(n, Per.b)] (iter (dtBump [(n, Per.b)]) i t0) :=
      iter_succ_outer _ i t0
    rw [hyy] at hy1 ⊢
    have hlt := hinc (iter (dtBump [(n, Per.b)]) i t0)
    refine (hc09 _ (by omega)).2 k n Per.b rfl rfl (by omega) (by omega) (fun _ j hj => ?_)
    generalize iter (dtBump [(n, Per.b)]) i t0 = X at *
    have hp := bOffPath_forward (Bump.wdOf X) n (by rw [← wdT_eq]; exact wdT_range X) hn j hj
    have hv : dtBump [(n, Per.b)] X = X + DAY * Gen.bOff (Bump.wdOf X) n := by
      rw [dtBump_b]; unfold bStep; rw [bOff_eq_gen, wdT_eq]
    rw [hv] at hy1
    unfold Bump.InRange
    unfold DAY at hy1; unfold Bump.DAYUS
    constructor <;> omega
  · intro x hx y hy
    have hlen : l ≠ [] := by intro e; subst e; simp at hx
    have hpos : 0 < l.length := by cases l with | nil => exact absurd rfl hlen | cons _ _ => simp
    have hlast : l[l.length - 1]? = some x := by rw [← List.getLast?_eq_getElem?]; exact hx
    have a := (e2.1 (l.length - 1) (by omega)).1
    rw [hlast] at a; cases a
    have hx0 := (e5 _ (List.mem_of_getElem? hlast)).1
    have := (hc09 _ (by omega)).1 y hy
    rw [this, ← iter_succ_outer (dtBump [(n, Per.b)]) (l.length - 1) t0]
    have e : l.length - 1 + 1 = l.length := by omega
    rw [e]; exact e2.2

/-- a business-day step lands on a weekday, whatever the start and the count -/
theorem bStep_weekday (k x : Int) : wdT (bStep k x) < 5 := by
  have hw := wdT_range x
  unfold bStep bOff
  simp only []
  unfold wdT DAY at *
  generalize hq : x / 86400000000 = q at *
  (repeat' split) <;> omega


theorem iter_bStep_weekday (k t0 : Int) (hwd : wdT t0 < 5) : ∀ i : Nat, wdT (iter (dtBump [(k, Per.b)]) i t0) < 5
  | 0 => hwd
  | i + 1 => by rw [iter_succ_outer, dtBump_b]; exact bStep_weekday k _

/-- mirror image: `'kb'` (k ≤ -1) from a weekday `t0` back to `t1`, a whole number of days apart, `6 days ≤ t1 < t0 < MAXUS` (the code
applies the week count first: a datetime up to six days before the result is constructed on the way): every element is the C09
`dt_bump(·, 'kb')` of its predecessor, and that of the last one, if it does not overflow, is before `t1` -/
theorem kb_backward_c09 (k : Bump.Tok) (wf : k.WF) (n : Int) (hk : k.value = n ∧ k.unit = Per.b.letter) (hn : n ≤ -1)
    (t0 t1 : Int) (h1 : 6 * DAY ≤ t1) (h : t1 < t0) (h0 : t0 < Bump.MAXUS) (hal : (t1 - t0) % DAY = 0) (hwd : wdT t0 < 5) :
    ∃ l, drange t0 t1 (.period [(n, .b)]) = .ok l ∧ l.head? = some t0 ∧
      (∀ i x y, l[i]? = some x → l[i + 1]? = some y → Bump.bumpCs k.text x = .ok y) ∧
      (∀ x, l.getLast? = some x → ∀ y, Bump.bumpCs k.text x = .ok y → y < t1) ∧
      (∀ x ∈ l, t1 ≤ x ∧ x ≤ t0) ∧ l.Pairwise (· > ·) := by
  obtain ⟨l, e1, e2, e3, e4, e5⟩ := kb_backward_range n hn t0 t1 h hal hwd
  have htext : [k].flatMap Bump.Tok.text = k.text := by simp
  have hc09 := fun t ht => dtbump_is_c09 [k] (fun x hx => by simp at hx; subst hx; exact wf) [(n, .b)]
    (by simp only [TokParts, and_true]; exact hk) t ht
  simp only [htext] at hc09
  have hD : (0 : Int) ≤ 6 * DAY := by unfold DAY; omega
  refine ⟨l, e1, e3, ?_, ?_, e5, e4⟩
  · intro i x y hx hy
    have hi : i + 1 < l.length := by
      rcases Nat.lt_or_ge (i + 1) l.length with hlt | hge
      · exact hlt
      · rw [List.getElem?_eq_none hge] at hy; cases hy
    have a := (e2.1 i (by omega)).1
    have b := (e2.1 (i + 1) hi).1
    rw [hx] at a; rw [hy] at b
    cases a; cases b
    have hy1 := (e2.1 (i + 1) hi).2
    have hx0 := (e5 _ (List.mem_of_getElem? hx))
    have hwx := iter_bStep_weekday n t0 hwd i
    have hyy : iter (dtBump [(n, Per.b)]) (i + 1) t0 = dtBump [(n, Per.b)] (iter (dtBump [(n, Per.b)]) i t0) :=
      iter_succ_outer _ i t0
    rw [hyy] at hy1 ⊢
    generalize iter (dtBump [(n, Per.b)]) i t0 = X at *
    have hlt : dtBump [(n, Per.b)] X < X := by rw [dtBump_b]; exact bStep_dec n hn X
    refine (hc09 X (by omega)).2 k n Per.b rfl rfl (by omega) (by omega) (fun _ j hj => ?_)
    have hwr := wdT_range X
    have hp := bOffPath_backward (Bump.wdOf X) n (by rw [← wdT_eq]; omega) hn j hj
    have hv : dtBump [(n, Per.b)] X = X + DAY * Gen.bOff (Bump.wdOf X) n := by
      rw [dtBump_b]; unfold bStep; rw [bOff_eq_gen, wdT_eq]
    rw [hv] at hy1
    unfold Bump.InRange
    unfold DAY at hy1 h1; unfold Bump.DAYUS
    constructor <;> omega
  · intro x hx y hy
    have hlen : l ≠ [] := by intro e; subst e; simp at hx
    have hpos : 0 < l.length := by cases l with | nil => exact absurd rfl hlen | cons _ _ => simp
    have hlast : l[l.length - 1]? = some x := by rw [← List.getLast?_eq_getElem?]; exact hx
    have a := (e2.1 (l.length - 1) (by omega)).1
    rw [hlast] at a; cases a
    have hx0 := (e5 _ (List.mem_of_getElem? hlast)).1
    have := (hc09 _ (by omega)).1 y hy
    rw [this, ← iter_succ_outer (dtBump [(n, Per.b)]) (l.length - 1) t0]
    have e : l.length - 1 + 1 = l.length := by omega
    rw [e]; exact e2.2

/-- the hypotheses are satisfiable: the token `'2b'` / `'-2b'`, Mon 2000-01-03 ↔ Fri 2000-01-14 -/
example : (Bump.numTok 2 'b').WF ∧ (Bump.numTok 2 'b').value = 2 ∧ (Bump.numTok 2 'b').unit = Per.b.letter ∧
    (Bump.numTok (-2) 'b').WF ∧ (Bump.numTok (-2) 'b').value = -2 ∧
    (6 * DAY ≤ 63082281600000000 + 2 * DAY) ∧ ((63082281600000000 + 2 * DAY - (63082281600000000 + 13 * DAY)) % DAY = 0) ∧
    wdT (63082281600000000 + 13 * DAY) < 5 := by decide

end Pyg.Props.C10
