/-
  C08 — timeseries operators equal the pointwise operation on aligned operands: Series and scalars (PygModel/Ops.lean),
  multi-column DataFrames with the column policies 'ij' / 'oj' and the neutral element of a missing column
  (PygModel/OpsF.lean), and on Series / scalars the comparisons, min_/max_ and pow_ for natural exponents (PygModel/OpsX.lean).
  Property theorems only; helper lemmas live in PygProofs/Lemmas/OpsLemmas.lean, OpsFLemmas.lean, OpsXLemmas.lean, AlignLemmas.lean.
-/
import PygModel.Ops
import PygProofs.Lemmas.OpsLemmas
import PygProofs.Lemmas.OpsFLemmas
import PygProofs.Lemmas.OpsXLemmas
import PygProofs.Lemmas.OpsFXLemmas
import PygProofs.Lemmas.OpsFoldLemmas
import PygProofs.Lemmas.OpsMixedLemmas
import PygProofs.Lemmas.OpsFCellLemmas

namespace Pyg.Props.C08
open Pyg Pyg.Align Pyg.Ops

/-! ### the pointwise operation -/

/-- division by zero yields NaN; the value type has no ±inf at all -/
theorem div_zero_none (x : Rat) : Op.app .div x 0 = Option.none := by simp [Op.app]

theorem div_nonzero (x y : Rat) (h : y ≠ 0) : Op.app .div x y = some (x / y) := by simp [Op.app, h]

/-- NaN on either side gives NaN -/
theorem nan_absorbs (op : Op) (x : Option Rat) : op.appO Option.none x = Option.none ∧ op.appO x Option.none = Option.none := by
  cases x <;> simp [Op.appO]

/-! ### two Series: result index and values -/

/-- the result of `a op b` lives on the joint index of the operands and is the pointwise operation on the
operands reindexed onto it -/
theorem binop_index (op : Op) (how : How) (m : Option Dir) (a b : RSeries) :
    ∃ ix, joinIndex how [a.idx, b.idx] = some ix ∧
      binop op how m (.ts a) (.ts b) =
        .ts { idx := ix, vals := ((reindexR a ix m).vals.zip (reindexR b ix m).vals).map fun p => op.appO p.1 p.2 } := by
  cases how <;> exact ⟨_, rfl, by simp [binop, alignAll, indexesOf, joinIndex, kernel, reindexR_idx]⟩

/-- inner / outer: the index is the intersection / union of the operand indices (membership; sorted) -/
theorem binop_index_inner (a b : RSeries) (ha : SortedL a.idx) :
    ∃ ix, joinIndex .inner [a.idx, b.idx] = some ix ∧ SortedL ix ∧ ∀ t, t ∈ ix ↔ t ∈ a.idx ∧ t ∈ b.idx :=
  ⟨_, rfl, sorted_inter _ _ ha, fun t => mem_inter _ _ t⟩

theorem binop_index_outer (a b : RSeries) (ha : SortedL a.idx) :
    ∃ ix, joinIndex .outer [a.idx, b.idx] = some ix ∧ SortedL ix ∧ ∀ t, t ∈ ix ↔ t ∈ a.idx ∨ t ∈ b.idx :=
  ⟨_, rfl, sorted_union _ _ ha, fun t => mem_union _ _ t⟩

/-- without a fill method: `result[t] = a[t] op b[t]` at every timestamp of the joint index, NaN if either is
missing or NaN (`valueAtR` is the lookup characterised in C03: `reindex_keep` / `reindex_missing`) -/
theorem binop_value (op : Op) (how : How) (a b : RSeries) :
    ∃ ix, joinIndex how [a.idx, b.idx] = some ix ∧
      binop op how Option.none (.ts a) (.ts b) =
        .ts { idx := ix, vals := ix.map fun t => op.appO (valueAtR a t) (valueAtR b t) } := by
  obtain ⟨ix, h1, h2⟩ := binop_index op how Option.none a b
  refine ⟨ix, h1, ?_⟩
  rw [h2]
  simp [reindexR, List.zip_map', List.map_map, Function.comp_def]

/-! ### scalars broadcast -/

theorem scalar_right (op : Op) (how : How) (a : RSeries) (q : Option Rat) :
    binop op how Option.none (.ts a) (.num q) =
      .ts { idx := a.idx, vals := a.idx.map fun t => op.appO (valueAtR a t) q } := by
  cases how <;> simp [binop, alignAll, indexesOf, joinIndex, kernel, reindexR, List.map_map, Function.comp_def]

theorem scalar_left (op : Op) (how : How) (b : RSeries) (q : Option Rat) :
    binop op how Option.none (.num q) (.ts b) =
      .ts { idx := b.idx, vals := b.idx.map fun t => op.appO q (valueAtR b t) } := by
  cases how <;> simp [binop, alignAll, indexesOf, joinIndex, kernel, reindexR, List.map_map, Function.comp_def]

theorem scalar_scalar (op : Op) (how : How) (m : Option Dir) (p q : Option Rat) :
    binop op how m (.num p) (.num q) = .num (op.appO p q) := by
  cases how <;> simp [binop, alignAll, indexesOf, joinIndex, kernel]

/-- ... also with a fill method: the scalar broadcasts over the Series' own index, where the Series shows its
forward / backward filled value (`add_(a, 1, method='ffill')` fills `a`'s NaN before adding) -/
theorem scalar_right_fill (op : Op) (how : How) (m : Option Dir) (a : RSeries) (q : Option Rat) :
    binop op how m (.ts a) (.num q) =
      .ts { idx := a.idx, vals := a.idx.map fun t => op.appO (lookR a m t) q } := by
  cases how <;> simp [binop, alignAll, indexesOf, joinIndex, kernel, reindexR_eq, List.map_map, Function.comp_def]

theorem scalar_left_fill (op : Op) (how : How) (m : Option Dir) (b : RSeries) (q : Option Rat) :
    binop op how m (.num q) (.ts b) =
      .ts { idx := b.idx, vals := b.idx.map fun t => op.appO q (lookR b m t) } := by
  cases how <;> simp [binop, alignAll, indexesOf, joinIndex, kernel, reindexR_eq, List.map_map, Function.comp_def]

/-- `add_` and `mul_` commute between a Series and a scalar, for every index policy (also `lj` / `rj`) and fill method -/
theorem add_comm_scalar (how : How) (m : Option Dir) (a : RSeries) (q : Option Rat) :
    binop .add how m (.ts a) (.num q) = binop .add how m (.num q) (.ts a) := by
  rw [scalar_right_fill, scalar_left_fill]
  congr 3; funext t; exact appO_comm_add _ _

theorem mul_comm_scalar (how : How) (m : Option Dir) (a : RSeries) (q : Option Rat) :
    binop .mul how m (.ts a) (.num q) = binop .mul how m (.num q) (.ts a) := by
  rw [scalar_right_fill, scalar_left_fill]
  congr 3; funext t; exact appO_comm_mul _ _

/-- dividing a Series by the scalar 0 gives NaN at every timestamp of the Series (F10: the unrepaired code
returned the scalar nan) -/
theorem div_by_zero_scalar (how : How) (a : RSeries) :
    binop .div how Option.none (.ts a) (.num (some 0)) = .ts { idx := a.idx, vals := a.idx.map fun _ => Option.none } := by
  rw [scalar_right]
  congr 2
  apply List.map_congr_left
  intro t _
  cases valueAtR a t <;> simp [Op.appO, Op.app]

/-! ### commutativity -/

/-- `add_` and `mul_` are commutative on Series with sorted indices, for the inner and the outer policy -/
theorem add_comm_inner (m : Option Dir) (a b : RSeries) (ha : SortedL a.idx) (hb : SortedL b.idx) :
    binop .add .inner m (.ts a) (.ts b) = binop .add .inner m (.ts b) (.ts a) := by
  obtain ⟨ix, h1, h2⟩ := binop_index .add .inner m a b
  obtain ⟨ix', h1', h2'⟩ := binop_index .add .inner m b a
  rw [joinIndex_comm_inner a.idx b.idx ha hb, h1'] at h1
  cases h1
  rw [h2, h2']
  congr 2
  apply List.ext_getElem
  · simp [Nat.min_comm]
  · intro i h3 h4; simp; exact appO_comm_add _ _

theorem mul_comm_inner (m : Option Dir) (a b : RSeries) (ha : SortedL a.idx) (hb : SortedL b.idx) :
    binop .mul .inner m (.ts a) (.ts b) = binop .mul .inner m (.ts b) (.ts a) := by
  obtain ⟨ix, h1, h2⟩ := binop_index .mul .inner m a b
  obtain ⟨ix', h1', h2'⟩ := binop_index .mul .inner m b a
  rw [joinIndex_comm_inner a.idx b.idx ha hb, h1'] at h1
  cases h1
  rw [h2, h2']
  congr 2
  apply List.ext_getElem
  · simp [Nat.min_comm]
  · intro i h3 h4; simp; exact appO_comm_mul _ _

theorem add_comm_outer (m : Option Dir) (a b : RSeries) (ha : SortedL a.idx) (hb : SortedL b.idx) :
    binop .add .outer m (.ts a) (.ts b) = binop .add .outer m (.ts b) (.ts a) := by
  obtain ⟨ix, h1, h2⟩ := binop_index .add .outer m a b
  obtain ⟨ix', h1', h2'⟩ := binop_index .add .outer m b a
  rw [joinIndex_comm_outer a.idx b.idx ha hb, h1'] at h1
  cases h1
  rw [h2, h2']
  congr 2
  apply List.ext_getElem
  · simp [Nat.min_comm]
  · intro i h3 h4; simp; exact appO_comm_add _ _

theorem mul_comm_outer (m : Option Dir) (a b : RSeries) (ha : SortedL a.idx) (hb : SortedL b.idx) :
    binop .mul .outer m (.ts a) (.ts b) = binop .mul .outer m (.ts b) (.ts a) := by
  obtain ⟨ix, h1, h2⟩ := binop_index .mul .outer m a b
  obtain ⟨ix', h1', h2'⟩ := binop_index .mul .outer m b a
  rw [joinIndex_comm_outer a.idx b.idx ha hb, h1'] at h1
  cases h1
  rw [h2, h2']
  congr 2
  apply List.ext_getElem
  · simp [Nat.min_comm]
  · intro i h3 h4; simp; exact appO_comm_mul _ _

/-! ### lists of operands reduce left to right -/

theorem reduce_left (op : Op) (hop : op = .add ∨ op = .mul) (how : How) (m : Option Dir) (x : Operand) (xs ys : List Operand) :
    opList op how m (x :: xs) ys = some ((xs ++ ys).foldl (binop op how m) x) := by
  rcases hop with rfl | rfl <;> rfl

/-- `sub_ / div_` first reduce a list on either side with `add_ / mul_`.  NOT the clause "lists of operands reduce left to
right": this (and `reduce_div`) only unfolds the wrapper, which copies `_pandas.py` `sub_` / `div_`.  What the wrapper means
against the left fold of the clause is stated by `sub_div_right_list_left_fold` (a list on the right only: the left fold, by
value) and refuted by `sub_list_left_not_left_fold` / `div_list_left_not_left_fold` (a list on the left: known finding C08-A3). -/
theorem reduce_sub (how : How) (m : Option Dir) (x y : Operand) (xs ys : List Operand) :
    opList .sub how m (x :: xs) (y :: ys) =
      some (binop .sub how m (xs.foldl (binop .add how m) x) (ys.foldl (binop .add how m) y)) := rfl

theorem reduce_div (how : How) (m : Option Dir) (x y : Operand) (xs ys : List Operand) :
    opList .div how m (x :: xs) (y :: ys) =
      some (binop .div how m (xs.foldl (binop .mul how m) x) (ys.foldl (binop .mul how m) y)) := rfl

/-- **left to right, by value** (not through the model's own fold): three Series, any index policy, no fill
method - `add_([a, b, c])` lives on the joint index of `a ∩ b` and `c` and holds `(a[t] op b[t]) op c[t]` there.
`reduce_left` is the definitional unfolding; this one reads the result. -/
theorem reduce_value (op : Op) (hop : op = .add ∨ op = .mul) (how : How) (a b c : RSeries) :
    ∃ ix jx, joinIndex how [a.idx, b.idx] = some ix ∧ joinIndex how [ix, c.idx] = some jx ∧
      opList op how Option.none [.ts a, .ts b, .ts c] [] =
        some (.ts (RSeries.mk jx (jx.map fun t =>
          op.appO (valueAtR (RSeries.mk ix (ix.map fun t => op.appO (valueAtR a t) (valueAtR b t))) t) (valueAtR c t)))) := by
  obtain ⟨ix, h1, e1⟩ := binop_value op how a b
  obtain ⟨jx, h2, e2⟩ := binop_value op how (RSeries.mk ix (ix.map fun t => op.appO (valueAtR a t) (valueAtR b t))) c
  refine ⟨ix, jx, h1, h2, ?_⟩
  rw [reduce_left op hop]
  simp only [List.append_nil, List.foldl_cons, List.foldl_nil, e1, e2]

/-- **left to right for ANY number of operands, by value** (induction over the list, not the model's own fold): `add_` /
`mul_` of the Series `x :: xs` (no fill method, any index policy) is the Series on the joint index of ALL operands
(`joinIndex` of the list: the intersection / union of all indices, the first, the last) whose value at `t` is the LEFT fold
`((x[t] op x₁[t]) op x₂[t]) …` of the operands' own values at `t` (`valueAtR`: NaN where an operand has no row).
`reduce_value` is the case of three operands, stated through the intermediate Series. -/
theorem reduce_value_n (op : Op) (hop : op = .add ∨ op = .mul) (how : How) (x y : RSeries) (xs : List RSeries) :
    ∃ jx, joinIndex how ((x :: y :: xs).map (·.idx)) = some jx ∧
      opList op how Option.none ((x :: y :: xs).map .ts) [] =
        some (.ts { idx := jx, vals := jx.map fun t => (y :: xs).foldl (fun v s => op.appO v (valueAtR s t)) (valueAtR x t) }) := by
  obtain ⟨r, h1, h2, h3, h4⟩ := foldl_binop op how x (y :: xs)
  refine ⟨r.idx, ?_, ?_⟩
  · rw [h2]; exact joinIndex_fold how x.idx ((y :: xs).map (·.idx))
  · simp only [List.map_cons, reduce_left op hop, List.append_nil] at h1 ⊢
    rw [h1]
    have hv := h3 (by simp)
    cases r with
    | mk ri rv =>
      congr 3
      exact hv.trans (List.map_congr_left fun t _ => h4 t)

/-- … and for `sub_` / `div_`, whose list arguments are first reduced with `add_` / `mul_`: the value at `t` is
`(fold⁺ of a's) − (fold⁺ of b's)` resp. `(fold× of a's) / (fold× of b's)`, at every label -/
theorem reduce_value_sub_div (op : Op) (hop : op = .sub ∨ op = .div) (how : How) (x y : RSeries) (xs ys : List RSeries) :
    ∃ r, opList op how Option.none ((x :: xs).map .ts) ((y :: ys).map .ts) = some (.ts r) ∧
      ∀ t, valueAtR r t =
        op.appO (xs.foldl (fun v s => (if op = .sub then Op.add else Op.mul).appO v (valueAtR s t)) (valueAtR x t))
                (ys.foldl (fun v s => (if op = .sub then Op.add else Op.mul).appO v (valueAtR s t)) (valueAtR y t)) := by
  rcases hop with rfl | rfl
  · obtain ⟨ra, a1, _, _, a4⟩ := foldl_binop .add how x xs
    obtain ⟨rb, b1, _, _, b4⟩ := foldl_binop .add how y ys
    obtain ⟨r, c1, _, _, c4⟩ := binop_step .sub how ra rb
    refine ⟨r, ?_, ?_⟩
    · simp only [List.map_cons, reduce_sub, a1, b1, c1]
    · intro t; rw [c4 t, a4 t, b4 t]; rfl
  · obtain ⟨ra, a1, _, _, a4⟩ := foldl_binop .mul how x xs
    obtain ⟨rb, b1, _, _, b4⟩ := foldl_binop .mul how y ys
    obtain ⟨r, c1, _, _, c4⟩ := binop_step .div how ra rb
    refine ⟨r, ?_, ?_⟩
    · simp only [List.map_cons, reduce_div, a1, b1, c1]
    · intro t; rw [c4 t, a4 t, b4 t]; rfl

/-- **the LEFT FOLD of the clause, by value, for all four operators**: the chain of BINARY calls `((x op y₁) op y₂) …` (what
"lists of operands reduce left to right" prescribes; no list wrapper involved) is a Series whose value at every label `t` is the
left fold of `op` over the operands' own values at `t` -/
theorem left_fold_value (op : Op) (how : How) (x : RSeries) (ys : List RSeries) :
    ∃ r, (ys.map Operand.ts).foldl (binop op how Option.none) (.ts x) = .ts r ∧
      ∀ t, valueAtR r t = ys.foldl (fun v s => op.appO v (valueAtR s t)) (valueAtR x t) := by
  obtain ⟨r, h1, _, _, h4⟩ := foldl_binop op how x ys
  exact ⟨r, h1, h4⟩

/-- **a list on the RIGHT of `sub_` / `div_` is the left fold, by value**: `sub_(x, [y₁, y₂ ..])` computes `x - (y₁ + y₂ ..)`, which
at every label holds `((x[t] - y₁[t]) - y₂[t]) …` (NaN absorbing; `div_`: `x / (y₁ * y₂ ..)` = `((x / y₁) / y₂) …`, a zero divisor
anywhere giving NaN on both sides) - the same values as the chain of binary calls (`left_fold_value`).  Independent of the
wrapper's own `add_` / `mul_` pre-reduction: the right-hand side never mentions it. -/
theorem sub_div_right_list_left_fold (op : Op) (hop : op = .sub ∨ op = .div) (how : How) (x y : RSeries) (ys : List RSeries) :
    ∃ r, opList op how Option.none [.ts x] ((y :: ys).map .ts) = some (.ts r) ∧
      ∀ t, valueAtR r t = (y :: ys).foldl (fun v s => op.appO v (valueAtR s t)) (valueAtR x t) := by
  obtain ⟨r, h1, h2⟩ := reduce_value_sub_div op hop how x y [] ys
  refine ⟨r, h1, fun t => ?_⟩
  rw [h2 t]
  have hp : (if op = .sub then Op.add else Op.mul) = op.pre := by rcases hop with rfl | rfl <;> rfl
  rw [hp]
  simp only [List.foldl_nil, List.foldl_cons]
  exact foldl_pre_right op hop (fun s => valueAtR s t) ys _ _

/-- … and the values agree with the chain of binary calls at every label -/
theorem sub_div_right_list_eq_chain (op : Op) (hop : op = .sub ∨ op = .div) (how : How) (x y : RSeries) (ys : List RSeries) :
    ∃ r r', opList op how Option.none [.ts x] ((y :: ys).map .ts) = some (.ts r) ∧
      ((y :: ys).map Operand.ts).foldl (binop op how Option.none) (.ts x) = .ts r' ∧ ∀ t, valueAtR r t = valueAtR r' t := by
  obtain ⟨r, h1, h2⟩ := sub_div_right_list_left_fold op hop how x y ys
  obtain ⟨r', g1, g2⟩ := left_fold_value op how x (y :: ys)
  exact ⟨r, r', h1, g1, fun t => (h2 t).trans (g2 t).symm⟩

/-- **a list on the LEFT of `sub_` is NOT reduced left to right** (the clause is false of the code there; known finding C08-A3,
`_pandas.py` `sub_`: `if isinstance(a, list): a = add_(a ..)`): on one day with a = 8, b = 2, c = 4, `sub_([a, b], c)` is
`(8 + 2) - 4 = 6`, the left fold `(8 - 2) - 4 = 2` -/
theorem sub_list_left_not_left_fold :
    opList .sub .inner Option.none [.ts ⟨[0], [some 8]⟩, .ts ⟨[0], [some 2]⟩] [.ts ⟨[0], [some 4]⟩] = some (.ts ⟨[0], [some 6]⟩) ∧
    [Operand.ts ⟨[0], [some 2]⟩, .ts ⟨[0], [some 4]⟩].foldl (binop .sub .inner Option.none) (.ts ⟨[0], [some 8]⟩) = .ts ⟨[0], [some 2]⟩ := by
  decide +kernel

/-- the same for `div_`: `div_([a, b], c)` is `(8 * 2) / 4 = 4`, the left fold `(8 / 2) / 4 = 1` -/
theorem div_list_left_not_left_fold :
    opList .div .inner Option.none [.ts ⟨[0], [some 8]⟩, .ts ⟨[0], [some 2]⟩] [.ts ⟨[0], [some 4]⟩] = some (.ts ⟨[0], [some 4]⟩) ∧
    [Operand.ts ⟨[0], [some 2]⟩, .ts ⟨[0], [some 4]⟩].foldl (binop .div .inner Option.none) (.ts ⟨[0], [some 8]⟩) = .ts ⟨[0], [some 1]⟩ := by
  decide +kernel

/-- exactly when the difference shows, for scalars: `sub_([x, y], z)` against the left fold differ iff `y + y ≠ 0` -/
theorem sub_list_left_scalar (x y z : Rat) :
    opList .sub .inner Option.none [.num (some x), .num (some y)] [.num (some z)] = some (.num (some (x + y - z))) ∧
    [Operand.num (some y), .num (some z)].foldl (binop .sub .inner Option.none) (.num (some x)) = .num (some (x - y - z)) ∧
    (x + y - z = x - y - z ↔ y = 0) := by
  refine ⟨rfl, rfl, ?_⟩
  constructor <;> intro h <;> grind

/-- one operator step read at EVERY label: inside the joint index the pointwise value, outside it NaN - which is what
`a[t] op b[t]` gives there as well, because one of the operands has no row -/
theorem binop_value_at (op : Op) (how : How) (a b : RSeries) :
    ∃ r, binop op how Option.none (.ts a) (.ts b) = .ts r ∧ joinIndex how [a.idx, b.idx] = some r.idx ∧
      ∀ t, valueAtR r t = op.appO (valueAtR a t) (valueAtR b t) := by
  obtain ⟨r, h1, h2, _, h4⟩ := binop_step op how a b
  exact ⟨r, h1, by rw [h2, joinIndex_pair], h4⟩

/-! ### division by zero: never ±inf, against an explicit float division WITH infinities
`XVal` (Lemmas/OpsFoldLemmas.lean) has `+inf / -inf`; `XVal.div` is numpy's float division (`1/0 = inf`, `-1/0 = -inf`,
`0/0 = nan`), `XVal.divMasked` the cell of `_div_` for a timeseries denominator (`denom[denom == 0] = nan; a / denom`),
`XVal.divScalar` the one for a number (`a * nan if b == 0 else a / b`).  Finite arithmetic is exact (no overflow). -/

/-- without the masking, division by zero DOES produce infinities -/
theorem div_unmasked_inf : XVal.div (.fin 1) (.fin 0) = .pinf ∧ XVal.div (.fin (-1)) (.fin 0) = .ninf ∧ XVal.div (.fin 0) (.fin 0) = .nan := by
  refine ⟨?_, ?_, ?_⟩ <;> simp [XVal.div] <;> decide

/-- **never ±inf**: for operands that are finite or NaN, the masked division of `_div_` (both branches) is finite or NaN … -/
theorem div_never_inf (x y : Option Rat) :
    (XVal.divMasked (.ofO x) (.ofO y)).isInf = false ∧ (XVal.divScalar (.ofO x) (.ofO y)).isInf = false := by
  cases x with
  | none => cases y <;> simp [XVal.ofO, XVal.divMasked, XVal.divScalar, XVal.maskZero, XVal.div, XVal.mulNan, XVal.isInf] <;> split <;> rfl
  | some x =>
    cases y with
    | none => simp [XVal.ofO, XVal.divMasked, XVal.divScalar, XVal.maskZero, XVal.div, XVal.isInf]
    | some y =>
      by_cases hy : y = 0 <;>
        simp [XVal.ofO, XVal.divMasked, XVal.divScalar, XVal.maskZero, XVal.div, XVal.mulNan, XVal.isInf, hy]

/-- … and it IS the model's division: `Op.appO .div` (NaN where the denominator is 0 or either side is NaN, else the exact
quotient) is the masked float division, so `div_zero_none` is a statement about `_div_`'s masking, not about a value type
that happens to lack infinities -/
theorem div_masked_eq (x y : Option Rat) :
    XVal.divMasked (.ofO x) (.ofO y) = .ofO (Op.appO .div x y) ∧ XVal.divScalar (.ofO x) (.ofO y) = .ofO (Op.appO .div x y) := by
  cases x with
  | none => cases y <;> simp [XVal.ofO, XVal.divMasked, XVal.divScalar, XVal.maskZero, XVal.div, XVal.mulNan, Op.appO] <;> split <;> rfl
  | some x =>
    cases y with
    | none => simp [XVal.ofO, XVal.divMasked, XVal.divScalar, XVal.maskZero, XVal.div, Op.appO]
    | some y =>
      by_cases hy : y = 0 <;>
        simp [XVal.ofO, XVal.divMasked, XVal.divScalar, XVal.maskZero, XVal.div, XVal.mulNan, Op.appO, Op.app, hy]

/-- the masking is necessary and sufficient: the unmasked quotient is infinite exactly for a non-zero finite numerator over
a zero denominator, and there the masked one is NaN -/
theorem div_mask_removes_inf (x y : Rat) :
    (XVal.div (.fin x) (.fin y)).isInf = true ↔ (y = 0 ∧ x ≠ 0) := by
  simp only [XVal.div]
  by_cases hy : y = 0
  · subst hy
    simp only [if_true, true_and]
    by_cases h1 : 0 < x
    · simp [h1, XVal.isInf]; intro e; subst e; exact absurd h1 (by decide)
    · by_cases h2 : x < 0
      · simp [h1, h2, XVal.isInf]; intro e; subst e; exact absurd h2 (by decide)
      · have : x = 0 := Rat.le_antisymm (Rat.not_lt.mp h1) (Rat.not_lt.mp h2)
        simp [h1, h2, XVal.isInf, this]
  · simp [hy, XVal.isInf]

/-! ### NaN-skipping aggregates -/

/-- the aggregates live on the joint index (the union under the default `oj`) -/
theorem agg_index (g : Agg) (how : How) (m : Option Dir) (xs : List Operand) (ix : List Int)
    (h : joinIndex how (indexesOf xs) = some ix) :
    ∃ s, aggregate g how m xs = some s ∧ s.idx = ix ∧ s.vals.length = ix.length := by
  simp [aggregate, h]

/-- what an operand shows at label `t` after alignment: a Series its (reindexed) value, a scalar itself -/
def lookO (m : Option Dir) (t : Int) : Operand → Option Rat
  | .ts s => lookR s m t
  | .num q => q

/-- **value**: the aggregate of Series and scalars is the Series on the joint index of the Series whose value at `t` is
the NaN-skipping aggregate `Agg.at` (see `count_spec`, `sum_skipna`, `mean_spec`) of what every operand shows at `t` -
a Series its value after `_df_reindex(·, m)` (`lookR`; NaN where it has no row), a scalar itself at every `t` -/
theorem agg_value (g : Agg) (how : How) (m : Option Dir) (xs : List Operand) (ix : List Int)
    (h : joinIndex how (indexesOf xs) = some ix) :
    aggregate g how m xs = some { idx := ix, vals := ix.map fun t => g.at (xs.map (lookO m t)) } := by
  simp only [aggregate, h]
  congr 2
  apply List.ext_getElem
  · simp
  · intro k h1 h2
    have hk : k < ix.length := by simpa using h1
    simp only [List.getElem_map, List.getElem_range, List.map_map]
    congr 1
    apply List.map_congr_left
    intro x _
    cases x with
    | num q => rfl
    | ts s =>
      simp only [Function.comp_def, Operand.at, lookO, reindexR_eq, List.getElem?_map, List.getElem?_eq_getElem hk,
        Option.map_some, Option.join_some]

/-- reading the aggregate by label -/
theorem agg_at (g : Agg) (how : How) (m : Option Dir) (xs : List Operand) (s : RSeries)
    (h : aggregate g how m xs = some s) (t : Int) (ht : t ∈ s.idx) :
    valueAtR s t = g.at (xs.map (lookO m t)) := by
  cases hj : joinIndex how (indexesOf xs) with
  | none => simp [aggregate, hj] at h
  | some ix =>
    rw [agg_value g how m xs ix hj] at h
    cases h
    obtain ⟨i, hi⟩ := posOf_of_mem ix t ht
    have h2 := (posOf_some ix t i hi).1
    simp only [valueAtR, hi, Option.bind_some, List.getElem?_map, h2, Option.map_some, Option.join_some]

/-- a scalar operand counts at every timestamp: `df_sum([a, q]) = a[t] + q` where `a` has data, `q` where it has not
(the unextended model dropped scalar operands: reviewer's finding r4 C08 2.1) -/
theorem agg_scalar_sum (how : How) (a : RSeries) (q : Rat) :
    aggregate .sum how Option.none [.ts a, .num (some q)] =
      some { idx := a.idx, vals := a.idx.map fun t => some ((valueAtR a t).getD 0 + q) } := by
  have hj : joinIndex how (indexesOf [.ts a, .num (some q)]) = some a.idx := by cases how <;> rfl
  rw [agg_value _ _ _ _ _ hj]
  congr 2
  apply List.map_congr_left
  intro t _
  simp only [List.map_cons, List.map_nil, lookO, lookR]
  cases valueAtR a t <;> simp [Agg.at, countAt, sumAt, List.filter, Rat.zero_add, Rat.add_zero]

/-- without any Series the aggregate is the scalar aggregate of the scalars -/
theorem agg_scalars_only (g : Agg) (how : How) (m : Option Dir) (qs : List (Option Rat)) :
    aggregate g how m (qs.map .num) = Option.none ∧ aggregateNum g (qs.map .num) = g.at qs := by
  have h1 : indexesOf (qs.map .num) = [] := by
    induction qs with
    | nil => rfl
    | cons q qs ih => simp [indexesOf] at ih ⊢
  refine ⟨by simp [aggregate, h1, joinIndex], ?_⟩
  simp [aggregateNum, List.map_map, Function.comp_def]

/-- count = number of operands holding a non-NaN value there -/
theorem count_spec (vs : List (Option Rat)) : Agg.at .count vs = some (((vs.filterMap id).length : Nat) : Rat) := by
  simp only [Agg.at, countAt]
  congr 2
  induction vs with
  | nil => rfl
  | cons v vs ih => cases v <;> simp [List.filter, ih]

/-- sum skips NaN operands and is NaN exactly where no operand has data -/
theorem sum_skipna (vs : List (Option Rat)) :
    Agg.at .sum vs = if vs.filterMap id = [] then Option.none else some ((vs.filterMap id).foldl (· + ·) 0) := by
  have hc : countAt vs = (vs.filterMap id).length := by
    unfold countAt
    induction vs with
    | nil => rfl
    | cons v vs ih => cases v <;> simp [List.filter, ih]
  simp only [Agg.at, hc, sumAt, foldl_add_getD]
  cases h : vs.filterMap id <;> simp

/-- mean = that sum divided by that count; NaN where no operand has data -/
theorem mean_spec (vs : List (Option Rat)) :
    Agg.at .mean vs = if vs.filterMap id = [] then Option.none
      else some ((vs.filterMap id).foldl (· + ·) 0 / (((vs.filterMap id).length : Nat) : Rat)) := by
  have hc : countAt vs = (vs.filterMap id).length := by
    unfold countAt
    induction vs with
    | nil => rfl
    | cons v vs ih => cases v <;> simp [List.filter, ih]
  simp only [Agg.at, hc, sumAt, foldl_add_getD]
  cases h : vs.filterMap id <;> simp

/-! ## DataFrames with several columns (`PygModel/OpsF.lean`)
`cellD d f m c t` is the cell `(t, c)` of `f` as the operator sees it: the value that `_df_reindex(f, index, m)` puts at
label `t` of column `c` (`m = none`: the plain lookup), and `d` if `f` has no column `c`.
`frameCols ch a b` is the header of the result. -/

/-- **value, index and columns at once**: for two frames with several columns each, `a op b` is the frame on the joint
index whose cell `(t, c)` is `a[t, c] op b[t, c]`, where a column that one side lacks counts as the operation's neutral
element (which only happens under the column policy `'oj'`, see `binopF_columns`); without any result column the code
returns the empty `pd.Series({})` -/
theorem binopF_value (op : Op) (how : How) (m : Option Dir) (ch : ColHow) (a b : RFrame)
    (ha : a.cols.length > 1) (hb : b.cols.length > 1) :
    ∃ ix, joinIndex how [a.idx, b.idx] = some ix ∧
      binopF op how m ch (.df a) (.df b) =
        if frameCols ch a b = [] then .ts { idx := [], vals := [] }
        else .df { idx := ix, cols := (frameCols ch a b).map fun c =>
                     (c, ix.map fun t => op.appO (cellD (some op.neutral) a m c t) (cellD (some op.neutral) b m c t)) } := by
  obtain ⟨ix, hix⟩ := joinIndex_two how a.idx b.idx
  refine ⟨ix, hix, ?_⟩
  have h1 : indexesOfF [FOperand.df a, FOperand.df b] = [a.idx, b.idx] := rfl
  have h2 : multiNames [FOperand.df (reindexF a ix m), FOperand.df (reindexF b ix m)] = [a.names, b.names] := by
    rw [multiNames_frames _ _ (by rw [reindexF_ncols]; exact ha) (by rw [reindexF_ncols]; exact hb), reindexF_names, reindexF_names]
  simp only [binopF, h1, hix, alignF, kernelF, kernelFG, h2, resultCols_two]
  cases hc : frameCols ch a b with
  | nil => simp
  | cons c cs =>
    simp only [List.cons_ne_nil, if_false]
    congr 2
    apply List.map_congr_left
    intro c' _
    rw [col_value op _ c' a b ix m ha hb]

/-- **columns**: the result header is `frameCols`, whose members are the common columns under `'ij'` … -/
theorem binopF_columns_ij (a b : RFrame) (c : String) : c ∈ frameCols .ij a b ↔ c ∈ a.names ∧ c ∈ b.names := by
  unfold frameCols
  split
  · rename_i h; rw [h]; simp
  · simp [colsJoin, mem_sortS, mem_interS]

/-- … and the union of the columns under `'oj'` -/
theorem binopF_columns_oj (a b : RFrame) (c : String) : c ∈ frameCols .oj a b ↔ c ∈ a.names ∨ c ∈ b.names := by
  unfold frameCols
  split
  · rename_i h; rw [h]; simp
  · simp [colsJoin, mem_sortS, mem_unionS]

/-- the result header has no duplicates; it is sorted unless both frames have the same header (then it is that header) -/
theorem binopF_columns_nodup (ch : ColHow) (a b : RFrame) (ha : a.names.Nodup) : (frameCols ch a b).Nodup := by
  unfold frameCols
  split
  · exact ha
  · exact sortedS_nodup _ (sorted_sortS _)

theorem binopF_columns_sorted (ch : ColHow) (a b : RFrame) (h : b.names ≠ a.names) : SortedS (frameCols ch a b) := by
  simp only [frameCols, h, if_false]
  exact sorted_sortS _

/-- the header of the result frame (a frame whenever there is a result column at all) -/
theorem binopF_columns (op : Op) (how : How) (m : Option Dir) (ch : ColHow) (a b : RFrame)
    (ha : a.cols.length > 1) (hb : b.cols.length > 1) :
    (frameCols ch a b = [] ∧ binopF op how m ch (.df a) (.df b) = .ts { idx := [], vals := [] }) ∨
    (frameCols ch a b ≠ [] ∧ ∃ r, binopF op how m ch (.df a) (.df b) = .df r ∧ r.names = frameCols ch a b) := by
  obtain ⟨ix, _, h⟩ := binopF_value op how m ch a b ha hb
  by_cases hc : frameCols ch a b = []
  · exact .inl ⟨hc, by rw [h, if_pos hc]⟩
  · refine .inr ⟨hc, _, by rw [h, if_neg hc], ?_⟩
    simp [RFrame.names, List.map_map, Function.comp_def]

/-- **index**: the result frame lives on the joint index of the two frames (`binop_index_inner / _outer`: the sorted
intersection / union) -/
theorem binopF_index (op : Op) (how : How) (m : Option Dir) (ch : ColHow) (a b r : RFrame)
    (ha : a.cols.length > 1) (hb : b.cols.length > 1) (h : binopF op how m ch (.df a) (.df b) = .df r) :
    joinIndex how [a.idx, b.idx] = some r.idx ∧ ∀ c ∈ r.cols, c.2.length = r.idx.length := by
  obtain ⟨ix, hix, h'⟩ := binopF_value op how m ch a b ha hb
  rw [h'] at h
  split at h
  · cases h
  · cases h
    refine ⟨hix, ?_⟩
    intro c hc
    simp only [List.mem_map] at hc
    obtain ⟨_, _, rfl⟩ := hc
    simp

/-- **cell by cell**: reading the result by label, `result[t, c] = a[t, c] op b[t, c]` for every result column `c` and
every label `t` of the joint index -/
theorem binopF_cell (op : Op) (how : How) (m : Option Dir) (ch : ColHow) (a b r : RFrame)
    (ha : a.cols.length > 1) (hb : b.cols.length > 1) (h : binopF op how m ch (.df a) (.df b) = .df r)
    (c : String) (t : Int) (hc : c ∈ r.names) (ht : t ∈ r.idx) :
    cellD Option.none r Option.none c t = op.appO (cellD (some op.neutral) a m c t) (cellD (some op.neutral) b m c t) := by
  obtain ⟨ix, hix, h'⟩ := binopF_value op how m ch a b ha hb
  rw [h'] at h
  split at h
  · cases h
  · cases h
    have hc' : c ∈ frameCols ch a b := by simpa [RFrame.names, List.map_map, Function.comp_def] using hc
    exact cell_of_built Option.none ix (frameCols ch a b)
      (fun c t => op.appO (cellD (some op.neutral) a m c t) (cellD (some op.neutral) b m c t)) c t hc' ht

/-! ### the neutral element of a missing column (column policy `'oj'`) -/

/-- a column that only the LEFT frame has: the right side acts as the neutral element (0 for add/sub, 1 for mul/div),
so the result column is the left frame's column on the joint index, for all four operators -/
theorem oj_neutral (op : Op) (how : How) (m : Option Dir) (a b r : RFrame)
    (ha : a.cols.length > 1) (hb : b.cols.length > 1) (h : binopF op how m .oj (.df a) (.df b) = .df r)
    (c : String) (hca : c ∈ a.names) (hcb : c ∉ b.names) (t : Int) (ht : t ∈ r.idx) :
    c ∈ r.names ∧ cellD Option.none r Option.none c t = cellD Option.none a m c t := by
  have hc : c ∈ r.names := by
    rcases binopF_columns op how m .oj a b ha hb with ⟨_, h1⟩ | ⟨_, r', h1, h2⟩
    · rw [h1] at h; cases h
    · rw [h1] at h; cases h; rw [h2, binopF_columns_oj]; exact .inl hca
  refine ⟨hc, ?_⟩
  rw [binopF_cell op how m .oj a b r ha hb h c t hc ht, cellD_not_mem _ b m c t hcb, appO_neutral_right]
  exact cellD_mem _ _ a m c t hca

/-- a column that only the RIGHT frame has: the result is `neutral op b[t, c]` — `b[t, c]` itself for `add_ / mul_`,
`0 - b[t, c]` for `sub_`, `1 / b[t, c]` for `div_` (NaN where `b[t, c] = 0`) -/
theorem oj_neutral_left (op : Op) (how : How) (m : Option Dir) (a b r : RFrame)
    (ha : a.cols.length > 1) (hb : b.cols.length > 1) (h : binopF op how m .oj (.df a) (.df b) = .df r)
    (c : String) (hca : c ∉ a.names) (hcb : c ∈ b.names) (t : Int) (ht : t ∈ r.idx) :
    c ∈ r.names ∧ cellD Option.none r Option.none c t = op.appO (some op.neutral) (cellD Option.none b m c t) := by
  have hc : c ∈ r.names := by
    rcases binopF_columns op how m .oj a b ha hb with ⟨_, h1⟩ | ⟨_, r', h1, h2⟩
    · rw [h1] at h; cases h
    · rw [h1] at h; cases h; rw [h2, binopF_columns_oj]; exact .inr hcb
  refine ⟨hc, ?_⟩
  rw [binopF_cell op how m .oj a b r ha hb h c t hc ht, cellD_not_mem _ a m c t hca, cellD_mem _ Option.none b m c t hcb]

theorem oj_neutral_left_add (how : How) (m : Option Dir) (a b r : RFrame)
    (ha : a.cols.length > 1) (hb : b.cols.length > 1) (h : binopF .add how m .oj (.df a) (.df b) = .df r)
    (c : String) (hca : c ∉ a.names) (hcb : c ∈ b.names) (t : Int) (ht : t ∈ r.idx) :
    cellD Option.none r Option.none c t = cellD Option.none b m c t := by
  rw [(oj_neutral_left .add how m a b r ha hb h c hca hcb t ht).2, appO_neutral_left_add]

theorem oj_neutral_left_mul (how : How) (m : Option Dir) (a b r : RFrame)
    (ha : a.cols.length > 1) (hb : b.cols.length > 1) (h : binopF .mul how m .oj (.df a) (.df b) = .df r)
    (c : String) (hca : c ∉ a.names) (hcb : c ∈ b.names) (t : Int) (ht : t ∈ r.idx) :
    cellD Option.none r Option.none c t = cellD Option.none b m c t := by
  rw [(oj_neutral_left .mul how m a b r ha hb h c hca hcb t ht).2, appO_neutral_left_mul]

/-- under `'ij'` no neutral element is ever used: every result column is a column of both frames -/
theorem ij_no_neutral (a b : RFrame) (c : String) (hc : c ∈ frameCols .ij a b) (d d' : Option Rat) (m : Option Dir) (t : Int) :
    cellD d a m c t = cellD d' a m c t ∧ cellD d b m c t = cellD d' b m c t := by
  rw [binopF_columns_ij] at hc
  exact ⟨cellD_mem _ _ a m c t hc.1, cellD_mem _ _ b m c t hc.2⟩

/-! ### a frame with a Series or a scalar: the Series / scalar is broadcast to every column -/

theorem binopF_frame_series (op : Op) (how : How) (m : Option Dir) (ch : ColHow) (a : RFrame) (s : RSeries) (ha : a.cols.length > 1) :
    ∃ ix, joinIndex how [a.idx, s.idx] = some ix ∧
      binopF op how m ch (.df a) (.ts s) =
        .df { idx := ix, cols := a.names.map fun c => (c, ix.map fun t => op.appO (cellD (some op.neutral) a m c t) (lookR s m t)) } := by
  obtain ⟨ix, hix⟩ := joinIndex_two how a.idx s.idx
  refine ⟨ix, hix, ?_⟩
  have h1 : indexesOfF [FOperand.df a, FOperand.ts s] = [a.idx, s.idx] := rfl
  have h2 : multiNames [FOperand.df (reindexF a ix m), FOperand.ts (reindexR s ix m)] = [a.names] := by
    simp [multiNames, reindexF_ncols, ha, reindexF_names]
  simp only [binopF, h1, hix, alignF, kernelF, kernelFG, h2, resultCols_one]
  cases hc : a.names with
  | nil => exact absurd hc (names_ne_nil a ha)
  | cons c cs =>
    simp only
    congr 2
    apply List.map_congr_left
    intro c' _
    rw [col_value_ts op _ c' a s ix m ha]

theorem binopF_series_frame (op : Op) (how : How) (m : Option Dir) (ch : ColHow) (a : RFrame) (s : RSeries) (ha : a.cols.length > 1) :
    ∃ ix, joinIndex how [s.idx, a.idx] = some ix ∧
      binopF op how m ch (.ts s) (.df a) =
        .df { idx := ix, cols := a.names.map fun c => (c, ix.map fun t => op.appO (lookR s m t) (cellD (some op.neutral) a m c t)) } := by
  obtain ⟨ix, hix⟩ := joinIndex_two how s.idx a.idx
  refine ⟨ix, hix, ?_⟩
  have h1 : indexesOfF [FOperand.ts s, FOperand.df a] = [s.idx, a.idx] := rfl
  have h2 : multiNames [FOperand.ts (reindexR s ix m), FOperand.df (reindexF a ix m)] = [a.names] := by
    simp [multiNames, reindexF_ncols, ha, reindexF_names]
  simp only [binopF, h1, hix, alignF, kernelF, kernelFG, h2, resultCols_one]
  cases hc : a.names with
  | nil => exact absurd hc (names_ne_nil a ha)
  | cons c cs =>
    simp only
    congr 2
    apply List.map_congr_left
    intro c' _
    rw [col_value_ts' op _ c' a s ix m ha]

theorem binopF_frame_scalar (op : Op) (how : How) (m : Option Dir) (ch : ColHow) (a : RFrame) (q : Option Rat) (ha : a.cols.length > 1) :
    binopF op how m ch (.df a) (.num q) =
      .df { idx := a.idx, cols := a.names.map fun c => (c, a.idx.map fun t => op.appO (cellD (some op.neutral) a m c t) q) } := by
  have h1 : indexesOfF [FOperand.df a, FOperand.num q] = [a.idx] := rfl
  have hix : joinIndex how [a.idx] = some a.idx := by cases how <;> rfl
  have h2 : multiNames [FOperand.df (reindexF a a.idx m), FOperand.num q] = [a.names] := by
    simp [multiNames, reindexF_ncols, ha, reindexF_names]
  simp only [binopF, h1, hix, alignF, kernelF, kernelFG, h2, resultCols_one]
  cases hc : a.names with
  | nil => exact absurd hc (names_ne_nil a ha)
  | cons c cs =>
    simp only
    congr 2
    apply List.map_congr_left
    intro c' _
    rw [col_value_num op _ c' a q a.idx m ha]

theorem binopF_scalar_frame (op : Op) (how : How) (m : Option Dir) (ch : ColHow) (a : RFrame) (q : Option Rat) (ha : a.cols.length > 1) :
    binopF op how m ch (.num q) (.df a) =
      .df { idx := a.idx, cols := a.names.map fun c => (c, a.idx.map fun t => op.appO q (cellD (some op.neutral) a m c t)) } := by
  have h1 : indexesOfF [FOperand.num q, FOperand.df a] = [a.idx] := rfl
  have hix : joinIndex how [a.idx] = some a.idx := by cases how <;> rfl
  have h2 : multiNames [FOperand.num q, FOperand.df (reindexF a a.idx m)] = [a.names] := by
    simp [multiNames, reindexF_ncols, ha, reindexF_names]
  simp only [binopF, h1, hix, alignF, kernelF, kernelFG, h2, resultCols_one]
  cases hc : a.names with
  | nil => exact absurd hc (names_ne_nil a ha)
  | cons c cs =>
    simp only
    congr 2
    apply List.map_congr_left
    intro c' _
    rw [col_value_num' op _ c' a q a.idx m ha]

/-- a frame with ONE column acts as the Series of that column, whatever its name (`_df_column`: `ts.shape[1] == 1`), here
against a frame with several columns; any index policy, fill method and column policy -/
theorem one_col_left (op : Op) (how : How) (m : Option Dir) (ch : ColHow) (idx : List Int) (n : String) (col : RCol) (b : RFrame)
    (hb : b.cols.length > 1) (h : col.length = idx.length) :
    binopF op how m ch (.df { idx := idx, cols := [(n, col)] }) (.df b) =
      binopF op how m ch (.ts { idx := idx, vals := col }) (.df b) := by
  obtain ⟨ix, hix⟩ := joinIndex_two how idx b.idx
  have h1 : indexesOfF [FOperand.df { idx := idx, cols := [(n, col)] }, FOperand.df b] = [idx, b.idx] := rfl
  have h1' : indexesOfF [FOperand.ts { idx := idx, vals := col }, FOperand.df b] = [idx, b.idx] := rfl
  simp only [binopF, h1, h1', hix, alignF, kernelF, kernelFG]
  have h2 : multiNames [FOperand.df (reindexF { idx := idx, cols := [(n, col)] } ix m), FOperand.df (reindexF b ix m)] = [b.names] := by
    simp [multiNames, reindexF_ncols, hb, reindexF_names]
  have h2' : multiNames [FOperand.ts (reindexR { idx := idx, vals := col } ix m), FOperand.df (reindexF b ix m)] = [b.names] := by
    simp [multiNames, reindexF_ncols, hb, reindexF_names]
  rw [h2, h2', resultCols_one]
  cases hc : b.names with
  | nil => exact absurd hc (names_ne_nil b hb)
  | cons c cs => simp only [colArg_one _ _ _ _ _ _ _ h]; rfl

theorem one_col_right (op : Op) (how : How) (m : Option Dir) (ch : ColHow) (idx : List Int) (n : String) (col : RCol) (a : RFrame)
    (ha : a.cols.length > 1) (h : col.length = idx.length) :
    binopF op how m ch (.df a) (.df { idx := idx, cols := [(n, col)] }) =
      binopF op how m ch (.df a) (.ts { idx := idx, vals := col }) := by
  obtain ⟨ix, hix⟩ := joinIndex_two how a.idx idx
  have h1 : indexesOfF [FOperand.df a, FOperand.df { idx := idx, cols := [(n, col)] }] = [a.idx, idx] := rfl
  have h1' : indexesOfF [FOperand.df a, FOperand.ts { idx := idx, vals := col }] = [a.idx, idx] := rfl
  simp only [binopF, h1, h1', hix, alignF, kernelF, kernelFG]
  have h2 : multiNames [FOperand.df (reindexF a ix m), FOperand.df (reindexF { idx := idx, cols := [(n, col)] } ix m)] = [a.names] := by
    simp [multiNames, reindexF_ncols, ha, reindexF_names]
  have h2' : multiNames [FOperand.df (reindexF a ix m), FOperand.ts (reindexR { idx := idx, vals := col } ix m)] = [a.names] := by
    simp [multiNames, reindexF_ncols, ha, reindexF_names]
  rw [h2, h2', resultCols_one]
  cases hc : a.names with
  | nil => exact absurd hc (names_ne_nil a ha)
  | cons c cs => simp only [colArg_one _ _ _ _ _ _ _ h]; rfl

/-- one-column frames among themselves, with a Series or a scalar: the result is the Series result packed as a one-column
frame (`pd.DataFrame(res)`), named after the operands' common column name, else `0` -/
theorem one_col_series (op : Op) (how : How) (m : Option Dir) (ch : ColHow) (idx : List Int) (n : String) (col : RCol) (s : RSeries)
    (h : col.length = idx.length) :
    binopF op how m ch (.df { idx := idx, cols := [(n, col)] }) (.ts s) =
      wrap1 "0" (binop op how m (.ts { idx := idx, vals := col }) (.ts s)) := by
  obtain ⟨ix, hix, hb⟩ := binop_index op how m { idx := idx, vals := col } s
  rw [hb]
  have h1 : indexesOfF [FOperand.df { idx := idx, cols := [(n, col)] }, FOperand.ts s] = [idx, s.idx] := rfl
  have h2 : multiNames [FOperand.df (reindexF { idx := idx, cols := [(n, col)] } ix m), FOperand.ts (reindexR s ix m)] = [] := by
    simp [multiNames, reindexF]
  simp only [binopF, h1, hix, alignF, kernelF, kernelFG, h2, resultCols, colArg_one _ _ _ _ _ _ _ h]
  simp [colArg, kernel, isDf, resultName, nameOf, reindexF, wrap1, reindexR_idx]

theorem one_col_scalar (op : Op) (how : How) (m : Option Dir) (ch : ColHow) (idx : List Int) (n : String) (col : RCol) (q : Option Rat)
    (h : col.length = idx.length) :
    binopF op how m ch (.df { idx := idx, cols := [(n, col)] }) (.num q) =
      wrap1 n (binop op how m (.ts { idx := idx, vals := col }) (.num q)) := by
  have h1 : indexesOfF [FOperand.df { idx := idx, cols := [(n, col)] }, FOperand.num q] = [idx] := rfl
  have hix : joinIndex how [idx] = some idx := by cases how <;> rfl
  have h2 : multiNames [FOperand.df (reindexF { idx := idx, cols := [(n, col)] } idx m), FOperand.num q] = [] := by
    simp [multiNames, reindexF]
  simp only [binopF, h1, hix, alignF, kernelF, kernelFG, h2, resultCols, colArg_one _ _ _ _ _ _ _ h]
  simp [colArg, kernel, isDf, resultName, nameOf, reindexF, wrap1, reindexR_idx, binop, alignAll, indexesOf, hix]

theorem one_col_one_col (op : Op) (how : How) (m : Option Dir) (ch : ColHow) (idx idx' : List Int) (n n' : String) (col col' : RCol)
    (h : col.length = idx.length) (h' : col'.length = idx'.length) :
    binopF op how m ch (.df { idx := idx, cols := [(n, col)] }) (.df { idx := idx', cols := [(n', col')] }) =
      wrap1 (if n = n' then n else "0") (binop op how m (.ts { idx := idx, vals := col }) (.ts { idx := idx', vals := col' })) := by
  obtain ⟨ix, hix, hb⟩ := binop_index op how m { idx := idx, vals := col } { idx := idx', vals := col' }
  rw [hb]
  have h1 : indexesOfF [FOperand.df { idx := idx, cols := [(n, col)] }, FOperand.df { idx := idx', cols := [(n', col')] }] = [idx, idx'] := rfl
  have h2 : multiNames [FOperand.df (reindexF { idx := idx, cols := [(n, col)] } ix m), FOperand.df (reindexF { idx := idx', cols := [(n', col')] } ix m)] = [] := by
    simp [multiNames, reindexF]
  simp only [binopF, h1, hix, alignF, kernelF, kernelFG, h2, resultCols, colArg_one _ _ _ _ _ _ _ h, colArg_one _ _ _ _ _ _ _ h']
  simp [kernel, isDf, resultName, nameOf, reindexF, wrap1, reindexR_idx]
  split <;> simp_all

/-- dividing a frame by the scalar 0 gives a NaN frame of the same shape (never ±inf; F10 for frames) -/
theorem div_by_zero_scalar_frame (how : How) (m : Option Dir) (ch : ColHow) (a : RFrame) (ha : a.cols.length > 1) :
    binopF .div how m ch (.df a) (.num (some 0)) =
      .df { idx := a.idx, cols := a.names.map fun c => (c, a.idx.map fun _ => Option.none) } := by
  rw [binopF_frame_scalar .div how m ch a (some 0) ha]
  congr 2
  apply List.map_congr_left
  intro c _
  congr 1
  apply List.map_congr_left
  intro t _
  cases cellD (some (Op.neutral .div)) a m c t <;> simp [Op.appO, Op.app]

/-- on Series and scalars the frame-aware operator is the operator of `PygModel/Ops.lean` (all theorems above apply) -/
theorem binopF_refines (op : Op) (how : How) (m : Option Dir) (ch : ColHow) (a b : Operand) :
    binopF op how m ch (.ofOperand a) (.ofOperand b) = .ofOperand (binop op how m a b) := by
  cases a <;> cases b <;> cases how <;>
    simp [binopF, binop, FOperand.ofOperand, indexesOfF, indexesOf, joinIndex, alignAll, alignF, kernelF, kernelFG, multiNames, resultCols,
      colArg, isDf, kernel]

/-! ### commutativity on frames -/

theorem binopF_comm_aux (op : Op) (hop : ∀ x y, op.appO x y = op.appO y x) (how : How) (hh : how = .inner ∨ how = .outer)
    (m : Option Dir) (ch : ColHow) (hch : ch = .ij ∨ ch = .oj) (a b : RFrame)
    (ha : a.cols.length > 1) (hb : b.cols.length > 1) (sa : SortedL a.idx) (sb : SortedL b.idx) :
    binopF op how m ch (.df a) (.df b) = binopF op how m ch (.df b) (.df a) := by
  obtain ⟨ix, h1, h2⟩ := binopF_value op how m ch a b ha hb
  obtain ⟨ix', h1', h2'⟩ := binopF_value op how m ch b a hb ha
  have hj : joinIndex how [a.idx, b.idx] = joinIndex how [b.idx, a.idx] := by
    rcases hh with rfl | rfl
    · exact joinIndex_comm_inner _ _ sa sb
    · exact joinIndex_comm_outer _ _ sa sb
  rw [hj, h1'] at h1
  cases h1
  rw [h2, h2', frameCols_comm ch hch b a]
  split
  · rfl
  · congr 2
    apply List.map_congr_left
    intro c _
    congr 1
    apply List.map_congr_left
    intro t _
    exact hop _ _

/-- `add_` and `mul_` are commutative on frames (sorted indices; index policies inner / outer; both column policies
`'ij'` / `'oj'` of the quantifier - `'lj'` / `'rj'` take the header of the first / last frame and cannot commute, see
`comm_fails_lj`; any fill method): same header, same index, same cells -/
theorem add_comm_frames (how : How) (hh : how = .inner ∨ how = .outer) (m : Option Dir) (ch : ColHow) (hch : ch = .ij ∨ ch = .oj) (a b : RFrame)
    (ha : a.cols.length > 1) (hb : b.cols.length > 1) (sa : SortedL a.idx) (sb : SortedL b.idx) :
    binopF .add how m ch (.df a) (.df b) = binopF .add how m ch (.df b) (.df a) :=
  binopF_comm_aux .add appO_comm_add how hh m ch hch a b ha hb sa sb

theorem mul_comm_frames (how : How) (hh : how = .inner ∨ how = .outer) (m : Option Dir) (ch : ColHow) (hch : ch = .ij ∨ ch = .oj) (a b : RFrame)
    (ha : a.cols.length > 1) (hb : b.cols.length > 1) (sa : SortedL a.idx) (sb : SortedL b.idx) :
    binopF .mul how m ch (.df a) (.df b) = binopF .mul how m ch (.df b) (.df a) :=
  binopF_comm_aux .mul appO_comm_mul how hh m ch hch a b ha hb sa sb

/-- ... and between a frame and a Series (the Series is broadcast to every column on either side) -/
theorem add_comm_frame_series (how : How) (hh : how = .inner ∨ how = .outer) (m : Option Dir) (ch : ColHow) (a : RFrame) (s : RSeries)
    (ha : a.cols.length > 1) (sa : SortedL a.idx) (ss : SortedL s.idx) :
    binopF .add how m ch (.df a) (.ts s) = binopF .add how m ch (.ts s) (.df a) := by
  obtain ⟨ix, h1, e1⟩ := binopF_frame_series .add how m ch a s ha
  obtain ⟨ix', h2, e2⟩ := binopF_series_frame .add how m ch a s ha
  have : ix = ix' := by
    rcases hh with rfl | rfl
    · rw [joinIndex_comm_inner _ _ sa ss] at h1; rw [h1] at h2; exact Option.some.inj h2
    · rw [joinIndex_comm_outer _ _ sa ss] at h1; rw [h1] at h2; exact Option.some.inj h2
  subst this
  rw [e1, e2]
  congr 2
  apply List.map_congr_left
  intro c _
  congr 2; funext t; exact appO_comm_add _ _

theorem mul_comm_frame_series (how : How) (hh : how = .inner ∨ how = .outer) (m : Option Dir) (ch : ColHow) (a : RFrame) (s : RSeries)
    (ha : a.cols.length > 1) (sa : SortedL a.idx) (ss : SortedL s.idx) :
    binopF .mul how m ch (.df a) (.ts s) = binopF .mul how m ch (.ts s) (.df a) := by
  obtain ⟨ix, h1, e1⟩ := binopF_frame_series .mul how m ch a s ha
  obtain ⟨ix', h2, e2⟩ := binopF_series_frame .mul how m ch a s ha
  have : ix = ix' := by
    rcases hh with rfl | rfl
    · rw [joinIndex_comm_inner _ _ sa ss] at h1; rw [h1] at h2; exact Option.some.inj h2
    · rw [joinIndex_comm_outer _ _ sa ss] at h1; rw [h1] at h2; exact Option.some.inj h2
  subst this
  rw [e1, e2]
  congr 2
  apply List.map_congr_left
  intro c _
  congr 2; funext t; exact appO_comm_mul _ _

theorem add_comm_frame_scalar (how : How) (m : Option Dir) (ch : ColHow) (a : RFrame) (q : Option Rat) (ha : a.cols.length > 1) :
    binopF .add how m ch (.df a) (.num q) = binopF .add how m ch (.num q) (.df a) := by
  rw [binopF_frame_scalar _ _ _ _ _ _ ha, binopF_scalar_frame _ _ _ _ _ _ ha]
  congr 2
  apply List.map_congr_left
  intro c _
  congr 2; funext t; exact appO_comm_add _ _

theorem mul_comm_frame_scalar (how : How) (m : Option Dir) (ch : ColHow) (a : RFrame) (q : Option Rat) (ha : a.cols.length > 1) :
    binopF .mul how m ch (.df a) (.num q) = binopF .mul how m ch (.num q) (.df a) := by
  rw [binopF_frame_scalar _ _ _ _ _ _ ha, binopF_scalar_frame _ _ _ _ _ _ ha]
  congr 2
  apply List.map_congr_left
  intro c _
  congr 2; funext t; exact appO_comm_mul _ _

/-! ### commutativity with ONE-column frames (review s4: `one_col_*` and the commutativity theorems were never composed) -/

theorem one_col_name_comm (n n' : String) : (if n = n' then n else "0") = (if n' = n then n' else "0") := by
  by_cases e : n = n'
  · subst e; simp
  · have e' : ¬ n' = n := fun h => e h.symm
    simp [e, e']

/-- two one-column frames (any names): `add_` commutes, result name included (the common name, else `0`) -/
theorem add_comm_one_col (how : How) (hh : how = .inner ∨ how = .outer) (m : Option Dir) (ch : ColHow) (idx idx' : List Int)
    (n n' : String) (col col' : RCol) (h : col.length = idx.length) (h' : col'.length = idx'.length)
    (sa : SortedL idx) (sb : SortedL idx') :
    binopF .add how m ch (.df { idx := idx, cols := [(n, col)] }) (.df { idx := idx', cols := [(n', col')] }) =
      binopF .add how m ch (.df { idx := idx', cols := [(n', col')] }) (.df { idx := idx, cols := [(n, col)] }) := by
  rw [one_col_one_col .add how m ch idx idx' n n' col col' h h', one_col_one_col .add how m ch idx' idx n' n col' col h' h,
    one_col_name_comm n n']
  rcases hh with rfl | rfl
  · rw [add_comm_inner m { idx := idx, vals := col } { idx := idx', vals := col' } sa sb]
  · rw [add_comm_outer m { idx := idx, vals := col } { idx := idx', vals := col' } sa sb]

theorem mul_comm_one_col (how : How) (hh : how = .inner ∨ how = .outer) (m : Option Dir) (ch : ColHow) (idx idx' : List Int)
    (n n' : String) (col col' : RCol) (h : col.length = idx.length) (h' : col'.length = idx'.length)
    (sa : SortedL idx) (sb : SortedL idx') :
    binopF .mul how m ch (.df { idx := idx, cols := [(n, col)] }) (.df { idx := idx', cols := [(n', col')] }) =
      binopF .mul how m ch (.df { idx := idx', cols := [(n', col')] }) (.df { idx := idx, cols := [(n, col)] }) := by
  rw [one_col_one_col .mul how m ch idx idx' n n' col col' h h', one_col_one_col .mul how m ch idx' idx n' n col' col h' h,
    one_col_name_comm n n']
  rcases hh with rfl | rfl
  · rw [mul_comm_inner m { idx := idx, vals := col } { idx := idx', vals := col' } sa sb]
  · rw [mul_comm_outer m { idx := idx, vals := col } { idx := idx', vals := col' } sa sb]

/-- a one-column frame against a frame with several columns: `add_` / `mul_` commute (the one-column frame is the Series of
its column on either side, `one_col_left` / `one_col_right`) -/
theorem add_comm_one_col_frame (how : How) (hh : how = .inner ∨ how = .outer) (m : Option Dir) (ch : ColHow) (idx : List Int)
    (n : String) (col : RCol) (b : RFrame) (hb : b.cols.length > 1) (h : col.length = idx.length)
    (sa : SortedL idx) (sb : SortedL b.idx) :
    binopF .add how m ch (.df { idx := idx, cols := [(n, col)] }) (.df b) =
      binopF .add how m ch (.df b) (.df { idx := idx, cols := [(n, col)] }) := by
  rw [one_col_left .add how m ch idx n col b hb h, one_col_right .add how m ch idx n col b hb h,
    add_comm_frame_series how hh m ch b { idx := idx, vals := col } hb sb sa]

theorem mul_comm_one_col_frame (how : How) (hh : how = .inner ∨ how = .outer) (m : Option Dir) (ch : ColHow) (idx : List Int)
    (n : String) (col : RCol) (b : RFrame) (hb : b.cols.length > 1) (h : col.length = idx.length)
    (sa : SortedL idx) (sb : SortedL b.idx) :
    binopF .mul how m ch (.df { idx := idx, cols := [(n, col)] }) (.df b) =
      binopF .mul how m ch (.df b) (.df { idx := idx, cols := [(n, col)] }) := by
  rw [one_col_left .mul how m ch idx n col b hb h, one_col_right .mul how m ch idx n col b hb h,
    mul_comm_frame_series how hh m ch b { idx := idx, vals := col } hb sb sa]

/-! ### lists of frames reduce left to right -/

theorem reduce_left_frames (op : Op) (hop : op = .add ∨ op = .mul) (how : How) (m : Option Dir) (ch : ColHow)
    (x : FOperand) (xs ys : List FOperand) :
    opListF op how m ch (x :: xs) ys = some ((xs ++ ys).foldl (binopF op how m ch) x) := by
  rcases hop with rfl | rfl <;> rfl

theorem reduce_sub_frames (how : How) (m : Option Dir) (ch : ColHow) (x y : FOperand) (xs ys : List FOperand) :
    opListF .sub how m ch (x :: xs) (y :: ys) =
      some (binopF .sub how m ch (xs.foldl (binopF .add how m ch) x) (ys.foldl (binopF .add how m ch) y)) := rfl

theorem reduce_div_frames (how : How) (m : Option Dir) (ch : ColHow) (x y : FOperand) (xs ys : List FOperand) :
    opListF .div how m ch (x :: xs) (y :: ys) =
      some (binopF .div how m ch (xs.foldl (binopF .mul how m ch) x) (ys.foldl (binopF .mul how m ch) y)) := rfl

/-! ### `df_sum / df_mean / df_count` on frames (several columns each) -/

/-- **value and index**: the aggregate of a list of frames lives on the joint index (the union under the default `'oj'`)
with the joint header `aggCols`, and its cell `(t, c)` is the NaN-skipping aggregate `Agg.at` of the operands' cells
`(t, c)`, a frame without column `c` or without a value at `t` contributing NaN.  `count_spec`, `sum_skipna` and
`mean_spec` above say what `Agg.at` is: count of the non-NaN cells, their sum / mean, NaN where no operand has data. -/
theorem aggF_value (g : Agg) (how : How) (m : Option Dir) (ch : ColHow) (f : RFrame) (fs : List RFrame) :
    ∃ ix, joinIndex how ((f :: fs).map (·.idx)) = some ix ∧
      aggregateF g how m ch (f :: fs) =
        some { idx := ix, cols := (aggCols ch f fs).map fun c =>
                 (c, ix.map fun t => g.at ((f :: fs).map fun x => cellD Option.none x m c t)) } := by
  have hix : ∃ ix, joinIndex how ((f :: fs).map (·.idx)) = some ix := by cases how <;> exact ⟨_, rfl⟩
  obtain ⟨ix, hix⟩ := hix
  refine ⟨ix, hix, ?_⟩
  have hix' : joinIndex how (f.idx :: fs.map (·.idx)) = some ix := hix
  simp only [aggregateF, hix', List.map_cons]
  congr 2
  apply List.map_congr_left
  intro c hc
  congr 1
  apply List.ext_getElem
  · simp
  · intro k h1 h2
    simp only [List.getElem_map, List.getElem_range]
    congr 1
    have hk : k < ix.length := by simpa using h1
    have hc' : c ∈ colsJoin ch f.names (fs.map (·.names)) := hc
    simp only [List.map_map, Function.comp_def, col_recol _ _ ix m c hc', Option.bind_some, List.getElem?_map,
      List.getElem?_eq_getElem hk, Option.map_some, Option.join_some]

/-- what an operand of a frame aggregate shows in cell `(t, c)`: a frame its (reindexed) cell, NaN without the column;
a scalar itself in every cell -/
def cellX (m : Option Dir) (c : String) (t : Int) : FOperand → Option Rat
  | .df f => cellD Option.none f m c t
  | .num q => q
  | .ts _ => Option.none

/-- on frames alone the aggregate with scalars is the aggregate of frames -/
theorem aggFS_refines (g : Agg) (how : How) (m : Option Dir) (ch : ColHow) (fs : List RFrame) :
    aggregateFS g how m ch (fs.map .df) = aggregateF g how m ch fs := by
  have h : framesOfX (fs.map FOperand.df) = fs := by
    induction fs with
    | nil => rfl
    | cons f fs ih => simp only [framesOfX, List.map_cons, List.filterMap_cons] at ih ⊢; rw [ih]
  simp only [aggregateFS, aggregateF, h, List.map_map, Function.comp_def]

/-- **value with scalars**: frames (several columns each) and scalars in any order - the result lives on the joint index
and the joint header of the FRAMES, and its cell `(t, c)` is `Agg.at` of what every operand shows there (`cellX`) -/
theorem aggFS_value (g : Agg) (how : How) (m : Option Dir) (ch : ColHow) (xs : List FOperand) (f : RFrame) (fs : List RFrame)
    (hf : framesOfX xs = f :: fs) :
    ∃ ix, joinIndex how ((f :: fs).map (·.idx)) = some ix ∧
      aggregateFS g how m ch xs =
        some { idx := ix, cols := (aggCols ch f fs).map fun c => (c, ix.map fun t => g.at (xs.map (cellX m c t))) } := by
  have hix : ∃ ix, joinIndex how ((f :: fs).map (·.idx)) = some ix := by cases how <;> exact ⟨_, rfl⟩
  obtain ⟨ix, hix⟩ := hix
  refine ⟨ix, hix, ?_⟩
  have hix' : joinIndex how (f.idx :: fs.map (·.idx)) = some ix := hix
  simp only [aggregateFS, hf, hix', List.map_cons]
  congr 2
  apply List.map_congr_left
  intro c hc
  congr 1
  apply List.ext_getElem
  · simp
  · intro k h1 h2
    simp only [List.getElem_map, List.getElem_range, List.map_map]
    congr 1
    have hk : k < ix.length := by simpa using h1
    have hc' : c ∈ colsJoin ch f.names (fs.map (·.names)) := hc
    apply List.map_congr_left
    intro x _
    cases x with
    | num q => rfl
    | ts s => rfl
    | df x =>
      simp only [Function.comp_def, cellX, col_recol _ _ ix m c hc', Option.bind_some, List.getElem?_map,
        List.getElem?_eq_getElem hk, Option.map_some, Option.join_some]

/-- the joint header: the union of the headers under `'oj'` (the default), the common columns under `'ij'`; sorted -/
theorem aggF_columns_oj (f : RFrame) (fs : List RFrame) (c : String) :
    c ∈ aggCols .oj f fs ↔ ∃ x ∈ f :: fs, c ∈ x.names := by
  simp only [aggCols, colsJoin, mem_sortS, mem_foldl_unionS, List.mem_map, List.mem_cons, exists_eq_or_imp]
  constructor
  · rintro (h | ⟨_, ⟨x, hx, rfl⟩, h⟩)
    · exact .inl h
    · exact .inr ⟨x, hx, h⟩
  · rintro (h | ⟨x, hx, h⟩)
    · exact .inl h
    · exact .inr ⟨_, ⟨x, hx, rfl⟩, h⟩

theorem aggF_columns_ij (f : RFrame) (fs : List RFrame) (c : String) :
    c ∈ aggCols .ij f fs ↔ ∀ x ∈ f :: fs, c ∈ x.names := by
  simp only [aggCols, colsJoin, mem_sortS, mem_foldl_interS, List.mem_map, List.mem_cons, forall_eq_or_imp]
  constructor
  · rintro ⟨h1, h2⟩
    exact ⟨h1, fun x hx => h2 _ ⟨x, hx, rfl⟩⟩
  · rintro ⟨h1, h2⟩
    refine ⟨h1, ?_⟩
    rintro _ ⟨x, hx, rfl⟩
    exact h2 x hx

theorem aggF_columns_sorted (ch : ColHow) (f : RFrame) (fs : List RFrame) : SortedS (aggCols ch f fs) := sorted_sortS _

/-- reading the aggregate by label: cell `(t, c)` = `Agg.at` of the operands' cells -/
theorem aggF_cell (g : Agg) (how : How) (m : Option Dir) (ch : ColHow) (f : RFrame) (fs : List RFrame) (r : RFrame)
    (h : aggregateF g how m ch (f :: fs) = some r) (c : String) (t : Int) (hc : c ∈ r.names) (ht : t ∈ r.idx) :
    cellD Option.none r Option.none c t = g.at ((f :: fs).map fun x => cellD Option.none x m c t) := by
  obtain ⟨ix, _, h'⟩ := aggF_value g how m ch f fs
  rw [h'] at h
  cases h
  have hc' : c ∈ aggCols ch f fs := by simpa [RFrame.names, List.map_map, Function.comp_def] using hc
  exact cell_of_built Option.none ix (aggCols ch f fs) (fun c t => g.at ((f :: fs).map fun x => cellD Option.none x m c t)) c t hc' ht

/-- `df_sum` is NaN and `df_count` is 0 exactly where no operand has data in that cell -/
theorem aggF_no_data (vs : List (Option Rat)) (h : ∀ v ∈ vs, v = Option.none) :
    Agg.at .sum vs = Option.none ∧ Agg.at .mean vs = Option.none ∧ Agg.at .count vs = some 0 := by
  have h0 : vs.filterMap id = [] := by
    rw [List.filterMap_eq_nil_iff]
    intro v hv; rw [h v hv]; rfl
  refine ⟨by rw [sum_skipna, if_pos h0], by rw [mean_spec, if_pos h0], by rw [count_spec, h0]; rfl⟩

/-! ## the other operators the statement names, on Series and scalars (`PygModel/OpsX.lean`)
`binopG f` is the presync kernel with an arbitrary pointwise function `f`; `min_ / max_` use `MM.appO`, `pow_` uses `powO`. -/

/-- the arithmetic operators are instances of the generic kernel -/
theorem binop_eq_binopG (op : Op) (how : How) (m : Option Dir) (a b : Operand) : binop op how m a b = binopG op.appO how m a b := by
  simp only [binop, binopG, kernel_eq_kernelG]
  rfl

/-- two Series, no fill method: the result lives on the joint index and `result[t] = f a[t] b[t]` -/
theorem binopG_value (f : Option Rat → Option Rat → Option Rat) (how : How) (a b : RSeries) :
    ∃ ix, joinIndex how [a.idx, b.idx] = some ix ∧
      binopG f how Option.none (.ts a) (.ts b) = .ts { idx := ix, vals := ix.map fun t => f (valueAtR a t) (valueAtR b t) } := by
  cases how <;> exact ⟨_, rfl, by simp [binopG, alignAll, indexesOf, joinIndex, kernelG, reindexR, List.zip_map', List.map_map, Function.comp_def]⟩

theorem binopG_scalar_right (f : Option Rat → Option Rat → Option Rat) (how : How) (a : RSeries) (q : Option Rat) :
    binopG f how Option.none (.ts a) (.num q) = .ts { idx := a.idx, vals := a.idx.map fun t => f (valueAtR a t) q } := by
  cases how <;> simp [binopG, alignAll, indexesOf, joinIndex, kernelG, reindexR, List.map_map, Function.comp_def]

theorem binopG_scalar_left (f : Option Rat → Option Rat → Option Rat) (how : How) (b : RSeries) (q : Option Rat) :
    binopG f how Option.none (.num q) (.ts b) = .ts { idx := b.idx, vals := b.idx.map fun t => f q (valueAtR b t) } := by
  cases how <;> simp [binopG, alignAll, indexesOf, joinIndex, kernelG, reindexR, List.map_map, Function.comp_def]

theorem binopG_scalar_scalar (f : Option Rat → Option Rat → Option Rat) (how : How) (m : Option Dir) (p q : Option Rat) :
    binopG f how m (.num p) (.num q) = .num (f p q) := by
  cases how <;> simp [binopG, alignAll, indexesOf, joinIndex, kernelG]

/-- a commutative pointwise function gives a commutative operator (sorted indices, inner / outer) -/
theorem binopG_comm (f : Option Rat → Option Rat → Option Rat) (hf : ∀ x y, f x y = f y x) (how : How)
    (hh : how = .inner ∨ how = .outer) (m : Option Dir) (a b : RSeries) (ha : SortedL a.idx) (hb : SortedL b.idx) :
    binopG f how m (.ts a) (.ts b) = binopG f how m (.ts b) (.ts a) := by
  obtain ⟨ix, h1, h2⟩ := binopG_index f how m a b
  obtain ⟨ix', h1', h2'⟩ := binopG_index f how m b a
  have hj : joinIndex how [a.idx, b.idx] = joinIndex how [b.idx, a.idx] := by
    rcases hh with rfl | rfl
    · exact joinIndex_comm_inner _ _ ha hb
    · exact joinIndex_comm_outer _ _ ha hb
  rw [hj, h1'] at h1
  cases h1
  rw [h2, h2']
  congr 2
  apply List.ext_getElem
  · simp [Nat.min_comm]
  · intro i h3 h4; simp; exact hf _ _

/-! ### `min_ / max_` -/

/-- the pointwise minimum / maximum is one of its arguments and bounds both -/
theorem min_spec (x y : Rat) : (MM.app .min x y = x ∨ MM.app .min x y = y) ∧ MM.app .min x y ≤ x ∧ MM.app .min x y ≤ y := by
  simp only [MM.app]
  split
  · rename_i h; exact ⟨.inl rfl, Rat.le_refl, h⟩
  · rename_i h
    have : y ≤ x := by rcases @Rat.le_total x y with h' | h'; exact absurd h' h; exact h'
    exact ⟨.inr rfl, this, Rat.le_refl⟩

theorem max_spec (x y : Rat) : (MM.app .max x y = x ∨ MM.app .max x y = y) ∧ x ≤ MM.app .max x y ∧ y ≤ MM.app .max x y := by
  simp only [MM.app]
  split
  · rename_i h; exact ⟨.inr rfl, h, Rat.le_refl⟩
  · rename_i h
    have : y ≤ x := by rcases @Rat.le_total x y with h' | h'; exact absurd h' h; exact h'
    exact ⟨.inl rfl, Rat.le_refl, this⟩

/-- NaN on either side gives NaN (`np.minimum / np.maximum` propagate NaN) -/
theorem mm_nan (k : MM) (x : Option Rat) : k.appO Option.none x = Option.none ∧ k.appO x Option.none = Option.none := by
  cases x <;> simp [MM.appO]

/-- `min_(a, b)` / `max_(a, b)` of two Series: pointwise on the joint index -/
theorem mm_value (k : MM) (how : How) (a b : RSeries) :
    ∃ ix, joinIndex how [a.idx, b.idx] = some ix ∧
      mmList k how Option.none [.ts a] [.ts b] =
        some (.ts { idx := ix, vals := ix.map fun t => k.appO (valueAtR a t) (valueAtR b t) }) := by
  cases how <;> exact ⟨_, rfl, by simp [mmList, reducer, alignAll, indexesOf, joinIndex, kernelG, reindexR, List.zip_map', List.map_map, Function.comp_def]⟩

/-- all operands are synchronised at once, then reduced from the left; no operand gives `None` -/
theorem mm_reduce (k : MM) (how : How) (m : Option Dir) (as bs : List Operand) :
    mmList k how m as bs = reducer (kernelG k.appO) (alignAll how m (as ++ bs)) ∧ mmList k how m [] [] = Option.none := by
  refine ⟨rfl, ?_⟩
  cases how <;> rfl

theorem mm_comm (k : MM) (how : How) (hh : how = .inner ∨ how = .outer) (m : Option Dir) (a b : RSeries)
    (ha : SortedL a.idx) (hb : SortedL b.idx) :
    binopG k.appO how m (.ts a) (.ts b) = binopG k.appO how m (.ts b) (.ts a) :=
  binopG_comm k.appO (mm_appO_comm k) how hh m a b ha hb

/-! ### `pow_` for exponents that are NaN or non-negative integers -/

theorem pow_nat (x : Rat) (n : Nat) : powO (some x) (some (n : Rat)) = some (x ^ n) := by
  simp only [powO, natExp_natCast, Option.map_some]
  split
  · rename_i h
    have : n = 0 := by exact_mod_cast h
    subst this; simp [Rat.pow_zero]
  · split
    · rename_i h; subst h; rw [rat_one_pow]
    · rfl

/-- `x ** 0 = 1` and `1 ** y = 1` even when the other side is NaN; otherwise NaN propagates -/
theorem pow_zero_exp (x : Option Rat) : powO x (some 0) = some 1 := by
  cases x <;> simp [powO]

theorem pow_one_base (y : Option Rat) : powO (some 1) y = some 1 := by
  cases y <;> simp [powO]

theorem pow_nan_exp (x : Rat) (h : x ≠ 1) : powO (some x) Option.none = Option.none := by simp [powO, h]

theorem pow_nan_base (y : Option Rat) (h : y ≠ some 0) : powO Option.none y = Option.none := by
  cases y with
  | none => rfl
  | some y => have : y ≠ 0 := fun e => h (by rw [e]); simp [powO, this]

/-- `pow_(a, b)` of two Series: `result[t] = a[t] ** b[t]` on the joint index -/
theorem pow_value (how : How) (a b : RSeries) :
    ∃ ix, joinIndex how [a.idx, b.idx] = some ix ∧
      powop how Option.none (.ts a) (.ts b) = .ts { idx := ix, vals := ix.map fun t => powO (valueAtR a t) (valueAtR b t) } :=
  binopG_value powO how a b

/-! ### comparisons -/

/-- a comparison with NaN on either side is False -/
theorem cmp_nan_false (c : Cmp) (x : Option Rat) : c.appO Option.none x = false ∧ c.appO x Option.none = false := by
  cases x <;> simp [Cmp.appO]

/-- two Series, no fill method: a bool Series on the joint index with `result[t] = (a[t] cmp b[t])` -/
theorem cmp_value (c : Cmp) (how : How) (a b : RSeries) :
    ∃ ix, joinIndex how [a.idx, b.idx] = some ix ∧
      cmpop c how Option.none (.ts a) (.ts b) = .ts ix (ix.map fun t => c.appO (valueAtR a t) (valueAtR b t)) := by
  cases how <;> exact ⟨_, rfl, by simp [cmpop, alignAll, indexesOf, joinIndex, cmpKernel, reindexR, List.zip_map', List.map_map, Function.comp_def]⟩

theorem cmp_scalar_right (c : Cmp) (how : How) (a : RSeries) (q : Option Rat) :
    cmpop c how Option.none (.ts a) (.num q) = .ts a.idx (a.idx.map fun t => c.appO (valueAtR a t) q) := by
  cases how <;> simp [cmpop, alignAll, indexesOf, joinIndex, cmpKernel, reindexR, List.map_map, Function.comp_def]

theorem cmp_scalar_left (c : Cmp) (how : How) (b : RSeries) (q : Option Rat) :
    cmpop c how Option.none (.num q) (.ts b) = .ts b.idx (b.idx.map fun t => c.appO q (valueAtR b t)) := by
  cases how <;> simp [cmpop, alignAll, indexesOf, joinIndex, cmpKernel, reindexR, List.map_map, Function.comp_def]

theorem cmp_scalar_scalar (c : Cmp) (how : How) (m : Option Dir) (p q : Option Rat) :
    cmpop c how m (.num p) (.num q) = .flag (c.appO p q) := by
  cases how <;> simp [cmpop, alignAll, indexesOf, joinIndex, cmpKernel]

/-- `a > b` is `b < a`, `a >= b` is `b <= a`; on numbers `>` is the negation of `<=` and `>=` of `<` -/
theorem cmp_swap (x y : Option Rat) : Cmp.appO .gt x y = Cmp.appO .lt y x ∧ Cmp.appO .ge x y = Cmp.appO .le y x := by
  cases x <;> cases y <;> simp [Cmp.appO, Cmp.app]

theorem gt_not_le (x y : Rat) : Cmp.app .gt x y = !Cmp.app .le x y := by
  by_cases h : x ≤ y
  · simp [Cmp.app, h, Rat.not_lt.mpr h]
  · simp [Cmp.app, h, Rat.not_le.mp h]

theorem ge_not_lt (x y : Rat) : Cmp.app .ge x y = !Cmp.app .lt x y := by
  by_cases h : y ≤ x
  · simp [Cmp.app, h, Rat.not_lt.mpr h]
  · simp [Cmp.app, h, Rat.not_le.mp h]

/-! ## every presync kernel on frames (`binopFG`, PygModel/OpsF.lean): `pow_`, the comparisons, and the column policies `'lj'` / `'rj'`
`binopFG (kernelG f) d` is the presync-decorated kernel with the pointwise function `f` and `presync(default = d)`;
`binopF op = binopFG (kernelG op.appO) (some op.neutral)` (`binopF_eq_binopFG`). -/

/-- **value, index and columns at once, for any pointwise kernel**: two frames with several columns each give the frame on
the joint index with header `frameCols` whose cell `(t, c)` is `f a[t, c] b[t, c]`, a column that one side lacks counting
as the kernel's `default` `d`; without any result column the code returns the empty `pd.Series({})` -/
theorem binopFG_value (f : PF) (d : Option Rat) (how : How) (m : Option Dir) (ch : ColHow) (a b : RFrame)
    (ha : a.cols.length > 1) (hb : b.cols.length > 1) :
    ∃ ix, joinIndex how [a.idx, b.idx] = some ix ∧
      binopFG (kernelG f) d how m ch (.df a) (.df b) =
        if frameCols ch a b = [] then .ts { idx := [], vals := [] }
        else .df { idx := ix, cols := (frameCols ch a b).map fun c =>
                     (c, ix.map fun t => f (cellD d a m c t) (cellD d b m c t)) } := by
  obtain ⟨ix, hix⟩ := joinIndex_two how a.idx b.idx
  refine ⟨ix, hix, ?_⟩
  have h1 : indexesOfF [FOperand.df a, FOperand.df b] = [a.idx, b.idx] := rfl
  have h2 : multiNames [FOperand.df (reindexF a ix m), FOperand.df (reindexF b ix m)] = [a.names, b.names] := by
    rw [multiNames_frames _ _ (by rw [reindexF_ncols]; exact ha) (by rw [reindexF_ncols]; exact hb), reindexF_names, reindexF_names]
  simp only [binopFG, h1, hix, alignF, kernelFG, h2, resultCols_two]
  cases hc : frameCols ch a b with
  | nil => simp
  | cons c cs =>
    simp only [List.cons_ne_nil, if_false]
    congr 2
    apply List.map_congr_left
    intro c' _
    rw [col_valueG f _ c' a b ix m ha hb]

/-- the result is a frame with header `frameCols` whenever there is a result column at all -/
theorem binopFG_columns (f : PF) (d : Option Rat) (how : How) (m : Option Dir) (ch : ColHow) (a b : RFrame)
    (ha : a.cols.length > 1) (hb : b.cols.length > 1) :
    (frameCols ch a b = [] ∧ binopFG (kernelG f) d how m ch (.df a) (.df b) = .ts { idx := [], vals := [] }) ∨
    (frameCols ch a b ≠ [] ∧ ∃ r, binopFG (kernelG f) d how m ch (.df a) (.df b) = .df r ∧ r.names = frameCols ch a b ∧
      joinIndex how [a.idx, b.idx] = some r.idx) := by
  obtain ⟨ix, hix, h⟩ := binopFG_value f d how m ch a b ha hb
  by_cases hc : frameCols ch a b = []
  · exact .inl ⟨hc, by rw [h, if_pos hc]⟩
  · refine .inr ⟨hc, _, by rw [h, if_neg hc], ?_, hix⟩
    simp [RFrame.names, List.map_map, Function.comp_def]

/-- **cell by cell**: reading the result by label, `result[t, c] = f a[t, c] b[t, c]` for every result column `c` and every
label `t` of the joint index -/
theorem binopFG_cell (f : PF) (d : Option Rat) (how : How) (m : Option Dir) (ch : ColHow) (a b r : RFrame)
    (ha : a.cols.length > 1) (hb : b.cols.length > 1) (h : binopFG (kernelG f) d how m ch (.df a) (.df b) = .df r)
    (c : String) (t : Int) (hc : c ∈ r.names) (ht : t ∈ r.idx) :
    cellD Option.none r Option.none c t = f (cellD d a m c t) (cellD d b m c t) := by
  obtain ⟨ix, hix, h'⟩ := binopFG_value f d how m ch a b ha hb
  rw [h'] at h
  split at h
  · cases h
  · cases h
    have hc' : c ∈ frameCols ch a b := by simpa [RFrame.names, List.map_map, Function.comp_def] using hc
    exact cell_of_built Option.none ix (frameCols ch a b) (fun c t => f (cellD d a m c t) (cellD d b m c t)) c t hc' ht

/-- a frame against a Series / a scalar, on either side: broadcast to every column of the frame (header = the frame's own,
in its order; any column policy) -/
theorem binopFG_frame_series (f : PF) (d : Option Rat) (how : How) (m : Option Dir) (ch : ColHow) (a : RFrame) (s : RSeries)
    (ha : a.cols.length > 1) :
    ∃ ix, joinIndex how [a.idx, s.idx] = some ix ∧
      binopFG (kernelG f) d how m ch (.df a) (.ts s) =
        .df { idx := ix, cols := a.names.map fun c => (c, ix.map fun t => f (cellD d a m c t) (lookR s m t)) } := by
  obtain ⟨ix, hix⟩ := joinIndex_two how a.idx s.idx
  refine ⟨ix, hix, ?_⟩
  have h1 : indexesOfF [FOperand.df a, FOperand.ts s] = [a.idx, s.idx] := rfl
  have h2 : multiNames [FOperand.df (reindexF a ix m), FOperand.ts (reindexR s ix m)] = [a.names] := by
    simp [multiNames, reindexF_ncols, ha, reindexF_names]
  simp only [binopFG, h1, hix, alignF, kernelFG, h2, resultCols_one]
  cases hc : a.names with
  | nil => exact absurd hc (names_ne_nil a ha)
  | cons c cs =>
    simp only
    congr 2
    apply List.map_congr_left
    intro c' _
    rw [col_valueG_ts f _ c' a s ix m ha]

theorem binopFG_series_frame (f : PF) (d : Option Rat) (how : How) (m : Option Dir) (ch : ColHow) (a : RFrame) (s : RSeries)
    (ha : a.cols.length > 1) :
    ∃ ix, joinIndex how [s.idx, a.idx] = some ix ∧
      binopFG (kernelG f) d how m ch (.ts s) (.df a) =
        .df { idx := ix, cols := a.names.map fun c => (c, ix.map fun t => f (lookR s m t) (cellD d a m c t)) } := by
  obtain ⟨ix, hix⟩ := joinIndex_two how s.idx a.idx
  refine ⟨ix, hix, ?_⟩
  have h1 : indexesOfF [FOperand.ts s, FOperand.df a] = [s.idx, a.idx] := rfl
  have h2 : multiNames [FOperand.ts (reindexR s ix m), FOperand.df (reindexF a ix m)] = [a.names] := by
    simp [multiNames, reindexF_ncols, ha, reindexF_names]
  simp only [binopFG, h1, hix, alignF, kernelFG, h2, resultCols_one]
  cases hc : a.names with
  | nil => exact absurd hc (names_ne_nil a ha)
  | cons c cs =>
    simp only
    congr 2
    apply List.map_congr_left
    intro c' _
    rw [col_valueG_ts' f _ c' a s ix m ha]

theorem binopFG_frame_scalar (f : PF) (d : Option Rat) (how : How) (m : Option Dir) (ch : ColHow) (a : RFrame) (q : Option Rat)
    (ha : a.cols.length > 1) :
    binopFG (kernelG f) d how m ch (.df a) (.num q) =
      .df { idx := a.idx, cols := a.names.map fun c => (c, a.idx.map fun t => f (cellD d a m c t) q) } := by
  have h1 : indexesOfF [FOperand.df a, FOperand.num q] = [a.idx] := rfl
  have hix : joinIndex how [a.idx] = some a.idx := by cases how <;> rfl
  have h2 : multiNames [FOperand.df (reindexF a a.idx m), FOperand.num q] = [a.names] := by
    simp [multiNames, reindexF_ncols, ha, reindexF_names]
  simp only [binopFG, h1, hix, alignF, kernelFG, h2, resultCols_one]
  cases hc : a.names with
  | nil => exact absurd hc (names_ne_nil a ha)
  | cons c cs =>
    simp only
    congr 2
    apply List.map_congr_left
    intro c' _
    rw [col_valueG_num f _ c' a q a.idx m ha]

theorem binopFG_scalar_frame (f : PF) (d : Option Rat) (how : How) (m : Option Dir) (ch : ColHow) (a : RFrame) (q : Option Rat)
    (ha : a.cols.length > 1) :
    binopFG (kernelG f) d how m ch (.num q) (.df a) =
      .df { idx := a.idx, cols := a.names.map fun c => (c, a.idx.map fun t => f q (cellD d a m c t)) } := by
  have h1 : indexesOfF [FOperand.num q, FOperand.df a] = [a.idx] := rfl
  have hix : joinIndex how [a.idx] = some a.idx := by cases how <;> rfl
  have h2 : multiNames [FOperand.num q, FOperand.df (reindexF a a.idx m)] = [a.names] := by
    simp [multiNames, reindexF_ncols, ha, reindexF_names]
  simp only [binopFG, h1, hix, alignF, kernelFG, h2, resultCols_one]
  cases hc : a.names with
  | nil => exact absurd hc (names_ne_nil a ha)
  | cons c cs =>
    simp only
    congr 2
    apply List.map_congr_left
    intro c' _
    rw [col_valueG_num' f _ c' a q a.idx m ha]

/-- on Series and scalars the frame-aware kernel is the Series kernel `binopG` of PygModel/OpsX.lean, whatever the default
and the column policy -/
theorem binopFG_refines (f : PF) (d : Option Rat) (how : How) (m : Option Dir) (ch : ColHow) (a b : Operand) :
    binopFG (kernelG f) d how m ch (.ofOperand a) (.ofOperand b) = .ofOperand (binopG f how m a b) := by
  cases a <;> cases b <;> cases how <;>
    simp [binopFG, binopG, FOperand.ofOperand, indexesOfF, indexesOf, joinIndex, alignAll, alignF, kernelFG, multiNames, resultCols,
      colArg, isDf, kernelG]

/-! ### the column policies `'lj'` / `'rj'`: the header of the first / of the last frame -/

theorem binopF_columns_lj (a b : RFrame) (c : String) : c ∈ frameCols .lj a b ↔ c ∈ a.names := by
  unfold frameCols
  split
  · exact Iff.rfl
  · simp [colsJoin, mem_sortS]

theorem binopF_columns_rj (a b : RFrame) (c : String) : c ∈ frameCols .rj a b ↔ c ∈ b.names := by
  unfold frameCols
  split
  · rename_i h; rw [h]
  · simp [colsJoin, mem_sortS]

/-- whatever the column policy: a result column that the RIGHT frame lacks holds `f a[t, c] d`, one that the LEFT frame
lacks `f d b[t, c]` (`d` = the kernel's default) -/
theorem binopFG_missing_right (f : PF) (d : Option Rat) (how : How) (m : Option Dir) (ch : ColHow) (a b r : RFrame)
    (ha : a.cols.length > 1) (hb : b.cols.length > 1) (h : binopFG (kernelG f) d how m ch (.df a) (.df b) = .df r)
    (c : String) (hc : c ∈ r.names) (hcb : c ∉ b.names) (t : Int) (ht : t ∈ r.idx) :
    cellD Option.none r Option.none c t = f (cellD d a m c t) d := by
  rw [binopFG_cell f d how m ch a b r ha hb h c t hc ht, cellD_not_mem _ b m c t hcb]

theorem binopFG_missing_left (f : PF) (d : Option Rat) (how : How) (m : Option Dir) (ch : ColHow) (a b r : RFrame)
    (ha : a.cols.length > 1) (hb : b.cols.length > 1) (h : binopFG (kernelG f) d how m ch (.df a) (.df b) = .df r)
    (c : String) (hc : c ∈ r.names) (hca : c ∉ a.names) (t : Int) (ht : t ∈ r.idx) :
    cellD Option.none r Option.none c t = f d (cellD d b m c t) := by
  rw [binopFG_cell f d how m ch a b r ha hb h c t hc ht, cellD_not_mem _ a m c t hca]

/-- `columns = 'lj'`: the result has exactly the columns of the LEFT frame, and a column that only the left frame has is
the left frame's column on the joint index (the right side acts as the neutral element), for all four operators -/
theorem lj_neutral (op : Op) (how : How) (m : Option Dir) (a b r : RFrame)
    (ha : a.cols.length > 1) (hb : b.cols.length > 1) (h : binopF op how m .lj (.df a) (.df b) = .df r) :
    (∀ c, c ∈ r.names ↔ c ∈ a.names) ∧
    ∀ c, c ∈ a.names → c ∉ b.names → ∀ t ∈ r.idx, cellD Option.none r Option.none c t = cellD Option.none a m c t := by
  have hn : ∀ c, c ∈ r.names ↔ c ∈ a.names := by
    intro c
    rcases binopF_columns op how m .lj a b ha hb with ⟨_, h1⟩ | ⟨_, r', h1, h2⟩
    · rw [h1] at h; cases h
    · rw [h1] at h; cases h; rw [h2, binopF_columns_lj]
  refine ⟨hn, ?_⟩
  intro c hca hcb t ht
  rw [binopF_cell op how m .lj a b r ha hb h c t ((hn c).mpr hca) ht, cellD_not_mem _ b m c t hcb, appO_neutral_right]
  exact cellD_mem _ _ a m c t hca

/-- `columns = 'rj'`: the result has exactly the columns of the RIGHT frame, and a column that only the right frame has
holds `neutral op b[t, c]` (`b[t, c]` itself for `add_ / mul_`, `0 - b[t, c]`, `1 / b[t, c]`) -/
theorem rj_neutral (op : Op) (how : How) (m : Option Dir) (a b r : RFrame)
    (ha : a.cols.length > 1) (hb : b.cols.length > 1) (h : binopF op how m .rj (.df a) (.df b) = .df r) :
    (∀ c, c ∈ r.names ↔ c ∈ b.names) ∧
    ∀ c, c ∉ a.names → c ∈ b.names → ∀ t ∈ r.idx,
      cellD Option.none r Option.none c t = op.appO (some op.neutral) (cellD Option.none b m c t) := by
  have hn : ∀ c, c ∈ r.names ↔ c ∈ b.names := by
    intro c
    rcases binopF_columns op how m .rj a b ha hb with ⟨_, h1⟩ | ⟨_, r', h1, h2⟩
    · rw [h1] at h; cases h
    · rw [h1] at h; cases h; rw [h2, binopF_columns_rj]
  refine ⟨hn, ?_⟩
  intro c hca hcb t ht
  rw [binopF_cell op how m .rj a b r ha hb h c t ((hn c).mpr hcb) ht, cellD_not_mem _ a m c t hca,
    cellD_mem _ Option.none b m c t hcb]

/-- under `'lj'` (and `'rj'`) the operators cannot commute: the header follows the first (last) operand.  Witness: frames
with the headers `a, b` and `b, c` -/
theorem comm_fails_lj :
    ∃ a b : RFrame, a.cols.length > 1 ∧ b.cols.length > 1 ∧ SortedL a.idx ∧ SortedL b.idx ∧
      binopF .add .inner Option.none .lj (.df a) (.df b) ≠ binopF .add .inner Option.none .lj (.df b) (.df a) := by
  refine ⟨{ idx := [1], cols := [("a", [some 1]), ("b", [some 1])] }, { idx := [1], cols := [("b", [some 1]), ("c", [some 1])] },
    by decide, by decide, by decide, by decide, ?_⟩
  intro e
  rcases binopF_columns .add .inner Option.none .lj _ _ (by decide : (RFrame.mk [1] [("a", [some (1 : Rat)]), ("b", [some 1])]).cols.length > 1)
      (by decide : (RFrame.mk [1] [("b", [some (1 : Rat)]), ("c", [some 1])]).cols.length > 1) with ⟨h0, _⟩ | ⟨_, r, h1, h2⟩
  · have : "a" ∈ frameCols .lj (RFrame.mk [1] [("a", [some (1 : Rat)]), ("b", [some 1])]) (RFrame.mk [1] [("b", [some (1 : Rat)]), ("c", [some 1])]) := by
      rw [binopF_columns_lj]; decide
    rw [h0] at this; cases this
  · rcases binopF_columns .add .inner Option.none .lj _ _ (by decide : (RFrame.mk [1] [("b", [some (1 : Rat)]), ("c", [some 1])]).cols.length > 1)
        (by decide : (RFrame.mk [1] [("a", [some (1 : Rat)]), ("b", [some 1])]).cols.length > 1) with ⟨h0, _⟩ | ⟨_, r', h1', h2'⟩
    · have : "b" ∈ frameCols .lj (RFrame.mk [1] [("b", [some (1 : Rat)]), ("c", [some 1])]) (RFrame.mk [1] [("a", [some (1 : Rat)]), ("b", [some 1])]) := by
        rw [binopF_columns_lj]; decide
      rw [h0] at this; cases this
    · rw [h1, h1'] at e
      cases e
      have h3 : "a" ∈ r.names := by rw [h2, binopF_columns_lj]; decide
      rw [h2', binopF_columns_lj] at h3
      revert h3; decide

/-! ### `pow_` and the comparisons on frames (`default = nan`) -/

/-- `pow_(a, b)` of two frames: cell `(t, c)` = `a[t, c] ** b[t, c]` on the joint index, header `frameCols` (common columns
under `'ij'`, all under `'oj'`, …); a column that one frame lacks counts as NaN (`@presync` without a default) -/
theorem powF_value (how : How) (m : Option Dir) (ch : ColHow) (a b : RFrame) (ha : a.cols.length > 1) (hb : b.cols.length > 1) :
    ∃ ix, joinIndex how [a.idx, b.idx] = some ix ∧
      powF how m ch (.df a) (.df b) =
        if frameCols ch a b = [] then .ts { idx := [], vals := [] }
        else .df { idx := ix, cols := (frameCols ch a b).map fun c =>
                     (c, ix.map fun t => powO (cellD Option.none a m c t) (cellD Option.none b m c t)) } :=
  binopFG_value powO Option.none how m ch a b ha hb

/-- NaN is not neutral for `**`: a column only the base frame has is NaN except where the base is 1 (`1 ** nan = 1`); a
column only the exponent frame has is NaN except where the exponent is 0 (`nan ** 0 = 1`) -/
theorem powF_missing (how : How) (m : Option Dir) (ch : ColHow) (a b r : RFrame)
    (ha : a.cols.length > 1) (hb : b.cols.length > 1) (h : powF how m ch (.df a) (.df b) = .df r) (c : String) (hc : c ∈ r.names)
    (t : Int) (ht : t ∈ r.idx) :
    (c ∉ b.names → cellD Option.none r Option.none c t = if cellD Option.none a m c t = some 1 then some 1 else Option.none) ∧
    (c ∉ a.names → cellD Option.none r Option.none c t = if cellD Option.none b m c t = some 0 then some 1 else Option.none) := by
  constructor
  · intro hcb
    rw [binopFG_missing_right powO Option.none how m ch a b r ha hb h c hc hcb t ht]
    cases cellD Option.none a m c t with
    | none => rfl
    | some x => by_cases hx : x = 1 <;> simp [powO, hx]
  · intro hca
    rw [binopFG_missing_left powO Option.none how m ch a b r ha hb h c hc hca t ht]
    cases cellD Option.none b m c t with
    | none => rfl
    | some y => by_cases hy : y = 0 <;> simp [powO, hy]

theorem powF_frame_scalar (how : How) (m : Option Dir) (ch : ColHow) (a : RFrame) (q : Option Rat) (ha : a.cols.length > 1) :
    powF how m ch (.df a) (.num q) =
      .df { idx := a.idx, cols := a.names.map fun c => (c, a.idx.map fun t => powO (cellD Option.none a m c t) q) } :=
  binopFG_frame_scalar powO Option.none how m ch a q ha

theorem powF_refines (how : How) (m : Option Dir) (ch : ColHow) (a b : Operand) :
    powF how m ch (.ofOperand a) (.ofOperand b) = .ofOperand (powop how m a b) :=
  binopFG_refines powO Option.none how m ch a b

/-- `gt_ / ge_ / lt_ / le_ (a, b)` of two frames: cell `(t, c)` = the bool `a[t, c] cmp b[t, c]` (as 1 / 0) on the joint index,
header `frameCols`; NaN on either side and a column that one frame lacks (default NaN) compare False -/
theorem cmpF_value (c : Cmp) (how : How) (m : Option Dir) (ch : ColHow) (a b : RFrame) (ha : a.cols.length > 1) (hb : b.cols.length > 1) :
    ∃ ix, joinIndex how [a.idx, b.idx] = some ix ∧
      cmpF c how m ch (.df a) (.df b) =
        if frameCols ch a b = [] then .ts { idx := [], vals := [] }
        else .df { idx := ix, cols := (frameCols ch a b).map fun n =>
                     (n, ix.map fun t => boolCell (c.appO (cellD Option.none a m n t) (cellD Option.none b m n t))) } :=
  binopFG_value c.cell Option.none how m ch a b ha hb

/-- a column that only one of the frames has is False throughout (never NaN, never a neutral element) -/
theorem cmpF_missing_false (c : Cmp) (how : How) (m : Option Dir) (ch : ColHow) (a b r : RFrame)
    (ha : a.cols.length > 1) (hb : b.cols.length > 1) (h : cmpF c how m ch (.df a) (.df b) = .df r) (n : String) (hn : n ∈ r.names)
    (hmiss : n ∉ a.names ∨ n ∉ b.names) (t : Int) (ht : t ∈ r.idx) :
    cellD Option.none r Option.none n t = boolCell false := by
  rcases hmiss with hm | hm
  · rw [binopFG_missing_left c.cell Option.none how m ch a b r ha hb h n hn hm t ht, Cmp.cell, (cmp_nan_false c _).1]
  · rw [binopFG_missing_right c.cell Option.none how m ch a b r ha hb h n hn hm t ht, Cmp.cell, (cmp_nan_false c _).2]

/-- every cell of a comparison of frames is a bool -/
theorem cmpF_bool (c : Cmp) (how : How) (m : Option Dir) (ch : ColHow) (a b r : RFrame)
    (ha : a.cols.length > 1) (hb : b.cols.length > 1) (h : cmpF c how m ch (.df a) (.df b) = .df r) (n : String) (hn : n ∈ r.names)
    (t : Int) (ht : t ∈ r.idx) :
    cellD Option.none r Option.none n t = boolCell true ∨ cellD Option.none r Option.none n t = boolCell false := by
  rw [binopFG_cell c.cell Option.none how m ch a b r ha hb h n t hn ht, Cmp.cell]
  cases c.appO _ _ <;> simp

theorem cmpF_frame_series (c : Cmp) (how : How) (m : Option Dir) (ch : ColHow) (a : RFrame) (s : RSeries) (ha : a.cols.length > 1) :
    ∃ ix, joinIndex how [a.idx, s.idx] = some ix ∧
      cmpF c how m ch (.df a) (.ts s) =
        .df { idx := ix, cols := a.names.map fun n => (n, ix.map fun t => boolCell (c.appO (cellD Option.none a m n t) (lookR s m t))) } :=
  binopFG_frame_series c.cell Option.none how m ch a s ha

theorem cmpF_frame_scalar (c : Cmp) (how : How) (m : Option Dir) (ch : ColHow) (a : RFrame) (q : Option Rat) (ha : a.cols.length > 1) :
    cmpF c how m ch (.df a) (.num q) =
      .df { idx := a.idx, cols := a.names.map fun n => (n, a.idx.map fun t => boolCell (c.appO (cellD Option.none a m n t) q)) } :=
  binopFG_frame_scalar c.cell Option.none how m ch a q ha

/-- on Series and scalars the frame-aware comparison is `cmpop` (all theorems `cmp_*` apply), cells read as bools -/
theorem cmpF_refines (c : Cmp) (how : How) (m : Option Dir) (ch : ColHow) (a b : Operand) :
    cmpF c how m ch (.ofOperand a) (.ofOperand b) = (cmpop c how m a b).enc := by
  cases a <;> cases b <;> cases how <;>
    simp [cmpF, binopFG, cmpop, FOperand.ofOperand, indexesOfF, indexesOf, joinIndex, alignAll, alignF, kernelFG, multiNames, resultCols,
      colArg, isDf, kernelG, cmpKernel, BOperand.enc, Cmp.cell, reindexR_idx]

/-! ### `min_ / max_` with frames (`mmListF`, PygModel/OpsFX.lean): `df_sync` of ALL operands, then the left fold -/

theorem mem_framesOfX (xs : List FOperand) (f : RFrame) : f ∈ framesOfX xs ↔ FOperand.df f ∈ xs := by
  induction xs with
  | nil => simp [framesOfX]
  | cons x xs ih =>
    cases x <;> simp_all [framesOfX]

/-- **value, index and columns at once, any number of operands** (induction over the list): `min_` / `max_` of scalars,
Series and frames with several columns each, at least one frame, is the frame on the joint index of all timeseries with
the joint header of the FRAMES (`aggCols`: common columns under `'ij'`, all under `'oj'`, …, sorted) whose cell `(t, c)`
is the LEFT fold of `np.minimum / np.maximum` (`MM.appO`: NaN propagates) over what the operands show there (`cellM`: a
frame its cell after `_df_reindex(·, m)`, NaN without the column; a Series its value in every column; a scalar itself).
Hypothesis `hc`: more than one joint column, or no Series operand - a frame that `df_sync` leaves with exactly ONE column
is turned into a Series by `_align_columns` when it meets a Series (`as_series`), and the result then is a Series with
the same values (modelled and sampled; the `#guard` below shows it). -/
theorem mmF_value (k : MM) (how : How) (m : Option Dir) (ch : ColHow) (x : FOperand) (xs : List FOperand) (f : RFrame) (fs : List RFrame)
    (hf : framesOfX (x :: xs) = f :: fs) (hd : ∀ g, FOperand.df g ∈ x :: xs → g.cols.length > 1)
    (hc : (aggCols ch f fs).length ≠ 1 ∨ ∀ s, FOperand.ts s ∉ x :: xs) :
    ∃ ix, joinIndex how (indexesOfF (x :: xs)) = some ix ∧
      mmListF k how m ch (x :: xs) [] =
        some (.df { idx := ix, cols := (aggCols ch f fs).map fun c =>
                      (c, ix.map fun t => xs.foldl (fun v y => k.appO v (cellM m c t y)) (cellM m c t x)) }) := by
  have hfm : FOperand.df f ∈ x :: xs := (mem_framesOfX _ f).mp (by rw [hf]; simp)
  have hix : ∃ ix, joinIndex how (indexesOfF (x :: xs)) = some ix := by
    cases hi : indexesOfF (x :: xs) with
    | nil => exact absurd hi (indexesOfF_ne_nil _ f hfm)
    | cons a as => exact ⟨_, joinIndex_fold how a as⟩
  obtain ⟨ix, hix⟩ := hix
  refine ⟨ix, hix, ?_⟩
  have hm := multiNames_align ix m (x :: xs) hd
  rw [hf] at hm
  simp only [mmListF, syncF, List.append_nil, hix, hm]
  simp only [List.map_cons]
  have hcols : colsJoin ch f.names (fs.map (·.names)) = aggCols ch f fs := rfl
  rw [hcols]
  have hx := recolX_alignF (aggCols ch f fs) ix m x (fun g e => hd g (by simp [e]))
  have hxs : (xs.map (alignF ix m)).map (recolX (aggCols ch f fs)) =
      (xs.map fun y => (rankF y, fun c t => cellM m c t y)).map fun y => buildF ix (aggCols ch f fs) y.1 y.2 := by
    simp only [List.map_map]
    apply List.map_congr_left
    intro y hy
    exact recolX_alignF (aggCols ch f fs) ix m y (fun g e => hd g (by simp [← e, hy]))
  simp only [reducerF]
  rw [hx, hxs, foldl_mmKernelF k ix (aggCols ch f fs) _ _ _ (constF_cellM m x)
    (by intro y hy; simp only [List.mem_map] at hy; obtain ⟨z, _, rfl⟩ := hy; exact constF_cellM m z)
    (by
      rcases hc with h | h
      · exact .inl h
      · refine .inr ⟨?_, ?_⟩
        · cases x with
          | ts s => exact absurd (List.mem_cons_self) (h s)
          | num q => simp [rankF]
          | df g => simp [rankF]
        · intro y hy
          simp only [List.mem_map] at hy
          obtain ⟨z, hz, rfl⟩ := hy
          cases z with
          | ts s => exact absurd (List.mem_cons_of_mem _ hz) (h s)
          | num q => simp [rankF]
          | df g => simp [rankF])]
  have hr : 2 ≤ (xs.map fun y => (rankF y, fun c t => cellM m c t y)).foldl (fun r y => max r y.1) (rankF x) := by
    rcases List.mem_cons.mp hfm with e | hmem
    · rw [← e]; exact rank_fold_ge _ _
    · exact rank_fold_mem _ _ (rankF (.df f), fun c t => cellM m c t (.df f)) (List.mem_map.mpr ⟨_, hmem, rfl⟩)
  rw [buildF_ge2 _ _ _ _ hr]
  simp only [List.foldl_map]

/-- two frames: `min_(a, b)` / `max_(a, b)` is the frame on the joint index whose cell `(t, c)` is the pointwise minimum /
maximum of the two cells, NaN where either is NaN or a frame lacks the column (no neutral element: `df_sync` fills NaN) -/
theorem mmF_two (k : MM) (how : How) (m : Option Dir) (ch : ColHow) (a b : RFrame) (ha : a.cols.length > 1) (hb : b.cols.length > 1) :
    ∃ ix, joinIndex how [a.idx, b.idx] = some ix ∧
      mmListF k how m ch [.df a] [.df b] =
        some (.df { idx := ix, cols := (aggCols ch a [b]).map fun c =>
                      (c, ix.map fun t => k.appO (cellD Option.none a m c t) (cellD Option.none b m c t)) }) := by
  obtain ⟨ix, h1, h2⟩ := mmF_value k how m ch (.df a) [.df b] a [b] rfl
    (by intro g hg; simp at hg; rcases hg with rfl | rfl <;> assumption) (.inr (by simp))
  refine ⟨ix, h1, ?_⟩
  have : mmListF k how m ch [.df a] [.df b] = mmListF k how m ch [.df a, .df b] [] := rfl
  rw [this, h2]
  rfl

/-- the header: union / intersection over ALL frames (`aggF_columns_oj / _ij` apply to `aggCols`), the first frame's under
`'lj'`, the last frame's under `'rj'`; always sorted in the model (pandas' own order in the code, compared sorted) -/
theorem mmF_columns_lj (f : RFrame) (fs : List RFrame) (c : String) : c ∈ aggCols .lj f fs ↔ c ∈ f.names := by
  simp [aggCols, colsJoin, mem_sortS]

/-- a frame against a Series / a scalar: broadcast to every cell -/
theorem mmF_frame_series (k : MM) (how : How) (m : Option Dir) (ch : ColHow) (a : RFrame) (s : RSeries) (ha : a.cols.length > 1)
    (hn : a.names.Nodup) :
    ∃ ix, joinIndex how [a.idx, s.idx] = some ix ∧
      mmListF k how m ch [.df a] [.ts s] =
        some (.df { idx := ix, cols := (aggCols ch a []).map fun c =>
                      (c, ix.map fun t => k.appO (cellD Option.none a m c t) (lookR s m t)) }) := by
  have hlen : (aggCols ch a []).length ≠ 1 := by
    have hs : aggCols ch a [] = sortS a.names := by cases ch <;> rfl
    rw [hs, sortS_length a.names hn]
    simp only [RFrame.names, List.length_map]; omega
  obtain ⟨ix, h1, h2⟩ := mmF_value k how m ch (.df a) [.ts s] a [] rfl
    (by intro g hg; simp at hg; rcases hg with rfl; assumption) (.inl hlen)
  refine ⟨ix, h1, ?_⟩
  have : mmListF k how m ch [.df a] [.ts s] = mmListF k how m ch [.df a, .ts s] [] := rfl
  rw [this, h2]
  rfl

/-- commutativity of the pointwise fold for two operands (`np.minimum(x, y) = np.minimum(y, x)`) -/
theorem mmF_cell_comm (k : MM) (m : Option Dir) (c : String) (t : Int) (x y : FOperand) :
    k.appO (cellM m c t x) (cellM m c t y) = k.appO (cellM m c t y) (cellM m c t x) := mm_appO_comm k _ _

/-! ### non-vacuity and evaluation checks
(`Rat` arithmetic does not reduce in the kernel, so concrete results are `#guard` evaluation tests, not theorems) -/

/-- the hypotheses of the commutativity theorems hold on partially overlapping indices -/
example : SortedL [1, 2, 3] ∧ SortedL [2, 3, 4] ∧ joinIndex .inner [[1, 2, 3], [2, 3, 4]] = some [2, 3] ∧
    joinIndex .outer [[1, 2, 3], [2, 3, 4]] = some [1, 2, 3, 4] := by decide

#guard binop .div .inner Option.none
    (.ts { idx := [1, 2, 3], vals := [some 1, some 2, some 3] })
    (.ts { idx := [2, 3, 4], vals := [some 0, some 2, some 5] }) ==
    .ts { idx := [2, 3], vals := [Option.none, some (3 / 2)] }
#guard binop .add .outer (some .ffill)
    (.ts { idx := [1, 3], vals := [some 1, some 3] })
    (.ts { idx := [2], vals := [some 10] }) ==
    .ts { idx := [1, 2, 3], vals := [Option.none, some 11, some 13] }
#guard (aggregate .mean .outer Option.none
    [.ts { idx := [1, 2], vals := [some 1, Option.none] }, .ts { idx := [2, 3], vals := [Option.none, some 3] }]).map (·.vals) ==
    some [some 1, Option.none, some 3]
#guard opList .mul .inner Option.none [.ts { idx := [1, 2], vals := [some 2, some 3] }, .num (some 2), .ts { idx := [2], vals := [some 5] }] [] ==
    some (.ts { idx := [2], vals := [some 30] })

/-! frames: the probe of the real code recorded in docs/notes/C08.md -/
private def fa : RFrame := { idx := [0, 1, 2], cols := [("a", [some 1, some 2, some 3]), ("b", [some 4, Option.none, some 6])] }
private def fb : RFrame := { idx := [1, 2, 3], cols := [("b", [some 1, some 0, some 2]), ("c", [some 5, some 5, some 5])] }
private def fx : RFrame := { idx := [1, 2, 3], cols := [("x", [some 1, some 0, some 2]), ("y", [some 5, some 5, some 5])] }
private def fba : RFrame := { idx := [1, 2, 3], cols := [("b", [some 1, some 0, some 2]), ("a", [some 5, some 5, some 5])] }

/-- the hypotheses of the frame theorems hold on frames with partially overlapping indices and headers -/
example : fa.cols.length > 1 ∧ fb.cols.length > 1 ∧ SortedL fa.idx ∧ SortedL fb.idx ∧ fa.names.Nodup ∧
    "a" ∈ fa.names ∧ "a" ∉ fb.names ∧ "c" ∉ fa.names ∧ "c" ∈ fb.names ∧ fb.names ≠ fa.names := by decide

#guard frameCols .ij fa fb == ["b"] && frameCols .oj fa fb == ["a", "b", "c"] && frameCols .ij fa fx == [] &&
  frameCols .ij fba fba == ["b", "a"] && frameCols .ij fa fba == ["a", "b"]
#guard binopF .div .inner Option.none .oj (.df fa) (.df fb) ==
  .df { idx := [1, 2], cols := [("a", [some 2, some 3]), ("b", [Option.none, Option.none]), ("c", [some (1 / 5), some (1 / 5)])] }
#guard binopF .sub .outer Option.none .oj (.df fa) (.df fb) ==
  .df { idx := [0, 1, 2, 3], cols := [("a", [some 1, some 2, some 3, Option.none]), ("b", [Option.none, Option.none, some 6, Option.none]),
                                      ("c", [Option.none, some (-5), some (-5), some (-5)])] }
#guard binopF .add .inner Option.none .ij (.df fa) (.df fb) == .df { idx := [1, 2], cols := [("b", [Option.none, some 6])] }
#guard binopF .add .inner Option.none .ij (.df fa) (.df fx) == .ts { idx := [], vals := [] }
#guard binopF .add .inner Option.none .ij (.df fa) (.ts { idx := [1, 2, 4], vals := [some 10, some 20, some 30] }) ==
  .df { idx := [1, 2], cols := [("a", [some 12, some 23]), ("b", [Option.none, some 26])] }
#guard binopF .add .inner Option.none .ij (.df { idx := [1, 2, 3], cols := [("z", [some 1, some 2, some 3])] })
    (.df { idx := [2, 3, 4], cols := [("w", [some 1, some 2, some 3])] }) == .df { idx := [2, 3], cols := [("0", [some 3, some 5])] }
#guard (aggregateF .sum .outer Option.none .oj [fa, fb]) ==
  some { idx := [0, 1, 2, 3], cols := [("a", [some 1, some 2, some 3, Option.none]), ("b", [some 4, some 1, some 6, some 2]),
                                       ("c", [Option.none, some 5, some 5, some 5])] }
#guard opListF .add .inner Option.none .oj [.df fa, .df fb, .df fba] [] ==
  some (.df { idx := [1, 2], cols := [("a", [some 7, some 8]), ("b", [Option.none, some 6]), ("c", [some 5, some 5])] })

#guard mmList .max .outer Option.none [.ts { idx := [0, 1, 2, 3], vals := [some 1, Option.none, some 3, some 0] }]
    [.ts { idx := [1, 2, 3, 5], vals := [some 1, some 2, Option.none, some (-1)] }] ==
  some (.ts { idx := [0, 1, 2, 3, 5], vals := [Option.none, Option.none, some 3, Option.none, Option.none] })
#guard powop .outer Option.none (.ts { idx := [0, 1, 2, 3], vals := [some 1, Option.none, some 3, some 0] })
    (.ts { idx := [1, 2, 3, 5], vals := [some 1, some 2, Option.none, some (-1)] }) ==
  .ts { idx := [0, 1, 2, 3, 5], vals := [some 1, Option.none, some 9, Option.none, Option.none] }
#guard cmpop .ge .inner Option.none (.ts { idx := [0, 1, 2, 3], vals := [some 1, Option.none, some 3, some 0] }) (.num (some 1)) ==
  .ts [0, 1, 2, 3] [true, false, true, false]
#guard powDomain (.num (some (-1))) == false && powDomain (.num (some (1 / 2))) == false && powDomain (.num (some 3))

/-! round g2: column policies `lj` / `rj`, `pow_` / comparisons / `min_ / max_` with frames - the probe of the real code recorded in
docs/notes/C08.md (fa: days 0-2, columns a, b; fb: days 1-3, columns b, c) -/
#guard frameCols .lj fa fb == ["a", "b"] && frameCols .rj fa fb == ["b", "c"] && frameCols .rj fa fx == ["x", "y"] &&
  frameCols .lj fba fb == ["a", "b"] && frameCols .lj fba fba == ["b", "a"]
#guard binopF .add .inner Option.none .lj (.df fa) (.df fb) ==
  .df { idx := [1, 2], cols := [("a", [some 2, some 3]), ("b", [Option.none, some 6])] }
#guard binopF .sub .inner Option.none .rj (.df fa) (.df fb) ==
  .df { idx := [1, 2], cols := [("b", [Option.none, some 6]), ("c", [some (-5), some (-5)])] }
#guard powF .outer Option.none .oj (.df fa) (.df fb) ==
  .df { idx := [0, 1, 2, 3], cols := [("a", [some 1, Option.none, Option.none, Option.none]), ("b", [Option.none, Option.none, some 1, Option.none]),
                                      ("c", [Option.none, Option.none, Option.none, Option.none])] }
#guard cmpF .gt .inner Option.none .ij (.df fa) (.df fb) == .df { idx := [1, 2], cols := [("b", [boolCell false, boolCell true])] }
#guard cmpF .gt .inner Option.none .oj (.df fa) (.df fb) ==
  .df { idx := [1, 2], cols := [("a", [boolCell false, boolCell false]), ("b", [boolCell false, boolCell true]), ("c", [boolCell false, boolCell false])] }
#guard mmListF .min .inner Option.none .oj [.df fa] [.df fb] ==
  some (.df { idx := [1, 2], cols := [("a", [Option.none, Option.none]), ("b", [Option.none, some 0]), ("c", [Option.none, Option.none])] })
#guard mmListF .max .inner Option.none .ij [.df fa, .num (some 2), .ts { idx := [1, 2, 4], vals := [some 10, some 20, some 30] }] [] ==
  some (.df { idx := [1, 2], cols := [("a", [some 10, some 20]), ("b", [Option.none, some 20])] })
#guard mmListF .min .inner Option.none .ij [.df fa] [.df fx] == some (.df { idx := [1, 2], cols := [] })
-- ONE joint column beside a Series: `as_series` turns the frame into a Series (outside the hypothesis of `mmF_value`)
#guard mmListF .min .inner Option.none .ij [.df fa, .df fb, .ts { idx := [1, 2, 4], vals := [some 10, some 20, some 30] }] [] ==
  some (.ts { idx := [1, 2], vals := [Option.none, some 0] })
#guard (aggCols .ij fa [fb]).length == 1 && (aggCols .oj fa [fb]).length == 3 && mmRaises .ij [.df fa, .df fx, .ts { idx := [], vals := [] }]
#guard opList .add .outer Option.none [.ts { idx := [1, 2], vals := [some 1, some 2] }, .ts { idx := [2, 3], vals := [some 10, some 20] },
    .ts { idx := [2, 4], vals := [some 100, some 200] }, .ts { idx := [2], vals := [some 1000] }] [] ==
  some (.ts { idx := [1, 2, 3, 4], vals := [Option.none, some 1112, Option.none, Option.none] })

/-- the hypotheses of `mmF_value` hold on a mix of frames, a Series and a scalar -/
example : framesOfX [.df fa, .ts { idx := [1], vals := [some 1] }, .num (some 2), .df fb] = [fa, fb] ∧
    (∀ g, FOperand.df g ∈ [FOperand.df fa, .ts { idx := [1], vals := [some 1] }, .num (some 2), .df fb] → g.cols.length > 1) := by
  refine ⟨rfl, ?_⟩
  intro g hg
  simp only [List.mem_cons, FOperand.df.injEq, reduceCtorEq, false_or, List.not_mem_nil, or_false] at hg
  rcases hg with rfl | rfl <;> decide

/-- `XVal`: the unmasked division has infinities, the masked one has none -/
example : (XVal.div (.fin 1) (.fin 0)).isInf = true ∧ (XVal.divMasked (.fin 1) (.fin 0)).isInf = false :=
  ⟨by rw [div_unmasked_inf.1]; rfl, (div_never_inf (some 1) (some 0)).1⟩

/-- **the neutral element of a missing column is applied PER STEP of the reduction** (review t4, C08 clause 'oj'; a declared
consequence of "lists reduce left to right", not a separate rule): under `columns = 'oj'` a scalar inside the list reaches
only the columns the running result has when its turn comes.  `fa` has columns a, b; `fb` has b, c:
`add_([fa, 1, fb])` = `(fa + 1) + fb` leaves `c = fb.c` (`0 + 8`), `add_([fa, fb, 1])` = `(fa + fb) + 1` gives `c = fb.c + 1`. -/
theorem oj_neutral_per_step :
    opListF .add .inner Option.none .oj
        [.df ⟨[0], [("a", [some 1]), ("b", [some 2])]⟩, .num (some 1), .df ⟨[0], [("b", [some 4]), ("c", [some 8])]⟩] [] =
      some (.df ⟨[0], [("a", [some 2]), ("b", [some 7]), ("c", [some 8])]⟩) ∧
    opListF .add .inner Option.none .oj
        [.df ⟨[0], [("a", [some 1]), ("b", [some 2])]⟩, .df ⟨[0], [("b", [some 4]), ("c", [some 8])]⟩, .num (some 1)] [] =
      some (.df ⟨[0], [("a", [some 2]), ("b", [some 7]), ("c", [some 9])]⟩) := by
  decide +kernel

/-! ### lists that MIX Series and scalars (reviews t4 / v4: `reduce_value_n` was for Series only) -/

/-- **left to right for lists that MIX Series and scalars, by value**: `add_` / `mul_` of ANY list of at least two operands holding
at least one Series (no fill method, any index policy) is the Series on the joint index of the Series among them (`df_index`
skips scalars) whose value at `t` is the left fold `((x[t] op y[t]) op ...)` of what every operand shows at `t`
(`Operand.valAt`: a Series its own value, NaN without a row; a scalar itself) - induction over the list through
`binop_step_mixed`, not the model's own fold.  `reduce_value_n` is the case without scalars. -/
theorem reduce_value_mixed (op : Op) (hop : op = .add ∨ op = .mul) (how : How) (x y : Operand) (xs : List Operand)
    (jx : List Int) (hj : joinIndex how (indexesOf (x :: y :: xs)) = some jx) :
    opList op how Option.none (x :: y :: xs) [] =
      some (.ts { idx := jx, vals := jx.map fun t => (y :: xs).foldl (fun v s => op.appO v (s.valAt t)) (x.valAt t) }) := by
  obtain ⟨h1, h2, h3⟩ := foldl_binop_mixed op how x (y :: xs)
  rw [reduce_left op hop, List.append_nil]
  have hidx : ((y :: xs).foldl (binop op how Option.none) x).idx? = some jx := by
    rw [h1, ← hj]
    have := joinO_all how (x :: y :: xs)
    rw [List.foldl_cons] at this
    have h0 : joinO how Option.none x.idx? = x.idx? := rfl
    rw [h0] at this
    exact this
  have hn := h2 (by simp)
  cases hr : (y :: xs).foldl (binop op how Option.none) x with
  | num q => rw [hr] at hidx; cases hidx
  | ts s =>
    rw [hr] at hidx hn h3
    have hs : s.idx = jx := by simpa [Operand.idx?] using hidx
    cases s with
    | mk si sv =>
      subst hs
      congr 3
      exact hn.trans (List.map_congr_left fun t _ => h3 t)

/-- ... and a list of scalars only is the scalar left fold -/
theorem reduce_value_scalars (op : Op) (hop : op = .add ∨ op = .mul) (how : How) (p : Option Rat) (qs : List (Option Rat)) :
    opList op how Option.none ((p :: qs).map .num) [] = some (.num (qs.foldl op.appO p)) := by
  rw [List.map_cons, reduce_left op hop, List.append_nil]
  congr 1
  induction qs generalizing p with
  | nil => rfl
  | cons q qs ih =>
    have hb : binop op how Option.none (.num p) (.num q) = .num (op.appO p q) := by
      simp [binop, alignAll, indexesOf, joinIndex, kernel]
    simp only [List.map_cons, List.foldl_cons, hb]
    exact ih _

/-- `add_([a, 1, b], join='oj')`: the joint index is the union of the two Series' indices, the value `(a[t] + 1) + b[t]` -/
example (a b : RSeries) : ∃ jx, joinIndex .outer (indexesOf [.ts a, .num (some 1), .ts b]) = some jx ∧
    opList .add .outer Option.none [.ts a, .num (some 1), .ts b] [] =
      some (.ts { idx := jx, vals := jx.map fun t => Op.add.appO (Op.add.appO (valueAtR a t) (some 1)) (valueAtR b t) }) :=
  ⟨_, rfl, reduce_value_mixed .add (Or.inl rfl) .outer (.ts a) (.num (some 1)) [.ts b] _ rfl⟩

/-! ### a LIST of multi-column frames, by cell -/

/-- one step of the fold over frames with ONE header, read at every label -/
theorem binopF_step_same (op : Op) (how : How) (ch : ColHow) (a b : RFrame) (ha : a.cols.length > 1) (hn : b.names = a.names) :
    ∃ r, binopF op how Option.none ch (.df a) (.df b) = .df r ∧ r.names = a.names ∧ r.idx = join2 how a.idx b.idx ∧
      ∀ c ∈ a.names, ∀ t, cellD Option.none r Option.none c t =
        op.appO (cellD Option.none a Option.none c t) (cellD Option.none b Option.none c t) := by
  have hla : a.names.length = a.cols.length := by simp [RFrame.names]
  have hlb : b.names.length = b.cols.length := by simp [RFrame.names]
  have hb : b.cols.length > 1 := by rw [← hlb, hn, hla]; exact ha
  obtain ⟨ix, hix, h'⟩ := binopF_value op how Option.none ch a b ha hb
  have hfc : frameCols ch a b = a.names := by simp [frameCols, hn]
  have hne : a.names ≠ [] := by intro h0; rw [h0] at hla; simp at hla; omega
  have hix' : ix = join2 how a.idx b.idx := by
    rw [joinIndex_pair] at hix; exact (Option.some.inj hix).symm
  rw [hfc, if_neg hne] at h'
  refine ⟨_, h', ?_, hix', ?_⟩
  · simp [RFrame.names, List.map_map, Function.comp_def]
  · intro c hc t
    by_cases ht : t ∈ ix
    · rw [cell_of_built Option.none ix a.names
        (fun c t => op.appO (cellD (some op.neutral) a Option.none c t) (cellD (some op.neutral) b Option.none c t)) c t hc ht]
      rw [cellD_default (some op.neutral) Option.none a _ c t hc, cellD_default (some op.neutral) Option.none b _ c t (hn ▸ hc)]
    · have hcr : c ∈ RFrame.names { idx := ix, cols := a.names.map fun c => (c, ix.map fun t =>
          op.appO (cellD (some op.neutral) a Option.none c t) (cellD (some op.neutral) b Option.none c t)) } := by
        have : RFrame.names { idx := ix, cols := a.names.map fun c => (c, ix.map fun t =>
          op.appO (cellD (some op.neutral) a Option.none c t) (cellD (some op.neutral) b Option.none c t)) } = a.names := by
          simp [RFrame.names, List.map_map, Function.comp_def]
        rw [this]; exact hc
      rw [cellD_no_row _ _ c t hcr ht]
      exact (appO_outside_frames op how a b c t hc (hn ▸ hc) (hix' ▸ ht)).symm


theorem foldl_binopF_same (op : Op) (how : How) (ch : ColHow) (a : RFrame) (xs : List RFrame) (ha : a.cols.length > 1)
    (hn : ∀ f ∈ xs, f.names = a.names) :
    ∃ r, (xs.map FOperand.df).foldl (binopF op how Option.none ch) (.df a) = .df r ∧ r.names = a.names ∧
      r.idx = (xs.map (·.idx)).foldl (join2 how) a.idx ∧
      ∀ c ∈ a.names, ∀ t, cellD Option.none r Option.none c t =
        xs.foldl (fun v f => op.appO v (cellD Option.none f Option.none c t)) (cellD Option.none a Option.none c t) := by
  induction xs generalizing a with
  | nil => exact ⟨a, rfl, rfl, rfl, fun _ _ _ => rfl⟩
  | cons b xs ih =>
    obtain ⟨a', h1, h2, h3, h4⟩ := binopF_step_same op how ch a b ha (hn b (by simp))
    have ha' : a'.cols.length > 1 := by
      have e1 : a'.names.length = a'.cols.length := by simp [RFrame.names]
      have e2 : a.names.length = a.cols.length := by simp [RFrame.names]
      rw [← e1, h2, e2]; exact ha
    obtain ⟨r, g1, g2, g3, g4⟩ := ih a' ha' (fun f hf => by rw [h2]; exact hn f (by simp [hf]))
    refine ⟨r, ?_, g2.trans h2, ?_, ?_⟩
    · simp only [List.map_cons, List.foldl_cons, h1, g1]
    · simp only [List.map_cons, List.foldl_cons, g3, h3]
    · intro c hc t
      simp only [List.foldl_cons, g4 c (h2 ▸ hc) t, h4 c hc t]

/-- **lists of multi-column frames reduce left to right, BY CELL** (`reduce_value_frames`, open since round h4): `add_` / `mul_` of
a list of at least two frames that carry ONE header of several columns (the everyday case; no fill method, ANY index policy, any
column policy) is a frame with that header on the joint index of ALL frames (`joinIndex` of the list) whose cell `(t, c)`, read by
label at EVERY `t` (NaN where it has no row), is the LEFT fold `((x[t,c] op y[t,c]) op ...)` of the frames' own cells - induction
through `binopF_step_same` (one presync-decorated step read at every label), not the model's fold.  With DIFFERENT headers no
plain cell-wise fold holds: under `'ij'` an intermediate one-column result is broadcast, under `lj` / `rj` + `'oj'` a column only
an earlier frame has keeps `x op neutral` at labels the intermediate result has no row for (notes, round k4). -/
theorem reduce_value_frames (op : Op) (hop : op = .add ∨ op = .mul) (how : How) (ch : ColHow) (x y : RFrame) (xs : List RFrame)
    (hx : x.cols.length > 1) (hn : ∀ f ∈ y :: xs, f.names = x.names) :
    ∃ r, opListF op how Option.none ch ((x :: y :: xs).map .df) [] = some (.df r) ∧ r.names = x.names ∧
      joinIndex how ((x :: y :: xs).map (·.idx)) = some r.idx ∧
      ∀ c ∈ x.names, ∀ t, cellD Option.none r Option.none c t =
        (y :: xs).foldl (fun v f => op.appO v (cellD Option.none f Option.none c t)) (cellD Option.none x Option.none c t) := by
  obtain ⟨r, h1, h2, h3, h4⟩ := foldl_binopF_same op how ch x (y :: xs) hx hn
  refine ⟨r, ?_, h2, ?_, h4⟩
  · rw [List.map_cons, reduce_left_frames op hop, List.append_nil, h1]
  · rw [h3, List.map_cons]; exact joinIndex_fold how x.idx ((y :: xs).map (·.idx))

example : ∃ r, opListF .add .outer Option.none .ij
    ([{ idx := [0, 1], cols := [("a", [some 1, some 2]), ("b", [some 3, Option.none])] },
      { idx := [1, 2], cols := [("a", [some 10, some 20]), ("b", [some 30, some 40])] },
      { idx := [1], cols := [("a", [some 100]), ("b", [some 300])] }].map .df) [] = some (.df r) ∧ r.names = ["a", "b"] ∧
    joinIndex .outer [[0, 1], [1, 2], [1]] = some r.idx := by
  obtain ⟨r, h1, h2, h3, _⟩ := reduce_value_frames .add (Or.inl rfl) .outer .ij
    { idx := [0, 1], cols := [("a", [some 1, some 2]), ("b", [some 3, Option.none])] }
    { idx := [1, 2], cols := [("a", [some 10, some 20]), ("b", [some 30, some 40])] }
    [{ idx := [1], cols := [("a", [some 100]), ("b", [some 300])] }] (by decide) (by decide)
  exact ⟨r, h1, h2, h3⟩

/-! ### commutativity for LISTS (open since round r4) -/

/-- **add_ / mul_ of a LIST do not depend on the order of the operands, by value**: for two lists of Series and scalars that are
permutations of one another (at least two operands, no fill method, any index policy) the two results show the same value at
EVERY label `t` (`Operand.valAt`: NaN outside the result's index).  Under `ij` / `oj` the indices are the same SET as well
(`binop_index_inner / _outer`); under `lj` / `rj` the result index is the first / last operand's, so the values agree on the
labels both results have and are NaN elsewhere.  SCOPE (round l4, review w4 F1): the model's scalars are NUMBERS; of the code this was
false for scalars spelled as narrow numpy integers (`mul_([np.int8(100), np.int8(100), s])` was `16 * s`: numpy's scalar arithmetic wraps
around before the Series is met) until repo fix 2068b44 reads them with `int()`; npx lines check the order-independence on the
implementation.  Narrow numpy FLOATS among themselves (float16 overflow, float32 rounding) stay outside (float rounding).  Proof: `foldl_binop_mixed` + `List.Perm.foldl_eq'` with `appO_right_comm`. -/
theorem reduce_perm_value (op : Op) (hop : op = .add ∨ op = .mul) (how : How) (x y x' y' : Operand) (xs xs' : List Operand)
    (hp : (x :: y :: xs).Perm (x' :: y' :: xs')) (r r' : Operand)
    (h : opList op how Option.none (x :: y :: xs) [] = some r) (h' : opList op how Option.none (x' :: y' :: xs') [] = some r') (t : Int) :
    r.valAt t = r'.valAt t := by
  rw [reduce_left op hop, List.append_nil] at h h'
  cases h; cases h'
  rw [(foldl_binop_mixed op how x (y :: xs)).2.2 t, (foldl_binop_mixed op how x' (y' :: xs')).2.2 t]
  have e : ∀ (z : Operand) (zs : List Operand), zs.foldl (fun v s => op.appO v (s.valAt t)) (z.valAt t) =
      ((z :: zs).map (·.valAt t)).foldl op.appO (some op.neutral) := by
    intro z zs
    rw [List.map_cons, ← fold_from_neutral op hop, List.foldl_map]
  rw [e, e]
  exact List.Perm.foldl_eq' (hp.map _) (fun a _ b _ v => appO_right_comm op hop v a b) _

end Pyg.Props.C08
