import PygModel.LiftX
import PygModel.Txt
import PygProofs.Lemmas.LiftXLemmas

namespace Pyg.Props.C19
open Pyg

/-! ## MODEL EXTENSION — beyond the property text ("any nesting of lists, tuples and dicts")

`wrappedX T f` (PygModel/LiftX.lean) models `loops(types = T)._wrapped` with ALL its branches: dict subclasses
(class tag), Series, DataFrame (by column or, with `axis`, by row), 2-d ndarray (by its last axis), and the pandas /
numpy branches of the companion selection.  The property text does not speak of these: a disagreement of the real
code with the theorems below is a DIVERGENCE, not a violation — unless it is about plain lists / tuples / dicts,
where `liftx_refines` makes the extended model coincide with the model of the statement. -/

/-- **Refinement.** On plain values (lists, tuples, `dict`s, cells) the extended model, for ANY type set holding
list, tuple and dict (`loop(list, tuple, dict)`, `loops(types = (list, tuple, dict))`, `loop_all`), is the model
`wrapped` that the theorems of the statement are about. -/
theorem liftx_refines (T : LoopTypes) (f' : XLeafFn) (f : LeafFn) (hl : T.list = true) (ht : T.tuple = true)
    (hd : T.dicts.contains 0 = true) (hf : Extends f' f) (v : Val) (args : List Val) (kw : KW) :
    wrappedX T f' v.emb (Val.embList args) (Val.embKVs kw) = (wrapped f v args kw).map Val.emb :=
  wrappedX_embed_aux T f' f hl ht hd hf v args kw

/-- the three decorators of the library satisfy the hypotheses, and the recording functions of the two drivers are
related by `Extends` up to the record constructor (non-vacuity: the identity leaf) -/
example : Extends identX (fun a _ _ => .ok a) := by intro a args kw; simp [identX, Except.map]
example : LoopTypes.ltd.list = true ∧ LoopTypes.ltd.tuple = true ∧ LoopTypes.ltd.dicts.contains 0 = true ∧
    LoopTypes.ltdPlain.dicts.contains 0 = true ∧ LoopTypes.all.dicts.contains 0 = true := by decide

/-- `loops.wrapped` (first argument positional or by keyword) refines too -/
theorem liftx_call_refines (T : LoopTypes) (f' : XLeafFn) (f : LeafFn) (hl : T.list = true) (ht : T.tuple = true)
    (hd : T.dicts.contains 0 = true) (hf : Extends f' f) (top : String) (args : List Val) (kw : KW) :
    callLiftedX T f' top (Val.embList args) (Val.embKVs kw) = (callLifted f top args kw).map Val.emb := by
  have htop : ∀ (v : Val) (as : List Val) (k : KW),
      topX T f' v.emb (Val.embList as) (Val.embKVs k) = (wrapped f v as k).map Val.emb := by
    intro v as k
    have := wrappedX_embed_aux T f' f hl ht hd hf v as k
    cases v <;> simpa [topX, Val.emb] using this
  cases args with
  | cons a rest => simpa [callLiftedX, callLifted, Val.embList] using htop a rest kw
  | nil =>
    have hlk : (Val.embKVs kw).lookup top = (kw.lookup top).map Val.emb := by
      induction kw with
      | nil => simp [Val.embKVs]
      | cons p kw ih =>
        obtain ⟨k, v⟩ := p
        by_cases hk : top = k
        · subst hk; simp [Val.embKVs, List.lookup]
        · have : (top == k) = false := by simpa using hk
          simp [Val.embKVs, List.lookup, this, ih]
    have hfl : (Val.embKVs kw).filter (fun p => p.1 != top) = Val.embKVs (kw.filter fun p => p.1 != top) := by
      simp [embKVs_eq_map, List.filter_map, Function.comp_def]
    simp only [callLiftedX, callLifted, Val.embList, hlk]
    cases h : kw.lookup top with
    | none => simp [Except.map]
    | some v =>
      simp only [Option.map, hfl]
      have := htop v [] (kw.filter fun p => p.1 != top)
      simpa [Val.embList] using this

/-- **Compositionality of the extended model**: the result at any position `p` (a path through containers that
`T` loops over) is the lifted call on the sub-structure at `p` with the selected companions; `axis` is consumed by
the outermost level (`kwAt`). -/
theorem liftx_sub (T : LoopTypes) (f : XLeafFn) : ∀ (p : Path) (v : XVal) (args : List XVal) (kw : XKW) (r v' : XVal),
    wrappedX T f v args kw = .ok r → v.atT T p = some v' →
    ∃ r', r.atT T p = some r' ∧
      wrappedX T f v' (args.map (selectX T v p)) (mapXKW (selectX T v p) (kwAt p kw)) = .ok r'
  | [], v, args, kw, r, v', h, hp => by
      simp [XVal.atT] at hp
      subst hp
      refine ⟨r, by simp [XVal.atT], ?_⟩
      have : (selectX T v []) = fun c => c := by funext c; simp [selectX]
      rw [this, mapXKW_id, List.map_id']
      exact h
  | s :: p, v, args, kw, r, v', h, hp => by
      simp only [XVal.atT] at hp
      split at hp
      case h_2 => cases hp
      case h_1 c hc =>
      have hsel : ∀ g : XVal → XVal, (∀ x, g x = selStepX v s x) →
          (selectX T v (s :: p)) = (selectX T c p) ∘ g := by
        intro g hg; funext x; simp [selectX, hc, hg]
      have hkw : ∀ (g : XVal → XVal), mapXKW (selectX T c p) (kwAt p (mapXKW g (dropAxisX kw)))
          = mapXKW (selectX T c p) (mapXKW g (dropAxisX kw)) := by
        intro g
        cases p with
        | nil => rfl
        | cons _ _ => simp [kwAt, dropAxisX_mapXKW, dropAxisX_idem]
      cases v with
      | cell a => simp [XVal.childT] at hc
      | obj a => simp [XVal.childT] at hc
      | arr1 a => simp [XVal.childT] at hc
      | arr2 a b => simp [XVal.childT] at hc
      | ser a b => simp [XVal.childT] at hc
      | frame a b c => simp [XVal.childT] at hc
      | list xs =>
        cases s with
        | key k => simp [XVal.childT] at hc
        | idx i =>
          simp only [XVal.childT] at hc
          split at hc
          case isFalse => cases hc
          case isTrue hl =>
          rw [wrappedX] at h
          simp only [hl, if_true] at h
          split at h
          · cases h
          · rename_i ys hys
            cases h
            obtain ⟨_, hget⟩ := wrappedXSeq_get xs 0 args (dropAxisX kw) ys hys
            obtain ⟨y, hy1, hy2⟩ := hget i c hc
            obtain ⟨r', hr1, hr2⟩ := liftx_sub T f p c _ _ y v' hy2 hp
            refine ⟨r', by simp [XVal.atT, XVal.childT, hl, hy1, hr1], ?_⟩
            rw [hsel (itemByIX i xs.length) (by intro x; simp [selStepX])]
            rw [← mapXKW_mapXKW, ← List.map_map]
            rw [hkw] at hr2
            simpa [kwAt] using hr2
      | tuple xs =>
        cases s with
        | key k => simp [XVal.childT] at hc
        | idx i =>
          simp only [XVal.childT] at hc
          split at hc
          case isFalse => cases hc
          case isTrue hl =>
          rw [wrappedX] at h
          simp only [hl, if_true] at h
          split at h
          · cases h
          · rename_i ys hys
            cases h
            obtain ⟨_, hget⟩ := wrappedXSeq_get xs 0 args (dropAxisX kw) ys hys
            obtain ⟨y, hy1, hy2⟩ := hget i c hc
            obtain ⟨r', hr1, hr2⟩ := liftx_sub T f p c _ _ y v' hy2 hp
            refine ⟨r', by simp [XVal.atT, XVal.childT, hl, hy1, hr1], ?_⟩
            rw [hsel (itemByIX i xs.length) (by intro x; simp [selStepX])]
            rw [← mapXKW_mapXKW, ← List.map_map]
            rw [hkw] at hr2
            simpa [kwAt] using hr2
      | dict cls kvs =>
        cases s with
        | idx i => simp [XVal.childT] at hc
        | key k =>
          simp only [XVal.childT] at hc
          split at hc
          case isFalse => cases hc
          case isTrue hl =>
          rw [wrappedX] at h
          simp only [hl, if_true] at h
          split at h
          · cases h
          · rename_i ys hys
            cases h
            obtain ⟨_, hget⟩ := wrappedXKVs_lookup kvs args (dropAxisX kw) ys hys
            obtain ⟨y, hy1, hy2⟩ := hget k c hc
            obtain ⟨r', hr1, hr2⟩ := liftx_sub T f p c _ _ y v' hy2 hp
            have hl' : cls ∈ T.dicts := by simpa using hl
            refine ⟨r', by simp [XVal.atT, XVal.childT, hl', hy1, hr1], ?_⟩
            rw [hsel (itemByKeyX k (sortStr (xkeysOf kvs)) Option.none) (by intro x; simp [selStepX])]
            rw [← mapXKW_mapXKW, ← List.map_map]
            rw [hkw] at hr2
            simpa [kwAt] using hr2

/-- **Dict subclasses keep their class** (`type(arg)(res)`, _loop.py:211): wherever the argument holds a dict of a
class the decorator loops over — for the `loop` factory that is `dict`, `Dict`, `dictattr`, `OrderedDict` — the
result holds a dict of the SAME class with the same keys in the same order. -/
theorem lift_keeps_class (T : LoopTypes) (f : XLeafFn) (v : XVal) (args : List XVal) (kw : XKW) (r : XVal) (p : Path)
    (cls : Nat) (kvs : XKW) (h : wrappedX T f v args kw = .ok r) (hp : v.atT T p = some (.dict cls kvs))
    (hc : T.dicts.contains cls = true) :
    ∃ rs, r.atT T p = some (.dict cls rs) ∧ xkeysOf rs = xkeysOf kvs := by
  obtain ⟨r', h1, h2⟩ := liftx_sub T f p v args kw r _ h hp
  rw [wrappedX] at h2
  simp only [hc, if_true] at h2
  split at h2
  · cases h2
  · rename_i ys hys
    cases h2
    exact ⟨ys, h1, (wrappedXKVs_lookup kvs _ _ ys hys).1⟩

/-- … lists stay lists and tuples stay tuples, of the same length (the extended model keeps the shape clauses) … -/
theorem liftx_shape_seq (T : LoopTypes) (f : XLeafFn) (v : XVal) (args : List XVal) (kw : XKW) (r : XVal) (p : Path)
    (xs : List XVal) (h : wrappedX T f v args kw = .ok r) :
    (T.list = true → v.atT T p = some (.list xs) → ∃ ys, r.atT T p = some (.list ys) ∧ ys.length = xs.length) ∧
    (T.tuple = true → v.atT T p = some (.tuple xs) → ∃ ys, r.atT T p = some (.tuple ys) ∧ ys.length = xs.length) := by
  constructor
  · intro hl hp
    obtain ⟨r', h1, h2⟩ := liftx_sub T f p v args kw r _ h hp
    rw [wrappedX] at h2
    simp only [hl, if_true] at h2
    split at h2
    · cases h2
    · rename_i ys hys
      cases h2
      exact ⟨ys, h1, (wrappedXSeq_get xs 0 _ _ ys hys).1⟩
  · intro hl hp
    obtain ⟨r', h1, h2⟩ := liftx_sub T f p v args kw r _ h hp
    rw [wrappedX] at h2
    simp only [hl, if_true] at h2
    split at h2
    · cases h2
    · rename_i ys hys
      cases h2
      exact ⟨ys, h1, (wrappedXSeq_get xs 0 _ _ ys hys).1⟩

/-- **Leaves of the extended model**: a value the decorator does not loop over — in particular a dict of a class
that is not among the looped types (a user subclass, `defaultdict`; every subclass for `loops(types = (…, dict))`
used without the factory) — is handed to `f` WHOLE, with the selected companions. -/
theorem liftx_leaves (T : LoopTypes) (f : XLeafFn) (v : XVal) (args : List XVal) (kw : XKW) (r : XVal) (p : Path)
    (v' : XVal) (h : wrappedX T f v args kw = .ok r) (hp : v.atT T p = some v') (hleaf : v'.leafFor T = true) :
    ∃ y, f v' (args.map (selectX T v p)) (mapXKW (selectX T v p) (dropAxisX kw)) = .ok y ∧ r.atT T p = some y := by
  obtain ⟨r', h1, h2⟩ := liftx_sub T f p v args kw r _ h hp
  refine ⟨r', ?_, h1⟩
  have hk : dropAxisX (kwAt p kw) = dropAxisX kw := by
    cases p <;> simp [kwAt, dropAxisX_idem]
  cases v' <;> simp_all [wrappedX, XVal.leafFor, dropAxisX_mapXKW]

/-- the factory (`_dict.py:163-173`): `loop(list, tuple, dict)` loops over `Dict`, `dictattr` and `OrderedDict` too and
keeps their class; `loops(types = (list, tuple, dict))` and user subclasses: leaves -/
theorem loop_factory_classes :
    (∀ cls, LoopTypes.ltd.dicts.contains cls = true ↔ cls = 0 ∨ cls = 1 ∨ cls = 2 ∨ cls = 3) ∧
    (∀ cls, LoopTypes.ltdPlain.dicts.contains cls = true ↔ cls = 0) ∧
    LoopTypes.all.dicts = LoopTypes.ltd.dicts := by
  refine ⟨?_, ?_, rfl⟩
  · intro cls; simp [LoopTypes.ltd]; omega
  · intro cls; simp [LoopTypes.ltdPlain]

/-- non-vacuity of `lift_keeps_class` / `liftx_leaves`: `[Dict(b = 1, a = MyDict(x = 2))]` -/
example :
    let v : XVal := .list [.dict 1 [("b", .cell (.int 1)), ("a", .dict 4 [("x", .cell (.int 2))])]]
    v.atT .ltd [.idx 0] = some (.dict 1 [("b", .cell (.int 1)), ("a", .dict 4 [("x", .cell (.int 2))])]) ∧
      v.atT .ltd [.idx 0, .key "a"] = some (.dict 4 [("x", .cell (.int 2))]) ∧
      (XVal.dict 4 [("x", .cell (.int 2))]).leafFor .ltd = true ∧ v.atT .ltd [.idx 0, .key "a", .key "x"] = Option.none := by
  refine ⟨?_, ?_, ?_, ?_⟩ <;> rfl

/-! ### Series, DataFrame, ndarray as the looped argument -/

/-- **A Series that is not a timeseries is looped by label** (`loops.wrapped`, top level only): the result is a
Series with the same labels in the same order whose value at label `k` is the lifted call on the value at `k`, with
the companions selected BY KEY (`_item_by_key` without a position). -/
theorem liftx_series (T : LoopTypes) (f : XLeafFn) (top : String) (ks : List String) (xs args : List XVal) (kw : XKW)
    (r : XVal) (hT : T.series = true) (hwf : ks.length = xs.length)
    (h : callLiftedX T f top (.ser ks xs :: args) kw = .ok r) :
    ∃ ys, r = .ser ks ys ∧ ys.length = xs.length ∧ ∀ (j : Nat) (k : String) (x : XVal), ks[j]? = some k → xs[j]? = some x →
      ∃ y, ys[j]? = some y ∧
        wrappedX T f x (args.map (itemByKeyX k (sortStr ks) Option.none))
          (mapXKW (itemByKeyX k (sortStr ks) Option.none) kw) = .ok y := by
  simp only [callLiftedX, topX, hT, if_true] at h
  split at h
  · cases h
  · rename_i ys hys
    cases h
    obtain ⟨h1, h2⟩ := serCalls_get ks xs args kw ys hwf hys
    exact ⟨ys, rfl, h1, h2⟩

/-- below the top level (and when `pd.Series` is not among the types) a Series is a leaf -/
theorem liftx_series_leaf (T : LoopTypes) (f : XLeafFn) (ks : List String) (xs args : List XVal) (kw : XKW) :
    wrappedX T f (.ser ks xs) args kw = f (.ser ks xs) args (dropAxisX kw) := by
  simp [wrappedX]

/-- every leaf call returns an opaque object (the recording function does) -/
def OpaqueResults (f : XLeafFn) : Prop := ∀ a args kw y, f a args kw = .ok y → y.isObj = true

theorem all_isObj_of_get {ys : List XVal} (h : ∀ (j : Nat) (y : XVal), ys[j]? = some y → y.isObj = true) : ys.all XVal.isObj = true := by
  rw [List.all_eq_true]
  intro y hy
  obtain ⟨j, hj⟩ := List.getElem?_of_mem hy
  exact h j y hj

/-- **A DataFrame is looped by column** (`axis` absent or not 1 / -1): one leaf call per column, in column order,
on the column as a Series; companions selected by the column LABEL and its POSITION.  With a function that returns
opaque results the result is a Series labelled by the columns. -/
theorem liftx_frame_by_column (T : LoopTypes) (f : XLeafFn) (idx cols : List String) (rows : List (List Cell))
    (args : List XVal) (kw : XKW) (r : XVal) (hT : T.frame = true) (hax : axisIs1 kw = false) (hne : cols ≠ [])
    (hf : OpaqueResults f) (h : wrappedX T f (.frame idx cols rows) args kw = .ok r) :
    ∃ ys, r = .ser cols ys ∧ ys.length = cols.length ∧ ∀ (j : Nat) (c : String), cols[j]? = some c →
      ∃ y, ys[j]? = some y ∧
        f (frameCol idx rows j) (args.map (itemByKeyX c (sortStr cols) (some j)))
          (mapXKW (itemByKeyX c (sortStr cols) (some j)) (dropAxisX kw)) = .ok y := by
  simp only [wrappedX, hT, if_true, hax, loopFrame, Bool.false_eq_true, if_false] at h
  split at h
  · cases h
  · split at h
    · cases h
    · rename_i ys hys
      obtain ⟨h1, h2⟩ := frameCalls_get cols 0 args (dropAxisX kw) ys hys
      have hobj : ys.all XVal.isObj = true := by
        apply all_isObj_of_get
        intro j y hj
        have hlt : j < cols.length := by
          have := (List.getElem?_eq_some_iff.1 hj).1; omega
        obtain ⟨y', hy1, hy2⟩ := h2 j cols[j] (List.getElem?_eq_getElem hlt)
        rw [hj] at hy1; cases hy1
        exact hf _ _ _ _ hy2
      have hemp : ys.isEmpty = false := by
        cases ys with
        | nil => cases cols with
          | nil => exact absurd rfl hne
          | cons _ _ => simp at h1
        | cons _ _ => rfl
      simp only [toFrame, hemp, hobj, if_true] at h
      cases h
      refine ⟨ys, rfl, h1, ?_⟩
      intro j c hc
      obtain ⟨y, hy1, hy2⟩ := h2 j c hc
      exact ⟨y, hy1, by simpa [frameCol] using hy2⟩

/-- **… or by row** (`axis = 1` or `-1`): the frame AND every companion are transposed (`loops.T`), the rows are
looped like columns, and the result is labelled by the index. -/
theorem liftx_frame_by_row (T : LoopTypes) (f : XLeafFn) (idx cols : List String) (rows : List (List Cell))
    (args : List XVal) (kw : XKW) (r : XVal) (hT : T.frame = true) (hax : axisIs1 kw = true) (hne : idx ≠ [])
    (hf : OpaqueResults f) (h : wrappedX T f (.frame idx cols rows) args kw = .ok r) :
    ∃ ys, r = .ser idx ys ∧ ys.length = idx.length ∧ ∀ (j : Nat) (i : String), idx[j]? = some i →
      ∃ y, ys[j]? = some y ∧
        f (frameCol cols (transposeRows cols.length rows) j) ((args.map tX).map (itemByKeyX i (sortStr idx) (some j)))
          (mapXKW (itemByKeyX i (sortStr idx) (some j)) (mapXKW tX (dropAxisX kw))) = .ok y := by
  simp only [wrappedX, hT, if_true, hax, loopFrameT] at h
  split at h
  · cases h
  · rename_i r0 hr0
    cases h
    have hw : wrappedX T f (.frame cols idx (transposeRows cols.length rows)) (tXList args) (tXKVs (dropAxisX kw)) = .ok r0 := by
      simp only [wrappedX, hT, if_true]
      have : axisIs1 (tXKVs (dropAxisX kw)) = false := by
        rw [tXKVs_eq_map, ← dropAxisX_mapXKW]; exact axisIs1_dropAxisX _
      simp only [this]
      have e : dropAxisX (tXKVs (dropAxisX kw)) = tXKVs (dropAxisX kw) := by
        rw [tXKVs_eq_map, dropAxisX_mapXKW, dropAxisX_idem]
      rw [e]; exact hr0
    have hax0 : axisIs1 (tXKVs (dropAxisX kw)) = false := by
      rw [tXKVs_eq_map, ← dropAxisX_mapXKW]; exact axisIs1_dropAxisX _
    obtain ⟨ys, rfl, h1, h2⟩ := liftx_frame_by_column T f cols idx _ _ _ r0 hT hax0 hne hf hw
    refine ⟨ys, by simp [tX, relabel, h1], h1, ?_⟩
    intro j i hi
    obtain ⟨y, hy1, hy2⟩ := h2 j i hi
    refine ⟨y, hy1, ?_⟩
    rw [tXList_eq_map, tXKVs_eq_map, dropAxisX_mapXKW, dropAxisX_idem] at hy2
    exact hy2

/-- **A 2-d ndarray is looped by its last axis**: one leaf call per column, on the column as a 1-d array (for a
one-column array: on the squeezed column, see `itemByIX`), companions selected BY POSITION with `_item_by_i`; with
opaque results the result is a 1-d array of them.  A 1-d array is a leaf. -/
theorem liftx_array_by_column (T : LoopTypes) (f : XLeafFn) (nc : Nat) (rows : List (List Cell))
    (args : List XVal) (kw : XKW) (r : XVal) (hT : T.array = true) (hax : axisIs1 kw = false)
    (hf : OpaqueResults f) (h : wrappedX T f (.arr2 nc rows) args kw = .ok r) :
    ∃ ys, r = .arr1 ys ∧ ys.length = nc ∧ ∀ j, j < nc →
      ∃ y, ys[j]? = some y ∧
        f (itemByIX j nc (.arr2 nc rows)) (args.map (itemByIX j nc)) (mapXKW (itemByIX j nc) (dropAxisX kw)) = .ok y := by
  simp only [wrappedX, hT, if_true, hax, loopArr, Bool.false_eq_true, if_false] at h
  split at h
  · cases h
  · rename_i ys hys
    obtain ⟨h1, h2⟩ := arrCalls_get nc 0 args (dropAxisX kw) ys hys
    have hobj : ys.all XVal.isObj = true := by
      apply all_isObj_of_get
      intro j y hj
      have hlt : j < nc := by
        have := (List.getElem?_eq_some_iff.1 hj).1; omega
      obtain ⟨y', hy1, hy2⟩ := h2 j hlt
      rw [hj] at hy1; cases hy1
      exact hf _ _ _ _ hy2
    simp only [toArr, hobj, if_true] at h
    cases h
    refine ⟨ys, rfl, h1, ?_⟩
    intro j hj
    obtain ⟨y, hy1, hy2⟩ := h2 j hj
    exact ⟨y, hy1, by simpa using hy2⟩

theorem liftx_array_column (nc : Nat) (rows : List (List Cell)) (j : Nat) (h : nc ≠ 1) :
    itemByIX j nc (.arr2 nc rows) = .arr1 (colOf rows j) := by
  simp [itemByIX, h]

theorem liftx_array1_leaf (T : LoopTypes) (f : XLeafFn) (xs args : List XVal) (kw : XKW) :
    wrappedX T f (.arr1 xs) args kw = f (.arr1 xs) args (dropAxisX kw) := by
  simp [wrappedX]

/-- the recording function returns opaque results; non-vacuity of the three theorems above on a 2x2 frame -/
theorem recorderX_opaque : OpaqueResults recorderX := by
  intro a args kw y h
  simp only [recorderX] at h
  split at h
  · split at h
    · cases h
    · split at h
      · cases h
      · split at h
        · cases h
        · cases h; rfl
  · cases h; rfl

/-- the hypotheses of the three theorems are satisfiable (the recording function, `loop_all`, `axis = 1`); concrete
evaluations of the model are what the correspondence run compares with pandas / numpy -/
example : OpaqueResults recorderX ∧ axisIs1 [("axis", .cell (.int 1))] = true ∧ axisIs1 [("b", .cell (.int 1))] = false ∧
    LoopTypes.all.frame = true ∧ LoopTypes.all.array = true ∧ LoopTypes.all.series = true :=
  ⟨recorderX_opaque, rfl, rfl, rfl, rfl, rfl⟩

/-! ### companion selection: pandas / numpy companions of the looped length are INDEXED, not broadcast -/

/-- `_item_by_i`: a 1-d array or a (non-timeseries) Series of the looped length gives its `i`-th element, a 2-d
array / DataFrame with that many columns (and more than one) its `i`-th column — for a looped list or tuple just
as for a looped array … -/
theorem sel_by_position_indexed (i n : Nat) (xs : List XVal) (ks idx cols : List String) (nc : Nat)
    (rows : List (List Cell)) (hx : xs.length = n) (hnc : nc = n) (hcols : cols.length = n) (h1 : n ≠ 1) :
    itemByIX i n (.arr1 xs) = xgetIdx xs i ∧ itemByIX i n (.ser ks xs) = xgetIdx xs i ∧
    itemByIX i n (.arr2 nc rows) = .arr1 (colOf rows i) ∧
    itemByIX i n (.frame idx cols rows) = .ser idx (colOf rows i) := by
  subst hnc
  simp [itemByIX, hx, hcols, h1]

/-- … of any other length it is passed whole … -/
theorem sel_by_position_other (i n : Nat) (xs : List XVal) (ks idx cols : List String) (nc : Nat)
    (rows : List (List Cell)) (hx : xs.length ≠ n) (hnc : nc ≠ n) (hcols : cols.length ≠ n) (h1 : nc ≠ 1)
    (h2 : cols.length ≠ 1) :
    itemByIX i n (.arr1 xs) = .arr1 xs ∧ itemByIX i n (.ser ks xs) = .ser ks xs ∧
    itemByIX i n (.arr2 nc rows) = .arr2 nc rows ∧
    itemByIX i n (.frame idx cols rows) = .frame idx cols rows := by
  simp [itemByIX, hx, hnc, hcols, h1, h2]

/-- … except that a ONE-column DataFrame / 2-d array is squeezed first: with the looped number of rows it is
indexed by row, otherwise it arrives as its column (a Series / 1-d array — not the object that was passed). -/
theorem sel_by_position_squeezed (i n : Nat) (idx : List String) (c : String) (rows : List (List Cell)) :
    (rows.length = n → itemByIX i n (.frame idx [c] rows) = xgetIdx (colOf rows 0) i ∧
                        itemByIX i n (.arr2 1 rows) = xgetIdx (colOf rows 0) i) ∧
    (rows.length ≠ n → itemByIX i n (.frame idx [c] rows) = .ser idx (colOf rows 0) ∧
                        itemByIX i n (.arr2 1 rows) = .arr1 (colOf rows 0)) := by
  constructor <;> intro h <;> simp [itemByIX, h]

/-- `_item_by_key`: a Series with the looped labels is matched by label, a DataFrame with the looped labels as its
columns gives the column, as its index the row — in dict, Series and DataFrame loops alike … -/
theorem sel_by_key_labels (k : String) (keys ks idx cols : List String) (pos : Option Nat) (xs : List XVal)
    (rows : List (List Cell)) :
    (sortStr ks = keys → itemByKeyX k keys pos (.ser ks xs) = xgetIdx xs (ks.idxOf k)) ∧
    (sortStr cols = sortStr keys → itemByKeyX k keys pos (.frame idx cols rows) = .ser idx (colOf rows (cols.idxOf k))) ∧
    (sortStr cols ≠ sortStr keys → sortStr idx = sortStr keys →
      itemByKeyX k keys pos (.frame idx cols rows) = .ser cols (rowOf rows (idx.idxOf k))) := by
  refine ⟨?_, ?_, ?_⟩ <;> intro h <;> simp [itemByKeyX, h]

/-- … and ONLY the DataFrame loop hands the position on: there a list / tuple / 1-d array of the looped length is
indexed by position and a 2-d array with that many columns gives its column, whereas in a dict or Series loop
(`pos = none`) lists, tuples and arrays are passed whole whatever their length. -/
theorem sel_by_key_position (k : String) (keys : List String) (i : Nat) (xs : List XVal) (nc : Nat)
    (rows : List (List Cell)) (hx : xs.length = keys.length) (hnc : nc = keys.length) :
    itemByKeyX k keys (some i) (.list xs) = xgetIdx xs i ∧ itemByKeyX k keys (some i) (.tuple xs) = xgetIdx xs i ∧
    itemByKeyX k keys (some i) (.arr1 xs) = xgetIdx xs i ∧ itemByKeyX k keys (some i) (.arr2 nc rows) = .arr1 (colOf rows i) ∧
    itemByKeyX k keys Option.none (.list xs) = .list xs ∧ itemByKeyX k keys Option.none (.tuple xs) = .tuple xs ∧
    itemByKeyX k keys Option.none (.arr1 xs) = .arr1 xs ∧ itemByKeyX k keys Option.none (.arr2 nc rows) = .arr2 nc rows := by
  simp [itemByKeyX, hx, hnc]

/-- a Series / DataFrame of the looped LENGTH whose labels are not the looped ones makes the DataFrame loop raise
KeyError (`value[i]` with an integer on string labels), before any leaf call -/
theorem frame_loop_keyerror (T : LoopTypes) (f : XLeafFn) (idx cols : List String) (rows : List (List Cell))
    (c : XVal) (args : List XVal) (kw : XKW) (hT : T.frame = true) (hax : axisIs1 kw = false) (hne : cols ≠ [])
    (hc : keySelRaises (sortStr cols) c = true) :
    wrappedX T f (.frame idx cols rows) (c :: args) kw = .error .key := by
  have : cols.isEmpty = false := by cases cols <;> simp_all
  simp [wrappedX, hT, hax, loopFrame, this, hc]

example : keySelRaises (sortStr ["x", "y"]) (.ser ["p", "q"] [.cell (.int 1), .cell (.int 2)]) = true := by decide +kernel

end Pyg.Props.C19
