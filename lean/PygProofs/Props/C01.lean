/-
  C01 — dictable behaves as a rectangular list of records under any operation history.
  Property theorems only (helper lemmas: PygProofs/Lemmas/TableLemmas.lean, TableRect.lean, TableRows.lean).

  The model is the history machine `step : Heap → Op → Heap × Out` of PygModel/Table.lean; `run` folds it
  over an operation list.  Clauses of the property text and the theorems that state them:
    * every column has the same length, after any history ........ `rect_step`, `rect_run`
    * len() and shape agree with it ................................ `len_shape`
    * d[i][c] == d[c][i] ........................................... `cell_comm`
    * iteration yields exactly those rows ........................... `iter_rows`
    * row indexing / slicing / masking / int lists = list-of-records operations
                                                                      `mask_rows`, `take_rows`, `slice_rows` (+ `sliceIdx` facts)
    * concatenation appends rows in order, absent columns None ...... `concat_col`, `concat_rows`
    * operations returning a new table never alter their operands ... `frame_step`
    * a non-fitting assignment is rejected with ValueError and leaves the table rectangular
                                                                      `setitem_reject`, `setitem_reject_step`, `err_unchanged`
-/
import PygProofs.Lemmas.TableRows

namespace Pyg.Props.C01
open Pyg Table

/-! ### the history invariant -/

/-- one operation keeps every live table rectangular (also when it raises) -/
theorem rect_step (s : Heap) (op : Op) (hs : HeapRect s) : HeapRect (step s op).1 := by
  cases op with
  | new dst data columns kwargs =>
    simp only [step]
    split
    · rename_i r hr
      apply hs.bind
      intro t ht; subst ht
      exact construct_rect hr
    · exact hs
  | setitem h k v =>
    simp only [step]
    split
    · rename_i t ht
      split
      · rename_i t' hs'
        obtain ⟨n, hn⟩ := hs.get ht
        exact hs.set h (setitem_rect hn hs')
      · exact hs
    · exact hs
  | delitem h k =>
    simp only [step]
    split
    · rename_i t ht
      split
      · rename_i t' hs'
        obtain ⟨n, hn⟩ := hs.get ht
        unfold delitem at hs'
        split at hs'
        · cases hs'; exact hs.set h ⟨n, erase_rect k hn⟩
        · cases hs'
      · exact hs
    · exact hs
  | update h kvs =>
    simp only [step]
    split
    · rename_i t ht
      obtain ⟨n, hn⟩ := hs.get ht
      have hu := update_rect kvs hn
      split <;> (rename_i heq; rw [heq] at hu; exact hs.set h hu)
    · exact hs
  | len h => simp only [step]; split <;> simp [Heap.query_fst, hs]
  | shape h => simp only [step]; split <;> simp [Heap.query_fst, hs]
  | row h i => simp only [step]; split <;> simp [Heap.query_fst, hs]
  | col h k => simp only [step]; split <;> simp [Heap.query_fst, hs]
  | iter h => simp only [step]; split <;> simp [Heap.query_fst, hs]
  | tup h ks => simp only [step]; split <;> simp [Heap.query_fst, hs]
  | slice dst h a b st =>
    simp only [step]
    split
    · rename_i t ht
      obtain ⟨n, hn⟩ := hs.get ht
      exact hs.bind dst fun t' ht' => ⟨_, getSlice_rect hn ht'⟩
    · exact hs
  | mask dst h m =>
    simp only [step]
    split
    · exact hs.bind dst fun t' ht' => getMask_rect ht'
    · exact hs
  | take dst h is =>
    simp only [step]
    split
    · exact hs.bind dst fun t' ht' => getTake_rect ht'
    · exact hs
  | proj dst h ks =>
    simp only [step]
    split
    · rename_i t ht
      obtain ⟨n, hn⟩ := hs.get ht
      exact hs.bind dst fun t' ht' => getProj_rect hn ht'
    · exact hs
  | call dst h consts fns =>
    simp only [step]
    split
    · rename_i t ht
      obtain ⟨n, hn⟩ := hs.get ht
      exact hs.bind dst fun t' ht' => call_rect hn ht'
    · exact hs
  | relabel dst h r =>
    simp only [step]
    split
    · rename_i t ht
      obtain ⟨n, hn⟩ := hs.get ht
      exact hs.bind dst fun t' ht' => by cases ht'; exact ⟨n, relabel_rect r hn⟩
    · exact hs
  | doo dst h f keys =>
    simp only [step]
    split
    · rename_i t ht
      obtain ⟨n, hn⟩ := hs.get ht
      exact hs.bind dst fun t' ht' => doKeys_rect _ hn ht'
    · exact hs
  | concat dst hs' =>
    simp only [step]
    split
    · exact hs
    · exact hs.bind dst fun t' ht' => by cases ht'; exact ⟨0, rect_nil 0⟩
    · exact hs
    · rename_i ts _ _ hts
      apply hs.bind dst
      intro t' ht'
      cases ht'
      refine ⟨_, concat_rect ?_⟩
      intro t ht
      -- every operand is a live table
      have : ∀ (hs' : List Nat) (ts : List Table), hs'.mapM (fun h => s[h]?) = some ts → ∀ t ∈ ts, t ∈ s := by
        intro hs'
        induction hs' with
        | nil => intro ts h t ht; simp at h; subst h; cases ht
        | cons a as ih =>
          intro ts h t ht
          simp only [List.mapM_cons, Option.bind_eq_bind, Option.bind_eq_some_iff, Option.pure_def,
            Option.some.injEq] at h
          obtain ⟨x, hx, ys, hys, rfl⟩ := h
          rcases List.mem_cons.1 ht with rfl | hm
          · exact List.mem_of_getElem? hx
          · exact ih ys hys t hm
      exact hs t (this hs' ts hts t ht)
  | addrec dst h r =>
    simp only [step]
    split
    · rename_i t ht
      split
      · rename_i t2 h2
        apply hs.bind dst
        intro t' ht'
        cases ht'
        refine ⟨_, concat_rect ?_⟩
        intro x hx
        simp only [List.mem_cons, List.not_mem_nil, or_false] at hx
        rcases hx with rfl | rfl
        · exact hs.get ht
        · exact construct_rect h2
      · exact hs
      · exact hs
    · exact hs
  | addnone h => simp only [step]; split <;> exact hs
  | copy dst h =>
    simp only [step]
    split
    · rename_i t ht
      exact hs.bind dst fun t' ht' => by cases ht'; exact hs.get ht
    · exact hs

/-- **history invariant**: after ANY finite sequence of operations, started from the empty heap (or any
rectangular heap), every live table has all its columns of one length -/
theorem rect_run (ops : List Op) (s : Heap) (hs : HeapRect s) : HeapRect (run s ops) := by
  induction ops generalizing s with
  | nil => exact hs
  | cons op ops ih => exact ih _ (rect_step s op hs)

theorem rect_run_empty (ops : List Op) : ∀ t ∈ run [] ops, ∃ n, t.Rect n :=
  rect_run ops [] HeapRect.nil

/-! ### frame: operations that return a new table never alter their operands -/

/-- a handle that the operation does not write (`Op.writes`: the destination of a table-producing
operation, the assigned table of `setitem/delitem/update`, nothing for queries) keeps its table — in
particular every operand of `slice/mask/take/proj/call/relabel/do/concat/+/copy` bound to another
handle than the destination is unchanged. -/
theorem frame_step (s : Heap) (op : Op) (i : Nat) (hi : i < s.length) (hw : op.writes ≠ some i) :
    (step s op).1[i]? = s[i]? := by
  cases op <;> simp only [Op.writes, ne_eq, Option.some.injEq] at hw <;>
    simp only [step] <;> (try split) <;> (try rfl) <;>
    (try exact Heap.bind_getElem? s _ _ i hi hw) <;>
    (try (simp only [Heap.query_fst])) <;>
    (try (split <;> first | rfl | exact List.getElem?_set_ne hw | exact Heap.bind_getElem? s _ _ i hi hw))

/-- an operation other than `update` that raises leaves the whole heap unchanged (`update` is a
sequence of assignments: the ones before the failing one stay, `rect_step` still applies) -/
theorem err_unchanged (s : Heap) (op : Op) (e : Err) (hu : ∀ h kvs, op ≠ .update h kvs)
    (he : (step s op).2 = .err e) : (step s op).1 = s := by
  cases op <;> simp only [step] at he ⊢ <;> (try split at he) <;> (try split) <;>
    (try rfl) <;> (try exact Heap.query_fst _ _) <;> (try exact Heap.bind_err _ _ _ _ he) <;>
    (try (simp_all; done)) <;>
    (try (split at he <;> (try split) <;> first | rfl | exact Heap.bind_err _ _ _ _ he | (simp_all; done)))

/-! ### assignment of a value whose length does not fit -/

/-- on a table with columns, `d[k] = v` raises `ValueError` exactly when `len(v)` is neither the
number of rows nor 1 (lines 366-375) -/
theorem setitem_reject (t : Table) (n : Nat) (hr : t.Rect n) (hne : t ≠ []) (k : String) (v : ColVal) :
    t.setitem k v = .error .value ↔ (v.value.length ≠ n ∧ v.value.length ≠ 1) := by
  unfold setitem
  rw [len_rect hr hne]
  have hemp : t.isEmpty = false := by cases t <;> simp_all
  simp only [hemp, Bool.or_false]
  constructor
  · intro h
    split at h
    · cases h
    · rename_i h1
      split at h
      · cases h
      · rename_i h2
        exact ⟨by simpa using h1, by simpa using h2⟩
  · rintro ⟨h1, h2⟩
    rw [if_neg (by simpa using h1), if_neg (by simpa using h2)]

/-- the only error of an assignment to a rectangular table is that `ValueError` -/
theorem setitem_err (t : Table) (n : Nat) (hr : t.Rect n) (k : String) (v : ColVal) (e : Err)
    (h : t.setitem k v = .error e) : e = .value ∧ t ≠ [] := by
  unfold setitem at h
  rw [len_rect' hr] at h
  simp only at h
  split at h
  · cases h
  · rename_i h1
    split at h
    · cases h
    · cases h
      refine ⟨rfl, ?_⟩
      intro he; subst he; simp at h1

/-- in the history machine: the rejected assignment leaves the heap — hence the table — as it was -/
theorem setitem_reject_step (s : Heap) (h : Nat) (t : Table) (n : Nat) (ht : s[h]? = some t)
    (hr : t.Rect n) (hne : t ≠ []) (k : String) (v : ColVal)
    (hbad : v.value.length ≠ n ∧ v.value.length ≠ 1) :
    step s (.setitem h k v) = (s, .err .value) := by
  simp only [step, ht, (setitem_reject t n hr hne k v).2 hbad]

/-- a table without columns accepts a first column of any length -/
theorem setitem_first (k : String) (v : ColVal) : Table.setitem [] k v = .ok [(k, v.value)] := by
  simp [setitem, Table.len, lens, Table.set, Table.has]

/-! ### len, shape, cells, iteration -/

/-- `len(d)` is the number of records and `d.shape` is (records, columns) -/
theorem len_shape (s : Heap) (h : Nat) (t : Table) (n : Nat) (ht : s[h]? = some t) (hr : t.Rect n) :
    step s (.len h) = (s, .val (natVal t.rows.length)) ∧
    step s (.shape h) = (s, .val (.tuple [natVal t.rows.length, natVal t.cols.length])) := by
  simp only [step, ht, len_rect' hr, Heap.query, Except.map, rows, cols, List.length_map,
    List.length_range, and_self]

/-- `d[i][c] == d[c][i]`: row `i` (python index, negative from the end) exists iff `i` is in range, it
carries exactly the table's columns, and its cell under `c` is entry `i` of column `c` -/
theorem cell_comm (t : Table) (n : Nat) (hr : t.Rect n) (hne : t ≠ []) (i : Int) :
    (∀ j, pyIdx n i = some j →
        t.getRow i = .ok (t.cols.zip (t.row j)) ∧
        ∀ k c, t.col? k = some c →
          ((t.cols.zip (t.row j)).find? (·.1 == k)).map (·.2) = some (c.getD j .none)) ∧
    (pyIdx n i = Option.none → t.getRow i = .error .index) := by
  have hrow : ∀ j, t.cols.zip (t.row j) = t.map fun c => (c.1, c.2.getD j .none) := by
    intro j; simp [cols, row, List.zip_map']
  constructor
  · intro j hj
    constructor
    · rw [hrow]
      unfold getRow
      apply mapE_of_ok
      intro c hc
      rw [hr c hc, hj]
    · intro k c hc
      rw [hrow, List.find?_map]
      unfold col? at hc
      cases hf : t.find? (·.1 == k) with
      | none => simp [hf] at hc
      | some e =>
        simp only [hf, Option.map_some, Option.some.injEq] at hc
        have : t.find? ((fun x => x.1 == k) ∘ fun c => (c.1, c.2.getD j Cell.none)) = some e := by
          simpa [Function.comp_def] using hf
        rw [this]
        simp [hc]
  · intro hnone
    cases t with
    | nil => exact absurd rfl hne
    | cons c t =>
      simp only [getRow, mapE]
      rw [hr c List.mem_cons_self, hnone]

/-- iteration yields exactly the rows `d[0], d[1], ..., d[len-1]`, each with the table's columns -/
theorem iter_rows (t : Table) (n : Nat) (hr : t.Rect n) (hne : t ≠ []) :
    t.iter.length = n ∧
    ∀ i (hi : i < t.iter.length), t.getRow (i : Int) = .ok t.iter[i] := by
  have hl : t.iter.length = n := by simp [iter, rows_length hr hne]
  refine ⟨hl, ?_⟩
  intro i hi
  have hin : i < n := hl ▸ hi
  have hp : pyIdx n (i : Int) = some i := by
    unfold pyIdx
    rw [if_pos ⟨by omega, by omega⟩]
    simp
  rw [((cell_comm t n hr hne i).1 i hp).1]
  simp [iter, rows]

/-! ### row selection = the list-of-records operation -/

/-- `d[mask]` with a mask of the table's length keeps exactly the flagged records, in order, and all
the columns — also when no row survives -/
theorem mask_rows (t : Table) (n : Nat) (hr : t.Rect n) (hne : t ≠ []) (m : List Bool) (hm : m.length = n) :
    ∃ t', t.getMask m = .ok t' ∧ t'.cols = t.cols ∧
      t'.rows = ((t.rows.zip m).filter (·.2)).map (·.1) :=
  getMask_full hr hne m hm

/-- a mask that is neither of the table's length nor of length 1 is rejected (for tables of two or more
rows; `zipper` repeats the single row of a one-row table) -/
theorem mask_reject (t : Table) (n : Nat) (hr : t.Rect n) (hne : t ≠ []) (m : List Bool)
    (hn : n ≠ 1) (h1 : m.length ≠ 1) (h2 : m.length ≠ n) : t.getMask m = .error .value := by
  unfold getMask maskIdx zipper2
  rw [nrows_of_rect hr hne]
  have : lens [(List.range n).length, m.length] = .error .value := by
    simp [lens, hn, h1]
    omega
  rw [this]

/-- `d[[i, j, ...]]` succeeds iff every index is in range and then lists those records in that order
(repeats allowed) -/
theorem take_rows (t t' : Table) (n : Nat) (hr : t.Rect n) (hne : t ≠ []) (is : List Int)
    (h : t.getTake is = .ok t') :
    t'.cols = t.cols ∧ (∀ i ∈ is, (pyIdx n i).isSome) ∧
      t'.rows = is.filterMap fun i => (pyIdx n i).map t.row :=
  getTake_ok hr hne h

/-- `d[a:b:s]` is the list slice of the records -/
theorem slice_rows (t : Table) (n : Nat) (hr : t.Rect n) (hne : t ≠ []) (a b s : Option Int) (hs : s ≠ some 0) :
    ∃ t', t.getSlice a b s = .ok t' ∧ t'.cols = t.cols ∧
      t'.rows = (sliceIdx n a b (s.getD 1)).map t.row := by
  refine ⟨_, getSlice_eq_gather hr a b s hs, cols_gatherRows t _, rows_gatherRows hne _⟩

/-- the index list of the full slice `[:]` -/
theorem sliceIdx_all (n : Nat) : sliceIdx n Option.none Option.none 1 = List.range n := by
  simp only [sliceIdx, show (1 : Int) > 0 by decide, if_true]
  apply List.ext_getElem
  · simp; omega
  · intro i h1 h2
    simp

/-- `[a:b]` with `0 ≤ a ≤ b ≤ n` selects `a, a+1, ..., b-1` -/
theorem sliceIdx_range (n a b : Nat) (hab : a ≤ b) (hbn : b ≤ n) :
    sliceIdx n (some a) (some b) 1 = List.range' a (b - a) := by
  have ha : ¬ ((a : Int) < 0) := by omega
  have hb : ¬ ((b : Int) < 0) := by omega
  have ha' : min (a : Int) n = a := by omega
  have hb' : min (b : Int) n = b := by omega
  simp only [sliceIdx, show (1 : Int) > 0 by decide, if_true, ha, hb, if_false, ha', hb']
  apply List.ext_getElem
  · simp; omega
  · intro i h1 h2
    simp
    omega

/-- `[::-1]` reverses -/
theorem sliceIdx_reverse (n : Nat) : sliceIdx n Option.none Option.none (-1) = (List.range n).reverse := by
  simp only [sliceIdx, show ¬ ((-1 : Int) > 0) by decide, if_false]
  apply List.ext_getElem
  · simp; omega
  · intro i h1 h2
    simp at h1 h2 ⊢
    omega

/-! ### concatenation -/

/-- the columns of `concat(t1, t2, ...)` are those of any operand, and each is the operands' columns
appended in order, a table without the column contributing one `None` per row -/
theorem concat_col (ts : List Table) (k : String) (hk : ∃ t ∈ ts, k ∈ t.cols) :
    (Table.concat ts).col? k =
      some (ts.flatMap fun t => (t.col? k).getD (List.replicate t.nrows .none)) := by
  unfold Table.concat
  apply col?_map_keys
  rw [mem_dedupKeys]
  obtain ⟨t, ht, hkt⟩ := hk
  exact List.mem_flatMap.2 ⟨t, ht, hkt⟩

theorem concat_cols (ts : List Table) (k : String) : k ∈ (Table.concat ts).cols ↔ ∃ t ∈ ts, k ∈ t.cols := by
  simp [Table.concat, cols, List.map_map, Function.comp_def, mem_dedupKeys, List.mem_flatMap]

/-- concatenation appends the operands' records in order: the records of the result are, table after
table, each table's records read over the union of the columns with `None` for an absent column -/
theorem concat_rows (ts : List Table) (hr : ∀ t ∈ ts, ∃ n, t.Rect n) (hk : (Table.concat ts).cols ≠ []) :
    (Table.concat ts).rows = ts.flatMap fun t => (List.range t.nrows).map fun i =>
      (Table.concat ts).cols.map fun k => (t.getCol k).getD i .none := by
  have hcols : (Table.concat ts).cols = dedupKeys (ts.flatMap Table.cols) := by
    simp [Table.concat, cols, List.map_map, Function.comp_def]
  have hn : (Table.concat ts).nrows = (ts.map Table.nrows).sum := by
    apply nrows_of_rect (concat_rect hr)
    intro he; rw [he] at hk; exact hk rfl
  have := rows_flatMap ts Table.nrows (dedupKeys (ts.flatMap Table.cols)) (fun k t => t.getCol k)
    (fun k _ t ht => by obtain ⟨n, hn⟩ := hr t ht; exact getCol_length k hn)
  rw [hcols, ← this]
  unfold rows
  rw [hn]
  apply List.map_congr_left
  intro j _
  simp [row, Table.concat, List.map_map, Function.comp_def]

/-! ### non-vacuity: the hypotheses are satisfiable on non-trivial values -/

/-- a 3-row, 2-column table; the history below builds it, masks it to nothing, assigns, concatenates -/
def tbl : Table := [("a", [.int 1, .none, .int 3]), ("b", [.str "x", .str "y", .flt 10])]

example : tbl.Rect 3 ∧ tbl ≠ [] := by decide
example : HeapRect [tbl, []] := by
  intro t ht; simp at ht; rcases ht with rfl | rfl
  · exact ⟨3, by decide⟩
  · exact ⟨0, by decide⟩
example : tbl.getMask [true, false, true] = .ok [("a", [.int 1, .int 3]), ("b", [.str "x", .flt 10])] := by rfl
example : tbl.getMask [false, false, false] = .ok [("a", []), ("b", [])] := by rfl
example : tbl.setitem "c" (.many [.int 1, .int 2]) = .error .value := by rfl
example : tbl.setitem "c" (.one (.int 7)) = .ok (tbl ++ [("c", [.int 7, .int 7, .int 7])]) := by rfl
example : tbl.getTake [-1, 0, 0] = .ok [("a", [.int 3, .int 1, .int 1]), ("b", [.flt 10, .str "x", .str "x"])] := by rfl
example : tbl.getSlice Option.none Option.none (some (-1)) =
    .ok [("a", [.int 3, .none, .int 1]), ("b", [.flt 10, .str "y", .str "x"])] := by rfl
example : Table.concat [tbl, [("b", [.str "z"]), ("c", [.int 9])]] =
    [("a", [.int 1, .none, .int 3, .none]), ("b", [.str "x", .str "y", .flt 10, .str "z"]),
     ("c", [.none, .none, .none, .int 9])] := by decide
example : (Table.concat [tbl, [("b", [.str "z"]), ("c", [.int 9])]]).cols ≠ [] := by decide
/-- a history: build, mask to empty, assign to the empty table, concatenate, reject a misfit -/
example : (run [] [.new 0 .none Option.none [("a", .many [.int 1, .int 2]), ("b", .one (.str "x"))],
      .mask 1 0 [false, false], .setitem 1 "c" (.many []), .concat 2 [0, 1], .setitem 2 "d" (.many [.int 1])]) =
    [[("a", [.int 1, .int 2]), ("b", [.str "x", .str "x"])],
     [("a", []), ("b", []), ("c", [])],
     [("a", [.int 1, .int 2]), ("b", [.str "x", .str "x"]), ("c", [.none, .none]), ("d", [.int 1, .int 1])]] := by
  decide

end Pyg.Props.C01
