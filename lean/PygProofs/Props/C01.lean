/-
  C01 — dictable behaves as a rectangular list of records under any operation history.
  Property theorems only (helper lemmas: PygProofs/Lemmas/TableLemmas, TableRect, TableRows, TableCons, TableNodup,
  SliceLemmas, TableAbs, TableAbs2, TableAbsHeap, TableCall, TableMaskPlain, TableRagged, TableAlias, TableAliasSim).

  The model is the history machine `step : Heap → Op → Heap × Out` of PygModel/Table.lean; `run` folds it
  over an operation list.  Clauses of the property text and the theorems that state them:
    * every column has the same length, after any history ........ `rect_step`, `rect_run`
    * len() and shape agree with it ................................ `len_shape`
    * d[i][c] == d[c][i] ........................................... `cell_comm`
    * iteration yields exactly those rows ........................... `iter_rows`
    * row indexing / slicing / masking / int lists = list-of-records operations
                                                                      `mask_rows`, `take_rows`, `slice_rows` (+ `sliceIdx` facts)
    * concatenation appends rows in order, absent columns None ...... `concat_col`, `concat_rows`
    * operations returning a new table never alter their operands ... `frame_step`
    * a non-fitting assignment is rejected with ValueError and leaves the table rectangular
                                                                      `setitem_reject`, `setitem_reject_step`, `err_unchanged`
    * "equals what the same sequence yields on a plain list-of-records model" — the simulation theorem
      `abs_step` / `abs_run` against the reference machine `specStep` of PygModel/TableSpec.lean (every `Op`,
      all arguments, outcomes incl. error kinds), per-operation lemmas in Lemmas/TableAbs*.lean
    * derived columns with several callables .......................... `call_order`, `call_circular`
    * update, tuple projection ........................................ `update_all`, `update_misfit`, `tup_rows`
    * column order of concatenations (python set) ..................... `RecsEquiv`, `concat_keys_perm`, `concat_any_order`, `equiv_observe`
    * stretch .......................................................... `concat_assoc`, `mask_col`
    * review round 2: masks against a reading without `zipper` ........ `abs_getMask_plain`, `mask_plain_exact`, `mask_one_row_repeats`
                      rows + header, ragged rows ....................... `new_rows_ragged`, `spec_new_rows_ragged`, `new_rows_header1`
                      aliasing (handles as pointers, TableAlias.lean) .. `rframe_step`, `ralias_shared`, `rrect_step`, `rabs_step`, `rstep_noalias`, `rrun_noalias`
-/
import PygProofs.Lemmas.TableAbsHeap
import PygProofs.Lemmas.TableCall
import PygProofs.Lemmas.TableMaskPlain
import PygProofs.Lemmas.TableRagged
import PygProofs.Lemmas.TableAlias
import PygProofs.Lemmas.TableAliasSim

namespace Pyg.Props.C01
open Pyg Table Abs

/-! ### the history invariant -/

/-- one operation keeps every live table rectangular (also when it raises) -/
theorem rect_step (s : Heap) (op : Op) (hs : HeapRect s) : HeapRect (step s op).1 := by
  cases op with
  | new dst data columns kwargs =>
    simp only [step]
    split
    · rename_i r hr
      apply hs.bind
      intro t ht; subst ht
      exact construct_rect hr
    · exact hs
  | setitem h k v =>
    simp only [step]
    split
    · rename_i t ht
      split
      · rename_i t' hs'
        obtain ⟨n, hn⟩ := hs.get ht
        exact hs.set h (setitem_rect hn hs')
      · exact hs
    · exact hs
  | delitem h k =>
    simp only [step]
    split
    · rename_i t ht
      split
      · rename_i t' hs'
        obtain ⟨n, hn⟩ := hs.get ht
        unfold delitem at hs'
        split at hs'
        · cases hs'; exact hs.set h ⟨n, erase_rect k hn⟩
        · cases hs'
      · exact hs
    · exact hs
  | update h kvs =>
    simp only [step]
    split
    · rename_i t ht
      obtain ⟨n, hn⟩ := hs.get ht
      have hu := update_rect kvs hn
      split <;> (rename_i heq; rw [heq] at hu; exact hs.set h hu)
    · exact hs
  | len h => simp only [step]; split <;> simp [Heap.query_fst, hs]
  | shape h => simp only [step]; split <;> simp [Heap.query_fst, hs]
  | row h i => simp only [step]; split <;> simp [Heap.query_fst, hs]
  | col h k => simp only [step]; split <;> simp [Heap.query_fst, hs]
  | iter h => simp only [step]; split <;> simp [Heap.query_fst, hs]
  | tup h ks => simp only [step]; split <;> simp [Heap.query_fst, hs]
  | apply h f => simp only [step]; split <;> simp [Heap.query_fst, hs]
  | slice dst h a b st =>
    simp only [step]
    split
    · rename_i t ht
      obtain ⟨n, hn⟩ := hs.get ht
      exact hs.bind dst fun t' ht' => ⟨_, getSlice_rect hn ht'⟩
    · exact hs
  | mask dst h m =>
    simp only [step]
    split
    · exact hs.bind dst fun t' ht' => getMask_rect (getMaskC_ok ht')
    · exact hs
  | take dst h is =>
    simp only [step]
    split
    · exact hs.bind dst fun t' ht' => getTake_rect ht'
    · exact hs
  | proj dst h ks =>
    simp only [step]
    split
    · rename_i t ht
      obtain ⟨n, hn⟩ := hs.get ht
      exact hs.bind dst fun t' ht' => getProj_rect hn ht'
    · exact hs
  | call dst h consts fns =>
    simp only [step]
    split
    · rename_i t ht
      obtain ⟨n, hn⟩ := hs.get ht
      exact hs.bind dst fun t' ht' => call_rect hn ht'
    · exact hs
  | relabel dst h r =>
    simp only [step]
    split
    · rename_i t ht
      obtain ⟨n, hn⟩ := hs.get ht
      exact hs.bind dst fun t' ht' => by cases ht'; exact ⟨n, relabel_rect r hn⟩
    · exact hs
  | doo dst h f keys =>
    simp only [step]
    split
    · rename_i t ht
      obtain ⟨n, hn⟩ := hs.get ht
      exact hs.bind dst fun t' ht' => doKeys_rect _ hn ht'
    · exact hs
  | concat dst hs' =>
    simp only [step]
    split
    · exact hs
    · exact hs.bind dst fun t' ht' => by cases ht'; exact ⟨0, rect_nil 0⟩
    · exact hs
    · rename_i ts _ _ hts
      apply hs.bind dst
      intro t' ht'
      cases ht'
      refine ⟨_, concat_rect ?_⟩
      intro t ht
      -- every operand is a live table
      have : ∀ (hs' : List Nat) (ts : List Table), hs'.mapM (fun h => s[h]?) = some ts → ∀ t ∈ ts, t ∈ s := by
        intro hs'
        induction hs' with
        | nil => intro ts h t ht; simp at h; subst h; cases ht
        | cons a as ih =>
          intro ts h t ht
          simp only [List.mapM_cons, Option.bind_eq_bind, Option.bind_eq_some_iff, Option.pure_def,
            Option.some.injEq] at h
          obtain ⟨x, hx, ys, hys, rfl⟩ := h
          rcases List.mem_cons.1 ht with rfl | hm
          · exact List.mem_of_getElem? hx
          · exact ih ys hys t hm
      exact hs t (this hs' ts hts t ht)
  | addrec dst h r =>
    simp only [step]
    split
    · rename_i t ht
      split
      · rename_i t2 h2
        apply hs.bind dst
        intro t' ht'
        cases ht'
        refine ⟨_, concat_rect ?_⟩
        intro x hx
        simp only [List.mem_cons, List.not_mem_nil, or_false] at hx
        rcases hx with rfl | rfl
        · exact hs.get ht
        · exact construct_rect h2
      · exact hs
      · exact hs
    · exact hs
  | addnone h => simp only [step]; split <;> exact hs
  | copy dst h =>
    simp only [step]
    split
    · rename_i t ht
      exact hs.bind dst fun t' ht' => by cases ht'; exact hs.get ht
    · exact hs

/-- **history invariant**: after ANY finite sequence of operations, started from the empty heap (or any
rectangular heap), every live table has all its columns of one length -/
theorem rect_run (ops : List Op) (s : Heap) (hs : HeapRect s) : HeapRect (run s ops) := by
  induction ops generalizing s with
  | nil => exact hs
  | cons op ops ih => exact ih _ (rect_step s op hs)

theorem rect_run_empty (ops : List Op) : ∀ t ∈ run [] ops, ∃ n, t.Rect n :=
  rect_run ops [] HeapRect.nil

/-- one operation keeps the column names of every live table distinct (a dictable is a dict) -/
theorem nodup_step (s : Heap) (op : Op) (hs : HeapNodup s) : HeapNodup (step s op).1 := by
  cases op with
  | new dst data columns kwargs =>
    simp only [step]
    split
    · rename_i r hr
      exact hs.bind dst fun t ht => by subst ht; exact construct_nodup hr
    · exact hs
  | setitem h k v =>
    simp only [step]
    split
    · rename_i t ht
      split
      · rename_i t' hs'
        exact hs.set h (setitem_nodup (hs.get ht) hs')
      · exact hs
    · exact hs
  | delitem h k =>
    simp only [step]
    split
    · rename_i t ht
      split
      · rename_i t' hs'
        unfold delitem at hs'
        split at hs'
        · cases hs'; exact hs.set h (erase_nodup k (hs.get ht))
        · cases hs'
      · exact hs
    · exact hs
  | update h kvs =>
    simp only [step]
    split
    · rename_i t ht
      have hu := update_nodup kvs (hs.get ht)
      split <;> (rename_i heq; rw [heq] at hu; exact hs.set h hu)
    · exact hs
  | len h => simp only [step]; split <;> simp [Heap.query_fst, hs]
  | shape h => simp only [step]; split <;> simp [Heap.query_fst, hs]
  | row h i => simp only [step]; split <;> simp [Heap.query_fst, hs]
  | col h k => simp only [step]; split <;> simp [Heap.query_fst, hs]
  | iter h => simp only [step]; split <;> simp [Heap.query_fst, hs]
  | tup h ks => simp only [step]; split <;> simp [Heap.query_fst, hs]
  | apply h f => simp only [step]; split <;> simp [Heap.query_fst, hs]
  | slice dst h a b st =>
    simp only [step]
    split
    · rename_i t ht
      exact hs.bind dst fun t' ht' => by rw [getSlice_cols ht']; exact hs.get ht
    · exact hs
  | mask dst h m =>
    simp only [step]
    split
    · rename_i t ht
      exact hs.bind dst fun t' ht' => by rw [getMask_cols (getMaskC_ok ht')]; exact hs.get ht
    · exact hs
  | take dst h is =>
    simp only [step]
    split
    · rename_i t ht
      exact hs.bind dst fun t' ht' => by rw [getTake_cols ht']; exact hs.get ht
    · exact hs
  | proj dst h ks =>
    simp only [step]
    split
    · rename_i t ht
      exact hs.bind dst fun t' ht' => getProj_nodup (hs.get ht) ht'
    · exact hs
  | call dst h consts fns =>
    simp only [step]
    split
    · rename_i t ht
      exact hs.bind dst fun t' ht' => call_nodup (hs.get ht) ht'
    · exact hs
  | relabel dst h r =>
    simp only [step]
    split
    · exact hs.bind dst fun t' ht' => by cases ht'; exact ofPairs_nodup _
    · exact hs
  | doo dst h f keys =>
    simp only [step]
    split
    · rename_i t ht
      exact hs.bind dst fun t' ht' => doKeys_nodup _ (hs.get ht) ht'
    · exact hs
  | concat dst hs' =>
    simp only [step]
    split
    · exact hs
    · exact hs.bind dst fun t' ht' => by cases ht'; simp [cols]
    · exact hs
    · exact hs.bind dst fun t' ht' => by cases ht'; exact concat_nodup _
  | addrec dst h r =>
    simp only [step]
    split
    · split
      · exact hs.bind dst fun t' ht' => by cases ht'; exact concat_nodup _
      · exact hs
      · exact hs
    · exact hs
  | addnone h => simp only [step]; split <;> exact hs
  | copy dst h =>
    simp only [step]
    split
    · rename_i t ht
      exact hs.bind dst fun t' ht' => by cases ht'; exact hs.get ht
    · exact hs

/-- after any history every live table has distinct column names -/
theorem nodup_run (ops : List Op) (s : Heap) (hs : HeapNodup s) : HeapNodup (run s ops) := by
  induction ops generalizing s with
  | nil => exact hs
  | cons op ops ih => exact ih _ (nodup_step s op hs)

/-! ### frame: operations that return a new table never alter their operands -/

/-- a handle that the operation does not write (`Op.writes`: the destination of a table-producing
operation, the assigned table of `setitem/delitem/update`, nothing for queries) keeps its table — in
particular every operand of `slice/mask/take/proj/call/relabel/do/concat/+/copy` bound to another
handle than the destination is unchanged. -/
theorem frame_step (s : Heap) (op : Op) (i : Nat) (hi : i < s.length) (hw : op.writes ≠ some i) :
    (step s op).1[i]? = s[i]? := by
  cases op <;> simp only [Op.writes, ne_eq, Option.some.injEq] at hw <;>
    simp only [step] <;> (try split) <;> (try rfl) <;>
    (try exact Heap.bind_getElem? s _ _ i hi hw) <;>
    (try (simp only [Heap.query_fst])) <;>
    (try (split <;> first | rfl | exact List.getElem?_set_ne hw | exact Heap.bind_getElem? s _ _ i hi hw))

/-- an operation other than `update` that raises leaves the whole heap unchanged (`update` is a
sequence of assignments: the ones before the failing one stay, `rect_step` still applies) -/
theorem err_unchanged (s : Heap) (op : Op) (e : Err) (hu : ∀ h kvs, op ≠ .update h kvs)
    (he : (step s op).2 = .err e) : (step s op).1 = s := by
  cases op <;> simp only [step] at he ⊢ <;> (try split at he) <;> (try split) <;>
    (try rfl) <;> (try exact Heap.query_fst _ _) <;> (try exact Heap.bind_err _ _ _ _ he) <;>
    (try (simp_all; done)) <;>
    (try (split at he <;> (try split) <;> first | rfl | exact Heap.bind_err _ _ _ _ he | (simp_all; done)))

/-! ### assignment of a value whose length does not fit -/

/-- on a table with columns, `d[k] = v` raises `ValueError` exactly when `len(v)` is neither the
number of rows nor 1 (lines 366-375) -/
theorem setitem_reject (t : Table) (n : Nat) (hr : t.Rect n) (hne : t ≠ []) (k : String) (v : ColVal) :
    t.setitem k v = .error .value ↔ (v.value.length ≠ n ∧ v.value.length ≠ 1) := by
  unfold setitem
  rw [len_rect hr hne]
  have hemp : t.isEmpty = false := by cases t <;> simp_all
  simp only [hemp, Bool.or_false]
  constructor
  · intro h
    split at h
    · cases h
    · rename_i h1
      split at h
      · cases h
      · rename_i h2
        exact ⟨by simpa using h1, by simpa using h2⟩
  · rintro ⟨h1, h2⟩
    rw [if_neg (by simpa using h1), if_neg (by simpa using h2)]

/-- the only error of an assignment to a rectangular table is that `ValueError` -/
theorem setitem_err (t : Table) (n : Nat) (hr : t.Rect n) (k : String) (v : ColVal) (e : Err)
    (h : t.setitem k v = .error e) : e = .value ∧ t ≠ [] := by
  unfold setitem at h
  rw [len_rect' hr] at h
  simp only at h
  split at h
  · cases h
  · rename_i h1
    split at h
    · cases h
    · cases h
      refine ⟨rfl, ?_⟩
      intro he; subst he; simp at h1

/-- in the history machine: the rejected assignment leaves the heap — hence the table — as it was -/
theorem setitem_reject_step (s : Heap) (h : Nat) (t : Table) (n : Nat) (ht : s[h]? = some t)
    (hr : t.Rect n) (hne : t ≠ []) (k : String) (v : ColVal)
    (hbad : v.value.length ≠ n ∧ v.value.length ≠ 1) :
    step s (.setitem h k v) = (s, .err .value) := by
  simp only [step, ht, (setitem_reject t n hr hne k v).2 hbad]

/-- a table without columns accepts a first column of any length -/
theorem setitem_first (k : String) (v : ColVal) : Table.setitem [] k v = .ok [(k, v.value)] := by
  simp [setitem, Table.len, lens, Table.set, Table.has]

/-! ### len, shape, cells, iteration -/

/-- `len(d)` is the number of records and `d.shape` is (records, columns) -/
theorem len_shape (s : Heap) (h : Nat) (t : Table) (n : Nat) (ht : s[h]? = some t) (hr : t.Rect n) :
    step s (.len h) = (s, .val (natVal t.rows.length)) ∧
    step s (.shape h) = (s, .val (.tuple [natVal t.rows.length, natVal t.cols.length])) := by
  simp only [step, ht, len_rect' hr, Heap.query, Except.map, rows, cols, List.length_map,
    List.length_range, and_self]

/-- `d[i][c] == d[c][i]`: row `i` (python index, negative from the end) exists iff `i` is in range, it
carries exactly the table's columns, and its cell under `c` is entry `i` of column `c` -/
theorem cell_comm (t : Table) (n : Nat) (hr : t.Rect n) (hne : t ≠ []) (i : Int) :
    (∀ j, pyIdx n i = some j →
        t.getRow i = .ok (t.cols.zip (t.row j)) ∧
        ∀ k c, t.col? k = some c →
          ((t.cols.zip (t.row j)).find? (·.1 == k)).map (·.2) = some (c.getD j .none)) ∧
    (pyIdx n i = Option.none → t.getRow i = .error .index) := by
  have hrow : ∀ j, t.cols.zip (t.row j) = t.map fun c => (c.1, c.2.getD j .none) := by
    intro j; simp [cols, row, List.zip_map']
  constructor
  · intro j hj
    constructor
    · rw [hrow]
      unfold getRow
      apply mapE_of_ok
      intro c hc
      rw [hr c hc, hj]
    · intro k c hc
      rw [hrow, List.find?_map]
      unfold col? at hc
      cases hf : t.find? (·.1 == k) with
      | none => simp [hf] at hc
      | some e =>
        simp only [hf, Option.map_some, Option.some.injEq] at hc
        have : t.find? ((fun x => x.1 == k) ∘ fun c => (c.1, c.2.getD j Cell.none)) = some e := by
          simpa [Function.comp_def] using hf
        rw [this]
        simp [hc]
  · intro hnone
    cases t with
    | nil => exact absurd rfl hne
    | cons c t =>
      simp only [getRow, mapE]
      rw [hr c List.mem_cons_self, hnone]

/-- iteration yields exactly the rows `d[0], d[1], ..., d[len-1]`, each with the table's columns -/
theorem iter_rows (t : Table) (n : Nat) (hr : t.Rect n) (hne : t ≠ []) :
    t.iter.length = n ∧
    ∀ i (hi : i < t.iter.length), t.getRow (i : Int) = .ok t.iter[i] := by
  have hl : t.iter.length = n := by simp [iter, rows_length hr hne]
  refine ⟨hl, ?_⟩
  intro i hi
  have hin : i < n := hl ▸ hi
  have hp : pyIdx n (i : Int) = some i := by
    unfold pyIdx
    rw [if_pos ⟨by omega, by omega⟩]
    simp
  rw [((cell_comm t n hr hne i).1 i hp).1]
  simp [iter, rows]

/-! ### row selection = the list-of-records operation -/

/-- `d[mask]` with a mask of the table's length keeps exactly the flagged records, in order, and all
the columns — also when no row survives -/
theorem mask_rows (t : Table) (n : Nat) (hr : t.Rect n) (hne : t ≠ []) (m : List Bool) (hm : m.length = n) :
    ∃ t', t.getMask m = .ok t' ∧ t'.cols = t.cols ∧
      t'.rows = ((t.rows.zip m).filter (·.2)).map (·.1) :=
  getMask_full hr hne m hm

/-- a mask that is neither of the table's length nor of length 1 is rejected (for tables of two or more
rows; `zipper` repeats the single row of a one-row table) -/
theorem mask_reject (t : Table) (n : Nat) (hr : t.Rect n) (hne : t ≠ []) (m : List Bool)
    (hn : n ≠ 1) (h1 : m.length ≠ 1) (h2 : m.length ≠ n) : t.getMask m = .error .value := by
  unfold getMask maskIdx zipper2
  rw [nrows_of_rect hr hne]
  have : lens [(List.range n).length, m.length] = .error .value := by
    simp [lens, hn, h1]
    omega
  rw [this]

/-- a mask of length 1 is repeated for every row: `d[[True]]` is the table, `d[[False]]` its columns
without rows -/
theorem mask_one (t : Table) (n : Nat) (hr : t.Rect n) (hne : t ≠ []) (b : Bool) :
    t.getMask [b] = .ok (if b then t else t.emptyLike) := by
  have hz : zipper2 (List.range n) [b] = .ok ((List.range n).zip (List.replicate n b)) := by
    unfold zipper2
    have hl : lens [(List.range n).length, [b].length] = .ok n := by
      by_cases h1 : n = 1
      · subst h1; rfl
      · simp [lens, h1]
    rw [hl]
    simp only
    congr 2
    · by_cases h1 : n = 1
      · subst h1; rfl
      · unfold bcast
        split
        · rename_i x hx
          have := congrArg List.length hx
          simp at this; exact absurd this h1
        · rfl
  unfold getMask maskIdx
  rw [nrows_of_rect hr hne, hz]
  simp only
  have hp := positions_range n (List.replicate n b) (by simp)
  rw [hp]
  have hf : (List.range n).filter (fun i => (List.replicate n b).getD i false) =
      if b then List.range n else [] := by
    cases b with
    | true =>
      apply List.filter_eq_self.2
      intro i hi
      have : i < n := by simpa using hi
      simp [List.getD_eq_getElem?_getD, this]
    | false =>
      apply List.filter_eq_nil_iff.2
      intro i hi
      have : i < n := by simpa using hi
      simp [List.getD_eq_getElem?_getD, this]
  rw [hf]
  cases b with
  | false => simp
  | true =>
    simp only [if_true]
    split
    · rename_i he
      have h0 : n = 0 := by simpa using he
      subst h0
      -- a table without rows is its own `emptyLike`
      congr 1
      unfold emptyLike
      calc t.map (fun c => (c.1, ([] : List Cell))) = t.map (fun c => c) := by
            apply List.map_congr_left
            intro c hc
            have := hr c hc
            have h2 : c.2 = [] := List.eq_nil_of_length_eq_zero this
            rw [← h2]
        _ = t := by simp
    · rw [gatherRows_range hr]

/-- `d[[i, j, ...]]` succeeds iff every index is in range and then lists those records in that order
(repeats allowed) -/
theorem take_rows (t t' : Table) (n : Nat) (hr : t.Rect n) (hne : t ≠ []) (is : List Int)
    (h : t.getTake is = .ok t') :
    t'.cols = t.cols ∧ (∀ i ∈ is, (pyIdx n i).isSome) ∧
      t'.rows = is.filterMap fun i => (pyIdx n i).map t.row :=
  getTake_ok hr hne h

/-- `d[a:b:s]` is the list slice of the records -/
theorem slice_rows (t : Table) (n : Nat) (hr : t.Rect n) (hne : t ≠ []) (a b s : Option Int) (hs : s ≠ some 0) :
    ∃ t', t.getSlice a b s = .ok t' ∧ t'.cols = t.cols ∧
      t'.rows = (sliceIdx n a b (s.getD 1)).map t.row := by
  refine ⟨_, getSlice_eq_gather hr a b s hs, cols_gatherRows t _, rows_gatherRows hne _⟩

/-- a slice only ever selects existing records (whatever the bounds, also far outside the table) -/
theorem slice_in_range (n : Nat) (a b : Option Int) (s : Int) (hs : s ≠ 0) :
    ∀ i ∈ sliceIdx n a b s, i < n := sliceIdx_lt n a b s hs

/-- a slice with a positive step returns a sub-sequence of the records: original order, no repeats;
with a negative step the selected positions strictly decrease -/
theorem slice_order (t : Table) (n : Nat) (hr : t.Rect n) (hne : t ≠ []) (a b : Option Int) (s : Int) :
    (s > 0 → ∃ t', t.getSlice a b (some s) = .ok t' ∧ t'.rows.Sublist t.rows) ∧
    (s < 0 → (sliceIdx n a b s).Pairwise (· > ·)) := by
  constructor
  · intro hs
    have hs0 : (some s : Option Int) ≠ some 0 := by simp; omega
    obtain ⟨t', h1, _, h3⟩ := slice_rows t n hr hne a b (some s) hs0
    refine ⟨t', h1, ?_⟩
    rw [h3, rows, nrows_of_rect hr hne]
    exact List.Sublist.map _ (sublist_range_of_increasing _ n (sliceIdx_lt n a b s (by omega))
      (sliceIdx_increasing n a b s hs))
  · exact sliceIdx_decreasing n a b s

/-- the index list of the full slice `[:]` -/
theorem sliceIdx_all (n : Nat) : sliceIdx n Option.none Option.none 1 = List.range n := by
  simp only [sliceIdx, show (1 : Int) > 0 by decide, if_true]
  apply List.ext_getElem
  · simp; omega
  · intro i h1 h2
    simp

/-- `[a:b]` with `0 ≤ a ≤ b ≤ n` selects `a, a+1, ..., b-1` -/
theorem sliceIdx_range (n a b : Nat) (hab : a ≤ b) (hbn : b ≤ n) :
    sliceIdx n (some a) (some b) 1 = List.range' a (b - a) := by
  have ha : ¬ ((a : Int) < 0) := by omega
  have hb : ¬ ((b : Int) < 0) := by omega
  have ha' : min (a : Int) n = a := by omega
  have hb' : min (b : Int) n = b := by omega
  simp only [sliceIdx, show (1 : Int) > 0 by decide, if_true, ha, hb, if_false, ha', hb']
  apply List.ext_getElem
  · simp; omega
  · intro i h1 h2
    simp
    omega

/-- `[::-1]` reverses -/
theorem sliceIdx_reverse (n : Nat) : sliceIdx n Option.none Option.none (-1) = (List.range n).reverse := by
  simp only [sliceIdx, show ¬ ((-1 : Int) > 0) by decide, if_false]
  apply List.ext_getElem
  · simp; omega
  · intro i h1 h2
    simp at h1 h2 ⊢
    omega

/-! ### concatenation -/

/-- the columns of `concat(t1, t2, ...)` are those of any operand, and each is the operands' columns
appended in order, a table without the column contributing one `None` per row -/
theorem concat_col (ts : List Table) (k : String) (hk : ∃ t ∈ ts, k ∈ t.cols) :
    (Table.concat ts).col? k =
      some (ts.flatMap fun t => (t.col? k).getD (List.replicate t.nrows .none)) := by
  unfold Table.concat
  apply col?_map_keys
  rw [mem_dedupKeys]
  obtain ⟨t, ht, hkt⟩ := hk
  exact List.mem_flatMap.2 ⟨t, ht, hkt⟩

theorem concat_cols (ts : List Table) (k : String) : k ∈ (Table.concat ts).cols ↔ ∃ t ∈ ts, k ∈ t.cols := by
  simp [Table.concat, cols, List.map_map, Function.comp_def, mem_dedupKeys, List.mem_flatMap]

/-- concatenation appends the operands' records in order: the records of the result are, table after
table, each table's records read over the union of the columns with `None` for an absent column -/
theorem concat_rows (ts : List Table) (hr : ∀ t ∈ ts, ∃ n, t.Rect n) (hk : (Table.concat ts).cols ≠ []) :
    (Table.concat ts).rows = ts.flatMap fun t => (List.range t.nrows).map fun i =>
      (Table.concat ts).cols.map fun k => (t.getCol k).getD i .none := by
  have hcols : (Table.concat ts).cols = dedupKeys (ts.flatMap Table.cols) := by
    simp [Table.concat, cols, List.map_map, Function.comp_def]
  have hn : (Table.concat ts).nrows = (ts.map Table.nrows).sum := by
    apply nrows_of_rect (concat_rect hr)
    intro he; rw [he] at hk; exact hk rfl
  have := rows_flatMap ts Table.nrows (dedupKeys (ts.flatMap Table.cols)) (fun k t => t.getCol k)
    (fun k _ t ht => by obtain ⟨n, hn⟩ := hr t ht; exact getCol_length k hn)
  rw [hcols, ← this]
  unfold rows
  rw [hn]
  apply List.map_congr_left
  intro j _
  simp [row, Table.concat, List.map_map, Function.comp_def]

/-! ### construction -/

/-- keyword columns with scalar broadcasting (`dictable(a = [1,2,3], b = 'x', c = [7])`): the constructor
raises `ValueError` exactly when two values have different lengths other than 1; otherwise the table has
the given columns in order, each value of length 1 (a scalar, `None`, a one-element list) repeated to the
common length `n` -/
theorem new_columns (kw : List (String × ColVal)) (hn : (kw.map (·.1)).Nodup) :
    (construct .none Option.none kw = some (.error .value) ↔
      ∃ a ∈ kw, ∃ b ∈ kw, a.2.value.length ≠ 1 ∧ b.2.value.length ≠ 1 ∧ a.2.value.length ≠ b.2.value.length) ∧
    (∀ t, construct .none Option.none kw = some (.ok t) →
      ∃ n, lens (kw.map fun kv => kv.2.value.length) = .ok n ∧ t.Rect n ∧
        t = kw.map fun kv => (kv.1, bcast n kv.2.value)) := by
  have hof : ofPairs (kw.map fun kv => (kv.1, kv.2.value)) = kw.map fun kv => (kv.1, kv.2.value) :=
    ofPairs_of_nodup _ (by simpa [List.map_map, Function.comp_def] using hn)
  have hc : construct .none Option.none kw = some (Table.finish (kw.map fun kv => (kv.1, kv.2.value))) := by
    simp only [construct, dataCols, Table.updateWith, List.foldl_nil, hof]
  have hlen : Table.len (kw.map fun kv => (kv.1, kv.2.value)) = lens (kw.map fun kv => kv.2.value.length) := by
    simp [Table.len, List.map_map, Function.comp_def]
  rw [hc]
  constructor
  · simp only [Option.some.injEq, Table.finish, hlen]
    constructor
    · intro h
      have hl : lens (kw.map fun kv => kv.2.value.length) = .error .value := by
        split at h
        · rename_i e he; cases h; exact he
        · cases h
      obtain ⟨a, ha, b, hb, h1, h2, h3⟩ := (lens_error_iff _).1 hl
      obtain ⟨a', ha', rfl⟩ := List.mem_map.1 ha
      obtain ⟨b', hb', rfl⟩ := List.mem_map.1 hb
      exact ⟨a', ha', b', hb', h1, h2, h3⟩
    · rintro ⟨a, ha, b, hb, h1, h2, h3⟩
      have hl : lens (kw.map fun kv => kv.2.value.length) = .error .value :=
        (lens_error_iff _).2 ⟨_, List.mem_map.2 ⟨a, ha, rfl⟩, _, List.mem_map.2 ⟨b, hb, rfl⟩, h1, h2, h3⟩
      rw [hl]
  · intro t ht
    simp only [Option.some.injEq] at ht
    obtain ⟨m, hm⟩ := finish_ok_rect ht
    simp only [Table.finish, hlen] at ht
    split at ht
    · cases ht
    · rename_i n hn'
      cases ht
      refine ⟨n, hn', ?_, by simp [List.map_map, Function.comp_def]⟩
      intro c hc'
      simp only [List.map_map, List.mem_map, Function.comp] at hc'
      obtain ⟨kv, hkv, rfl⟩ := hc'
      exact bcast_length (lens_ok hn' _ (List.mem_map.2 ⟨kv, hkv, rfl⟩))

/-- construction from records: one column per key of any record (first appearance), one row per record,
`None` where a record lacks the key -/
theorem new_records (rs : List (List (String × Cell))) (hne : rs ≠ []) :
    construct (.recs rs) Option.none [] = some (.ok (dictConcat rs)) ∧
    (dictConcat rs).Rect rs.length ∧
    (dictConcat rs).cols = dedupKeys (rs.flatMap fun r => r.map (·.1)) ∧
    ((dictConcat rs).cols ≠ [] →
      (dictConcat rs).rows = rs.map fun r => (dictConcat rs).cols.map fun k =>
        ((r.reverse.find? (·.1 == k)).map (·.2)).getD .none) := by
  have hnd : (dictConcat rs).cols.Nodup := by rw [cols_dictConcat]; exact nodup_dedupKeys _
  refine ⟨?_, dictConcat_rect rs, cols_dictConcat rs, ?_⟩
  · obtain ⟨r, rest, rfl⟩ := List.exists_cons_of_ne_nil hne
    have h1 : construct (.recs (r :: rest)) Option.none [] =
        some (Table.finish (ofPairs (dictConcat (r :: rest)))) := rfl
    rw [h1, ofPairs_self_of_nodup _ hnd, finish_rect (dictConcat_rect _)]
  · intro hk
    have hne' : dictConcat rs ≠ [] := by intro he; rw [he] at hk; exact hk rfl
    unfold rows
    rw [nrows_of_rect (dictConcat_rect rs) hne']
    apply List.ext_getElem
    · simp
    · intro i h1 h2
      simp only [List.getElem_map, List.getElem_range]
      simp only [List.length_map, List.length_range] at h1
      simp [row, cols, dictConcat, List.map_map, Function.comp_def, List.getD_eq_getElem?_getD, h1]

/-- construction from rows + headers (`dictable([[1,2],[3,4]], columns = ['a','b'])`), every row as long
as the header: the table has the header as columns and exactly the given rows -/
theorem new_rows (cs : List String) (rs : List (List Cell)) (hcs : cs.Nodup) (hk : cs ≠ [])
    (hrs : ∀ r ∈ rs, r.length = cs.length) :
    construct (.rows rs) (some cs) [] = some (.ok (ofRows cs rs)) ∧
    (ofRows cs rs).Rect rs.length ∧ (ofRows cs rs).cols = cs ∧ (ofRows cs rs).rows = rs := by
  refine ⟨?_, ofRows_rect cs rs, ofRows_cols cs rs, ofRows_rows cs rs hk hrs⟩
  have hnd : (ofRows cs rs).cols.Nodup := by rw [ofRows_cols]; exact hcs
  have hkpos : 0 < cs.length := List.length_pos_iff.2 hk
  cases rs with
  | nil =>
    have h1 : construct (.rows []) (some cs) [] = some (Table.finish (ofPairs (cs.map fun k => (k, [])))) := rfl
    have h2 : (cs.map fun k => (k, ([] : List Cell))) = ofRows cs [] := by
      rw [ofRows_eq_zip]
      apply List.ext_getElem
      · simp
      · intro i h1 h2
        simp
    rw [h1, h2, ofPairs_self_of_nodup _ hnd, finish_rect (ofRows_rect cs [])]
  | cons r0 rest =>
    have hlens : lens ((r0 :: rest).map (·.length)) = .ok cs.length := by
      apply lens_const (by simp)
      intro l hl
      obtain ⟨r, hr, rfl⟩ := List.mem_map.1 hl
      exact hrs r hr
    have hz : zipper Cell.none (r0 :: rest) =
        .ok ((List.range cs.length).map fun j => (r0 :: rest).map fun r => r.getD j .none) := by
      unfold zipper
      rw [hlens]
      simp only
      congr 1
      apply List.map_congr_left
      intro j _
      apply List.map_congr_left
      intro r hr
      rw [bcast_self (hrs r hr)]
    have hz2 : zipper2 cs ((List.range cs.length).map fun j => (r0 :: rest).map fun r => r.getD j .none) =
        .ok (ofRows cs (r0 :: rest)) := by
      unfold zipper2
      have : lens [cs.length, ((List.range cs.length).map fun j =>
          (r0 :: rest).map fun r => r.getD j Cell.none).length] = .ok cs.length := by
        apply lens_const (by simp)
        intro l hl
        simp at hl
        rcases hl with rfl | rfl <;> rfl
      rw [this]
      simp only
      rw [bcast_self rfl, bcast_self (by simp), ofRows_eq_zip]
    have hm : headerMisfit cs ((List.range cs.length).map fun j =>
        (r0 :: rest).map fun r => r.getD j Cell.none) = false := by
      unfold headerMisfit
      simp only [List.length_map, List.length_range]
      by_cases h : cs.length = 1 <;> simp [h]
    have hdc : dataCols (.rows (r0 :: rest)) (some cs) = some (.ok (ofRows cs (r0 :: rest))) := by
      simp only [dataCols, hz, hm, Bool.false_eq_true, if_false, hz2, ofPairs_self_of_nodup _ hnd]
    have hne : ofRows cs (r0 :: rest) ≠ [] := by
      intro he
      have := ofRows_cols cs (r0 :: rest)
      rw [he] at this
      exact hk this.symm
    have hlen : (ofRows cs (r0 :: rest)).length > 0 := List.length_pos_iff.2 hne
    have hrestrict := restrict_self hnd
    rw [ofRows_cols] at hrestrict
    simp only [construct, hdc, List.map_nil, ofPairs, List.foldl_nil, updateWith_nil]
    change some (Table.finish (if (ofPairs (ofRows cs (r0 :: rest))).length > 0 then
        ofPairs (cs.map fun k => (k, ((ofPairs (ofRows cs (r0 :: rest))).col? k).getD [Cell.none]))
      else ofPairs (cs.map fun k => (k, [])))) = _
    rw [ofPairs_self_of_nodup _ hnd, if_pos hlen, hrestrict, finish_rect (ofRows_rect cs _)]

/-! ### derived columns, renaming, projection -/

/-- `d(k = f)` / `d[k] = d[f]`: the new column holds `f(row)` for every row, every other column is
untouched, and the table keeps its rows -/
theorem derived_column (t t' : Table) (n : Nat) (hr : t.Rect n) (hne : t ≠ []) (k : String) (f : Fn)
    (h : t.setFn (k, f) = .ok t') :
    ∃ vs, t'.col? k = some vs ∧ vs.length = n ∧
      (∀ i (hi : i < vs.length), f.eval (keyDflt k (t.cellAt i)) = .ok vs[i]) ∧
      (∀ k', k' ≠ k → t'.col? k' = t.col? k') ∧ t'.Rect n := by
  unfold setFn applyFnK at h
  split at h
  · cases h
  · rename_i vs hvs
    have hlen : vs.length = n := by
      have := mapE_ok_length hvs
      simpa [nrows_of_rect hr hne] using this
    have hset : t.setitem k (.many vs) = .ok (t.set k vs) := by
      have hemp : t.isEmpty = false := by cases t <;> simp_all
      simp [setitem, len_rect hr hne, ColVal.value, hlen]
    simp only at h
    rw [hset] at h
    cases h
    refine ⟨vs, by simp [col?_set], hlen, ?_, fun k' hk' => by simp [col?_set, hk'], set_rect hr hlen⟩
    intro i hi
    have := mapE_ok_getElem hvs i (by simpa [mapE_ok_length hvs] using hi) hi
    simpa using this

/-- `d(**kw)` evaluates the constants first (`res.update`, so a misfit raises before any callable runs)
and then the callable; with a single callable there is no dependency loop: the result is the operand
updated with the constants, then with the derived column (`derived_column`) -/
theorem call_single (t : Table) (consts : List (String × ColVal)) (k : String) (f : Fn) :
    t.call consts [(k, f)] =
      match t.updateE consts with
      | .error e => .error e
      | .ok res => res.setFn (k, f) := by
  unfold call
  cases t.updateE consts with
  | error e => rfl
  | ok res =>
    simp only [callLoop, List.length_cons, List.length_nil, Nat.lt_irrefl, if_false, setFns]
    cases res.setFn (k, f) <;> rfl

/-- `d.do(f, k)` on an existing column: the column becomes `f(value, **others)` row by row, every other
column is untouched -/
theorem do_column (t t' : Table) (n : Nat) (hr : t.Rect n) (hne : t ≠ []) (f : DoFn) (k : String)
    (col : List Cell) (hcol : t.col? k = some col) (h : t.doKey f k = .ok t') :
    ∃ vs, t'.col? k = some vs ∧ vs.length = n ∧
      (∀ i (hi : i < vs.length), f.eval (col.getD i .none) (t.cellAt i) = .ok vs[i]) ∧
      (∀ k', k' ≠ k → t'.col? k' = t.col? k') ∧ t'.Rect n := by
  unfold doKey at h
  split at h
  · cases h
  · rename_i vs hvs
    have hlen : vs.length = n := by
      have := mapE_ok_length hvs
      simpa [nrows_of_rect hr hne] using this
    have hset : t.setitem k (.many vs) = .ok (t.set k vs) := by
      have hemp : t.isEmpty = false := by cases t <;> simp_all
      simp [setitem, len_rect hr hne, ColVal.value, hlen]
    rw [hset] at h
    cases h
    refine ⟨vs, by simp [col?_set], hlen, ?_, fun k' hk' => by simp [col?_set, hk'], set_rect hr hlen⟩
    intro i hi
    have := mapE_ok_getElem hvs i (by simpa [mapE_ok_length hvs] using hi) hi
    simpa [cellAt, hcol] using this

/-- renaming without collisions renames the columns in place and keeps every record -/
theorem relabel_rows (t : Table) (r : Relabel) (hinj : (t.cols.map r.key).Nodup) :
    (t.relabel r).cols = t.cols.map r.key ∧ (t.relabel r).rows = t.rows ∧
      (t.relabel r).map (·.2) = t.map (·.2) := by
  have h : t.relabel r = t.map fun c => (r.key c.1, c.2) := by
    unfold relabel
    apply ofPairs_of_nodup
    simpa [cols, List.map_map, Function.comp_def] using hinj
  rw [h]
  refine ⟨by simp [cols, List.map_map, Function.comp_def], ?_, by simp [List.map_map, Function.comp_def]⟩
  cases t with
  | nil => rfl
  | cons c t => simp [rows, nrows, row, List.map_map, Function.comp_def]

/-- projection on distinct existing columns: exactly those columns, in the requested order, unchanged -/
theorem proj_cols (t t' : Table) (ks : List String) (hks : ks ≠ []) (hn : ks.Nodup)
    (h : t.getProj ks = .ok t') :
    t'.cols = ks ∧ ∀ k ∈ ks, t'.col? k = t.col? k ∧ (t.col? k).isSome := by
  unfold getProj at h
  have : ks.isEmpty = false := by cases ks <;> simp_all
  simp only [this, Bool.false_eq_true, if_false] at h
  split at h
  · cases h
  · rename_i kvs hkvs
    cases h
    -- every pair is (k, column k of t)
    have hall : ∀ (ks : List String) (kvs : List (String × List Cell)),
        mapE (fun k => match t.getColE k with | .ok c => Except.ok (k, c) | .error e => .error e) ks = .ok kvs →
        kvs.map (·.1) = ks ∧ ∀ kv ∈ kvs, t.col? kv.1 = some kv.2 := by
      intro ks
      induction ks with
      | nil => intro kvs h; simp [mapE] at h; subst h; simp
      | cons k ks ih =>
        intro kvs h
        simp only [mapE] at h
        split at h
        · cases h
        · rename_i y hy
          split at h
          · cases h
          · rename_i ys hys
            cases h
            obtain ⟨h1, h2⟩ := ih ys hys
            unfold getColE at hy
            cases hc : t.col? k with
            | none => simp [hc] at hy
            | some c =>
              simp only [hc, Except.ok.injEq] at hy
              subst hy
              refine ⟨by simp [h1], ?_⟩
              intro kv hkv
              rcases List.mem_cons.1 hkv with rfl | hm
              · exact hc
              · exact h2 kv hm
    obtain ⟨h1, h2⟩ := hall ks kvs hkvs
    have hof : ofPairs kvs = kvs := ofPairs_of_nodup kvs (by rw [h1]; exact hn)
    rw [hof]
    refine ⟨h1, ?_⟩
    intro k hk
    rw [← h1] at hk
    obtain ⟨kv, hkv, rfl⟩ := List.mem_map.1 hk
    have hc := h2 kv hkv
    refine ⟨?_, by simp [hc]⟩
    rw [hc]
    -- the first pair with key kv.1 is kv itself (keys are distinct)
    have hnd : (kvs.map (·.1)).Nodup := by rw [h1]; exact hn
    clear hof h1 h2 hkvs hk
    unfold col?
    induction kvs with
    | nil => cases hkv
    | cons a as ih =>
      rw [List.map_cons, List.nodup_cons] at hnd
      simp only [List.find?_cons]
      rcases List.mem_cons.1 hkv with rfl | hm
      · simp
      · have : (a.1 == kv.1) = false := by
          have : a.1 ≠ kv.1 := fun he => hnd.1 (he ▸ List.mem_map.2 ⟨kv, hm, rfl⟩)
          simpa using this
        simp only [this]
        exact ih hm hnd.2

/-! ### the plain list-of-records machine and the refinement statements in its terms

`Recs` is the reference the property text speaks of: column names and a list of records.  `abs` reads a
dictable as records.  Each `abs_*` theorem says: the model's operation, seen through `abs`, IS the
list-of-records operation (they repackage `mask_rows`, `take_rows`, `slice_rows`, `relabel_rows`,
`len_shape`, `iter_rows`). -/

theorem abs_mask (t : Table) (n : Nat) (hr : t.Rect n) (hne : t ≠ []) (m : List Bool) (hm : m.length = n) :
    ∃ t', t.getMask m = .ok t' ∧ abs t' = (abs t).mask m := by
  obtain ⟨t', h1, h2, h3⟩ := mask_rows t n hr hne m hm
  exact ⟨t', h1, by simp [abs, Recs.mask, h2, h3]⟩

theorem abs_take (t : Table) (n : Nat) (hr : t.Rect n) (hne : t ≠ []) (is : List Int) :
    (∀ t', t.getTake is = .ok t' → (abs t).take is = .ok (abs t')) ∧
    (∀ e, t.getTake is = .error e → (abs t).take is = .error e) := by
  have hlen : (abs t).rows.length = n := rows_length hr hne
  constructor
  · intro t' h
    obtain ⟨h1, h2, h3⟩ := take_rows t t' n hr hne is h
    have hl : t.rows.length = n := hlen
    have hall : (is.all fun i => (pyIdx (abs t).rows.length i).isSome) = true := by
      rw [hlen]; exact List.all_eq_true.2 h2
    unfold Recs.take
    rw [if_pos hall, hlen]
    simp only [abs, h1, h3]
    congr 2
    apply filterMap_congr'
    intro i _
    cases hp : pyIdx n i with
    | none => rfl
    | some j =>
      have hj : j < n := by
        unfold pyIdx at hp
        split at hp
        · cases hp; omega
        · split at hp
          · cases hp; omega
          · cases hp
      have := abs_rows_getD t n hr hne j hj
      simp only [Option.map_some]
      rw [this]
  · intro e h
    unfold getTake at h
    rw [nrows_of_rect hr hne] at h
    split at h
    · cases h
    · split at h
      · rename_i e' he'
        cases h
        obtain ⟨he, i, hi, hnone⟩ := mapE_pyIdx_error he'
        subst he
        have hbad : ¬ (is.all fun i => (pyIdx (abs t).rows.length i).isSome) = true := by
          rw [hlen]
          intro hall
          have := List.all_eq_true.1 hall i hi
          simp [hnone] at this
        simp only [Recs.take]
        rw [if_neg hbad]
      · cases h

theorem abs_slice (t : Table) (n : Nat) (hr : t.Rect n) (hne : t ≠ []) (a b : Option Int) (s : Int) (hs : s ≠ 0) :
    ∃ t', t.getSlice a b (some s) = .ok t' ∧ abs t' = (abs t).slice a b s := by
  obtain ⟨t', h1, h2, h3⟩ := slice_rows t n hr hne a b (some s) (by simpa using hs)
  refine ⟨t', h1, ?_⟩
  have hlen : t.rows.length = n := rows_length hr hne
  simp only [abs, Recs.slice, h2, h3, hlen, Option.getD_some, Recs.mk.injEq, true_and]
  apply List.map_congr_left
  intro j hj
  exact (abs_rows_getD t n hr hne j (sliceIdx_lt n a b s hs j hj)).symm

theorem abs_relabel (t : Table) (r : Relabel) (hinj : (t.cols.map r.key).Nodup) :
    abs (t.relabel r) = (abs t).rename r.key := by
  obtain ⟨h1, h2, _⟩ := relabel_rows t r hinj
  simp [abs, Recs.rename, h1, h2]

/-- **concatenation refines list-of-records concatenation** -/
theorem abs_concat (ts : List Table) (hr : ∀ t ∈ ts, ∃ n, t.Rect n) :
    abs (Table.concat ts) = Recs.concat (ts.map abs) := by
  have hkeys : (ts.map abs).flatMap Recs.cols = ts.flatMap Table.cols := by
    simp [List.flatMap_map, abs]
  have hcols : (Table.concat ts).cols = dedupKeys (ts.flatMap Table.cols) := by
    simp [Table.concat, cols, List.map_map, Function.comp_def]
  unfold abs Recs.concat
  simp only [hkeys, hcols, Recs.mk.injEq, true_and, List.flatMap_map]
  by_cases hk : (Table.concat ts).cols = []
  · -- no columns anywhere: no rows anywhere
    have hnil : ∀ t ∈ ts, t = [] := by
      intro t ht
      cases t with
      | nil => rfl
      | cons c t' =>
        exfalso
        have : c.1 ∈ (Table.concat ts).cols := (concat_cols ts c.1).2 ⟨_, ht, by simp [cols]⟩
        rw [hk] at this; cases this
    have h1 : (Table.concat ts).rows = [] := by
      have : Table.concat ts = [] := by
        cases hc : Table.concat ts with
        | nil => rfl
        | cons c t' => rw [hc] at hk; simp [cols] at hk
      rw [this]; rfl
    rw [h1]
    symm
    apply List.flatMap_eq_nil_iff.2
    intro t ht
    rw [hnil t ht]; rfl
  · rw [concat_rows ts hr hk, hcols]
    congr 1
    funext t
    simp only [rows, List.map_map]
    apply List.map_congr_left
    intro i _
    apply List.map_congr_left
    intro k _
    exact (lookup_row t i k).symm

/-- len / iteration through `abs`: `len(d)` is the number of records, `list(d)` are the records zipped
with the column names -/
theorem abs_len_iter (t : Table) (n : Nat) (hr : t.Rect n) :
    t.len = .ok (abs t).rows.length ∧ t.iter = (abs t).rows.map fun r => (abs t).cols.zip r := by
  refine ⟨?_, rfl⟩
  rw [len_rect' hr]; simp [abs, rows]

/-! ### the simulation theorem: the history machine refines the list-of-records machine

`specStep` (PygModel/TableSpec.lean) runs every `Op` on a heap of `Recs`, record by record.  `abs_step`: one
step of the dictable machine, seen through `abs`, is one step of the list-of-records machine — same new
heap, same outcome (value, alias, `err ValueError/KeyError/IndexError/TypeError`, bad handle) — for EVERY
operation and all arguments.  The only hypothesis is the history invariant `HeapRect` (`rect_run`); distinct
column names are not needed.  `abs_run` lifts it to operation lists by induction. -/

theorem absStep_step (s : Heap) (op : Op) (hs : HeapRect s) :
    absStep (step s op) = specStep (s.map abs) op := by
  cases op with
  | new dst data columns kwargs =>
    simp only [step, specStep]
    rw [← abs_construct]
    cases construct data columns kwargs with
    | none => rfl
    | some r => exact absStep_bind s dst r
  | setitem h k v =>
    simp only [step, specStep, List.getElem?_map]
    cases ht : s[h]? with
    | none => rfl
    | some t =>
      obtain ⟨n, hn⟩ := hs.get ht
      simp only [Option.map_some, ← abs_setitem hn]
      cases t.setitem k v with
      | error e => rfl
      | ok t' => simp only [absStep, Except.map, List.map_set]
  | delitem h k =>
    simp only [step, specStep, List.getElem?_map]
    cases ht : s[h]? with
    | none => rfl
    | some t =>
      obtain ⟨n, hn⟩ := hs.get ht
      simp only [Option.map_some, ← abs_delitem hn]
      cases t.delitem k with
      | error e => rfl
      | ok t' => simp only [absStep, Except.map, List.map_set]
  | update h kvs =>
    simp only [step, specStep, List.getElem?_map]
    cases ht : s[h]? with
    | none => rfl
    | some t =>
      obtain ⟨n, hn⟩ := hs.get ht
      simp only [Option.map_some, abs_update hn]
      cases t.update kvs with
      | mk t' oe => cases oe <;> simp only [absStep, List.map_set]
  | len h =>
    simp only [step, specStep, List.getElem?_map]
    cases ht : s[h]? with
    | none => rfl
    | some t =>
      obtain ⟨n, hn⟩ := hs.get ht
      simp only [Option.map_some, absStep_query, len_abs hn]
      rfl
  | shape h =>
    simp only [step, specStep, List.getElem?_map]
    cases ht : s[h]? with
    | none => rfl
    | some t =>
      obtain ⟨n, hn⟩ := hs.get ht
      simp only [Option.map_some, absStep_query, len_abs hn]
      simp [Except.map, abs_cols, cols]
  | row h i =>
    simp only [step, specStep, List.getElem?_map]
    cases ht : s[h]? with
    | none => rfl
    | some t =>
      obtain ⟨n, hn⟩ := hs.get ht
      simp only [Option.map_some, absStep_query, abs_getRow hn]
  | col h k =>
    simp only [step, specStep, List.getElem?_map]
    cases ht : s[h]? with
    | none => rfl
    | some t =>
      obtain ⟨n, hn⟩ := hs.get ht
      simp only [Option.map_some, absStep_query, abs_getColE hn]
  | iter h =>
    simp only [step, specStep, List.getElem?_map]
    cases ht : s[h]? with
    | none => rfl
    | some t => simp only [Option.map_some, absStep_query, abs_iter]
  | tup h ks =>
    simp only [step, specStep, List.getElem?_map]
    cases ht : s[h]? with
    | none => rfl
    | some t =>
      obtain ⟨n, hn⟩ := hs.get ht
      simp only [Option.map_some, absStep_query, abs_getTuple hn]
  | apply h f =>
    simp only [step, specStep, List.getElem?_map]
    cases ht : s[h]? with
    | none => rfl
    | some t => simp only [Option.map_some, absStep_query, abs_applyFn t]
  | slice dst h a b st =>
    simp only [step, specStep, List.getElem?_map]
    cases ht : s[h]? with
    | none => rfl
    | some t =>
      obtain ⟨n, hn⟩ := hs.get ht
      exact absStep_bind' s dst (abs_getSlice hn a b st)
  | mask dst h m =>
    simp only [step, specStep, List.getElem?_map]
    cases ht : s[h]? with
    | none => rfl
    | some t => exact absStep_bind' s dst (abs_getMaskC t m)
  | take dst h is =>
    simp only [step, specStep, List.getElem?_map]
    cases ht : s[h]? with
    | none => rfl
    | some t =>
      obtain ⟨n, hn⟩ := hs.get ht
      exact absStep_bind' s dst (abs_getTake hn is)
  | proj dst h ks =>
    simp only [step, specStep, List.getElem?_map]
    cases ht : s[h]? with
    | none => rfl
    | some t =>
      obtain ⟨n, hn⟩ := hs.get ht
      exact absStep_bind' s dst (abs_getProj hn ks)
  | call dst h consts fns =>
    simp only [step, specStep, List.getElem?_map]
    cases ht : s[h]? with
    | none => rfl
    | some t =>
      obtain ⟨n, hn⟩ := hs.get ht
      exact absStep_bind' s dst (abs_call hn consts fns)
  | relabel dst h r =>
    simp only [step, specStep, List.getElem?_map]
    cases ht : s[h]? with
    | none => rfl
    | some t =>
      obtain ⟨n, hn⟩ := hs.get ht
      exact absStep_bind' s dst (congrArg Except.ok (abs_relabel_any hn r))
  | doo dst h f keys =>
    simp only [step, specStep, List.getElem?_map]
    cases ht : s[h]? with
    | none => rfl
    | some t =>
      obtain ⟨n, hn⟩ := hs.get ht
      exact absStep_bind' s dst (abs_doCols hn f keys)
  | concat dst hs' =>
    simp only [step, specStep, mapM_getElem?_abs]
    cases hm : hs'.mapM (fun h => s[h]?) with
    | none => rfl
    | some ts =>
      have hrect : ∀ t ∈ ts, ∃ n, t.Rect n := fun t ht => hs t (mem_of_mapM_getElem? hs' ts hm t ht)
      match ts, hrect with
      | [], _ => exact absStep_bind' s dst rfl
      | [_], _ => rfl
      | t1 :: t2 :: ts, hrect =>
        exact absStep_bind' s dst (congrArg Except.ok (abs_concat (t1 :: t2 :: ts) hrect))
  | addrec dst h r =>
    simp only [step, specStep, List.getElem?_map]
    cases ht : s[h]? with
    | none => rfl
    | some t =>
      simp only [Option.map_some, ← abs_construct]
      cases hc : construct (Data.cols (r.map fun kv => (kv.1, ColVal.one kv.2))) Option.none [] with
      | none => rfl
      | some r2 =>
        cases r2 with
        | error e => rfl
        | ok t2 =>
          have hrect : ∀ x ∈ [t, t2], ∃ n, x.Rect n := by
            intro x hx
            simp only [List.mem_cons, List.not_mem_nil, or_false] at hx
            rcases hx with rfl | rfl
            · exact hs.get ht
            · exact construct_rect hc
          exact absStep_bind' s dst (congrArg Except.ok (abs_concat [t, t2] hrect))
  | addnone h =>
    simp only [step, specStep, List.getElem?_map]
    cases ht : s[h]? <;> rfl
  | copy dst h =>
    simp only [step, specStep, List.getElem?_map]
    cases ht : s[h]? with
    | none => rfl
    | some t => exact absStep_bind' s dst rfl


/-- **simulation, one step** (DESIGN §14) -/
theorem abs_step (s : Heap) (op : Op) (hs : HeapRect s) :
    (step s op).1.map abs = (specStep (s.map abs) op).1 ∧ (step s op).2 = (specStep (s.map abs) op).2 := by
  have h := absStep_step s op hs
  exact ⟨congrArg Prod.fst h, congrArg Prod.snd h⟩

/-- **simulation, any history**: the heap after any operation list is, through `abs`, the heap of the
list-of-records machine after the same list, and the two machines produce the same outcomes line by line -/
theorem abs_run (ops : List Op) (s : Heap) (hs : HeapRect s) :
    (run s ops).map abs = specRun (s.map abs) ops ∧ stepTrace s ops = specTrace (s.map abs) ops := by
  induction ops generalizing s with
  | nil => exact ⟨rfl, rfl⟩
  | cons op ops ih =>
    obtain ⟨h1, h2⟩ := abs_step s op hs
    obtain ⟨i1, i2⟩ := ih _ (rect_step s op hs)
    simp only [run, specRun, stepTrace, specTrace]
    rw [← h1, ← h2]
    exact ⟨i1, by rw [i2]⟩

/-- from the empty heap there is no hypothesis left -/
theorem abs_run_empty (ops : List Op) :
    (run [] ops).map abs = specRun [] ops ∧ stepTrace [] ops = specTrace [] ops :=
  abs_run ops [] HeapRect.nil

/-! ### derived columns with several callables, `update`, tuple projection -/

/-- `d(**kw)`: the constants are assigned first (`update`; a misfit raises before any callable runs), then
EVERY callable is evaluated exactly once (`order` is a permutation of the callables), row-wise
(`setFns` = one `derived_column` after the other), in a dependency order: no callable reads a key that a
callable evaluated after it defines (`DepOrder`).  Keyword names are distinct (python keyword arguments). -/
theorem call_order (t t' : Table) (consts : List (String × ColVal)) (fns : List (String × Fn))
    (hn : (fns.map (·.1)).Nodup) (h : t.call consts fns = .ok t') :
    ∃ res order, t.updateE consts = .ok res ∧ order.Perm fns ∧ res.setFns order = .ok t' ∧ DepOrder order := by
  unfold call at h
  split at h
  · cases h
  · rename_i res hres
    obtain ⟨order, h1, h2, h3⟩ := callLoop_order fns.length res t' fns hn (Nat.le_refl _) h
    exact ⟨res, order, hres, h1, h2, h3⟩

/-- the dependency loop raises `ValueError` only for a circular definition: a stage with two or more
pending callables each of which reads a pending key.  (A derived column itself always fits; a callable can
only fail with TypeError — `setFn_error`.) -/
theorem call_circular (t res : Table) (n : Nat) (hr : t.Rect n) (consts : List (String × ColVal))
    (fns : List (String × Fn)) (hres : t.updateE consts = .ok res)
    (h : t.call consts fns = .error .value) :
    ∃ pending : List (String × Fn), pending.Sublist fns ∧ pending.length > 1 ∧
      ∀ kf ∈ pending, ∃ a ∈ kf.2.args, a ∈ pending.map (·.1) := by
  unfold call at h
  rw [hres] at h
  obtain ⟨n', hn'⟩ := updateE_rect hr hres
  exact callLoop_value_error _ hn' fns h

/-- `d.update(other)` on a table with columns, every value of the table's length or of length 1: the
result is `dict.update` with the length-1 values repeated; the row count is kept -/
theorem update_all (t : Table) (n : Nat) (hr : t.Rect n) (hne : t ≠ []) (kvs : List (String × ColVal))
    (hfit : ∀ kv ∈ kvs, kv.2.value.length = n ∨ kv.2.value.length = 1) :
    t.update kvs = (t.updateWith (kvs.map fun kv => (kv.1, bcast n kv.2.value)), Option.none) ∧
    (t.updateWith (kvs.map fun kv => (kv.1, bcast n kv.2.value))).Rect n := by
  refine ⟨update_fits hr hne kvs hfit, updateWith_rect hr ?_⟩
  intro kv hkv
  obtain ⟨kv', hkv', rfl⟩ := List.mem_map.1 hkv
  exact bcast_length (hfit kv' hkv')

/-- `d.update(other)` whose first non-fitting value is `v`: `ValueError`, the assignments before it stay,
nothing after it is assigned -/
theorem update_misfit (t : Table) (n : Nat) (hr : t.Rect n) (hne : t ≠ [])
    (pre post : List (String × ColVal)) (k : String) (v : ColVal)
    (hfit : ∀ kv ∈ pre, kv.2.value.length = n ∨ kv.2.value.length = 1)
    (hbad : v.value.length ≠ n ∧ v.value.length ≠ 1) :
    t.update (pre ++ (k, v) :: post) =
      (t.updateWith (pre.map fun kv => (kv.1, bcast n kv.2.value)), some .value) := by
  obtain ⟨h1, h2⟩ := update_all t n hr hne pre hfit
  rw [update_append, h1]
  simp only [update]
  rw [(setitem_reject _ n h2 (updateWith_ne_nil hne _) k v).2 hbad]

/-- `d[k1, k2, ...]`: `KeyError` unless every key is a column; otherwise one tuple per record holding the
named fields in the requested order (no tuple at all for an empty key list) -/
theorem tup_rows (t : Table) (n : Nat) (hr : t.Rect n) (ks : List String) :
    t.getTuple ks =
      if ks.all t.cols.contains then
        .ok (if ks.isEmpty then [] else t.rows.map fun row => ks.map fun k => Recs.lookup t.cols row k)
      else .error .key :=
  abs_getTuple hr ks

/-! ### the column order of a concatenation

`dict_concat` takes the keys from a python `set`, so the column order of `concat` / `+` / records
construction is not determined by the code; model and reference machine use the order of first appearance
and the correspondence compares tables as dicts.  Any other key order gives the same records up to a
permutation of the columns: -/

/-- two lists of records that differ only in the order of their columns -/
def RecsEquiv (a b : Recs) : Prop :=
  a.cols.Perm b.cols ∧ a.rows.length = b.rows.length ∧
    ∀ i k, Recs.lookup a.cols (a.rows.getD i []) k = Recs.lookup b.cols (b.rows.getD i []) k

theorem concat_keys_perm (keys keys' : List String) (h : keys'.Perm keys) (rs : List Recs) :
    RecsEquiv (Recs.concatWith keys' rs) (Recs.concatWith keys rs) ∧
    Recs.concat rs = Recs.concatWith (dedupKeys (rs.flatMap Recs.cols)) rs := by
  refine ⟨⟨h, ?_, ?_⟩, rfl⟩
  · simp [Recs.concatWith, List.length_flatMap]
  · intro i k
    have hrows : ∀ ks : List String, (Recs.concatWith ks rs).rows =
        (rs.flatMap fun r => r.rows.map fun row => (r.cols, row)).map
          fun p => ks.map fun k => Recs.lookup p.1 p.2 k := by
      intro ks
      simp [Recs.concatWith, List.map_flatMap, List.map_map, Function.comp_def]
    rw [hrows, hrows]
    simp only [Recs.concatWith, List.getD_eq_getElem?_getD, List.getElem?_map]
    cases (rs.flatMap fun r => r.rows.map fun row => (r.cols, row))[i]? with
    | none => simp [Recs.lookup]
    | some p =>
      simp only [Option.map_some, Option.getD_some, lookup_map_keys]
      by_cases hk : k ∈ keys
      · rw [if_pos hk, if_pos (h.mem_iff.2 hk)]
      · rw [if_neg hk, if_neg (fun hk' => hk (h.mem_iff.1 hk'))]

/-- whatever order the code's `set` yields for the keys of `concat(t1, t2, ...)`, the records are those of
the model's result up to the order of the columns -/
theorem concat_any_order (ts : List Table) (hr : ∀ t ∈ ts, ∃ n, t.Rect n) (keys' : List String)
    (h : keys'.Perm (Table.concat ts).cols) :
    RecsEquiv (Recs.concatWith keys' (ts.map abs)) (abs (Table.concat ts)) := by
  have hcols : (Table.concat ts).cols = dedupKeys ((ts.map abs).flatMap Recs.cols) := by
    simp only [Table.concat, cols, List.map_map, Function.comp_def, List.flatMap_map, abs, List.map_id']
    rfl
  rw [abs_concat ts hr]
  rw [hcols] at h
  exact (concat_keys_perm _ keys' h (ts.map abs)).1

/-- tables that differ only in the order of their columns cannot be told apart by `len`, `d[k]` or
`d[k1, k2, ...]` (a record read as a dict does not depend on the order either: the third clause of
`RecsEquiv`) -/
theorem equiv_observe (a b : Recs) (h : RecsEquiv a b) :
    a.rows.length = b.rows.length ∧ (∀ k, a.getCol k = b.getCol k) ∧ (∀ ks, a.getTuple ks = b.getTuple ks) := by
  obtain ⟨hp, hl, hc⟩ := h
  have hcont : ∀ k, a.cols.contains k = b.cols.contains k := by
    intro k
    cases hb : b.cols.contains k with
    | true => exact List.contains_iff_mem.2 (hp.mem_iff.2 (List.contains_iff_mem.1 hb))
    | false =>
      cases ha : a.cols.contains k with
      | false => rfl
      | true =>
        have := List.contains_iff_mem.2 (hp.mem_iff.1 (List.contains_iff_mem.1 ha))
        rw [hb] at this; cases this
  have hmap : ∀ (F : String → List Cell → Cell) (G : String → List Cell → Cell) (ks : List String),
      (∀ i k, F k (a.rows.getD i []) = G k (b.rows.getD i [])) →
      (a.rows.map fun row => ks.map fun k => F k row) = b.rows.map fun row => ks.map fun k => G k row := by
    intro F G ks hFG
    apply List.ext_getElem
    · simp [hl]
    · intro i h1 h2
      simp only [List.getElem_map]
      apply List.map_congr_left
      intro k _
      have h1' : i < a.rows.length := by simpa using h1
      have h2' : i < b.rows.length := by simpa using h2
      have := hFG i k
      simpa [List.getD_eq_getElem?_getD, h1', h2'] using this
  refine ⟨hl, ?_, ?_⟩
  · intro k
    unfold Recs.getCol
    rw [hcont k]
    split
    · apply congrArg Except.ok
      have := hmap (fun k row => Recs.lookup a.cols row k) (fun k row => Recs.lookup b.cols row k) [k]
        (fun i k => hc i k)
      have := congrArg (List.map fun r => r.headD Cell.none) this
      simpa [List.map_map, Function.comp_def] using this
    · rfl
  · intro ks
    unfold Recs.getTuple
    have : ks.all a.cols.contains = ks.all b.cols.contains := by
      congr 1
      funext k
      exact hcont k
    rw [this]
    split
    · apply congrArg Except.ok
      split
      · rfl
      · exact hmap (fun k row => Recs.lookup a.cols row k) (fun k row => Recs.lookup b.cols row k) ks
          (fun i k => hc i k)
    · rfl

/-- every record of every table the list-of-records machine can reach has exactly one cell per column -/
theorem spec_reachable_aligned (ops : List Op) :
    ∀ r ∈ specRun [] ops, ∀ row ∈ r.rows, row.length = r.cols.length := by
  intro r hr row hrow
  rw [← (abs_run_empty ops).1] at hr
  obtain ⟨t, _, rfl⟩ := List.mem_map.1 hr
  simp only [abs, rows, List.mem_map] at hrow
  obtain ⟨i, _, rfl⟩ := hrow
  simp [row, abs, cols]

/-! ### stretch: associativity of concatenation, columns of a masked table -/

/-- **concatenation is associative**: `(d1 + d2) + d3` and `d1 + (d2 + d3)` are both `concat(d1, d2, d3)` —
same columns in the same order, same records -/
theorem concat_assoc (a b c : Recs) :
    Recs.concat [Recs.concat [a, b], c] = Recs.concat [a, b, c] ∧
    Recs.concat [a, Recs.concat [b, c]] = Recs.concat [a, b, c] := by
  have hdef : ∀ rs : List Recs, Recs.concat rs = ⟨dedupKeys (rs.flatMap Recs.cols),
      rs.flatMap fun r => r.rows.map fun row => (dedupKeys (rs.flatMap Recs.cols)).map fun k =>
        Recs.lookup r.cols row k⟩ := fun _ => rfl
  have hcols2 : ∀ x y : Recs, (Recs.concat [x, y]).cols = dedupKeys (x.cols ++ y.cols) := by
    intro x y; simp [Recs.concat]
  have hrows2 : ∀ x y : Recs, (Recs.concat [x, y]).rows =
      (x.rows.map fun row => (dedupKeys (x.cols ++ y.cols)).map fun k => Recs.lookup x.cols row k) ++
      (y.rows.map fun row => (dedupKeys (x.cols ++ y.cols)).map fun k => Recs.lookup y.cols row k) := by
    intro x y; simp [Recs.concat]
  constructor
  · have hK : dedupKeys ([Recs.concat [a, b], c].flatMap Recs.cols) = dedupKeys ([a, b, c].flatMap Recs.cols) := by
      simp only [List.flatMap_cons, List.flatMap_nil, List.append_nil, hcols2]
      rw [dedupKeys_dedup_left, List.append_assoc]
    rw [hdef [Recs.concat [a, b], c], hdef [a, b, c], hK]
    simp only [List.flatMap_cons, List.flatMap_nil, List.append_nil, List.map_append, List.map_map,
      Function.comp_def, List.append_assoc, Recs.mk.injEq, true_and, hrows2, hcols2]
    congr 1
    · apply List.map_congr_left
      intro row _
      exact lookup_through _ _ a.cols row (fun k hk => by rw [mem_dedupKeys]; simp [hk])
    · congr 1
      apply List.map_congr_left
      intro row _
      exact lookup_through _ _ b.cols row (fun k hk => by rw [mem_dedupKeys]; simp [hk])
  · have hK : dedupKeys ([a, Recs.concat [b, c]].flatMap Recs.cols) = dedupKeys ([a, b, c].flatMap Recs.cols) := by
      simp only [List.flatMap_cons, List.flatMap_nil, List.append_nil, hcols2]
      rw [dedupKeys_dedup_right]
    rw [hdef [a, Recs.concat [b, c]], hdef [a, b, c], hK]
    simp only [List.flatMap_cons, List.flatMap_nil, List.append_nil, List.map_append, List.map_map,
      Function.comp_def, Recs.mk.injEq, true_and, hrows2, hcols2]
    congr 2
    · apply List.map_congr_left
      intro row _
      exact lookup_through _ _ b.cols row (fun k hk => by rw [mem_dedupKeys]; simp [hk])
    · apply List.map_congr_left
      intro row _
      exact lookup_through _ _ c.cols row (fun k hk => by rw [mem_dedupKeys]; simp [hk])

/-- on dictables (through `abs`): `concat(concat(t1, t2), t3)`, `concat(t1, concat(t2, t3))` and
`concat(t1, t2, t3)` have the same columns and records -/
theorem concat_assoc_abs (t1 t2 t3 : Table) (h1 : ∃ n, t1.Rect n) (h2 : ∃ n, t2.Rect n) (h3 : ∃ n, t3.Rect n) :
    abs (Table.concat [Table.concat [t1, t2], t3]) = abs (Table.concat [t1, t2, t3]) ∧
    abs (Table.concat [t1, Table.concat [t2, t3]]) = abs (Table.concat [t1, t2, t3]) := by
  have r12 : ∃ n, (Table.concat [t1, t2]).Rect n := ⟨_, concat_rect (by
    intro t ht; simp at ht; rcases ht with rfl | rfl <;> assumption)⟩
  have r23 : ∃ n, (Table.concat [t2, t3]).Rect n := ⟨_, concat_rect (by
    intro t ht; simp at ht; rcases ht with rfl | rfl <;> assumption)⟩
  have e12 : abs (Table.concat [t1, t2]) = Recs.concat [abs t1, abs t2] := abs_concat _ (by
    intro t ht; simp at ht; rcases ht with rfl | rfl <;> assumption)
  have e23 : abs (Table.concat [t2, t3]) = Recs.concat [abs t2, abs t3] := abs_concat _ (by
    intro t ht; simp at ht; rcases ht with rfl | rfl <;> assumption)
  have e123 : abs (Table.concat [t1, t2, t3]) = Recs.concat [abs t1, abs t2, abs t3] := abs_concat _ (by
    intro t ht; simp at ht; rcases ht with rfl | rfl | rfl <;> assumption)
  constructor
  · rw [abs_concat _ (by intro t ht; simp at ht; rcases ht with rfl | rfl <;> assumption), e123]
    simp only [List.map_cons, List.map_nil, e12]
    exact (concat_assoc _ _ _).1
  · rw [abs_concat _ (by intro t ht; simp at ht; rcases ht with rfl | rfl <;> assumption), e123]
    simp only [List.map_cons, List.map_nil, e23]
    exact (concat_assoc _ _ _).2

/-- `d[mask][c]` is `d[c]` filtered by the mask (a mask with one flag per row) -/
theorem mask_col (t t' : Table) (n : Nat) (hr : t.Rect n) (hne : t ≠ []) (m : List Bool) (hm : m.length = n)
    (h : t.getMask m = .ok t') (k : String) :
    t'.getColE k = (t.getColE k).map fun c => ((c.zip m).filter (·.2)).map (·.1) := by
  obtain ⟨t'', h1, h2⟩ := abs_mask t n hr hne m hm
  rw [h] at h1
  cases h1
  obtain ⟨n', hn'⟩ := getMask_rect h
  rw [abs_getColE hn', abs_getColE hr, h2]
  unfold Recs.getCol Recs.mask
  simp only
  split
  · simp only [Except.map, List.map_map]
    congr 1
    rw [List.zip_map_left, List.filter_map, List.map_map]
    rfl
  · rfl

/-! ### closed forms on the reference machine -/

/-- on the reference machine: rows + header (every row as long as the header) are exactly those records -/
theorem spec_new_rows (cs : List String) (rs : List (List Cell)) (hcs : cs.Nodup) (hk : cs ≠ [])
    (hrs : ∀ r ∈ rs, r.length = cs.length) :
    Recs.construct (.rows rs) (some cs) [] = some (.ok ⟨cs, rs⟩) := by
  obtain ⟨h1, _, h3, h4⟩ := new_rows cs rs hcs hk hrs
  rw [← abs_construct, h1]
  simp [Except.map, abs, h3, h4]

/-- on the reference machine: a non-empty list of records (dicts) is read as one record each over the keys
in order of first appearance, a missing key as `None`, a repeated key by its last value; records without
any key at all are no records -/
theorem spec_new_records (rs : List (List (String × Cell))) (hne : rs ≠ []) :
    Recs.construct (.recs rs) Option.none [] =
      some (.ok (Recs.norm ⟨dedupKeys (rs.flatMap fun r => r.map (·.1)),
        rs.map fun r => (dedupKeys (rs.flatMap fun r => r.map (·.1))).map fun k =>
          ((r.reverse.find? (·.1 == k)).map (·.2)).getD .none⟩)) := by
  obtain ⟨h1, _, h3, h4⟩ := new_records rs hne
  rw [← abs_construct, h1]
  simp only [Option.map_some, Except.map]
  congr 2
  unfold Recs.norm
  by_cases hk : (dictConcat rs).cols = []
  · have hnil : dictConcat rs = [] := by
      cases hd : dictConcat rs with
      | nil => rfl
      | cons c t => rw [hd] at hk; simp [cols] at hk
    rw [← h3, hk]
    simp only [List.isEmpty_nil, if_true]
    rw [hnil]; rfl
  · have h4' := h4 hk
    rw [h3] at h4' hk
    have : (dedupKeys (rs.flatMap fun r => r.map (·.1))).isEmpty = false := by
      cases hd : dedupKeys (rs.flatMap fun r => r.map (·.1)) with
      | nil => exact absurd hd hk
      | cons a as => rfl
    simp only [this, Bool.false_eq_true, if_false]
    simp only [abs, h3, h4']

/-- a mask with one flag per record is the plain filter -/
theorem spec_mask_full (r : Recs) (m : List Bool) (hm : m.length = r.rows.length) :
    r.getMask m = .ok (r.mask m) := by
  unfold Recs.getMask zipper2 Recs.mask
  have hl : lens [r.rows.length, m.length] = .ok r.rows.length := by
    apply lens_const (by simp)
    intro l hl
    simp at hl
    rcases hl with rfl | rfl
    · rfl
    · exact hm
  rw [hl]
  simp only
  rw [bcast_self rfl, bcast_self hm]

/-! ### non-vacuity: the hypotheses are satisfiable on non-trivial values -/

/-- a 3-row, 2-column table; the history below builds it, masks it to nothing, assigns, concatenates -/
def tbl : Table := [("a", [.int 1, .none, .int 3]), ("b", [.str "x", .str "y", .flt 10])]

example : tbl.Rect 3 ∧ tbl ≠ [] := by decide
example : HeapRect [tbl, []] := by
  intro t ht; simp at ht; rcases ht with rfl | rfl
  · exact ⟨3, by decide⟩
  · exact ⟨0, by decide⟩
example : tbl.getMask [true, false, true] = .ok [("a", [.int 1, .int 3]), ("b", [.str "x", .flt 10])] := by rfl
example : tbl.getMask [false, false, false] = .ok [("a", []), ("b", [])] := by rfl
example : tbl.setitem "c" (.many [.int 1, .int 2]) = .error .value := by rfl
example : tbl.setitem "c" (.one (.int 7)) = .ok (tbl ++ [("c", [.int 7, .int 7, .int 7])]) := by rfl
example : tbl.getTake [-1, 0, 0] = .ok [("a", [.int 3, .int 1, .int 1]), ("b", [.flt 10, .str "x", .str "x"])] := by rfl
example : tbl.getSlice Option.none Option.none (some (-1)) =
    .ok [("a", [.int 3, .none, .int 1]), ("b", [.flt 10, .str "y", .str "x"])] := by rfl
example : Table.concat [tbl, [("b", [.str "z"]), ("c", [.int 9])]] =
    [("a", [.int 1, .none, .int 3, .none]), ("b", [.str "x", .str "y", .flt 10, .str "z"]),
     ("c", [.none, .none, .none, .int 9])] := by decide
example : (Table.concat [tbl, [("b", [.str "z"]), ("c", [.int 9])]]).cols ≠ [] := by decide
/-- a history: build, mask to empty, assign to the empty table, concatenate, reject a misfit -/
example : (run [] [.new 0 .none Option.none [("a", .many [.int 1, .int 2]), ("b", .one (.str "x"))],
      .mask 1 0 [false, false], .setitem 1 "c" (.many []), .concat 2 [0, 1], .setitem 2 "d" (.many [.int 1])]) =
    [[("a", [.int 1, .int 2]), ("b", [.str "x", .str "x"])],
     [("a", []), ("b", []), ("c", [])],
     [("a", [.int 1, .int 2]), ("b", [.str "x", .str "x"]), ("c", [.none, .none]), ("d", [.int 1, .int 1])]] := by
  decide

/-- the same history on the list-of-records machine: the records of the three tables (`abs_run_empty`) -/
example : specRun [] [.new 0 .none Option.none [("a", .many [.int 1, .int 2]), ("b", .one (.str "x"))],
      .mask 1 0 [false, false], .setitem 1 "c" (.many []), .concat 2 [0, 1], .setitem 2 "d" (.many [.int 1])] =
    [⟨["a", "b"], [[.int 1, .str "x"], [.int 2, .str "x"]]⟩,
     ⟨["a", "b", "c"], []⟩,
     ⟨["a", "b", "c", "d"], [[.int 1, .str "x", .none, .int 1], [.int 2, .str "x", .none, .int 1]]⟩] := by
  decide
/-- outcomes of both machines on a history with a rejected assignment, a bad row index and a missing key -/
example : specTrace [abs tbl] [.setitem 0 "c" (.many [.int 1]), .setitem 0 "c" (.many [.int 1, .int 2]),
      .row 0 3, .col 0 "z", .len 0] = [.unit, .err .value, .err .index, .err .key, .val (natVal 3)] ∧
    stepTrace [tbl] [.setitem 0 "c" (.many [.int 1]), .setitem 0 "c" (.many [.int 1, .int 2]),
      .row 0 3, .col 0 "z", .len 0] = [.unit, .err .value, .err .index, .err .key, .val (natVal 3)] :=
  ⟨rfl, rfl⟩
/-- two callables, the first reads the key the second defines: `b` is evaluated first, then `c = new b` -/
example : tbl.call [] [("c", .idcol "b"), ("b", .isnone "a")] =
    .ok [("a", [.int 1, .none, .int 3]), ("b", [.bool false, .bool true, .bool false]),
         ("c", [.bool false, .bool true, .bool false])] := by rfl
example : DepOrder [("b", Fn.isnone "a"), ("c", Fn.idcol "b")] := by
  unfold DepOrder; simp [Fn.args]
/-- a circular definition -/
example : tbl.call [] [("a", .idcol "b"), ("b", .idcol "a")] = .error .value := by rfl
/-- `update`: the assignment before the misfit stays -/
example : tbl.update [("c", .one (.int 7)), ("d", .many [.int 1, .int 2]), ("e", .one .none)] =
    (tbl ++ [("c", [.int 7, .int 7, .int 7])], some .value) := by rfl
example : tbl.getTuple ["b", "a"] = .ok [[.str "x", .int 1], [.str "y", .none], [.flt 10, .int 3]] := by rfl
example : tbl.getTuple ["b", "z"] = .error .key := by rfl
/-- renaming two columns onto one name: first position, last value — on both machines -/
example : abs (tbl.relabel ⟨Option.none, [("a", "k"), ("b", "k")]⟩) = ⟨["k"], [[.str "x"], [.str "y"], [.flt 10]]⟩ ∧
    (abs tbl).relabel (Relabel.key ⟨Option.none, [("a", "k"), ("b", "k")]⟩) =
      ⟨["k"], [[.str "x"], [.str "y"], [.flt 10]]⟩ := by decide


/-! ### review round 2 (1): masks against a reading that does not share `zipper` with the code

`Recs.getMask` is written with `zipper2` and so inherits the broadcasting of `_zip.py` from the code;
`abs_getMask` therefore says nothing independent about it.  `Recs.getMaskPlain` (PygModel/TableSpec.lean) is
zip + filter, a single flag for all records, otherwise `ValueError`.

Since the repair of `dictable.__getitem__` (defect C01-M1: a mask must have one flag per row or be a single
flag) the history machine runs the CHECKED mask `Table.getMaskC` and the reference machine `specStep` runs
`Recs.getMaskPlain` itself, so `abs_step` relates masks to the plain reading for every table and every mask
(`mask_plain`).  `abs_getMask_plain`, `mask_plain_exact` and `mask_one_row_repeats` below are about the inner
helper `Table.getMask` (the `zipper` comprehension alone, which `inc`/`exc` call with masks of the table's
length): they say exactly where that helper leaves the plain reading, i.e. what the added length check is for. -/

/-- **masking is the plain list-of-records mask - every table, every mask** (no side condition): keep the
flagged records in order, all columns; a single flag keeps all or none; any other length is a `ValueError` -/
theorem mask_plain (t : Table) (m : List Bool) : (t.getMaskC m).map abs = (abs t).getMaskPlain m :=
  abs_getMaskC t m

/-- a mask never invents rows: the records of `d[mask]` are a sub-sequence of the table's records, with the
table's columns (this is what failed for a one-row table before the repair) -/
theorem mask_sublist (t t' : Table) (m : List Bool) (h : t.getMaskC m = .ok t') :
    (abs t').rows.Sublist (abs t).rows ∧ (abs t').cols = (abs t).cols := by
  have hp := mask_plain t m
  rw [h] at hp
  simp only [Except.map] at hp
  unfold Recs.getMaskPlain at hp
  split at hp
  · rename_i hl
    rw [Except.ok.inj hp]
    refine ⟨(List.filter_sublist.map _).trans ?_, rfl⟩
    rw [List.map_fst_zip (by omega)]
    exact List.Sublist.refl _
  · split at hp
    · rw [Except.ok.inj hp]
      refine ⟨?_, rfl⟩
      simp only
      split
      · exact List.Sublist.refl _
      · exact List.nil_sublist _
    · cases hp

/-- the one-row table of `mask_one_row_repeats` on the machine: the longer mask is now rejected, the heap
(all live tables) stays as it was -/
example : step [[("a", [.int 1]), ("b", [.str "q"])]] (.mask 1 0 [true, true, false, true]) =
    ([[("a", [.int 1]), ("b", [.str "q"])]], .err .value) := by rfl

/-- **`d[mask]` is the plain zip+filter of the records** (all columns kept, error cases included) for every
table and every mask EXCEPT a table with exactly one record under a mask that is not a single flag.
No rectangularity hypothesis is needed; a table without columns has no records and is covered.
The side condition is exact (`mask_plain_exact`).  What it excludes:
  * one record, mask of length k >= 2: the code repeats the record (`mask_one_row_repeats`), the plain
    reading is a `ValueError`;
  * one record, EMPTY mask: the model's `getMask` yields the columns without records, the plain reading a
    `ValueError`.  This case is not reachable through the protocol: python cannot tell `d[[]]` from an empty
    int list (line 385-386) and the driver sends it as `take []` (`abs_getTake`), never as `Op.mask _ _ []`. -/
theorem abs_getMask_plain (t : Table) (m : List Bool) (h : (abs t).rows.length ≠ 1 ∨ m.length = 1) :
    (t.getMask m).map abs = (abs t).getMaskPlain m := by
  rw [abs_getMask, Recs.getMask_eq_plain _ _ h]

/-- the same in terms of the common column length `n` of a rectangular table -/
theorem abs_getMask_plain_rect (t : Table) (n : Nat) (hr : t.Rect n) (m : List Bool)
    (h : t = [] ∨ n ≠ 1 ∨ m.length = 1) : (t.getMask m).map abs = (abs t).getMaskPlain m := by
  apply abs_getMask_plain
  rcases h with rfl | h | h
  · exact Or.inl (by decide)
  · by_cases hne : t = []
    · subst hne; exact Or.inl (by decide)
    · rw [abs_rows_length, nrows_of_rect hr hne]; exact Or.inl h
  · exact Or.inr h

/-- the side condition of `abs_getMask_plain` cannot be weakened: exactly one record and a mask that is not
a single flag ALWAYS separate the model (success) from the plain reading (`ValueError`) -/
theorem mask_plain_exact (t : Table) (m : List Bool) (hn : (abs t).rows.length = 1) (hk : m.length ≠ 1) :
    (∃ t', t.getMask m = .ok t') ∧ (abs t).getMaskPlain m = .error .value := by
  obtain ⟨⟨r', hr'⟩, h2⟩ := Recs.getMask_ne_plain (abs t) m hn hk
  refine ⟨?_, h2⟩
  have := abs_getMask (t := t) m
  rw [hr'] at this
  cases hg : t.getMask m with
  | ok t' => exact ⟨t', rfl⟩
  | error e => rw [hg] at this; cases this

/-- **deviation of the unchecked helper from the plain list-of-records reading** (defect C01-M1 of the
unrepaired code, where `__getitem__` had no length check): a table with exactly ONE row under a mask of
k >= 2 flags is NOT a `ValueError` — which is what the plain reading `Recs.getMaskPlain` gives (second
conjunct) — but that row repeated once per `True` flag, all columns kept (also when no flag is `True`: then
no record).  `zipper(list(self), mask)` broadcasts the length-1 list of rows (`_zip.py:38-72`); the
unrepaired code returned 3 rows for `dictable(a=[1],b=['q'])[[True,True,False,True]]`.  The repaired
`__getitem__` (model: `getMaskC`, theorem `mask_plain`) rejects the mask before the comprehension runs. -/
theorem mask_one_row_repeats (t : Table) (hr : t.Rect 1) (hne : t ≠ []) (m : List Bool) (hk : 2 ≤ m.length) :
    (abs t).rows = [t.row 0] ∧
    (t.getMask m).map abs = .ok ⟨t.cols, List.replicate (m.count true) (t.row 0)⟩ ∧
    (abs t).getMaskPlain m = .error .value := by
  have hrows : (abs t).rows = [t.row 0] := by
    simp [abs, rows, nrows_of_rect hr hne, List.range_succ]
  have habs : abs t = ⟨t.cols, [t.row 0]⟩ := by
    cases h : abs t with
    | mk c r => rw [h] at hrows; simp only at hrows; subst hrows; have := abs_cols t; rw [h] at this; simp at this; rw [this]
  obtain ⟨h1, h2⟩ := Recs.getMask_one_record t.cols (t.row 0) m hk
  refine ⟨hrows, ?_, ?_⟩
  · rw [abs_getMask, habs, h1]
  · rw [habs, h2]

example : Table.Rect [("a", [.int 1]), ("b", [.str "q"])] 1 := by decide
/-- `dictable(a=[1],b=['q'])[[True,True,False,True]]`: three copies of the row -/
example : Table.getMask [("a", [.int 1]), ("b", [.str "q"])] [true, true, false, true] =
    .ok [("a", [.int 1, .int 1, .int 1]), ("b", [.str "q", .str "q", .str "q"])] := by rfl
example : Recs.getMaskPlain ⟨["a", "b"], [[.int 1, .str "q"]]⟩ [true, true, false, true] = .error .value := by rfl
/-- the hypotheses of `abs_getMask_plain` on a 3-row table: a full mask, a single flag, a misfit -/
example : (abs tbl).rows.length ≠ 1 ∨ [true, false, true].length = 1 := Or.inl (by decide)
example : (abs tbl).getMaskPlain [true, false, true] = .ok ⟨["a", "b"], [[.int 1, .str "x"], [.int 3, .flt 10]]⟩ ∧
    (abs tbl).getMaskPlain [true] = .ok (abs tbl) ∧ (abs tbl).getMaskPlain [false] = .ok ⟨["a", "b"], []⟩ ∧
    (abs tbl).getMaskPlain [true, false] = .error .value := ⟨rfl, rfl, rfl, rfl⟩
/-- a one-row table under a single flag is covered by `abs_getMask_plain` (second disjunct) -/
example : (Table.getMask [("a", [.int 1])] [true]).map abs = Recs.getMaskPlain ⟨["a"], [[.int 1]]⟩ [true] := by rfl

/-! ### review round 2 (2): constructor from rows + header, ragged rows

`new_rows` / `spec_new_rows` cover rows exactly as long as the header.  `_data_columns_as_dict` reads
`dict(zipper(columns, zipper(*data)))`: the inner `zipper` transposes the rows (rows of length 1 are
repeated to the common length, two lengths other than 1 are a `ValueError`), the outer one pairs the
transposed columns with the header (a single transposed column is repeated under every name).  The header
`cs` is a list of DISTINCT names (a repeated name in `columns=` is outside this closed form). -/

/-- **rows + header, ragged rows** (`dictable([[1,2],[3],[4,5]], columns = ['a','b'])`), header of
`c = len(cs)` distinct names:
  * (success) if every row has length `c` or 1, the table has the header as columns and exactly the given
    rows with each length-1 row repeated across the header (`bcast c`), one record per row
    (for `c = 1` this says: all rows of length 1 are taken as they are);
  * (failure, `c ≠ 1`) the constructor raises `ValueError` if and only if some row has a length that is
    neither `c` nor 1.  Together: for `c ≠ 1` the result is determined for EVERY list of rows.
For a header of ONE name see `new_rows_header1` (several cells under one name: `ValueError`, repaired code). -/
theorem new_rows_ragged (cs : List String) (rs : List (List Cell)) (hcs : cs.Nodup) (hk : cs ≠ []) :
    ((∀ r ∈ rs, r.length = cs.length ∨ r.length = 1) →
      construct (.rows rs) (some cs) [] = some (.ok (ofRows cs (rs.map (bcast cs.length)))) ∧
      (ofRows cs (rs.map (bcast cs.length))).Rect rs.length ∧
      (ofRows cs (rs.map (bcast cs.length))).cols = cs ∧
      (ofRows cs (rs.map (bcast cs.length))).rows = rs.map (bcast cs.length)) ∧
    (cs.length ≠ 1 →
      (construct (.rows rs) (some cs) [] = some (.error .value) ↔
        ∃ r ∈ rs, r.length ≠ cs.length ∧ r.length ≠ 1)) := by
  have hgood : (∀ r ∈ rs, r.length = cs.length ∨ r.length = 1) →
      construct (.rows rs) (some cs) [] = some (.ok (ofRows cs (rs.map (bcast cs.length)))) := by
    intro hall
    by_cases hne : rs = []
    · subst hne
      exact (new_rows cs [] hcs hk (by intro r hr; cases hr)).1
    · exact construct_of_dataCols_ofRows cs _ hcs hk (dataCols_rows_ragged cs rs hcs hne hall)
  constructor
  · intro hall
    have hl : ∀ r ∈ rs.map (bcast cs.length), r.length = cs.length := by
      intro r hr
      obtain ⟨r', hr', rfl⟩ := List.mem_map.1 hr
      exact bcast_length (hall r' hr')
    refine ⟨hgood hall, ?_, ofRows_cols cs _, ofRows_rows cs _ hk hl⟩
    have := ofRows_rect cs (rs.map (bcast cs.length))
    simpa using this
  · intro hc
    constructor
    · intro herr
      apply Classical.byContradiction
      intro hno
      have hall : ∀ r ∈ rs, r.length = cs.length ∨ r.length = 1 := by
        intro r hr
        apply Classical.byContradiction
        intro h
        exact hno ⟨r, hr, fun h1 => h (Or.inl h1), fun h1 => h (Or.inr h1)⟩
      rw [hgood hall] at herr
      cases herr
    · intro hbad
      exact construct_of_dataCols_error (dataCols_rows_bad cs rs hc hbad)

/-- the same on the reference machine: the records are the rows, the length-1 ones repeated -/
theorem spec_new_rows_ragged (cs : List String) (rs : List (List Cell)) (hcs : cs.Nodup) (hk : cs ≠ []) :
    ((∀ r ∈ rs, r.length = cs.length ∨ r.length = 1) →
      Recs.construct (.rows rs) (some cs) [] = some (.ok ⟨cs, rs.map (bcast cs.length)⟩)) ∧
    (cs.length ≠ 1 →
      (Recs.construct (.rows rs) (some cs) [] = some (.error .value) ↔
        ∃ r ∈ rs, r.length ≠ cs.length ∧ r.length ≠ 1)) := by
  obtain ⟨h1, h2⟩ := new_rows_ragged cs rs hcs hk
  constructor
  · intro hall
    obtain ⟨e1, _, e3, e4⟩ := h1 hall
    rw [← abs_construct, e1]
    simp [Except.map, abs, e3, e4]
  · intro hc
    rw [← h2 hc, ← abs_construct]
    cases construct (.rows rs) (some cs) [] with
    | none => simp
    | some r => cases r <;> simp [Except.map]

/-- hypotheses of `new_rows_ragged` on a concrete ragged input: the middle row is repeated -/
example : (["a", "b"] : List String).Nodup ∧ (["a", "b"] : List String) ≠ [] ∧
    ∀ r ∈ ([[.int 1, .int 2], [.int 3], [.int 4, .int 5]] : List (List Cell)), r.length = 2 ∨ r.length = 1 := by
  decide
example : construct (.rows [[.int 1, .int 2], [.int 3], [.int 4, .int 5]]) (some ["a", "b"]) [] =
    some (.ok [("a", [.int 1, .int 3, .int 4]), ("b", [.int 2, .int 3, .int 5])]) := by rfl
example : Recs.construct (.rows [[.int 1, .int 2], [.int 3], [.int 4, .int 5]]) (some ["a", "b"]) [] =
    some (.ok ⟨["a", "b"], [[.int 1, .int 2], [.int 3, .int 3], [.int 4, .int 5]]⟩) := by rfl
/-- all rows of length 1 under a longer header -/
example : construct (.rows [[.int 1], [.int 3]]) (some ["a", "b", "c"]) [] =
    some (.ok [("a", [.int 1, .int 3]), ("b", [.int 1, .int 3]), ("c", [.int 1, .int 3])]) := by rfl
/-- a row of a third length: `ValueError` (the outer zipper; the inner one for two misfits) -/
example : construct (.rows [[.int 1, .int 2, .int 3], [.int 3]]) (some ["a", "b"]) [] = some (.error .value) ∧
    construct (.rows [[.int 1, .int 2], [.int 3, .int 4, .int 5]]) (some ["a", "b"]) [] = some (.error .value) ∧
    construct (.rows [[], [.int 3]]) (some ["a", "b"]) [] = some (.error .value) := ⟨rfl, rfl, rfl⟩

/-- **rows under a header of ONE name** (`dictable([[1,2,3],[3],[7,8,9]], columns = ['a'])`), the case
`new_rows_ragged` leaves open — repaired code (fix C01-H2 of round h1; the statement before the fix, `new_rows_ragged_header1`, PROVED the
quirk that the single name was repeated across the cells and every row kept only its LAST cell: `{'a': [3, 3, 9]}`):
  * `ValueError` if and only if some row has two or more cells — exactly the rows a one-column list-of-rows reading cannot hold;
  * otherwise (every row has one cell or none; `n ≤ 1` their common length): ONE column holding each row's cell — or no record at
    all when `n = 0` (some row is empty: `zip` stops at the shortest, as for every header). -/
theorem new_rows_header1 (k : String) (rs : List (List Cell)) :
    (construct (.rows rs) (some [k]) [] = some (.error .value) ↔ ∃ r ∈ rs, 2 ≤ r.length) ∧
    (∀ n, lens (rs.map (·.length)) = .ok n → n ≤ 1 →
      construct (.rows rs) (some [k]) [] =
        some (.ok [(k, if n = 0 then [] else rs.map fun r => (bcast n r).getD (n - 1) .none)])) := by
  have hok : ∀ n, lens (rs.map (·.length)) = .ok n → n ≤ 1 →
      construct (.rows rs) (some [k]) [] =
        some (.ok [(k, if n = 0 then [] else rs.map fun r => (bcast n r).getD (n - 1) .none)]) := by
    intro n hl hn1
    by_cases hne : rs = []
    · subst hne
      have : n = 0 := by simpa [lens] using hl.symm
      subst this
      exact (new_rows [k] [] (by simp) (by simp) (by intro r hr; cases hr)).1
    · have hdc := dataCols_rows_header1 k rs hne n hl
      rw [if_neg (by omega)] at hdc
      by_cases h0 : n = 0
      · subst h0
        simp only [if_true] at hdc ⊢
        simp only [construct, hdc]
        rfl
      · simp only [if_neg h0] at hdc ⊢
        exact construct_of_dataCols_single k _ hdc
  have hbig : ∀ n, lens (rs.map (·.length)) = .ok n → 1 < n → rs ≠ [] →
      construct (.rows rs) (some [k]) [] = some (.error .value) := by
    intro n hl hn hne
    apply construct_of_dataCols_error
    rw [dataCols_rows_header1 k rs hne n hl, if_pos hn]
  refine ⟨?_, hok⟩
  constructor
  · intro herr
    cases hl : lens (rs.map (·.length)) with
    | ok n =>
      by_cases hn : n ≤ 1
      · rw [hok n hl hn] at herr; cases herr
      · have hne : rs.map (·.length) ≠ [] := by
          intro h; rw [h] at hl; simp [lens] at hl; omega
        obtain ⟨r, hr, hrl⟩ := List.mem_map.1 (lens_ok_mem hl (by omega) hne)
        exact ⟨r, hr, by omega⟩
    | error e =>
      obtain ⟨a, ha, b, hb, h1, h2, h3⟩ := (lens_error_iff _).1 (by rw [hl, lens_error_value hl])
      obtain ⟨a', ha', rfl⟩ := List.mem_map.1 ha
      obtain ⟨b', hb', rfl⟩ := List.mem_map.1 hb
      by_cases h : 2 ≤ a'.length
      · exact ⟨a', ha', h⟩
      · exact ⟨b', hb', by omega⟩
  · rintro ⟨r, hr, h2⟩
    have hne : rs ≠ [] := List.ne_nil_of_mem hr
    cases hl : lens (rs.map (·.length)) with
    | ok n =>
      have hrn : r.length = n := by
        rcases lens_ok hl r.length (List.mem_map.2 ⟨r, hr, rfl⟩) with h | h
        · exact h
        · omega
      exact hbig n hl (by omega) hne
    | error e =>
      have := lens_error_value hl
      subst this
      obtain ⟨r0, rest, rfl⟩ := List.exists_cons_of_ne_nil hne
      apply construct_of_dataCols_error
      have hz : zipper Cell.none (r0 :: rest) = .error .value := by
        unfold zipper
        rw [hl]
      simp only [dataCols, hz]

example : lens (([[.int 1], [.int 3], [.int 7]] : List (List Cell)).map (·.length)) = .ok 1 := by
  rfl
/-- three-cell rows under a one-name header: rejected, as under a two-name header (was `{'a': [3, 3, 9]}`) -/
example : construct (.rows [[.int 1, .int 2, .int 3], [.int 3], [.int 7, .int 8, .int 9]]) (some ["a"]) [] =
    some (.error .value) := by rfl
example : construct (.rows [[.int 1, .int 2, .int 3], [.int 3, .int 4]]) (some ["a"]) [] = some (.error .value) := by rfl
example : construct (.rows [[.int 1], [.int 3], [.int 7]]) (some ["a"]) [] =
    some (.ok [("a", [.int 1, .int 3, .int 7])]) := by rfl

/-! ### review round 2 (3): aliasing — handles as pointers (PygModel/TableAlias.lean)

`frame_step` is about a heap of VALUES: `d + None` and `dictable.concat([d])` only report `Out.alias`, the
alias is never bound, so no history of `step` mutates a table through a second name.  `rstep` runs `step`
on a store of cells behind a pointer table; `bindAlias dst h` binds a second handle to the same cell. -/

/-- cells: the only operations that write an EXISTING cell are `setitem / delitem / update`, and they write
the cell of their handle (`ROp.writesCell`); every other cell is as before.  Table-producing operations
write a fresh cell (index `cells.length`), queries and `bindAlias` none. -/
theorem rframe_cells (s : RefHeap) (rop : ROp) (c : Nat) (hc : c < s.cells.length)
    (hw : rop.writesCell s ≠ some c) : (rstep s rop).1.cells[c]? = s.cells[c]? := by
  cases rop with
  | bindAlias dst h => simp only [rstep]; split <;> rfl
  | op o =>
    have hcells : (rstep s (.op o)).1.cells = (step s.cells (o.mapHandles s.cellOf s.cells.length)).1 := rfl
    rw [hcells]
    apply frame_step _ _ c hc
    rw [Op.writes_mapHandles]
    cases hd : o.dst? with
    | some d => simp only [ne_eq, Option.some.injEq]; omega
    | none =>
      simp only [ROp.writesCell] at hw
      cases hi : o.inplace? with
      | none => simp
      | some h =>
        rw [hi] at hw
        simp only at hw
        simp only [Option.map_some, ne_eq, Option.some.injEq, RefHeap.cellOf]
        cases hp : s.ptr[h]? with
        | none => simp only [Option.getD_none]; omega
        | some c' =>
          rw [hp] at hw
          simpa using hw

/-- pointers: only the destination handle of the operation is (re)bound -/
theorem rframe_ptr (s : RefHeap) (rop : ROp) (i : Nat) (hi : i < s.ptr.length) (hreb : rop.rebinds ≠ some i) :
    (rstep s rop).1.ptr[i]? = s.ptr[i]? := by
  cases rop with
  | bindAlias dst h =>
    simp only [ROp.rebinds, ne_eq, Option.some.injEq] at hreb
    simp only [rstep]
    split
    · exact RefHeap.bindPtr_getElem?_ne _ _ _ _ hi hreb
    · rfl
  | op o =>
    simp only [ROp.rebinds] at hreb
    simp only [rstep, RefHeap.ptrAfter]
    split
    · rename_i d _ hd _
      rw [hd] at hreb
      exact RefHeap.bindPtr_getElem?_ne _ _ _ _ hi (by simpa using hreb)
    · rfl

/-- **frame for the reference heap**: after ANY operation, a handle that read table `t`, is not the
(re)bound destination, and whose cell is not the cell assigned in place by `setitem / delitem / update`,
still reads `t`.  (For the value heap this was `frame_step`; here two handles may share a cell and the
hypothesis is about the CELL written, not the handle named in the operation.) -/
theorem rframe_step (s : RefHeap) (rop : ROp) (i : Nat) (t : Table) (hg : s.get i = some t)
    (hreb : rop.rebinds ≠ some i) (hw : rop.writesCell s ≠ s.ptr[i]?) :
    (rstep s rop).1.get i = some t := by
  obtain ⟨c, hp, hcell⟩ := RefHeap.get_eq_some hg
  have hi : i < s.ptr.length := (List.getElem?_eq_some_iff.1 hp).1
  have hc : c < s.cells.length := (List.getElem?_eq_some_iff.1 hcell).1
  rw [hp] at hw
  have h1 := rframe_ptr s rop i hi hreb
  rw [hp] at h1
  rw [RefHeap.get_of_ptr h1, rframe_cells s rop c hc hw, hcell]

/-- operations that return a new table never alter what ANY other handle reads — aliases of the operands
included: the result goes to a fresh cell -/
theorem rframe_producing (s : RefHeap) (o : Op) (hin : o.inplace? = Option.none) (i : Nat) (t : Table)
    (hg : s.get i = some t) (hd : o.dst? ≠ some i) : (rstep s (.op o)).1.get i = some t := by
  apply rframe_step s (.op o) i t hg hd
  obtain ⟨c, hp, _⟩ := RefHeap.get_eq_some hg
  simp [ROp.writesCell, hin, hp]

/-- **an alias shares its object**: after `dst = h + None` (`bindAlias dst h`; `dst` an existing handle or
the next new one) both handles point to the same cell and read the same table, and an assignment
`dst[k] = v` that succeeds on that table is seen through `h` as well (real code: `e = d + None;
e['z'] = 5` changes `d`).  A rejected assignment changes neither. -/
theorem ralias_shared (s : RefHeap) (dst h : Nat) (t : Table) (hg : s.get h = some t)
    (hd : dst ≤ s.ptr.length) (k : String) (v : ColVal) :
    let s1 := (rstep s (.bindAlias dst h)).1
    let s2 := (rstep s1 (.op (.setitem dst k v))).1
    s1.ptr[dst]? = s.ptr[h]? ∧ s1.ptr[h]? = s.ptr[h]? ∧ s1.get dst = some t ∧ s1.get h = some t ∧
    (∀ t', t.setitem k v = .ok t' → s2.get dst = some t' ∧ s2.get h = some t') ∧
    (∀ e, t.setitem k v = .error e → s2.get dst = some t ∧ s2.get h = some t) := by
  obtain ⟨c, hp, hcell⟩ := RefHeap.get_eq_some hg
  have hh : h < s.ptr.length := (List.getElem?_eq_some_iff.1 hp).1
  have hc : c < s.cells.length := (List.getElem?_eq_some_iff.1 hcell).1
  have hs1 : (rstep s (.bindAlias dst h)).1 = ⟨RefHeap.bindPtr s.ptr dst c, s.cells⟩ := by
    simp only [rstep, hp]
  have hpd : (RefHeap.bindPtr s.ptr dst c)[dst]? = some c := RefHeap.bindPtr_getElem?_self _ _ _ hd
  have hph : (RefHeap.bindPtr s.ptr dst c)[h]? = some c := by
    by_cases hdh : dst = h
    · rw [← hdh]; exact hpd
    · rw [RefHeap.bindPtr_getElem?_ne _ _ _ _ hh hdh, hp]
  have hcellOf : RefHeap.cellOf ⟨RefHeap.bindPtr s.ptr dst c, s.cells⟩ dst = c := by
    simp [RefHeap.cellOf, hpd]
  intro s1 s2
  have e1 : s1 = ⟨RefHeap.bindPtr s.ptr dst c, s.cells⟩ := hs1
  have e2 : s2 = (rstep ⟨RefHeap.bindPtr s.ptr dst c, s.cells⟩ (.op (.setitem dst k v))).1 := by
    show (rstep s1 _).1 = _
    rw [e1]
  refine ⟨by rw [e1, hp]; exact hpd, by rw [e1, hp]; exact hph, ?_, ?_, ?_, ?_⟩
  · rw [e1, RefHeap.get_of_ptr hpd]; exact hcell
  · rw [e1, RefHeap.get_of_ptr hph]; exact hcell
  · intro t' ht'
    have : s2 = ⟨RefHeap.bindPtr s.ptr dst c, s.cells.set c t'⟩ := by
      rw [e2]
      simp only [rstep, RefHeap.ptrAfter, Op.mapHandles, Op.dst?, Op.aliasOf, hcellOf, step, hcell, ht']
    rw [this]
    constructor
    · rw [RefHeap.get_of_ptr hpd]; simp [hc]
    · rw [RefHeap.get_of_ptr hph]; simp [hc]
  · intro e he
    have : s2 = ⟨RefHeap.bindPtr s.ptr dst c, s.cells⟩ := by
      rw [e2]
      simp only [rstep, RefHeap.ptrAfter, Op.mapHandles, Op.dst?, Op.aliasOf, hcellOf, step, hcell, he]
    rw [this]
    exact ⟨by rw [RefHeap.get_of_ptr hpd]; exact hcell, by rw [RefHeap.get_of_ptr hph]; exact hcell⟩

/-- aliases stay aliases: two handles bound to one cell are still bound to one cell after any operation that
rebinds neither -/
theorem ralias_stays (s : RefHeap) (rop : ROp) (a b : Nat) (ha : a < s.ptr.length) (hb : b < s.ptr.length)
    (hab : s.ptr[a]? = s.ptr[b]?) (hra : rop.rebinds ≠ some a) (hrb : rop.rebinds ≠ some b) :
    (rstep s rop).1.ptr[a]? = (rstep s rop).1.ptr[b]? ∧ (rstep s rop).1.get a = (rstep s rop).1.get b := by
  have h : (rstep s rop).1.ptr[a]? = (rstep s rop).1.ptr[b]? := by
    rw [rframe_ptr s rop a ha hra, rframe_ptr s rop b hb hrb, hab]
  exact ⟨h, by simp only [RefHeap.get, h]⟩

/-- **all cells stay rectangular** (`rect_step` lifted to the reference heap) -/
theorem rrect_step (s : RefHeap) (rop : ROp) (hs : HeapRect s.cells) : HeapRect (rstep s rop).1.cells := by
  cases rop with
  | bindAlias dst h => simp only [rstep]; split <;> exact hs
  | op o => exact rect_step s.cells _ hs

/-- every handle keeps pointing to an existing cell -/
theorem rwf_step (s : RefHeap) (rop : ROp) (hs : s.WF) : (rstep s rop).1.WF := by
  cases rop with
  | bindAlias dst h =>
    simp only [rstep]
    split
    · rename_i c hc
      intro x hx
      rcases RefHeap.mem_bindPtr hx with hx | rfl
      · exact hs x hx
      · exact hs x (List.mem_of_getElem? hc)
    · exact hs
  | op o =>
    have hge := step_length_ge s.cells (o.mapHandles s.cellOf s.cells.length)
    intro x hx
    simp only [rstep, RefHeap.ptrAfter] at hx ⊢
    split at hx
    · rename_i _ _ d hd hunit
      have hfresh := step_unit_fresh s.cells o d hd s.cellOf hunit
      rcases RefHeap.mem_bindPtr hx with hx | rfl
      · exact Nat.lt_of_lt_of_le (hs x hx) hge
      · omega
    · exact Nat.lt_of_lt_of_le (hs x hx) hge

/-- after any history from the empty reference heap: all cells rectangular, all pointers valid -/
theorem rrect_run (ops : List ROp) (s : RefHeap) (hs : HeapRect s.cells) (hw : s.WF) :
    HeapRect (rrun s ops).cells ∧ (rrun s ops).WF := by
  induction ops generalizing s with
  | nil => exact ⟨hs, hw⟩
  | cons op ops ih => exact ih _ (rrect_step s op hs) (rwf_step s op hw)

theorem rrect_run_empty (ops : List ROp) : HeapRect (rrun .empty ops).cells ∧ (rrun .empty ops).WF :=
  rrect_run ops .empty HeapRect.nil (by intro c hc; cases hc)

/-- the simulation theorem carries over to the reference heap: its cells, read as records, evolve by the
list-of-records machine `specStep` under the translated operation, with the same outcome — `rstep` IS
`step` on the cells, so `abs_step` applies verbatim (the pointer table is bookkeeping on top) -/
theorem rabs_step (s : RefHeap) (o : Op) (hs : HeapRect s.cells) :
    (rstep s (.op o)).1.cells.map abs =
      (specStep (s.cells.map abs) (o.mapHandles s.cellOf s.cells.length)).1 ∧
    (step s.cells (o.mapHandles s.cellOf s.cells.length)).2 =
      (specStep (s.cells.map abs) (o.mapHandles s.cellOf s.cells.length)).2 :=
  abs_step s.cells _ hs

/-- the history `d = dictable(a=[1,2]); e = d + None; e['z'] = 5`: `d` has the column `z` -/
example : (rrun .empty [.op (.new 0 .none Option.none [("a", .many [.int 1, .int 2])]), .bindAlias 1 0,
      .op (.setitem 1 "z" (.one (.int 5)))]).view =
    [some [("a", [.int 1, .int 2]), ("z", [.int 5, .int 5])],
     some [("a", [.int 1, .int 2]), ("z", [.int 5, .int 5])]] := by decide
/-- with `e = d.copy()` instead, `d` is untouched; and `d = d[mask]` rebinds `d` to a fresh object while the
alias `e` keeps the old one -/
example : (rrun .empty [.op (.new 0 .none Option.none [("a", .many [.int 1, .int 2])]), .op (.copy 1 0),
      .op (.setitem 1 "z" (.one (.int 5))), .bindAlias 2 0, .op (.mask 0 0 [true, false])]).view =
    [some [("a", [.int 1])], some [("a", [.int 1, .int 2]), ("z", [.int 5, .int 5])],
     some [("a", [.int 1, .int 2])]] := by decide
/-- `d + None` and `concat([d])` report the handle (not the cell) as alias -/
example : (rstep ⟨[1, 0], [[("a", [.int 1])], []]⟩ (.op (.addnone 0))).2 = .alias 0 ∧
    (rstep ⟨[1, 0], [[("a", [.int 1])], []]⟩ (.op (.concat 5 [1]))).2 = .alias 1 := ⟨rfl, rfl⟩
/-- the hypotheses of `ralias_shared` / `rframe_step` on a two-cell heap with an alias -/
def rheap0 : RefHeap := ⟨[0, 1, 0], [tbl, [("q", [.int 1])]]⟩
example : rheap0.get 0 = some tbl ∧ (2 : Nat) ≤ rheap0.ptr.length ∧ rheap0.WF ∧ HeapRect rheap0.cells := by
  refine ⟨rfl, by decide, by decide, ?_⟩
  intro t ht
  simp [rheap0] at ht
  rcases ht with rfl | rfl
  · exact ⟨3, by decide⟩
  · exact ⟨1, by decide⟩
example : rheap0.get 1 = some [("q", [.int 1])] ∧ (ROp.op (.setitem 2 "c" (.one .none))).rebinds ≠ some 1 ∧
    (ROp.op (.setitem 2 "c" (.one .none))).writesCell rheap0 ≠ rheap0.ptr[1]? := by decide

/-- **the reference heap is a conservative extension of the value heap**: while no two handles share a
cell (`ptr.Nodup`) an operation of the value machine, run through `rstep`, gives — seen through the handles
(`RefHeap.vheap`) — exactly the heap and the outcome of `step`; and it creates no alias.  So everything
proved about `step` / `run` (`abs_run`, ...) holds of `rstep` as long as `bindAlias` is not used; aliases
arise only from `bindAlias`. -/
theorem rstep_noalias (s : RefHeap) (hw : s.WF) (hinj : s.ptr.Nodup) (o : Op) :
    (rstep s (.op o)).1.vheap = (step s.vheap o).1 ∧ (rstep s (.op o)).2 = (step s.vheap o).2 ∧
    (rstep s (.op o)).1.ptr.Nodup :=
  ⟨(rstep_op_sim s hw hinj o).1, (rstep_op_sim s hw hinj o).2, rstep_op_nodup s hw hinj o⟩

/-- any history without `bindAlias`, from any alias-free reference heap (e.g. the empty one): the handles
read what `run` computes -/
theorem rrun_noalias (ops : List Op) (s : RefHeap) (hw : s.WF) (hinj : s.ptr.Nodup) :
    (rrun s (ops.map .op)).vheap = run s.vheap ops := by
  induction ops generalizing s with
  | nil => rfl
  | cons o ops ih =>
    simp only [List.map_cons, rrun, run]
    rw [ih _ (rwf_step s (.op o) hw) (rstep_noalias s hw hinj o).2.2, (rstep_noalias s hw hinj o).1]

theorem rrun_noalias_empty (ops : List Op) : (rrun .empty (ops.map .op)).vheap = run [] ops :=
  rrun_noalias ops .empty (by intro c hc; cases hc) (by simp [RefHeap.empty])

example : rheap0.WF ∧ ¬ rheap0.ptr.Nodup ∧ (RefHeap.mk [1, 0] rheap0.cells).ptr.Nodup := by decide


/-! ## review t1, C01 item 3: where the reference machine ADOPTS a quirk of the code, stated as a deviation from a plain list of records

`abs_step` relates the table machine to `specStep`; for the table without columns and for tables without rows `specStep` itself follows the code
(`Recs.getRow` answers `{}` on no columns; `do` / `call` over no row add columns they could not compute).  The theorems below say so against
readings that do not share the quirk, as was done for the one-row mask (`mask_one_row_repeats`). -/

/-- `records[i]` of a PLAIN python list of records (no dictable involved): IndexError when `i` is out of range - in particular for every `i`
when there is no record -/
def getRowPlain (r : Recs) (i : Int) : Except Err (List (String × Cell)) :=
  match pyIdx r.rows.length i with
  | some j => .ok (r.cols.zip (r.rows.getD j []))
  | Option.none => .error .index

theorem pyIdx_zero (i : Int) : pyIdx 0 i = Option.none := by
  unfold pyIdx
  split
  · omega
  · split
    · omega
    · rfl

/-- **deviation 1 (the table without columns)**: `dictable()[i]` is `{}` for EVERY integer `i` (the dict comprehension over no column), where a plain
list of no records raises IndexError.  The reference `Recs.getRow` ADOPTS this (`if r.cols.isEmpty then .ok []`), so `abs_step` cannot see it; this
theorem states it as a deviation from the plain reading. -/
theorem row_nocols (i : Int) :
    Table.getRow [] i = .ok [] ∧ getRowPlain ⟨[], []⟩ i = .error .index := by
  constructor
  · rfl
  · simp [getRowPlain, pyIdx_zero]

/-- ... and it is the ONLY deviation of `d[i]`: with at least one column the reference row access IS the plain one -/
theorem getRow_plain (r : Recs) (hc : r.cols ≠ []) (i : Int) : r.getRow i = getRowPlain r i := by
  have : r.cols.isEmpty = false := by cases h : r.cols <;> simp_all
  simp only [Recs.getRow, getRowPlain, this, Bool.false_eq_true, if_false]
  cases pyIdx r.rows.length i <;> rfl

/-- `cell_comm`'s error half without `t ≠ []`: on the no-column table NO index is an error -/
theorem cell_comm_nocols (i : Int) : pyIdx (0 : Nat) i = Option.none ∧ Table.getRow [] i ≠ .error .index := by
  refine ⟨pyIdx_zero i, ?_⟩
  rw [(row_nocols i).1]
  intro h; cases h

/-- **deviation 2 (a table without rows)**: `d.do(f, k)` for a key `k` the table does not have ADDS the empty column `k` when there is no row (the
comprehension over no row never looks the key up), where with at least one row it raises KeyError (`do_missing_key_rows`) -/
theorem do_missing_key_empty (t : Table) (f : DoFn) (k : String) (hr : t.Rect 0) (hk : t.has k = false) :
    ∃ t', t.doCols f (some [k]) = .ok t' ∧ k ∈ t'.cols := by
  have hn : t.nrows = 0 := by
    cases t with
    | nil => rfl
    | cons c t => exact hr c List.mem_cons_self
  have hlen := len_rect' hr
  refine ⟨t.set k [], ?_, ?_⟩
  · simp only [doCols, Option.getD_some, doKeys, doKey, hn, List.range_zero, mapE, setitem, hlen, ColVal.value,
      List.length_nil, beq_self_eq_true, Bool.true_or, if_true]
  · simp [Table.set, hk, cols]

/-- non-vacuity of `do_missing_key_empty`: a table with one column and no row, a key it lacks -/
example : Table.Rect [("a", [])] 0 ∧ Table.has [("a", [])] "zz" = false := by decide

/-- ... with at least one row the missing key is a KeyError, as for a list of records (`row['zz']`) -/
theorem do_missing_key_rows (t : Table) (f : DoFn) (k : String) (n : Nat) (hr : t.Rect (n + 1)) (hne : t ≠ [])
    (hk : t.has k = false) : t.doCols f (some [k]) = .error .key := by
  have hn : t.nrows = n + 1 := by
    cases t with
    | nil => exact absurd rfl hne
    | cons c t => exact hr c List.mem_cons_self
  have hc : t.col? k = Option.none := by
    unfold col?
    have : t.find? (·.1 == k) = Option.none := by
      rw [List.find?_eq_none]
      intro x hx hxk
      have : t.has k = true := by simp only [has, List.any_eq_true]; exact ⟨x, hx, hxk⟩
      simp [this] at hk
    simp [this]
  simp only [doCols, Option.getD_some, doKeys, doKey, hn, List.range_succ_eq_map, mapE, cellAt, hc, Option.map_none]

/-- non-vacuity of `do_missing_key_rows` -/
example : Table.Rect [("a", [Cell.int 1])] 1 ∧ Table.has [("a", [Cell.int 1])] "zz" = false := by decide

/-- **deviation 2, the `call` twin (a table without rows)**: `d(k = f)` for ANY callable `f` - also one whose parameter is no column of the table -
ADDS the empty column `k` when there is no row (`res.apply(f)` calls `f` once per row: never), where with at least one row such a callable is a
TypeError (`call_missing_param_rows`).  Open since review t1 (item 3). -/
theorem call_missing_param_empty (t : Table) (f : Fn) (k : String) (hr : t.Rect 0) :
    t.call [] [(k, f)] = .ok (t.set k []) ∧ k ∈ (t.set k []).cols := by
  have hn : t.nrows = 0 := by
    cases t with
    | nil => rfl
    | cons c t => exact hr c List.mem_cons_self
  have hlen := len_rect' hr
  refine ⟨?_, ?_⟩
  · have hu : t.update [] = (t, Option.none) := rfl
    simp only [call, updateE, hu, callLoop, List.length_cons, List.length_nil, Nat.lt_irrefl, gt_iff_lt, if_false, setFns, setFn,
      applyFnK, hn, List.range_zero, mapE, setitem, hlen, ColVal.value, beq_self_eq_true, Bool.true_or, if_true, Nat.zero_add]
  · by_cases hk : t.has k = true
    · simp only [Table.set, hk, if_true, cols, List.map_map, List.mem_map, Function.comp]
      simp only [has, List.any_eq_true] at hk
      obtain ⟨x, hx, hxk⟩ := hk
      refine ⟨x, hx, ?_⟩
      simp [hxk]
    · simp [Table.set, hk, cols]

/-- non-vacuity: a table with one column and no row, a callable reading a column it lacks -/
example : Table.Rect [("a", [])] 0 ∧ Table.call [("a", [])] [] [("k", .idcol "zz")] = .ok [("a", []), ("k", [])] := ⟨by decide, rfl⟩

/-- ... with at least one row a callable whose parameter is neither a column nor `key` is a TypeError, as `f(**row)` is for a list of records -/
theorem call_missing_param_rows (t : Table) (k zz : String) (n : Nat) (hr : t.Rect (n + 1)) (hne : t ≠ [])
    (hz : t.has zz = false) (hkey : zz ≠ "key") : t.call [] [(k, .idcol zz)] = .error .type := by
  have hn : t.nrows = n + 1 := by
    cases t with
    | nil => exact absurd rfl hne
    | cons c t => exact hr c List.mem_cons_self
  have hc : t.col? zz = Option.none := by
    unfold col?
    have : t.find? (·.1 == zz) = Option.none := by
      rw [List.find?_eq_none]
      intro x hx hxk
      have : t.has zz = true := by simp only [has, List.any_eq_true]; exact ⟨x, hx, hxk⟩
      simp [this] at hz
    simp [this]
  have hk' : (zz == "key") = false := by simpa using hkey
  have hu : t.update [] = (t, Option.none) := rfl
  simp only [call, updateE, hu, callLoop, List.length_cons, List.length_nil, Nat.lt_irrefl, gt_iff_lt, if_false, setFns, setFn,
    applyFnK, hn, List.range_succ_eq_map, mapE, Fn.eval, keyDflt, cellAt, hc, Option.map_none, hk', Bool.false_eq_true, Nat.zero_add]

example : Table.Rect [("a", [Cell.int 1])] 1 ∧ Table.has [("a", [Cell.int 1])] "zz" = false := by decide

end Pyg.Props.C01
