/- C01 — placeholder, theorems follow -/
import PygModel.Table

namespace Pyg.Props.C01
open Pyg

theorem step_query_len (s : Heap) (h : Nat) : (step s (.len h)).1 = s := by
  simp only [step]
  cases s[h]? <;> simp [Heap.query]
  split <;> rfl

end Pyg.Props.C01
