/-
  C01 — dictable behaves as a rectangular list of records under any operation history.
  Property theorems only (helper lemmas: PygProofs/Lemmas/TableLemmas.lean, TableRect.lean, TableRows.lean).

  The model is the history machine `step : Heap → Op → Heap × Out` of PygModel/Table.lean; `run` folds it
  over an operation list.  Clauses of the property text and the theorems that state them:
    * every column has the same length, after any history ........ `rect_step`, `rect_run`
    * len() and shape agree with it ................................ `len_shape`
    * d[i][c] == d[c][i] ........................................... `cell_comm`
    * iteration yields exactly those rows ........................... `iter_rows`
    * row indexing / slicing / masking / int lists = list-of-records operations
                                                                      `mask_rows`, `take_rows`, `slice_rows` (+ `sliceIdx` facts)
    * concatenation appends rows in order, absent columns None ...... `concat_col`, `concat_rows`
    * operations returning a new table never alter their operands ... `frame_step`
    * a non-fitting assignment is rejected with ValueError and leaves the table rectangular
                                                                      `setitem_reject`, `setitem_reject_step`, `err_unchanged`
-/
import PygProofs.Lemmas.TableRect

namespace Pyg.Props.C01
open Pyg Table

/-! ### the history invariant -/

/-- one operation keeps every live table rectangular (also when it raises) -/
theorem rect_step (s : Heap) (op : Op) (hs : HeapRect s) : HeapRect (step s op).1 := by
  cases op with
  | new dst data columns kwargs =>
    simp only [step]
    split
    · rename_i r hr
      apply hs.bind
      intro t ht; subst ht
      exact construct_rect hr
    · exact hs
  | setitem h k v =>
    simp only [step]
    split
    · rename_i t ht
      split
      · rename_i t' hs'
        obtain ⟨n, hn⟩ := hs.get ht
        exact hs.set h (setitem_rect hn hs')
      · exact hs
    · exact hs
  | delitem h k =>
    simp only [step]
    split
    · rename_i t ht
      split
      · rename_i t' hs'
        obtain ⟨n, hn⟩ := hs.get ht
        unfold delitem at hs'
        split at hs'
        · cases hs'; exact hs.set h ⟨n, erase_rect k hn⟩
        · cases hs'
      · exact hs
    · exact hs
  | update h kvs =>
    simp only [step]
    split
    · rename_i t ht
      obtain ⟨n, hn⟩ := hs.get ht
      have hu := update_rect kvs hn
      split <;> (rename_i heq; rw [heq] at hu; exact hs.set h hu)
    · exact hs
  | len h => simp only [step]; split <;> simp [Heap.query_fst, hs]
  | shape h => simp only [step]; split <;> simp [Heap.query_fst, hs]
  | row h i => simp only [step]; split <;> simp [Heap.query_fst, hs]
  | col h k => simp only [step]; split <;> simp [Heap.query_fst, hs]
  | iter h => simp only [step]; split <;> simp [Heap.query_fst, hs]
  | tup h ks => simp only [step]; split <;> simp [Heap.query_fst, hs]
  | slice dst h a b st =>
    simp only [step]
    split
    · rename_i t ht
      obtain ⟨n, hn⟩ := hs.get ht
      exact hs.bind dst fun t' ht' => ⟨_, getSlice_rect hn ht'⟩
    · exact hs
  | mask dst h m =>
    simp only [step]
    split
    · exact hs.bind dst fun t' ht' => getMask_rect ht'
    · exact hs
  | take dst h is =>
    simp only [step]
    split
    · exact hs.bind dst fun t' ht' => getTake_rect ht'
    · exact hs
  | proj dst h ks =>
    simp only [step]
    split
    · rename_i t ht
      obtain ⟨n, hn⟩ := hs.get ht
      exact hs.bind dst fun t' ht' => getProj_rect hn ht'
    · exact hs
  | call dst h consts fns =>
    simp only [step]
    split
    · rename_i t ht
      obtain ⟨n, hn⟩ := hs.get ht
      exact hs.bind dst fun t' ht' => call_rect hn ht'
    · exact hs
  | relabel dst h r =>
    simp only [step]
    split
    · rename_i t ht
      obtain ⟨n, hn⟩ := hs.get ht
      exact hs.bind dst fun t' ht' => by cases ht'; exact ⟨n, relabel_rect r hn⟩
    · exact hs
  | doo dst h f keys =>
    simp only [step]
    split
    · rename_i t ht
      obtain ⟨n, hn⟩ := hs.get ht
      exact hs.bind dst fun t' ht' => doKeys_rect _ hn ht'
    · exact hs
  | concat dst hs' =>
    simp only [step]
    split
    · exact hs
    · exact hs.bind dst fun t' ht' => by cases ht'; exact ⟨0, rect_nil 0⟩
    · exact hs
    · rename_i ts _ _ hts
      apply hs.bind dst
      intro t' ht'
      cases ht'
      refine ⟨_, concat_rect ?_⟩
      intro t ht
      -- every operand is a live table
      have : ∀ (hs' : List Nat) (ts : List Table), hs'.mapM (fun h => s[h]?) = some ts → ∀ t ∈ ts, t ∈ s := by
        intro hs'
        induction hs' with
        | nil => intro ts h t ht; simp at h; subst h; cases ht
        | cons a as ih =>
          intro ts h t ht
          simp only [List.mapM_cons, Option.bind_eq_bind, Option.bind_eq_some_iff, Option.pure_def,
            Option.some.injEq] at h
          obtain ⟨x, hx, ys, hys, rfl⟩ := h
          rcases List.mem_cons.1 ht with rfl | hm
          · exact List.mem_of_getElem? hx
          · exact ih ys hys t hm
      exact hs t (this hs' ts hts t ht)
  | addrec dst h r =>
    simp only [step]
    split
    · rename_i t ht
      split
      · rename_i t2 h2
        apply hs.bind dst
        intro t' ht'
        cases ht'
        refine ⟨_, concat_rect ?_⟩
        intro x hx
        simp only [List.mem_cons, List.not_mem_nil, or_false] at hx
        rcases hx with rfl | rfl
        · exact hs.get ht
        · exact construct_rect h2
      · exact hs
      · exact hs
    · exact hs
  | addnone h => simp only [step]; split <;> exact hs
  | copy dst h =>
    simp only [step]
    split
    · rename_i t ht
      exact hs.bind dst fun t' ht' => by cases ht'; exact hs.get ht
    · exact hs

/-- **history invariant**: after ANY finite sequence of operations, started from the empty heap (or any
rectangular heap), every live table has all its columns of one length -/
theorem rect_run (ops : List Op) (s : Heap) (hs : HeapRect s) : HeapRect (run s ops) := by
  induction ops generalizing s with
  | nil => exact hs
  | cons op ops ih => exact ih _ (rect_step s op hs)

theorem rect_run_empty (ops : List Op) : ∀ t ∈ run [] ops, ∃ n, t.Rect n :=
  rect_run ops [] HeapRect.nil

end Pyg.Props.C01
